import NixModel.Basic
import NixModel.Py.Slice
import NixModel.Pure.NdIndex
import NixModel.Pure.DataView

/-!
# Pure.ViewGen — vocabulary of `Generated/ViewShape.lean` (property C06)

`harness/extract/viewshape.py` compiles the bodies of `DataView.__init__`, `_expand_user_slices`,
`_transform_coordinates` (+ its local `transform_slice`), `_read_data`, `_write_data`
(`nixio/data_view.py`), of `DataArray._read_data`, `get_slice` and `_get_slice_bydim`
(`nixio/data_array.py`) from the Python AST into Lean definitions (`Generated/ViewShape.lean`).
This file holds what the generated code is written in:

* the Python built-ins the compiled statements use, over `Int` (Python's `int`):
  `sliceIndices` (`slice.indices` with an `int` length), `pyLen`, `pyCount` (`.count(Ellipsis)`),
  `pyIndexEllipsis` (`.index(Ellipsis)`), `pyTake`/`pyDrop` (`t[:i]`, `t[i:]`, negative `i` included),
  `pyRepeat` (`(x,) * n`), `shapeProd` (`ndarray.size`);
* the small *interpreters* that put the compiled pieces together the way the Python control flow
  does (`mkViewG`, `transformAxisG`, `transformG`, `viewReadG`, `viewWriteG`, `resultShapeG`,
  `getSliceG`); each takes the generated pieces as arguments.

`Lemmas/C06Gen.lean` proves each interpreter, applied to the generated pieces, equal to the
hand-written model of `Pure/DataView.lean` for all inputs (`Props/C06.lean`: `C06_source_*`).
An edit of the Python source therefore changes a generated definition and breaks a named theorem.
No Mathlib.
-/
namespace Nix.ViewGen
open Nix.Py Nix.NdIndex Nix.DataView

/-! ### Python built-ins -/

/-- `s.indices(length)` for a Python `int` length (negative ⇒ `ValueError`) -/
def sliceIndices (s : PySlice) (len : Int) : Except Err (Int × Int × Int) :=
  if len < 0 then .error .valueError else s.indices len.toNat

/-- `len(t)` -/
def pyLen {α : Type} (l : List α) : Int := (l.length : Int)

/-- `t.count(Ellipsis)` -/
def pyCount (l : List Ix) : Int := (countEllipsis l : Int)

/-- `t.index(Ellipsis)` (evaluated only when the count is 1) -/
def pyIndexEllipsis (l : List Ix) : Int := ((l.takeWhile fun i => !i.isEllipsis).length : Int)

/-- `t[:i]` -/
def pyTake {α : Type} (l : List α) (i : Int) : List α :=
  if i < 0 then l.take (l.length - (-i).toNat) else l.take i.toNat

/-- `t[i:]` -/
def pyDrop {α : Type} (l : List α) (i : Int) : List α :=
  if i < 0 then l.drop (l.length - (-i).toNat) else l.drop i.toNat

/-- `(x,) * n` -/
def pyRepeat {α : Type} (x : α) (n : Int) : List α := List.replicate n.toNat x

/-- `ndarray.size` -/
def shapeProd : List Nat → Nat
  | [] => 1
  | n :: rest => n * shapeProd rest

/-! ### `DataView.__init__` -/

/-- one `if self.valid and <test>: self._valid = False` statement; the predicate is compiled from
the Python test -/
inductive InitStep where
  /-- `len(slices) != len(da.shape)`-style test on the two lengths -/
  | lenTest (p : Int → Int → Bool)
  /-- `any(<p s.start s.stop e> for s, e in zip(slices, da.data_extent))` -/
  | anyZip (p : Int → Int → Int → Bool)
  /-- `any(<p s.start s.stop> for s in slices)` -/
  | anyOne (p : Int → Int → Bool)

def anyZipB (p : Int → Int → Int → Bool) : List Win → List Nat → Bool
  | w :: ws, n :: shape => p w.1 w.2 (n : Int) || anyZipB p ws shape
  | _, _ => false

def anyOneB (p : Int → Int → Bool) : List Win → Bool
  | [] => false
  | w :: ws => p w.1 w.2 || anyOneB p ws

/-- does this statement clear the flag? -/
def InitStep.fires : InitStep → List Win → List Nat → Bool
  | .lenTest p, ws, shape => p (pyLen ws) (pyLen shape)
  | .anyZip p, ws, shape => anyZipB p ws shape
  | .anyOne p, ws, _ => anyOneB p ws

/-- the flag after the guarded statements, run in source order (`self.valid and …` short-circuits:
once the flag is down nothing else is evaluated) -/
def runSteps : List InitStep → List Win → List Nat → Bool
  | [], _, _ => true
  | s :: rest, ws, shape => if s.fires ws shape then false else runSteps rest ws shape

/-- `tuple(slice(*sl.indices(dimlen)) for sl, dimlen in zip(slices, da.shape))` with the compiled
element expression `norm` -/
def normG (norm : PySlice → Int → Except Err (Int × Int × Int)) : List Win → List Nat → List Win
  | w :: ws, n :: shape =>
    (match norm ⟨some w.1, some w.2, none⟩ (n : Int) with
      | .ok (a, b, _) => (a, b)
      | .error _ => w) :: normG norm ws shape
  | _, _ => []

/-- `DataView(da, slices)`: first statement `self._valid = slices is not None and all(slices)`
(the translator refuses any other form), then the guarded tests, then the normalisation -/
def mkViewG (steps : List InitStep) (norm : PySlice → Int → Except Err (Int × Int × Int))
    (shape : List Nat) (slices : Option (List (Option Win))) : View :=
  match slices with
  | none => ⟨shape, false, []⟩
  | some sl =>
    match allSome sl with
    | none => ⟨shape, false, []⟩
    | some ws =>
      if runSteps steps ws shape then ⟨shape, true, normG norm ws shape⟩
      else ⟨shape, false, ws⟩

/-! ### `_transform_coordinates` -/

/-- the loop body: the compiled `isinstance(uslice, Integral)` branch, the compiled
`isinstance(uslice, slice)` branch, and the class raised by the final `else` -/
def transformAxisG (intB : Int → Int → Int → Except Err Int)
    (sliceB : PySlice → Int → Int → Except Err (Int × Int × Int)) (other : Err)
    (dv : Win) : Ix → Except Err Ix
  | .int i =>
    match intB i dv.1 dv.2 with
    | .error e => .error e
    | .ok t => .ok (.int t)
  | .slice s =>
    match sliceB s dv.1 dv.2 with
    | .error e => .error e
    | .ok (a, b, k) => .ok (.slice ⟨some a, some b, some k⟩)
  | .ellipsis => .error other

/-- `for uslice, dvslice in zip(user_slices, dvslices)` -/
def transformAxesG (axis : Win → Ix → Except Err Ix) : List Win → List Ix → Except Err (List Ix)
  | dv :: dvs, i :: ix =>
    match axis dv i with
    | .error e => .error e
    | .ok t =>
      match transformAxesG axis dvs ix with
      | .error e => .error e
      | .ok ts => .ok (t :: ts)
  | _, _ => .ok []

/-- `_transform_coordinates`: expand, then the loop -/
def transformG (expand : List Ix → Int → Except Err (List Ix)) (axis : Win → Ix → Except Err Ix)
    (v : View) (ix : List Ix) : Except Err (List Ix) :=
  match expand ix (pyLen v.window) with
  | .error e => .error e
  | .ok full => transformAxesG axis v.window full

/-! ### `_read_data` / `_write_data` -/

/-- the object handed to `__getitem__`: a bare component or a tuple -/
inductive IxArg where
  | single (i : Ix)
  | tuple (l : List Ix)
  deriving DecidableEq, Repr

/-- what `_expand_user_slices` makes of it (`(user_slices,)` for a non-iterable) -/
def IxArg.toList : IxArg → List Ix
  | .single i => [i]
  | .tuple l => l

/-- Python truthiness: `0` and `()` are falsy; other ints, slices, `Ellipsis`, non-empty tuples
are truthy -/
def IxArg.truthy : IxArg → Bool
  | .single (.int i) => decide (i ≠ 0)
  | .single _ => true
  | .tuple l => !l.isEmpty

/-- the test on `sl` that decides whether the index is transformed -/
inductive SlTest where
  | isNotNone | isNone | truthy | falsy
  deriving DecidableEq, Repr

def SlTest.eval : SlTest → Option IxArg → Bool
  | .isNotNone, sl => sl.isSome
  | .isNone, sl => sl.isNone
  | .truthy, none => false
  | .truthy, some a => a.truthy
  | .falsy, none => true
  | .falsy, some a => !a.truthy

/-- `DataView._read_data(sl)`: `if not self.valid: <invalid>`; `tsl = self._slices`;
`if <test sl>: tsl = self._transform_coordinates(sl)`; `return self.array._read_data(tsl)`.
(`_transform_coordinates(None)` ends in `TypeError`: `None` is neither integer nor slice.) -/
def viewReadG (invalid : Except Err Read) (test : SlTest)
    (tr : View → List Ix → Except Err (List Ix)) (v : View) (sl : Option IxArg) :
    Except Err Read :=
  if !v.valid then invalid
  else
    let tsl : Except Err (List Ix) :=
      if test.eval sl then
        (match sl with
          | some a => tr v a.toList
          | none => .error .typeError)
      else .ok (windowIx v.window)
    match tsl with
    | .error e => .error e
    | .ok tix =>
      match daRead v.parent tix with
      | .error e => .error e
      | .ok sel => .ok (.sel sel)

/-- `DataView._write_data(data, sl)` -/
def viewWriteG (invalid : Except Err (List AxisSel)) (test : SlTest)
    (tr : View → List Ix → Except Err (List Ix)) (v : View) (sl : Option IxArg) :
    Except Err (List AxisSel) :=
  if !v.valid then invalid
  else
    let tsl : Except Err (List Ix) :=
      if test.eval sl then
        (match sl with
          | some a => tr v a.toList
          | none => .error .typeError)
      else .ok (windowIx v.window)
    match tsl with
    | .error e => .error e
    | .ok tix => daWrite v.parent tix

/-! ### `DataArray._read_data`: the single-value rule -/

/-- `if <test data.shape>: data.shape = <new>` -/
def resultShapeG (test : List Nat → Bool) (new : List Nat) (shape : List Nat) : List Nat :=
  if test shape then new else shape

/-! ### `DataArray.get_slice` (index mode) -/

def zipWindowsG (win : Int → Int → Int × Int) : List Int → List Int → List Win
  | p :: ps, e :: es => win p e :: zipWindowsG win ps es
  | _, _ => []

/-- the two guards (compiled tests + the class they raise), then
`tuple(<win p e> for p, e in zip(positions, extents))` handed to `DataView` -/
def getSliceG (g1 : Int → Int → Bool) (e1 : Err) (g2 : Bool → Int → Int → Bool) (e2 : Err)
    (win : Int → Int → Int × Int) (mk : List Nat → Option (List (Option Win)) → View)
    (shape : List Nat) (positions : List Int) (extents : Option (List Int)) : Except Err View :=
  if g1 (pyLen positions) (pyLen shape) then .error e1
  else
    match extents with
    | none =>
      if g2 false 0 (pyLen shape) then .error e2
      else .error .typeError                 -- zip(positions, None)
    | some ext =>
      if g2 (!ext.isEmpty) (pyLen ext) (pyLen shape) then .error e2
      else .ok (mk shape (some ((zipWindowsG win positions ext).map some)))

end Nix.ViewGen
