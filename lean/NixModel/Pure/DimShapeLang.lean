import NixModel.Pure.Dim

/-!
# The decision shape of the three `index_of` methods, as data

`harness/extract/dims.py` translates the bodies of `SampledDimension.index_of`,
`RangeDimension.index_of` and `SetDimension.index_of` (`nixio/dimensions.py`) into terms of the
small language below — which comparison guards which branch, in which order, which rounding call,
which `np.where` scan, which result or exception per `IndexMode` — and writes them to
`Generated/DimShape.lean`.  `eval` gives the terms their meaning with the same NumPy stand-ins as the
hand-written model (`Pure/Dim.lean`); `NixModel/Props/C07.lean` proves the hand-written model equal
to `eval` of the generated terms for all inputs (`*_index_shape`), so an edited comparison, a
reordered guard, another rounding call or another result in the source breaks `lake build` on a
named theorem instead of having to be found by differential execution.

A sequence `if c: <body>; <rest>` is the tree `ite c (body ++ rest | body) rest` (the translator
appends `rest` where `body` can fall through); `index = int(np.f(x))` is `setIndex f x`.
-/
namespace Nix.Dim.Shape
open Nix Nix.Dim

/-- numeric operands of the comparisons -/
inductive Val where
  | position | scaled | index | zero
  /-- `ticks[0]`, `ticks[-1]` -/
  | first | last
  /-- `len(ticks) - 1` / `len(dim_labels) - 1` -/
  | lenMinus1
  deriving Repr, DecidableEq

inductive Test where
  | lt (a b : Val) | gt (a b : Val) | eq (a b : Val)
  /-- `np.isclose(a, b, …)`, the `call`-th such call of the method in source order -/
  | close (call : Nat) (a b : Val)
  /-- `mode == IndexMode.<m>` / `mode in (IndexMode.<m>, …)` -/
  | modeIs (m : String) | modeIn (ms : List String)
  /-- `dim_labels` / `len(dim_labels)` used as a truth value -/
  | hasLabels
  | and (a b : Test)
  deriving Repr

inductive Res where
  | index | indexPlus1 | indexMinus1 | zero | lenMinus1
  /-- `np.where(ticks <cmp> position)[0][-1]` / `[0][0]` with `cmp` one of `le lt ge gt` -/
  | whereLast (cmp : String) | whereFirst (cmp : String)
  deriving Repr

inductive Tree where
  | ret (r : Res)
  | raise (e : String)
  | ite (c : Test) (t e : Tree)
  | setIndex (f : String) (of : Val) (rest : Tree)
  deriving Repr

structure Env where
  position : Rat
  scaled : Rat := 0
  ticks : List Rat := []
  first : Rat := 0
  last : Rat := 0
  /-- number of ticks / labels -/
  len : Nat := 0
  mode : IndexMode
  /-- tolerances of the `np.isclose` calls in source order -/
  tols : List Gen.Tol := []

def evalVal (env : Env) (idx : Int) : Val → Rat
  | .position => env.position
  | .scaled => env.scaled
  | .index => (idx : Rat)
  | .zero => 0
  | .first => env.first
  | .last => env.last
  | .lenMinus1 => (env.len : Rat) - 1

/-- `a < b`, `a == b` on numbers, as Booleans -/
def ltB (a b : Rat) : Bool := decide (a < b)
def eqB (a b : Rat) : Bool := decide (a = b)

def evalTest (env : Env) (idx : Int) : Test → Bool
  | .lt a b => ltB (evalVal env idx a) (evalVal env idx b)
  | .gt a b => ltB (evalVal env idx b) (evalVal env idx a)
  | .eq a b => eqB (evalVal env idx a) (evalVal env idx b)
  | .close k a b =>
    match env.tols[k]? with
    | some t => isclose t (evalVal env idx a) (evalVal env idx b)
    | none => false
  | .modeIs m => decide (IndexMode.ofName m = env.mode)
  | .modeIn ms => ms.any fun m => decide (IndexMode.ofName m = env.mode)
  | .hasLabels => decide (env.len ≠ 0)
  | .and a b => evalTest env idx a && evalTest env idx b

def cmpOf (c : String) (pos : Rat) : Option (Rat → Bool) :=
  if c = "le" then some fun t => decide (t ≤ pos)
  else if c = "lt" then some fun t => decide (t < pos)
  else if c = "ge" then some fun t => decide (pos ≤ t)
  else if c = "gt" then some fun t => decide (pos < t)
  else none

def evalRes (env : Env) (idx : Int) : Res → Except Err Int
  | .index => .ok idx
  | .indexPlus1 => .ok (idx + 1)
  | .indexMinus1 => .ok (idx - 1)
  | .zero => .ok 0
  | .lenMinus1 => .ok ((env.len : Int) - 1)
  | .whereLast c =>
    match cmpOf c env.position with
    | some p => lastOr (whereFrom p env.ticks 0)
    | none => .error .runtimeError
  | .whereFirst c =>
    match cmpOf c env.position with
    | some p => firstOr (whereFrom p env.ticks 0)
    | none => .error .runtimeError

def errOf (e : String) : Err :=
  if e = "IndexError" then .indexError else if e = "ValueError" then .valueError else .runtimeError

def eval (env : Env) : Tree → Int → Except Err Int
  | .ret r, idx => evalRes env idx r
  | .raise e, _ => .error (errOf e)
  | .ite c t e, idx => if evalTest env idx c then eval env t idx else eval env e idx
  | .setIndex f v rest, idx => eval env rest (roundBy f (evalVal env idx v))

end Nix.Dim.Shape
