import NixModel.Basic
import NixModel.Py.Civil

/-!
# Pure.Time — `nixio/util/util.py`: `time_to_str`, `str_to_time`

```python
def time_to_str(time):
    dt = datetime.utcfromtimestamp(time)
    return dt.strftime("%Y%m%dT%H%M%S").encode("utf-8")

def str_to_time(time_str):
    if isinstance(time_str, bytes):
        time_str = time_str.decode()
    dt = datetime.strptime(time_str, "%Y%m%dT%H%M%S") - datetime(1970, 1, 1)
    return int(dt.total_seconds())
```

CPython's `datetime` is replaced by `Py.Civil` (DESIGN §7 C19, *Partial*):

* `utcfromtimestamp t` = day `⌊t / 86400⌋` after 1970-01-01 plus `t mod 86400` seconds, refused
  (ValueError / OverflowError / OSError in CPython, one class `valueError` here) when the year
  falls outside 1 … 9999;
* `strftime`: `%Y` is the year in decimal **without padding** (glibc; observed `'9700831T000000'`
  for a year-970 time stamp), the other fields are two digits;
* `strptime` is modelled on the canonical shape only — 15 characters `dddddddd'T'dddddd`
  (`'t'` is accepted as well: `_strptime` compiles the format case-insensitively).  CPython's
  parser is more liberal (one-digit month/day/hour/minute/second, a blank before a one-digit day);
  such strings are never written by nixio for years ≥ 1000 and `canonicalShape` tells the harness
  which inputs are inside the modelled domain.  Field values are validated as `strptime` +
  `datetime(...)` do (month 1..12, day within the month, hour < 24, minute < 60, second < 60,
  year ≥ 1), everything else is `valueError`.
-/
namespace Nix.Time
open Nix.Civil

abbrev Str := List Char

instance instDecEqExcept {ε α : Type} [DecidableEq ε] [DecidableEq α] : DecidableEq (Except ε α)
  | .ok a, .ok b => if h : a = b then isTrue (h ▸ rfl) else isFalse (fun h' => h (Except.ok.inj h'))
  | .error a, .error b =>
    if h : a = b then isTrue (h ▸ rfl) else isFalse (fun h' => h (Except.error.inj h'))
  | .ok _, .error _ => isFalse (fun h => nomatch h)
  | .error _, .ok _ => isFalse (fun h => nomatch h)

/-- ASCII digit of `n % 10` -/
def digitChar (n : Nat) : Char := Char.ofNat (48 + n % 10)

def isDigit (c : Char) : Bool := 48 ≤ c.toNat && c.toNat ≤ 57
def digitVal (c : Char) : Nat := c.toNat - 48

/-- two-digit field (`%m %d %H %M %S`) -/
def pad2 (n : Nat) : Str := [digitChar (n / 10), digitChar n]

/-- `%Y` of glibc: decimal, not padded (years 1 … 9999) -/
def yearDigits (y : Nat) : Str :=
  if y < 10 then [digitChar y]
  else if y < 100 then [digitChar (y / 10), digitChar y]
  else if y < 1000 then [digitChar (y / 100), digitChar (y / 10), digitChar y]
  else [digitChar (y / 1000), digitChar (y / 100), digitChar (y / 10), digitChar y]

/-- `time_to_str` (the bytes are ASCII; modelled as the character list) -/
def timeToStr (t : Int) : Except Err Str :=
  let days := t / 86400              -- floor (Int `/` is Euclidean, divisor positive)
  let sod := (t % 86400).toNat       -- second of the day, 0 … 86399
  let z := days + (epochShift : Int)
  if z < 0 then .error .valueError   -- before 0000-03-01: year < 1
  else
    let c := civilOfDay z.toNat
    if c.1 < 1 || c.1 > 9999 then .error .valueError
    else .ok (yearDigits c.1 ++ pad2 c.2.1 ++ pad2 c.2.2 ++ ['T'] ++
              pad2 (sod / 3600) ++ pad2 (sod % 3600 / 60) ++ pad2 (sod % 60))

def num2 (a b : Char) : Nat := digitVal a * 10 + digitVal b
def num4 (a b c d : Char) : Nat := digitVal a * 1000 + digitVal b * 100 + digitVal c * 10 + digitVal d

/-- the shape on which `strToTime` models `strptime` exactly -/
def canonicalShape (s : Str) : Bool :=
  match s with
  | [y1, y2, y3, y4, m1, m2, d1, d2, sep, h1, h2, n1, n2, s1, s2] =>
    (sep == 'T' || sep == 't') &&
      [y1, y2, y3, y4, m1, m2, d1, d2, h1, h2, n1, n2, s1, s2].all isDigit
  | _ => false

/-- `str_to_time` on a stored attribute value (`bytes` or `str`) -/
def strToTime (s : Str) : Except Err Int :=
  match s with
  | [y1, y2, y3, y4, m1, m2, d1, d2, sep, h1, h2, n1, n2, s1, s2] =>
    if (sep == 'T' || sep == 't') &&
        [y1, y2, y3, y4, m1, m2, d1, d2, h1, h2, n1, n2, s1, s2].all isDigit then
      let y := num4 y1 y2 y3 y4
      let m := num2 m1 m2
      let d := num2 d1 d2
      let hh := num2 h1 h2
      let mm := num2 n1 n2
      let ss := num2 s1 s2
      if validDate y m d && hh ≤ 23 && mm ≤ 59 && ss ≤ 59 then
        .ok ((((dayOfCivil y m d : Nat) : Int) - (epochShift : Int)) * 86400
              + ((hh * 3600 + mm * 60 + ss : Nat) : Int))
      else .error .valueError
    else .error .valueError
  | _ => .error .valueError

/-- the whole seconds 1970-01-01T00:00:00 … 2099-12-31T23:59:59 -/
def InRange (t : Int) : Prop := 0 ≤ t ∧ t < 4102444800

instance (t : Int) : Decidable (InRange t) := by unfold InRange; infer_instance

end Nix.Time
