import NixModel.Pure.FrameFx
/-!
# Pure.FrameBlock — the data frames of a block (`Block.create_data_frame`, `Block.data_frames`)

The single-frame models say what one data frame holds.  This file adds the group `data_frames` of a block: frames are
created under a name, looked up by name, copied (`create_data_frame(name, copy_from=frame)`), and every `DataFrame`
operation addresses the one frame it was called on.

 * `create_data_frame(name, …)`: `util.check_entity_name_and_type`, then `if name in data_frames: raise DuplicateName`
   **before** anything else is looked at, then schema derivation and conversion of the data (which may refuse), then
   `DataFrame.create_new` + `write_direct` inside a handler that removes a half-built frame (fix 51bc882): a refused
   creation leaves the block as it was.
 * `copy_from`: `_copy_objects` refuses an existing name (NameError, reported as DuplicateName here) and copies the
   HDF5 group: the copy holds the same table and is a frame of its own.
-/
namespace Nix.Frame

/-- the group `data_frames`: the frames by name, in creation order -/
structure Blk where
  frames : List (String × SFrame)
  deriving Inhabited

def Blk.names (b : Blk) : List String := b.frames.map (·.1)

def lookup (name : String) : List (String × SFrame) → Option SFrame
  | [] => none
  | (n, s) :: rest => if n = name then some s else lookup name rest

/-- `block.data_frames[name]` -/
def Blk.find (b : Blk) (name : String) : Option SFrame := lookup name b.frames

/-- `create_data_frame(name, …)`; `made` is what schema derivation, conversion and storing give -/
def blkCreate (b : Blk) (name : String) (made : Except Err SFrame) : Blk × Option Err :=
  if name ∈ b.names then (b, some .duplicateName)
  else match made with
    | .error e => (b, some e)
    | .ok s => (⟨b.frames ++ [(name, s)]⟩, none)

/-- `create_data_frame(name, copy_from=<the frame called src>)` -/
def blkCopy (b : Blk) (src name : String) : Blk × Option Err :=
  match b.find src with
  | none => (b, some .keyError)
  | some s => if name ∈ b.names then (b, some .duplicateName) else (⟨b.frames ++ [(name, s)]⟩, none)

def replace (name : String) (s' : SFrame) : List (String × SFrame) → List (String × SFrame)
  | [] => []
  | (n, s) :: rest => if n = name then (n, s') :: rest else (n, s) :: replace name s' rest

/-- a `DataFrame` operation `g` on the frame called `name` -/
def blkUpdate (b : Blk) (name : String) (g : SFrame → SFrame × Option Err) : Blk × Option Err :=
  match b.find name with
  | none => (b, some .keyError)
  | some s => (⟨replace name (g s).1 b.frames⟩, (g s).2)

/-- `del data_frames[name]` -/
def removeName (name : String) : List (String × SFrame) → List (String × SFrame)
  | [] => []
  | (n, s) :: rest => if n = name then removeName name rest else (n, s) :: removeName name rest

/-- creation, effect by effect, on the block: name check, NumPy's conversion of the data (before anything is
    created), `DataFrame.create_new` (group + dataset of the final length: a half-built frame is in the block),
    `write_direct` (h5py's stage) — and the handler that removes the half-built frame when that fails -/
def fxBlkCreate (b : Blk) (name : String) (cols : List (String × ColType)) (data : Option (List (List Val))) :
    Blk × Option Err :=
  if name ∈ b.names then (b, some .duplicateName) else
  match mkDtype cols with
  | .error e => (b, some e)
  | .ok c =>
    match npRows (c.map (·.2)) (data.getD []) with
    | .error e => (b, some e)
    | .ok rs =>
      if c.isEmpty then (b, some .valueError) else
      -- df = DataFrame.create_new(…, shape, col_dtype, …): the frame exists, its rows are not written yet
      let half : Blk := ⟨b.frames ++ [(name, ⟨c, List.replicate rs.length (fillRow (c.map (·.2))), none⟩)]⟩
      if h5RowsOk (c.map (·.2)) rs then
        (⟨b.frames ++ [(name, ⟨c, rs.map encRow, none⟩)]⟩, none)     -- df.write_direct(data)
      else
        (⟨removeName name half.frames⟩, some .typeError)   -- except: del data_frames[name]; raise

end Nix.Frame
