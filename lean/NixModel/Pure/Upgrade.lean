import NixModel.Basic
import NixModel.Py.UuidText

/-!
# Model of `nixio/cmd/upgrade.py` (format upgrade of old NIX files)

The abstract old-format file keeps exactly what the upgrade inspects or rewrites:

* header: `version` attribute, `id` attribute;
* every dataset below `/metadata` (`props`, keyed by the list of HDF5 path components below
  `/metadata`, in *creation order*: deleting and re-creating a dataset moves it to the end of
  its group, which is the container order nixio shows), either compound-typed (old layout:
  one row per value with the per-value extras) or plain (new layout);
* every data array with its dimension groups (`arrays`, in the iteration order of
  `hfile["data"].values()` / `block["data_arrays"].values()`), each dimension with its own
  `ticks`, its `link` group and the old alias link named like the array's id;
* `other`: a digest of everything else (never touched).

`collect` mirrors `collect_tasks` (`upgrade.py:220-245`) flattened to individual steps (one step
per `h5py.File(fname, "a")` the task list opens): optional id step, one step per compound
property in `visititems` order (depth-first, link names ascending = lexicographic order of the
component lists), one step per alias range dimension, version bump last.  `applyStep` mirrors the
closures (`add_id` :29-35, the body of the loop in `update_props` :61-115, of `update_alias_dims`
:164-186, `update_ver` :213-214) branch for branch, including the re-checked preconditions and
the places where h5py raises (a failing step leaves its partial effects in the file: the `with`
block closes the file normally).

Fresh ids and timestamps are `Id.fresh run` / `Stamp.now run`: `uuid4()` values and clock
readings of the `run`-th invocation of the upgrade; `erase` forgets the run.
-/
namespace Nix.Upgrade

abbrev Path := List String

inductive Id where
  | orig (s : String)
  | fresh (run : Nat)
  deriving DecidableEq, Repr

inductive Stamp where
  | orig (s : String)
  | now (run : Nat)
  deriving DecidableEq, Repr

inductive FileId where
  | absent
  | text (s : String)
  | fresh (run : Nat)
  deriving DecidableEq, Repr

/-- an IEEE double as the upgrade sees it: a finite value (the exact rational it denotes; `-0.0` and
`0.0` are the same for `set`, `any` and `==`), NaN, or an infinity -/
inductive Flt where
  | fin (r : Rat)
  | nan
  | inf (neg : Bool)
  deriving DecidableEq, Repr

/-- truth value of a double (`any(uncertainty)`): everything but zero, NaN included -/
def Flt.truthy : Flt → Bool
  | .fin r => r != 0
  | _ => true

/-- `len(set(xs))` of the doubles obtained by iterating a NumPy array: equal values collapse, every NaN
stays (a NaN is unequal to every value, itself included, and each iteration makes a new scalar object) -/
def distinctCount (xs : List Flt) : Nat :=
  (xs.filter (· != Flt.nan)).eraseDups.length + xs.count Flt.nan

inductive Val where
  | str (s : String)
  | int (i : Int)
  | flt (x : Flt)
  | bool (b : Bool)
  deriving DecidableEq, Repr

/-- one row of the old compound property dataset -/
structure OldRow where
  value : Val
  uncertainty : Flt
  reference : String
  filename : String
  encoder : String
  checksum : String
  deriving DecidableEq, Repr

structure OldProp where
  dtype : String
  rows : List OldRow
  definition : Option String
  unit : Option String
  deriving DecidableEq, Repr

structure NewProp where
  id : Id
  created : Stamp
  updated : Stamp
  dtype : String
  values : List Val
  definition : Option String
  unit : Option String
  uncertainty : Option Flt
  deriving DecidableEq, Repr

inductive PObj where
  | old (p : OldProp)
  | new (p : NewProp)
  deriving DecidableEq, Repr

structure Link where
  id : Id
  created : Stamp
  updated : Stamp
  dataObjectType : String
  index : List Int
  target : String
  deriving DecidableEq, Repr

structure Dim where
  name : String
  dimType : String
  ticks : Option String
  unit : Option String
  label : Option String
  /-- the dimension group holds a link named like the parent array's `entity_id` (old alias) -/
  alias : Bool
  link : Option Link
  deriving DecidableEq, Repr

structure Arr where
  path : String
  id : String
  data : String
  unit : Option String
  label : Option String
  dims : List Dim
  deriving DecidableEq, Repr

structure File where
  version : List Nat
  id : FileId
  props : List (Path × PObj)
  arrays : List Arr
  other : String
  deriving DecidableEq, Repr

inductive Step where
  | addId
  | prop (p : Path)
  | dim (arr : String) (dim : String)
  | bump
  deriving DecidableEq, Repr

/-! ## `nix.util.is_uuid`: `uuid.UUID(str)` acceptance, complete (`NixModel/Py/UuidText.lean`: `urn:` / `uuid:`
removed, braces stripped, hyphens dropped, 32 characters that `int(text, 16)` accepts — blanks around, a sign, `0x`,
single underscores between digits and non-ASCII decimal digits included) -/

def isUuid (s : String) : Bool := Nix.Py.uuidAccepts s

/-- `has_valid_file_id` (:13-18): `fileid and nix.util.is_uuid(fileid)` -/
def hasValidId (f : File) : Bool :=
  match f.id with
  | .absent => false
  | .text s => s != "" && isUuid s
  | .fresh _ => true

/-! ## collecting the steps -/

def oldPaths (ps : List (Path × PObj)) : List Path :=
  ps.filterMap fun e => match e.2 with | .old _ => some e.1 | .new _ => none

def pathLe (a b : Path) : Bool := decide (a ≤ b)

/-- `sections.visititems(find_props)` (:46-54): compound datasets in visit order -/
def propTasks (f : File) : List Path := (oldPaths f.props).mergeSort pathLe

/-- the test at :154-155 -/
def isAliasDim (d : Dim) : Bool := d.ticks.isNone && d.link.isNone && d.alias

def aliasDims (as : List Arr) : List (String × String) :=
  as.flatMap fun a => (a.dims.filter isAliasDim).map fun d => (a.path, d.name)

/-- `file_ver >= nix.file.HDF_FF_VERSION` on tuples -/
def upToDate (lib : List Nat) (f : File) : Bool := decide (lib ≤ f.version)

/-- `collect_tasks` (:220-245), flattened -/
def collect (lib : List Nat) (f : File) : List Step :=
  if upToDate lib f then []
  else
    (if hasValidId f then [] else [Step.addId])
      ++ (propTasks f).map Step.prop
      ++ (aliasDims f.arrays).map (fun ad => Step.dim ad.1 ad.2)
      ++ [Step.bump]

/-! ## the steps -/

def extraPath : Path → String → Path
  | [], s => [s]
  | [a], s => [a ++ s]
  | a :: as, s => a :: extraPath as s

def hasPath (ps : List (Path × PObj)) (p : Path) : Bool := ps.any (·.1 == p)

def lookup (ps : List (Path × PObj)) (p : Path) : Option PObj :=
  (ps.find? (·.1 == p)).map (·.2)

/-- `create_property` on each entry in turn; `create_dataset` raises when the name exists
(what was created before stays) -/
def createAll : List (Path × PObj) → List (Path × PObj) → List (Path × PObj) × Option Err
  | ps, [] => (ps, none)
  | ps, e :: es => if hasPath ps e.1 then (ps, some .valueError) else createAll (ps ++ [e]) es

def nonEmpty (o : Option String) : Option String := o.filter (· != "")

def freshProp (run : Nat) (dtype : String) (values : List Val) : NewProp :=
  { id := .fresh run, created := .now run, updated := .now run, dtype := dtype, values := values,
    definition := none, unit := none, uncertainty := none }

/-- the objects one property conversion creates, in order (:83-115) -/
def converted (run : Nat) (p : Path) (o : OldProp) : List (Path × PObj) :=
  let us := o.rows.map (·.uncertainty)
  let many := decide (distinctCount us > 1)
  let main : NewProp :=
    { freshProp run o.dtype (o.rows.map (·.value)) with
      definition := nonEmpty o.definition, unit := nonEmpty o.unit,
      uncertainty := if many then none else if us.any Flt.truthy then us.head? else none }
  let strExtra (suf : String) (sel : OldRow → String) : List (Path × PObj) :=
    if o.rows.any (fun r => sel r != "") then
      [(extraPath p suf, .new (freshProp run "str" (o.rows.map fun r => .str (sel r))))]
    else []
  [(p, PObj.new main)]
    ++ (if many then [(extraPath p ".uncertainty", .new (freshProp run "float64" (us.map .flt)))] else [])
    ++ strExtra ".reference" (·.reference)
    ++ strExtra ".filename" (·.filename)
    ++ strExtra ".encoder" (·.encoder)
    ++ strExtra ".checksum" (·.checksum)

/-- the test before anything is changed (`needed`, `propname + suffix in hfile`): is the name of one of the
`<name><suffix>` properties the conversion has to create taken? (`es` = `converted …`: the main property, then
exactly the needed extras) -/
def nameTaken (ps : List (Path × PObj)) (es : List (Path × PObj)) : Bool :=
  es.tail.any fun e => hasPath ps e.1

/-- body of the loop in `update_props`: re-check, refusal when a needed name is taken (the file is left as it
is), then delete and create -/
def convertProp (run : Nat) (f : File) (p : Path) : File × Option Err :=
  match lookup f.props p with
  | none => (f, some .keyError)
  | some (.new _) => (f, none)
  | some (.old o) =>
    if nameTaken f.props (converted run p o) then (f, some .valueError)
    else
      let r := createAll (f.props.filter (·.1 != p)) (converted run p o)
      ({ f with props := r.1 }, r.2)

def newLink (run : Nat) (daid : String) : Link :=
  { id := .fresh run, created := .now run, updated := .now run, dataObjectType := "DataArray",
    index := [-1], target := daid }

/-- body of the loop in `update_alias_dims` (:164-186) on one dimension group -/
def convertDimObj (run : Nat) (daid : String) (d : Dim) : Dim × Option Err :=
  if d.ticks.isSome || (d.link.isSome && !d.alias) then (d, none)
  else if d.link.isSome then (d, some .valueError)          -- create_h5group: name exists
  else
    let d' := { d with link := some (newLink run daid) }
    if d.alias then ({ d' with alias := false }, none)
    else (d', some .keyError)                               -- del dim[daid]

def updDims (run : Nat) (daid : String) (dn : String) : List Dim → Option (List Dim × Option Err)
  | [] => none
  | d :: ds =>
    if d.name == dn then
      let r := convertDimObj run daid d
      some (r.1 :: ds, r.2)
    else (updDims run daid dn ds).map fun r => (d :: r.1, r.2)

def updArrs (run : Nat) (ap dn : String) : List Arr → Option (List Arr × Option Err)
  | [] => none
  | a :: as =>
    if a.path == ap then
      (updDims run a.id dn a.dims).map fun r => ({ a with dims := r.1 } :: as, r.2)
    else (updArrs run ap dn as).map fun r => (a :: r.1, r.2)

def convertDim (run : Nat) (f : File) (ap dn : String) : File × Option Err :=
  match updArrs run ap dn f.arrays with
  | none => (f, some .keyError)                              -- hfile[dimname]
  | some r => ({ f with arrays := r.1 }, r.2)

def applyStep (lib : List Nat) (run : Nat) (f : File) : Step → File × Option Err
  | .addId => if hasValidId f then (f, none) else ({ f with id := .fresh run }, none)
  | .prop p => convertProp run f p
  | .dim a d => convertDim run f a d
  | .bump => ({ f with version := lib }, none)

/-- `process_tasks` (:264-270): the first exception ends the run -/
def runSteps (lib : List Nat) (run : Nat) : File → List Step → File × Option Err
  | f, [] => (f, none)
  | f, s :: ss =>
    match applyStep lib run f s with
    | (f', none) => runSteps lib run f' ss
    | (f', some e) => (f', some e)

/-- `file_upgrade` (:273-294): the file afterwards, and `none` iff it returns `True` -/
def upgrade (lib : List Nat) (run : Nat) (f : File) : File × Option Err :=
  runSteps lib run f (collect lib f)

/-- the upgrade interrupted when it is about to open the file for its `k`-th step (0-based) -/
def interrupt (lib : List Nat) (run : Nat) (k : Nat) (f : File) : File × Option Err :=
  runSteps lib run f ((collect lib f).take k)

/-! ## forgetting which run produced an id / a timestamp -/

def Id.erase : Id → Id | .orig s => .orig s | .fresh _ => .fresh 0
def Stamp.erase : Stamp → Stamp | .orig s => .orig s | .now _ => .now 0
def FileId.erase : FileId → FileId | .fresh _ => .fresh 0 | x => x

def PObj.erase : PObj → PObj
  | .old p => .old p
  | .new p => .new { p with id := p.id.erase, created := p.created.erase, updated := p.updated.erase }

def Link.erase (l : Link) : Link :=
  { l with id := l.id.erase, created := l.created.erase, updated := l.updated.erase }

def Dim.erase (d : Dim) : Dim := { d with link := d.link.map Link.erase }
def Arr.erase (a : Arr) : Arr := { a with dims := a.dims.map Dim.erase }

def File.erase (f : File) : File :=
  { f with id := f.id.erase, props := f.props.map (fun e => (e.1, e.2.erase)),
           arrays := f.arrays.map Arr.erase }

/-! ## opening for writing (`file.py:32-39,152-168`) -/

def openRW (lib : List Nat) (f : File) : Except Err Unit :=
  if f.version.length != 3 then .error .runtimeError
  else if lib != f.version then .error .runtimeError
  else if decide (([1, 2, 0] : List Nat) ≤ f.version) && !hasValidId f then .error .runtimeError
  else .ok ()

/-! ## readers (`property.py:149-172,232-244`, `dimensions.py:548-625`) -/

structure PropView where
  dtype : String
  values : List Val
  definition : Option String
  unit : Option String
  deriving DecidableEq, Repr

/-- what `values` / `unit` / `definition` read from a property dataset of either layout
(an empty attribute text reads as no attribute) -/
def PObj.view : PObj → PropView
  | .old o => ⟨o.dtype, o.rows.map (·.value), nonEmpty o.definition, nonEmpty o.unit⟩
  | .new n => ⟨n.dtype, n.values, nonEmpty n.definition, nonEmpty n.unit⟩

/-- per-value uncertainties as retrievable after the upgrade: the `<name>.uncertainty` property if
there is one, otherwise the `uncertainty` attribute (absent = 0) for every value -/
def extraUnc (ps : List (Path × PObj)) (p : Path) : Option (List Flt) :=
  match lookup ps p with
  | some (.new n) =>
    match lookup ps (extraPath p ".uncertainty") with
    | some (.new u) => some (u.values.map fun v => match v with | .flt x => x | _ => .fin 0)
    | _ => some (n.values.map fun _ => n.uncertainty.getD (.fin 0))
  | _ => none

/-- per-value text extras as retrievable after the upgrade: the `<name><suf>` property if there is
one, otherwise empty for every value -/
def extraStr (ps : List (Path × PObj)) (p : Path) (suf : String) : Option (List String) :=
  match lookup ps p with
  | some (.new n) =>
    match lookup ps (extraPath p suf) with
    | some (.new u) => some (u.values.map fun v => match v with | .str s => s | _ => "")
    | _ => some (n.values.map fun _ => "")
  | _ => none

structure DimView where
  ticks : String
  unit : Option String
  label : Option String
  deriving DecidableEq, Repr

/-- `RangeDimension.is_alias` (:548-564); the dimension group's children are `ticks`, `link` and
the alias link -/
def isAliasRead (d : Dim) : Bool :=
  if d.ticks.isSome then false
  else if d.link.isNone && d.alias then true
  else match d.link with
    | some l => l.dataObjectType == "DataArray"
    | none => false

/-- `RangeDimension.ticks/unit/label` (:578-625) of a dimension of array `a`; the alias link and
the link group's only member both lead to `a` -/
def readDim (a : Arr) (d : Dim) : DimView :=
  if isAliasRead d && d.link.isNone then ⟨a.data, a.unit, a.label⟩
  else match d.link with
    | some _ => ⟨a.data, a.unit, a.label⟩
    | none => ⟨d.ticks.getD "[]", d.unit, d.label⟩

end Nix.Upgrade
