import NixModel.Pure.Tagging

/-!
# How a reference / a feature is addressed (`refidx`, `featidx`) — `nixio/container.py`, `nixio/tag.py`,
`nixio/multi_tag.py`

`Tag.tagged_data(refidx)`, `MultiTag.tagged_data(posidx, refidx)` and the two `feature_data(…, featidx)` accept an
index (negative ones count from the end), an id or a name; the lookups are

* `posOf`            — `Container.__getitem__(int)`: `item < 0 ⇒ item += len`, outside ⇒ `IndexError`,
                       else `get_by_pos` = the link with that *creation-order* position
* `refLookup`        — `LinkContainer.__getitem__`: `is_uuid(identifier) and identifier in backend` ⇒ the link of that
                       name (a linked entity's link name is its id); otherwise the first linked entity (creation order)
                       whose `name` attribute equals the identifier; otherwise `KeyError`
* `featLookup`       — `FeatureContainer.__getitem__` (a feature's group name is its id, so `get_by_id_or_name` finds
                       the feature with that id whether or not the text parses as a UUID), on `KeyError` the first
                       feature whose `data.id` or `data.name` equals the identifier (the same scan is repeated in
                       `feature_data`), otherwise `KeyError`; an object that is neither `int` nor text is a `TypeError`
                       of h5py
* `Tag.taggedDataBy`, `MultiTag.taggedDataBy`, `Tag.featureDataBy`, `MultiTag.featureDataBy` — the public methods
  with the checks they make *before* the lookup (`len(references) == 0`, `isinstance(refidx, int) and refidx >= len`,
  the position index test of a multi-tag, `len(self.features) == 0`), then the lookup, then the region computation of
  `Pure/Tagging.lean` on the array / with the link type of the entity that was found.

The lists are in creation order: `get_by_pos` iterates the creation-order index and `for grp in backend` iterates
h5py groups created with link-creation-order tracking, which the correspondence checks on real files (including a
removal and a re-append in between).  `is_uuid` is CPython's `uuid.UUID(str(x))`; its verdict travels with the key.
-/
namespace Nix.Tagging
open Nix.Dim Nix.DataView Nix.Units

/-- how a caller addresses a reference / feature -/
inductive Key where
  /-- an `int` (a `bool` is one) -/
  | idx (i : Int)
  /-- a `str`; `uuid` = `util.is_uuid(s)` -/
  | text (s : Str) (uuid : Bool)
  /-- anything else: an entity object, a float, a NumPy integer -/
  | other
  deriving Repr

/-- a linked (referenced) array: its id (= the link's name), its name, and what the region computation reads -/
structure RefEnt where
  id : Str
  name : Str
  arr : Arr
  deriving Repr

/-- a feature: its id (= its group's name), the id and name of its data array, the link type, the data array -/
structure FeatEnt where
  id : Str
  dataId : Str
  dataName : Str
  link : LinkType
  data : Arr
  deriving Repr

/-- `Container.__getitem__(int)` on a container of `n` items -/
def posOf (n : Nat) (i : Int) : Except Err Nat :=
  let j := if i < 0 then (n : Int) + i else i
  if j < 0 ∨ j ≥ (n : Int) then .error .indexError else .ok j.toNat

/-- `LinkContainer.__getitem__(identifier)` -/
def refLookup (refs : List RefEnt) : Key → Except Err Nat
  | .idx i => posOf refs.length i
  | .text s uuid =>
    match (if uuid then refs.findIdx? (fun r => r.id == s) else none) with
    | some k => .ok k
    | none =>
      match refs.findIdx? (fun r => r.name == s) with
      | some k => .ok k
      | none => .error .keyError
  | .other => .error .keyError

/-- `self.features[featidx]` with the fallback scan over the features' data arrays -/
def featLookup (feats : List FeatEnt) : Key → Except Err Nat
  | .idx i => posOf feats.length i
  | .text s _ =>
    match feats.findIdx? (fun f => f.id == s) with
    | some k => .ok k
    | none =>
      match feats.findIdx? (fun f => f.dataName == s || f.dataId == s) with
      | some k => .ok k
      | none => .error .keyError
  | .other => .error .typeError

/-- `isinstance(refidx, int) and refidx >= len(references)` -/
def keyBeyond (n : Nat) : Key → Bool
  | .idx i => decide (i ≥ (n : Int))
  | _ => false

/-- `Tag.tagged_data(refidx, stop_rule)` -/
def Tag.taggedDataBy (t : TagDesc) (refs : List RefEnt) (key : Key) (stop : SliceMode) : Except Err View :=
  if refs.length = 0 then .error .outOfBounds
  else if keyBeyond refs.length key then .error .outOfBounds
  else
    match refLookup refs key with
    | .error e => .error e
    | .ok k =>
      match refs[k]? with
      | none => .error .indexError
      | some r => Tag.taggedData t refs.length k r.arr stop

/-- `MultiTag.tagged_data(posidx, refidx, stop_rule)` -/
def MultiTag.taggedDataBy (t : MTagDesc) (refs : List RefEnt) (posidx : Nat) (key : Key) (stop : SliceMode) :
    Except Err View :=
  if refs.length = 0 then .error .outOfBounds
  else if posidx ≥ t.positions.len ∨ extBeyond t.extents posidx = true then .error .outOfBounds
  else
    match refLookup refs key with
    | .error e => .error e
    | .ok k =>
      match refs[k]? with
      | none => .error .indexError
      | some r => MultiTag.taggedData t refs.length posidx k r.arr stop

/-- `Tag.feature_data(featidx, stop_rule)` -/
def Tag.featureDataBy (t : TagDesc) (feats : List FeatEnt) (key : Key) (stop : SliceMode) : Except Err View :=
  if feats.length = 0 then .error .outOfBounds
  else
    match featLookup feats key with
    | .error e => .error e
    | .ok k =>
      match feats[k]? with
      | none => .error .indexError
      | some f => Tag.featureData t feats.length f.link f.data stop

/-- `MultiTag.feature_data(posidx, featidx, stop_rule)` -/
def MultiTag.featureDataBy (t : MTagDesc) (feats : List FeatEnt) (posidx : Nat) (key : Key) (stop : SliceMode) :
    Except Err View :=
  if feats.length = 0 then .error .outOfBounds
  else
    match featLookup feats key with
    | .error e => .error e
    | .ok k =>
      match feats[k]? with
      | none => .error .indexError
      | some f => MultiTag.featureData t feats.length posidx f.link f.data stop

/-! ## calls without `stop_rule`, and the deprecated `retrieve_*` wrappers

The default of `stop_rule` is read from the generated table of method signatures; a method without a default could
not be called without the argument (`TypeError`).  The wrappers `retrieve_data` / `retrieve_feature_data` return the
call recorded in `Gen.retrieveWrappers`: the same method with the same arguments and no stop rule. -/

/-- the default `stop_rule` of a public method, by its signature in `Gen.defaultStopRules` -/
def defaultStop? (signature : String) : Option SliceMode :=
  (Gen.defaultStopRules.lookup signature).map sliceModeNamed

def withDefaultStop (signature : String) (f : SliceMode → Except Err View) : Except Err View :=
  match defaultStop? signature with
  | some m => f m
  | none => .error .typeError

/-- `Tag.tagged_data(refidx)` = `Tag.retrieve_data(refidx)` -/
def Tag.retrieveData (t : TagDesc) (refs : List RefEnt) (key : Key) : Except Err View :=
  withDefaultStop "Tag.tagged_data(refidx, stop_rule)" (Tag.taggedDataBy t refs key)

/-- `Tag.feature_data(featidx)` = `Tag.retrieve_feature_data(featidx)` -/
def Tag.retrieveFeatureData (t : TagDesc) (feats : List FeatEnt) (key : Key) : Except Err View :=
  withDefaultStop "Tag.feature_data(featidx, stop_rule)" (Tag.featureDataBy t feats key)

/-- `MultiTag.tagged_data(posidx, refidx)` = `MultiTag.retrieve_data(posidx, refidx)` -/
def MultiTag.retrieveData (t : MTagDesc) (refs : List RefEnt) (posidx : Nat) (key : Key) : Except Err View :=
  withDefaultStop "MultiTag.tagged_data(posidx, refidx, stop_rule)" (MultiTag.taggedDataBy t refs posidx key)

/-- `MultiTag.feature_data(posidx, featidx)` = `MultiTag.retrieve_feature_data(posidx, featidx)` -/
def MultiTag.retrieveFeatureData (t : MTagDesc) (feats : List FeatEnt) (posidx : Nat) (key : Key) :
    Except Err View :=
  withDefaultStop "MultiTag.feature_data(posidx, featidx, stop_rule)" (MultiTag.featureDataBy t feats posidx key)

end Nix.Tagging
