import NixModel.Pure.Guarded

/-!
# Vectors of texts: `Tag.units` / `MultiTag.units`, `SetDimension.labels`, `DataFrame.units`   (C12)

The first two validate the offered value element by element and hand a list of `str` to `H5Group.write_data`
with a text dtype (which checks every text before it resizes the dataset — nixio ac8fa14 / f898180); the units of a
data frame are converted to an array of texts, counted against the columns, sanitised and stored as ONE attribute
through `H5Group.set_attr` — h5py removes the previous value of an attribute before it finds a text it cannot store,
so `set_attr` checks every text of a vector first (nixio a2e6437).

A system of `Pure/Guarded.lean`; the offered value is abstract (what the validations ask of it).
-/
namespace Nix.TextVecWrite
open Nix.Guarded

structure Arg where
  truthOk : Bool         -- `not value` is defined (not for an array with several elements)
  falsy : Bool           -- … and true: None, an empty list, ""
  listLike : Bool        -- `hasattr(value, "__iter__") and not isinstance(value, str)`
  iterable : Bool        -- `for x in value` starts
  elemsOk : Bool         -- the body of the validation loop accepts every element (type test, sanitizer)
  arrayOk : Bool         -- `np.array(value, vlen_str_dtype)` succeeds
  countOk : Bool         -- … and has one entry per column
  elemsStorable : Bool   -- no text among the elements has a NUL or cannot be encoded
  linked : Bool          -- the set dimension has a link (its labels cannot be assigned)
  key : Nat
  now : Nat
  deriving DecidableEq, Repr, Inhabited

inductive Guard where
  | truthDefined | notLinked | listLike | loopOk | arrayOk | countOk | elemsStorable
  deriving DecidableEq, Repr, Inhabited

inductive Write where
  | ensureGroup
  | deleteIfPresent      -- `if has_data(name): del group[name]`
  | resizeOrCreate       -- `dset.shape = shape` / `create_dataset`
  | writeVec             -- `dset.write_data(data)`
  | setVecAttr           -- `attrs[name] = value`: the previous value is removed, the new one written
  | stamp
  deriving DecidableEq, Repr, Inhabited

/-- what the file holds of the vector: absent, the vector `some k` (`some 0`: a dataset that was resized and not
yet written), and the entity's `updated_at` -/
structure File where
  vec : Option Nat
  stamp : Nat
  deriving DecidableEq, Repr, Inhabited

def check (a : Arg) : Guard → Option Err
  | .truthDefined => if a.truthOk then none else some .valueError
  | .notLinked => if a.linked then some .runtimeError else none
  | .listLike => if a.listLike then none else some .valueError
  | .loopOk => if !a.iterable then some .typeError else if a.elemsOk then none else some .typeError
  | .arrayOk => if a.arrayOk then none else some .valueError
  | .countOk => if a.countOk then none else some .valueError
  | .elemsStorable => if a.elemsStorable then none else some .valueError

def needs : Write → List Guard
  | .writeVec => [.loopOk, .elemsStorable]
  | .setVecAttr => [.elemsStorable]
  | _ => []

def exec (a : Arg) (f : File) : Write → File × Option Err
  | .ensureGroup => (f, none)
  | .deleteIfPresent => ({ f with vec := none }, none)
  | .resizeOrCreate => ({ f with vec := some 0 }, none)
  | .writeVec =>
    if a.iterable && a.elemsOk && a.elemsStorable then ({ f with vec := some a.key }, none) else (f, some .valueError)
  | .setVecAttr =>
    if a.elemsStorable then ({ f with vec := some a.key }, none) else ({ f with vec := none }, some .valueError)
  | .stamp => ({ f with stamp := a.now }, none)

def sys : Sys Arg File File Guard Write :=
  { check := check, needs := needs, invisible := fun w => w == .ensureGroup, exec := exec, obs := id }

abbrev TStep := Step Guard Write

/-- a setter: the statements run for a falsy value (`true`) and for any other (`false`) -/
abbrev Setter := Bool → List TStep

def runSetter (st : Setter) (a : Arg) (f : File) : File × Option Err := run sys a (st a.falsy) f

end Nix.TextVecWrite
