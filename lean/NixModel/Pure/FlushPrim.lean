/-!
# C17 — vocabulary of the bodies of `File.flush`, `File.close`, `File.__exit__` (nixio/file.py)

The translator `harness/extract/flush.py` renders the statement lists of those three methods as
`List Prim` constants in `NixModel/Generated/FlushShape.lean` (a call of `self.close()` /
`self.flush()` is inlined); anything else in those bodies is a broken tie.
-/
namespace Nix.Flush

/-- the h5py-level actions the bodies are made of -/
inductive Prim where
  /-- `gc.collect()` -/
  | gcCollect
  /-- `self._h5file.flush()` — h5py `File.flush`: `H5Fflush` on the file id -/
  | h5flush
  /-- `self._h5file.close()` — h5py `File.close` -/
  | h5close
  deriving DecidableEq, Repr, Inhabited

end Nix.Flush
