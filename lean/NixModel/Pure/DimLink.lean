import NixModel.Store.Step

/-!
# Dimension descriptors and dimension links (`nixio/dimensions.py`, `nixio/data_array.py`)

A `DataArray` owns a group `dimensions` whose children `"1"`, `"2"`, … are the dimension
descriptors. A `RangeDimension` keeps its ticks in a dataset `ticks`, a `SetDimension` its labels in
a dataset `labels`; either may instead carry a `DimensionLink` — a child group `link` with the
attributes `entity_id`, `data_object_type`, `index` and ONE hard link, named by the target's id, to
the linked `DataArray` (`DimensionLink.create_new`, dimensions.py:82-94).  The linked array is
therefore reached through the same HDF5 object graph as every other link (`Store/Graph.lean`): the
path `…/dimensions/1/link/<0>` resolves to the very node the block's `data_arrays` group links.

What the graph model leaves out (dataset *content*) is added here as side tables keyed by node:
the stored values of an array (`data`, row-major, exact rationals for the doubles stored),
of `ticks`, of `labels`, and the `index` attribute of a link group.

Every function mirrors the Python method named in its comment, in the code's own order of checks
and writes (the code as of the `fix:` commit "a refused RangeDimension.link_data_array /
link_data_frame deleted the dimension's ticks": validation first, the ticks go once the link exists).
Links to a column of a `DataFrame` (`link_data_frame`) are modelled for frames of float columns (content
of the compound dataset and the `units` attribute are side tables like the array data; a frame may have no
`units` attribute at all, and the unit of a dimension linked to one of its columns follows the `fix:` commit
"unit of a dimension linked to a frame column": it reads as `DataFrame.units` reads that column — None without
units or for an empty entry — and assigning it works on a frame without units and with None).  Not modelled:
the pre-1.5 "alias range dimension" layout (`is_alias and not has_link`, unreachable through the
current API), `delete_dimensions`, polynomial calibration (the link reads the *stored* values:
`DimensionLink.linked_data` is `h5group.get_data("data")`).
-/
namespace Nix.DimLink
open Nix.Store Nix.Store.Graph

/-- stored content of an array: shape and row-major values -/
structure NdData where
  shape : List Nat
  vals : List Rat
  deriving DecidableEq, Repr, Inhabited

/-- association lists keyed by node -/
def look {α : Type} (m : List (Nat × α)) (k : Nat) : Option α := (m.find? (fun e => e.1 == k)).map (·.2)

def put {α : Type} (m : List (Nat × α)) (k : Nat) (v : α) : List (Nat × α) :=
  m.filter (fun e => e.1 != k) ++ [(k, v)]

/-- stored content of a data frame of float columns: the field names of the compound type, the
`units` attribute AS STORED (`none`: the frame has no such attribute — it was made without units and none
was ever assigned; otherwise one text per column, the empty text standing for "no unit") and the rows -/
structure FrameData where
  cols : List String
  units : Option (List String)
  rows : List (List Rat)
  deriving DecidableEq, Repr, Inhabited

/-- how a unit (or None) is kept in the `units` attribute: None as the empty text -/
def unitText : Option String → String
  | some x => x
  | none => ""

/-- what `DataFrame.units = units` writes (`units_arr[idx] = ""` for None; the texts handed in are fixed
points of the unit sanitizer) -/
def storeUnits (units : List (Option String)) : List String := units.map unitText

/-- how one stored entry of `units` reads: the empty text is "no unit" (`DataFrame.units`, and
`DimensionLink.unit` since the `fix:` commit "unit of a dimension linked to a frame column") -/
def readUnit (u : String) : Option String := if u == "" then none else some u

/-- `DataFrame.units`: None without the attribute, else the entries with "" read as None -/
def frameUnits (fd : FrameData) : Option (List (Option String)) := fd.units.map fun us => us.map readUnit

/-- `DimensionLink.unit` (getter) of a link to column `c` of a frame: `None` for a frame without units,
else the column's entry, "" read as None -/
def linkFrameUnit (fd : FrameData) (c : Nat) : Except Err (Option String) :=
  match fd.units with
  | none => .ok none
  | some us =>
    match us[c]? with
    | some u => .ok (readUnit u)
    | none => .error .indexError

/-- `DimensionLink.unit = v` on a link to column `c` of a frame: a frame without units gets one empty entry
per column first, then the column's entry is replaced (`None` is written as the empty text) -/
def setFrameUnit (fd : FrameData) (c : Nat) (v : Option String) : Except Err FrameData :=
  let us := match fd.units with
    | some us => us
    | none => List.replicate fd.cols.length ""
  if c < us.length then .ok { fd with units := some (us.set c (unitText v)) }
  else .error .indexError

structure DState where
  g : Graph := {}
  data : List (Nat × NdData) := []          -- content of `data` datasets of arrays
  ticks : List (Nat × List Rat) := []       -- content of `ticks` datasets
  labels : List (Nat × List String) := []   -- content of `labels` datasets
  index : List (Nat × List Int) := []       -- `index` attribute of `link` groups (a frame link: `[column]`)
  frames : List (Nat × FrameData) := []     -- content (+ `units`) of `data` datasets of frames
  deriving Repr, Inhabited

/-! ## NumPy basic indexing with integers and one full slice -/

def prod : List Nat → Nat
  | [] => 1
  | n :: ns => n * prod ns

/-- row-major offset of a multi-index (`none` when an index is out of range or the ranks differ) -/
def flatIndex : List Nat → List Nat → Option Nat
  | [], [] => some 0
  | n :: ns, i :: is =>
    if i < n then (flatIndex ns is).map fun r => i * prod ns + r else none
  | _, _ => none

/-- position of the (first) `-1` in an index vector -/
def slicePos (iv : List Int) : Option Nat :=
  let p := iv.findIdx (· == -1)
  if p < iv.length then some p else none

/-- NumPy's reading of an integer index on an axis of length `n`: negative counts from the end -/
def normIdx (n : Nat) (i : Int) : Option Nat :=
  if 0 ≤ i then (if i.toNat < n then some i.toNat else none)
  else (if (-i).toNat ≤ n then some (n - (-i).toNat) else none)

/-- the fixed (integer) entries of the index vector, read as NumPy reads them; `0` at the slice
position `p` -/
def fixedIdx (shape : List Nat) (iv : List Int) (p : Nat) : Option (List Nat) :=
  (List.range iv.length).mapM fun q =>
    if q == p then some 0
    else match shape[q]?, iv[q]? with
      | some n, some i => normIdx n i
      | _, _ => none

/-- `data[tuple(dimindex)]` with the `-1` replaced by `slice(None)` (`DimensionLink.values`):
the vector along axis `p` through the fixed indices; IndexError when a fixed index is out of
range (or the ranks differ — excluded when the link is made) -/
def selectVector (d : NdData) (iv : List Int) : Except Err (List Rat) :=
  match slicePos iv with
  | none => .error .valueError              -- `dimindex.index(-1)` raises ValueError
  | some p =>
    if iv.length != d.shape.length then .error .indexError
    else
      match d.shape[p]?, fixedIdx d.shape iv p with
      | some n, some fx =>
        (List.range n).mapM fun j =>
          match (flatIndex d.shape (fx.set p j)).bind fun off => d.vals[off]? with
          | some v => .ok v
          | none => .error .indexError
      | _, _ => .error .indexError

/-! ## addressing -/

def kDimRange := "dim_range"
def kDimSet := "dim_set"
def kDimSample := "dim_sample"

/-- the array node at a path (it must be a DataArray) -/
def arrayAt (s : DState) (p : Path) : Except Err Nat :=
  match resolve s.g rootLoc p with
  | none => .error .keyError
  | some l => if kindOf s.g l.key == "data_array" then .ok l.key else .error .attributeError

/-- `len(array.dimensions)` -/
def dimCount (g : Graph) (a : Nat) : Nat :=
  match g.child? a "dimensions" with
  | some d => (g.links d).length
  | none => 0

/-- `array.dimensions[i-1]`: the descriptor group named `str(i)` -/
def dimNode (g : Graph) (a : Nat) (i : Nat) : Option Nat :=
  (g.child? a "dimensions").bind fun d => g.child? d (toString i)

def dimAt (s : DState) (p : Path) (i : Nat) : Except Err Nat :=
  match arrayAt s p with
  | .error e => .error e
  | .ok a => match dimNode s.g a i with
    | some d => .ok d
    | none => .error .indexError

/-- `Dimension.has_link` -/
def hasLink (g : Graph) (d : Nat) : Bool := g.hasChild d "link"

/-- `DimensionLink._linked_group()` = `get_by_pos(0)` of the link group -/
def linkTarget (g : Graph) (d : Nat) : Option Nat :=
  (g.child? d "link").bind fun ln => ((g.links ln)[0]?).map (·.2)

/-- `DimensionLink._data_object_type` of the descriptor's link group ("" when there is none) -/
def linkType (g : Graph) (d : Nat) : String :=
  ((g.child? d "link").bind fun ln => g.getAttr ln "data_object_type").getD ""

/-- stored content of the array node `a` -/
def dataOf (s : DState) (a : Nat) : Option NdData := (s.g.child? a "data").bind fun ds => look s.data ds

/-- stored content of the frame node `f` -/
def frameOf (s : DState) (f : Nat) : Option FrameData := (s.g.child? f "data").bind fun ds => look s.frames ds

/-- the column a frame link points at (`DimensionLink.index` of a DataFrame link) -/
def linkColumn (s : DState) (d : Nat) : Option Nat :=
  (s.g.child? d "link").bind fun ln => (look s.index ln).bind fun iv =>
    match iv with
    | [c] => if 0 ≤ c then some c.toNat else none
    | _ => none

/-- the frame node at a path (it must be a DataFrame) -/
def frameAt (s : DState) (p : Path) : Except Err Nat :=
  match resolve s.g rootLoc p with
  | none => .error .keyError
  | some l => if kindOf s.g l.key == "data_frame" then .ok l.key else .error .attributeError

/-- column `c` of the rows (`tuple(row[index] for row in data)`) -/
def column (fd : FrameData) (c : Nat) : Except Err (List Rat) :=
  fd.rows.mapM fun r => match r[c]? with | some v => .ok v | none => .error .indexError

/-! ## arrays -/

/-- `Block.create_data_array(name, type, data=<array of that shape>)` -/
def createArray (s : DState) (owner : Path) (name type : String) (shape : List Nat) (vals : List Rat) :
    Except Err DState :=
  if vals.length != prod shape then .error .valueError     -- (the harness cannot even build such an array)
  else
    match createIn s.g owner "data_array" name type none with
    | .error e => .error e
    | .ok g' =>
      match (resolve g' rootLoc (owner ++ [.name "data_arrays", .name name])).bind
              fun l => g'.child? l.key "data" with
      | some ds => .ok { s with g := g', data := put s.data ds { shape := shape, vals := vals } }
      | none => .error .keyError

/-- `array.write_direct(<values reshaped to the array's own shape>)` through any path -/
def writeData (s : DState) (p : Path) (vals : List Rat) : Except Err DState :=
  match arrayAt s p with
  | .error e => .error e
  | .ok a =>
    match s.g.child? a "data" with
    | none => .error .keyError
    | some ds =>
      match look s.data ds with
      | none => .error .keyError
      | some d =>
        if vals.length != prod d.shape then .error .valueError
        else .ok { s with data := put s.data ds { d with vals := vals } }

/-! ## data frames -/

/-- `Block.create_data_frame(name, type, col_names=…, col_dtypes=[float]*n, data=rows)`, followed by
`frame.units = units` unless `units` is `none` (the frame then has no `units` attribute) — the one form
generated: distinct column names, one unit (or None) per column, rows as long as there are columns.  `check_entity_name_and_type`, then the duplicate test on the
(lazily created) `data_frames` group, then `Entity.create_new` + `create_dataset("data")`. -/
def createFrame (s : DState) (owner : Path) (name type : String) (cols : List String)
    (units : Option (List (Option String))) (rows : List (List Rat)) : Except Err DState :=
  match resolve s.g rootLoc owner with
  | none => .error .keyError
  | some o =>
    if kindOf s.g o.key != "block" then .error .attributeError
    else
      match checkNameType name type with
      | .error e => .error e
      | .ok () =>
        if (match s.g.child? o.key "data_frames" with | some c => s.g.hasChild c name | none => false) then
          .error .duplicateName
        else if cols.isEmpty || !cols.Nodup || (match units with | some us => us.length != cols.length | none => false)
            || rows.any (fun r => r.length != cols.length) then .error .valueError    -- never generated
        else
          match entityCreateNew s.g o.key "data_frames" name type "data_frame" with
          | .error e => .error e
          | .ok (g1, k) =>
            let g2 := addDataset g1 k "data"
            match g2.child? k "data" with
            | some ds =>
              .ok { s with g := g2, frames := put s.frames ds { cols := cols, units := units.map storeUnits, rows := rows } }
            | none => .error .keyError

/-- `frame.write_column(values, index=c)` through any path: one value per row, an existing column -/
def writeColumn (s : DState) (p : Path) (c : Nat) (vals : List Rat) : Except Err DState :=
  match frameAt s p with
  | .error e => .error e
  | .ok f =>
    match s.g.child? f "data" with
    | none => .error .keyError
    | some ds =>
      match look s.frames ds with
      | none => .error .keyError
      | some fd =>
        if vals.length != fd.rows.length then .error .valueError
        else if c ≥ fd.cols.length then .error .indexError
        else
          let fd' : FrameData := { fd with rows := (fd.rows.zip vals).map fun rv => rv.1.set c rv.2 }
          .ok { s with frames := put s.frames ds fd' }

/-- `frame.units = units` through any path (`DataFrame.units` setter): exactly one unit (or None) per column,
else ValueError; None is stored as the empty text -/
def setUnits (s : DState) (p : Path) (units : List (Option String)) : Except Err DState :=
  match frameAt s p with
  | .error e => .error e
  | .ok f =>
    match s.g.child? f "data" with
    | none => .error .keyError
    | some ds =>
      match look s.frames ds with
      | none => .error .keyError
      | some fd =>
        if units.length != fd.cols.length then .error .valueError
        else .ok { s with frames := put s.frames ds { fd with units := some (storeUnits units) } }

/-! ## dimension descriptors -/

inductive DimSpec where
  | set (labels : Option (List String))
  | sampled
  | range (ticks : Option (List Rat)) (label unit : Option String)
  deriving Repr, Inhabited

/-- `np.any(np.diff(ticks) < 0)` -/
def descending : List Rat → Bool
  | a :: b :: rest => decide (b < a) || descending (b :: rest)
  | _ => false

/-- `h5group.write_data(name, values)`: create the dataset if it is missing -/
def ensureDataset (g : Graph) (d : Nat) (name : String) : Graph × Nat :=
  match g.child? d name with
  | some k => (g, k)
  | none =>
    let (g1, k) := g.newNode .dataset
    (g1.addLink d name k, k)

/-- `Dimension.__init__` + `_set_dimension_type`: the groups `dimensions` and `str(index)` come
into being with the first attribute write -/
def newDim (g : Graph) (a : Nat) (kind : String) : Graph × Nat :=
  let idx := dimCount g a + 1
  let (g1, dg) := g.ensureGroup a "dimensions"
  let (g2, dn) := g1.ensureGroup dg (toString idx)
  (g2.setAttr dn "~kind" (some kind), dn)

/-- `append_set_dimension(labels)`, `append_sampled_dimension(1.0)`,
`append_range_dimension(ticks, label, unit)` (ticks given in ascending order; with descending
ticks the real call is refused *after* the descriptor was written — C12's open finding, never
generated here: the model refuses it up front) -/
def appendDim (s : DState) (p : Path) (spec : DimSpec) : Except Err DState :=
  match arrayAt s p with
  | .error e => .error e
  | .ok a =>
    match spec with
    | .set labels =>
      let (g1, dn) := newDim s.g a kDimSet
      match labels with
      | none => .ok { s with g := g1 }
      | some ls =>
        let (g2, k) := ensureDataset g1 dn "labels"
        .ok { s with g := g2, labels := put s.labels k ls }
    | .sampled =>
      let (g1, _) := newDim s.g a kDimSample
      .ok { s with g := g1 }
    | .range ticks label unit =>
      match ticks with
      | some ts =>
        if descending ts then .error .valueError
        else if ts.isEmpty then .error .indexError    -- `DataType.get_dtype(data[0])`; never generated
        else
          let (g1, dn) := newDim s.g a kDimRange
          let (g2, k) := ensureDataset g1 dn "ticks"
          let g3 := g2.setAttr dn "label" label
          let g4 := g3.setAttr dn "unit" unit
          .ok { s with g := g4, ticks := put s.ticks k ts }
      | none =>
        let (g1, dn) := newDim s.g a kDimRange
        let g3 := g1.setAttr dn "label" label
        let g4 := g3.setAttr dn "unit" unit
        .ok { s with g := g4 }

/-- `Dimension._check_index`: exactly one `-1` and no other negative entry -/
def checkIndex (iv : List Int) : Bool :=
  (iv.filter (· == -1)).length == 1 && (iv.filter (· < 0)).length == 1

/-- `DimensionLink.create_new(…, dataobj, dotype, index)` below the descriptor `dn` (`dotype` is
"DataArray" or "DataFrame"; the index of a frame link is the one-element list `[column]`) -/
def createLinkGroup (s : DState) (dn t : Nat) (tid dotype : String) (iv : List Int) : DState :=
  let (g1, i) := s.g.freshId
  let (g2, ln) := g1.ensureGroup dn "link"
  let g3 := g2.setAttr ln "entity_id" (some i)
  let g4 := g3.setAttr ln "data_object_type" (some dotype)
  let g5 := createLinkIn g4 ln tid t
  { s with g := g5, index := put s.index ln iv }

/-- what `link_data_array` and `link_data_frame` do once the arguments are accepted: an existing link
is removed, the new link group is made, and a RangeDimension then drops its explicit ticks -/
def attachLink (s : DState) (dn target : Nat) (tid dotype : String) (iv : List Int) : DState :=
  let g1 := if hasLink s.g dn then s.g.delLink dn "link" else s.g
  let s1 := createLinkGroup { s with g := g1 } dn target tid dotype iv
  if kindOf s.g dn == kDimRange && s1.g.hasChild dn "ticks" then { s1 with g := s1.g.delLink dn "ticks" }
  else s1

/-- `RangeDimension.link_data_array` / `Dimension.link_data_array` (a SetDimension uses the base
method and keeps its stored labels; a SampledDimension refuses) -/
def linkDataArray (s : DState) (p : Path) (i : Nat) (target : Nat) (iv : List Int) : Except Err DState :=
  match dimAt s p i with
  | .error e => .error e
  | .ok dn =>
    let kind := kindOf s.g dn
    if kind == kDimSample then .error .runtimeError
    else if kindOf s.g target != "data_array" then .error .attributeError    -- `data_array.data_extent`
    else
      match dataOf s target, s.g.entityId target with
      | some d, some tid =>
        if d.shape.length != iv.length then .error .valueError       -- IncompatibleDimensions
        else if !checkIndex iv then .error .valueError
        else .ok (attachLink s dn target tid "DataArray" iv)
      | _, _ => .error .keyError

/-- `RangeDimension.link_data_frame` / `Dimension.link_data_frame(frame, column)` -/
def linkDataFrame (s : DState) (p : Path) (i : Nat) (target : Nat) (c : Int) : Except Err DState :=
  match dimAt s p i with
  | .error e => .error e
  | .ok dn =>
    let kind := kindOf s.g dn
    if kind == kDimSample then .error .runtimeError
    -- `if not 0 <= index < len(data_frame.columns)`: a negative index is refused before the frame is looked at
    else if c < 0 then .error .indexError                                      -- OutOfBounds
    else if kindOf s.g target != "data_frame" then .error .attributeError     -- `data_frame.columns`
    else
      match frameOf s target, s.g.entityId target with
      | some fd, some tid =>
        if c ≥ (fd.cols.length : Int) then .error .indexError                  -- OutOfBounds
        else .ok (attachLink s dn target tid "DataFrame" [c])
      | _, _ => .error .keyError

/-- `Dimension.remove_link()` -/
def removeLink (s : DState) (p : Path) (i : Nat) : Except Err DState :=
  match dimAt s p i with
  | .error e => .error e
  | .ok dn =>
    if !hasLink s.g dn then .error .runtimeError
    else .ok { s with g := s.g.delLink dn "link" }

/-- `RangeDimension.ticks = ticks` (non-empty list) -/
def setTicks (s : DState) (p : Path) (i : Nat) (ts : List Rat) : Except Err DState :=
  match dimAt s p i with
  | .error e => .error e
  | .ok dn =>
    if kindOf s.g dn != kDimRange then .error .attributeError
    else if descending ts then .error .valueError
    else if ts.isEmpty then .error .indexError      -- never generated
    else
      let g1 := if hasLink s.g dn then s.g.delLink dn "link" else s.g
      let (g2, k) := ensureDataset g1 dn "ticks"
      .ok { s with g := g2, ticks := put s.ticks k ts }

/-- `SetDimension.labels = labels` (a list of str) -/
def setLabels (s : DState) (p : Path) (i : Nat) (ls : List String) : Except Err DState :=
  match dimAt s p i with
  | .error e => .error e
  | .ok dn =>
    if kindOf s.g dn != kDimSet then .error .attributeError
    else if hasLink s.g dn then .error .runtimeError
    else
      let (g2, k) := ensureDataset s.g dn "labels"
      .ok { s with g := g2, labels := put s.labels k ls }

/-- `dim.unit = v` / `dim.label = v` (`v` a str or None).  A linked RangeDimension writes the
attribute of the linked array (`DimensionLink.unit/label` setters: a raw `set_attr`) -/
def setDimAttr (s : DState) (p : Path) (i : Nat) (attr : String) (v : Option String) : Except Err DState :=
  match dimAt s p i with
  | .error e => .error e
  | .ok dn =>
    let kind := kindOf s.g dn
    if attr != "unit" && attr != "label" then .error .attributeError
    else if attr == "unit" && kind == kDimSet then .error .attributeError
    else if kind == kDimRange && hasLink s.g dn then
      match linkTarget s.g dn with
      | some t =>
        if linkType s.g dn == "DataFrame" then
          -- `DimensionLink.unit` setter rewrites one entry of the frame's `units`; the label cannot be set
          if attr == "label" then .error .runtimeError
          else
            match (s.g.child? t "data").bind fun ds => (look s.frames ds).map fun fd => (ds, fd),
                  linkColumn s dn with
            | some (ds, fd), some c =>
              match setFrameUnit fd c v with
              | .ok fd' => .ok { s with frames := put s.frames ds fd' }
              | .error e => .error e
            | _, _ => .error .runtimeError
        else .ok { s with g := s.g.setAttr t attr v }
      | none => .error .runtimeError          -- dangling link (the target was deleted)
    else .ok { s with g := s.g.setAttr dn attr v }

/-! ## reads -/

/-- `DimensionLink.values` -/
def linkValues (s : DState) (dn : Nat) : Except Err (List Rat) :=
  match s.g.child? dn "link" with
  | none => .error .runtimeError
  | some ln =>
    match linkTarget s.g dn with
    | none => .error .runtimeError            -- dangling
    | some t =>
      if linkType s.g dn == "DataFrame" then
        match frameOf s t, linkColumn s dn with
        | some fd, some c => column fd c
        | _, _ => .error .runtimeError
      else
        match dataOf s t, look s.index ln with
        | some d, some iv => selectVector d iv
        | _, _ => .error .runtimeError

/-- `RangeDimension.ticks` -/
def readTicks (s : DState) (dn : Nat) : Except Err (List Rat) :=
  if hasLink s.g dn then linkValues s dn
  else
    match s.g.child? dn "ticks" with
    | some k => .ok ((look s.ticks k).getD [])
    | none => .ok []

/-- what `SetDimension.labels` yields: stored strings, or the numbers of the linked vector -/
inductive Labels where
  | strs (l : List String)
  | nums (l : List Rat)
  deriving DecidableEq, Repr, Inhabited

def readLabels (s : DState) (dn : Nat) : Except Err Labels :=
  if hasLink s.g dn then (linkValues s dn).map Labels.nums
  else
    match s.g.child? dn "labels" with
    | some k => .ok (.strs ((look s.labels k).getD []))
    | none => .ok (.strs [])

/-- `dim.unit` / `dim.label` getters: a DataArray link reports the array's attribute, a DataFrame link
the column's entry of `units` / the column's name -/
def readDimAttr (s : DState) (dn : Nat) (attr : String) : Except Err (Option String) :=
  if kindOf s.g dn == kDimRange && hasLink s.g dn then
    match linkTarget s.g dn with
    | some t =>
      if linkType s.g dn == "DataFrame" then
        match frameOf s t, linkColumn s dn with
        | some fd, some c =>
          if attr == "unit" then linkFrameUnit fd c
          else if attr == "label" then (match fd.cols[c]? with | some n => .ok (some n) | none => .error .indexError)
          else .ok none
        | _, _ => .error .runtimeError
      else .ok (s.g.getAttr t attr)
    | none => .error .runtimeError
  else .ok (s.g.getAttr dn attr)

/-- `RangeDimension.is_alias` (current layout): no ticks, and a link to a DataArray -/
def isAlias (s : DState) (dn : Nat) : Bool :=
  if s.g.hasChild dn "ticks" then false
  else hasLink s.g dn && linkType s.g dn == "DataArray"

/-! ## operations and histories -/

inductive DOp where
  | store (op : Op)                                   -- any operation of the structural model
  | createArray (owner : Path) (name type : String) (shape : List Nat) (vals : List Rat)
  | writeData (p : Path) (vals : List Rat)
  | appendDim (p : Path) (spec : DimSpec)
  | linkDataArray (p : Path) (i : Nat) (target : Path) (iv : List Int)
  | removeLink (p : Path) (i : Nat)
  | setTicks (p : Path) (i : Nat) (ts : List Rat)
  | setLabels (p : Path) (i : Nat) (ls : List String)
  | setDimAttr (p : Path) (i : Nat) (attr : String) (v : Option String)
  | createFrame (owner : Path) (name type : String) (cols : List String) (units : Option (List (Option String)))
      (rows : List (List Rat))
  | setUnits (p : Path) (units : List (Option String))
  | writeColumn (p : Path) (c : Nat) (vals : List Rat)
  | linkDataFrame (p : Path) (i : Nat) (target : Path) (c : Int)
  deriving Repr, Inhabited

def applyD (s : DState) : DOp → Option (Except Err DState)
  | .store op => (apply s.g op).map fun r => r.map fun g' => { s with g := g' }
  | .createArray o n t sh vs => some (createArray s o n t sh vs)
  | .writeData p vs => some (writeData s p vs)
  | .appendDim p spec => some (appendDim s p spec)
  | .linkDataArray p i tp iv => (resolve s.g rootLoc tp).map fun l => linkDataArray s p i l.key iv
  | .removeLink p i => some (removeLink s p i)
  | .setTicks p i ts => some (setTicks s p i ts)
  | .setLabels p i ls => some (setLabels s p i ls)
  | .setDimAttr p i a v => some (setDimAttr s p i a v)
  | .createFrame o n t cs us rs => some (createFrame s o n t cs us rs)
  | .setUnits p us => some (setUnits s p us)
  | .writeColumn p c vs => some (writeColumn s p c vs)
  | .linkDataFrame p i tp c => (resolve s.g rootLoc tp).map fun l => linkDataFrame s p i l.key c

/-- a refused call leaves the state as it is -/
def stepD (s : DState) (op : DOp) : DState :=
  match applyD s op with
  | some (.ok s') => s'
  | _ => s

def runD (s : DState) (ops : List DOp) : DState := ops.foldl stepD s

def initD : DState := {}

end Nix.DimLink
