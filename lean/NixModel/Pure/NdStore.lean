import NixModel.Pure.NdGen

/-!
# nixio's array I/O with typed data, in state-passing form (C01)

`NdArray.lean` models writes whose data already has the array's element type and returns `Except Err DArr` (an
error carries no array).  This file adds what that form cannot say:

* the data handed to a write has an element type of its own (`Arr`); it is converted to the array's type
  (`NdConv`), or the write is refused — *after* `append` has already enlarged the dataset, which is why
  `DataSet.append` restores the extent (`/repo` a578a3d);
* an operation returns the dataset it leaves behind together with the exception (`Run`), so "a refused step
  leaves the array as it was" is a statement about the code path, not a convention;
* index arguments as Python passes them: `None`, a bare item, a tuple; items may be `Ellipsis`.

The definitions follow `nixio/data_set.py`, `nixio/hdf5/h5dataset.py`, `nixio/data_array.py:_read_data`,
`nixio/block.py:create_data_array`; `Lemmas/C01Gen.lean` proves them equal to the definitions compiled from
those sources (`Generated/DataSetShape.lean`).
-/
namespace Nix.Nd
open Nix Nix.NdGen

/-- `H5DataSet.write_data(data, slc)`: data without elements for a selection with elements is refused
(ValueError, `/repo` 61e9077: h5py would "broadcast" the empty buffer); `slc is None` means the whole dataset
(`dataset[:] = data`) -/
def writeData (A : DArr) (data : Arr) (slc : IndexArg) : Except IoErr DArr :=
  if (arrIsEmpty data && optTruthy (h5SelectedCount A slc)) then .error (.err .valueError)
  else
    match slc with
    | .none => h5SetItem A fullSlice data
    | s => h5SetItem A s data

/-- `DataArray._read_data(sl)` without calibration: `sl is None` means everything; h5py's ValueError / TypeError
for a bad index become IndexError; a 0-d result comes back with shape (1,) -/
def readData (A : DArr) (sl : IndexArg) : Except IoErr (NdArray Elem) :=
  match h5GetItem A (match sl with | .none => fullSlice | s => s) with
  | .ok r => .ok (if r.shape = [] then ⟨[1], fun _ => r.get []⟩ else r)
  | .error e =>
    if e = .err .valueError ∨ e = .err .typeError then .error (.err .indexError) else .error e

/-- `len(da)` = `shape[0]` (IndexError for a 0-d array) -/
def lenS (A : DArr) : Except IoErr Int :=
  match A.arr.shape with
  | [] => .error (.err .indexError)
  | n :: _ => .ok (n : Int)

/-- `da.size` = `np.prod(shape)` -/
def sizeS (A : DArr) : Int := (Nix.Nd.sizeOf A.arr.shape : Int)

/-- `DataSet.append(data, axis)` (data_set.py:92-121): rank check, axis check, per-axis shape check excluding
`axis`, offset, enlarge, resize, hyperslab write; when the write fails the old extent is restored and the
exception of the write propagates (if restoring fails, that exception does) -/
def appendS (A : DArr) (data : Arr) (axis : Int) : Run :=
  let D := contiguous data.a
  if A.arr.shape.length ≠ D.shape.length then (A, some (.err .valueError))
  else if ¬ (0 ≤ axis ∧ axis < (A.arr.shape.length : Int)) then (A, some (.err .valueError))
  else if shapeMismatch axis A.arr.shape D.shape then (A, some (.err .valueError))
  else
    let offset := appendOffset axis A.arr.shape
    let enlarge := appendEnlarge axis A.arr.shape D.shape
    match setExtent A (enlarge.map Int.ofNat) with
    | .error e => (A, some (.err e))
    | .ok A1 =>
      match writeData A1 ⟨data.dt, D⟩ (.tuple ((appendSlices offset D.shape).map .ix)) with
      | .ok B => (B, none)
      | .error e =>
        match setExtent A1 (A.arr.shape.map Int.ofNat) with
        | .ok A2 => (A2, some e)
        | .error e2 => (A1, some (.err e2))

/-- one step of a history with typed data -/
inductive TStep where
  | write (d : Arr)
  | assign (ix : IndexArg) (d : Arr)
  | append (d : Arr) (axis : Int)
  | resize (extent : List Int)
  | reopen

def runOf (A : DArr) (x : Except IoErr DArr) : Run :=
  match x with
  | .ok B => (B, none)
  | .error e => (A, some e)

def stepS (A : DArr) : TStep → Run
  | .write d => runOf A (writeData A d .none)
  | .assign ix d => runOf A (writeData A d ix)
  | .append d axis => appendS A d axis
  | .resize e => runOf A (h5Resize A e)
  | .reopen => (A, none)

def runS (A : DArr) : List TStep → DArr
  | [] => A
  | s :: rest => runS (stepS A s).1 rest

/-- element type of the data a step supplies -/
def TStep.dataType : TStep → Option DType
  | .write d => some d.dt
  | .assign _ d => some d.dt
  | .append d _ => some d.dt
  | _ => none

/-- the step's data is of a kind the array's element type `t` cannot take -/
def TStep.refusedKind (t : DType) (s : TStep) : Bool :=
  match s.dataType with
  | some dt => (convRefusal dt t).isSome
  | none => false

/-- index items without `Ellipsis` -/
def plainItems : List IxE → Option (List Ix)
  | [] => some []
  | .ix i :: rest => (plainItems rest).map (i :: ·)
  | .ellipsis :: _ => none

/-- the untyped step a typed step stands for once its data is converted to the element type `t` (index without
`Ellipsis`) -/
def TStep.erase (t : DType) : TStep → Option Step
  | .write d => some (.write (convArr t d.a))
  | .assign ix d =>
    match ix with
    | .none => some (.write (convArr t d.a))
    | ix => (plainItems ix.items).map fun ixs => .assign ixs (convArr t d.a)
  | .append d axis => some (.append (convArr t d.a) axis)
  | .resize e => some (.resize e)
  | .reopen => some .reopen

/-- every index argument of the step is free of `Ellipsis` (then the step has an erasure) -/
def TStep.plain : TStep → Bool
  | .assign ix _ => (plainItems ix.items).isSome
  | _ => true

/-- what one typed step contributes to the performed history: its erasure if it raised nothing -/
def performedHead : Option IoErr → Option Step → List Step
  | none, some s' => [s']
  | _, _ => []

/-- the untyped steps a typed history performed: the erasures of the steps that raised nothing -/
def performed (A : DArr) : List TStep → List Step
  | [] => []
  | s :: rest => performedHead (stepS A s).2 (s.erase A.dtype) ++ performed (stepS A s).1 rest

/-- `Block.create_data_array` with typed data: the argument rules, then `DataArray.create_new` (a dataset of the
chosen type and shape holding the fill value), then `write_direct(data)`; a failure anywhere leaves no array
(`/repo` 8995dfc removes the half-built one) -/
def createS (dtype : Option DType) (shape : Option (List Nat)) (data : Option Arr) (compr : Bool) :
    Except IoErr DArr :=
  match data with
  | none =>
    match shape with
    | none => .error (.err .valueError)
    | some sh => .ok ⟨chooseDType dtype .float64, compr, ⟨sh, fun _ => (chooseDType dtype .float64).fill⟩⟩
  | some d0 =>
    let d := npAscontiguousarray d0
    if !shapeAgrees shape d.a.shape then .error (.err .valueError)
    -- text data without `dtype=DataType.String`: numpy's U/O dtype has no HDF5 equivalent (h5py TypeError)
    else if dtype = none ∧ d.dt = .string then .error (.err .typeError)
    else
      writeData ⟨chooseDType dtype d.dt, compr, ⟨d.a.shape, fun _ => (chooseDType dtype d.dt).fill⟩⟩ d .none

/-- `DataArray.create_new(…, dtype, shape, compression)` followed by `da.write_direct(data)` when data is given,
on the outcome of the argument rules: a dataset of that type and shape holding the fill value, then the write -/
def createFrom (compr : Bool) : Option DTypeArg × Option (List Int) × Option Arr → Except IoErr DArr
  | (some (.nix t), some sh, d) =>
    if !allNonneg sh then .error (.err .valueError)
    else
      match d with
      | none => .ok ⟨t, compr, ⟨sh.map Int.toNat, fun _ => t.fill⟩⟩
      | some d => writeData ⟨t, compr, ⟨sh.map Int.toNat, fun _ => t.fill⟩⟩ d .none
  | _ => .error (.err .typeError)

end Nix.Nd
