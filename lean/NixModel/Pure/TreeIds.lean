import NixModel.Pure.TreeShape
import NixModel.Py.UuidText

/-!
# Ids as *texts*: the look-up chain behind every "is child of" test  (property C13)

`Pure/Tree.lean` addresses entities by a key (creation counter) that stands for the uuid.  In the file an id is a
*text* (`entity_id` attribute), and the caller may supply it: `create_section(name, type, oid=…)` stores `str(oid)`
whenever `util.is_uuid(oid)`, i.e. in every spelling `uuid.UUID` reads (upper case, braces, `urn:uuid:`, without
hyphens, …).  The "is child of" tests of `Section.parent` and `Source.parent_source` / `_find_parent_recursive`
(`self.id in sect.sections`) run through

```
Container.__contains__(item):                      H5Group.get_by_id(id_):
    if util.is_uuid(item):                             [id_ = <normalised id_>]
        try: self._backend.get_by_id(item); return True    if self.group:
        except KeyError: pass                                  for item in self:
    return item in self._backend                                   if item.get_attr("entity_id") == id_: return item
                                                           raise KeyError
H5Group.__contains__(item): … return item in self.group       (the HDF5 name)
```

`harness/extract/c13_idlookup.py` renders what these functions do to the key and what `Section.create_new` stores
as an `IdLookup` (`Generated/IdLookup.lean`); this file interprets it over id texts, and lifts it to the forest:
`sectionParentT` / `sourceParentT` are `Section.parent` / `Source.parent_source` with every id comparison made on the
stored texts.  `Props/C13.lean` proves: with the extracted look-up, for *every* assignment of pairwise different id
texts (any spelling) the text-level answers are the key-level ones - hence the containing entity.
-/

namespace Nix.Tree.Ids
open Nix.Tree Nix.Tree.Shape Nix.Py

/-! ## `str(uuid.UUID(text))` -/

def hexVal? (c : Char) : Option Nat :=
  if '0' ≤ c ∧ c ≤ '9' then some (c.toNat - 48)
  else if 'a' ≤ c ∧ c ≤ 'f' then some (c.toNat - 87)
  else if 'A' ≤ c ∧ c ≤ 'F' then some (c.toNat - 55)
  else none

/-- the characters `UUID.__init__` hands to `int(hex, 16)` -/
def uuidHexChars (s : List Char) : List Char :=
  let h := removeAll "uuid:".toList (removeAll "urn:".toList s)
  let h := stripChars (fun c => c == '{' || c == '}') h
  (h.filter (· != '-')).map toAsciiForInt

/-- value of a text `int(text, 16)` accepts: white space, sign (`-` cannot occur here), the `x` of a `0x`
prefix and underscores contribute nothing -/
def hexValue (cs : List Char) : Nat :=
  cs.foldl (fun acc c => match hexVal? c with | some d => acc * 16 + d | none => acc) 0

/-- `'%032x' % n` -/
def hex32 (n : Nat) : List Char :=
  let ds := Nat.toDigits 16 n
  List.replicate (32 - ds.length) '0' ++ ds

/-- `str(uuid.UUID(s))`: the canonical text (lower case, hyphenated); `none` = ValueError -/
def canonText? (s : String) : Option String :=
  if uuidAccepts s then
    let d := hex32 (hexValue (uuidHexChars s.toList))
    some (String.ofList (d.take 8 ++ ['-'] ++ (d.drop 8).take 4 ++ ['-'] ++ (d.drop 12).take 4 ++ ['-']
      ++ (d.drop 16).take 4 ++ ['-'] ++ d.drop 20))
  else none

/-! ## the look-up chain -/

/-- what a function does to an id text before it compares / stores it -/
inductive KeyNorm where
  /-- as given (`str(x)` of a text) -/
  | asGiven
  /-- `str(uuid.UUID(str(x)))`: lower case, hyphenated -/
  | canonical
  deriving DecidableEq, Repr, Inhabited

/-- the text after the treatment; `none`: `ValueError` (canonical form of a text that is no uuid) -/
def KeyNorm.apply : KeyNorm → String → Option String
  | .asGiven, s => some s
  | .canonical, s => canonText? s

/-- the parameters of the look-up chain (everything else is matched literally by the translator) -/
structure IdLookup where
  /-- `H5Group.get_by_id`: what the stored `entity_id` of each child is compared with -/
  idKey : KeyNorm
  /-- `Section.create_new`: what is stored as `entity_id` for a supplied `oid` that `util.is_uuid` accepts -/
  stored : KeyNorm
  deriving DecidableEq, Repr, Inhabited

/-- what a container knows about a child: the stored id text and the HDF5 name (= entity name) -/
structure Child where
  id : String
  name : String
  deriving DecidableEq, Repr, Inhabited

/-- `Container.__contains__(t)` for a text `t` (not an entity): the id look-up when `util.is_uuid(t)`, then the
fall-back by name.  (`is_uuid t` makes the canonical form defined; a `none` there cannot occur.) -/
def containsT (sh : IdLookup) (cs : List Child) (t : String) : Bool :=
  (uuidAccepts t &&
    match sh.idKey.apply t with
    | some key => cs.any (fun c => c.id == key)
    | none => false)
  || cs.any (fun c => c.name == t)

/-- the id text `create_section(…, oid=o)` stores: `str(oid)` treated as extracted when `util.is_uuid(oid)`,
otherwise (`none`) the library makes an id of its own -/
def storedId (sh : IdLookup) (oid : String) : Option String :=
  if uuidAccepts oid then sh.stored.apply oid else none

/-! ## the forest with id texts -/

/-- the children of a node as their container sees them; `texts k` = stored id text of the entity with key `k` -/
def kids (texts : Nat → String) (cs : List Node) : List Child := cs.map fun c => ⟨texts c.key, c.name⟩

/-- the "is among the children" test of the parents' searches by its extracted key: `self.id in c` goes
through the look-up chain on texts, `self.name in c` / `self in c` as in `Pure/TreeShape.lean` -/
def anyByT (sh : IdLookup) (texts : Nat → String) (kb : KeyBy) (l : List Node) (k : Nat) (nm : String) : Bool :=
  match kb with
  | .id => containsT sh (kids texts l) (texts k)
  | kb => anyBy kb l k nm

/-- the loop of `Section.parent` on texts -/
def parentLoopT (sh : IdLookup) (texts : Nat → String) (kb : KeyBy) (k : Nat) (nm : String) :
    List Node → Option Node
  | [] => none
  | s :: rest =>
    if anyByT sh texts kb s.children k nm then some s else parentLoopT sh texts kb k nm (rest ++ s.children)
termination_by q => sizeL q
decreasing_by
  cases s with | mk i cs =>
  simp [sizeL_append, sizeL, Node.size, Node.children]; omega

/-- `Section.parent` with every id comparison on the stored texts (`self in sections`: `Entity.__eq__`
compares the two `id` texts) -/
def sectionParentT (s : ParentShape) (sh : IdLookup) (texts : Nat → String) (f : File) (k : Nat) (useCache : Bool) :
    Except Err (Option Nat) :=
  match findL? k f.sections with
  | none => .error .keyError
  | some n =>
    match (if s.cacheFirst && useCache then n.cparent else none) with
    | some p => .ok (some p)
    | none =>
      if f.sections.any (fun x => texts x.key == texts k) then .ok none else
      .ok ((parentLoopT sh texts s.containKey k n.name f.sections).map Node.key)

mutual
def findParentRecT (sh : IdLookup) (texts : Nat → String) (kb : KeyBy) (k : Nat) (nm : String) : Node → Option Node
  | .mk i cs => if anyByT sh texts kb cs k nm then some (.mk i cs) else findParentRecLT sh texts kb k nm cs
def findParentRecLT (sh : IdLookup) (texts : Nat → String) (kb : KeyBy) (k : Nat) (nm : String) :
    List Node → Option Node
  | [] => none
  | c :: cs => match findParentRecT sh texts kb k nm c with
    | some p => some p
    | none => findParentRecLT sh texts kb k nm cs
end

/-- `Source.parent_source` with every id comparison on the stored texts -/
def sourceParentT (s : SrcParentShape) (sh : IdLookup) (texts : Nat → String) (f : File) (k : Nat) :
    Except Err (Option Nat) :=
  match f.lookup k with
  | some (.src b n) =>
    if anyByT sh texts s.topKey b.sources k n.name then .ok none else
    .ok ((findParentRecLT sh texts s.recKey k n.name b.sources).map Node.key)
  | _ => .error .keyError

/-- `x.metadata is not None and x.metadata.id == self.id` on texts (`referring_*`) -/
def mdMatchT (texts : Nat → String) (md : Option Nat) (k : Nat) : Bool :=
  match md with
  | none => false
  | some t => texts t == texts k

/-- the id texts of a history: supplied ones by key, every other entity a library-made (canonical) text -/
def textsOf (given : List (Nat × String)) (gen : Nat → String) (k : Nat) : String :=
  match given.lookup k with
  | some t => t
  | none => gen k

end Nix.Tree.Ids
