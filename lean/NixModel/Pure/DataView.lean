import NixModel.Basic
import NixModel.Py.Slice
import NixModel.Pure.NdIndex

/-!
# Model of `nixio/data_view.py` and of the index paths of `DataArray` / `DataSet`

Follows the code in `/repo` branch for branch (after the `fix:` commits for C06: window with a
negative start or negative extent ⇒ invalid view; more indices than the view has dimensions ⇒
`IndexError`; `view[0] = x` addresses element 0, not the whole view).

* `mkView`       — `DataView.__init__` (`data_view.py:21-65`)
* `expandUser`   — `DataView._expand_user_slices`
* `transformAxis`, `transform` — `DataView._transform_coordinates`
* `viewRead`, `viewWrite` — `DataView._read_data` / `_write_data` (through the parent array)
* `getSlice`     — `DataArray.get_slice(positions, extents, DataSliceMode.Index)`
* `daRead`, `daWrite` — `DataArray.__getitem__` / `__setitem__`
  (`DataSet._read_data` → `H5DataSet.read_data` with its exception mapping, rank-0 ⇒ `(1,)`)

Array content is not modelled (C01): reads and writes are described by the *selection* of the
parent array they address (`List AxisSel`, see `NdIndex`).  A window is one unit-step slice per
dimension, `(start, stop)`; every caller in nixio builds windows from two integers
(`slice(p, p + e)`), so `None` components are not part of the model.
-/
namespace Nix.DataView
open Nix.Py Nix.NdIndex

/-- one window slice `slice(start, stop)` (step 1) -/
abbrev Win := Int × Int

/-- a `DataView` object: the parent's shape, the validity flag and the stored slices
(`_slices`: normalised when valid, as given otherwise) -/
structure View where
  parent : List Nat
  valid : Bool
  window : List Win
  deriving DecidableEq, Repr

/-- `slice(a, b).indices(len)` restricted to start/stop (step `None` → 1) -/
def normWin (w : Win) (len : Nat) : Win :=
  (clampBound w.1 len 0 len, clampBound w.2 len 0 len)

def zipNorm : List Win → List Nat → List Win
  | w :: ws, n :: shape => normWin w n :: zipNorm ws shape
  | _, _ => []

/-- `any(s.stop > e for s, e in zip(slices, da.data_extent))` -/
def anyStopBeyond : List Win → List Nat → Bool
  | w :: ws, n :: shape => decide (w.2 > (n : Int)) || anyStopBeyond ws shape
  | _, _ => false

/-- `any(s.start < 0 or s.stop < s.start for s in slices)` -/
def anyNegative : List Win → Bool
  | [] => false
  | w :: ws => (decide (w.1 < 0) || decide (w.2 < w.1)) || anyNegative ws

/-- all entries are slices (`all(slices)`: a `None` entry is falsy, a slice object is truthy) -/
def allSome : List (Option Win) → Option (List Win)
  | [] => some []
  | none :: _ => none
  | some w :: rest => match allSome rest with
    | some ws => some (w :: ws)
    | none => none

/-- `DataView(da, slices)`; `slices = none` is Python's `None`, an entry `none` is a `None`
inside the tuple (tags produce those for dimensions without data in the region) -/
def mkView (shape : List Nat) (slices : Option (List (Option Win))) : View :=
  match slices with
  | none => ⟨shape, false, []⟩
  | some sl =>
    match allSome sl with
    | none => ⟨shape, false, []⟩
    | some ws =>
      if ws.length ≠ shape.length then ⟨shape, false, ws⟩
      else if anyStopBeyond ws shape then ⟨shape, false, ws⟩
      else if anyNegative ws then ⟨shape, false, ws⟩
      else ⟨shape, true, zipNorm ws shape⟩

/-- `DataView.data_extent` / `.shape` (`None` when invalid) -/
def View.shape (v : View) : Option (List Int) :=
  if v.valid then some (v.window.map fun w => w.2 - w.1) else none

/-- the view's shape as naturals (what NumPy would call `copy[window].shape`) -/
def View.extents (v : View) : List Nat := v.window.map fun w => (w.2 - w.1).toNat

def View.offsets (v : View) : List Int := v.window.map fun w => w.1

/-- `_expand_user_slices`: one ellipsis is replaced by, or the tuple is padded at the end with,
`slice(None)` up to the view's rank -/
def expandUser (rank : Nat) (ix : List Ix) : Except Err (List Ix) :=
  if countEllipsis ix > 1 then .error .indexError
  else if ix.length - countEllipsis ix > rank then .error .indexError
  else if countEllipsis ix = 1 then
    let expidx := (ix.takeWhile fun i => !i.isEllipsis).length
    let npad := rank + 1 - ix.length
    .ok (ix.take expidx ++ fullSlices npad ++ ix.drop (expidx + 1))
  else
    .ok (ix ++ fullSlices (rank - ix.length))

/-- the loop body of `_transform_coordinates` (with `transform_slice` inlined) for one
dimension with window slice `dv` -/
def transformAxis (dv : Win) : Ix → Except Err Ix
  | .int i =>
    let t := if i < 0 then dv.2 + i else i + dv.1
    if t < dv.1 ∨ t ≥ dv.2 then .error .outOfBounds else .ok (.int t)
  | .slice s =>
    let dimlen := dv.2 - dv.1
    if dimlen < 0 then .error .valueError       -- slice.indices: "length should not be negative"
    else
      match s.indices dimlen.toNat with
      | .error e => .error e
      | .ok (ustart, ustop, ustep) =>
        let ustop' := if ustop < 0 then dimlen + ustop else ustop
        let tstart := dv.1 + ustart
        let tstop := dv.1 + ustop'
        if tstop > dv.2 then .error .outOfBounds
        else if ustep < 0 then .error .valueError
        else if tstart < dv.1 then .error .outOfBounds
        else if tstop > dv.2 then .error .outOfBounds
        else .ok (.slice ⟨some tstart, some tstop, some ustep⟩)
  | .ellipsis => .error .typeError

/-- `for uslice, dvslice in zip(user_slices, dvslices)` — `zip` stops at the shorter one -/
def transformAxes : List Win → List Ix → Except Err (List Ix)
  | dv :: dvs, i :: ix =>
    match transformAxis dv i with
    | .error e => .error e
    | .ok t =>
      match transformAxes dvs ix with
      | .error e => .error e
      | .ok ts => .ok (t :: ts)
  | _, _ => .ok []

/-- `_transform_coordinates` -/
def transform (v : View) (ix : List Ix) : Except Err (List Ix) :=
  match expandUser v.window.length ix with
  | .error e => .error e
  | .ok full => transformAxes v.window full

/-- the stored slices as an index tuple (`tsl = self._slices`) -/
def windowIx (ws : List Win) : List Ix :=
  ws.map fun w => .slice ⟨some w.1, some w.2, some 1⟩

/-- `H5DataSet.read_data`: `ValueError` and `TypeError` from h5py become `IndexError` -/
def mapReadErr : Err → Err
  | .valueError => .indexError
  | .typeError => .indexError
  | e => e

/-- result of a read: which parent elements, in which order and shape -/
inductive Read where
  /-- `np.array([])` of an invalid view: shape `(0,)` -/
  | empty
  /-- the parent elements `selIndices sel`, shaped `resultShape sel` -/
  | sel (s : List AxisSel)
  deriving DecidableEq, Repr

/-- `DataArray._read_data`: a rank-0 result is returned as a length-1 array -/
def resultShape (sel : List AxisSel) : List Nat :=
  match selShape sel with
  | [] => [1]
  | s => s

/-- `DataArray.__getitem__(ix)` -/
def daRead (shape : List Nat) (ix : List Ix) : Except Err (List AxisSel) :=
  match h5Select shape ix with
  | .error e => .error (mapReadErr e)
  | .ok sel => .ok sel

/-- `DataArray.__setitem__(ix, data)`: the parent elements addressed (h5py's errors unmapped) -/
def daWrite (shape : List Nat) (ix : List Ix) : Except Err (List AxisSel) :=
  h5Select shape ix

/-- `DataView._read_data(sl)`; `ix = none` is `sl=None` (`view[:]` passes a slice, not `None`) -/
def viewRead (v : View) (ix : Option (List Ix)) : Except Err Read :=
  if !v.valid then .ok .empty
  else
    match ix with
    | none =>
      match daRead v.parent (windowIx v.window) with
      | .error e => .error e
      | .ok sel => .ok (.sel sel)
    | some ix =>
      match transform v ix with
      | .error e => .error e
      | .ok tix =>
        match daRead v.parent tix with
        | .error e => .error e
        | .ok sel => .ok (.sel sel)

/-- `DataView._write_data(data, sl)`: the parent elements addressed -/
def viewWrite (v : View) (ix : Option (List Ix)) : Except Err (List AxisSel) :=
  if !v.valid then .error .invalidSlice
  else
    match ix with
    | none => daWrite v.parent (windowIx v.window)
    | some ix =>
      match transform v ix with
      | .error e => .error e
      | .ok tix => daWrite v.parent tix

def zipWindows : List Int → List Int → List Win
  | p :: ps, e :: es => (p, p + e) :: zipWindows ps es
  | _, _ => []

/-- `DataArray.get_slice(positions, extents, mode=DataSliceMode.Index)`;
`extents = none` is the default `None` -/
def getSlice (shape : List Nat) (positions : List Int) (extents : Option (List Int)) :
    Except Err View :=
  if positions.length ≠ shape.length then .error .incompatibleDimensions
  else
    match extents with
    | none => .error .typeError              -- zip(positions, None)
    | some ext =>
      if ext ≠ [] ∧ ext.length ≠ shape.length then .error .incompatibleDimensions
      else .ok (mkView shape (some ((zipWindows positions ext).map some)))

end Nix.DataView
