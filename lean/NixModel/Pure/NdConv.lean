import NixModel.Pure.NdArray

/-!
# Conversion between element kinds on a write (C01)

What libhdf5/h5py do when the data handed to `write_direct` / `__setitem__` / `append` / `create_data_array` has
another element type than the dataset (observed on h5py 3.16 / HDF5 1.14, x86-64; exercised bit for bit by the
correspondence runs):

* which pairs of kinds are refused and with which exception (`convRefusal`),
* integers saturate at the bounds of the target type, floats are truncated toward zero and saturate,
  booleans become 0/1, a non-zero number becomes `True`,
* integers and floats are rounded to the nearest float of the target type, ties to even; a float64 whose
  magnitude exceeds the largest float32 becomes ±inf (HDF5 tests the overflow before it rounds); NaNs keep sign
  and the leading payload bits and come back quiet.

Not fixed by the model (C does not define them; the generators leave them out): NaN written into an integer
array, and a float equal to the rounded-up upper bound of a 32/64-bit integer target (2^31, 2^32, 2^63, 2^64).
-/
namespace Nix.Nd
open Nix

/-- exceptions of the storage layer: a `Nix.Err` class, or h5py's `OSError` (HDF5 error stack) -/
inductive IoErr where
  | err (e : Err)
  | osError
  deriving DecidableEq, Repr, Inhabited

def IoErr.toString : IoErr → String
  | .err e => e.toString
  | .osError => "OSError"

inductive Kind where
  | int | float | bool | text
  deriving DecidableEq, Repr

def DType.kind : DType → Kind
  | .float32 => .float | .float64 => .float | .bool => .bool | .string => .text
  | _ => .int

/-- a write of at least one element of numpy type `src` into a dataset of type `tgt`: `none` = converted,
otherwise the exception (h5py: "Can't implicitly convert non-string objects to strings" is a TypeError; a
missing HDF5 conversion path is an OSError) -/
def convRefusal (src tgt : DType) : Option IoErr :=
  match src.kind, tgt.kind with
  | .text, .text => none
  | _, .text => some (.err .typeError)
  | .text, _ => some .osError
  | .float, .bool => some .osError
  | _, _ => none

/-! ## IEEE-754 binary formats by bit pattern (`p` = precision incl. the hidden bit, `eb` = exponent bits) -/

inductive FloatVal where
  | nan (neg : Bool) (frac : Nat)
  | inf (neg : Bool)
  /-- `(-1)^neg · m · 2^e` -/
  | fin (neg : Bool) (m : Nat) (e : Int)
  deriving DecidableEq, Repr

def fbias (eb : Nat) : Int := 2 ^ (eb - 1) - 1

def decodeFloat (p eb : Nat) (bits : Nat) : FloatVal :=
  let neg := decide ((bits >>> (p - 1 + eb)) % 2 = 1)
  let bexp := (bits >>> (p - 1)) % 2 ^ eb
  let frac := bits % 2 ^ (p - 1)
  if bexp = 2 ^ eb - 1 then (if frac = 0 then .inf neg else .nan neg frac)
  else if bexp = 0 then .fin neg frac (1 - fbias eb - ((p : Int) - 1))
  else .fin neg (2 ^ (p - 1) + frac) ((bexp : Int) - fbias eb - ((p : Int) - 1))

def signBit (p eb : Nat) (neg : Bool) : Nat := if neg then 2 ^ (p - 1 + eb) else 0

def infBits (p eb : Nat) : Nat := (2 ^ eb - 1) * 2 ^ (p - 1)

/-- `m / 2^k` rounded to the nearest integer, ties to even -/
def shiftRightEven (m k : Nat) : Nat :=
  let q := m >>> k
  let r := m % 2 ^ k
  let half := 2 ^ k / 2
  if k = 0 then m
  else if r > half ∨ (r = half ∧ q % 2 = 1) then q + 1 else q

/-- the float nearest to `m · 2^e` (ties to even; gradual underflow; beyond the largest finite value: inf) -/
def encodeMag (p eb : Nat) (m : Nat) (e : Int) : Nat :=
  if m = 0 then 0
  else
    let len : Int := (Nat.log2 m : Int) + 1
    let ex : Int := e + len - 1                       -- 2^ex ≤ value < 2^(ex+1)
    let emin : Int := 1 - fbias eb
    let top : Int := if ex < emin then emin else ex
    let q : Int := top - ((p : Int) - 1)              -- the result is a multiple of 2^q
    let r : Nat := if e ≥ q then m <<< (e - q).toNat else shiftRightEven m (q - e).toNat
    let bits : Nat := (top + fbias eb - 1).toNat * 2 ^ (p - 1) + r
    if bits ≥ infBits p eb then infBits p eb else bits

/-- `m·2^e` exceeds the largest finite value `(2^p - 1)·2^(emax - p + 1)` -/
def exceedsMax (p eb : Nat) (m : Nat) (e : Int) : Bool :=
  let emaxq : Int := fbias eb - ((p : Int) - 1)
  if e ≥ emaxq then decide (m <<< (e - emaxq).toNat > 2 ^ p - 1)
  else decide (m > (2 ^ p - 1) <<< (emaxq - e).toNat)

/-- float → float of another format (HDF5: overflow test first, then the hardware conversion) -/
def convFloat (p eb p' eb' : Nat) (bits : Nat) : Nat :=
  match decodeFloat p eb bits with
  | .inf neg => signBit p' eb' neg + infBits p' eb'
  | .nan neg frac =>
    let f := (if p' ≤ p then frac >>> (p - p') else frac <<< (p' - p)) % 2 ^ (p' - 1)
    signBit p' eb' neg + infBits p' eb' + (f ||| 2 ^ (p' - 2))
  | .fin neg m e =>
    if exceedsMax p' eb' m e then signBit p' eb' neg + infBits p' eb'
    else
      let b := encodeMag p' eb' m e
      signBit p' eb' neg + (if b ≥ infBits p' eb' then infBits p' eb' else b)

def intToFloat (p eb : Nat) (v : Int) : Nat :=
  let b := encodeMag p eb v.natAbs 0
  signBit p eb (decide (v < 0)) + (if b ≥ infBits p eb then infBits p eb else b)

def clampInt (lo hi v : Int) : Int := if v < lo then lo else if v > hi then hi else v

/-- float → integer type: truncation toward zero, saturation (NaN: not fixed, see the header) -/
def floatToInt (p eb : Nat) (lo hi : Int) (bits : Nat) : Int :=
  match decodeFloat p eb bits with
  | .nan _ _ => clampInt lo hi 0
  | .inf neg => if neg then lo else hi
  | .fin neg m e =>
    let t : Nat := if e ≥ 0 then m <<< e.toNat else m >>> (-e).toNat
    clampInt lo hi (if neg then -(t : Int) else (t : Int))

/-- one element converted to the element type `tgt` of the dataset (pairs refused by `convRefusal` never get
here; they yield the fill value) -/
def convElem (tgt : DType) (x : Elem) : Elem :=
  match tgt with
  | .string => match x with
    | .text s => .text s
    | _ => .text ""
  | .bool => match x with
    | .bool b => .bool b
    | .int v => .bool (decide (v ≠ 0))
    | _ => .bool false
  | .float32 => match x with
    | .f32 b => .f32 (if b < 4294967296 then b else 0)
    | .f64 b => .f32 (convFloat 53 11 24 8 b)
    | .int v => .f32 (intToFloat 24 8 v)
    | .bool b => .f32 (if b then 0x3f800000 else 0)
    | .text _ => .f32 0
  | .float64 => match x with
    | .f64 b => .f64 (if b < 18446744073709551616 then b else 0)
    | .f32 b => .f64 (convFloat 24 8 53 11 b)
    | .int v => .f64 (intToFloat 53 11 v)
    | .bool b => .f64 (if b then 0x3ff0000000000000 else 0)
    | .text _ => .f64 0
  | t => match t.intRange with
    | none => x
    | some (lo, hi) => match x with
      | .int v => .int (clampInt lo hi v)
      | .f32 b => .int (floatToInt 24 8 lo hi b)
      | .f64 b => .int (floatToInt 53 11 lo hi b)
      | .bool b => .int (clampInt lo hi (if b then 1 else 0))
      | .text _ => .int (clampInt lo hi 0)

/-- the data after conversion to the dataset's element type -/
def convArr (tgt : DType) (D : NdArray Elem) : NdArray Elem := ⟨D.shape, fun idx => convElem tgt (D.get idx)⟩

end Nix.Nd
