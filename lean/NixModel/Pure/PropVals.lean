import NixModel.Basic
import NixModel.Pure.Units

/-!
# Model of metadata properties and dictionary-style section access (C10)

Sources mirrored, branch for branch:

* `nixio/datatype.py`  — `DataType.get_dtype` (the `isinstance` chain; `bool` *is* an `int`)
* `nixio/property.py`  — `Property.create_new`, `values` getter/setter, `extend_values`,
  `delete_values`, `_check_new_value_types`, the optional attributes (`unit`, `definition`,
  `uncertainty`, `reference`, `dependency`, `dependency_value`, `value_origin`, `odml_type`)
* `nixio/section.py`   — `create_property`, `create_section`, `__len__`, `__getitem__`,
  `__setitem__`, `__delitem__`, `__contains__`, `__iter__`, `items`, `props`
* `nixio/container.py`, `nixio/hdf5/h5group.py` — lookup by name / id / position
  (`get_by_id_or_name`, the `is_uuid` dispatch, creation-order iteration, `delete_all` by id)
* `nixio/hdf5/h5dataset.py` — the 1-D resizable dataset behind a property (`shape` setter =
  HDF5 resize: kept prefix, new cells get the fill value; `write_data`, `read_data`)

The state is *one section*: its ordered list of properties, its ordered list of child sections and
the supply of fresh ids.  Strings are `List Char` (as in the units model).  Floating point values are
IEEE bit patterns (`Nat`) because C10 is about storing and returning values unchanged (NaN payloads,
signed zero, infinities); no arithmetic is done on them.

Every refusal of the code precedes the first change of the dataset (type check, NUL test of text
values, conversion — then resize and write), so every error leaves the state untouched.
-/
namespace Nix.PropVals
open Nix.Units (Str)

/-! ## data types, stored cells -/

/-- numpy dtypes a property dataset can have (`DataType.*`; `string` = h5py vlen utf-8 text) -/
inductive DType where
  | bool | int8 | int16 | int32 | int64 | uint8 | uint16 | uint32 | uint64
  | float32 | float64 | string
  deriving DecidableEq, Repr, Inhabited

/-- one stored element of a property's dataset -/
inductive Cell where
  | b (v : Bool)
  | i (v : Int)
  | f (bits : Nat)
  | s (v : Str)
  deriving DecidableEq, Repr, Inhabited

/-- HDF5 default fill value (what `resize` puts into new cells) as read back by nixio -/
def DType.fill : DType → Cell
  | .bool => .b false
  | .float32 | .float64 => .f 0
  | .string => .s []
  | _ => .i 0

/-- value range / kind of the cells a dataset of this dtype can hold (a double is any bit pattern; the
model does not bound the `Nat` that carries it) -/
def cellOk : DType → Cell → Bool
  | .bool, .b _ => true
  | .int8, .i v => decide (-128 ≤ v) && decide (v < 128)
  | .int16, .i v => decide (-32768 ≤ v) && decide (v < 32768)
  | .int32, .i v => decide (-2147483648 ≤ v) && decide (v < 2147483648)
  | .int64, .i v => decide (-9223372036854775808 ≤ v) && decide (v < 9223372036854775808)
  | .uint8, .i v => decide (0 ≤ v) && decide (v < 256)
  | .uint16, .i v => decide (0 ≤ v) && decide (v < 65536)
  | .uint32, .i v => decide (0 ≤ v) && decide (v < 4294967296)
  | .uint64, .i v => decide (0 ≤ v) && decide (v < 18446744073709551616)
  | .float32, .f bits => decide (bits < 4294967296)
  | .float64, .f _ => true
  | .string, .s _ => true
  | _, _ => false

/-! ## Python values and `DataType.get_dtype` -/

/-- runtime class of a Python value, as far as `get_dtype` can tell classes apart -/
inductive PyClass where
  | bool | int | float | str          -- builtins
  | npBool | npInt | npFloat | npStr  -- np.bool_, np.(u)intN, np.floatN, np.str_
  | other                             -- None, bytes, complex, Decimal, list, tuple, ndarray, type objects …
  deriving DecidableEq, Repr, Inhabited

/-- `isinstance(v, BOOLS)` with `BOOLS = (bool, np.bool_)` -/
def PyClass.isBools : PyClass → Bool
  | .bool | .npBool => true
  | _ => false

/-- `isinstance(v, numbers.Integral)`: `int` — hence `bool`, its subclass — and every `np.integer`;
`np.bool_` is *not* registered -/
def PyClass.isIntegral : PyClass → Bool
  | .bool | .int | .npInt => true
  | _ => false

/-- `isinstance(v, numbers.Real)`: Integral ⊂ Real, `float`, every `np.floating` -/
def PyClass.isReal : PyClass → Bool
  | .bool | .int | .npInt | .float | .npFloat => true
  | _ => false

/-- `isinstance(v, str)`: `np.str_` subclasses `str` -/
def PyClass.isStr : PyClass → Bool
  | .str | .npStr => true
  | _ => false

/-- `DataType.get_dtype` (`datatype.py:39-50`): the chain in source order -/
def getDtypeCls (c : PyClass) : Except Err DType :=
  if c.isBools then .ok .bool
  else if c.isIntegral then .ok .int64
  else if c.isReal then .ok .float64
  else if c.isStr then .ok .string
  else .error .valueError

/-- a Python-level value tagged with its runtime class.  Numpy floating scalars carry the bits of
their (exact) widening to double, numpy integer scalars their integer value. -/
inductive PyVal where
  | pyBool (v : Bool)
  | pyInt (v : Int)
  | pyFloat (bits : Nat)
  | pyStr (v : Str)
  | npBool (v : Bool)
  | npInt (v : Int)
  | npFloat (bits : Nat)
  | npStr (v : Str)
  | other
  deriving DecidableEq, Repr, Inhabited

def PyVal.cls : PyVal → PyClass
  | .pyBool _ => .bool | .pyInt _ => .int | .pyFloat _ => .float | .pyStr _ => .str
  | .npBool _ => .npBool | .npInt _ => .npInt | .npFloat _ => .npFloat | .npStr _ => .npStr
  | .other => .other

def getDtype (v : PyVal) : Except Err DType := getDtypeCls v.cls

def int64Min : Int := -9223372036854775808
def int64Max : Int := 9223372036854775807

/-- element conversion of `np.array(vals, dtype=vtype)` for the class/dtype pairs that pass the type
check (every other pair is unreachable, see `Lemmas/C10Lemmas`): Python ints and numpy integers
outside int64 raise `OverflowError` -/
def toCell (d : DType) (v : PyVal) : Except Err Cell :=
  match d, v with
  | .bool, .pyBool b | .bool, .npBool b => .ok (.b b)
  | .int64, .pyInt i | .int64, .npInt i =>
    if int64Min ≤ i ∧ i ≤ int64Max then .ok (.i i) else .error .overflowError
  | .float64, .pyFloat x | .float64, .npFloat x => .ok (.f x)
  | .string, .pyStr s | .string, .npStr s => .ok (.s s)
  | _, _ => .error .typeError

def convertAll (d : DType) : List PyVal → Except Err (List Cell)
  | [] => .ok []
  | v :: vs =>
    match toCell d v with
    | .error e => .error e
    | .ok c =>
      match convertAll d vs with
      | .error e => .error e
      | .ok cs => .ok (c :: cs)

/-- `"\x00" in val` of `_check_text_storable` (`property.py`): an HDF5 variable-length string ends at
the first NUL, so a text containing one — anywhere, also at its end — is refused (`ValueError`) -/
def PyVal.hasNul : PyVal → Bool
  | .pyStr v | .npStr v => v.any (· == Char.ofNat 0)
  | _ => false

/-! ## inputs -/

/-- dtype of a numpy array handed in: a numeric/bool dtype, a fixed-width unicode dtype (`'<Un'`,
which never equals the `np.str_` a text property reports), or anything else (complex, bytes …) -/
inductive ADType where
  | num (d : DType)
  | ustr
  | other
  deriving DecidableEq, Repr, Inhabited

/-- `vtype != self.data_type` for `vtype = data.dtype` -/
def arrMatches : ADType → DType → Bool
  | .num d, pd => d == pd && d != .string
  | _, _ => false

/-- class of the scalars a rank-1 array of this dtype yields -/
def ADType.elemClass : ADType → PyClass
  | .num .bool => .npBool
  | .num .float32 | .num .float64 => .npFloat
  | .num .string => .other
  | .num _ => .npInt
  | .ustr => .npStr
  | .other => .other

/-- a type object handed to `create_property` instead of values -/
inductive TypeArg where
  | np (d : DType)      -- a member of `DataType`
  | pyBool | pyInt | pyFloat
  | pyStr               -- `str`: h5py has no conversion path for `dtype('<U')`
  deriving DecidableEq, Repr, Inhabited

/-- what a caller can hand to `create_property`, the `values` setter, `extend_values`.
`scalar` is any object that is not iterable, or a `str`; `list` is a list or tuple;
`ndarray` carries its dtype, shape and its elements in C order. -/
inductive Input where
  | none
  | scalar (v : PyVal)
  | list (vs : List PyVal)
  | ndarray (dt : ADType) (shape : List Nat) (data : List Cell)
  | type (t : TypeArg)
  deriving Repr, Inhabited

def shapeSize : List Nat → Nat
  | [] => 1
  | n :: ns => n * shapeSize ns

/-- well-formed input: an array has as many elements as the shape says, each fitting the dtype
(every scalar and every list is an input the model speaks about) -/
def Input.WF : Input → Bool
  | .ndarray dt shape data =>
    data.length == shapeSize shape &&
    match dt with
    | .num d => d != .string && data.all (cellOk d)
    | .ustr => data.all (fun c => match c with | .s _ => true | _ => false)
    | .other => true
  | _ => true

/-- the input seen as *one element* of a list (`[data]`): lists, arrays, None, types are objects
no branch of `get_dtype` accepts -/
def Input.asElem : Input → PyVal
  | .scalar v => v
  | _ => .other

/-- `if not isinstance(data, list): data = [data]` (`section.py:454-455`) -/
def Input.asListData : Input → Input
  | .list vs => .list vs
  | other => .list [other.asElem]

def PyVal.isEmptyStr : PyVal → Bool
  | .pyStr [] | .npStr [] => true
  | _ => false

/-! ## a property -/

inductive OdmlType where
  | boolean | int | float | string | text | url | person | datetime | date | time
  deriving DecidableEq, Repr, Inhabited

structure Attrs where
  definition : Option Str := none
  unit : Option Str := none
  uncertainty : Option Nat := none      -- double bits
  reference : Option Str := none
  dependency : Option Str := none
  dependencyValue : Option Str := none
  valueOrigin : Option Str := none
  odmlType : Option OdmlType := none
  deriving DecidableEq, Repr, Inhabited

structure PropRec where
  name : Str
  id : Nat
  dtype : DType
  vals : List Cell
  attrs : Attrs := {}
  deriving DecidableEq, Repr, Inhabited

/-- `dataset.resize((n,))`: the first `n` cells stay, new cells get the fill value -/
def resize (d : DType) (vals : List Cell) (n : Nat) : List Cell :=
  vals.take n ++ List.replicate (n - vals.length) d.fill

/-- `check_new_data_consistent(vtype)`: every element, in order -/
def checkConsistent (vt : DType) : List PyVal → Except Err Unit
  | [] => .ok ()
  | v :: vs =>
    match getDtype v with
    | .error e => .error e
    | .ok d => if d ≠ vt then .error .typeError else checkConsistent vt vs

/-- `Property._check_new_value_types` (`property.py:296-331`) against the dataset dtype `pd` -/
def checkNewValueTypes (pd : DType) (inp : Input) : Except Err Unit :=
  match inp with
  | .list [] => .error .indexError                 -- `data[0]`
  | .list (v :: vs) =>
    match getDtype v with
    | .error e => .error e
    | .ok vt => if vt ≠ pd then .error .typeError else checkConsistent vt (v :: vs)
  | .ndarray dt shape _ =>
    match shape with
    | [] => .error .indexError                     -- 0-d array cannot be indexed
    | 0 :: _ => .error .indexError
    | _ => if arrMatches dt pd then .ok () else .error .typeError
  | other =>                                       -- not a sequence (or a str): `data = [data]`
    match getDtype other.asElem with
    | .error e => .error e
    | .ok vt => if vt ≠ pd then .error .typeError else checkConsistent vt [other.asElem]

def PropRec.clear (p : PropRec) : PropRec := { p with vals := [] }

/-- `if vtype == DataType.String: _check_text_storable(vals)` -/
def textRefused (d : DType) (vs : List PyVal) : Bool := d == .string && vs.any PyVal.hasNul

/-- after the check passed: refuse text containing NUL, convert (`np.array(vals, dtype=vtype)`),
resize to `n`, write.  Everything that can refuse precedes the resize. -/
def assignList (p : PropRec) (vs : List PyVal) : PropRec × Except Err Unit :=
  match checkNewValueTypes p.dtype (.list vs) with
  | .error e => (p, .error e)
  | .ok _ =>
    if textRefused p.dtype vs then (p, .error .valueError)
    else
      match convertAll p.dtype vs with
      | .error e => (p, .error e)
      | .ok cells => ({ p with vals := cells }, .ok ())

/-- the `values` setter (`property.py:259-280`) -/
def setValues (p : PropRec) (inp : Input) : PropRec × Except Err Unit :=
  match inp with
  | .none => (p.clear, .ok ())
  | .list [] => (p.clear, .ok ())
  | .list vs => assignList p vs
  | .scalar v => if v.isEmptyStr then (p.clear, .ok ()) else assignList p [v]
  | .type _ => assignList p [.other]
  | .ndarray dt shape data =>
    match shape with
    | [] => (p, .error .typeError)                 -- `len()` of an unsized object
    | 0 :: _ => (p.clear, .ok ())
    | [_] =>
      match checkNewValueTypes p.dtype (.ndarray dt shape data) with
      | .error e => (p, .error e)
      | .ok _ => ({ p with vals := data }, .ok ())
    | _ =>
      match checkNewValueTypes p.dtype (.ndarray dt shape data) with
      | .error e => (p, .error e)
      | .ok _ => (p, .error .typeError)            -- resize of a rank-1 dataset to rank ≥ 2

/-- the Python objects `_check_text_storable(data)` iterates over (after `data = [data]` for a single
value); an array never has `vtype == DataType.String` -/
def Input.elems : Input → List PyVal
  | .list vs => vs
  | .ndarray _ _ _ => []
  | other => [other.asElem]

/-- `np.array(data, dtype=vtype).flatten('C')` for an input that passed the check -/
def inputCells (d : DType) : Input → Except Err (List Cell)
  | .list vs => convertAll d vs
  | .ndarray _ _ data => .ok data
  | other => convertAll d [other.asElem]

/-- `extend_values`: check, (a single value becomes a one-element list,) refuse text containing NUL,
convert, resize, write the tail -/
def extendValues (p : PropRec) (inp : Input) : PropRec × Except Err Unit :=
  match checkNewValueTypes p.dtype inp with
  | .error e => (p, .error e)
  | .ok _ =>
    if textRefused p.dtype inp.elems then (p, .error .valueError)
    else
      match inputCells p.dtype inp with
      | .error e => (p, .error e)
      | .ok cells => ({ p with vals := p.vals ++ cells }, .ok ())

/-! ## optional attributes -/

inductive AttrName where
  | definition | unit | uncertainty | reference | dependency | dependencyValue | valueOrigin
  deriving DecidableEq, Repr, Inhabited

/-- value assigned to an attribute: `None`, a `str`, a number (its truthiness and the bits of
`float(x)`), or some other object (its truthiness) -/
inductive AttrVal where
  | none
  | str (s : Str)
  | num (truthy : Bool) (bits : Nat)
  | other (truthy : Bool)
  deriving DecidableEq, Repr, Inhabited

def Attrs.setStr (a : Attrs) (n : AttrName) (v : Option Str) : Attrs :=
  match n with
  | .definition => { a with definition := v }
  | .unit => { a with unit := v }
  | .reference => { a with reference := v }
  | .dependency => { a with dependency := v }
  | .dependencyValue => { a with dependencyValue := v }
  | .valueOrigin => { a with valueOrigin := v }
  | .uncertainty => a

/-- the attribute setters of `Property` (`property.py:128-204`) -/
def setAttr (p : PropRec) (n : AttrName) (v : AttrVal) : PropRec × Except Err Unit :=
  match n with
  | .unit =>
    -- `if new: new = sanitizer(new)`; `if new == "": new = None`; `check_attr_type(new, str)`
    match v with
    | .none => ({ p with attrs := p.attrs.setStr .unit none }, .ok ())
    | .str s =>
      let t := if s.isEmpty then s else Nix.Units.sanitizer s
      ({ p with attrs := p.attrs.setStr .unit (if t.isEmpty then none else some t) }, .ok ())
    | .num truthy _ | .other truthy =>
      if truthy then (p, .error .attributeError) else (p, .error .typeError)
  | .uncertainty =>
    match v with
    | .none => ({ p with attrs := { p.attrs with uncertainty := none } }, .ok ())
    | .num _ bits => ({ p with attrs := { p.attrs with uncertainty := some bits } }, .ok ())
    | _ => (p, .error .typeError)
  | other =>
    match v with
    | .none => ({ p with attrs := p.attrs.setStr other none }, .ok ())
    | .str s => ({ p with attrs := p.attrs.setStr other (some s) }, .ok ())
    | _ => (p, .error .typeError)

/-- `get_dtype` of the first value as `Property.values` returns it (numpy scalars / `str`) -/
def readClassDtype : DType → DType
  | .bool => .bool
  | .float32 | .float64 => .float64
  | .string => .string
  | _ => .int64

/-- `OdmlType.compatible` (`property.py:44-69`) -/
def odmlCompatible (o : OdmlType) (d : DType) : Bool :=
  match o with
  | .string | .text | .url | .person => d == .string
  | .boolean => d == .bool
  | .float => d == .float64
  | .int => d == .int64
  | .time | .date | .datetime => d == .string

/-- the `odml_type` setter; `none` = the assigned object is not an `OdmlType` -/
def setOdml (p : PropRec) (o : Option OdmlType) : PropRec × Except Err Unit :=
  match o with
  | none => (p, .error .typeError)
  | some t =>
    match p.vals with
    | [] => (p, .error .indexError)               -- `self.values[0]`
    | _ :: _ =>
      if odmlCompatible t (readClassDtype p.dtype) then
        ({ p with attrs := { p.attrs with odmlType := some t } }, .ok ())
      else (p, .error .typeError)

/-! ## the section -/

structure SecRec where
  name : Str
  id : Nat
  deriving DecidableEq, Repr, Inhabited

structure State where
  props : List PropRec := []
  secs : List SecRec := []
  next : Nat := 0
  deriving DecidableEq, Repr, Inhabited

def State.init : State := {}

/-- key of a dictionary-style access: a string the caller chose (a name), or the id string of the
`n`-th entity ever created in this section (whether or not it still exists) -/
inductive Key where
  | name (s : Str)
  | id (n : Nat)
  deriving DecidableEq, Repr, Inhabited

/-- key of `section.props[...]`: as above, or a position -/
inductive PKey where
  | key (k : Key)
  | idx (i : Int)
  deriving DecidableEq, Repr, Inhabited

/-- `Container.__getitem__` with an `int`: negative positions count from the end; out of range ⇒
IndexError (`none`) -/
def normIdx (n : Nat) (i : Int) : Option Nat :=
  let j := if i < 0 then (n : Int) + i else i
  if j < 0 ∨ j ≥ n then none else some j.toNat

/-- `Container.__getitem__` on `props` (`container.py:39-48`, `h5group.py:175-205`): a position, or
`get_by_id_or_name`.  The real dispatch is on `util.is_uuid(key)`: a key that parses as a UUID is
first searched among the ids and, when no entity carries it as id, among the names; any other key
only among the names.  Ids come from a fresh supply, so a string the caller chose is never an id and
an id string is never a name: a `name` key is found by name whatever it looks like, an `id` key by id. -/
def findProp (st : State) : PKey → Except Err PropRec
  | .idx i =>
    match normIdx st.props.length i with
    | none => .error .indexError
    | some j =>
      match st.props[j]? with
      | some p => .ok p
      | none => .error .indexError
  | .key (.id n) =>
    match st.props.find? (·.id == n) with
    | some p => .ok p
    | none => .error .keyError
  | .key (.name s) =>
    match st.props.find? (·.name == s) with
    | some p => .ok p
    | none => .error .keyError

/-- `key in self.props` (`container.py:66-82`) -/
def propsContains (st : State) : Key → Bool
  | .id n => st.props.any (·.id == n)
  | .name s => st.props.any (·.name == s)

def secsContains (st : State) : Key → Bool
  | .id n => st.secs.any (·.id == n)
  | .name s => st.secs.any (·.name == s)

def findSec (st : State) : Key → Except Err SecRec
  | .id n =>
    match st.secs.find? (·.id == n) with
    | some x => .ok x
    | none => .error .keyError
  | .name s =>
    match st.secs.find? (·.name == s) with
    | some x => .ok x
    | none => .error .keyError

/-- `util.check_entity_name`: not empty, no slash -/
def nameOk (s : Str) : Bool := !s.isEmpty && !s.contains '/'

/-- replace the property with this id (ids are unique) -/
def State.putProp (st : State) (p : PropRec) : State :=
  { st with props := st.props.map fun q => if q.id == p.id then p else q }

def TypeArg.resolve : TypeArg → Except Err DType
  | .np d => .ok d
  | .pyBool => .ok .bool
  | .pyInt => .ok .int64
  | .pyFloat => .ok .float64
  | .pyStr => .error .typeError

def resolveDtype : TypeArg ⊕ DType → Except Err DType
  | .inl t => t.resolve
  | .inr d => .ok d

/-- dtype inference and consistency scan of `create_property` (`section.py:134-163`): the dtype
(unresolved for a type argument), `len(vals)`, and the list later assigned to `prop.values` -/
def createPlan (inp : Input) : Except Err ((TypeArg ⊕ DType) × Nat × Input) :=
  match inp with
  | .type t => .ok (.inl t, 0, .list [])
  | .none => .error .typeError
  | .list [] => .error .typeError
  | .list (v :: vs) =>
    match getDtype v with
    | .error e => .error e
    | .ok d =>
      match checkConsistent d (v :: vs) with
      | .error e => .error e
      | .ok _ => .ok (.inr d, (v :: vs).length, .list (v :: vs))
  | .scalar v =>
    if v.isEmptyStr then .error .typeError
    else match getDtype v with
      | .error e => .error e
      | .ok d =>
        match checkConsistent d [v] with
        | .error e => .error e
        | .ok _ => .ok (.inr d, 1, .list [v])
  | .ndarray dt shape data =>
    match shape with
    | [] => .error .typeError                      -- `len()` of an unsized object
    | 0 :: _ => .error .typeError
    | [n] =>
      match getDtypeCls dt.elemClass with          -- `vals[0]`, then every element (same class)
      | .error e => .error e
      | .ok d =>
        -- `hasattr(vals, "dtype") and vals.dtype != dtype`: refused before anything is created
        if arrMatches dt d then .ok (.inr d, n, .ndarray dt shape data) else .error .typeError
    | _ :: _ :: _ => .error .valueError            -- `vals[0]` is itself an array

/-- `Property.create_new`: a dataset of the initial shape (`(8,)` when no values are given), holding
fill values until `prop.values = vals` runs -/
def newProp (st : State) (name : Str) (d : DType) (n : Nat) : PropRec :=
  { name := name, id := st.next, dtype := d, vals := List.replicate (if n == 0 then 8 else n) d.fill }

/-- `Section.create_property` without `copy_from` (`section.py:127-169`) and
`Property.create_new` (`property.py:98-118`).  When the final `prop.values = vals` fails (integer
overflow, embedded NUL) the freshly created property is removed again. -/
def createProperty (st : State) (name : Str) (inp : Input) : State × Except Err Unit :=
  if st.props.any (·.name == name) then (st, .error .duplicateName)
  else
    match createPlan inp with
    | .error e => (st, .error e)
    | .ok (dt, n, vals) =>
      if !nameOk name then (st, .error .valueError)
      else
        match resolveDtype dt with
        | .error e => (st, .error e)
        | .ok d =>
          let r := setValues (newProp st name d n) vals
          match r.2 with
          | .error e => (st, .error e)               -- `del properties[name]; raise`
          | .ok _ => ({ st with props := st.props ++ [r.1], next := st.next + 1 }, .ok ())

/-- `Section.create_section` (`section.py:65-86`) -/
def createSection (st : State) (name type : Str) : State × Except Err Unit :=
  if !nameOk name then (st, .error .valueError)
  else if type.isEmpty then (st, .error .valueError)
  else if st.secs.any (·.name == name) then (st, .error .duplicateName)
  else ({ st with secs := st.secs ++ [{ name := name, id := st.next }], next := st.next + 1 }, .ok ())

/-- `len(section)` -/
def secLen (st : State) : Nat := st.props.length

inductive ItemKind where
  | prop | sec
  deriving DecidableEq, Repr, Inhabited

/-- `list(section.items())`: properties in order, then child sections in order -/
def items (st : State) : List (Str × ItemKind) :=
  st.props.map (fun p => (p.name, ItemKind.prop)) ++ st.secs.map (fun x => (x.name, ItemKind.sec))

/-- `key in section` -/
def contains (st : State) (k : Key) : Bool := propsContains st k || secsContains st k

inductive Item where
  | section (s : SecRec)
  | scalar (c : Cell)
  | values (cs : List Cell)
  deriving DecidableEq, Repr, Inhabited

/-- `section[key]` (`section.py:434-443`): a child section only if no property answers to the key;
a single value is unwrapped -/
def getitem (st : State) (k : Key) : Except Err Item :=
  if !propsContains st k && secsContains st k then
    match findSec st k with
    | .ok x => .ok (.section x)
    | .error e => .error e
  else
    match findProp st (.key k) with
    | .error e => .error e
    | .ok p =>
      match p.vals with
      | [c] => .ok (.scalar c)
      | cs => .ok (.values cs)

/-- `del section[key]` = `del self.props[key]` (`container.py:50-60`): lookup, then `delete_all`
of the id found — every entity of the section carrying that id goes -/
def delitem (st : State) (k : PKey) : State × Except Err Unit :=
  match findProp st k with
  | .error e => (st, .error e)
  | .ok p =>
    ({ st with props := st.props.filter (·.id != p.id), secs := st.secs.filter (·.id != p.id) }, .ok ())

inductive SetVal where
  | S (type : Str)          -- `section[key] = S("type")`
  | val (inp : Input)
  deriving Repr, Inhabited

/-- `section[key] = data` (`section.py:448-461`) for a string key -/
def setitem (st : State) (key : Str) (v : SetVal) : State × Except Err Unit :=
  match v with
  | .S ty => createSection st key ty
  | .val inp =>
    let data : Input := inp.asListData
    if !propsContains st (.name key) then createProperty st key data
    else
      match findProp st (.key (.name key)) with
      | .error e => (st, .error e)
      | .ok p =>
        let r := setValues p data
        (st.putProp r.1, r.2)

/-! ## operations and histories -/

inductive Op where
  | create (name : Str) (inp : Input)
  | set (k : PKey) (inp : Input)
  | extend (k : PKey) (inp : Input)
  | clear (k : PKey)
  | setAttr (k : PKey) (a : AttrName) (v : AttrVal)
  | setOdml (k : PKey) (o : Option OdmlType)
  | get (k : PKey)
  | mksec (name type : Str)
  | getitem (k : Key)
  | setitem (key : Str) (v : SetVal)
  | delitem (k : PKey)
  | contains (k : Key)
  | len
  | items
  | reopen
  | iter
  deriving Repr, Inhabited

inductive Res where
  | unit
  | prop (p : PropRec)
  | item (i : Item)
  | bool (b : Bool)
  | nat (n : Nat)
  | items (l : List (Str × ItemKind))
  deriving DecidableEq, Repr, Inhabited

abbrev Out := Except Err Res

/-- run a property-level mutator on `section.props[k]` -/
def onProp (st : State) (k : PKey) (f : PropRec → PropRec × Except Err Unit) : State × Out :=
  match findProp st k with
  | .error e => (st, .error e)
  | .ok p =>
    let r := f p
    (st.putProp r.1, match r.2 with | .ok _ => .ok .unit | .error e => .error e)

def lift (r : State × Except Err Unit) : State × Out :=
  (r.1, match r.2 with | .ok _ => .ok .unit | .error e => .error e)

/-- one call.  `reopen` (close the file, open it again) leaves the state — which *is* the file
content — unchanged; persistence itself is h5py/libhdf5 and is covered by the correspondence runs. -/
def step (st : State) : Op → State × Out
  | .create name inp => lift (createProperty st name inp)
  | .set k inp => onProp st k (setValues · inp)
  | .extend k inp => onProp st k (extendValues · inp)
  | .clear k => onProp st k (fun p => (p.clear, .ok ()))
  | .setAttr k a v => onProp st k (setAttr · a v)
  | .setOdml k o => onProp st k (setOdml · o)
  | .get k => (st, match findProp st k with | .ok p => .ok (.prop p) | .error e => .error e)
  | .mksec name type => lift (createSection st name type)
  | .getitem k => (st, match getitem st k with | .ok i => .ok (.item i) | .error e => .error e)
  | .setitem key v => lift (setitem st key v)
  | .delitem k => lift (delitem st k)
  | .contains k => (st, .ok (.bool (contains st k)))
  | .len => (st, .ok (.nat (secLen st)))
  | .items => (st, .ok (.items (items st)))
  | .reopen => (st, .ok .unit)
  | .iter => (st, .ok (.items (items st)))       -- `for item in section` = the second components of `items()`

/-- a history, from the left -/
def run (st : State) : List Op → State
  | [] => st
  | op :: ops => run (step st op).1 ops

def Op.WF : Op → Bool
  | .create _ inp | .set _ inp | .extend _ inp => inp.WF
  | .setitem _ (.val inp) => inp.WF
  | _ => true

end Nix.PropVals
