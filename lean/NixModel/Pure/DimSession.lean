import NixModel.Pure.Dim

/-!
# Sessions on the dimension descriptors of one `DataArray` (property C07)

`Pure/Dim.lean` models the conversions as functions of a configuration (offset, interval, ticks,
label count).  This file models where the configuration comes from and how it changes:

* the dimensions of one array (`DataArray.append_*_dimension`), each holding what nixio stores for
  it — `offset` / `sampling_interval` attributes, a `ticks` / `labels` dataset, a `DimensionLink`
  to a vector of a 1-D or 2-D `DataArray` or to a column of a `DataFrame`
  (`dimensions.py:67-223`, `Dimension.link_data_array`, `link_data_frame`, `remove_link`,
  `RangeDimension.link_*`, the `ticks` / `labels` / `offset` / `sampling_interval` setters);
* *handles*: `da.dimensions[i]` builds a new descriptor object on every access.  nixio keeps no
  state on a descriptor object besides the HDF5 group it stands for, so in the model a handle is
  the position of its dimension and nothing else.  A query through any handle is answered from the
  stored configuration at the time of the query (`answer`), whichever handle wrote it
  (`NixModel/Props/C07.lean`: `session_*`).  An implementation that keeps converted values, the
  interval, the ticks or the label count on the descriptor object differs from this model as soon
  as a second handle changes them;
* the values of the linked sources may be rewritten while a dimension links to them
  (`writeSrc`): ticks / labels of a linked dimension are read from the source on every query.

`sampledIndexOfZ` extends `Dim.sampledIndexOf` by what the code does for `sampling_interval = 0`
(the setter accepts it; the division yields `-inf`, `nan` or `+inf`).

Not modelled: `delete_dimensions`, the pre-1.5 alias layout, links into arrays of rank > 2, text
columns of a frame, kind-mismatched calls (`Ans.na`: the harness never produces them).
-/
namespace Nix.DimSession
open Nix Nix.Dim

/-! ## `sampling_interval = 0` -/

/-- `SampledDimension.index_of` including the zero interval: `(position - offset) / 0.0` is `-inf`
(the "before the first sample" branch), `nan` (`int(np.round(nan))`: ValueError) or `+inf`
(`int(np.round(inf))`: OverflowError) -/
def sampledIndexOfZ (off si pos : Rat) (mode : IndexMode) : Except Err Int :=
  if si = 0 then
    if pos - off < 0 then (if mode = .geq then .ok 0 else .error .indexError)
    else if pos - off = 0 then .error .valueError
    else .error .overflowError
  else sampledIndexOf off si pos mode

/-- `SampledDimension.range_indices` over `sampledIndexOfZ` (same `end_mode` table, same tail) -/
def sampledRangeIndicesZ (off si s e : Rat) (m : SliceMode) : Except Err (Option (Int × Int)) :=
  pairOrNone (sampledIndexOfZ off si s .geq) (sampledIndexOfZ off si e (endModeOf Gen.sampledEndMode m))

/-! ## linked sources -/

/-- what a `DimensionLink` can point to: a 1-D array, a 2-D array (rectangular, `ncols` per row), a
`DataFrame` with numeric columns (rows of `ncols` cells) -/
inductive Source where
  | vec (v : List Rat)
  | mat (rows : List (List Rat)) (ncols : Nat)
  | frame (rows : List (List Rat)) (ncols : Nat)
  deriving Repr, Inhabited, DecidableEq

def Source.rank : Source → Option Nat
  | .vec _ => some 1
  | .mat _ _ => some 2
  | .frame _ _ => none

/-- the `index` attribute of a link: an index vector with one `-1` (DataArray) or a column -/
inductive LinkIdx where
  | array (iv : List Int)
  | column (k : Nat)
  deriving Repr, Inhabited, DecidableEq

structure Link where
  src : Nat
  idx : LinkIdx
  deriving Repr, Inhabited, DecidableEq

/-- column `k` of a list of rows (`tuple(row[k] for row in data)`, `data[:, k]`) -/
def colOf (rows : List (List Rat)) (k : Nat) : Except Err (List Rat) :=
  rows.mapM fun r => match r[k]? with
    | some x => .ok x
    | none => .error .indexError

/-- `DimensionLink.values`: `data[tuple(dimindex)]` with the `-1` replaced by `slice(None)`, or the
column of a frame; an index beyond the extent is NumPy's `IndexError` (at read time — the link
itself is not refused) -/
def linkValues (s : Source) (ix : LinkIdx) : Except Err (List Rat) :=
  match s, ix with
  | .vec v, .array [-1] => .ok v
  | .mat rows nc, .array [-1, k] =>
    if 0 ≤ k ∧ k.toNat < nc then colOf rows k.toNat else .error .indexError
  | .mat rows _, .array [k, -1] =>
    if k < 0 then .error .indexError
    else match rows[k.toNat]? with
      | some r => .ok r
      | none => .error .indexError
  | .frame rows _, .column k => colOf rows k
  | _, _ => .error .runtimeError

/-- `Dimension._check_link_dimensionality` then `_check_index` (`link_data_array`) -/
def checkArrayLink (s : Source) (iv : List Int) : Except Err Unit :=
  match s.rank with
  | none => .error .typeError
  | some r =>
    if r ≠ iv.length then .error .incompatibleDimensions
    else if iv.count (-1) ≠ 1 ∨ (iv.filter (· < 0)).length ≠ 1 then .error .valueError
    else .ok ()

/-- `link_data_frame`: `0 <= index < len(columns)` or `OutOfBounds` (an `IndexError`) -/
def checkFrameLink (s : Source) (k : Int) : Except Err Nat :=
  match s with
  | .frame _ nc => if 0 ≤ k ∧ k.toNat < nc then .ok k.toNat else .error .indexError
  | _ => .error .typeError

/-! ## stored configuration -/

inductive DimCfg where
  /-- `offset` attribute (absent = `None`), `sampling_interval` attribute -/
  | sampled (off : Option Rat) (si : Rat)
  /-- `ticks` dataset (absent = none), link group -/
  | range (stored : Option (List Rat)) (link : Option Link)
  /-- `labels` dataset (only its length matters), link group -/
  | set (stored : Option Nat) (link : Option Link)
  deriving Repr, Inhabited, DecidableEq

structure DimRec where
  cfg : DimCfg
  unit : Option String := none
  label : Option String := none
  deriving Repr, Inhabited, DecidableEq

structure State where
  dims : List DimRec := []
  srcs : List Source := []
  /-- handle `k` stands for dimension `handles[k]` (0-based position); never more than that -/
  handles : List Nat := []
  deriving Repr, Inhabited, DecidableEq

/-- `self.offset if self.offset else 0` -/
def offOf (o : Option Rat) : Rat := o.getD 0

def readLink (srcs : List Source) (l : Link) : Except Err (List Rat) :=
  match srcs[l.src]? with
  | some s => linkValues s l.idx
  | none => .error .runtimeError

/-- `RangeDimension.ticks`: the link's values if there is a link, else the dataset (an absent
dataset reads as empty) -/
def ticksOf (srcs : List Source) (stored : Option (List Rat)) (link : Option Link) : Except Err (List Rat) :=
  match link with
  | some l => readLink srcs l
  | none => .ok (stored.getD [])

/-- `len(SetDimension.labels)` -/
def labelCountOf (srcs : List Source) (stored : Option Nat) (link : Option Link) : Except Err Nat :=
  match link with
  | some l => (readLink srcs l).map List.length
  | none => .ok (stored.getD 0)

/-! ## queries -/

inductive Query where
  | indexOf (pos : Rat) (mode : IndexMode)
  | rangeIndices (s e : Rat) (m : SliceMode)
  /-- `position_at` (sampled) / `tick_at` (range) -/
  | positionAt (i : Int)
  /-- `axis(count, start, start_position)` (sampled) / `axis(count, start)` (range, `start` given) -/
  | axis (count : Int) (start : Option Int) (sp : Option Rat)
  deriving Repr, Inhabited

deriving instance DecidableEq for Except

inductive Ans where
  | idx (r : Except Err Int)
  | pair (r : Except Err (Option (Int × Int)))
  | pos (r : Except Err Rat)
  | axis (r : Except Err (List Rat))
  | unit
  | fail (e : Err)
  /-- the call does not exist for this kind of dimension / the handle or source does not exist -/
  | na
  deriving Repr, Inhabited, DecidableEq

/-- `SetDimension.index_of`: the two tests on the position come before the labels are read -/
def setIndexOfS (srcs : List Source) (stored : Option Nat) (link : Option Link) (pos : Rat)
    (mode : IndexMode) : Except Err Int :=
  if pos < 0 then
    if mode = .geq then .ok 0 else .error .indexError
  else if pos = 0 ∧ mode = .less then .error .indexError
  else (labelCountOf srcs stored link).bind fun n => setIndexOf n pos mode

/-- the answer of a query, as a function of the *stored* configuration only -/
def answer (srcs : List Source) (c : DimCfg) (q : Query) : Ans :=
  match c, q with
  | .sampled off si, .indexOf pos mode => .idx (sampledIndexOfZ (offOf off) si pos mode)
  | .sampled off si, .rangeIndices s e m => .pair (sampledRangeIndicesZ (offOf off) si s e m)
  | .sampled off si, .positionAt i => .pos (.ok (sampledPositionAt (offOf off) si i))
  | .sampled off si, .axis count start sp => .axis (sampledAxis (offOf off) si count start sp)
  | .range st l, .indexOf pos mode => .idx ((ticksOf srcs st l).bind fun t => rangeIndexOf t pos mode)
  | .range st l, .rangeIndices s e m =>
    -- `start > end` is tested before the ticks are read
    .pair (if e < s then .error .indexError
           else (ticksOf srcs st l).bind fun t => rangeRangeIndices t s e m)
  | .range st l, .positionAt i => .pos ((ticksOf srcs st l).bind fun t => rangeTickAt t i)
  | .range st l, .axis count (some start) _ => .axis ((ticksOf srcs st l).bind fun t => rangeAxis t count start)
  | .range _ _, .axis _ none _ => .na
  | .set st l, .indexOf pos mode => .idx (setIndexOfS srcs st l pos mode)
  | .set st l, .rangeIndices s e m =>
    -- the labels are read first
    .pair ((labelCountOf srcs st l).bind fun n => setRangeIndices n s e m)
  | .set _ _, .positionAt _ => .na
  | .set _ _, .axis _ _ _ => .na

/-! ## operations -/

inductive Op where
  | appendSampled (si : Rat)
  | appendRange
  | appendSet
  | newSrc (s : Source)
  /-- rewrite the values of a source (same kind, same number of columns) -/
  | writeSrc (k : Nat) (s : Source)
  /-- `h := da.dimensions[d]`: a new descriptor object -/
  | openH (d : Nat)
  | setOffset (h : Nat) (v : Option Rat)
  | setInterval (h : Nat) (v : Rat)
  | setTicks (h : Nat) (t : List Rat)
  | setLabels (h : Nat) (n : Nat)
  | linkArray (h : Nat) (src : Nat) (iv : List Int)
  | linkFrame (h : Nat) (src : Nat) (col : Int)
  | unlink (h : Nat)
  | setUnit (h : Nat) (u : String)
  | setLabel (h : Nat) (l : String)
  | query (h : Nat) (q : Query)
  deriving Repr, Inhabited

def sameShape : Source → Source → Bool
  | .vec _, .vec _ => true
  | .mat _ a, .mat _ b => a == b
  | .frame _ a, .frame _ b => a == b
  | _, _ => false

/-- ascending (`np.any(np.diff(ticks) < 0)` is false) -/
def ascendingB : List Rat → Bool
  | [] => true
  | [_] => true
  | a :: b :: rest => decide (a ≤ b) && ascendingB (b :: rest)

/-- dimension a handle stands for -/
def dimOfHandle (st : State) (h : Nat) : Option (Nat × DimRec) :=
  match st.handles[h]? with
  | some d => (st.dims[d]?).map fun r => (d, r)
  | none => none

def setDim (st : State) (d : Nat) (r : DimRec) : State := { st with dims := st.dims.set d r }

/-- one configuration change on one dimension record: `none` when the call does not exist for this
kind; otherwise the record afterwards and the exception raised, if any (a refusal leaves the record
as it was; since `fix:` ef5752f the `ticks` setter converts to Double first and writes with an
explicit dtype, so `ticks = []` is stored as an empty dataset whether or not one existed) -/
def applyCfg (srcs : List Source) (r : DimRec) : Op → Option (DimRec × Option Err)
  | .setOffset _ v =>
    match r.cfg with
    | .sampled _ si => some ({ r with cfg := .sampled v si }, none)
    | _ => none
  | .setInterval _ v =>
    match r.cfg with
    | .sampled off _ => some ({ r with cfg := .sampled off v }, none)
    | _ => none
  | .setTicks _ t =>
    match r.cfg with
    | .range _ _ =>
      if !ascendingB t then some (r, some .valueError)
      else some ({ r with cfg := .range (some t) none }, none)
    | _ => none
  | .setLabels _ n =>
    match r.cfg with
    | .set _ l =>
      if l.isSome then some (r, some .runtimeError) else some ({ r with cfg := .set (some n) none }, none)
    | _ => none
  | .linkArray _ k iv =>
    match srcs[k]? with
    | none => none
    | some s =>
      match r.cfg with
      | .range _ _ =>
        match checkArrayLink s iv with
        | .error e => some (r, some e)
        | .ok () => some ({ r with cfg := .range none (some ⟨k, .array iv⟩) }, none)
      | .set st _ =>
        match checkArrayLink s iv with
        | .error e => some (r, some e)
        | .ok () => some ({ r with cfg := .set st (some ⟨k, .array iv⟩) }, none)
      | _ => none
  | .linkFrame _ k col =>
    match srcs[k]? with
    | none => none
    | some s =>
      match r.cfg with
      | .range _ _ =>
        match checkFrameLink s col with
        | .error e => some (r, some e)
        | .ok c => some ({ r with cfg := .range none (some ⟨k, .column c⟩) }, none)
      | .set st _ =>
        match checkFrameLink s col with
        | .error e => some (r, some e)
        | .ok c => some ({ r with cfg := .set st (some ⟨k, .column c⟩) }, none)
      | _ => none
  | .unlink _ =>
    match r.cfg with
    | .range st l => if l.isSome then some ({ r with cfg := .range st none }, none) else some (r, some .runtimeError)
    | .set st l => if l.isSome then some ({ r with cfg := .set st none }, none) else some (r, some .runtimeError)
    | _ => none
  | .setUnit _ u =>
    match r.cfg with
    | .sampled _ _ => some ({ r with unit := some u }, none)
    | .range _ none => some ({ r with unit := some u }, none)
    | _ => none      -- linked: the unit of the source is written (not part of this model); set: no unit
  | .setLabel _ l =>
    match r.cfg with
    | .range _ (some _) => none
    | _ => some ({ r with label := some l }, none)
  | _ => none

def handleOf : Op → Option Nat
  | .setOffset h _ | .setInterval h _ | .setTicks h _ | .setLabels h _ | .linkArray h _ _
  | .linkFrame h _ _ | .unlink h | .setUnit h _ | .setLabel h _ | .query h _ => some h
  | _ => none

def step (st : State) (op : Op) : State × Ans :=
  match op with
  | .appendSampled si => ({ st with dims := st.dims ++ [{ cfg := .sampled none si }] }, .unit)
  | .appendRange => ({ st with dims := st.dims ++ [{ cfg := .range none none }] }, .unit)
  | .appendSet => ({ st with dims := st.dims ++ [{ cfg := .set none none }] }, .unit)
  | .newSrc s => ({ st with srcs := st.srcs ++ [s] }, .unit)
  | .writeSrc k s =>
    match st.srcs[k]? with
    | some old => if sameShape old s then ({ st with srcs := st.srcs.set k s }, .unit) else (st, .na)
    | none => (st, .na)
  | .openH d => if d < st.dims.length then ({ st with handles := st.handles ++ [d] }, .unit) else (st, .na)
  | .query h q =>
    match dimOfHandle st h with
    | some (_, r) => (st, answer st.srcs r.cfg q)
    | none => (st, .na)
  | op =>
    match handleOf op with
    | none => (st, .na)
    | some h =>
      match dimOfHandle st h with
      | none => (st, .na)
      | some (d, r) =>
        match applyCfg st.srcs r op with
        | none => (st, .na)
        | some (r', some e) => (setDim st d r', .fail e)
        | some (r', none) => (setDim st d r', .unit)

/-- a history: the answers in order, and the final state -/
def run (st : State) : List Op → State × List Ans
  | [] => (st, [])
  | op :: ops =>
    let (st1, a) := step st op
    let (st2, as) := run st1 ops
    (st2, a :: as)

def finalState (st : State) (ops : List Op) : State := (run st ops).1

end Nix.DimSession
