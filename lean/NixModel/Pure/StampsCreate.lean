import NixModel.Pure.Stamps
import NixModel.Generated.Creation

/-!
# Pure.StampsCreate — creation and the switch, read from the source

`Pure.Stamps.step` gives a created entity both time stamps = the clock, and changes the switch only
by `setAuto` / `reopen`.  Both are *hand-written* there.  This file interprets what the translator
reads from the source (`Generated/Creation.lean`):

* `creators` / `factories`: the steps each `create_new` class method and each `create_*` factory
  performs on the entity it creates (`super` chain along Python's MRO, `force_*_at()`, setters run on
  the half-built entity such as `newentity.position = position`, …).  `createNew` / `factoryResult`
  compute which of the two stamps of the new entity hold the current time when the creation
  returns; a step the translator does not recognise (a statement naming the switch, a stamp written
  under a condition, …) makes the result `none`.
* `switchUses`: every place that names `auto_update_timestamps` / `_auto_update_timestamps`.

The theorems of `Props/C19.lean` state that every creator and factory leaves both stamps = now
(`C19_creators_stamp_both`, `C19_factories_stamp_both`), that `step`'s creation is exactly that
(`C19_create_refines_source`), and that the switch is written by `File.__init__` and its own setter
only (`C19_switch_written_only_by_assignment`).
-/
namespace Nix.Stamps
open Nix.Stamps.Gen

/-- which stamps of the entity under construction hold the current time (`false`: not written yet) -/
structure NewStamps where
  created : Bool
  updated : Bool
  deriving DecidableEq, Repr

/-- a setter / method of the new entity ran (`ts`: the touch states in which it can return; under a
condition: it may also not have run at all).  It must not stamp the owner or a linked object; with the switch off, or
when no returning path runs the idiom, nothing changes; when every returning path runs it,
`updated_at` is the current time; when the paths disagree the result is known only if `updated_at`
is the current time already. -/
def touchNew (auto : Bool) (st : NewStamps) (ts : List Touch) : Option NewStamps :=
  if ts.contains .parent || ts.contains .linked then none
  else if !auto || ts.all (· == .none) then some st
  else if ts.all (· == .self) then some { st with updated := true }
  else if st.updated then some st else none

/-- one step on the new object of class `obj` -/
def applyCStep (obj : Cls) (auto : Bool) (st : NewStamps) : CStep → Option NewStamps
  | .force .created => some { st with created := true }
  | .writeNow .created => some { st with created := true }
  | .force .updated => some { st with updated := true }
  | .writeNow .updated => some { st with updated := true }
  | .assign m cond =>
    match resolve obj m with
    | some mb =>
      if mb.kind == .setter then
        touchNew auto st (if cond then .none :: mb.returnTouches else mb.returnTouches)
      else none
    | none => none
  | .call m cond =>
    match resolve obj m with
    | some mb =>
      if mb.kind == .method then
        touchNew auto st (if cond then .none :: mb.returnTouches else mb.returnTouches)
      else none
    | none => none
  | .super => none          -- only as the first step of a creator
  | .construct => none      -- only as the first step of a creator
  | .createNew _ => none    -- only as the first step of a factory
  | .switchUse => none
  | .unknown => none

def runCSteps (obj : Cls) (auto : Bool) : NewStamps → List CStep → Option NewStamps
  | st, [] => some st
  | st, x :: xs =>
    match applyCStep obj auto st x with
    | some st' => runCSteps obj auto st' xs
    | none => none

def creatorOf (c : Cls) : Option Creator := creators.find? (fun x => x.cls == c)

/-- `C.create_new(...)` for an object of class `obj`, `C` ranging over the rest of `obj`'s MRO: the first
class that defines `create_new` runs; `super(C, cls).create_new` continues behind it; `cls(...)` starts
with an entity that has no stamps -/
def createNewFrom (obj : Cls) (auto : Bool) : List Cls → Option NewStamps
  | [] => none
  | c :: rest =>
    match creatorOf c with
    | none => createNewFrom obj auto rest
    | some cr =>
      match cr.steps with
      | .construct :: steps => runCSteps obj auto ⟨false, false⟩ steps
      | .super :: steps =>
        match createNewFrom obj auto rest with
        | some st => runCSteps obj auto st steps
        | none => none
      | _ => none

/-- `obj.create_new(...)` -/
def createNew (obj : Cls) (auto : Bool) : Option NewStamps := createNewFrom obj auto (mro obj)

/-- a factory: `v = C.create_new(...)`, then the remaining steps on `v` -/
def factoryResult (f : Factory) (auto : Bool) : Option NewStamps :=
  match f.steps with
  | .createNew c :: steps =>
    if c == f.creates then
      match createNew c auto with
      | some st => runCSteps c auto st steps
      | none => none
    else none
  | _ => none

/-- the stored attribute: the current time's text when written, missing otherwise -/
def stampText (written : Bool) (v : Str) : Option Str := if written then some v else none

/-- the entity kind a class stands for -/
def kindOfCls : Cls → Option Kind
  | .File => some .file | .Block => some .block | .Group => some .group | .DataArray => some .dataArray
  | .DataFrame => some .dataFrame | .Tag => some .tag | .MultiTag => some .multiTag
  | .Source => some .source | .Section => some .section | .Property => some .property
  | .Feature => some .feature
  | _ => none

/-! ## `File.__init__` -/

/-- which of the file's two stamp attributes exist when the file is opened (none in a new file) -/
structure FileAttrs where
  created : Bool
  updated : Bool
  deriving DecidableEq, Repr

/-- what opening does: which stamps are written with the current time, and whether the switch of the new
`File` object is the `auto_update_timestamps` argument -/
structure OpenEffect where
  writesCreated : Bool
  writesUpdated : Bool
  switchFromArg : Bool
  deriving DecidableEq, Repr

def applyFStep (present : FileAttrs) (eff : OpenEffect) : FStep → Option OpenEffect
  | .switchFromParam => some { eff with switchFromArg := true }
  | .forceIfMissing .created => some { eff with writesCreated := eff.writesCreated || !present.created }
  | .forceIfMissing .updated => some { eff with writesUpdated := eff.writesUpdated || !present.updated }
  | .force .created => some { eff with writesCreated := true }
  | .force .updated => some { eff with writesUpdated := true }
  | .unknown => none

def runFSteps (present : FileAttrs) : OpenEffect → List FStep → Option OpenEffect
  | eff, [] => some eff
  | eff, x :: xs =>
    match applyFStep present eff x with
    | some eff' => runFSteps present eff' xs
    | none => none

/-- `File.__init__` as the source has it -/
def fileInitEffect (present : FileAttrs) : Option OpenEffect :=
  runFSteps present ⟨false, false, false⟩ fileInit

/-! ## the switch over a history -/

/-- the value an operation assigns to the switch, if it is one that does (`file.auto_update_timestamps
= b`, or closing and re-opening with `auto_update_timestamps=b`) -/
def Op.setsSwitch : Op → Option Bool
  | .setAuto b => some b
  | .reopen b => some b
  | _ => none

/-- the switch as the user set it last -/
def lastSwitch (b : Bool) : List Op → Bool
  | [] => b
  | op :: ops => lastSwitch (match op.setsSwitch with | some b' => b' | none => b) ops

end Nix.Stamps
