import NixModel.Pure.FrameBytes
/-!
# Pure.FrameFx — the writes that can fail half-way, effect by effect

`Pure/Frame.lean` (and the byte-level `Pure/FrameBytes.lean`) treat the conversion of a cell as one step `conv` and a
refused write as "nothing happened".  In the code the conversion has two stages with the storage effects in between:

 1. **NumPy** builds the array in memory (`np.array(rows, dtype=compound)`, `np.array(column, dtype=t)`, the
    assignment `row[name] = cell`): numbers, booleans and numeric columns are converted and range-checked here; a
    field of the variable-length string type is an *object* field and takes any Python object (`convNp`);
 2. **h5py** converts the in-memory array when it is written: a string member takes `str` only, anything else is
    refused with TypeError (`h5Ok`) — at that point `append_rows` has already enlarged the dataset,
    `append_column` has created the dataset `data.new`, `write_column` has rewritten the rows before the offending
    one.  Each of the three has a handler that undoes it (`fix:` commits ad11a3a, e4fbac6, 2f1693f; the
    `<reraise>` guards of `Generated/FrameShape.lean`): shrink the extent back, delete `data.new`, write the rows
    read at the start back.

This file models exactly that: the two stages, the intermediate states and the handlers.  `Lemmas/C16Fx.lean` proves
that each effect-level operation ends in the state the atomic byte-level operation ends in, accepted or refused, and
leaves no `data.new` behind — which turns the former assumption "refused up front, same observable outcome" into
theorems (`Props/C16.lean`: `C16_rollbacks_restore`).  The driver runs these operations.
-/
namespace Nix.Frame

/-- stage 1, one cell: an object (text) field takes any Python object, every other field converts as `conv` -/
def convNp (t : ColType) (v : Val) : Except Err Val :=
  match t with
  | .text => .ok v
  | _ => conv t v

def npCells : List ColType → List Val → Except Err Row
  | [], [] => .ok []
  | t :: ts, v :: vs =>
    match convNp t v with
    | .error e => .error e
    | .ok w => match npCells ts vs with
      | .error e => .error e
      | .ok ws => .ok (w :: ws)
  | _, _ => .error .valueError

def npRow (ts : List ColType) (vs : List Val) : Except Err Row :=
  if vs.length ≠ ts.length then .error .valueError else npCells ts vs

/-- `np.array(list_of_tuples, dtype=compound)` -/
def npRows (ts : List ColType) : List (List Val) → Except Err (List Row)
  | [] => .ok []
  | r :: rs =>
    match npRow ts r with
    | .error e => .error e
    | .ok w => match npRows ts rs with
      | .error e => .error e
      | .ok ws => .ok (w :: ws)

/-- `np.array(column, dtype=t)` -/
def npCol (t : ColType) : List Val → Except Err (List Val)
  | [] => .ok []
  | v :: vs =>
    match convNp t v with
    | .error e => .error e
    | .ok w => match npCol t vs with
      | .error e => .error e
      | .ok ws => .ok (w :: ws)

/-- stage 2, one cell: h5py stores a `str` in a string member and refuses any other object there -/
def h5Ok (t : ColType) (v : Val) : Bool :=
  match t, v with
  | .text, .str _ => true
  | .text, _ => false
  | _, _ => true

def h5RowOk : List ColType → Row → Bool
  | t :: ts, v :: vs => h5Ok t v && h5RowOk ts vs
  | _, _ => true

def h5RowsOk (ts : List ColType) (rows : List Row) : Bool := rows.all (h5RowOk ts)

/-- what a dataset holds in a region it was enlarged by and that was never written -/
def fillVal : ColType → SVal
  | .text => .bytes ByteArray.empty
  | .f64 => .flt 0
  | .bool => .bool false
  | _ => .int 0

def fillRow (ts : List ColType) : SRow := ts.map fillVal

/-- the data group of a frame while an operation runs: the dataset `data` and, inside `append_column`, the
    dataset `data.new` built beside it -/
structure SGroup where
  data : SFrame
  dataNew : Option (List SRow)

/-- `DataFrame.append_rows` with `DataSet.append` inlined.  `junk`: whatever h5py left in the new region when the
    write failed (nothing is assumed about it). -/
def fxAppendRows (s : SFrame) (rows : List (List Val)) (junk : List SRow) : SFrame × Option Err :=
  match npRows s.types rows with                                   -- pro_data = np.array(li_data, dtype=self.data_type)
  | .error e => (s, some e)
  | .ok rs =>
    let n := s.rows.length                                         -- n_rows = len(self)
    let enlarged := s.rows ++ List.replicate rs.length (fillRow s.types)      -- self.data_extent = enlarge
    if h5RowsOk s.types rs then                                    -- self._write_data(data, slc)
      ({ s with rows := enlarged.take n ++ rs.map encRow }, none)
    else                                                           -- except: self.data_extent = (n_rows,); raise
      ({ s with rows := (enlarged.take n ++ junk).take n }, some .typeError)

/-- the in-memory loop of `write_column` over a copy of the **raw** rows: `rows[name] = cell` (stage 1 only).
    The rows are kept in two forms: as they will be stored (raw bytes of the other text fields kept) and with the
    new cell still a Python object (for stage 2). -/
def fxAssignLoop (t : ColType) (c : Nat) : List SRow → List Val → Except Err (List (SRow × Val))
  | r :: rs, v :: vs =>
    match convNp t v with
    | .error e => .error e
    | .ok w => match fxAssignLoop t c rs vs with
      | .error e => .error e
      | .ok ps => .ok ((r, w) :: ps)
  | _, _ => .ok []

/-- the write loop of `write_column`: row `i` gets its field `c` replaced and is written; the first cell h5py
    refuses stops the loop with the earlier rows already rewritten -/
def fxStoreLoop (t : ColType) (c : Nat) : List SRow → List (SRow × Val) → List SRow × Option Err
  | _ :: file, (r, w) :: ps =>
    if h5Ok t w then
      let p := fxStoreLoop t c file ps
      (r.set c (enc w) :: p.1, p.2)
    else (r :: file, some .typeError)
  | file, _ => (file, none)

/-- `DataFrame.write_column`, effect by effect -/
def fxWriteColumn (s : SFrame) (col : List Val) (index : Option Int) (name : Option String) : SFrame × Option Err :=
  if col.length ≠ s.rows.length then (s, some .valueError) else
  match sResolveColName s index name with
  | .error e => (s, some e)
  | .ok nm =>
    match s.rows with
    | [] => (s, none)
    | _ =>
      match findCol s.cols nm with
      | none => (s, some .valueError)
      | some c => match s.cols[c]? with
        | none => (s, some .valueError)
        | some ct =>
          let stored := s.rows                                      -- stored = self._h5group.group['data'][:]
          match fxAssignLoop ct.2 c stored col with                 -- changed = stored.copy(); rows[name] = cell
          | .error e => (s, some e)                                 -- nothing was written yet
          | .ok changed =>
            match fxStoreLoop ct.2 c s.rows changed with            -- try: for …: self.write_rows(rows=[rows], index=[i])
            | (rows', none) => ({ s with rows := rows' }, none)
            | (_, some e) => ({ s with rows := stored }, some e)    -- except: self._write_data(stored); raise

/-- `DataFrame.append_column`, effect by effect, on the data group -/
def fxAppendColumn (g : SGroup) (col : List Val) (name : String) (dt : Option ColType) : SGroup × Option Err :=
  let s := g.data
  if col.length ≠ s.rows.length then (g, some .valueError) else
  let t? : Except Err ColType := match dt with
    | some t => .ok t
    | none => match col with
      | [] => .error .indexError
      | v :: _ => .ok (typeOfVal v)
  match t? with
  | .error e => (g, some e)
  | .ok t =>
    match mkDtype (s.cols ++ [(name, t)]) with                      -- dt = np.dtype(dt_arr)
    | .error e => (g, some e)
    | .ok cols' =>
      match npCol t col with                                        -- column = np.array(column, dtype=datatype)
      | .error e => (g, some e)
      | .ok ws =>
        -- farr: the raw rows with the new cell; try: create "data.new", write_data(farr)
        if ws.all (h5Ok t) then
          -- del grp['data']; grp.move("data.new", "data"); units + [None]
          ({ data := { cols := cols', rows := sAppendCell s.rows (ws.map enc), units := s.units.map (· ++ [none]) },
             dataNew := none }, none)
        else
          -- except: del grp["data.new"]; raise            (the half-written dataset is removed, `data` untouched)
          let half : SGroup := { g with dataNew := some (sAppendCell s.rows (ws.map enc)) }
          ({ half with dataNew := none }, some .typeError)

/-- `write_rows`, the two stages: the rows are converted by NumPy when h5py builds the array to write, then the
    string members are checked; nothing is written before both have passed -/
def fxWriteRows (s : SFrame) (rows : List (List Val)) (idx : List Int) : SFrame × Option Err :=
  match rows with
  | [] => (s, some .indexError)
  | _ =>
    if rows.length ≠ idx.length then (s, some .indexError) else
    if maxInt idx > (s.rows.length : Int) - 1 then (s, some .outOfBounds) else
    match npRows s.types rows with
    | .error e => (s, some e)
    | .ok rs =>
      if h5RowsOk s.types rs then
        match selectList s.rows.length idx .typeError with
        | .error e => (s, some e)
        | .ok ks => ({ s with rows := sSetMany s.rows ks (rs.map encRow) }, none)
      else (s, some .typeError)

end Nix.Frame
