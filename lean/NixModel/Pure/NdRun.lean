import NixModel.Pure.NdStore
import NixModel.Generated.DataSetShape
import NixModel.Generated.DataSetDType

/-!
# Typed steps executed through the definitions compiled from the Python source (C01)

What the driver runs.  `Lemmas/C01Gen.lean` proves `stepGen = stepS` and `createGen = createS`
(`C01_source_step`), so the correspondence runs compare the implementation with the model the theorems are about.
-/
namespace Nix.Nd
open Nix Nix.NdGen Nix.Gen.DataSet

/-- one typed step: `write_direct(d)`, `da[ix] = d`, `append(d, axis)`, `data_extent = e`, close + open -/
def stepGen (A : DArr) : TStep → Run
  | .write d => runOf A (dsWriteDirect A d)
  | .assign ix d => runOf A (dsSetItem A ix d)
  | .append d axis => dsAppend A d axis
  | .resize e => runOf A (dsSetExtent A e)
  | .reopen => (A, none)

/-- `Block.create_data_array(dtype=…, shape=…, data=…)` with the already resolved filter flag -/
def createGen (dtype : Option DType) (shape : Option (List Nat)) (data : Option Arr) (compr : Bool) :
    Except IoErr DArr :=
  (createRules (dtype.map .nix) (shape.map (·.map Int.ofNat)) data).bind (createFrom compr)

/-- what h5py is asked for when `create_data_array` gets `dtype=<spelling>`: the argument travels untouched
(`dtypeHops`) to `H5DataSet.__init__`, whose compiled rule (`h5InitDtype`) replaces nixio's text type by the
variable-length string type; h5py then reads the value as NumPy does.  `none`: a spelling outside the model -/
def spelledArg (s : Nix.NdSpell.Spelling) : Option DTypeArg :=
  Nix.NdSpell.h5pyDtype Nix.Gen.DataSetDType.dataTypeMembers (Nix.Gen.DataSetDType.h5InitDtype (.spelled s))

/-- `Block.create_data_array(dtype=<spelling>, shape=…, data=…)` -/
def createSpelled (s : Nix.NdSpell.Spelling) (shape : Option (List Nat)) (data : Option Arr) (compr : Bool) :
    Option (Except IoErr DArr) :=
  (spelledArg s).map fun a => (createRules (some a) (shape.map (·.map Int.ofNat)) data).bind (createFrom compr)

end Nix.Nd
