import NixModel.Pure.NdStore
import NixModel.Generated.DataSetShape

/-!
# Typed steps executed through the definitions compiled from the Python source (C01)

What the driver runs.  `Lemmas/C01Gen.lean` proves `stepGen = stepS` and `createGen = createS`
(`C01_source_step`), so the correspondence runs compare the implementation with the model the theorems are about.
-/
namespace Nix.Nd
open Nix Nix.NdGen Nix.Gen.DataSet

/-- one typed step: `write_direct(d)`, `da[ix] = d`, `append(d, axis)`, `data_extent = e`, close + open -/
def stepGen (A : DArr) : TStep → Run
  | .write d => runOf A (dsWriteDirect A d)
  | .assign ix d => runOf A (dsSetItem A ix d)
  | .append d axis => dsAppend A d axis
  | .resize e => runOf A (dsSetExtent A e)
  | .reopen => (A, none)

/-- `Block.create_data_array(dtype=…, shape=…, data=…)` with the already resolved filter flag -/
def createGen (dtype : Option DType) (shape : Option (List Nat)) (data : Option Arr) (compr : Bool) :
    Except IoErr DArr :=
  (createRules (dtype.map .nix) (shape.map (·.map Int.ofNat)) data).bind (createFrom compr)

end Nix.Nd
