import NixModel.Pure.NdStore
import NixModel.Pure.NdSeq
import NixModel.Generated.DataSetShape
import NixModel.Generated.DataSetDType

/-!
# Typed steps executed through the definitions compiled from the Python source (C01)

What the driver runs.  `Lemmas/C01Gen.lean` proves `stepGen = stepS` and `createGen = createS`
(`C01_source_step`), so the correspondence runs compare the implementation with the model the theorems are about.
-/
namespace Nix.Nd
open Nix Nix.NdGen Nix.Gen.DataSet

/-- one typed step: `write_direct(d)`, `da[ix] = d`, `append(d, axis)`, `data_extent = e`, close + open -/
def stepGen (A : DArr) : TStep → Run
  | .write d => runOf A (dsWriteDirect A d)
  | .assign ix d => runOf A (dsSetItem A ix d)
  | .append d axis => dsAppend A d axis
  | .resize e => runOf A (dsSetExtent A e)
  | .reopen => (A, none)

/-- `Block.create_data_array(dtype=…, shape=…, data=…)` with the already resolved filter flag -/
def createGen (dtype : Option DType) (shape : Option (List Nat)) (data : Option Arr) (compr : Bool) :
    Except IoErr DArr :=
  (createRules (dtype.map .nix) (shape.map (·.map Int.ofNat)) data).bind (createFrom compr)

/-- what h5py is asked for when `create_data_array` gets `dtype=<spelling>`: the argument travels untouched
(`dtypeHops`) to `H5DataSet.__init__`, whose compiled rule (`h5InitDtype`) replaces nixio's text type by the
variable-length string type; h5py then reads the value as NumPy does.  `none`: a spelling outside the model -/
def spelledArg (s : Nix.NdSpell.Spelling) : Option DTypeArg :=
  Nix.NdSpell.h5pyDtype Nix.Gen.DataSetDType.dataTypeMembers (Nix.Gen.DataSetDType.h5InitDtype (.spelled s))

/-- `Block.create_data_array(dtype=<spelling>, shape=…, data=…)` -/
def createSpelled (s : Nix.NdSpell.Spelling) (shape : Option (List Nat)) (data : Option Arr) (compr : Bool) :
    Option (Except IoErr DArr) :=
  (spelledArg s).map fun a => (createRules (some a) (shape.map (·.map Int.ofNat)) data).bind (createFrom compr)

/-- `Block.create_data_array(dtype=v, …)` for any value of the dtype argument, also h5py's variable-length string
dtype (what `DataArray.dtype` of a text array returns) -/
def createWith (v : Nix.NdSpell.DtypeVal) (shape : Option (List Nat)) (data : Option Arr) (compr : Bool) :
    Option (Except IoErr DArr) :=
  (Nix.NdSpell.h5pyDtype Nix.Gen.DataSetDType.dataTypeMembers (Nix.Gen.DataSetDType.h5InitDtype v)).map fun a =>
    (createRules (some a) (shape.map (·.map Int.ofNat)) data).bind (createFrom compr)

/-- `H5DataSet.write_data(seq, slc)` through the compiled `h5WriteData`: the empty-source guard on the sequence,
h5py's cast of the sequence to the element type, the write of the array it got -/
def writeSeqGen (A : DArr) (d : Arr) (slc : IndexArg) : Option (Except IoErr DArr) :=
  if (arrIsEmpty d && optTruthy (h5SelectedCount A slc)) then some (.error (.err .valueError))
  else (castSeq A.dtype d).map fun r => r.bind fun d' => h5WriteData A d' slc

/-- one step whose source is a sequence (list, tuple, range, Python scalar), through the compiled definitions -/
def stepSeqGen (A : DArr) : TStep → Option Run
  | .write d => (writeSeqGen A d .none).map (runOf A)
  | .assign ix d => (writeSeqGen A d ix).map (runOf A)
  | s => some (stepGen A s)

end Nix.Nd
