import NixModel.Pure.Guarded

/-!
# Copies: `H5Group.copy` and the five functions that call it   (C12)

`create_data_array / create_data_frame / create_tag / create_multi_tag / create_block / create_property
(copy_from=…, name=…, keep_copy_id=…)`, `File.copy_section`, `Section.copy_section` all end in `H5Group.copy`, which
copies the HDF5 object first and writes the `name` attribute and (unless ids are kept) fresh ids afterwards.  What
those later statements can refuse — a name h5py cannot store as text, a keep-id flag without a truth value — has to
be asked before the copy.  A system of `Pure/Guarded.lean`: the arguments are abstract (what the validations ask of
them), the file is the destination container.
-/
namespace Nix.CopyWrite
open Nix.Guarded

/-- the `name` argument as the validations see it -/
structure NameArg where
  truthOk : Bool       -- `not name` is defined (not for an array with several elements)
  memberOk : Bool      -- `name in <h5py group>` is defined (text or bytes)
  taken : Bool         -- the destination container already holds that name
  storable : Bool      -- not text, or text without NUL that can be encoded
  key : Nat            -- which name it is
  deriving DecidableEq, Repr, Inhabited

/-- a flag argument (`keep_copy_id`, `children`): `bool(x)` / `not x` may be an error -/
structure Flag where
  boolOk : Bool
  value : Bool
  deriving DecidableEq, Repr, Inhabited

structure Call where
  kindOk : Bool        -- the source is an entity of the expected class
  name : NameArg
  keepId : Flag
  children : Flag
  srcId : Nat
  freshId : Nat
  deriving DecidableEq, Repr, Inhabited

inductive Guard where
  | objKind | nameTruth | nameFree | nameStorable | keepIdBool | childrenBool
  deriving DecidableEq, Repr, Inhabited

inductive Write where
  | openContainer      -- `open_group(<container>, True)`: an empty group no reader sees
  | h5copy             -- `grp.copy(source, dest_grp, name, shallow)`
  | setName            -- `grp.attrs["name"] = name`
  | freshIds           -- `if not keep_id: …`
  | copyProps          -- `if not children: for prop in obj.props: create_property(copy_from=prop)`
  deriving DecidableEq, Repr, Inhabited

/-- one entity of the destination container -/
structure Item where
  key : Nat
  id : Nat
  named : Bool         -- the `name` attribute has been written
  props : Bool         -- (sections) the properties have been copied
  deriving DecidableEq, Repr, Inhabited

structure File where
  container : Bool     -- the container group exists
  items : List Item
  deriving DecidableEq, Repr, Inhabited

def check (c : Call) : Guard → Option Err
  | .objKind => if c.kindOk then none else some .typeError
  | .nameTruth => if c.name.truthOk then none else some .valueError
  | .nameFree =>
    if !c.name.memberOk then some .typeError else if c.name.taken then some .keyError else none
  | .nameStorable => if c.name.storable then none else some .valueError
  | .keepIdBool => if c.keepId.boolOk then none else some .valueError
  | .childrenBool => if c.children.boolOk then none else some .valueError

def needs : Write → List Guard
  | .openContainer => []
  | .h5copy => [.nameFree]
  | .setName => [.nameStorable]
  | .freshIds => [.keepIdBool]
  | .copyProps => [.childrenBool, .keepIdBool]

def mapLast (f : Item → Item) : List Item → List Item
  | [] => []
  | [x] => [f x]
  | x :: r => x :: mapLast f r

def exec (c : Call) (f : File) : Write → File × Option Err
  | .openContainer => ({ f with container := true }, none)
  | .h5copy =>
    if c.name.memberOk && !c.name.taken then
      ({ f with items := f.items ++ [{ key := c.name.key, id := c.srcId, named := false, props := c.children.value }] }, none)
    else (f, some .valueError)
  | .setName =>
    if c.name.storable then ({ f with items := mapLast (fun i => { i with named := true }) f.items }, none)
    else (f, some .typeError)
  | .freshIds =>
    if c.keepId.boolOk then
      (if c.keepId.value then f else { f with items := mapLast (fun i => { i with id := c.freshId }) f.items }, none)
    else (f, some .valueError)
  | .copyProps =>
    if c.children.boolOk && c.keepId.boolOk then
      (if c.children.value then f else { f with items := mapLast (fun i => { i with props := true }) f.items }, none)
    else (f, some .valueError)

/-- the copying functions as a system of guards and writes; readers see the items of the container -/
def sys : Sys Call File (List Item) Guard Write :=
  { check := check, needs := needs, invisible := fun w => w == .openContainer, exec := exec, obs := (·.items) }

abbrev CStep := Step Guard Write

end Nix.CopyWrite
