import NixModel.Basic
import NixModel.Pure.Units

/-!
# Python guard expressions (C14)

The conditions under which `nixio/validator.py` appends a message are compiled from the source (by
`harness/extract/validator_guards.py`, into `Generated/ValidatorGuards.lean`) into the small expression
language below.  `eval` gives them the meaning Python gives them: *truthiness* of the value a read returns
(`None`, `0`, `0.0`, `""`, `()` and an object whose `__len__` is 0 are falsy — everything else is truthy, in
particular the epoch as a date, the string `"0"`, a position `(0.0,)`), `and` / `or` returning one of their
operands and short-circuiting, `is None`, comparisons (numbers compare across int / float, `None < 0` is a
`TypeError`), `len`, the two calls into `units.py`, a generator `any(... for v in xs if ...)` over a tuple of
values and the idiom `all(a < b for a, b in zip(xs[:-1], xs[1:]))`.

`ρ` is the type of *reads* (attribute paths such as `entity.created_at`, loop variables, locals): an enum
generated from the source.  An environment `ρ → Val` says what each read returns for the object under check.
-/
namespace Nix.PyGuard
open Nix.Units (Str isSi isAtomic scalable)

/-- the Python values the validator's reads return -/
inductive Val where
  | none
  | bool (b : Bool)
  | int (i : Int)
  /-- a float (exact) -/
  | rat (r : Rat)
  | str (s : Str)
  /-- a tuple of floats (`dim.ticks`, `tag.position`, `tag.extent`) -/
  | rats (l : List Rat)
  /-- a tuple of strings (`dim.labels`, `tag.units`) -/
  | strs (l : List Str)
  /-- a tuple of ints (`da.shape`) -/
  | ints (l : List Int)
  /-- a list of lists of strings (`refs_units`: the dimension units of every referenced array) -/
  | strss (l : List (List Str))
  /-- a list of tuples of ints (the shapes of the referenced arrays) -/
  | intss (l : List (List Int))
  /-- an object with `__len__` (a DataArray, a container): truthiness and `len` are its length -/
  | sized (n : Nat)
  /-- an enum member (`DimensionType.Range`): always truthy, equal to itself only -/
  | enum (name : String)
  deriving DecidableEq, Repr

/-- `bool(v)` -/
def truthy : Val → Bool
  | .none => false
  | .bool b => b
  | .int i => i != 0
  | .rat r => r != 0
  | .str s => !s.isEmpty
  | .rats l => !l.isEmpty
  | .strs l => !l.isEmpty
  | .ints l => !l.isEmpty
  | .strss l => !l.isEmpty
  | .intss l => !l.isEmpty
  | .sized n => n != 0
  | .enum _ => true

inductive Cmp where
  | lt | le | gt | ge | eq | ne
  deriving DecidableEq, Repr

inductive Quant where
  | all | any
  deriving DecidableEq, Repr

/-- functions of `nixio.util.units` a guard calls -/
inductive Prim where
  | isAtomic | isSi
  deriving DecidableEq, Repr

/-- conditions over the pair `(a, b)` bound by `for a, b in zip(xs, ys)` inside a verdict helper (both strings) -/
inductive PairExpr where
  | fst | snd
  | strLit (s : String)
  | eq (a b : PairExpr)
  | and (a b : PairExpr)
  | or (a b : PairExpr)
  | not (a : PairExpr)
  /-- `units.scalable(a, b)` -/
  | scalable (a b : PairExpr)
  deriving DecidableEq, Repr

/-- `==` on the values of pair conditions -/
def sumEq : Sum Str Bool → Sum Str Bool → Bool
  | .inl a, .inl b => a == b
  | .inr a, .inr b => a == b
  | _, _ => false

/-- value of a pair condition: a string or a bool -/
def PairExpr.eval (p : Str × Str) : PairExpr → Except Err (Sum Str Bool)
  | .fst => .ok (.inl p.1)
  | .snd => .ok (.inl p.2)
  | .strLit s => .ok (.inl s.toList)
  | .eq a b =>
    match a.eval p, b.eval p with
    | .ok x, .ok y => .ok (.inr (sumEq x y))
    | .error e, _ => .error e
    | _, .error e => .error e
  | .and a b =>
    match a.eval p with
    | .ok (.inr true) => b.eval p
    | .ok (.inr false) => .ok (.inr false)
    | .ok (.inl s) => if s.isEmpty then .ok (.inl s) else b.eval p
    | .error e => .error e
  | .or a b =>
    match a.eval p with
    | .ok (.inr true) => .ok (.inr true)
    | .ok (.inr false) => b.eval p
    | .ok (.inl s) => if s.isEmpty then b.eval p else .ok (.inl s)
    | .error e => .error e
  | .not a =>
    match a.eval p with
    | .ok (.inr b) => .ok (.inr (!b))
    | .ok (.inl s) => .ok (.inr s.isEmpty)
    | .error e => .error e
  | .scalable a b =>
    match a.eval p, b.eval p with
    | .ok (.inl x), .ok (.inl y) => .ok (.inr (Nix.Units.scalable x y))
    | .error e, _ => .error e
    | _, .error e => .error e
    | _, _ => .error .typeError

/-- truthiness of a pair condition -/
def PairExpr.holds (p : Str × Str) (c : PairExpr) : Except Err Bool :=
  match c.eval p with
  | .ok (.inr b) => .ok b
  | .ok (.inl s) => .ok (!s.isEmpty)
  | .error e => .error e

/-- one iteration of the inner loop of a verdict helper of the shape
`for ys in yss: for a, b in zip(xs, ys): [if skip_i: continue]*; if fail: return False` … `return True`:
`true` = the iteration does not return -/
def pairPasses (skips : List PairExpr) (fail : PairExpr) (p : Str × Str) : Except Err Bool :=
  match skips with
  | [] => match fail.holds p with
    | .ok b => .ok (!b)
    | .error e => .error e
  | c :: cs =>
    match c.holds p with
    | .ok true => .ok true
    | .ok false => pairPasses cs fail p
    | .error e => .error e

inductive Expr (ρ : Type) where
  | read (r : ρ)
  /-- the variable bound by the innermost enclosing generator -/
  | bound
  | intLit (i : Int)
  | strLit (s : String)
  | enumLit (name : String)
  | not (e : Expr ρ)
  | and (a b : Expr ρ)
  | or (a b : Expr ρ)
  | isNone (e : Expr ρ)
  | isNotNone (e : Expr ρ)
  | cmp (op : Cmp) (a b : Expr ρ)
  | len (e : Expr ρ)
  | call (p : Prim) (e : Expr ρ)
  /-- `any(body for v in src if cond)` (`cond` = `none`: no filter) -/
  | anyIn (src : Expr ρ) (cond : Option (Expr ρ)) (body : Expr ρ)
  /-- `q(a op b for a, b in zip(e[:-1], e[1:]))` -/
  | adjacent (q : Quant) (op : Cmp) (e : Expr ρ)
  /-- a call `helper(xs, yss)` of a verdict helper of the shape
  `for ys in yss: for a, b in zip(xs, ys): [if skip_i: continue]*; if fail: return False` … `return True`, inlined -/
  | matchAll (skips : List PairExpr) (fail : PairExpr) (xs yss : Expr ρ)
  deriving Repr

/-- a number as a rational (`none` = not a number) -/
def num? : Val → Option Rat
  | .int i => some (i : Rat)
  | .rat r => some r
  | .bool b => some (if b then 1 else 0)
  | _ => Option.none

/-- `a == b` -/
def valEq (a b : Val) : Bool :=
  match a, b with
  | .int x, .int y => x == y
  | _, _ =>
    match num? a, num? b with
    | some x, some y => x == y
    | _, _ => a == b

def cmpRat (op : Cmp) (x y : Rat) : Bool :=
  match op with
  | .lt => x < y | .le => x ≤ y | .gt => y < x | .ge => y ≤ x | .eq => x == y | .ne => x != y

def cmpInt (op : Cmp) (x y : Int) : Bool :=
  match op with
  | .lt => x < y | .le => x ≤ y | .gt => y < x | .ge => y ≤ x | .eq => x == y | .ne => x != y

/-- `a op b` : ordering needs two numbers, `==` / `!=` never raise -/
def compare (op : Cmp) (a b : Val) : Except Err Bool :=
  match op with
  | .eq => .ok (valEq a b)
  | .ne => .ok (!valEq a b)
  | _ =>
    match a, b with
    | .int x, .int y => .ok (cmpInt op x y)
    | _, _ =>
      match num? a, num? b with
      | some x, some y => .ok (cmpRat op x y)
      | _, _ => .error .typeError

/-- `len(v)` -/
def lenOf : Val → Except Err Nat
  | .str s => .ok s.length
  | .rats l => .ok l.length
  | .strs l => .ok l.length
  | .ints l => .ok l.length
  | .strss l => .ok l.length
  | .intss l => .ok l.length
  | .sized n => .ok n
  | _ => .error .typeError

/-- the items iterating over `v` yields -/
def itemsOf : Val → Except Err (List Val)
  | .rats l => .ok (l.map .rat)
  | .strs l => .ok (l.map .str)
  | .ints l => .ok (l.map .int)
  | .strss l => .ok (l.map .strs)
  | .intss l => .ok (l.map .ints)
  | .str s => .ok (s.map fun c => .str [c])
  | _ => .error .typeError

def callPrim (p : Prim) : Val → Except Err Val
  | .str s => .ok (.bool (match p with | .isAtomic => isAtomic s | .isSi => isSi s))
  | _ => .error .typeError

/-- adjacent pairs of a sequence: `zip(xs[:-1], xs[1:])` -/
def adjPairs {α : Type} (l : List α) : List (α × α) := l.dropLast.zip l.tail

/-- first error of a list of results, else the list of values -/
def sequence {α : Type} : List (Except Err α) → Except Err (List α)
  | [] => .ok []
  | x :: xs => do let v ← x; let vs ← sequence xs; pure (v :: vs)

/-- `any(...)` over already evaluated items, left to right, stopping at the first truthy one (an item after it is
not evaluated, so its error is not raised) -/
def anyM : List (Except Err Bool) → Except Err Bool
  | [] => .ok false
  | x :: xs => do if (← x) then pure true else anyM xs

def allM : List (Except Err Bool) → Except Err Bool
  | [] => .ok true
  | x :: xs => do if (← x) then allM xs else pure false

/-- the value of an expression; `bv` = value of the generator variable in scope -/
def eval {ρ : Type} (env : ρ → Val) : Val → Expr ρ → Except Err Val
  | _, .read r => .ok (env r)
  | bv, .bound => .ok bv
  | _, .intLit i => .ok (.int i)
  | _, .strLit s => .ok (.str s.toList)
  | _, .enumLit n => .ok (.enum n)
  | bv, .not e => do pure (.bool (!truthy (← eval env bv e)))
  | bv, .and a b => do let v ← eval env bv a; if truthy v then eval env bv b else pure v
  | bv, .or a b => do let v ← eval env bv a; if truthy v then pure v else eval env bv b
  | bv, .isNone e => do pure (.bool ((← eval env bv e) == .none))
  | bv, .isNotNone e => do pure (.bool ((← eval env bv e) != .none))
  | bv, .cmp op a b => do
      let x ← eval env bv a
      let y ← eval env bv b
      pure (.bool (← compare op x y))
  | bv, .len e => do pure (.int (← lenOf (← eval env bv e)))
  | bv, .call p e => do callPrim p (← eval env bv e)
  | bv, .anyIn src cond body => do
      let items ← itemsOf (← eval env bv src)
      let r ← anyM (items.map fun it => do
        let keep ← match cond with
          | some c => do pure (truthy (← eval env it c))
          | Option.none => pure true
        if keep then pure (truthy (← eval env it body)) else pure false)
      pure (.bool r)
  | bv, .adjacent q op e => do
      let items ← itemsOf (← eval env bv e)
      let rs := (adjPairs items).map fun p => compare op p.1 p.2
      pure (.bool (← match q with | .all => allM rs | .any => anyM rs))
  | bv, .matchAll skips fail xs yss => do
      match (← eval env bv xs), (← eval env bv yss) with
      | .strs us, .strss rss =>
        pure (.bool (← allM (rss.map fun ru => allM ((us.zip ru).map (pairPasses skips fail)))))
      | _, _ => .error .typeError

/-- a report site fires: its enclosing conditions, outermost first, are all truthy (an inner condition is evaluated
only when the outer ones hold) -/
def fires {ρ : Type} (env : ρ → Val) : List (Expr ρ) → Except Err Bool
  | [] => .ok true
  | c :: cs =>
    match eval env .none c with
    | .error e => .error e
    | .ok v => if truthy v then fires env cs else .ok false

/-- the identifiers of the sites that fire, in source order (the first exception in source order propagates) -/
def fired {ρ ι : Type} (env : ρ → Val) : List (ι × List (Expr ρ)) → Except Err (List ι)
  | [] => .ok []
  | (m, cs) :: rest =>
    match fires env cs, fired env rest with
    | .error e, _ => .error e
    | .ok _, .error e => .error e
    | .ok f, .ok more => .ok (if f then m :: more else more)

/-- one iteration of a collecting loop `for v in xs: if c1: out.append(e1) elif c2: out.append(e2) …`: the value
appended (`none` = no branch taken) -/
def appended {ρ : Type} (env : ρ → Val) : List (Expr ρ × Expr ρ) → Except Err (Option Val)
  | [] => .ok Option.none
  | (c, e) :: rest =>
    match eval env .none c with
    | .error err => .error err
    | .ok x =>
      if truthy x then
        match eval env .none e with
        | .error err => .error err
        | .ok v => .ok (some v)
      else appended env rest

/-- the list such a loop returns, one environment per item -/
def collected {ρ : Type} (branches : List (Expr ρ × Expr ρ)) : List (ρ → Val) → Except Err (List Val)
  | [] => .ok []
  | env :: rest =>
    match appended env branches, collected branches rest with
    | .error e, _ => .error e
    | .ok _, .error e => .error e
    | .ok (some v), .ok vs => .ok (v :: vs)
    | .ok Option.none, .ok vs => .ok vs

/-- optional text as a Python value -/
def ofOptStr : Option Str → Val
  | some s => .str s
  | Option.none => .none

def ofOptInt : Option Int → Val
  | some i => .int i
  | Option.none => .none

def ofOptRat : Option Rat → Val
  | some r => .rat r
  | Option.none => .none

end Nix.PyGuard
