import NixModel.Pure.Tree

/-!
# The *shape* of nixio's search / parent / referring code, as data  (property C13)

`harness/extract/findshape.py` reads `nixio/util/find.py`, `section.py`, `source.py`, `block.py` and
`file.py` with `ast` and renders what it finds as constants of the types below
(`NixModel/Generated/FindShape.lean`).  The functions of this file *interpret* such a shape over the
ownership forest of `Pure/Tree.lean`; the driver of C13 runs them on the generated constants, and
`Props/C13.lean` proves the property theorems about `… Generated.FindShape.…`, so that an edit of the
source (another comparison operator, another level constant, a containment test by name, a referring list
that scans another container, a list missing from `referring_objects`) changes a generated constant and
breaks `lake build` on a named theorem.

Everything the translator cannot express in this vocabulary is an `ExtractError` (broken tie).
-/

namespace Nix.Tree.Shape
open Nix.Tree

/-- the order comparisons Python offers between the level counter and the limit -/
inductive Cmp where
  | le | lt | ge | gt
  deriving DecidableEq, Repr, Inhabited

def Cmp.eval : Cmp → Nat → Nat → Bool
  | .le, a, b => decide (a ≤ b)
  | .lt, a, b => decide (a < b)
  | .ge, a, b => decide (b ≤ a)
  | .gt, a, b => decide (b < a)

/-- how a missing limit is replaced by `sys.maxsize` -/
inductive Defaulting where
  /-- no such statement -/
  | absent
  /-- `if limit is None: limit = maxsize` -/
  | isNone
  /-- `limit = limit or maxsize` (every falsy limit, also `0`) -/
  | falsy
  deriving DecidableEq, Repr, Inhabited

def Defaulting.apply : Defaulting → Option Nat → Option Nat
  | .absent, l => l
  | .isNone, none => some maxsize
  | .isNone, some l => some l
  | .falsy, none => some maxsize
  | .falsy, some 0 => some maxsize
  | .falsy, some (l + 1) => some (l + 1)

/-- `_find_sections` / `_find_sources` of util/find.py:
```
[limit defaulting]
fifo = []; result = []; level = level0
if isinstance(root, rootClass): fifo.append(Cont(root, level))
else:
    level += topInc
    if level <topCmp> limit: fifo += [Cont(e, level) for e in root.<childAttr>]
while len(fifo) > 0:
    child = fifo.pop(0)
    level = child.level + step
    if level <loopCmp> limit: fifo += [Cont(e, level) for e in child.elem.<childAttr>]
    if [not] filtr(child.elem): result.append(child.elem)
return result
``` -/
structure Finder where
  name : String
  rootClass : String
  childAttr : String
  defaulting : Defaulting
  level0 : Nat
  topInc : Nat
  topCmp : Cmp
  step : Nat
  loopCmp : Cmp
  filterNeg : Bool
  deriving DecidableEq, Repr, Inhabited

/-- the `while len(fifo) > 0` loop with the finder's constants -/
def findLoopG (s : Finder) (filt : Node → Bool) (limit : Nat) : List (Node × Nat) → List Node
  | [] => []
  | (n, lvl) :: rest =>
    let fifo := if s.loopCmp.eval (lvl + s.step) limit
      then rest ++ n.children.map (fun e => (e, lvl + s.step)) else rest
    if filt n != s.filterNeg then n :: findLoopG s filt limit fifo else findLoopG s filt limit fifo
termination_by q => qsize q
decreasing_by
  all_goals
    cases n with | mk i cs =>
    simp only [Node.children]
    split <;> simp [qsize, qsize_append, qsize_map, Node.size] <;> omega

/-- the whole finder.  A limit that is still `None` when the first comparison `level <= limit` is
evaluated is Python's `TypeError` (the comparison is evaluated on every path). -/
def findG (s : Finder) (root : Root) (filt : Node → Bool) (limit : Option Nat) : Except Err (List Node) :=
  match s.defaulting.apply limit with
  | none => .error .typeError
  | some lim =>
    match root with
    | .node n => .ok (findLoopG s filt lim [(n, s.level0)])
    | .top ms =>
      if s.topCmp.eval (s.level0 + s.topInc) lim
      then .ok (findLoopG s filt lim (ms.map (fun e => (e, s.level0 + s.topInc))))
      else .ok (findLoopG s filt lim [])

/-- `find_sections` / `find_sources` of File, Section, Block, Source:
`def m(self, filtr=lambda _: True, limit=None): [defaulting]; return finders.<finder>(self, filtr, limit)` -/
structure Wrapper where
  cls : String
  method : String
  defaulting : Defaulting
  finder : Finder
  /-- `cls` is the class the finder tests with `isinstance`: the search starts at the entity itself -/
  selfIsNode : Bool
  deriving DecidableEq, Repr, Inhabited

def findW (w : Wrapper) (root : Root) (filt : Node → Bool) (limit : Option Nat) : Except Err (List Node) :=
  findG w.finder root filt (w.defaulting.apply limit)

def Root.isNode : Root → Bool
  | .node _ => true
  | .top _ => false

/-! ## parents -/

/-- what an `x in container` test compares: `self.id in c` (id lookup), `self.name in c` (name lookup),
`self in c` (the very object) -/
inductive KeyBy where
  | id | name | obj
  deriving DecidableEq, Repr, Inhabited

/-- some member of `l` is the entity (key `k`, name `nm`) in the sense of the test -/
def anyBy (kb : KeyBy) (l : List Node) (k : Nat) (nm : String) : Bool :=
  match kb with
  | .name => l.any (fun c => c.name == nm)
  | _ => l.any (fun c => c.key == k)

/-- `Section.parent`:
```
if self._sec_parent is not None: return self._sec_parent        (cacheFirst)
sections = list(self.file.sections)
if self in sections: return None
while sections:
    sect = sections.pop(0)
    if <containKey> in sect.sections: self._sec_parent = sect; return sect
    sections.extend(sect.sections)
return None
``` -/
structure ParentShape where
  cacheFirst : Bool
  containKey : KeyBy
  deriving DecidableEq, Repr, Inhabited

def parentLoopG (kb : KeyBy) (k : Nat) (nm : String) : List Node → Option Node
  | [] => none
  | s :: rest => if anyBy kb s.children k nm then some s else parentLoopG kb k nm (rest ++ s.children)
termination_by q => sizeL q
decreasing_by
  cases s with | mk i cs =>
  simp [sizeL_append, sizeL, Node.size, Node.children]; omega

def sectionParentG (s : ParentShape) (f : File) (k : Nat) (useCache : Bool) : Except Err (Option Nat) :=
  match findL? k f.sections with
  | none => .error .keyError
  | some n =>
    match (if s.cacheFirst && useCache then n.cparent else none) with
    | some p => .ok (some p)
    | none =>
      -- `self in sections` on a Python list: Entity.__eq__ compares ids
      if f.sections.any (fun x => x.key == k) then .ok none else
      .ok ((parentLoopG s.containKey k n.name f.sections).map Node.key)

/-- `Source.parent_source` + `_find_parent_recursive`:
```
block = self.parent_block
if <topKey> in block.sources: return None
for s in block.sources:
    p = s._find_parent_recursive(<recKey>, False);  if p is not None: return p
return None

def _find_parent_recursive(self, child_id, check_id=True):
    [uuid check when check_id]
    if child_id in self.sources: return self
    else: for s in self.sources: src = s._find_parent_recursive(child_id, False); if src is not None: return src
    return None
``` -/
structure SrcParentShape where
  topKey : KeyBy
  recKey : KeyBy
  deriving DecidableEq, Repr, Inhabited

mutual
def findParentRecG (kb : KeyBy) (k : Nat) (nm : String) : Node → Option Node
  | .mk i cs => if anyBy kb cs k nm then some (.mk i cs) else findParentRecLG kb k nm cs
def findParentRecLG (kb : KeyBy) (k : Nat) (nm : String) : List Node → Option Node
  | [] => none
  | c :: cs => match findParentRecG kb k nm c with
    | some p => some p
    | none => findParentRecLG kb k nm cs
end

def sourceParentG (s : SrcParentShape) (f : File) (k : Nat) : Except Err (Option Nat) :=
  match f.lookup k with
  | some (.src b n) =>
    if anyBy s.topKey b.sources k n.name then .ok none else
    .ok ((findParentRecLG s.recKey k n.name b.sources).map Node.key)
  | _ => .error .keyError

/-! ## referring lists -/

/-- which entities a `Section.referring_*` property scans -/
inductive Scope where
  /-- `nf.blocks` -/
  | blocks
  /-- `blk.groups / data_arrays / tags / multi_tags` for every block -/
  | holders (kind : Kind)
  /-- `blk.find_sources()` for every block: every source at any depth -/
  | sourcesFind
  /-- `blk.sources` for every block: the root sources only -/
  | sourcesTop
  deriving DecidableEq, Repr, Inhabited

/-- a `Section.referring_*` property: scan `scope`, keep `x` when `x.metadata is not None and
x.metadata.<key> == self.<key>` -/
structure Scan where
  scope : Scope
  key : KeyBy
  deriving DecidableEq, Repr, Inhabited

def secName (f : File) (k : Nat) : Option String := (findL? k f.sections).map Node.name

/-- `x.metadata is not None and x.metadata.<key> == self.<key>` -/
def mdMatch (f : File) (kb : KeyBy) (md : Option Nat) (k : Nat) : Bool :=
  match md with
  | none => false
  | some t =>
    match kb with
    | .name => secName f t == secName f k
    | _ => t == k

def refScan (f : File) (sc : Scan) (k : Nat) : List Nat :=
  match sc.scope with
  | .blocks => (f.blocks.filter fun b => mdMatch f sc.key b.md k).map Block.key
  | .holders kind =>
    f.blocks.flatMap fun b => ((holdersOf b kind).filter fun h => mdMatch f sc.key h.md k).map Holder.key
  | .sourcesFind =>
    f.blocks.flatMap fun b =>
      ((findFrom (.top b.sources) (fun _ => true) none).filter fun s => mdMatch f sc.key s.md k).map Node.key
  | .sourcesTop =>
    f.blocks.flatMap fun b => (b.sources.filter fun s => mdMatch f sc.key s.md k).map Node.key

/-- one referring property by its Python name; an unknown name is `AttributeError` -/
def refList (tbl : List (String × Scan)) (f : File) (nm : String) (k : Nat) : Except Err (List Nat) :=
  match tbl.lookup nm with
  | some sc => .ok (refScan f sc k)
  | none => .error .attributeError

/-- `referring_objects`: `objs.extend(self.<name>)` for the names in order -/
def refObjectsG (tbl : List (String × Scan)) (order : List String) (f : File) (k : Nat) : Except Err (List Nat) :=
  match order with
  | [] => .ok []
  | nm :: rest =>
    match refList tbl f nm k, refObjectsG tbl rest f k with
    | .ok a, .ok b => .ok (a ++ b)
    | .error e, _ => .error e
    | _, .error e => .error e

/-- a `Source.referring_*` property: `[x for x in block.<kind container> if self in x.sources]`,
`block = self.parent_block` -/
structure SrcScan where
  kind : Kind
  /-- how membership in `x.sources` is tested (`self in …`: the object; `self.id in …`: the id) -/
  test : KeyBy
  deriving DecidableEq, Repr, Inhabited

def srcRefScan (b : Block) (sc : SrcScan) (k : Nat) : List Nat :=
  ((holdersOf b sc.kind).filter fun h => h.srcs.contains k).map Holder.key

def srcRefList (tbl : List (String × SrcScan)) (b : Block) (nm : String) (k : Nat) : Except Err (List Nat) :=
  match tbl.lookup nm with
  | some sc => .ok (srcRefScan b sc k)
  | none => .error .attributeError

def srcRefObjectsG (tbl : List (String × SrcScan)) (order : List String) (b : Block) (k : Nat) :
    Except Err (List Nat) :=
  match order with
  | [] => .ok []
  | nm :: rest =>
    match srcRefList tbl b nm k, srcRefObjectsG tbl rest b k with
    | .ok a, .ok b => .ok (a ++ b)
    | .error e, _ => .error e
    | _, .error e => .error e

/-! ## `Section.find_related` -/

/-- `Section.find_related`:
```
result = []
if self.parent is not None: result = finders._find_sections(self.parent, filtr, <limit>)
if self in result: del result[result.index(self)]
result += finders._find_sections(self, filtr, <limit>)
``` -/
structure RelatedShape where
  finder : Finder
  parentLimit : Nat
  selfLimit : Nat
  deriving DecidableEq, Repr, Inhabited

/-- `del result[result.index(self)]`: the first element equal (by id) to the entity -/
def eraseKey (k : Nat) : List Node → List Node
  | [] => []
  | x :: xs => if x.key == k then xs else x :: eraseKey k xs

/-- the whole of `find_related` (the parent is taken as `Section.parent` gives it for this handle) -/
def findRelatedG (ps : ParentShape) (rs : RelatedShape) (f : File) (k : Nat) (useCache : Bool)
    (filt : Node → Bool) : Except Err (List Node) :=
  match findL? k f.sections with
  | none => .error .keyError
  | some n =>
    match sectionParentG ps f k useCache with
    | .error e => .error e
    | .ok par =>
      let first : Except Err (List Node) :=
        match par with
        | none => .ok []
        | some pk =>
          match findL? pk f.sections with
          | none => .error .keyError
          | some p => findG rs.finder (.node p) filt (some rs.parentLimit)
      match first, findG rs.finder (.node n) filt (some rs.selfLimit) with
      | .ok a, .ok b => .ok (eraseKey k a ++ b)
      | .error e, _ => .error e
      | _, .error e => .error e

end Nix.Tree.Shape
