import NixModel.Pure.Guarded

/-!
# Single-valued attributes: the setters that end in `set_attr`   (C12)

`Entity.type / definition`, `DataArray.unit / label / expansion_origin`, the `label / unit / offset /
sampling_interval` of the dimension descriptors, the attributes of a `Property`, `Section.reference / repository`,
`Feature.link_type`: a type check (`util.check_attr_type`), for some a normalisation of the value (a unit is
sanitised, an uncertainty converted to `float`, a link type looked up), then `set_attr`, which removes the attribute
for `None` and otherwise hands the value to h5py.  h5py determines the HDF5 type of a value first and replaces the
attribute afterwards — removing the previous value before it finds out that a text cannot be stored (embedded NUL, lone
surrogate): `set_attr` therefore checks text itself (nixio df56e57).

A system of `Pure/Guarded.lean`.  The value is abstract (what the validations ask of it); the file is the attribute
and the `updated_at` of the entity.
-/
namespace Nix.AttrWrite
open Nix.Guarded

structure Arg where
  isNone : Bool          -- `value is None`
  typeOk : Bool          -- `isinstance(value, T)` for the type the setter names
  normOk : Bool          -- the normalisation before the write (`sanitizer`, `float`, `LinkType`) does not raise
  storesNone : Bool      -- what reaches `set_attr` is `None` (`None` given, or a unit that sanitises to the empty text)
  isText : Bool          -- what reaches `set_attr` is a `str`
  textStorable : Bool    -- … without NUL, encodable as UTF-8
  hasH5Type : Bool       -- h5py finds an HDF5 type for what reaches it
  key : Nat              -- which value it is
  now : Nat
  deriving DecidableEq, Repr, Inhabited

inductive Guard where
  | notNone              -- `if typ is None: raise`
  | typeOk               -- `util.check_attr_type(value, T)` / `if not isinstance(…): raise`
  | normalised           -- `if unit: unit = sanitizer(unit)`, `float(x)`, `LinkType(x)`
  | textStorable         -- (`set_attr`) `if isinstance(value, str): util.check_text_storable(value)`
  | hasH5Type            -- h5py: the HDF5 type of the value is determined before the attribute is touched
  deriving DecidableEq, Repr, Inhabited

inductive Write where
  | ensureGroup          -- `self._create_h5obj()`
  | delAttr              -- `if name in attrs: del attrs[name]`
  | replaceAttr          -- `attrs[name] = value`: the previous value is removed, the new one written
  | stamp
  deriving DecidableEq, Repr, Inhabited

structure File where
  attr : Option Nat
  stamp : Nat
  deriving DecidableEq, Repr, Inhabited

def check (a : Arg) : Guard → Option Err
  | .notNone => if a.isNone then some .attributeError else none
  | .typeOk => if a.isNone || a.typeOk then none else some .typeError
  | .normalised => if a.normOk then none else some .valueError
  | .textStorable => if !a.isText || a.textStorable then none else some .valueError
  | .hasH5Type => if a.hasH5Type then none else some .typeError

def needs : Write → List Guard
  | .replaceAttr => [.textStorable, .hasH5Type]
  | _ => []

/-- `replaceAttr` on a text h5py cannot store: the previous value is gone when the error comes -/
def exec (a : Arg) (f : File) : Write → File × Option Err
  | .ensureGroup => (f, none)
  | .delAttr => ({ f with attr := none }, none)
  | .replaceAttr =>
    if !a.hasH5Type then (f, some .typeError)
    else if a.isText && !a.textStorable then ({ f with attr := none }, some .valueError)
    else ({ f with attr := some a.key }, none)
  | .stamp => ({ f with stamp := a.now }, none)

def sys : Sys Arg File File Guard Write :=
  { check := check, needs := needs, invisible := fun w => w == .ensureGroup, exec := exec, obs := id }

abbrev AStep := Step Guard Write

/-- a setter: the statements on the path `set_attr` takes for `None` (`true`) and for a value (`false`) -/
abbrev Setter := Bool → List AStep

def runSetter (st : Setter) (a : Arg) (f : File) : File × Option Err := run sys a (st a.storesNone) f

end Nix.AttrWrite
