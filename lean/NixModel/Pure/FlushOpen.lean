import NixModel.Pure.OpenPrim
import NixModel.Generated.OpenShape

/-!
# C17 — the open path of `nixio.File` over the disk / cache model (file.py:60-125)

`Pure/Flush.lean` models what `flush` / `close` do to one file. This file adds what `File.__init__` decides and
asks of libhdf5 when it opens that file, because durability after a kill also depends on *how the file was
opened*:

* the **decision table** of `__init__` (`openDecision`, compared entry by entry with the table regenerated from
  the source, `Gen.openTable`): which (state of the path, mode) is refused, created/truncated, or opened;
* the **file-access property list** of `make_fapl()` (`Gen.faplCalls`): with a lower library-version bound of
  1.10 or newer libhdf5 writes a version-3 superblock, and in such a file it *persistently marks* the file as
  'open for write' for as long as a writer holds it. The mark is cleared by a regular close only; a writer
  killed after `flush()` leaves it set and every later open (read-only or read-write) is refused — observed on
  this h5py/libhdf5 for every pair of bounds (harness: fapl probes), and modelled here by `sb3` / `flag`;
* **which path** the new file is created at (`Gen.createPathIsArg`): a file created beside the named path
  receives the flushes, the named path does not (`detached`).

`stepO` runs an event of `Pure/Flush.lean` under a configuration `Cfg` (lower bound, create / open at the named
path). Under
the configuration read off the source (`Gen.cfg`) it is proved to coincide with `step` (`Lemmas/C17Open.lean`),
so every theorem about `step` holds for the code as it is; under the other configurations it is proved to lose
the flushed state.
-/
namespace Nix.Flush

/-- every call on the property list is one the model understands -/
def faplModelled : List FaplCall → Bool
  | [] => true
  | .libver _ _ :: cs => faplModelled cs
  | .other _ :: _ => false

/-- the lower library-version bound in force when the list is handed to libhdf5 (the last call wins; the
default is `earliest`) -/
def faplLow : List FaplCall → Libver
  | [] => .earliest
  | .libver lo _ :: cs => if cs.any (fun c => match c with | .libver _ _ => true | _ => false) then faplLow cs else lo
  | .other _ :: cs => faplLow cs

/-- files created with this lower bound get a version-3 superblock, whose 'open for write' mark outlives a
killed writer (libhdf5 ≥ 1.10: bound 1.10 or newer) -/
def locking (lo : Libver) : Bool := decide (Libver.v110.rank ≤ lo.rank)

/-- `File.__init__`, file.py:98-125, in the order of its checks: a zero-byte file is refused unless it is to be
overwritten; a missing file cannot be read; a missing file or Overwrite creates (truncating) and leaves
`self.mode = Overwrite`; everything else opens what is there -/
def openDecision : PathState → Mode → OpenAct
  | .empty, .overwrite => .create .trunc .overwrite
  | .empty, _ => .refuseInvalidFile
  | .missing, .readOnly => .refuseRuntime
  | .missing, _ => .create .trunc .overwrite
  | .file, .overwrite => .create .trunc .overwrite
  | .file, .readOnly => .openExisting .rdonly .readOnly
  | .file, .readWrite => .openExisting .rdwr .readWrite

/-- what the open path asks of libhdf5, as far as durability is concerned -/
structure Cfg where
  /-- lower library-version bound of the property list -/
  low : Libver
  /-- `h5py.h5f.create` is given the path the caller named -/
  createAtArg : Bool
  /-- `h5py.h5f.open` is given the path the caller named -/
  openAtArg : Bool
  deriving DecidableEq, Repr

/-- the configuration of the source as it is -/
def Gen.cfg : Cfg := ⟨faplLow Gen.faplCalls, Gen.createPathIsArg, Gen.openPathIsArg⟩

structure OWorld where
  /-- disk / cache / pending of the *named* path (and of the handle, unless `detached`) -/
  w : World
  /-- the file at the named path has a version-3 superblock -/
  sb3 : Bool
  /-- … and its persistent 'open for write' mark is set -/
  flag : Bool
  /-- the open handle belongs to a file created at another path: nothing it does reaches the named path -/
  detached : Bool

def OWorld.init : OWorld := ⟨World.init, false, false, false⟩

/-- state of the named path as `os.path` reports it (zero-byte files come from outside: see `openDecision`) -/
def pathState (ow : OWorld) : PathState :=
  if (settle ow.w).disk.isSome then .file else .missing

/-- an event other than `open` / `kill`: what `Pure/Flush.lean` says, except that a detached handle leaves the
named path alone; a handle that goes away by a regular close clears the mark -/
def liftO (ow : OWorld) (e : Ev) : OWorld × Option Err :=
  let r := step ow.w e
  let closed := ow.w.handle.isSome && r.1.handle.isNone
  ({ w := if ow.detached then { r.1 with disk := ow.w.disk, pending := ow.w.pending } else r.1,
     sb3 := ow.sb3,
     flag := if closed && !ow.detached then false else ow.flag,
     detached := if closed then false else ow.detached }, r.2)

def openO (cfg : Cfg) (ow : OWorld) (m : Mode) : OWorld × Option Err :=
  match ow.w.handle with
  | some _ => (ow, some .runtimeError)
  | none =>
    match openDecision (pathState ow) m with
    | .refuseRuntime => ({ ow with w := (openFile ow.w m).1 }, some .runtimeError)
    | .refuseInvalidFile => (ow, some .invalidFile)
    | .create _ _ =>
      if cfg.createAtArg then
        (⟨(openFile ow.w .overwrite).1, locking cfg.low, locking cfg.low, false⟩, none)
      else
        ({ ow with w := { settle ow.w with handle := some ⟨.overwrite, Store.empty⟩ }, detached := true }, none)
    | .openExisting fl _ =>
      if !cfg.openAtArg then
        -- some other file is opened (its content is not the model's business): the named path is left alone
        ({ ow with w := { settle ow.w with handle := some ⟨m, Store.empty⟩ }, detached := true }, none)
      else if ow.flag then (ow, some .runtimeError)     -- libhdf5: "file is already open for write"
      else ({ ow with w := (openFile ow.w m).1, flag := ow.sb3 && decide (fl = .rdwr) }, none)

def stepO (cfg : Cfg) (ow : OWorld) : Ev → OWorld × Option Err
  | .open m => openO cfg ow m
  | .kill => ({ ow with w := (step ow.w .kill).1, detached := false }, none)
  | .write x => liftO ow (.write x)
  | .flush => liftO ow .flush
  | .close => liftO ow .close
  | .exit => liftO ow .exit
  | .writeback ks => liftO ow (.writeback ks)

def runO (cfg : Cfg) (ow : OWorld) : List Ev → OWorld
  | [] => ow
  | e :: es => runO cfg (stepO cfg ow e).1 es

/-- what the API shows through the open handle -/
def viewO (ow : OWorld) : Option Store := view ow.w

/-- the writer is killed now and the named path is opened again with mode `m`: refusal, or the view -/
def reopenO (cfg : Cfg) (ow : OWorld) (m : Mode) : Option Err × Option Store :=
  let r := stepO cfg (stepO cfg ow .kill).1 (.open m)
  (r.2, viewO r.1)

end Nix.Flush
