import NixModel.Basic
import NixModel.Generated.Compression

/-!
# n-d array content model (C01)

Two layers.

* **Storage stand-in** (`NdArray`, `resize`, `setRegion`, `gather`, `select`, broadcasting): what h5py/libhdf5 do
  with a chunked, unlimited dataset — extent change keeps the elements whose multi-index survives and fills new
  ones with the fill value; a hyperslab write replaces exactly the selected elements (h5py's broadcasting of the
  source included); index arguments are normalised as `h5py._selector` does.  This layer is *modelled, not
  verified*; the correspondence runs speak for it.
* **nixio logic** (`createDataArray`, `append`, `writeDirect`, `assign`, `setExtent`, `readAll`, `readRegion`,
  compression resolution): follows `nixio/block.py:create_data_array`, `nixio/data_set.py`,
  `nixio/hdf5/h5dataset.py`, `nixio/data_array.py:create_new/_read_data`, `nixio/file.py` branch for branch.

An array is its shape plus a total function from multi-indices to elements (only in-bounds indices matter).
-/
namespace Nix.Nd
open Nix Nix.Gen.Compr

/-! ## storage stand-in -/

structure NdArray (α : Type) where
  shape : List Nat
  get : List Nat → α

/-- `idx` is a valid multi-index of `shape` (same rank, every coordinate below the extent) -/
def inBounds : List Nat → List Nat → Bool
  | [], [] => true
  | i :: is, n :: ns => decide (i < n) && inBounds is ns
  | _, _ => false

/-- all multi-indices of a shape in row-major (C) order -/
def indices : List Nat → List (List Nat)
  | [] => [[]]
  | n :: ns => (List.range n).flatMap fun i => (indices ns).map (i :: ·)

def NdArray.toList (A : NdArray α) : List α := (indices A.shape).map A.get

def sizeOf : List Nat → Nat
  | [] => 1
  | n :: ns => n * sizeOf ns

/-- HDF5 `H5Dset_extent` on a chunked dataset of the same rank: surviving multi-indices keep their value,
new ones read as the fill value (also after shrink-then-grow) -/
def NdArray.resize (fill : α) (A : NdArray α) (newShape : List Nat) : NdArray α :=
  ⟨newShape, fun idx => if inBounds idx A.shape then A.get idx else fill⟩

/-- one axis of a regular hyperslab: coordinates `start + k*step`, `k < count`; `scalar` marks an integer index
(the axis is dropped from the array shape of the selection) -/
structure AxisSel where
  start : Nat
  step : Nat
  count : Nat
  scalar : Bool
  deriving DecidableEq, Repr

/-- position `k` in the selected sequence of the coordinate `i`, if selected -/
def AxisSel.hit (s : AxisSel) (i : Nat) : Option Nat :=
  if s.step = 0 then none
  else if s.start ≤ i ∧ (i - s.start) % s.step = 0 ∧ (i - s.start) / s.step < s.count then
    some ((i - s.start) / s.step)
  else none

/-- coordinates of `idx` relative to the selection (one per axis, scalar axes give 0), if `idx` is selected -/
def relIdx : List AxisSel → List Nat → Option (List Nat)
  | [], [] => some []
  | s :: ss, i :: is =>
    match s.hit i, relIdx ss is with
    | some k, some ks => some (k :: ks)
    | _, _ => none
  | _, _ => none

/-- index argument of `__getitem__` / `__setitem__`: an integer or a slice (`None` = absent) -/
inductive Ix where
  | int (i : Int)
  | slice (start stop step : Option Int)
  deriving DecidableEq, Repr

/-- CPython `slice.indices(len)` bound adjustment for a positive step:
`None` → default, negative → `+ len` clipped at 0, beyond the end → `len` -/
def adjustBound (len : Nat) (dflt : Nat) : Option Int → Nat
  | none => dflt
  | some v =>
    if v < 0 then (if v + (len : Int) < 0 then 0 else (v + (len : Int)).toNat)
    else if v ≥ (len : Int) then len else v.toNat

/-- a negative integer index counts from the end -/
def wrapIndex (len : Nat) (i : Int) : Int := if i < 0 then i + (len : Int) else i

/-- the step of a slice, `None` = 1 -/
def sliceStep : Option Int → Int
  | none => 1
  | some s => s

/-- `h5py._selector`: one index argument against an axis of extent `len` -/
def selectAxis (len : Nat) : Ix → Except Err AxisSel
  | .int i =>
    if 0 ≤ wrapIndex len i ∧ wrapIndex len i < (len : Int) then .ok ⟨(wrapIndex len i).toNat, 1, 1, true⟩
    else .error .indexError
  | .slice start stop step =>
    -- step 0: `slice.indices` raises ValueError; step < 0: h5py raises ValueError("Step must be >= 1")
    if sliceStep step < 1 then .error .valueError
    else if adjustBound len len stop < adjustBound len 0 start then .ok ⟨0, 1, 0, false⟩
    else .ok ⟨adjustBound len 0 start, (sliceStep step).toNat,
              (if adjustBound len len stop = adjustBound len 0 start then 0
               else (adjustBound len len stop - adjustBound len 0 start - 1) / (sliceStep step).toNat + 1), false⟩

/-- index arguments are consumed left to right; missing trailing ones are full slices; a surplus argument is a
ValueError ("n indexing arguments for m dimensions") raised when it is reached -/
def select : List Nat → List Ix → Except Err (List AxisSel)
  | [], [] => .ok []
  | [], _ :: _ => .error .valueError
  | n :: ns, [] =>
    match select ns [] with
    | .ok r => .ok (⟨0, 1, n, false⟩ :: r)
    | .error e => .error e
  | n :: ns, ix :: ixs =>
    match selectAxis n ix with
    | .error e => .error e
    | .ok s =>
      match select ns ixs with
      | .ok r => .ok (s :: r)
      | .error e => .error e

/-- `SimpleSelection.expand_shape` as a test (lists reversed: last axis first): source dimensions are matched from
the last non-scalar axis backwards and must be 1 or the axis count; left-over leading source dimensions must
not exceed 1 -/
def bcastOkRev : List AxisSel → List Nat → Bool
  | [], ds => ds.all fun n => decide (n ≤ 1)
  | s :: ss, ds =>
    if s.scalar then bcastOkRev ss ds
    else match ds with
      | [] => true
      | t :: ts => (t == 1 || t == s.count) && bcastOkRev ss ts

def bcastOk (sel : List AxisSel) (dshape : List Nat) : Bool := bcastOkRev sel.reverse dshape.reverse

/-- source multi-index (reversed) that lands on the relative selection coordinates `rel` (reversed) -/
def bcastIdxRev : List AxisSel → List Nat → List Nat → List Nat
  | [], _, ds => ds.map fun _ => 0
  | _ :: _, [], ds => ds.map fun _ => 0
  | s :: ss, r :: rs, ds =>
    if s.scalar then bcastIdxRev ss rs ds
    else match ds with
      | [] => []
      | t :: ts => (if t = 1 then 0 else r) :: bcastIdxRev ss rs ts

def bcastIdx (sel : List AxisSel) (rel : List Nat) (dshape : List Nat) : List Nat :=
  (bcastIdxRev sel.reverse rel.reverse dshape.reverse).reverse

/-- hyperslab write with h5py broadcasting: selected elements take the (broadcast) source element, all others
keep their value; the shape never changes -/
def NdArray.setRegion (A : NdArray α) (sel : List AxisSel) (D : NdArray α) : NdArray α :=
  ⟨A.shape, fun idx =>
    match relIdx sel idx with
    | some rel => D.get (bcastIdx sel rel D.shape)
    | none => A.get idx⟩

/-- array shape of a selection: the counts of the non-scalar axes -/
def selShape : List AxisSel → List Nat
  | [] => []
  | s :: ss => if s.scalar then selShape ss else s.count :: selShape ss

/-- absolute multi-index of the relative coordinates `r` (one per non-scalar axis) -/
def absIdx : List AxisSel → List Nat → List Nat
  | [], _ => []
  | s :: ss, rs =>
    if s.scalar then s.start :: absIdx ss rs
    else match rs with
      | [] => s.start :: absIdx ss []
      | r :: rs' => (s.start + r * s.step) :: absIdx ss rs'

/-- hyperslab read -/
def NdArray.gather (A : NdArray α) (sel : List AxisSel) : NdArray α :=
  ⟨selShape sel, fun r => A.get (absIdx sel r)⟩

/-- reference concatenation along axis `k` (specification, not the code path of `append`) -/
def NdArray.concat (A D : NdArray α) (k : Nat) : NdArray α :=
  ⟨A.shape.set k (A.shape.getD k 0 + D.shape.getD k 0),
   fun idx => if idx.getD k 0 < A.shape.getD k 0 then A.get idx
              else D.get (idx.set k (idx.getD k 0 - A.shape.getD k 0))⟩

/-! ## element types -/

/-- the 12 element types of `nixio.DataType` -/
inductive DType where
  | uint8 | uint16 | uint32 | uint64 | int8 | int16 | int32 | int64 | float32 | float64 | bool | string
  deriving DecidableEq, Repr, Inhabited

/-- an element: integers exactly, floats by IEEE bit pattern, booleans, text -/
inductive Elem where
  | int (v : Int)
  | f32 (bits : Nat)
  | f64 (bits : Nat)
  | bool (b : Bool)
  | text (s : String)
  deriving DecidableEq, Repr, Inhabited

/-- HDF5 default fill value: zero bits / the empty string -/
def DType.fill : DType → Elem
  | .float32 => .f32 0
  | .float64 => .f64 0
  | .bool => .bool false
  | .string => .text ""
  | _ => .int 0

def DType.intRange : DType → Option (Int × Int)
  | .uint8 => some (0, 255) | .uint16 => some (0, 65535) | .uint32 => some (0, 4294967295)
  | .uint64 => some (0, 18446744073709551615)
  | .int8 => some (-128, 127) | .int16 => some (-32768, 32767) | .int32 => some (-2147483648, 2147483647)
  | .int64 => some (-9223372036854775808, 9223372036854775807)
  | _ => none

/-- the element is a value of the element type -/
def Elem.hasType (t : DType) : Elem → Bool
  | .int v => match t.intRange with
    | some (lo, hi) => decide (lo ≤ v) && decide (v ≤ hi)
    | none => false
  | .f32 b => t == .float32 && decide (b < 4294967296)
  | .f64 b => t == .float64 && decide (b < 18446744073709551616)
  | .bool _ => t == .bool
  | .text _ => t == .string

/-! ## compression resolution (file.py:133-135, 420-421; block.py:38-53, 251-252; data_array.py:45-48) -/

/-- `File.__init__`: `if compression == Auto: compression = No` -/
def resolveFile (c : Compression) : Compression := if c = fileIf then fileThen else c

/-- `File.create_block`: `if compression == Auto: compression = self._compr` -/
def resolveBlock (fileCompr c : Compression) : Compression := if c = blockIf then fileCompr else c

/-- `Block.create_data_array`: `if compression == Auto: compression = self._compr` -/
def resolveArray (blockCompr c : Compression) : Compression := if c = arrayIf then blockCompr else c

/-- `DataArray.create_new`: `datacompr = (compression == DeflateNormal)` -/
def datasetCompressed (c : Compression) : Bool := decide (c = deflateIf)

/-- does the dataset of a new array get the gzip filter?  `refetched`: the block handle was obtained from
`file.blocks[...]` (then `Block.__init__`'s default applies) instead of being the one `create_block` returned -/
def resolveCompression (file block array : Compression) (refetched : Bool) : Bool :=
  let f := resolveFile file
  let b := if refetched then blockHandleDefault else resolveBlock f block
  datasetCompressed (resolveArray b array)

/-! ## nixio logic -/

/-- the data of one array: element type, whether the dataset carries the gzip filter, content -/
structure DArr where
  dtype : DType
  compressed : Bool
  arr : NdArray Elem

/-- `dataset[ixs] = D` (h5dataset.py:42-48 → h5py `Dataset.__setitem__`): selection errors first, then the
broadcast test (TypeError), then the hyperslab write -/
def assign (A : DArr) (ixs : List Ix) (D : NdArray Elem) : Except Err DArr :=
  match select A.arr.shape ixs with
  | .error e => .error e
  | .ok sel =>
    if bcastOk sel D.shape then .ok { A with arr := A.arr.setRegion sel D }
    else .error .typeError

/-- `DataSet.write_direct(data)`: `dataset[:] = data` -/
def writeDirect (A : DArr) (D : NdArray Elem) : Except Err DArr :=
  assign A [Ix.slice none none none] D

/-- `np.ascontiguousarray(data)`: same content; a 0-d array comes back 1-d with one element -/
def contiguous (D : NdArray Elem) : NdArray Elem :=
  if D.shape = [] then ⟨[1], fun _ => D.get []⟩ else D

/-- `if dtype is None: dtype = <default>` -/
def chooseDType (dtype : Option DType) (dflt : DType) : DType :=
  match dtype with
  | none => dflt
  | some t => t

/-- `if shape is not None: if shape != data.shape: raise ValueError` -/
def shapeAgrees (shape : Option (List Nat)) (dshape : List Nat) : Bool :=
  match shape with
  | none => true
  | some sh => decide (sh = dshape)

/-- `Block.create_data_array` (block.py:233-259), name handling left out.  `data` carries the numpy dtype of the
contiguous data (`.string` = text data, numpy kind U/O).  `compr` is the already resolved dataset filter flag. -/
def createDataArray (dtype : Option DType) (shape : Option (List Nat)) (data : Option (DType × NdArray Elem))
    (compr : Bool) : Except Err DArr :=
  match data with
  | none =>
    match shape with
    | none => .error .valueError
    | some sh => .ok ⟨chooseDType dtype .float64, compr, ⟨sh, fun _ => (chooseDType dtype .float64).fill⟩⟩
  | some (ddt, d0) =>
    if !shapeAgrees shape (contiguous d0).shape then .error .valueError
    -- text data without `dtype=DataType.String`: numpy's U/O dtype has no HDF5 equivalent (h5py TypeError)
    else if dtype = none ∧ ddt = .string then .error .typeError
    else
      -- create_new: dataset of `shape` holding the fill value; then write_direct(data): dataset[:] = data
      writeDirect ⟨chooseDType dtype ddt, compr, ⟨(contiguous d0).shape, fun _ => (chooseDType dtype ddt).fill⟩⟩
        (contiguous d0)

def allNonneg : List Int → Bool
  | [] => true
  | x :: xs => decide (0 ≤ x) && allNonneg xs

/-- `data_extent = extent` → `h5py.Dataset.resize`: rank mismatch is a TypeError, a negative extent an
OverflowError; otherwise HDF5 extent change -/
def setExtent (A : DArr) (extent : List Int) : Except Err DArr :=
  if extent.length ≠ A.arr.shape.length then .error .typeError
  else if !allNonneg extent then .error .overflowError
  else .ok { A with arr := A.arr.resize A.dtype.fill (extent.map Int.toNat) }

/-- `any(s != ds for i, (s, ds) in enumerate(zip(shape, dshape)) if i != axis)`; `rel = axis - i` -/
def shapeMismatch : Int → List Nat → List Nat → Bool
  | _, [], _ => false
  | _, _, [] => false
  | rel, s :: ss, d :: ds => (decide (rel ≠ 0) && decide (s ≠ d)) || shapeMismatch (rel - 1) ss ds

/-- `tuple(0 if i != axis else x for i, x in enumerate(shape))`; `rel = axis - i` -/
def appendOffset : Int → List Nat → List Nat
  | _, [] => []
  | rel, x :: xs => (if rel ≠ 0 then 0 else x) :: appendOffset (rel - 1) xs

/-- `tuple(shape[i] + (0 if i != axis else x) for i, x in enumerate(dshape))` (ranks are equal) -/
def appendEnlarge : Int → List Nat → List Nat → List Nat
  | _, [], _ => []
  | _, _, [] => []
  | rel, s :: ss, x :: xs => (s + (if rel ≠ 0 then 0 else x)) :: appendEnlarge (rel - 1) ss xs

/-- `tuple(slice(o, c + o) for o, c in zip(offset, count))` -/
def appendSlices : List Nat → List Nat → List Ix
  | [], _ => []
  | _, [] => []
  | o :: os, c :: cs => Ix.slice (some (o : Int)) (some ((c : Int) + (o : Int))) none :: appendSlices os cs

/-- `DataSet.append(data, axis)` (data_set.py:92-121, with the axis validation of the `fix:` commit):
rank check, axis check, per-axis shape check excluding `axis`, offset, enlarge, resize, hyperslab write -/
def append (A : DArr) (D0 : NdArray Elem) (axis : Int) : Except Err DArr :=
  let D := contiguous D0
  if A.arr.shape.length ≠ D.shape.length then .error .valueError
  else if ¬ (0 ≤ axis ∧ axis < (A.arr.shape.length : Int)) then .error .valueError
  else if shapeMismatch axis A.arr.shape D.shape then .error .valueError
  else
    let offset := appendOffset axis A.arr.shape
    let count := D.shape
    let enlarge := appendEnlarge axis A.arr.shape D.shape
    match setExtent A (enlarge.map Int.ofNat) with
    | .error e => .error e
    | .ok A1 => assign A1 (appendSlices offset count) D

/-- one step of a history on one array -/
inductive Step where
  | write (d : NdArray Elem)
  | assign (ixs : List Ix) (d : NdArray Elem)
  | append (d : NdArray Elem) (axis : Int)
  | resize (extent : List Int)
  | reopen

/-- close + open of the file: the stored content is what it was (runtime stand-in) -/
def step (A : DArr) : Step → Except Err DArr
  | .write d => writeDirect A d
  | .assign ixs d => assign A ixs d
  | .append d axis => append A d axis
  | .resize e => setExtent A e
  | .reopen => .ok A

/-- a refused step leaves the array as it was -/
def stepState (A : DArr) (s : Step) : DArr :=
  match step A s with
  | .ok B => B
  | .error _ => A

def run (A : DArr) : List Step → DArr
  | [] => A
  | s :: rest => run (stepState A s) rest

/-- `DataArray._read_data()` without calibration: the whole content; a 0-d result is returned as shape (1,) -/
def readAll (A : DArr) : NdArray Elem :=
  if A.arr.shape = [] then ⟨[1], fun _ => A.arr.get []⟩ else A.arr

/-- `DataArray[ixs]`: every h5py selection error is re-raised as IndexError (h5dataset.py:50-62) -/
def readRegion (A : DArr) (ixs : List Ix) : Except Err (NdArray Elem) :=
  match select A.arr.shape ixs with
  | .error _ => .error .indexError
  | .ok sel =>
    let r := A.arr.gather sel
    if r.shape = [] then .ok ⟨[1], fun _ => r.get []⟩ else .ok r

/-- `len(da)` = `shape[0]` -/
def lenOf (A : DArr) : Except Err Nat :=
  match A.arr.shape with
  | [] => .error .indexError
  | n :: _ => .ok n

end Nix.Nd
