import NixModel.Lemmas.C14File
import Mathlib.Algebra.Order.Ring.Rat

/-!
# C14 — well-formed objects yield no messages; no API read raises
-/
namespace Nix.Validator.Lemmas
open Nix.Validator Nix.Validator.Gen Nix.Units

/-! ## ticks: the code's adjacent-pair test is strict monotonicity -/

theorem ticksSorted_cons_cons (a b : Rat) (r : List Rat) :
    ticksSorted (a :: b :: r) = (decide (a < b) && ticksSorted (b :: r)) := by
  simp [ticksSorted, List.dropLast, List.zip, List.all]

/-- `all(ti < tj for ti, tj in zip(ticks[:-1], ticks[1:]))` holds iff every tick is smaller than every
later tick -/
theorem ticksSorted_iff (t : List Rat) : ticksSorted t = true ↔ List.Pairwise (· < ·) t := by
  induction t with
  | nil => simp [ticksSorted]
  | cons a r ih =>
    cases r with
    | nil => simp [ticksSorted]
    | cons b r' =>
      rw [ticksSorted_cons_cons, Bool.and_eq_true, decide_eq_true_iff, ih, List.pairwise_cons (a := a)]
      constructor
      · rintro ⟨hab, hp⟩
        refine ⟨?_, hp⟩
        intro x hx
        rcases List.mem_cons.mp hx with rfl | hx
        · exact hab
        · exact lt_trans hab ((List.pairwise_cons.mp hp).1 x hx)
      · rintro ⟨h, hp⟩
        exact ⟨h b (by simp), hp⟩

/-! ## well-formedness of the single objects (the conjunction of the property statement) -/

/-- type, id, name and date are present (and the id is a UUID, so the API hands the object out) -/
def EntOk (e : Ent) : Prop :=
  e.idUuid = true ∧ falsy e.type_ = false ∧ falsy e.id = false ∧ falsy e.name = false ∧ e.createdAt ≠ none

/-- a dimension unit, when set, is an atomic SI unit -/
def DimUnitOk (u : Option Str) : Prop := ∀ s, u = some s → s ≠ [] → isAtomic s = true

/-- the descriptor at (1-based) position `pos`, describing a data dimension of `n` entries -/
def DimOk (pos : Nat) (d : Dim) (n : Nat) : Prop :=
  d.index = (pos : Int) ∧
  (d.kind = .range → d.ticks.length = n ∧ d.ticks ≠ [] ∧ List.Pairwise (· < ·) d.ticks ∧ DimUnitOk d.unit) ∧
  (d.kind = .sample → (∃ r, d.interval = some r ∧ 0 < r) ∧ DimUnitOk d.unit) ∧
  (d.kind = .set → d.nLabels = 0 ∨ d.nLabels = n)

/-- one descriptor per data dimension, each well-formed -/
def ArrayOk (da : DataArray) : Prop :=
  EntOk da.ent ∧ falsy da.dataType = false ∧ da.dims.length = da.shape.length ∧
  ∀ i d n, (da.dims.zip da.shape)[i]? = some (d, n) → DimOk (i + 1) d n

def FeatureOk (arrays : List DataArray) (ft : Feature) : Prop :=
  ft.idUuid = true ∧ falsy ft.id = false ∧ ft.createdAt ≠ none ∧ linkTypeOk ft.linkType = true ∧
  ∃ da n, ft.data.bind (fun k => arrays[k]?) = some da ∧ firstLen da.shape = some n ∧ n ≠ 0

/-- unit count matches every reference, units pairwise convertible (or both absent), and SI -/
def UnitsOk (units : List Str) (refs : List DataArray) : Prop :=
  (∀ da ∈ refs, (getDimUnits da).length = units.length) ∧
  (∀ da ∈ refs, ∀ p ∈ units.zip (getDimUnits da), (p.1 = [] ∧ p.2 = []) ∨ scalable p.1 p.2 = true) ∧
  (∀ u ∈ units, u ≠ [] → isSi u = true)

def TagOk (arrays : List DataArray) (t : Tag) : Prop :=
  EntOk t.ent ∧ t.posLen ≠ 0 ∧
  (∀ da ∈ refArrays arrays t.refs, t.posLen = da.shape.length) ∧
  (t.extLen = 0 ∨ (t.extLen = t.posLen ∧ ∀ da ∈ refArrays arrays t.refs, t.extLen = da.shape.length)) ∧
  UnitsOk t.units (refArrays arrays t.refs) ∧
  ∀ ft ∈ t.features, FeatureOk arrays ft

/-- positions are linked, non-empty, with one entry per data dimension of every reference; extents are absent, or
of the positions' shape, or an *empty* array (which nixio treats like absent extents: `if mtag.extents`) -/
def MultiTagOk (arrays : List DataArray) (t : MultiTag) : Prop :=
  EntOk t.ent ∧
  (∃ ps n k, MtPosShape arrays t = some ps ∧ firstLen ps = some n ∧ n ≠ 0 ∧ secondDim ps = some k ∧
     ∀ da ∈ refArrays arrays t.refs, k = da.shape.length) ∧
  (MtExtShape arrays t = none ∨ MtExtShape arrays t = MtPosShape arrays t ∨
     ∃ es, MtExtShape arrays t = some es ∧ firstLen es = some 0) ∧
  UnitsOk t.units (refArrays arrays t.refs) ∧
  ∀ ft ∈ t.features, FeatureOk arrays ft

def PropertyOk (p : Property) : Prop := p.idUuid = true ∧ falsy p.id = false ∧ falsy p.name = false

/-! ## no messages on well-formed objects -/

theorem checkEntity_nil {e : Ent} (h : EntOk e) : checkEntity e = [] := by
  obtain ⟨_, h1, h2, h3, h4⟩ := h
  have h4' : e.createdAt.isNone = false := by
    cases hc : e.createdAt with
    | none => exact absurd hc h4
    | some _ => rfl
  simp [checkEntity, h1, h2, h3, h4']

theorem badDimUnit_false {u : Option Str} (h : DimUnitOk u) : badDimUnit u = false := by
  cases u with
  | none => simp [badDimUnit, falsy]
  | some s =>
    by_cases hs : s = []
    · simp [badDimUnit, falsy, hs]
    · simp [badDimUnit, falsy, h s rfl hs]

theorem dimMsgs_nil {pos : Nat} {d : Dim} {n : Nat} (h : DimOk pos d n) (hpos : 0 < pos) :
    dimMsgs pos d n = [] := by
  apply List.eq_nil_iff_forall_not_mem.mpr
  intro m hm
  rw [mem_dimMsgs] at hm
  obtain ⟨hidx, hr, hs, hset⟩ := h
  unfold DimSpec at hm
  rcases hm with ⟨-, h⟩ | ⟨-, -, h⟩ | ⟨-, hk, h⟩ | ⟨-, hk, h⟩ | ⟨-, hk, h1, h2⟩ | ⟨-, hk, h⟩ | ⟨-, hk, h⟩ |
    ⟨-, hk, r, hr', hlt⟩ | ⟨-, hk, h1, h2⟩
  · omega
  · exact h hidx
  · exact h (hr hk).1
  · exact (hr hk).2.1 h
  · have := (ticksSorted_iff d.ticks).mpr (hr hk).2.2.1
    rw [this] at h2; exact absurd h2 (by decide)
  · have hu : DimUnitOk d.unit := by
      rcases hk with hk | hk
      · exact (hr hk).2.2.2
      · exact (hs hk).2
    rw [badDimUnit_false hu] at h; exact absurd h (by decide)
  · obtain ⟨⟨r, hr', hpos'⟩, -⟩ := hs hk
    simp only [hr', noInterval, beq_iff_eq] at h
    subst h
    exact absurd hpos' (by decide)
  · obtain ⟨⟨r0, hr0, hpos'⟩, -⟩ := hs hk
    rw [hr0] at hr'
    cases hr'
    exact absurd (lt_trans hpos' hlt) (lt_irrefl _)
  · rcases hset hk with h | h
    · exact h1 h
    · exact h2 h

theorem checkDataArray_nil {da : DataArray} (h : ArrayOk da) : checkDataArray da = [] := by
  apply List.eq_nil_iff_forall_not_mem.mpr
  intro m hm
  rw [mem_checkDataArray] at hm
  obtain ⟨he, hdt, hlen, hd⟩ := h
  rcases hm with hm | ⟨-, h⟩ | ⟨-, h⟩ | ⟨i, d, n, hi, hs⟩
  · rw [checkEntity_nil he] at hm; exact absurd hm (by simp)
  · rw [hdt] at h; exact absurd h (by decide)
  · exact h hlen
  · have := dimMsgs_nil (hd i d n hi) (Nat.succ_pos i)
    rw [← mem_dimMsgs, this] at hs
    exact absurd hs (by simp)

theorem checkFeature_nil {arrays : List DataArray} {ft : Feature} (i : Nat) (h : FeatureOk arrays ft) :
    checkFeature arrays ft i = [] := by
  apply List.eq_nil_iff_forall_not_mem.mpr
  intro m hm
  rw [mem_checkFeature] at hm
  obtain ⟨-, hid, hc, hl, da, n, hda, hn, hn0⟩ := h
  rcases hm with ⟨-, h⟩ | ⟨-, h⟩ | ⟨-, da', hda', h0⟩ | ⟨-, h⟩
  · rw [hid] at h; exact absurd h (by decide)
  · exact hc h
  · rw [hda] at hda'; cases hda'
    rw [hn] at h0; cases h0; exact hn0 rfl
  · rw [hl] at h; exact absurd h (by decide)

theorem refUnitMsgs_nil {units : List Str} {refs : List DataArray} (h : UnitsOk units refs) :
    refUnitMsgs units refs = [] := by
  apply List.eq_nil_iff_forall_not_mem.mpr
  intro m hm
  rw [mem_refUnitMsgs] at hm
  rcases hm with ⟨-, da, hda, hne⟩ | ⟨-, da, hda, p, hp, hn⟩
  · exact hne (h.1 da hda)
  · exact hn (h.2.1 da hda p hp)

theorem checkTag_nil {arrays : List DataArray} {t : Tag} (h : TagOk arrays t) : checkTag arrays t = [] := by
  apply List.eq_nil_iff_forall_not_mem.mpr
  intro m hm
  rw [mem_checkTag] at hm
  obtain ⟨he, hp, hpr, hext, hu, hf⟩ := h
  rcases hm with hm | ⟨-, h⟩ | ⟨-, h0, hne⟩ | ⟨-, hm⟩ | ⟨-, u, hu', hne, hsi⟩ | ⟨i, ft, hi, hm⟩
  · rw [checkEntity_nil he] at hm; exact absurd hm (by simp)
  · exact hp h
  · rcases hext with h | h
    · exact h0 h
    · exact hne h.1
  · rcases hm with ⟨-, da, hda, hne⟩ | ⟨-, h0, da, hda, hne⟩ | hm
    · exact hne (hpr da hda)
    · rcases hext with h | h
      · exact h0 h
      · exact hne (h.2 da hda)
    · rw [refUnitMsgs_nil hu] at hm; exact absurd hm (by simp)
  · rw [hu.2.2 u hu' hne] at hsi; exact absurd hsi (by decide)
  · rw [checkFeature_nil i (hf ft (List.mem_of_getElem? hi))] at hm; exact absurd hm (by simp)

theorem checkMultiTag_nil {arrays : List DataArray} {t : MultiTag} (h : MultiTagOk arrays t) :
    checkMultiTag arrays t = [] := by
  apply List.eq_nil_iff_forall_not_mem.mpr
  intro m hm
  rw [mem_checkMultiTag] at hm
  obtain ⟨he, ⟨ps, n, k, hps, hn, hn0, hk, hrk⟩, hext, hu, hf⟩ := h
  have hes' : ∀ es, MtExtShape arrays t = some es → firstLen es ≠ some 0 → es = ps := by
    intro es hes h0
    rcases hext with h | h | ⟨es', hes', h0'⟩
    · rw [h] at hes; cases hes
    · rw [h, hps] at hes; cases hes; rfl
    · rw [hes'] at hes; cases hes; exact absurd h0' h0
  rcases hm with hm | ⟨-, h⟩ | ⟨-, -, es, hes, h0, hne⟩ | ⟨-, hm⟩ | ⟨-, u, hu', hne, hsi⟩ | ⟨i, ft, hi, hm⟩
  · rw [checkEntity_nil he] at hm; exact absurd hm (by simp)
  · rw [hps] at h
    simp only [reduceCtorEq, Option.bind_some, hn, Option.some.injEq, false_or] at h
    exact hn0 h
  · rw [hes' es hes h0] at hne; exact hne hps
  · rcases hm with ⟨-, -, da, hda, hne⟩ | ⟨-, es, hes, h0, da, hda, hne⟩ | hm
    · rw [hps] at hne
      simp only [Option.bind_some, hk, ne_eq, Option.some.injEq] at hne
      exact hne (hrk da hda)
    · rw [hes' es hes h0, hk] at hne
      exact hne (by rw [hrk da hda])
    · rw [refUnitMsgs_nil hu] at hm; exact absurd hm (by simp)
  · rw [hu.2.2 u hu' hne] at hsi; exact absurd hsi (by decide)
  · rw [checkFeature_nil i (hf ft (List.mem_of_getElem? hi))] at hm; exact absurd hm (by simp)

theorem checkSection_nil {e : Ent} {ps : List Property} (he : EntOk e) (hp : ∀ p ∈ ps, PropertyOk p) :
    checkSection e ps = [] := by
  apply List.eq_nil_iff_forall_not_mem.mpr
  intro m hm
  rw [mem_checkSection] at hm
  rcases hm with hm | ⟨i, p, hi, hm⟩
  · rw [checkEntity_nil he] at hm; exact absurd hm (by simp)
  · obtain ⟨-, h1, h2⟩ := hp p (List.mem_of_getElem? hi)
    rw [mem_checkProperty] at hm
    rcases hm with ⟨-, h⟩ | ⟨-, h⟩
    · rw [h1] at h; exact absurd h (by decide)
    · rw [h2] at h; exact absurd h (by decide)

/-! ## API reads that raise -/

mutual
theorem sourceEvents_eq (s : Source) :
    sourceEvents s = (sourceEnts s).flatMap (fun e => ctorEvents e.idUuid) := by
  match s with
  | .mk e ch => simp [sourceEvents, sourceEnts, sourcesEvents_eq ch]
theorem sourcesEvents_eq (l : List Source) :
    sourcesEvents l = (sourcesEnts l).flatMap (fun e => ctorEvents e.idUuid) := by
  match l with
  | [] => simp [sourcesEvents, sourcesEnts]
  | s :: rest => simp [sourcesEvents, sourcesEnts, sourceEvents_eq s, sourcesEvents_eq rest]
end

mutual
theorem sectionEvents_eq (s : Section) :
    sectionEvents s = (sectionNodes s).flatMap
      (fun n => ctorEvents n.1.idUuid ++ n.2.flatMap (fun p => ctorEvents p.idUuid)) := by
  match s with
  | .mk e ps ch => simp [sectionEvents, sectionNodes, sectionsEvents_eq ch]
theorem sectionsEvents_eq (l : List Section) :
    sectionsEvents l = (sectionsNodes l).flatMap
      (fun n => ctorEvents n.1.idUuid ++ n.2.flatMap (fun p => ctorEvents p.idUuid)) := by
  match l with
  | [] => simp [sectionsEvents, sectionsNodes]
  | s :: rest => simp [sectionsEvents, sectionsNodes, sectionEvents_eq s, sectionsEvents_eq rest]
end

theorem featureEvents_nil {arrays : List DataArray} {ft : Feature} (h : FeatureOk arrays ft) :
    featureEvents arrays ft = [] := by
  obtain ⟨hu, -, -, hl, da, n, hda, hn, -⟩ := h
  simp [featureEvents, ctorEvents, hu, hda, hn, hl]

theorem flatMap_nil_of {α β : Type} {l : List α} {f : α → List β} (h : ∀ a ∈ l, f a = []) :
    l.flatMap f = [] := by
  simp only [List.flatMap_eq_nil_iff]
  exact h

theorem tagEvents_nil {arrays : List DataArray} {t : Tag} (h : TagOk arrays t) : tagEvents arrays t = [] := by
  obtain ⟨he, -, -, -, -, hf⟩ := h
  simp only [tagEvents, ctorEvents, he.1, if_true, List.nil_append]
  exact flatMap_nil_of fun ft hft => featureEvents_nil (hf ft hft)

theorem shapeEvents_nil {b : Bool} {sh : List Nat} {n : Nat} (h : firstLen sh = some n) : shapeEvents b sh = [] := by
  cases sh with
  | nil => simp [firstLen] at h
  | cons a r => cases r <;> simp [shapeEvents, firstLen, secondDim]

theorem mtagEvents_nil {arrays : List DataArray} {t : MultiTag} (h : MultiTagOk arrays t) :
    mtagEvents arrays t = [] := by
  obtain ⟨he, ⟨ps, n, k, hps, hn, -, hk, -⟩, hext, -, hf⟩ := h
  have hf' : t.features.flatMap (featureEvents arrays) = [] :=
    flatMap_nil_of fun ft hft => featureEvents_nil (hf ft hft)
  unfold MtPosShape at hps
  unfold MtExtShape MtPosShape at hext
  cases hp : (t.positions.bind fun k => arrays[k]?) with
  | none => simp [hp] at hps
  | some pda =>
    have hpsh : pda.shape = ps := by simpa [hp] using hps
    have e1 : ∀ b, shapeEvents b pda.shape = [] := by
      intro b; rw [hpsh]; exact shapeEvents_nil hn
    cases hx : (t.extents.bind fun k => arrays[k]?) with
    | none => simp [mtagEvents, ctorEvents, he.1, hp, hx, e1, hf']
    | some eda =>
      have e2 : ∀ b, shapeEvents b eda.shape = [] := by
        intro b
        rcases hext with h | h | ⟨es, hes, h0⟩
        · simp [hx] at h
        · have : eda.shape = ps := by simpa [hx, hp, hpsh] using h
          rw [this]; exact shapeEvents_nil hn
        · have : eda.shape = es := by simpa [hx] using hes
          rw [this]; exact shapeEvents_nil h0
      simp [mtagEvents, ctorEvents, he.1, hp, hx, e1, e2, hf']

end Nix.Validator.Lemmas
