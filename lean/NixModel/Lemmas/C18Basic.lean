import NixModel.Pure.Upgrade

/-! helper lemmas for C18: shape of the step list, version, id, append/erase structure of runs -/
namespace Nix.Upgrade.Lemmas
open Nix.Upgrade

/-- the steps before the bump -/
def preSteps (f : File) : List Step :=
  (if hasValidId f then [] else [Step.addId])
    ++ (propTasks f).map Step.prop
    ++ (aliasDims f.arrays).map (fun ad => Step.dim ad.1 ad.2)

theorem collect_old {lib : List Nat} {f : File} (h : upToDate lib f = false) :
    collect lib f = preSteps f ++ [Step.bump] := by
  simp [collect, preSteps, h]

theorem collect_upToDate {lib : List Nat} {f : File} (h : upToDate lib f = true) :
    collect lib f = [] := by
  simp [collect, h]

theorem bump_not_mem_preSteps (f : File) : Step.bump ∉ preSteps f := by
  unfold preSteps
  simp only [List.mem_append, List.mem_map, not_or]
  refine ⟨⟨?_, ?_⟩, ?_⟩
  · split <;> simp
  · rintro ⟨_, _, h⟩; cases h
  · rintro ⟨_, _, h⟩; cases h

theorem applyStep_version {lib : List Nat} {r : Nat} {f : File} {s : Step} (h : s ≠ .bump) :
    (applyStep lib r f s).1.version = f.version := by
  cases s with
  | bump => exact absurd rfl h
  | addId => simp only [applyStep]; split <;> rfl
  | prop p => simp only [applyStep, convertProp]; split <;> (try split) <;> rfl
  | dim a d => simp only [applyStep, convertDim]; split <;> rfl

theorem runSteps_nil (lib : List Nat) (r : Nat) (f : File) : runSteps lib r f [] = (f, none) := rfl

theorem runSteps_cons (lib : List Nat) (r : Nat) (f : File) (s : Step) (ss : List Step) :
    runSteps lib r f (s :: ss) =
      match applyStep lib r f s with
      | (f', none) => runSteps lib r f' ss
      | (f', some e) => (f', some e) := rfl

theorem runSteps_version {lib : List Nat} {r : Nat} {ss : List Step} :
    ∀ {f : File}, (∀ s ∈ ss, s ≠ Step.bump) → (runSteps lib r f ss).1.version = f.version := by
  induction ss with
  | nil => intro f _; rfl
  | cons s ss ih =>
    intro f h
    rw [runSteps_cons]
    have hs := applyStep_version (lib := lib) (r := r) (f := f) (h s (by simp))
    generalize applyStep lib r f s = res at hs
    obtain ⟨f', e⟩ := res
    cases e with
    | none => simp only; rw [ih (fun t ht => h t (by simp [ht]))]; exact hs
    | some e => exact hs

theorem runSteps_append (lib : List Nat) (r : Nat) (a b : List Step) :
    ∀ f : File, runSteps lib r f (a ++ b) =
      match runSteps lib r f a with
      | (f', none) => runSteps lib r f' b
      | (f', some e) => (f', some e) := by
  induction a with
  | nil => intro f; rfl
  | cons s a ih =>
    intro f
    simp only [List.cons_append, runSteps_cons]
    generalize applyStep lib r f s = res
    obtain ⟨f', e⟩ := res
    cases e with
    | none => exact ih f'
    | some e => rfl

theorem upToDate_refl (lib : List Nat) (f : File) (h : f.version = lib) : upToDate lib f = true := by
  simp [upToDate, h]

/-! id -/

theorem applyStep_validId {lib : List Nat} {r : Nat} {f : File} {s : Step} (h : hasValidId f = true) :
    hasValidId (applyStep lib r f s).1 = true := by
  cases s with
  | bump => simpa [applyStep, hasValidId] using h
  | addId => simp only [applyStep, h]; simpa using h
  | prop p =>
    simp only [applyStep, convertProp]
    split <;> (try split) <;> simpa [hasValidId] using h
  | dim a d =>
    simp only [applyStep, convertDim]
    split <;> simpa [hasValidId] using h

theorem runSteps_validId {lib : List Nat} {r : Nat} {ss : List Step} :
    ∀ {f : File}, hasValidId f = true → hasValidId (runSteps lib r f ss).1 = true := by
  induction ss with
  | nil => intro f h; exact h
  | cons s ss ih =>
    intro f h
    rw [runSteps_cons]
    have hs := applyStep_validId (lib := lib) (r := r) (s := s) h
    generalize applyStep lib r f s = res at hs
    obtain ⟨f', e⟩ := res
    cases e with
    | none => exact ih hs
    | some e => exact hs

theorem addId_valid (lib : List Nat) (r : Nat) (f : File) :
    hasValidId (applyStep lib r f .addId).1 = true := by
  simp only [applyStep]
  split
  · assumption
  · rfl

theorem runSteps_addId_valid (lib : List Nat) (r : Nat) (f : File) (ss : List Step) :
    hasValidId (runSteps lib r f (.addId :: ss)).1 = true := by
  rw [runSteps_cons]
  by_cases hv : hasValidId f = true
  · simp only [applyStep, hv, if_true]
    exact runSteps_validId hv
  · simp only [applyStep, hv]
    exact runSteps_validId rfl

/-- after a run of the collected steps the id is valid -/
theorem upgrade_validId {lib : List Nat} {r : Nat} {f : File} (h : upToDate lib f = false) :
    hasValidId (upgrade lib r f).1 = true := by
  unfold upgrade
  rw [collect_old h]
  unfold preSteps
  by_cases hv : hasValidId f = true
  · exact runSteps_validId hv
  · simp only [hv, List.append_assoc]
    exact runSteps_addId_valid _ _ _ _

end Nix.Upgrade.Lemmas
