import NixModel.Lemmas.C18Step
import NixModel.Lemmas.C18Erase

/-! resuming: after any successful prefix of the collected steps, collecting again yields the rest -/
namespace Nix.Upgrade.Lemmas
open Nix.Upgrade

theorem upToDate_congr {lib : List Nat} {f f' : File} (h : f'.version = f.version) :
    upToDate lib f' = upToDate lib f := by
  unfold upToDate; rw [h]

theorem hasValidId_congr {f f' : File} (h : f'.id = f.id) : hasValidId f' = hasValidId f := by
  unfold hasValidId; rw [h]

/-- one successful step of the collected list leaves the rest of the list -/
theorem collect_step {lib : List Nat} {r : Nat} {f f' : File} {s : Step} {rest : List Step}
    (hwf : WF f) (hc : collect lib f = s :: rest) (hs : applyStep lib r f s = (f', none)) :
    WF f' ∧ collect lib f' = rest := by
  cases hu : upToDate lib f with
  | true => rw [collect_upToDate hu] at hc; cases hc
  | false =>
    rw [collect_old hu] at hc
    unfold preSteps at hc
    cases hv : hasValidId f with
    | false =>
      -- the id step
      simp only [hv, Bool.false_eq_true, ↓reduceIte, List.cons_append, List.nil_append, List.append_assoc,
        List.cons.injEq] at hc
      obtain ⟨rfl, hrest⟩ := hc
      simp only [applyStep, hv, Bool.false_eq_true, ↓reduceIte, Prod.mk.injEq, and_true] at hs
      subst hs
      refine ⟨hwf, ?_⟩
      have hu' : upToDate lib { f with id := FileId.fresh r } = false := hu
      rw [collect_old hu']
      unfold preSteps
      rw [← hrest]
      simp [hasValidId, propTasks]
    | true =>
      simp only [hv, ↓reduceIte, List.nil_append, List.append_assoc] at hc
      cases hp : propTasks f with
      | cons p t =>
        simp only [hp, List.map_cons, List.cons_append, List.cons.injEq] at hc
        obtain ⟨rfl, hrest⟩ := hc
        obtain ⟨ht, hwf', ha, hver, hid⟩ := convertProp_head hwf hp hs
        refine ⟨hwf', ?_⟩
        rw [collect_old ((upToDate_congr hver).trans hu)]
        unfold preSteps
        rw [hasValidId_congr hid, hv, ht, ha, ← hrest]
        simp
      | nil =>
        simp only [hp, List.map_nil, List.nil_append] at hc
        cases hd : aliasDims f.arrays with
        | cons ad ds =>
          obtain ⟨ap, dn⟩ := ad
          simp only [hd, List.map_cons, List.cons_append, List.cons.injEq] at hc
          obtain ⟨rfl, hrest⟩ := hc
          obtain ⟨_, hds, hwf', hpr, hver, hid⟩ := convertDim_head hwf hd hs
          refine ⟨hwf', ?_⟩
          rw [collect_old ((upToDate_congr hver).trans hu)]
          unfold preSteps propTasks
          rw [hasValidId_congr hid, hv, hpr, hds, ← hrest]
          have : (oldPaths f.props).mergeSort pathLe = [] := hp
          rw [this]
          simp
        | nil =>
          simp only [hd, List.map_nil, List.nil_append, List.cons.injEq] at hc
          obtain ⟨rfl, hrest⟩ := hc
          simp only [applyStep, Prod.mk.injEq, and_true] at hs
          subst hs
          refine ⟨hwf, ?_⟩
          rw [← hrest]
          exact collect_upToDate (upToDate_refl lib _ rfl)

/-- after a successful prefix of `k` steps, what is collected is the rest of the list -/
theorem collect_after_prefix {lib : List Nat} {r : Nat} : ∀ (k : Nat) {f g : File}, WF f →
    runSteps lib r f ((collect lib f).take k) = (g, none) →
    WF g ∧ collect lib g = (collect lib f).drop k := by
  intro k
  induction k with
  | zero =>
    intro f g hwf h
    simp only [List.take_zero, runSteps_nil, Prod.mk.injEq, and_true] at h
    subst h
    exact ⟨hwf, rfl⟩
  | succ k ih =>
    intro f g hwf h
    cases hc : collect lib f with
    | nil =>
      rw [hc] at h
      simp only [List.take_nil, runSteps_nil, Prod.mk.injEq, and_true] at h
      subst h
      exact ⟨hwf, by simp [hc]⟩
    | cons s rest =>
      rw [hc, List.take_succ_cons, runSteps_cons] at h
      cases hs : applyStep lib r f s with
      | mk f' e =>
        cases e with
        | some e => rw [hs] at h; simp at h
        | none =>
          rw [hs] at h
          simp only at h
          obtain ⟨hwf', hc'⟩ := collect_step hwf hc hs
          rw [← hc'] at h
          obtain ⟨hg, hcg⟩ := ih hwf' h
          exact ⟨hg, by rw [hcg, hc']; rfl⟩

/-- same run tag: resuming after a successful prefix is the uninterrupted run -/
theorem resume_same_run {lib : List Nat} {r : Nat} (k : Nat) {f : File} (hwf : WF f)
    (hok : (interrupt lib r k f).2 = none) :
    upgrade lib r (interrupt lib r k f).1 = upgrade lib r f := by
  unfold interrupt at *
  cases hi : runSteps lib r f ((collect lib f).take k) with
  | mk g e =>
    rw [hi] at hok
    simp only at hok
    subst hok
    obtain ⟨_, hcg⟩ := collect_after_prefix k hwf hi
    conv => rhs; unfold upgrade; rw [← List.take_append_drop k (collect lib f), runSteps_append, hi]
    simp only [upgrade, hcg]

theorem WF_erase {f : File} (h : WF f) : WF f.erase := by
  obtain ⟨h1, h2, h3⟩ := h
  refine ⟨?_, ?_, ?_⟩
  · rw [erase_props, List.map_map]
    exact h1
  · rw [erase_arrays, List.map_map]
    exact h2
  · intro a ha
    rw [erase_arrays] at ha
    obtain ⟨b, hb, rfl⟩ := List.mem_map.mp ha
    simp only [Arr.erase, List.map_map]
    exact h3 b hb

/-- different runs: the results agree up to the run that made fresh ids and timestamps -/
theorem resume_erase {lib : List Nat} {r1 r2 r3 : Nat} (k : Nat) {f : File} (hwf : WF f)
    (hok : (interrupt lib r1 k f).2 = none) :
    (upgrade lib r2 (interrupt lib r1 k f).1).1.erase = (upgrade lib r3 f).1.erase ∧
    (upgrade lib r2 (interrupt lib r1 k f).1).2 = (upgrade lib r3 f).2 := by
  have h1 := upgrade_erase lib r2 (interrupt lib r1 k f).1
  have h2 := upgrade_erase lib r3 f
  have h3 := interrupt_erase lib r1 k f
  have hok0 : (interrupt lib 0 k f.erase).2 = none := by rw [h3]; exact hok
  have h4 := resume_same_run k (WF_erase hwf) hok0
  have h5 : (interrupt lib 0 k f.erase).1 = (interrupt lib r1 k f).1.erase := by rw [h3]
  rw [h5, h1, h2] at h4
  exact ⟨(Prod.mk.inj h4).1, (Prod.mk.inj h4).2⟩

end Nix.Upgrade.Lemmas
