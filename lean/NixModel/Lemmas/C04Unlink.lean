import NixModel.Lemmas.C04Bfs

/-!
# C04 — removing one link: `H5Group.delete` (link containers) and the role-link deleters
-/
namespace Nix.Store.C04
open Nix.Store Nix.Store.Graph

/-- `g'` is `g` with the link `name` of group `grp` removed and, if that emptied `grp`, possibly
the link `lname` from `parent` to the emptied group as well — nothing else -/
def OneLinkRemoved (g g' : Graph) (grp parent : Nat) (lname : String) : Prop :=
  ∃ name, g.hasChild grp name = true ∧
    (g' = g.delLink grp name ∨
     (g' = (g.delLink grp name).delLink parent lname ∧ ((g.delLink grp name).links grp).isEmpty = true))

theorem h5Delete_effect (g g' : Graph) (grp parent : Nat) (lname : String) (depth : Nat) (x : String)
    (die : Bool) (h : h5Delete g grp parent lname depth x die = .ok g') :
    OneLinkRemoved g g' grp parent lname := by
  unfold h5Delete at h
  simp only at h
  split at h
  · cases h
  · rename_i name _
    split at h
    · cases h
    · rename_i hc
      refine ⟨name, by simpa using hc, ?_⟩
      split at h
      · rename_i hcond
        simp only [Except.ok.injEq] at h
        right
        refine ⟨h.symm, ?_⟩
        simp only [Bool.and_eq_true] at hcond
        exact hcond.1.2
      · simp only [Except.ok.injEq] at h
        left; exact h.symm

theorem oneLink_getAttr {g g' : Graph} {grp parent : Nat} {lname : String}
    (h : OneLinkRemoved g g' grp parent lname) (k : Nat) (a : String) : g'.getAttr k a = g.getAttr k a := by
  obtain ⟨name, _, h | ⟨h, _⟩⟩ := h
  · rw [h, delLink_getAttr]
  · rw [h, delLink_getAttr, delLink_getAttr]

theorem oneLink_keys {g g' : Graph} {grp parent : Nat} {lname : String}
    (h : OneLinkRemoved g g' grp parent lname) : g'.nodes.map (·.1) = g.nodes.map (·.1) := by
  obtain ⟨name, _, h | ⟨h, _⟩⟩ := h
  · rw [h, delLink_keys]
  · rw [h, delLink_keys, delLink_keys]

/-- link lists of every group other than the two involved are untouched -/
theorem oneLink_links_other {g g' : Graph} {grp parent : Nat} {lname : String}
    (h : OneLinkRemoved g g' grp parent lname) (k : Nat) (h1 : k ≠ grp) (h2 : k ≠ parent) :
    g'.links k = g.links k := by
  obtain ⟨name, _, h | ⟨h, _⟩⟩ := h
  · rw [h, delLink_links]; simp [h1]
  · rw [h, delLink_links, delLink_links]; simp [h1, h2]

/-- the group that held the link keeps all its other links, in order (when it is not `parent`) -/
theorem oneLink_links_grp {g g' : Graph} {grp parent : Nat} {lname : String}
    (h : OneLinkRemoved g g' grp parent lname) (hne : grp ≠ parent) :
    ∃ name, g'.links grp = (g.links grp).filter (fun l => l.1 != name) := by
  obtain ⟨name, _, h | ⟨h, _⟩⟩ := h
  · exact ⟨name, by rw [h, delLink_links]; simp⟩
  · exact ⟨name, by rw [h, delLink_links, delLink_links]; simp [hne]⟩

/-- the owner of the link container loses at most the link to the emptied container group -/
theorem oneLink_links_parent {g g' : Graph} {grp parent : Nat} {lname : String}
    (h : OneLinkRemoved g g' grp parent lname) (hne : parent ≠ grp) (l : String × Nat)
    (hl : l ∈ g.links parent) (hn : l.1 ≠ lname) : l ∈ g'.links parent := by
  obtain ⟨name, _, h | ⟨h, _⟩⟩ := h
  · rw [h, delLink_links]; simpa [hne] using hl
  · rw [h, delLink_links, delLink_links]
    simp only [↓reduceIte, hne, List.mem_filter, bne_iff_ne, ne_eq]
    exact ⟨hl, hn⟩

/-! ## role-link deleters: `del x.metadata`, `section.link = None`, `multi_tag.extents = None` -/

theorem setRole_none_effect (g g' : Graph) (p : Path) (role : String)
    (h : setRole g p role none = .ok g') :
    g' = g ∨ ∃ o, resolve g rootLoc p = some o ∧ g.hasChild o.key role = true ∧ g' = g.delLink o.key role := by
  unfold setRole at h
  split at h
  · cases h
  · rename_i o ho
    simp only at h
    split at h
    all_goals try contradiction
    all_goals first
      | cases h
      | (split at h
         · cases h
         · split at h
           · rename_i hc
             simp only [Except.ok.injEq] at h
             exact Or.inr ⟨o, ho, hc, h.symm⟩
           · simp only [Except.ok.injEq] at h
             exact Or.inl h.symm)
      | (split at h <;> cases h)

end Nix.Store.C04
