import NixModel.Pure.UnitsCompound
import NixModel.Lemmas.UnitsRel

/-!
Helper lemmas for C09: `invert_power` negates the power of every table atom, and `split_compound` returns the
atoms of a `*`/`/`-joined sequence of any length, in order, inverted after `/`.

The atom pattern of `split_compound` is not end-anchored; its matches on `atom ++ tail` (the tail starting with a
separator or a blank, characters that occur in no prefix, unit or power text) are the matches on `atom` with
the tail appended to what is left (`matchPieces_liftF`); the lookahead keeps those that consumed the whole atom.
-/
namespace Nix.Units.Lemmas
open Nix.Units Nix.Units.Gen Nix.Units.Compound

/-! ### invert_power -/

/-- the power text with the sign flipped: what `invert_power` is to produce -/
def negPow (w : Str) : Str :=
  match w.drop 1 with
  | [] => ['^', '-', '1']
  | c :: r => if c == '-' then '^' :: r else if c == '+' then '^' :: '-' :: r else '^' :: '-' :: c :: r

theorem negPow_pow (sign : Str) (d : Char) (ds : Str) (hs : sign = [] ∨ sign = ['+'] ∨ sign = ['-'])
    (hd : isDigit19 d = true) :
    negPow ('^' :: sign ++ d :: ds) = '^' :: (if sign = ['-'] then [] else ['-']) ++ d :: ds := by
  obtain ⟨h1, h2, _⟩ := digit19_not_sign d hd
  rcases hs with rfl | rfl | rfl
  · simp [negPow, h1, h2]
  · simp [negPow]
  · simp [negPow]

theorem negPow_PowerText (w : Str) (hw : PowerText w) : PowerText (negPow w) := by
  cases hw with
  | none => exact .pow ['-'] '1' [] (by simp) (by decide) (by decide)
  | pow sign d ds hs hd hds =>
    rw [negPow_pow sign d ds hs hd]
    rcases hs with rfl | rfl | rfl
    · exact .pow ['-'] d ds (by simp) hd hds
    · exact .pow ['-'] d ds (by simp) hd hds
    · exact .pow [] d ds (by simp) hd hds

theorem powVal_negPow (w : Str) (hw : PowerText w) : powVal (negPow w) = - powVal w := by
  cases hw with
  | none => decide
  | pow sign d ds hs hd hds =>
    rw [negPow_pow sign d ds hs hd, powVal_generic sign d ds hs hd hds]
    have hm := powVal_generic ['-'] d ds (by simp) hd hds
    have hp := powVal_generic [] d ds (by simp) hd hds
    rcases hs with rfl | rfl | rfl
    · simpa using hm
    · simpa using hm
    · simpa using hp

theorem invertPower_branch_table : invertNoPower = ['^', '-', '1'] ∧ invertJoin = ['^'] ∧
    invertBranches = [('-', [], 1), ('+', ['-'], 1)] ∧ invertElse = (['-'], 0) := by decide

theorem invertPower_atom (p u w : Str) (hp : p ∈ optPrefixes) (hu : u ∈ units) (hw : PowerText w) :
    Compound.invertPower (p ++ u ++ w) = p ++ u ++ negPow w := by
  obtain ⟨hnp, hj, hb, he⟩ := invertPower_branch_table
  unfold Compound.invertPower
  rw [split_generic p u w hp hu hw]
  cases hw with
  | none => simp [hnp, negPow]
  | pow sign d ds hs hd hds =>
    rw [negPow_pow sign d ds hs hd]
    obtain ⟨h1, h2, _⟩ := digit19_not_sign d hd
    have e1 : ('-' == d) = false := by simpa using Ne.symm h2
    have e2 : ('+' == d) = false := by simpa using Ne.symm h1
    rcases hs with rfl | rfl | rfl
    · simp [invertPowerText, hb, he, hj, e1, e2]
    · simp [invertPowerText, hb, hj]
    · simp [invertPowerText, hb, hj]

/-! ### characters of atoms -/

/-- characters that end an atom in `split_compound`: separator, blank, newline -/
def atomChar (c : Char) : Bool := c != ' ' && c != '*' && c != '/' && c != '\n'

theorem tables_atomChar : (∀ a ∈ optPrefixes, a.all atomChar = true) ∧ (∀ a ∈ units, a.all atomChar = true) := by
  decide

theorem digit_atomChar (c : Char) (h : isDigit c = true) : atomChar c = true := by
  have h1 := isDigit_ne c ' ' h (by decide)
  have h2 := isDigit_ne c '*' h (by decide)
  have h3 := isDigit_ne c '/' h (by decide)
  have h4 := isDigit_ne c '\n' h (by decide)
  simp [atomChar, h1, h2, h3, h4]

theorem powerText_atomChar (w : Str) (hw : PowerText w) : w.all atomChar = true := by
  cases hw with
  | none => rfl
  | pow sign d ds hs hd hds =>
    have hd' := digit_atomChar d (isDigit19_isDigit d hd)
    have hds' : ds.all atomChar = true := by
      rw [List.all_eq_true] at hds ⊢
      exact fun x hx => digit_atomChar x (hds x hx)
    rcases hs with rfl | rfl | rfl
    · simp only [List.cons_append, List.nil_append, List.all_cons, hd', hds']; decide
    · simp only [List.cons_append, List.nil_append, List.all_cons, hd', hds']; decide
    · simp only [List.cons_append, List.nil_append, List.all_cons, hd', hds']; decide

/-- a table atom: optional prefix, unit, any power text -/
def ValidAtom (a : Str) : Prop :=
  ∃ p u w, p ∈ optPrefixes ∧ u ∈ units ∧ PowerText w ∧ a = p ++ u ++ w

theorem validAtom_atomChar (a : Str) (ha : ValidAtom a) : a.all atomChar = true := by
  obtain ⟨p, u, w, hp, hu, hw, rfl⟩ := ha
  simp [List.all_append, tables_atomChar.1 p hp, tables_atomChar.2 u hu, powerText_atomChar w hw]

theorem validAtom_ne_nil (a : Str) (ha : ValidAtom a) : a ≠ [] := by
  obtain ⟨p, u, w, _, hu, _, rfl⟩ := ha
  have := units_ne_nil u hu
  cases u with
  | nil => exact absurd rfl this
  | cons c cs => cases p <;> simp

/-! ### lifting every piece over a tail that starts with a separator or a blank -/

/-- first character of a tail after an atom -/
def sepChar (c : Char) : Prop := c = '*' ∨ c = '/' ∨ c = ' '

theorem sepChar_facts (c : Char) (h : sepChar c) :
    c ≠ '^' ∧ c ≠ '+' ∧ c ≠ '-' ∧ isDigit c = false ∧ isDigit19 c = false ∧ atomChar c = false := by
  rcases h with rfl | rfl | rfl <;> decide

theorem isPrefixOf_append_sep (c0 : Char) (w' : Str) : ∀ (alt s : Str), alt.all atomChar = true →
    atomChar c0 = false → alt.isPrefixOf (s ++ c0 :: w') = alt.isPrefixOf s := by
  intro alt
  induction alt with
  | nil => intro s _ _; simp
  | cons x xs ih =>
    intro s h hc
    simp only [List.all_cons, Bool.and_eq_true] at h
    have hx : x ≠ c0 := by
      intro e; subst e; rw [h.1] at hc; cases hc
    cases s with
    | nil => simp [List.isPrefixOf, hx]
    | cons y ys =>
      simp only [List.cons_append, List.isPrefixOf]
      rw [ih ys h.2 hc]

theorem altM_liftF (alts : List Str) (ha : ∀ a ∈ alts, a.all atomChar = true) (s : Str) (c0 : Char) (w' : Str)
    (hc : atomChar c0 = false) :
    altM alts (s ++ c0 :: w') = (altM alts s).map fun ar => (ar.1, ar.2 ++ c0 :: w') := by
  unfold altM
  rw [List.map_filterMap]
  apply filterMap_congr'
  intro a hmem
  rw [isPrefixOf_append_sep c0 w' a s (ha a hmem) hc]
  by_cases hp : a.isPrefixOf s = true
  · have hle : a.length ≤ s.length := (List.isPrefixOf_iff_prefix.mp hp).length_le
    simp [hp, List.drop_append_of_le_length hle]
  · simp [hp]

theorem digitsGreedy_liftF (c0 : Char) (w' : Str) (hc : isDigit c0 = false) : ∀ v : Str,
    digitsGreedy (v ++ c0 :: w') = (digitsGreedy v).map fun mr => (mr.1, mr.2 ++ c0 :: w') := by
  intro v
  induction v with
  | nil => simp [digitsGreedy, hc]
  | cons c cs ih =>
    by_cases h : isDigit c = true
    · simp only [List.cons_append, digitsGreedy, h, ↓reduceIte, ih, List.map_append, List.map_map,
        List.map_cons, List.map_nil]
      rfl
    · simp [digitsGreedy, h]

/-- `powerM` in two steps: the optional sign (both ways, greedy first), then digit 1–9 and `\d*` -/
def afterSign (t : Str) : List (Str × Str) :=
  match t with
  | '+' :: u => [(['+'], u), ([], t)]
  | '-' :: u => [(['-'], u), ([], t)]
  | _ => [([], t)]

def digitsPart (su : Str × Str) : List (Str × Str) :=
  match su.2 with
  | d :: v =>
    if isDigit19 d then (digitsGreedy v).map fun mr => ('^' :: su.1 ++ d :: mr.1, mr.2)
    else []
  | [] => []

theorem powerM_caret (t : Str) : powerM ('^' :: t) = (afterSign t).flatMap digitsPart := rfl

theorem afterSign_liftF (c0 : Char) (w' : Str) (h2 : c0 ≠ '+') (h3 : c0 ≠ '-') (t : Str) :
    afterSign (t ++ c0 :: w') = (afterSign t).map fun su => (su.1, su.2 ++ c0 :: w') := by
  cases t with
  | nil => simp [afterSign, h2, h3]
  | cons c u =>
    by_cases hp : c = '+'
    · subst hp; simp [afterSign]
    · by_cases hm : c = '-'
      · subst hm; simp [afterSign]
      · simp [afterSign, hp, hm]

theorem digitsPart_liftF (c0 : Char) (w' : Str) (hc : isDigit c0 = false) (hc19 : isDigit19 c0 = false)
    (su : Str × Str) :
    digitsPart (su.1, su.2 ++ c0 :: w') = (digitsPart su).map fun mr => (mr.1, mr.2 ++ c0 :: w') := by
  obtain ⟨sg, x⟩ := su
  cases x with
  | nil => simp [digitsPart, hc19]
  | cons d v =>
    by_cases h : isDigit19 d = true
    · simp only [List.cons_append, digitsPart, h, ↓reduceIte, digitsGreedy_liftF c0 w' hc, List.map_map]
      rfl
    · simp [digitsPart, h]

theorem powerM_liftF (c0 : Char) (w' : Str) (hc : sepChar c0) (s : Str) :
    powerM (s ++ c0 :: w') = (powerM s).map fun ar => (ar.1, ar.2 ++ c0 :: w') := by
  obtain ⟨h1, h2, h3, hd, hd19, _⟩ := sepChar_facts c0 hc
  cases s with
  | nil =>
    rw [List.nil_append, powerM_noCaret_head c0 w' h1]
    rfl
  | cons c t =>
    by_cases hcar : c = '^'
    · subst hcar
      rw [List.cons_append, powerM_caret, powerM_caret, afterSign_liftF c0 w' h2 h3, List.flatMap_map,
        List.map_flatMap]
      apply flatMap_congr'
      intro su _
      exact digitsPart_liftF c0 w' hd hd19 su
    · rw [List.cons_append, powerM_noCaret_head c _ hcar, powerM_noCaret_head c _ hcar]
      rfl

theorem stepPiece_liftF (c0 : Char) (w' : Str) (hc : sepChar c0) (p : Piece) (m : M) :
    stepPiece p (addRest (c0 :: w') m) = (stepPiece p m).map (addRest (c0 :: w')) := by
  have hac := (sepChar_facts c0 hc).2.2.2.2.2
  have hpre : ∀ a ∈ prefixes, a.all atomChar = true :=
    fun a ha => tables_atomChar.1 a (by simp [optPrefixes, ha])
  cases p with
  | pre =>
    simp only [stepPiece, addRest, altM_liftF prefixes hpre _ c0 w' hac, List.map_map]
    rfl
  | unit =>
    simp only [stepPiece, addRest, altM_liftF units tables_atomChar.2 _ c0 w' hac, List.map_map]
    rfl
  | optPre =>
    simp only [stepPiece, addRest, altM_liftF prefixes hpre _ c0 w' hac, List.map_map,
      List.map_append, List.map_cons, List.map_nil]
    rfl
  | pow =>
    simp only [stepPiece, addRest, powerM_liftF c0 w' hc, List.map_map]
    rfl
  | optPow =>
    simp only [stepPiece, addRest, powerM_liftF c0 w' hc, List.map_map,
      List.map_append, List.map_cons, List.map_nil]
    rfl

theorem matchPieces_liftF (c0 : Char) (w' : Str) (hc : sepChar c0) : ∀ (ps : List Piece) (m : M),
    matchPieces ps (addRest (c0 :: w') m) = (matchPieces ps m).map (addRest (c0 :: w')) := by
  intro ps
  induction ps with
  | nil => intro m; simp [matchPieces]
  | cons p ps ih =>
    intro m
    simp only [matchPieces]
    rw [stepPiece_liftF c0 w' hc p m, List.flatMap_map, List.map_flatMap]
    apply flatMap_congr'
    intro m' _
    exact ih m'

/-! ### what is matched and what is left always make up the input -/

theorem altM_split (alts : List Str) (s : Str) (ar : Str × Str) (h : ar ∈ altM alts s) : ar.1 ++ ar.2 = s := by
  unfold altM at h
  rw [List.mem_filterMap] at h
  obtain ⟨a, _, ha⟩ := h
  split at ha
  · rename_i hp
    cases ha
    obtain ⟨t, ht⟩ := List.isPrefixOf_iff_prefix.mp hp
    simp [← ht]
  · cases ha

theorem digitsGreedy_split : ∀ (s : Str) (mr : Str × Str), mr ∈ digitsGreedy s → mr.1 ++ mr.2 = s := by
  intro s
  induction s with
  | nil => intro mr h; simp [digitsGreedy] at h; subst h; rfl
  | cons c cs ih =>
    intro mr h
    unfold digitsGreedy at h
    split at h
    · rw [List.mem_append, List.mem_map] at h
      rcases h with ⟨x, hx, rfl⟩ | h
      · simp [ih x hx]
      · simp at h; subst h; rfl
    · simp at h; subst h; rfl

theorem afterSign_split (t : Str) (su : Str × Str) (h : su ∈ afterSign t) : su.1 ++ su.2 = t := by
  cases t with
  | nil => simp [afterSign] at h; subst h; rfl
  | cons c u =>
    by_cases hp : c = '+'
    · subst hp
      simp [afterSign] at h
      rcases h with rfl | rfl <;> rfl
    · by_cases hm : c = '-'
      · subst hm
        simp [afterSign] at h
        rcases h with rfl | rfl <;> rfl
      · simp [afterSign, hp, hm] at h
        subst h; rfl

theorem digitsPart_split (su mr : Str × Str) (h : mr ∈ digitsPart su) : mr.1 ++ mr.2 = '^' :: su.1 ++ su.2 := by
  obtain ⟨sg, x⟩ := su
  cases x with
  | nil => simp [digitsPart] at h
  | cons d v =>
    simp only [digitsPart] at h
    split at h
    · rw [List.mem_map] at h
      obtain ⟨y, hy, rfl⟩ := h
      simp [digitsGreedy_split v y hy]
    · cases h

theorem powerM_split (s : Str) (ar : Str × Str) (h : ar ∈ powerM s) : ar.1 ++ ar.2 = s := by
  cases s with
  | nil => simp [powerM] at h
  | cons c t =>
    by_cases hcar : c = '^'
    · subst hcar
      rw [powerM_caret, List.mem_flatMap] at h
      obtain ⟨su, hsu, har⟩ := h
      rw [digitsPart_split su ar har, List.cons_append, afterSign_split t su hsu]
    · rw [powerM_noCaret_head c t hcar] at h
      cases h

theorem stepPiece_split (p : Piece) (m m' : M) (h : m' ∈ stepPiece p m) :
    m'.matched ++ m'.rest = m.matched ++ m.rest := by
  cases p with
  | pre =>
    simp only [stepPiece, List.mem_map] at h
    obtain ⟨ar, har, rfl⟩ := h
    simp [List.append_assoc, altM_split _ _ ar har]
  | unit =>
    simp only [stepPiece, List.mem_map] at h
    obtain ⟨ar, har, rfl⟩ := h
    simp [List.append_assoc, altM_split _ _ ar har]
  | pow =>
    simp only [stepPiece, List.mem_map] at h
    obtain ⟨ar, har, rfl⟩ := h
    simp [List.append_assoc, powerM_split _ ar har]
  | optPre =>
    simp only [stepPiece, List.mem_append, List.mem_map, List.mem_singleton] at h
    rcases h with ⟨ar, har, rfl⟩ | rfl
    · simp [List.append_assoc, altM_split _ _ ar har]
    · rfl
  | optPow =>
    simp only [stepPiece, List.mem_append, List.mem_map, List.mem_singleton] at h
    rcases h with ⟨ar, har, rfl⟩ | rfl
    · simp [List.append_assoc, powerM_split _ ar har]
    · rfl

theorem matchPieces_split : ∀ (ps : List Piece) (m m' : M), m' ∈ matchPieces ps m →
    m'.matched ++ m'.rest = m.matched ++ m.rest := by
  intro ps
  induction ps with
  | nil => intro m m' h; simp only [matchPieces, List.mem_singleton] at h; subst h; rfl
  | cons p ps ih =>
    intro m m' h
    simp only [matchPieces, List.mem_flatMap] at h
    obtain ⟨m1, hm1, hm'⟩ := h
    rw [ih m1 m' hm', stepPiece_split p m m1 hm1]

/-! ### the atom pattern of split_compound on `atom ++ tail` -/

theorem sepAhead_atomChar (c : Char) (r : Str) (h : atomChar c = true) : sepAhead (c :: r) = false := by
  simp only [atomChar, Bool.and_eq_true, bne_iff_ne, ne_eq] at h
  obtain ⟨⟨⟨h1, h2⟩, h3⟩, h4⟩ := h
  simp [sepAhead, atEnd, h1, h2, h3, h4]

/-- what may follow an atom: nothing, or a separator -/
def GoodTail (t : Str) : Prop := t = [] ∨ ∃ c t', t = c :: t' ∧ (c = '*' ∨ c = '/')

theorem sepAhead_goodTail (t : Str) (h : GoodTail t) : sepAhead t = true := by
  rcases h with rfl | ⟨c, t', rfl, rfl | rfl⟩
  · decide
  · simp [sepAhead, atEnd]
  · simp [sepAhead, atEnd]

theorem matchAtom_atom' (a t : Str) (ha : ValidAtom a) (ht : t = [] ∨ ∃ c t', t = c :: t' ∧ sepChar c)
    (hgood : sepAhead t = true) :
    ∃ m, matchAtom (a ++ t) = some m ∧ m.matched = a ∧ m.rest = t := by
  have hsh : compoundSplitShape = { pieces := [.optPre, .unit, .optPow], endAnchor := false } := rfl
  have hlook : compoundSplitLookahead = true := rfl
  have hchars := validAtom_atomChar a ha
  -- matches on `a ++ t` are the matches on `a` with `t` appended
  have hlift : matchPieces [.optPre, .unit, .optPow] { rest := a ++ t } =
      (matchPieces [.optPre, .unit, .optPow] { rest := a }).map (addRest t) := by
    rcases ht with rfl | ⟨c, t', rfl, hs⟩
    · have : (addRest [] : M → M) = id := by funext m; simp [addRest]
      simp [this]
    · exact matchPieces_liftF c t' hs _ { rest := a }
  obtain ⟨p, u, w, hp, hu, hw, rfl⟩ := ha
  obtain ⟨m0, hm0, hr0⟩ := atom_match_generic p u w hp hu hw []
  rw [List.append_nil] at hm0
  have hinv : ∀ m ∈ matchPieces [.optPre, .unit, .optPow] { rest := p ++ u ++ w },
      m.matched ++ m.rest = p ++ u ++ w := by
    intro m hm
    simpa using matchPieces_split _ _ m hm
  unfold matchAtom
  rw [hsh, hlook]
  simp only [Bool.false_eq_true, ↓reduceIte, hlift]
  generalize matchPieces [.optPre, .unit, .optPow] { rest := p ++ u ++ w } = L at hm0 hinv
  -- the lookahead keeps exactly the matches that consumed all of `a`
  have hfilter : (L.map (addRest t)).filter (fun m => sepAhead m.rest) =
      (L.filter fun m => m.rest.isEmpty).map (addRest t) := by
    rw [List.filter_map]
    congr 1
    apply List.filter_congr
    intro m hm
    cases hr : m.rest with
    | nil => simp [addRest, hr, hgood]
    | cons c cs =>
      have hc : atomChar c = true := by
        have h1 := hinv m hm
        rw [hr] at h1
        have : c ∈ p ++ u ++ w := by rw [← h1]; simp
        exact (List.all_eq_true.mp hchars) c this
      simp [addRest, hr, sepAhead_atomChar c _ hc]
  rw [hfilter, List.head?_map]
  have hmem : m0 ∈ L.filter fun m => m.rest.isEmpty := List.mem_filter.mpr ⟨hm0, by simp [hr0]⟩
  cases hL : L.filter (fun m => m.rest.isEmpty) with
  | nil => rw [hL] at hmem; cases hmem
  | cons m1 tl =>
    have hm1 : m1 ∈ L.filter fun m => m.rest.isEmpty := by rw [hL]; simp
    obtain ⟨hm1L, hm1r⟩ := List.mem_filter.mp hm1
    have hr1 : m1.rest = [] := by simpa using hm1r
    refine ⟨addRest t m1, by simp, ?_, by simp [addRest, hr1]⟩
    have := hinv m1 hm1L
    rw [hr1, List.append_nil] at this
    simpa [addRest] using this

theorem matchAtom_atom (a t : Str) (ha : ValidAtom a) (ht : GoodTail t) :
    ∃ m, matchAtom (a ++ t) = some m ∧ m.matched = a ∧ m.rest = t := by
  refine matchAtom_atom' a t ha ?_ (sepAhead_goodTail t ht)
  rcases ht with rfl | ⟨c, t', rfl, hc⟩
  · exact Or.inl rfl
  · exact Or.inr ⟨c, t', rfl, by rcases hc with rfl | rfl <;> simp [sepChar]⟩

/-! ### split_compound on sequences of any length -/

/-- `a₀ sep₁ a₁ sep₂ a₂ …` -/
def joinCompound (a₀ : Str) : List (Char × Str) → Str
  | [] => a₀
  | (sep, a) :: l => a₀ ++ sep :: joinCompound a l

/-- what `split_compound` is to return for the atoms after the first: inverted after `/` -/
def expectAtoms (l : List (Char × Str)) : List Str :=
  l.map fun sa => if sa.1 == compoundInvertSep then Compound.invertPower sa.2 else sa.2

def ValidSeq (l : List (Char × Str)) : Prop := ∀ sa ∈ l, (sa.1 = '*' ∨ sa.1 = '/') ∧ ValidAtom sa.2

theorem joinCompound_noBlank : ∀ (l : List (Char × Str)) (a₀ : Str), ValidAtom a₀ → ValidSeq l →
    ' ' ∉ joinCompound a₀ l := by
  intro l
  induction l with
  | nil =>
    intro a₀ ha _ hmem
    have := (List.all_eq_true.mp (validAtom_atomChar a₀ ha)) ' ' hmem
    revert this; decide
  | cons sa l ih =>
    intro a₀ ha hl hmem
    obtain ⟨sep, a⟩ := sa
    have hsa := hl (sep, a) (by simp)
    have hsep : sep = '*' ∨ sep = '/' := hsa.1
    simp only [joinCompound, List.mem_append, List.mem_cons] at hmem
    rcases hmem with h | h | h
    · have := (List.all_eq_true.mp (validAtom_atomChar a₀ ha)) ' ' h
      revert this; decide
    · rcases hsep with rfl | rfl <;> (revert h; decide)
    · exact ih a hsa.2 (fun x hx => hl x (by simp [hx])) h

theorem splitLoop_seq : ∀ (l : List (Char × Str)) (a₀ : Str) (sep : Char) (acc : List Str) (fuel : Nat),
    l.length < fuel → ValidAtom a₀ → ValidSeq l →
    Compound.splitCompoundLoop fuel (joinCompound a₀ l) sep acc = some (acc ++ expectAtoms ((sep, a₀) :: l)) := by
  intro l
  induction l with
  | nil =>
    intro a₀ sep acc fuel hf ha _
    obtain ⟨f, rfl⟩ : ∃ f, fuel = f + 1 := ⟨fuel - 1, by omega⟩
    obtain ⟨m, hm, hmm, hmr⟩ := matchAtom_atom a₀ [] ha (Or.inl rfl)
    rw [List.append_nil] at hm
    simp [joinCompound, Compound.splitCompoundLoop, hm, hmm, hmr, expectAtoms]
  | cons sa l ih =>
    intro a₀ sep acc fuel hf ha hl
    obtain ⟨s, a⟩ := sa
    have hsa := hl (s, a) (by simp)
    have hl' : ValidSeq l := fun x hx => hl x (by simp [hx])
    obtain ⟨f, rfl⟩ : ∃ f, fuel = f + 1 := ⟨fuel - 1, by omega⟩
    have hf' : l.length < f := by simp only [List.length_cons] at hf; omega
    obtain ⟨m, hm, hmm, hmr⟩ := matchAtom_atom a₀ (s :: joinCompound a l) ha
      (Or.inr ⟨s, _, rfl, hsa.1⟩)
    have hrep : compoundSplitReplace = ([' '], []) := rfl
    have hnb : ' ' ∉ s :: joinCompound a l := by
      intro h
      have hsep : s = '*' ∨ s = '/' := hsa.1
      rcases List.mem_cons.mp h with h | h
      · rcases hsep with rfl | rfl <;> (revert h; decide)
      · exact joinCompound_noBlank l a hsa.2 hl' h
    have hclean : replace [' '] [] (s :: joinCompound a l) = s :: joinCompound a l :=
      replace_noop _ _ _ (containsSub_single _ _ hnb)
    have ih' := ih a s (acc ++ [if sep == compoundInvertSep then Compound.invertPower a₀ else a₀]) f hf' hsa.2 hl'
    simp only [joinCompound, Compound.splitCompoundLoop, hm, hmm, hmr, hrep, hclean, List.isEmpty_cons,
      Bool.false_eq_true, ↓reduceIte, ih']
    simp [expectAtoms]

theorem joinCompound_length (l : List (Char × Str)) : ∀ a₀ : Str, l.length ≤ (joinCompound a₀ l).length := by
  induction l with
  | nil => intro a₀; simp
  | cons sa l ih =>
    intro a₀
    obtain ⟨s, a⟩ := sa
    have := ih a
    simp only [joinCompound, List.length_append, List.length_cons]
    omega

theorem splitCompound_seq (a₀ : Str) (l : List (Char × Str)) (ha : ValidAtom a₀) (hl : ValidSeq l) :
    Compound.splitCompound (joinCompound a₀ l) = some (a₀ :: expectAtoms l) := by
  unfold Compound.splitCompound
  rw [splitLoop_seq l a₀ ' ' [] _ (by have := joinCompound_length l a₀; omega) ha hl]
  have hne : ' ' ≠ compoundInvertSep := by decide
  simp [expectAtoms, hne]

/-! ### blanks around the separators -/

def allBlank (b : Str) : Bool := b.all (· == ' ')

/-- `a₀ ␣* sep₁ ␣* a₁ ␣* sep₂ ␣* a₂ …`: (blanks, separator, blanks, atom) after the first atom -/
def joinPadded (a₀ : Str) : List (Str × Char × Str × Str) → Str
  | [] => a₀
  | (b1, sep, b2, a) :: l => a₀ ++ b1 ++ sep :: b2 ++ joinPadded a l

def stripPads (l : List (Str × Char × Str × Str)) : List (Char × Str) := l.map fun x => (x.2.1, x.2.2.2)

def ValidPadded (l : List (Str × Char × Str × Str)) : Prop :=
  ∀ x ∈ l, allBlank x.1 = true ∧ allBlank x.2.2.1 = true ∧ (x.2.1 = '*' ∨ x.2.1 = '/') ∧ ValidAtom x.2.2.2

theorem removeBlanks_append (a b : Str) : removeBlanks (a ++ b) = removeBlanks a ++ removeBlanks b := by
  simp [removeBlanks]

theorem removeBlanks_allBlank (b : Str) (h : allBlank b = true) : removeBlanks b = [] := by
  simp only [allBlank, List.all_eq_true, beq_iff_eq] at h
  simp only [removeBlanks, List.filter_eq_nil_iff]
  intro x hx
  simp [h x hx]

theorem removeBlanks_noBlank' (a : Str) (h : ' ' ∉ a) : removeBlanks a = a := by
  simp only [removeBlanks, List.filter_eq_self]
  intro x hx
  have : x ≠ ' ' := fun e => h (e ▸ hx)
  simpa using this

theorem validAtom_noBlank (a : Str) (ha : ValidAtom a) : ' ' ∉ a := by
  intro h
  have := (List.all_eq_true.mp (validAtom_atomChar a ha)) ' ' h
  revert this; decide

theorem removeBlanks_joinPadded : ∀ (l : List (Str × Char × Str × Str)) (a₀ : Str), ValidAtom a₀ →
    ValidPadded l → removeBlanks (joinPadded a₀ l) = joinCompound a₀ (stripPads l) := by
  intro l
  induction l with
  | nil => intro a₀ ha _; simpa [joinPadded, stripPads, joinCompound] using removeBlanks_noBlank' a₀ (validAtom_noBlank a₀ ha)
  | cons x l ih =>
    intro a₀ ha hl
    obtain ⟨b1, sep, b2, a⟩ := x
    obtain ⟨h1, h2, hs, hv⟩ := hl (b1, sep, b2, a) (by simp)
    have hs' : sep = '*' ∨ sep = '/' := hs
    have hsep : removeBlanks [sep] = [sep] := by rcases hs' with rfl | rfl <;> decide
    have ih' := ih a hv (fun y hy => hl y (by simp [hy]))
    have e : joinPadded a₀ ((b1, sep, b2, a) :: l) = a₀ ++ (b1 ++ ([sep] ++ (b2 ++ joinPadded a l))) := by
      simp [joinPadded]
    rw [e, removeBlanks_append, removeBlanks_append, removeBlanks_append, removeBlanks_append,
      removeBlanks_noBlank' a₀ (validAtom_noBlank a₀ ha), removeBlanks_allBlank b1 h1,
      removeBlanks_allBlank b2 h2, hsep, ih']
    simp [stripPads, joinCompound]

theorem validSeq_stripPads (l : List (Str × Char × Str × Str)) (hl : ValidPadded l) : ValidSeq (stripPads l) := by
  intro sa hsa
  simp only [stripPads, List.mem_map] at hsa
  obtain ⟨x, hx, rfl⟩ := hsa
  exact ⟨(hl x hx).2.2.1, (hl x hx).2.2.2⟩

theorem rep1_blank' (s : Str) : replace [' '] [] s = removeBlanks s := by
  induction s with
  | nil => rfl
  | cons c cs ih =>
    have hlen : replace [' '] [] cs = replaceFuel (cs.length + 1) [' '] [] cs := rfl
    by_cases hc : c = ' '
    · subst hc
      simp only [replace, List.length_cons, replaceFuel, removeBlanks] at *
      simpa [List.isPrefixOf] using ih
    · have hc' : ¬ ' ' = c := fun e => hc e.symm
      simp only [replace, List.length_cons, replaceFuel, removeBlanks] at *
      simpa [List.isPrefixOf, hc, hc'] using ih

/-- blanks around the separators do not matter: `split_compound` returns the same atoms -/
theorem splitCompound_padded (a₀ : Str) (l : List (Str × Char × Str × Str)) (ha : ValidAtom a₀)
    (hl : ValidPadded l) :
    Compound.splitCompound (joinPadded a₀ l) = some (a₀ :: expectAtoms (stripPads l)) := by
  cases l with
  | nil => simpa [joinPadded, stripPads, joinCompound] using splitCompound_seq a₀ [] ha (by intro x hx; cases hx)
  | cons x l =>
    obtain ⟨b1, sep, b2, a⟩ := x
    obtain ⟨h1, h2, hs, hv⟩ := hl (b1, sep, b2, a) (by simp)
    have hs' : sep = '*' ∨ sep = '/' := hs
    have hl' : ValidPadded l := fun y hy => hl y (by simp [hy])
    set t := b1 ++ sep :: b2 ++ joinPadded a l with ht
    have hjoin : joinPadded a₀ ((b1, sep, b2, a) :: l) = a₀ ++ t := by simp [joinPadded, ht]
    -- the tail starts with a blank or the separator, and the lookahead sees the separator
    have htail : t = [] ∨ ∃ c t', t = c :: t' ∧ sepChar c := by
      right
      cases hb : b1 with
      | nil => exact ⟨sep, b2 ++ joinPadded a l, by simp [ht, hb], by rcases hs' with rfl | rfl <;> simp [sepChar]⟩
      | cons c cs =>
        have : c = ' ' := by
          have := (List.all_eq_true.mp h1) c (by simp [hb])
          simpa using this
        exact ⟨c, cs ++ sep :: b2 ++ joinPadded a l, by simp [ht, hb], by simp [sepChar, this]⟩
    have hdrop : t.dropWhile (· == ' ') = sep :: b2 ++ joinPadded a l := by
      have hb : ∀ x ∈ b1, (x == ' ') = true := List.all_eq_true.mp h1
      have hsep : (sep == ' ') = false := by rcases hs' with rfl | rfl <;> decide
      rw [ht, List.append_assoc, List.dropWhile_append_of_pos hb]
      simp [hsep]
    have hgood : sepAhead t = true := by
      unfold sepAhead
      simp only [hdrop]
      rcases hs' with rfl | rfl <;> simp [atEnd]
    obtain ⟨m, hm, hmm, hmr⟩ := matchAtom_atom' a₀ t ha htail hgood
    have hrep : compoundSplitReplace = ([' '], []) := rfl
    have hclean : replace [' '] [] t = sep :: joinCompound a (stripPads l) := by
      have e : t = b1 ++ ([sep] ++ (b2 ++ joinPadded a l)) := by simp [ht]
      have hsep : removeBlanks [sep] = [sep] := by rcases hs' with rfl | rfl <;> decide
      rw [rep1_blank', e, removeBlanks_append, removeBlanks_append, removeBlanks_append,
        removeBlanks_allBlank b1 h1, removeBlanks_allBlank b2 h2, hsep, removeBlanks_joinPadded l a hv hl']
      simp
    have htne : t ≠ [] := by
      rcases htail with h | ⟨c, t', h, _⟩
      · rw [ht] at h; simp at h
      · rw [h]; simp
    have hseq := splitLoop_seq (stripPads l) a sep [a₀] (a₀ ++ t).length
      (by
        have h1 := joinCompound_length (stripPads l) a
        have h2 : (joinCompound a (stripPads l)).length < (replace [' '] [] t).length := by rw [hclean]; simp
        have h3 := replaceFuel_length_le [' '] [] (by simp) (t.length + 1) t
        have h4 : (replace [' '] [] t).length ≤ t.length := h3
        simp only [List.length_append]
        omega)
      hv (validSeq_stripPads l hl')
    unfold Compound.splitCompound
    rw [hjoin]
    have hne : (' ' == compoundInvertSep) = false := by decide
    have hte : t.isEmpty = false := by
      cases hq : t.isEmpty with
      | false => rfl
      | true => exact absurd (List.isEmpty_iff.mp hq) htne
    simp only [Compound.splitCompoundLoop, hm, hmm, hmr, hrep, hclean, hte, hne, Bool.false_eq_true, ↓reduceIte,
      List.nil_append, hseq]
    simp [expectAtoms, stripPads]

/-- the joined sequence starts with its first atom, followed by nothing or a separator -/
theorem joinCompound_cons (a₀ : Str) (s : Char) (a : Str) (l : List (Char × Str)) :
    ∃ tail, joinCompound a₀ ((s, a) :: l) = a₀ ++ s :: a ++ tail := by
  cases l with
  | nil => exact ⟨[], by simp [joinCompound]⟩
  | cons sa l =>
    obtain ⟨s2, a2⟩ := sa
    exact ⟨s2 :: joinCompound a2 l, by simp [joinCompound]⟩

theorem compound_seq (a₀ : Str) (l : List (Char × Str)) (ha : ValidAtom a₀) (hl : ValidSeq l) (hne : l ≠ []) :
    isCompound (joinCompound a₀ l) = true ∧ isSi (joinCompound a₀ l) = true := by
  cases l with
  | nil => exact absurd rfl hne
  | cons sa l =>
    obtain ⟨s, a⟩ := sa
    obtain ⟨tail, ht⟩ := joinCompound_cons a₀ s a l
    have hsa := hl (s, a) (by simp)
    obtain ⟨p₁, u₁, w₁, hp₁, hu₁, hw₁, rfl⟩ := ha
    obtain ⟨p₂, u₂, w₂, hp₂, hu₂, hw₂, e₂⟩ := hsa.2
    have e₂' : a = p₂ ++ u₂ ++ w₂ := e₂
    subst e₂'
    rw [ht]
    exact compound_atoms_generic p₁ u₁ w₁ p₂ u₂ w₂ s tail hp₁ hu₁ hw₁ hp₂ hu₂ hw₂ hsa.1

theorem invertPower_valid (a : Str) (ha : ValidAtom a) : ValidAtom (Compound.invertPower a) := by
  obtain ⟨p, u, w, hp, hu, hw, rfl⟩ := ha
  exact ⟨p, u, negPow w, hp, hu, negPow_PowerText w hw, invertPower_atom p u w hp hu hw⟩

/-- everything `split_compound` returns for a sequence of atoms is again a table atom -/
theorem expectAtoms_valid (a₀ : Str) (l : List (Char × Str)) (ha : ValidAtom a₀) (hl : ValidSeq l) :
    ∀ x ∈ a₀ :: expectAtoms l, ValidAtom x := by
  intro x hx
  rcases List.mem_cons.mp hx with rfl | hx
  · exact ha
  · simp only [expectAtoms, List.mem_map] at hx
    obtain ⟨sa, hsa, rfl⟩ := hx
    split
    · exact invertPower_valid _ (hl sa hsa).2
    · exact (hl sa hsa).2

/-- joining with `*` and splitting again gives the atoms back -/
theorem splitCompound_roundtrip (a₀ : Str) (as : List Str) (ha : ValidAtom a₀) (has : ∀ a ∈ as, ValidAtom a) :
    Compound.splitCompound (joinCompound a₀ (as.map fun a => ('*', a))) = some (a₀ :: as) := by
  have hl : ValidSeq (as.map fun a => ('*', a)) := by
    intro sa hsa
    rw [List.mem_map] at hsa
    obtain ⟨a, ha', rfl⟩ := hsa
    exact ⟨Or.inl rfl, has a ha'⟩
  rw [splitCompound_seq a₀ _ ha hl]
  have hne : '*' ≠ compoundInvertSep := by decide
  have hfun : ((fun sa : Char × Str => if sa.1 == compoundInvertSep then Compound.invertPower sa.2 else sa.2) ∘
      fun a => ('*', a)) = id := by
    funext a
    simp [hne]
  simp only [expectAtoms, List.map_map, hfun, List.map_id]

end Nix.Units.Lemmas
