import NixModel.Store.Graph
import NixModel.Py.UuidText

/-!
# C03: the id / name dispatch function against the complete `uuid.UUID(text)` acceptance model

`Store.pyIsUuid` (used by `getByIdOrName`, `h5Delete`, `contAppend` of the structural model) covers the
plain / hyphenated / braced / `urn:uuid:` spellings; `Py.uuidAccepts` is the complete function
(pinned against CPython by the correspondence). On the pool of names the histories draw from
(`harness/lib/storegen.py`: NAMES_PLAIN, NAMES_UUIDISH, NAMES_BAD) the two agree, so the dispatch of
the model is the dispatch of the code on every generated history.
-/
namespace Nix.C03
open Nix.Store Nix.Py

/-- the name pools of the history generators (the 300-character name included) -/
def namePool : List String :=
  ["a", "b", "z1", "A", "m", "zz", "data", "name with space", "é", "名前", "ß-ü", "..", "a.b",
   String.ofList (List.replicate 300 'x'), " a", "a ", " b ", "b\t",
   "0f0f0f0f0f0f0f0f0f0f0f0f0f0f0f0f", "00000000-0000-0000-0000-00000000000a",
   "{00000000-0000-0000-0000-00000000000b}", "urn:uuid:00000000-0000-0000-0000-00000000000c",
   "ABCDEFabcdef00112233445566778899", "", "a/b", "/", "no-such-name", "nope"]

theorem dispatch_agrees_on_pool : ∀ s ∈ namePool, pyIsUuid s = uuidAccepts s := by decide +kernel

/-- which of them are taken for ids -/
theorem pool_uuidish : namePool.filter uuidAccepts =
    ["0f0f0f0f0f0f0f0f0f0f0f0f0f0f0f0f", "00000000-0000-0000-0000-00000000000a",
     "{00000000-0000-0000-0000-00000000000b}", "urn:uuid:00000000-0000-0000-0000-00000000000c",
     "ABCDEFabcdef00112233445566778899"] := by decide +kernel

/-! spellings `int(text, 16)` accepts although they are not hexadecimal digits only -/
example : uuidAccepts "0x000000000000000000000000000000" = true := by decide +kernel
example : uuidAccepts "0x_00000000000000000000000000000" = true := by decide +kernel
example : uuidAccepts "+1111111111111111111111111111111" = true := by decide +kernel
example : uuidAccepts "1111111111111111_111111111111111" = true := by decide +kernel
example : uuidAccepts "1111111111111111__11111111111111" = false := by decide +kernel
example : uuidAccepts " 111111111111111111111111111111\n" = true := by decide +kernel
example : uuidAccepts "bbbbbbbbbbbbbbbburn:bbbbbbbbbbbbbbbb" = true := by decide +kernel
example : uuidAccepts "uurn:rn:bbbbbbbbbbbbbbbbbbbbbbbbbbbbbbbb" = false := by decide +kernel
example : uuidAccepts "{{aaaaaaaaaaaaaaaaaaaaaaaaaaaaaaaa}}" = true := by decide +kernel
example : uuidAccepts "٠١٢٣٤٥٦٧٨٩0000000000000000000000" = true := by decide +kernel
example : uuidAccepts "g0000000000000000000000000000000" = false := by decide +kernel

end Nix.C03
