import NixModel.Lemmas.C08Axis
import NixModel.Lemmas.C06View

/-!
Lemmas for C08, part 2: the whole slice tuple (`_calc_data_slices`) and the view built from it.

The predicates below walk the dimension list in lock-step with the model (`calcSlices`): the lists are what is
left of `data.dimensions`, `data.shape`, `position`, `extent`, `units` and of the per-axis scale factors.
-/
namespace Nix.Tagging
open Nix Nix.Dim Nix.DataView Nix.Units

def unitHead : Option (List Str) → Option Str
  | some (u :: _) => some u
  | _ => none

def unitTail : Option (List Str) → Option (List Str)
  | some (_ :: us) => some us
  | o => o

theorem nextUnit_ok (units : Option (List Str)) (h : units ≠ some []) :
    nextUnit units = .ok (unitHead units, unitTail units) := by
  match units, h with
  | none, _ => rfl
  | some (u :: us), _ => rfl
  | some [], h => exact absurd rfl h

/-- the hypotheses of the region theorem, axis by axis: for every axis that has a position, the tag unit
converts to the dimension's unit with the exact factor `sc` (`UnitRel`, C09), the descriptor is inside
C07's theorems (`DimOK`) and both end points of the scaled region meet C07's tolerance hypothesis
(`SepAt`).  Axes without a position need nothing. -/
inductive AxesOK (stop : SliceMode) :
    List DimDesc → List Rat → List Rat → Option (List Str) → List Rat → Prop
  | nil (pos ext : List Rat) (units : Option (List Str)) (scs : List Rat) : AxesOK stop [] pos ext units scs
  | whole (dims : List DimDesc) (ext : List Rat) (units : Option (List Str)) (scs : List Rat) :
      AxesOK stop dims [] ext units scs
  | pos (dim : DimDesc) (dims : List DimDesc) (p : Rat) (pos ext : List Rat) (units : Option (List Str))
      (sc : Rat) (scs : List Rat)
      (hunits : units ≠ some [])
      (hrel : UnitRel (unitHead units) dim sc)
      (hd : DimOK dim)
      (hs : SepAt dim (regionOf stop p (nextExtent ext).1 sc).s)
      (he : SepAt dim (regionOf stop p (nextExtent ext).1 sc).e)
      (hrest : AxesOK stop dims pos (nextExtent ext).2 (unitTail units) scs) :
      AxesOK stop (dim :: dims) (p :: pos) ext units (sc :: scs)

/-- the slice tuple is right: an axis with a position carries the slice of exactly the samples of its
descriptor inside the scaled region (or `None` if there is none), an axis without one is taken whole -/
inductive SlicesSpec (stop : SliceMode) :
    List DimDesc → List Nat → List Rat → List Rat → List Rat → List (Option Win) → Prop
  | nil (shape : List Nat) (pos ext scs : List Rat) : SlicesSpec stop [] shape pos ext scs []
  | pos (dim : DimDesc) (dims : List DimDesc) (n : Nat) (shape : List Nat) (p : Rat) (pos ext : List Rat)
      (sc : Rat) (scs : List Rat) (w : Option Win) (sl : List (Option Win))
      (hw : AxisSpec dim (regionOf stop p (nextExtent ext).1 sc) w)
      (hrest : SlicesSpec stop dims shape pos (nextExtent ext).2 scs sl) :
      SlicesSpec stop (dim :: dims) (n :: shape) (p :: pos) ext (sc :: scs) (w :: sl)
  | whole (dim : DimDesc) (dims : List DimDesc) (n : Nat) (shape : List Nat) (ext scs : List Rat)
      (sl : List (Option Win)) (hrest : SlicesSpec stop dims shape [] ext scs sl) :
      SlicesSpec stop (dim :: dims) (n :: shape) [] ext scs (some ((0 : Int), (n : Int)) :: sl)

/-- some axis with a position has no sample of its descriptor inside its region -/
inductive EmptyAxis (stop : SliceMode) : List DimDesc → List Rat → List Rat → List Rat → Prop
  | here (dim : DimDesc) (dims : List DimDesc) (p : Rat) (pos ext : List Rat) (sc : Rat) (scs : List Rat)
      (h : ∀ i, InDom (dimDom dim) i → ¬ InRegion dim (regionOf stop p (nextExtent ext).1 sc) i) :
      EmptyAxis stop (dim :: dims) (p :: pos) ext (sc :: scs)
  | there (dim : DimDesc) (dims : List DimDesc) (p : Rat) (pos ext : List Rat) (sc : Rat) (scs : List Rat)
      (h : EmptyAxis stop dims pos (nextExtent ext).2 scs) :
      EmptyAxis stop (dim :: dims) (p :: pos) ext (sc :: scs)

/-- some axis with a position has a sample of its descriptor inside its region whose index is not stored
(`≥` the array's extent on that axis): the region runs past the stored data -/
inductive BeyondAxis (stop : SliceMode) : List DimDesc → List Nat → List Rat → List Rat → List Rat → Prop
  | here (dim : DimDesc) (dims : List DimDesc) (n : Nat) (shape : List Nat) (p : Rat) (pos ext : List Rat)
      (sc : Rat) (scs : List Rat) (i : Nat) (hi : n ≤ i) (hdom : InDom (dimDom dim) i)
      (h : InRegion dim (regionOf stop p (nextExtent ext).1 sc) i) :
      BeyondAxis stop (dim :: dims) (n :: shape) (p :: pos) ext (sc :: scs)
  | there (dim : DimDesc) (dims : List DimDesc) (n : Nat) (shape : List Nat) (p : Rat) (pos ext : List Rat)
      (sc : Rat) (scs : List Rat) (h : BeyondAxis stop dims shape pos (nextExtent ext).2 scs) :
      BeyondAxis stop (dim :: dims) (n :: shape) (p :: pos) ext (sc :: scs)

/-- the windows of a valid result: on an axis with a position the window `[a, b)` is non-empty, inside the
stored extent, made of sample indices of the descriptor, and a sample index of the descriptor lies in it iff its coordinate lies in the scaled region —
so it is exactly `{ i < extent | coord i ∈ region }` and no sample of the region is missing; an axis without
a position is `[0, extent)` -/
inductive WindowsExact (stop : SliceMode) :
    List DimDesc → List Nat → List Rat → List Rat → List Rat → List Win → Prop
  | nil (pos ext scs : List Rat) : WindowsExact stop [] [] pos ext scs []
  | pos (dim : DimDesc) (dims : List DimDesc) (n : Nat) (shape : List Nat) (p : Rat) (pos ext : List Rat)
      (sc : Rat) (scs : List Rat) (a b : Nat) (ws : List Win) (hab : a < b) (hbn : b ≤ n)
      (hdomw : ∀ i, i < b → InDom (dimDom dim) i)
      (hexact : ∀ i, InDom (dimDom dim) i →
        (InRegion dim (regionOf stop p (nextExtent ext).1 sc) i ↔ a ≤ i ∧ i < b))
      (hrest : WindowsExact stop dims shape pos (nextExtent ext).2 scs ws) :
      WindowsExact stop (dim :: dims) (n :: shape) (p :: pos) ext (sc :: scs) (((a : Int), (b : Int)) :: ws)
  | whole (dim : DimDesc) (dims : List DimDesc) (n : Nat) (shape : List Nat) (ext scs : List Rat)
      (ws : List Win) (hrest : WindowsExact stop dims shape [] ext scs ws) :
      WindowsExact stop (dim :: dims) (n :: shape) [] ext scs (((0 : Int), (n : Int)) :: ws)

/-- **`_calc_data_slices` is right on every axis**, for any number of axes -/
theorem calcSlices_spec (stop : SliceMode) (dims : List DimDesc) :
    ∀ (shape : List Nat) (pos ext : List Rat) (units : Option (List Str)) (scs : List Rat),
    dims.length = shape.length → AxesOK stop dims pos ext units scs →
    match calcSlices stop dims shape pos ext units with
    | .ok sl => SlicesSpec stop dims shape pos ext scs sl
    | .error e => e = .indexError ∧ EmptyAxis stop dims pos ext scs := by
  induction dims with
  | nil =>
    intro shape pos ext units scs _ _
    simp only [calcSlices]
    exact SlicesSpec.nil shape pos ext scs
  | cons dim dims ih =>
    intro shape pos ext units scs hlen hok
    cases shape with
    | nil => simp at hlen
    | cons n shape =>
      have hlen' : dims.length = shape.length := by simpa using hlen
      cases pos with
      | nil =>
        have := ih shape [] ext units scs hlen' (AxesOK.whole dims ext units scs)
        simp only [calcSlices]
        cases hr : calcSlices stop dims shape [] ext units with
        | error e =>
          rw [hr] at this
          exact absurd this.2 (by intro h; cases h)
        | ok sl =>
          rw [hr] at this
          exact SlicesSpec.whole dim dims n shape ext scs sl this
      | cons p pos =>
        cases hok with
        | pos _ _ _ _ _ _ sc scs hunits hrel hd hs he hrest =>
          have hsp := scalePosition_of_unitRel p (unitHead units) dim sc hrel
          have hax := axisSlice_spec stop dim p (nextExtent ext).1 (unitHead units) sc hd hsp.1 hs he
          have hrec := ih shape pos (nextExtent ext).2 (unitTail units) scs hlen' hrest
          simp only [calcSlices, nextUnit_ok units hunits, List.drop_succ_cons, List.drop_zero]
          cases ha : axisSlice stop dim p (nextExtent ext).1 (unitHead units) with
          | error e =>
            rw [ha] at hax
            exact ⟨hax.1, EmptyAxis.here dim dims p pos ext sc scs hax.2⟩
          | ok w =>
            rw [ha] at hax
            simp only []
            cases hr : calcSlices stop dims shape pos (nextExtent ext).2 (unitTail units) with
            | error e =>
              rw [hr] at hrec
              exact ⟨hrec.1, EmptyAxis.there dim dims p pos ext sc scs hrec.2⟩
            | ok sl =>
              rw [hr] at hrec
              exact SlicesSpec.pos dim dims n shape p pos ext sc scs w sl hax hrec

/-- `SlicesSpec` keeps one entry per dimension -/
theorem slicesSpec_length {stop : SliceMode} {dims : List DimDesc} {shape : List Nat} {pos ext scs : List Rat}
    {sl : List (Option Win)} (h : SlicesSpec stop dims shape pos ext scs sl) : sl.length = dims.length := by
  induction h with
  | nil => rfl
  | pos _ _ _ _ _ _ _ _ _ _ _ _ _ ih => simp [ih]
  | whole _ _ _ _ _ _ _ _ ih => simp [ih]

/-- a `None` entry in a right slice tuple: some axis has no sample in its region -/
theorem slicesSpec_none {stop : SliceMode} {dims : List DimDesc} {shape : List Nat} {pos ext scs : List Rat}
    {sl : List (Option Win)} (h : SlicesSpec stop dims shape pos ext scs sl) (hn : allSome sl = none) :
    EmptyAxis stop dims pos ext scs := by
  induction h with
  | nil => simp [allSome] at hn
  | pos dim dims n shape p pos ext sc scs w sl hw _ ih =>
    cases w with
    | none => exact EmptyAxis.here dim dims p pos ext sc scs hw
    | some w =>
      have : allSome sl = none := by
        cases hs : allSome sl with
        | none => rfl
        | some ws => simp [allSome, hs] at hn
      exact EmptyAxis.there dim dims p pos ext sc scs (ih this)
  | whole dim dims n shape ext scs sl _ ih =>
    have : allSome sl = none := by
      cases hs : allSome sl with
      | none => rfl
      | some ws => simp [allSome, hs] at hn
    exact absurd (ih this) (by intro h; cases h)

/-- `all(stops ≤ extent)` over windows and shape of equal length -/
def stopsIn : List Win → List Nat → Bool
  | w :: ws, n :: shape => decide (w.2 ≤ (n : Int)) && stopsIn ws shape
  | _, _ => true

theorem zip_all_stopsIn (ws : List Win) (shape : List Nat) :
    (((ws.map fun w => w.2).zip shape).all fun se => Gen.stopInData se.1 (se.2 : Int)) = stopsIn ws shape := by
  simp only [gen_stopInData]
  induction ws generalizing shape with
  | nil => cases shape <;> simp [stopsIn]
  | cons w ws ih =>
    cases shape with
    | nil => simp [stopsIn]
    | cons n shape =>
      have := ih shape
      simp only [List.map_cons, List.zip_cons_cons, List.all_cons, stopsIn, this]

theorem npAllLe_eq (ws : List Win) (shape : List Nat) (h : ws.length = shape.length) :
    npAllLe (ws.map fun w => w.2) shape = .ok (stopsIn ws shape) := by
  have hl : (ws.map fun w => w.2).length = shape.length := by simpa using h
  simp only [npAllLe, hl, if_true, zip_all_stopsIn]

/-- a right slice tuple without `None`: either every stop is inside the stored extent — then the windows are
valid (C06) and exact — or some axis' region has a sample beyond the stored extent -/
theorem slicesSpec_some {stop : SliceMode} {dims : List DimDesc} {shape : List Nat} {pos ext scs : List Rat}
    {sl : List (Option Win)} (h : SlicesSpec stop dims shape pos ext scs sl) (hlen : dims.length = shape.length)
    (ws : List Win) (hs : allSome sl = some ws) :
    sl = ws.map some ∧ ws.length = shape.length ∧
    (stopsIn ws shape = true → WindowsIn ws shape ∧ WindowsExact stop dims shape pos ext scs ws) ∧
    (stopsIn ws shape = false → BeyondAxis stop dims shape pos ext scs) := by
  induction h generalizing ws with
  | nil shape pos ext scs =>
    cases shape with
    | nil =>
      simp only [allSome, Option.some.injEq] at hs
      subst hs
      exact ⟨rfl, rfl, fun _ => ⟨trivial, WindowsExact.nil pos ext scs⟩, fun h => by simp [stopsIn] at h⟩
    | cons n shape => simp at hlen
  | pos dim dims n shape p pos ext sc scs w sl hw _ ih =>
    have hlen' : dims.length = shape.length := by simpa using hlen
    cases w with
    | none => simp [allSome] at hs
    | some w =>
      cases hs' : allSome sl with
      | none => simp [allSome, hs'] at hs
      | some ws' =>
        simp only [allSome, hs', Option.some.injEq] at hs
        subst hs
        obtain ⟨h1, h2, h3, h4⟩ := ih hlen' ws' hs'
        obtain ⟨a, b⟩ := w
        obtain ⟨ka, kb, ha, hb, hle, hdom, hall⟩ := hw
        subst ha hb
        refine ⟨by simp [h1], by simp [h2], ?_, ?_⟩
        · intro hst
          simp only [stopsIn, Bool.and_eq_true, decide_eq_true_eq] at hst
          obtain ⟨hbn, hst'⟩ := hst
          obtain ⟨hw1, hw2⟩ := h3 hst'
          have hkb : kb + 1 ≤ n := by omega
          refine ⟨⟨⟨by simp, by simp; omega, by simpa using hbn⟩, hw1⟩, ?_⟩
          have := WindowsExact.pos dim dims n shape p pos ext sc scs ka (kb + 1) ws' (by omega) hkb
            (fun i hi m hm => by have := hdom m hm; omega)
            (fun i hi => by rw [hall i hi]; omega) hw2
          simpa using this
        · intro hst
          simp only [stopsIn, Bool.and_eq_false_iff, decide_eq_false_iff_not] at hst
          rcases hst with hst | hst
          · have hkb : n ≤ kb := by
              simp only [not_le] at hst
              omega
            exact BeyondAxis.here dim dims n shape p pos ext sc scs kb hkb hdom ((hall kb hdom).mpr ⟨hle, le_refl _⟩)
          · exact BeyondAxis.there dim dims n shape p pos ext sc scs (h4 hst)
  | whole dim dims n shape ext scs sl _ ih =>
    have hlen' : dims.length = shape.length := by simpa using hlen
    cases hs' : allSome sl with
    | none => simp [allSome, hs'] at hs
    | some ws' =>
      simp only [allSome, hs', Option.some.injEq] at hs
      subst hs
      obtain ⟨h1, h2, h3, h4⟩ := ih hlen' ws' hs'
      refine ⟨by simp [h1], by simp [h2], ?_, ?_⟩
      · intro hst
        simp only [stopsIn, Bool.and_eq_true, decide_eq_true_eq] at hst
        obtain ⟨hw1, hw2⟩ := h3 hst.2
        exact ⟨⟨⟨by simp, by simp, by simp⟩, hw1⟩, WindowsExact.whole dim dims n shape ext scs ws' hw2⟩
      · intro hst
        simp only [stopsIn, Bool.and_eq_false_iff, decide_eq_false_iff_not] at hst
        rcases hst with hst | hst
        · simp at hst
        · exact absurd (h4 hst) (by intro h; cases h)

/-- the windows of a valid result contradict an empty axis and a region running past the data -/
theorem windowsExact_not_empty {stop : SliceMode} {dims : List DimDesc} {shape : List Nat}
    {pos ext scs : List Rat} {ws : List Win} (h : WindowsExact stop dims shape pos ext scs ws) :
    ¬ EmptyAxis stop dims pos ext scs ∧ ¬ BeyondAxis stop dims shape pos ext scs := by
  induction h with
  | nil => exact ⟨(fun h => nomatch h), (fun h => nomatch h)⟩
  | pos dim dims n shape p pos ext sc scs a b ws hab hbn hdomw hexact _ ih =>
    constructor
    · intro he
      cases he with
      | here _ _ _ _ _ _ _ h =>
        -- sample `a` lies in the window, hence in the region
        have hdomA : InDom (dimDom dim) a := hdomw a hab
        exact h a hdomA ((hexact a hdomA).mpr ⟨le_refl _, hab⟩)
      | there _ _ _ _ _ _ _ h => exact ih.1 h
    · intro hb
      cases hb with
      | here _ _ _ _ _ _ _ _ _ i hi hdom h =>
        have := (hexact i hdom).mp h
        omega
      | there _ _ _ _ _ _ _ _ _ h => exact ih.2 h
  | whole dim dims n shape ext scs ws _ ih =>
    exact ⟨(fun h => nomatch h), (fun h => nomatch h)⟩

end Nix.Tagging
