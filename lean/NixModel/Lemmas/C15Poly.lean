import NixModel.Lemmas.C15Hist
import NixModel.Lemmas.C15Select

/-! Helper lemmas for C15: special coefficient lists (zeros, constants, padding) and reads after histories. -/
namespace Nix.Poly.Lemmas
open Nix.Poly

theorem evalAsc_zeros (y : Rat) (c : List Rat) (h : ∀ x ∈ c, x = 0) : evalAsc y c = 0 := by
  induction c with
  | nil => rfl
  | cons a cs ih =>
    have ha : a = 0 := h a (by simp)
    have := ih (fun x hx => h x (by simp [hx]))
    simp [evalAsc, ha, this]

theorem evalAsc_append_zeros (y : Rat) (c z : List Rat) (h : ∀ x ∈ z, x = 0) :
    evalAsc y (c ++ z) = evalAsc y c := by
  induction c with
  | nil => simpa [evalAsc] using evalAsc_zeros y z h
  | cons a cs ih => simp [evalAsc, ih]

theorem evalAsc_single (y c : Rat) : evalAsc y [c] = c := by simp [evalAsc]

/-- what a successful read returns, in one statement -/
theorem readData_ok (a : Arr) (ix : Index) (r : Result) (h : readData a ix = .ok r) :
    ∃ shape pos xs, select a.shape ix = .ok (shape, pos) ∧ gather a.raw pos = .ok xs ∧
      r = ⟨outDtype a, fixShape shape, xs.map (calibElem a)⟩ := by
  rw [readData_eq] at h
  cases hs : select a.shape ix with
  | error e => simp [hs] at h
  | ok sp =>
    obtain ⟨shape, pos⟩ := sp
    cases hg : gather a.raw pos with
    | error e => simp [hs, hg] at h
    | ok xs =>
      simp only [hs, hg, Except.ok.injEq] at h
      exact ⟨shape, pos, xs, rfl, hg, h.symm⟩

/-- a read depends on the array only through shape, stored elements, element type of the result and the
elementwise calibration function -/
theorem readData_congr (a b : Arr) (ix : Index) (hs : a.shape = b.shape) (hr : a.raw = b.raw)
    (hd : outDtype a = outDtype b) (hc : calibElem a = calibElem b) : readData a ix = readData b ix := by
  rw [readData_eq, readData_eq, hs, hr, hd, hc]

end Nix.Poly.Lemmas
