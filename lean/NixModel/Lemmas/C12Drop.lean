import NixModel.Lemmas.C12Unch

/-!
# C12 — deleting an auto-created array again (`del self.data_arrays[name]` → `delete_all([array])`)

`delete_all` filters *every* link list of the file by the target object. The auto-created array is a
new object, so the only link of an old node it removes is the entry just made; whatever happened in
between (`Unch`) stays invisible.
-/
namespace Nix.Store.Lemmas
open Nix.Store Nix.Store.Graph

theorem keepObj_of_ne {K : Nat} {l : String × Nat} (hne : l.2 ≠ K) : keepObj [K] l = true := by
  unfold keepObj
  simp [hne]

theorem keepObj_of_eq {K : Nat} {l : String × Nat} (he : l.2 = K) : keepObj [K] l = false := by
  unfold keepObj
  simp [he]

theorem filter_all_kept {α : Type} {l : List α} {p : α → Bool} (h : ∀ x ∈ l, p x = true) : l.filter p = l :=
  List.filter_eq_self.mpr h

/-- the life cycle of an auto-created array `K` (entry `nm` of the container `c`, id `i`): created
(`Plus`), anything unobservable in between (`Unch`), deleted through `delete_all([K's object])` -/
theorem dropAuto_unch {gb g1 h : Graph} {c K : Nat} {nm i : String}
    (P1 : Plus (Has gb) gb g1 c nm K) (hcb : Has gb c) (hK1 : Has g1 K) (hKnew : ¬ Has gb K)
    (hid : g1.entityId K = some i) (hU : Unch g1 h)
    (hold : ∀ k l, Has gb k → l ∈ gb.links k → Has gb l.2) :
    Unch gb (dropAuto h (some K)) := by
  have hidh : h.entityId K = some i := by
    rw [entityId_eq, hU.attrs K hK1 "entity_id", ← entityId_eq]; exact hid
  have hd : dropAuto h (some K) = h.deleteObjs [K] := rfl
  rw [hd]
  -- an old link survives the filter
  have keepOld : ∀ k l, Has gb k → l ∈ gb.links k → keepObj [K] l = true := by
    intro k l hk hl
    apply keepObj_of_ne
    intro e
    exact hKnew (e ▸ hold k l hk hl)
  have keepGhost : ∀ l : String × Nat, EmptyGroup h l.2 → keepObj [K] l = true := by
    intro l hg
    apply keepObj_of_ne
    intro e
    have := hg.2.2 "entity_id"
    rw [e, ← entityId_eq, hidh] at this
    cases this
  refine ⟨Nat.le_trans P1.nextKey_le hU.nextKey_le, Nat.le_trans P1.nextId_le hU.nextId_le, ?_, ?_, ?_, ?_⟩
  · intro k hk
    unfold Has
    rw [node?_isSome_deleteObjs]
    exact hU.keeps k (P1.keeps k hk)
  · intro k hk
    unfold Has at hk
    rw [node?_isSome_deleteObjs] at hk
    exact news_trans P1.nextKey_le hU.nextKey_le P1.news hU.news k hk
  · intro k hk a
    rw [getAttr_deleteObjs, hU.attrs k (P1.keeps k hk) a, P1.attrs k hk a]
  · intro k hk
    obtain ⟨ex, he, hx⟩ := hU.links k (P1.keeps k hk)
    have ghostOK : ∀ l ∈ ex, ¬ Has gb l.2 ∧ EmptyGroup (h.deleteObjs [K]) l.2 ∧ (k = 0 ∨ kindOf gb k ≠ "") := by
      intro l hl
      obtain ⟨n1, ⟨m1, m2, m3⟩, n3⟩ := hx l hl
      refine ⟨fun hh => n1 (P1.keeps _ hh), ⟨?_, ?_, ?_⟩, ?_⟩
      · unfold Has; rw [node?_isSome_deleteObjs]; exact m1
      · rw [links_deleteObjs, m2]; rfl
      · intro a; rw [getAttr_deleteObjs]; exact m3 a
      · rcases n3 with n3 | n3
        · exact .inl n3
        · exact .inr (by rw [← kindOf_of_attrs (P1.attrs k hk)]; exact n3)
    have exKept : ex.filter (keepObj [K]) = ex :=
      filter_all_kept (fun l hl => keepGhost l (hx l hl).2.1)
    refine ⟨ex, ?_, ghostOK⟩
    rw [links_deleteObjs, he, List.filter_append, exKept]
    congr 1
    by_cases hkc : k = c
    · subst hkc
      rw [P1.links_c, List.filter_append, filter_all_kept (fun l hl => keepOld k l hk hl)]
      have : keepObj [K] (nm, K) = false := keepObj_of_eq rfl
      simp [List.filter, this]
    · rw [P1.links_ne k hk hkc]
      exact filter_all_kept (fun l hl => keepOld k l hk hl)

end Nix.Store.Lemmas
