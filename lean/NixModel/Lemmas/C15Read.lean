import NixModel.Lemmas.C15Horner

/-! Helper lemmas for C15: the read path is "gather, then calibrate element by element". -/
namespace Nix.Poly.Lemmas
open Nix.Poly

/-- does a read calibrate? (`len(coeff) or origin`) -/
def calibrated (a : Arr) : Bool := a.coeffsGet.length != 0 || truthy a.origin

/-- the expansion origin in effect (`None` counts as 0) -/
def originVal (a : Arr) : Rat :=
  match a.origin with
  | none => 0
  | some x => x

/-- the coefficients in effect: without stored coefficients the calibration is the documented default
`{0, 1}` (identity polynomial in `x - origin`) -/
def effCoeffs (a : Arr) : List Rat := if a.coeffsGet = [] then [0, 1] else a.coeffsGet

/-- what a read makes of one stored element -/
def calibElem (a : Arr) (x : Rat) : Rat :=
  if calibrated a then evalAsc (x - originVal a) (effCoeffs a) else x

/-- element type of a read result -/
def outDtype (a : Arr) : DType := if calibrated a then .float64 else a.dtype

/-! ### mapM / gather -/

theorem mapM_ok_map {α β : Type} (f : α → β) (l : List α) :
    l.mapM (fun x => (Except.ok (f x) : Except Err β)) = .ok (l.map f) := by
  induction l with
  | nil => rfl
  | cons x xs ih => simp [List.mapM_cons, ih, bind, Except.bind, pure, Except.pure]

theorem mapM_congr_ok {α β : Type} (f : α → Except Err β) (g : α → β) (l : List α)
    (h : ∀ x ∈ l, f x = .ok (g x)) : l.mapM f = .ok (l.map g) := by
  induction l with
  | nil => rfl
  | cons x xs ih =>
    have hx := h x (by simp)
    have hxs := ih (fun y hy => h y (by simp [hy]))
    simp [List.mapM_cons, hx, hxs, bind, Except.bind, pure, Except.pure]

theorem gather_map {α β : Type} (f : α → β) (xs : List α) (pos : List Nat) :
    gather (xs.map f) pos = (gather xs pos).map (List.map f) := by
  unfold gather
  induction pos with
  | nil => rfl
  | cons p ps ih =>
    simp only [List.mapM_cons, ih]
    cases hp : xs[p]? with
    | none => simp [hp, bind, Except.bind, Except.map]
    | some x =>
      simp only [List.getElem?_map, hp, Option.map_some, bind, Except.bind]
      cases hps : List.mapM (fun p => match xs[p]? with
          | some x => (Except.ok x : Except Err α)
          | none => Except.error Err.indexError) ps with
      | error e => simp [Except.map]
      | ok l => simp [Except.map, pure, Except.pure]

/-! ### `apply_polynomial` element by element -/

theorem applyPolynomial_eq (c : List Rat) (o : Rat) (data : List Rat) :
    applyPolynomial c o data =
      .ok (data.map fun x => if c = [] then x - o else evalAsc (x - o) c) := by
  unfold applyPolynomial
  by_cases hc : c = []
  · subst hc; simp
  · have hne : c.isEmpty = false := by cases c <;> simp_all
    simp only [hne, Bool.false_eq_true, if_false, hc]
    rw [mapM_congr_ok (fun x => polyval x c) (fun y => evalAsc y c) _ (fun y _ => polyval_eq y c hc)]
    simp [List.map_map, Function.comp_def]

/-- the identity polynomial `{0, 1}` -/
theorem evalAsc_default (y : Rat) : evalAsc y [0, 1] = y := by simp [evalAsc]

/-- `_read_data` = select, gather the raw elements, calibrate each of them -/
theorem readData_eq (a : Arr) (ix : Index) :
    readData a ix =
      match select a.shape ix with
      | .error e => .error e
      | .ok (shape, pos) =>
        match gather a.raw pos with
        | .error e => .error e
        | .ok vals => .ok ⟨outDtype a, fixShape shape, vals.map (calibElem a)⟩ := by
  unfold readData rawRead
  cases hs : select a.shape ix with
  | error e => simp [bind, Except.bind]
  | ok sp =>
    obtain ⟨shape, pos⟩ := sp
    cases hg : gather a.raw pos with
    | error e => simp [bind, Except.bind, hg]
    | ok vals =>
      simp only [bind, Except.bind, Arr.originGet, hg]
      by_cases hcal : calibrated a = true
      · have hcal' : (a.coeffsGet.length != 0 || truthy a.origin) = true := hcal
        simp only [hcal', if_true, applyPolynomial_eq, outDtype, hcal, List.map_map]
        congr 2
        apply List.map_congr_left
        intro x _
        simp only [Function.comp, calibElem, hcal, if_true, toDouble]
        unfold effCoeffs originVal
        cases ho : a.origin with
        | none => by_cases hc : a.coeffsGet = [] <;> simp [hc, evalAsc]
        | some o =>
          by_cases ho0 : o = 0
          · subst ho0; by_cases hc : a.coeffsGet = [] <;> simp [hc, evalAsc]
          · by_cases hc : a.coeffsGet = [] <;> simp [hc, ho0, evalAsc]
      · have hcal' : (a.coeffsGet.length != 0 || truthy a.origin) = false := by
          simpa [calibrated] using hcal
        have hcal'' : calibrated a = false := by simpa using hcal
        have hid : calibElem a = id := by funext x; simp [calibElem, hcal'']
        simp [hcal', outDtype, hcal'', hid]

end Nix.Poly.Lemmas
