import NixModel.Lemmas.C01Typed
import NixModel.Pure.NdRun

/-!
# Lemmas about sources that are Python sequences (C01, `Pure/NdSeq.lean`)
-/
namespace Nix.Nd.Lemmas
open Nix Nix.Nd Nix.NdGen Nix.Gen.DataSet

theorem writeSeqGen_eq (A : DArr) (d : Arr) (slc : IndexArg) : writeSeqGen A d slc = writeSeq A d slc := by
  unfold writeSeqGen writeSeq
  simp only [h5WriteData_eq]

theorem stepSeqGen_eq (A : DArr) (s : TStep) : stepSeqGen A s = stepSeq A s := by
  cases s <;> simp only [stepSeqGen, stepSeq, writeSeqGen_eq, stepGen_eq]

theorem castInt_ok {lo hi v : Int} {e : Elem} (h : castInt lo hi v = .ok e) : e = .int v ∧ lo ≤ v ∧ v ≤ hi := by
  unfold castInt at h
  split at h
  · cases h; exact ⟨rfl, ‹_›⟩
  · cases h

theorem castFloat_f32 (p eb bits : Nat) : castFloat p eb 24 8 bits < 4294967296 := by
  unfold castFloat
  split
  · rename_i neg m e _
    have := signBit32 neg
    have := capped32 (encodeMag 24 8 m e)
    dsimp only
    omega
  · exact convFloat_f32 p eb bits

/-- whatever NumPy's cast yields is a value of the element type -/
theorem castElem_typed (t : DType) (x e : Elem) (ht : t ≠ .string) (h : castElem t x = .ok e) :
    e.hasType t = true := by
  cases t with
  | string => exact absurd rfl ht
  | bool =>
    cases x <;> simp only [castElem] at h <;> first | (cases h; rfl) | cases h
  | float64 =>
    cases x with
    | int v => simp only [castElem] at h; cases h; exact convElem_typed .float64 (.int v)
    | f64 b => simp only [castElem] at h; cases h; exact convElem_typed .float64 (.f64 b)
    | bool b => simp only [castElem] at h; cases h; exact convElem_typed .float64 (.bool b)
    | f32 b => simp only [castElem] at h; cases h
    | text s => simp only [castElem] at h; cases h
  | float32 =>
    cases x with
    | int v =>
      simp only [castElem] at h; cases h
      simp only [Elem.hasType, beq_self_eq_true, Bool.true_and, decide_eq_true_eq]
      exact castFloat_f32 _ _ _
    | f64 b =>
      simp only [castElem] at h; cases h
      simp only [Elem.hasType, beq_self_eq_true, Bool.true_and, decide_eq_true_eq]
      exact castFloat_f32 _ _ _
    | bool b => simp only [castElem] at h; cases h; exact convElem_typed .float32 (.bool b)
    | f32 b => simp only [castElem] at h; cases h
    | text s => simp only [castElem] at h; cases h
  | uint8 | uint16 | uint32 | uint64 | int8 | int16 | int32 | int64 =>
    cases x with
    | int v =>
      simp only [castElem, DType.intRange] at h
      obtain ⟨rfl, h1, h2⟩ := castInt_ok h
      simp [Elem.hasType, DType.intRange, h1, h2]
    | bool b =>
      simp only [castElem, DType.intRange] at h
      obtain ⟨rfl, h1, h2⟩ := castInt_ok h
      simp [Elem.hasType, DType.intRange, h1, h2]
    | f64 b =>
      simp only [castElem, DType.intRange] at h
      cases hp : pyIntOfFloat b with
      | error e' => simp [hp, Except.bind] at h
      | ok w =>
        simp only [hp, Except.bind] at h
        obtain ⟨rfl, h1, h2⟩ := castInt_ok h
        simp [Elem.hasType, DType.intRange, h1, h2]
    | f32 b => simp only [castElem, DType.intRange] at h; cases h
    | text s => simp only [castElem, DType.intRange] at h; cases h

/-- a Python object that is a value of the element type is cast to itself -/
theorem castElem_exact (t : DType) (x : Elem) (h : x.hasType t = true) (hf : t ≠ .float32) :
    castElem t x = .ok x := by
  cases x with
  | int v =>
    cases t <;> simp only [Elem.hasType, DType.intRange, Bool.and_eq_true, decide_eq_true_eq] at h <;>
      first
      | (simp only [castElem, DType.intRange, castInt]; rw [if_pos h])
      | cases h
  | f32 b =>
    cases t <;> simp [Elem.hasType] at h
    exact absurd rfl hf
  | f64 b =>
    cases t <;> simp [Elem.hasType] at h
    simp [castElem, h]
  | bool b =>
    cases t <;> simp [Elem.hasType] at h
    rfl
  | text s =>
    cases t <;> simp [Elem.hasType] at h
    rfl

theorem firstError_none {l : List (Except IoErr Elem)} (h : firstError l = none) :
    ∀ r ∈ l, ∃ e, r = .ok e := by
  induction l with
  | nil => intro r hr; cases hr
  | cons a rest ih =>
    cases a with
    | error e => simp [firstError] at h
    | ok e =>
      simp only [firstError] at h
      intro r hr
      rcases List.mem_cons.mp hr with rfl | hr
      · exact ⟨e, rfl⟩
      · exact ih h r hr

theorem firstError_some {l : List (Except IoErr Elem)} {e : IoErr} (h : firstError l = some e) :
    .error e ∈ l := by
  induction l with
  | nil => cases h
  | cons a rest ih =>
    cases a with
    | error e' => simp only [firstError, Option.some.injEq] at h; subst h; exact List.mem_cons_self
    | ok e' => simp only [firstError] at h; exact List.mem_cons_of_mem _ (ih h)

/-- h5py's cast of a sequence that raised nothing: an array of the dataset's element type, of the sequence's
shape, holding the cast of every element -/
theorem castSeq_ok {t : DType} {d d' : Arr} (ht : t ≠ .string) (h : castSeq t d = some (.ok d')) :
    d'.dt = t ∧ d'.a.shape = d.a.shape ∧
      ∀ idx ∈ indices d.a.shape, castElem t (d.a.get idx) = .ok (d'.a.get idx) := by
  unfold castSeq at h
  rw [if_neg ht] at h
  split at h
  · cases h
  · cases hf : firstError (d.a.toList.map (castElem t)) with
    | some e => simp [hf] at h
    | none =>
      simp only [hf, Option.some.injEq, Except.ok.injEq] at h
      subst h
      refine ⟨rfl, rfl, fun idx hidx => ?_⟩
      have hm : castElem t (d.a.get idx) ∈ d.a.toList.map (castElem t) :=
        List.mem_map.mpr ⟨d.a.get idx, List.mem_map.mpr ⟨idx, hidx, rfl⟩, rfl⟩
      obtain ⟨e, he⟩ := firstError_none hf _ hm
      simp [NdArray.get, he]

/-- a cast that raised: the exception of an element (the first in C order), and nothing was written -/
theorem castSeq_error {t : DType} {d : Arr} {e : IoErr} (h : castSeq t d = some (.error e)) :
    ∃ idx ∈ indices d.a.shape, castElem t (d.a.get idx) = .error e := by
  unfold castSeq at h
  split at h
  · cases h
  · split at h
    · cases h
    · cases hf : firstError (d.a.toList.map (castElem t)) with
      | none => simp [hf] at h
      | some e' =>
        simp only [hf, Option.some.injEq, Except.error.injEq] at h
        subst h
        have := firstError_some hf
        obtain ⟨x, hx, hxe⟩ := List.mem_map.mp this
        obtain ⟨idx, hidx, rfl⟩ := List.mem_map.mp hx
        exact ⟨idx, hidx, hxe⟩

/-- a sequence of values of the array's own element type is written as the array of these values -/
theorem castSeq_exact {t : DType} {d : Arr} (hdt : d.dt = t) (hf : t ≠ .float32) (hs : t ≠ .string)
    (hty : ∀ idx ∈ indices d.a.shape, (d.a.get idx).hasType t = true) :
    ∃ d', castSeq t d = some (.ok d') ∧ d'.dt = t ∧ d'.a.shape = d.a.shape ∧
      ∀ idx ∈ indices d.a.shape, d'.a.get idx = d.a.get idx := by
  have hall : ∀ r ∈ d.a.toList.map (castElem t), ∃ e, r = .ok e := by
    intro r hr
    obtain ⟨x, hx, rfl⟩ := List.mem_map.mp hr
    obtain ⟨idx, hidx, rfl⟩ := List.mem_map.mp hx
    exact ⟨_, castElem_exact t _ (hty idx hidx) hf⟩
  have hfe : firstError (d.a.toList.map (castElem t)) = none := by
    cases hfe : firstError (d.a.toList.map (castElem t)) with
    | none => rfl
    | some e =>
      obtain ⟨e', he'⟩ := hall _ (firstError_some hfe)
      cases he'
  refine ⟨⟨t, ⟨d.a.shape, fun idx => match castElem t (d.a.get idx) with
      | .ok e => e
      | .error _ => t.fill⟩⟩, ?_, rfl, rfl, fun idx hidx => ?_⟩
  · unfold castSeq
    rw [if_neg hs, if_neg (by rw [hdt]; exact fun h => h.elim hs hf), hfe]
    rfl
  · simp [NdArray.get, castElem_exact t _ (hty idx hidx) hf]

theorem writeSeq_ok {A B : DArr} {d : Arr} {ix : IndexArg} (h : writeSeq A d ix = some (.ok B)) :
    ∃ d', castSeq A.dtype d = some (.ok d') ∧ writeData A d' ix = .ok B := by
  unfold writeSeq at h
  split at h
  · cases h
  · cases hc : castSeq A.dtype d with
    | none => simp [hc] at h
    | some r =>
      cases r with
      | error e => simp [hc, Except.bind] at h
      | ok d' =>
        simp only [hc, Option.map_some, Option.some.injEq, Except.bind] at h
        exact ⟨d', rfl, h⟩

/-- a sequence step that raised leaves the array as it was -/
theorem stepSeq_exc (A B : DArr) (s : TStep) (e : IoErr) (h : stepSeq A s = some (B, some e)) :
    EqArr B.arr A.arr ∧ B.dtype = A.dtype ∧ B.compressed = A.compressed := by
  have key : ∀ r : Except IoErr DArr, runOf A r = (B, some e) → B = A := by
    intro r hr
    cases r with
    | ok C => simp [runOf] at hr
    | error e' => simp only [runOf, Prod.mk.injEq] at hr; exact hr.1.symm
  cases s with
  | write d =>
    simp only [stepSeq, Option.map_eq_some_iff] at h
    obtain ⟨r, _, hr⟩ := h
    rw [key r hr]; exact ⟨EqArr.refl _, rfl, rfl⟩
  | assign ix d =>
    simp only [stepSeq, Option.map_eq_some_iff] at h
    obtain ⟨r, _, hr⟩ := h
    rw [key r hr]; exact ⟨EqArr.refl _, rfl, rfl⟩
  | append d axis =>
    simp only [stepSeq, Option.some.injEq] at h
    have := stepS_exc A (.append d axis) e (by rw [h])
    rw [h] at this; exact this
  | resize ext =>
    simp only [stepSeq, Option.some.injEq] at h
    have := stepS_exc A (.resize ext) e (by rw [h])
    rw [h] at this; exact this
  | reopen =>
    simp only [stepSeq, Option.some.injEq] at h
    have := stepS_exc A .reopen e (by rw [h])
    rw [h] at this; exact this

/-- a sequence step that raised nothing is the array step with the cast values -/
theorem stepSeq_performed (A B : DArr) (ix : IndexArg) (d : Arr) (h : stepSeq A (.assign ix d) = some (B, none)) :
    ∃ d', castSeq A.dtype d = some (.ok d') ∧ stepS A (.assign ix d') = (B, none) := by
  simp only [stepSeq, Option.map_eq_some_iff] at h
  obtain ⟨r, hw, hr⟩ := h
  cases r with
  | error e => simp [runOf] at hr
  | ok C =>
    simp only [runOf, Prod.mk.injEq, and_true] at hr
    subst hr
    obtain ⟨d', hc, hwd⟩ := writeSeq_ok hw
    exact ⟨d', hc, by simp [stepS, hwd, runOf]⟩

theorem writeSeq_as_array (A : DArr) (d : Arr) (ix : IndexArg) :
    (writeSeq A d ix).map (fun x => (runOf A x).1) = (seqAsArray A d ix).map (fun s' => (stepS A s').1) := by
  unfold writeSeq seqAsArray
  split
  · rfl
  · cases hc : castSeq A.dtype d with
    | none => rfl
    | some r =>
      cases r with
      | error e => rfl
      | ok d' => rfl

/-- one sequence step is an array step: the assignment of the cast values, or nothing when it was refused before
the write -/
theorem stepSeq_as_array (A : DArr) (s : TStep) :
    (stepSeq A s).map (fun p => p.1) = (arrayStepOf A s).map (fun s' => (stepS A s').1) := by
  cases s with
  | write d =>
    simp only [stepSeq, arrayStepOf, Option.map_map]
    exact writeSeq_as_array A d .none
  | assign ix d =>
    simp only [stepSeq, arrayStepOf, Option.map_map]
    exact writeSeq_as_array A d ix
  | append d axis => rfl
  | resize e => rfl
  | reopen => rfl

/-- every history with sequence sources is the history with array sources `toArrays` computes -/
theorem runMixed_eq : ∀ (l : List (TStep × Bool)) (A : DArr), runMixed A l = (toArrays A l).map (runS A)
  | [], A => rfl
  | (s, seq) :: rest, A => by
    cases seq with
    | false =>
      simp only [runMixed, toArrays, Bool.false_eq_true, if_false]
      rw [runMixed_eq rest (stepS A s).1]
      cases toArrays (stepS A s).1 rest <;> rfl
    | true =>
      have h := stepSeq_as_array A s
      simp only [runMixed, toArrays, if_true]
      cases hs : stepSeq A s with
      | none =>
        rw [hs] at h
        cases ha : arrayStepOf A s with
        | none => rfl
        | some s' => rw [ha] at h; cases h
      | some p =>
        rw [hs] at h
        cases ha : arrayStepOf A s with
        | none => rw [ha] at h; cases h
        | some s' =>
          rw [ha] at h
          simp only [Option.map_some, Option.some.injEq] at h
          obtain ⟨C, r⟩ := p
          simp only at h
          subst h
          simp only []
          rw [runMixed_eq rest (stepS A s').1]
          cases toArrays (stepS A s').1 rest <;> rfl

/-- no typed step changes the element type or the filter flag (no hypothesis on the index arguments) -/
theorem runS_meta : ∀ (steps : List TStep) (A : DArr),
    (runS A steps).dtype = A.dtype ∧ (runS A steps).compressed = A.compressed
  | [], _ => ⟨rfl, rfl⟩
  | s :: rest, A => by
    have h1 := stepS_meta A s
    have h2 := runS_meta rest (stepS A s).1
    exact ⟨by simp only [runS]; rw [h2.1, h1.1], by simp only [runS]; rw [h2.2, h1.2]⟩

theorem toArrays_length : ∀ (l : List (TStep × Bool)) (A : DArr) (l' : List TStep), toArrays A l = some l' →
    l'.length = l.length
  | [], A, l', h => by simp only [toArrays, Option.some.injEq] at h; subst h; rfl
  | (s, seq) :: rest, A, l', h => by
    simp only [toArrays] at h
    cases hs : (if seq = true then arrayStepOf A s else some s) with
    | none => simp [hs] at h
    | some s' =>
      simp only [hs, Option.map_eq_some_iff] at h
      obtain ⟨t, ht, rfl⟩ := h
      simp [toArrays_length rest _ t ht]

end Nix.Nd.Lemmas
