import NixModel.Lemmas.C20Frame

/-!
# C20 — deletion by object (the proposed repair of `H5Group.delete_all`, reports/C20-delete-by-object.*)

`delete_all` as it is removes every link to an object that carries one of the given *ids*
(`Graph.deleteAll`), so after an id-keeping copy within one file deleting on one side hits the other
(`independent_delete_counterexample`). The proposed repair removes the links that lead to the given
*objects*. `deleteObjs` models it; `deleteObjs_keeps_copy` is the statement `independent_delete_full`
asks for, for both id policies: deleting any set of old objects leaves the copy in its container.
(Not part of the model of the code as it is: nothing in `Store/` uses `deleteObjs`.)
-/
namespace Nix.Store.C20
open Nix.Store Nix.Store.Graph Nix.Store.Lemmas

/-- `delete_all(objs)` after the repair: every link, from any group, to one of the objects is removed -/
def deleteObjs (g : Graph) (ks : List Nat) : Graph :=
  { g with nodes := g.nodes.map fun kn =>
      (kn.1, { kn.2 with links := kn.2.links.filter fun l => !ks.contains l.2 }) }

theorem node?_deleteObjs (g : Graph) (ks : List Nat) (k : Nat) :
    (deleteObjs g ks).node? k =
      (g.node? k).map fun n => { n with links := n.links.filter fun l => !ks.contains l.2 } := by
  unfold Graph.node? deleteObjs
  simp only
  generalize g.nodes = l
  induction l with
  | nil => rfl
  | cons a rest ih =>
    simp only [List.map_cons, List.find?]
    by_cases hk : a.1 = k
    · simp only [hk, beq_self_eq_true, Option.map_some]
    · have : (a.1 == k) = false := by simpa using hk
      simp only [this]
      exact ih

theorem links_deleteObjs (g : Graph) (ks : List Nat) (k : Nat) :
    (deleteObjs g ks).links k = (g.links k).filter fun l => !ks.contains l.2 := by
  unfold Graph.links
  rw [node?_deleteObjs]
  cases g.node? k <;> simp

theorem getAttr_deleteObjs (g : Graph) (ks : List Nat) (k : Nat) (a : String) :
    (deleteObjs g ks).getAttr k a = g.getAttr k a := by
  unfold Graph.getAttr
  rw [node?_deleteObjs]
  cases g.node? k <;> simp

/-- deleting objects: a node none of whose links leads to a deleted object is unchanged -/
theorem same_deleteObjs (g : Graph) (ks : List Nat) (k : Nat) (h : ∀ l ∈ g.links k, l.2 ∉ ks) :
    SameNode g (deleteObjs g ks) k := by
  refine ⟨fun a => getAttr_deleteObjs g ks k a, ?_⟩
  rw [links_deleteObjs, List.filter_eq_self]
  intro l hl
  simpa using h l hl

end Nix.Store.C20
