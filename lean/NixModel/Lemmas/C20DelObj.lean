import NixModel.Lemmas.C20HistDel

/-!
# C20 — deletion by object: what it leaves alone

`H5Group.delete_all` takes the HDF5 objects to unlink (since the repair `fix: deleting an entity also
deleted every same-id copy file-wide`; before it, it took ids and removed every link to *any* object
carrying one of them, so after an id-keeping copy within one file deleting on one side hit the other —
`Props/C20.independent_delete_counterexample_before_fix` about the old function `Graph.deleteAll`).
The model's primitive is `Graph.deleteObjs` (`Store/Graph.lean`; basic lemmas `node?_` / `links_` /
`getAttr_deleteObjs` in `Lemmas/StoreWFBasic.lean`), used by `contDel` and `dropAuto`.

Here: a node none of whose links leads to a deleted object is exactly as it was (`same_deleteObjs`),
and its form for the three shapes of key lists `contDel` hands to `deleteObjs`
(`contDelKeys`, `contDel_eq`). `Props/C20.independent_delete_full` /
`independent_delete_old_side` / `independent_delete_new_side` are stated with them.
-/
namespace Nix.Store.C20
open Nix.Store Nix.Store.Graph Nix.Store.Lemmas

/-- deleting objects: a node none of whose links leads to a deleted object is unchanged -/
theorem same_deleteObjs (g : Graph) (ks : List Nat) (k : Nat) (h : ∀ l ∈ g.links k, l.2 ∉ ks) :
    SameNode g (g.deleteObjs ks) k := by
  refine ⟨fun a => getAttr_deleteObjs g ks k a, ?_⟩
  rw [links_deleteObjs, List.filter_eq_self]
  intro l hl
  unfold keepObj
  simpa using h l hl

/-- a link survives the deletion exactly when its target is not among the deleted objects -/
theorem mem_links_deleteObjs (g : Graph) (ks : List Nat) (k : Nat) (l : String × Nat) :
    l ∈ (g.deleteObjs ks).links k ↔ l ∈ g.links k ∧ l.2 ∉ ks := by
  rw [links_deleteObjs, List.mem_filter]
  unfold keepObj
  simp

/-- the objects `Container.__delitem__` hands to `delete_all` for the entity `k`, by container flavour:
the entity itself (`Container`, `FeatureContainer`), the section subtree (`SectionContainer`:
`item.find_sections()`, the item included), the source subtree and the item (`SourceContainer`) -/
def contDelKeys (g : Graph) (fl : CFlavour) (k : Nat) : List Nat :=
  match fl with
  | .plain | .features => [k]
  | .sections => subtreeKeys g "sections" k
  | .sources => subtreeKeys g "sources" k ++ [k]
  | .link | .sourceLink => []

/-- `del container[key]` through an owning container (not a link list), whenever the call is accepted, is
`deleteObjs` of `contDelKeys` of the item the key denotes: the entity handed in, or the target of an
entry of the container group -/
theorem contDel_eq {g g' : Graph} {c : Cont} {key : Key}
    (hfl : c.info.flavour ≠ .link ∧ c.info.flavour ≠ .sourceLink)
    (hop : contDel g c key = .ok g') :
    ∃ k, (key = .ent k ∨ ∃ l ∈ cLinks g c.node, l.2 = k) ∧ kindOf g k = c.info.item ∧
      g' = g.deleteObjs (contDelKeys g c.info.flavour k) := by
  unfold contDel at hop
  simp only at hop
  split at hop
  · cases hop
  · rename_i k hk
    have hitem : key = .ent k ∨ ∃ l ∈ cLinks g c.node, l.2 = k := by
      cases key with
      | ent k' => simp only [Except.ok.injEq] at hk; exact .inl (by rw [hk])
      | pos i =>
        simp only at hk
        cases hget : contGet g c (.pos i) with
        | error e => rw [hget] at hk; cases hk
        | ok l =>
          rw [hget] at hk
          simp only [Except.map, Except.ok.injEq] at hk
          exact .inr ⟨l, contGet_mem hget, hk⟩
      | str x =>
        simp only at hk
        cases hget : contGet g c (.str x) with
        | error e => rw [hget] at hk; cases hk
        | ok l =>
          rw [hget] at hk
          simp only [Except.map, Except.ok.injEq] at hk
          exact .inr ⟨l, contGet_mem hget, hk⟩
    split at hop
    · cases hop
    · rename_i hkind
      have hkind' : kindOf g k = c.info.item := by simpa using hkind
      refine ⟨k, hitem, hkind', ?_⟩
      cases hfl' : c.info.flavour
      all_goals (rw [hfl'] at hop; simp only at hop)
      all_goals first
        | (cases hop; rfl)
        | exact absurd hfl' hfl.1
        | exact absurd hfl' hfl.2

end Nix.Store.C20
