import NixModel.Pure.NdArray

/-! Helper lemmas for C01: index arithmetic of `DataSet.append` (offset / enlarge / hyperslab) and of the
h5py selection + broadcasting stand-in. -/
namespace Nix.Nd.Lemmas
open Nix Nix.Nd

/-! ### basic facts -/

theorem inBounds_length : ∀ (idx s : List Nat), inBounds idx s = true → idx.length = s.length
  | [], [], _ => rfl
  | [], _ :: _, h => by simp [inBounds] at h
  | _ :: _, [], h => by simp [inBounds] at h
  | i :: is, n :: ns, h => by
    simp only [inBounds, Bool.and_eq_true, decide_eq_true_eq] at h
    simp [inBounds_length is ns h.2]

theorem inBounds_snoc : ∀ (a s : List Nat) (i n : Nat),
    inBounds (a ++ [i]) (s ++ [n]) = (inBounds a s && decide (i < n))
  | [], [], i, n => by simp [inBounds]
  | [], m :: ms, i, n => by
    cases ms <;> simp [inBounds]
  | j :: js, [], i, n => by
    cases js <;> simp [inBounds]
  | j :: js, m :: ms, i, n => by
    simp [inBounds, inBounds_snoc js ms i n, Bool.and_assoc]

theorem inBounds_reverse : ∀ (idx s : List Nat), inBounds idx s = true → inBounds idx.reverse s.reverse = true
  | [], [], _ => by simp [inBounds]
  | [], _ :: _, h => by simp [inBounds] at h
  | _ :: _, [], h => by simp [inBounds] at h
  | i :: is, n :: ns, h => by
    simp only [inBounds, Bool.and_eq_true, decide_eq_true_eq] at h
    simp [inBounds_snoc, inBounds_reverse is ns h.2, h.1]

theorem map_toNat_ofNat (l : List Nat) : (l.map Int.ofNat).map Int.toNat = l := by
  induction l with
  | nil => rfl
  | cons x xs ih => simp [ih]

theorem allNonneg_ofNat (l : List Nat) : allNonneg (l.map Int.ofNat) = true := by
  induction l with
  | nil => rfl
  | cons x xs ih => simp [allNonneg, ih]

/-! ### unit-step selections -/

/-- the hyperslab `start = o_i, step = 1, count = c_i` on every axis -/
def mkSel : List Nat → List Nat → List AxisSel
  | o :: os, c :: cs => ⟨o, 1, c, false⟩ :: mkSel os cs
  | _, _ => []

theorem hit_unit (o c i : Nat) :
    (AxisSel.hit ⟨o, 1, c, false⟩ i) = if o ≤ i ∧ i - o < c then some (i - o) else none := by
  simp [AxisSel.hit, Nat.mod_one]

theorem mkSel_counts : ∀ (o c : List Nat), o.length = c.length → (mkSel o c).map (·.count) = c
  | [], [], _ => rfl
  | [], _ :: _, h => by simp at h
  | _ :: _, [], h => by simp at h
  | o :: os, c :: cs, h => by
    simp only [List.length_cons, Nat.add_right_cancel_iff] at h
    simp [mkSel, mkSel_counts os cs h]

theorem mkSel_nonscalar : ∀ (o c : List Nat) (s : AxisSel), s ∈ mkSel o c → s.scalar = false
  | [], _, s, h => by simp [mkSel] at h
  | _ :: _, [], s, h => by simp [mkSel] at h
  | o :: os, c :: cs, s, h => by
    simp only [mkSel, List.mem_cons] at h
    rcases h with h | h
    · simp [h]
    · exact mkSel_nonscalar os cs s h

/-- offsets and counts fit into the extents -/
def Fits : List Nat → List Nat → List Nat → Prop
  | [], [], [] => True
  | e :: es, o :: os, c :: cs => o + c ≤ e ∧ Fits es os cs
  | _, _, _ => False

theorem selectAxis_slice (e o c : Nat) (h : o + c ≤ e) :
    selectAxis e (Ix.slice (some (o : Int)) (some ((c : Int) + (o : Int))) none) = .ok ⟨o, 1, c, false⟩ := by
  have hlo : adjustBound e 0 (some (o : Int)) = o := by
    unfold adjustBound
    have h1 : ¬ ((o : Int) < 0) := by omega
    simp only [h1, if_false]
    split
    · omega
    · simp
  have hhi : adjustBound e e (some ((c : Int) + (o : Int))) = o + c := by
    unfold adjustBound
    have h1 : ¬ ((c : Int) + (o : Int) < 0) := by omega
    simp only [h1, if_false]
    split
    · omega
    · omega
  simp only [selectAxis, sliceStep, hlo, hhi]
  have h2 : ¬ ((1 : Int) < 1) := by omega
  rw [if_neg h2]
  have h3 : ¬ (o + c < o) := by omega
  rw [if_neg h3]
  by_cases hc : c = 0
  · subst hc
    simp
  · have : ¬ (o + c = o) := by omega
    rw [if_neg this]
    congr 1
    simp
    omega

theorem select_appendSlices : ∀ (e o c : List Nat), Fits e o c →
    select e (appendSlices o c) = .ok (mkSel o c)
  | [], [], [], _ => rfl
  | e :: es, o :: os, c :: cs, h => by
    simp only [Fits] at h
    simp only [appendSlices, select, selectAxis_slice e o c h.1, select_appendSlices es os cs h.2, mkSel]
  | [], [], _ :: _, h => by simp [Fits] at h
  | [], _ :: _, _, h => by simp [Fits] at h
  | _ :: _, [], _, h => by simp [Fits] at h
  | _ :: _, _ :: _, [], h => by simp [Fits] at h

/-! ### broadcasting of a source whose shape equals the selection counts -/

theorem bcastOkRev_exact : ∀ (sel : List AxisSel) (ds : List Nat),
    sel.map (·.count) = ds → (∀ s ∈ sel, s.scalar = false) → bcastOkRev sel ds = true
  | [], ds, h, _ => by
    simp at h
    subst h
    simp [bcastOkRev]
  | s :: ss, [], h, _ => by simp at h
  | s :: ss, t :: ts, h, hs => by
    simp only [List.map_cons, List.cons.injEq] at h
    have h1 : s.scalar = false := hs s (by simp)
    simp only [bcastOkRev, h1]
    simp [h.1, bcastOkRev_exact ss ts h.2 (fun x hx => hs x (by simp [hx]))]

theorem bcastIdxRev_exact : ∀ (sel : List AxisSel) (rel ds : List Nat),
    sel.map (·.count) = ds → (∀ s ∈ sel, s.scalar = false) → inBounds rel ds = true →
    bcastIdxRev sel rel ds = rel
  | [], rel, ds, h, _, hb => by
    simp at h
    subst h
    cases rel with
    | nil => simp [bcastIdxRev]
    | cons r rs => simp [inBounds] at hb
  | s :: ss, [], t :: ts, _, _, hb => by simp [inBounds] at hb
  | s :: ss, _, [], h, _, _ => by simp at h
  | s :: ss, r :: rs, t :: ts, h, hs, hb => by
    simp only [List.map_cons, List.cons.injEq] at h
    simp only [inBounds, Bool.and_eq_true, decide_eq_true_eq] at hb
    have h1 : s.scalar = false := hs s (by simp)
    simp only [bcastIdxRev, h1]
    have ih := bcastIdxRev_exact ss rs ts h.2 (fun x hx => hs x (by simp [hx])) hb.2
    by_cases ht : t = 1
    · have : r = 0 := by omega
      simp [ht, this, ih]
    · simp [ht, ih]

theorem bcastOk_exact (sel : List AxisSel) (ds : List Nat)
    (h : sel.map (·.count) = ds) (hs : ∀ s ∈ sel, s.scalar = false) : bcastOk sel ds = true := by
  unfold bcastOk
  apply bcastOkRev_exact
  · rw [List.map_reverse, h]
  · intro s hm
    exact hs s (List.mem_reverse.mp hm)

theorem bcastIdx_exact (sel : List AxisSel) (rel ds : List Nat)
    (h : sel.map (·.count) = ds) (hs : ∀ s ∈ sel, s.scalar = false) (hb : inBounds rel ds = true) :
    bcastIdx sel rel ds = rel := by
  unfold bcastIdx
  rw [bcastIdxRev_exact sel.reverse rel.reverse ds.reverse]
  · simp
  · rw [List.map_reverse, h]
  · intro s hm
    exact hs s (List.mem_reverse.mp hm)
  · exact inBounds_reverse rel ds hb

/-! ### the lists computed by `append`, for an axis that names no later dimension (`rel < 0`) -/

theorem appendOffset_neg : ∀ (rel : Int) (s : List Nat), rel < 0 → appendOffset rel s = s.map fun _ => 0
  | _, [], _ => rfl
  | rel, x :: xs, h => by
    have h1 : rel ≠ 0 := by omega
    simp only [appendOffset, h1, ne_eq, not_false_eq_true, if_true, List.map_cons]
    rw [appendOffset_neg (rel - 1) xs (by omega)]

theorem appendEnlarge_neg : ∀ (rel : Int) (s d : List Nat), rel < 0 → s.length = d.length →
    appendEnlarge rel s d = s
  | _, [], _, _, _ => by simp [appendEnlarge]
  | _, _ :: _, [], _, h => by simp at h
  | rel, x :: xs, y :: ys, h, hl => by
    have h1 : rel ≠ 0 := by omega
    simp only [List.length_cons, Nat.add_right_cancel_iff] at hl
    simp only [appendEnlarge, h1, ne_eq, not_false_eq_true, if_true, Nat.add_zero]
    rw [appendEnlarge_neg (rel - 1) xs ys (by omega) hl]

theorem shapeMismatch_neg : ∀ (rel : Int) (s d : List Nat), rel < 0 → s.length = d.length →
    shapeMismatch rel s d = false → s = d
  | _, [], [], _, _, _ => rfl
  | _, [], _ :: _, _, h, _ => by simp at h
  | _, _ :: _, [], _, h, _ => by simp at h
  | rel, x :: xs, y :: ys, h, hl, hm => by
    have h1 : rel ≠ 0 := by omega
    simp only [List.length_cons, Nat.add_right_cancel_iff] at hl
    simp only [shapeMismatch, h1, ne_eq, not_false_eq_true, decide_true, Bool.true_and, Bool.or_eq_false_iff,
      decide_eq_false_iff_not, Decidable.not_not] at hm
    rw [hm.1, shapeMismatch_neg (rel - 1) xs ys (by omega) hl hm.2]

theorem relIdx_full : ∀ (s idx : List Nat), inBounds idx s = true →
    relIdx (mkSel (s.map fun _ => 0) s) idx = some idx
  | [], [], _ => rfl
  | [], _ :: _, h => by simp [inBounds] at h
  | _ :: _, [], h => by simp [inBounds] at h
  | n :: ns, i :: is, h => by
    simp only [inBounds, Bool.and_eq_true, decide_eq_true_eq] at h
    simp only [List.map_cons, mkSel, relIdx, hit_unit, relIdx_full ns is h.2]
    simp [h.1]

theorem fits_full : ∀ (s : List Nat), Fits s (s.map fun _ => 0) s
  | [] => trivial
  | n :: ns => by simp [Fits, fits_full ns]

/-! ### the lists computed by `append`, for a valid axis `k` -/

theorem length_appendOffset : ∀ (rel : Int) (s : List Nat), (appendOffset rel s).length = s.length
  | _, [] => rfl
  | rel, x :: xs => by simp [appendOffset, length_appendOffset (rel - 1) xs]

theorem appendEnlarge_eq_set : ∀ (k : Nat) (s d : List Nat), s.length = d.length → k < s.length →
    appendEnlarge (k : Int) s d = s.set k (s.getD k 0 + d.getD k 0)
  | _, [], _, _, hk => by simp at hk
  | _, _ :: _, [], h, _ => by simp at h
  | 0, x :: xs, y :: ys, hl, _ => by
    simp only [List.length_cons, Nat.add_right_cancel_iff] at hl
    have : (-1 : Int) < 0 := by omega
    simp [appendEnlarge, appendEnlarge_neg (-1) xs ys this hl]
  | k + 1, x :: xs, y :: ys, hl, hk => by
    simp only [List.length_cons, Nat.add_right_cancel_iff] at hl
    simp only [List.length_cons, Nat.add_lt_add_iff_right] at hk
    have h1 : ((k + 1 : Nat) : Int) ≠ 0 := by omega
    have h2 : ((k + 1 : Nat) : Int) - 1 = (k : Int) := by omega
    simp only [appendEnlarge, h1, ne_eq, not_false_eq_true, if_true, Nat.add_zero, h2]
    rw [appendEnlarge_eq_set k xs ys hl hk]
    simp

theorem fits_append : ∀ (k : Nat) (s d : List Nat), s.length = d.length → k < s.length →
    shapeMismatch (k : Int) s d = false →
    Fits (appendEnlarge (k : Int) s d) (appendOffset (k : Int) s) d
  | _, [], _, _, hk, _ => by simp at hk
  | _, _ :: _, [], h, _, _ => by simp at h
  | 0, x :: xs, y :: ys, hl, _, hm => by
    simp only [List.length_cons, Nat.add_right_cancel_iff] at hl
    have hneg : ((0 : Nat) : Int) - 1 < 0 := by omega
    simp only [shapeMismatch, Int.natCast_zero, ne_eq, not_true_eq_false, decide_false, Bool.false_and,
      Bool.false_or] at hm
    have hm' : shapeMismatch (((0 : Nat) : Int) - 1) xs ys = false := by simpa using hm
    have heq := shapeMismatch_neg _ xs ys hneg hl hm'
    subst heq
    simp only [appendEnlarge, appendOffset, Int.natCast_zero, ne_eq, not_true_eq_false, if_false, Fits]
    have hneg' : (0 : Int) - 1 < 0 := by omega
    rw [appendEnlarge_neg _ xs xs hneg' rfl, appendOffset_neg _ xs hneg']
    exact ⟨Nat.le_refl _, fits_full xs⟩
  | k + 1, x :: xs, y :: ys, hl, hk, hm => by
    simp only [List.length_cons, Nat.add_right_cancel_iff] at hl
    simp only [List.length_cons, Nat.add_lt_add_iff_right] at hk
    have h1 : ((k + 1 : Nat) : Int) ≠ 0 := by omega
    have h2 : ((k + 1 : Nat) : Int) - 1 = (k : Int) := by omega
    simp only [shapeMismatch, h1, ne_eq, not_false_eq_true, decide_true, Bool.true_and, Bool.or_eq_false_iff,
      decide_eq_false_iff_not, Decidable.not_not, h2] at hm
    simp only [appendEnlarge, appendOffset, h1, ne_eq, not_false_eq_true, if_true, Nat.add_zero, h2, Fits]
    refine ⟨by omega, fits_append k xs ys hl hk hm.2⟩

/-- where an in-bounds index of the enlarged array lands: before the old extent along the axis it is an old
element, otherwise it is selected by the hyperslab and its relative coordinates are the index shifted back -/
theorem relIdx_append : ∀ (k : Nat) (s d idx : List Nat), s.length = d.length → k < s.length →
    shapeMismatch (k : Int) s d = false → inBounds idx (appendEnlarge (k : Int) s d) = true →
    relIdx (mkSel (appendOffset (k : Int) s) d) idx =
        (if idx.getD k 0 < s.getD k 0 then none else some (idx.set k (idx.getD k 0 - s.getD k 0)))
      ∧ (idx.getD k 0 < s.getD k 0 → inBounds idx s = true)
      ∧ (¬ idx.getD k 0 < s.getD k 0 → inBounds (idx.set k (idx.getD k 0 - s.getD k 0)) d = true)
  | _, [], _, _, _, hk, _, _ => by simp at hk
  | _, _ :: _, [], _, h, _, _, _ => by simp at h
  | _, x :: xs, y :: ys, [], _, _, _, hb => by simp [appendEnlarge, inBounds] at hb
  | 0, x :: xs, y :: ys, i :: is, hl, _, hm, hb => by
    simp only [List.length_cons, Nat.add_right_cancel_iff] at hl
    have hneg : ((0 : Nat) : Int) - 1 < 0 := by omega
    simp only [shapeMismatch, Int.natCast_zero, ne_eq, not_true_eq_false, decide_false, Bool.false_and,
      Bool.false_or] at hm
    have hm' : shapeMismatch (((0 : Nat) : Int) - 1) xs ys = false := by simpa using hm
    have heq := shapeMismatch_neg _ xs ys hneg hl hm'
    subst heq
    have hneg' : (0 : Int) - 1 < 0 := by omega
    simp only [appendEnlarge, Int.natCast_zero, ne_eq, not_true_eq_false, if_false,
      appendEnlarge_neg _ xs xs hneg' rfl, inBounds, Bool.and_eq_true, decide_eq_true_eq] at hb
    simp only [appendOffset, Int.natCast_zero, ne_eq, not_true_eq_false, if_false, appendOffset_neg _ xs hneg',
      mkSel, relIdx, hit_unit, relIdx_full xs is hb.2, List.getD_cons_zero, List.set_cons_zero]
    refine ⟨?_, ?_, ?_⟩
    · by_cases h : i < x
      · have : ¬ (x ≤ i ∧ i - x < y) := by omega
        simp [h, this]
      · have : x ≤ i ∧ i - x < y := by omega
        simp [h, this]
    · intro h
      simp [inBounds, h, hb.2]
    · intro h
      have : i - x < y := by omega
      simp [inBounds, this, hb.2]
  | k + 1, x :: xs, y :: ys, i :: is, hl, hk, hm, hb => by
    simp only [List.length_cons, Nat.add_right_cancel_iff] at hl
    simp only [List.length_cons, Nat.add_lt_add_iff_right] at hk
    have h1 : ((k + 1 : Nat) : Int) ≠ 0 := by omega
    have h2 : ((k + 1 : Nat) : Int) - 1 = (k : Int) := by omega
    simp only [shapeMismatch, h1, ne_eq, not_false_eq_true, decide_true, Bool.true_and, Bool.or_eq_false_iff,
      decide_eq_false_iff_not, Decidable.not_not, h2] at hm
    simp only [appendEnlarge, h1, ne_eq, not_false_eq_true, if_true, Nat.add_zero, h2, inBounds,
      Bool.and_eq_true, decide_eq_true_eq] at hb
    obtain ⟨ih1, ih2, ih3⟩ := relIdx_append k xs ys is hl hk hm.2 hb.2
    have hxy : x = y := hm.1
    subst hxy
    simp only [List.getD_eq_getElem?_getD] at ih1 ih2 ih3 ⊢
    have hhit : (0 ≤ i ∧ i - 0 < x) := by omega
    simp only [appendOffset, h1, ne_eq, not_false_eq_true, if_true, h2, mkSel, relIdx, hit_unit, hhit,
      ih1, List.getElem?_cons_succ, List.set_cons_succ, Nat.sub_zero]
    by_cases h : is[k]?.getD 0 < xs[k]?.getD 0
    · simp [h, inBounds, hb.1, ih2 h]
    · simp [h, inBounds, hb.1, ih3 h]

/-! ### characterisation of the shape test -/

theorem shapeMismatch_false_iff : ∀ (rel : Int) (s d : List Nat), s.length = d.length →
    (shapeMismatch rel s d = false ↔ ∀ j : Nat, (j : Int) ≠ rel → s[j]? = d[j]?)
  | _, [], [], _ => by simp [shapeMismatch]
  | _, [], _ :: _, h => by simp at h
  | _, _ :: _, [], h => by simp at h
  | rel, x :: xs, y :: ys, hl => by
    simp only [List.length_cons, Nat.add_right_cancel_iff] at hl
    have ih := shapeMismatch_false_iff (rel - 1) xs ys hl
    simp only [shapeMismatch, Bool.or_eq_false_iff, Bool.and_eq_false_iff, decide_eq_false_iff_not, ne_eq,
      Decidable.not_not, ih]
    constructor
    · rintro ⟨h0, hrest⟩ j hj
      cases j with
      | zero =>
        rcases h0 with h0 | h0
        · exact absurd h0.symm (by simpa using hj)
        · simp [h0]
      | succ j =>
        simp only [List.getElem?_cons_succ]
        exact hrest j (by omega)
    · intro h
      refine ⟨?_, ?_⟩
      · by_cases h0 : rel = 0
        · exact Or.inl h0
        · right
          have := h 0 (by simpa using fun e => h0 e.symm)
          simpa using this
      · intro j hj
        have := h (j + 1) (by omega)
        simpa using this

end Nix.Nd.Lemmas
