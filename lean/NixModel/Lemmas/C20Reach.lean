import NixModel.Store.Copy
import NixModel.Lemmas.StoreWFBasic

/-!
# C20 — what `reachFrom` (the set of objects an HDF5 object copy duplicates) contains

`reachFrom g a` is computed with fuel. Here: it lists every node reachable from `a` by links
(`reachFrom_complete`), nothing else (`reachFrom_sound`), each once (`reachFrom_nodup`), `a` first
(`reachFrom_head`), and it is closed under links (`reachFrom_closed`) — the fuel of the definition
always suffices (potential argument: every iteration either consumes a work-list entry or moves
the links of one not-yet-seen node onto the work list).
-/
namespace Nix.Store.C20
open Nix.Store Nix.Store.Graph Nix.Store.Lemmas

/-- reachable from `a` by following hard links -/
inductive ReachF (g : Graph) (a : Nat) : Nat → Prop
  | refl : ReachF g a a
  | step {p k : Nat} (name : String) : ReachF g a p → (name, k) ∈ g.links p → ReachF g a k

/-- total number of links held by node entries whose key is not in `seen` -/
def potL : List (Nat × Node) → List Nat → Nat
  | [], _ => 0
  | kn :: rest, seen => (if seen.contains kn.1 then 0 else kn.2.links.length) + potL rest seen

def linksL (ns : List (Nat × Node)) (k : Nat) : List (String × Nat) :=
  match (ns.find? (fun kn => kn.1 == k)).map (·.2) with
  | some n => n.links
  | none => []

theorem links_eq_linksL (g : Graph) (k : Nat) : g.links k = linksL g.nodes k := rfl

theorem potL_mono (ns : List (Nat × Node)) (seen : List Nat) (k : Nat) :
    potL ns (seen ++ [k]) ≤ potL ns seen := by
  induction ns with
  | nil => simp [potL]
  | cons kn rest ih =>
    unfold potL
    by_cases h1 : kn.1 ∈ seen
    · simp [h1]; exact ih
    · by_cases h2 : kn.1 = k
      · simp [h1, h2]; omega
      · simp [h1, h2]; exact ih

theorem potL_step (ns : List (Nat × Node)) (seen : List Nat) (k : Nat) (hk : k ∉ seen) :
    potL ns (seen ++ [k]) + (linksL ns k).length ≤ potL ns seen := by
  induction ns with
  | nil => simp [potL, linksL]
  | cons kn rest ih =>
    by_cases h2 : kn.1 = k
    · have hm := potL_mono rest seen k
      unfold potL linksL
      subst h2
      simp [hk]
      omega
    · unfold potL
      have h2' : (kn.1 == k) = false := by simpa using h2
      have hl : linksL (kn :: rest) k = linksL rest k := by
        unfold linksL
        simp only [List.find?_cons, h2']
      rw [hl]
      by_cases h1 : kn.1 ∈ seen
      · simp [h1]; exact ih
      · simp [h1, h2]; omega

theorem foldl_add_sum {α : Type} (ns : List α) (f : α → Nat) (init : Nat) :
    ns.foldl (fun a x => a + f x) init = init + (ns.map f).sum := by
  induction ns generalizing init with
  | nil => simp
  | cons x xs ih => simp [ih]; omega

theorem potL_nil (ns : List (Nat × Node)) :
    potL ns [] = ns.foldl (fun a kn => a + kn.2.links.length) 0 := by
  rw [foldl_add_sum]
  induction ns with
  | nil => simp [potL]
  | cons kn rest ih => simp [potL, ih]

/-- the work-list invariant: what was seen is duplicate-free and its links lead to seen or pending nodes -/
structure Inv (g : Graph) (todo seen : List Nat) : Prop where
  nodup : seen.Nodup
  closed : ∀ k ∈ seen, ∀ l ∈ g.links k, l.2 ∈ seen ∨ l.2 ∈ todo

theorem reachAux_spec (g : Graph) (fuel : Nat) (todo seen : List Nat)
    (hinv : Inv g todo seen) (hfuel : todo.length + potL g.nodes seen ≤ fuel) :
    (reachAux g fuel todo seen).Nodup ∧
    (∀ k ∈ reachAux g fuel todo seen, ∀ l ∈ g.links k, l.2 ∈ reachAux g fuel todo seen) ∧
    (∀ k ∈ seen, k ∈ reachAux g fuel todo seen) ∧ (∀ k ∈ todo, k ∈ reachAux g fuel todo seen) := by
  induction fuel generalizing todo seen with
  | zero =>
    have ht : todo = [] := by
      cases todo with
      | nil => rfl
      | cons _ _ => simp at hfuel
    subst ht
    unfold reachAux
    refine ⟨hinv.nodup, ?_, fun k h => h, by simp⟩
    intro k hk l hl
    rcases hinv.closed k hk l hl with h | h
    · exact h
    · cases h
  | succ fuel ih =>
    cases todo with
    | nil =>
      unfold reachAux
      refine ⟨hinv.nodup, ?_, fun k h => h, by simp⟩
      intro k hk l hl
      rcases hinv.closed k hk l hl with h | h
      · exact h
      · cases h
    | cons k t =>
      unfold reachAux
      by_cases hs : seen.contains k = true
      · simp only [hs, ↓reduceIte]
        have hks : k ∈ seen := by simpa using hs
        have hinv' : Inv g t seen := by
          refine ⟨hinv.nodup, ?_⟩
          intro k' hk' l hl
          rcases hinv.closed k' hk' l hl with h | h
          · exact .inl h
          · rcases List.mem_cons.mp h with h | h
            · exact .inl (h ▸ hks)
            · exact .inr h
        have hf' : t.length + potL g.nodes seen ≤ fuel := by simp at hfuel; omega
        obtain ⟨h1, h2, h3, h4⟩ := ih t seen hinv' hf'
        refine ⟨h1, h2, h3, ?_⟩
        intro k' hk'
        rcases List.mem_cons.mp hk' with h | h
        · exact h ▸ h3 k hks
        · exact h4 k' h
      · simp only [hs, Bool.false_eq_true, ↓reduceIte]
        have hks : k ∉ seen := by simpa using hs
        have hinv' : Inv g (((g.links k).map (·.2)) ++ t) (seen ++ [k]) := by
          refine ⟨?_, ?_⟩
          · rw [List.nodup_append]
            refine ⟨hinv.nodup, by simp, ?_⟩
            intro a ha b hb
            simp at hb
            subst hb
            intro e
            exact hks (e ▸ ha)
          · intro k' hk' l hl
            rcases List.mem_append.mp hk' with h | h
            · rcases hinv.closed k' h l hl with h' | h'
              · exact .inl (List.mem_append.mpr (.inl h'))
              · rcases List.mem_cons.mp h' with h'' | h''
                · exact .inl (List.mem_append.mpr (.inr (by simp [h''])))
                · exact .inr (List.mem_append.mpr (.inr h''))
            · simp at h
              subst h
              exact .inr (List.mem_append.mpr (.inl (List.mem_map.mpr ⟨l, hl, rfl⟩)))
        have hp := potL_step g.nodes seen k hks
        rw [← links_eq_linksL] at hp
        have hf' : (((g.links k).map (·.2)) ++ t).length + potL g.nodes (seen ++ [k]) ≤ fuel := by
          simp at hfuel ⊢; omega
        obtain ⟨h1, h2, h3, h4⟩ := ih _ _ hinv' hf'
        refine ⟨h1, h2, fun k' hk' => h3 k' (List.mem_append.mpr (.inl hk')), ?_⟩
        intro k' hk'
        rcases List.mem_cons.mp hk' with h | h
        · exact h ▸ h3 k (by simp)
        · exact h4 k' (List.mem_append.mpr (.inr h))

theorem reachFrom_fuel (g : Graph) (a : Nat) :
    [a].length + potL g.nodes [] ≤
      g.nodes.length * (g.nodes.length + 1) + (g.nodes.foldl (fun a kn => a + kn.2.links.length) 0) + 2 := by
  rw [potL_nil]; simp; omega

theorem reachFrom_spec (g : Graph) (a : Nat) :
    (reachFrom g a).Nodup ∧ (∀ k ∈ reachFrom g a, ∀ l ∈ g.links k, l.2 ∈ reachFrom g a) ∧
    a ∈ reachFrom g a := by
  have h := reachAux_spec g _ [a] [] ⟨List.nodup_nil, by simp⟩ (reachFrom_fuel g a)
  exact ⟨h.1, h.2.1, h.2.2.2 a (by simp)⟩

theorem reachFrom_nodup (g : Graph) (a : Nat) : (reachFrom g a).Nodup := (reachFrom_spec g a).1

/-- closed under links: the fuel of the definition always suffices -/
theorem reachFrom_closed (g : Graph) (a : Nat) {k : Nat} (hk : k ∈ reachFrom g a)
    {l : String × Nat} (hl : l ∈ g.links k) : l.2 ∈ reachFrom g a := (reachFrom_spec g a).2.1 k hk l hl

theorem reachFrom_self (g : Graph) (a : Nat) : a ∈ reachFrom g a := (reachFrom_spec g a).2.2

/-- everything reachable is listed -/
theorem reachFrom_complete (g : Graph) (a k : Nat) (h : ReachF g a k) : k ∈ reachFrom g a := by
  induction h with
  | refl => exact reachFrom_self g a
  | step name _ hl ih => exact reachFrom_closed g a ih hl

theorem reachAux_sound (g : Graph) (a : Nat) (fuel : Nat) (todo seen : List Nat)
    (hs : ∀ k ∈ seen, ReachF g a k) (ht : ∀ k ∈ todo, ReachF g a k) :
    ∀ k ∈ reachAux g fuel todo seen, ReachF g a k := by
  induction fuel generalizing todo seen with
  | zero => unfold reachAux; exact hs
  | succ fuel ih =>
    cases todo with
    | nil => unfold reachAux; exact hs
    | cons k t =>
      unfold reachAux
      split
      · exact ih t seen hs (fun k' hk' => ht k' (List.mem_cons.mpr (.inr hk')))
      · apply ih
        · intro k' hk'
          rcases List.mem_append.mp hk' with h | h
          · exact hs k' h
          · have e : k' = k := by simpa using h
            rw [e]; exact ht k (by simp)
        · intro k' hk'
          rcases List.mem_append.mp hk' with h | h
          · obtain ⟨l, hl, e⟩ := List.mem_map.mp h
            have hl' : (l.1, k') ∈ g.links k := by rw [← e]; exact hl
            exact .step l.1 (ht k (by simp)) hl'
          · exact ht k' (List.mem_cons.mpr (.inr h))

/-- only reachable nodes are listed -/
theorem reachFrom_sound (g : Graph) (a k : Nat) (h : k ∈ reachFrom g a) : ReachF g a k :=
  reachAux_sound g a _ [a] [] (by simp) (by intro k hk; simp at hk; subst hk; exact .refl) k h

theorem mem_reachFrom_iff (g : Graph) (a k : Nat) : k ∈ reachFrom g a ↔ ReachF g a k :=
  ⟨reachFrom_sound g a k, reachFrom_complete g a k⟩

/-- the source itself comes first -/
theorem reachFrom_head (g : Graph) (a : Nat) : (reachFrom g a).head? = some a := by
  unfold reachFrom
  generalize g.nodes.length * (g.nodes.length + 1) + _ = f
  unfold reachAux
  simp only [List.contains_nil, Bool.false_eq_true, ↓reduceIte, List.nil_append]
  have : ∀ (fuel : Nat) (todo seen : List Nat), seen.head? = some a →
      (reachAux g fuel todo seen).head? = some a := by
    intro fuel
    induction fuel with
    | zero => intro todo seen h; unfold reachAux; exact h
    | succ fuel ih =>
      intro todo seen h
      cases todo with
      | nil => unfold reachAux; exact h
      | cons k t =>
        unfold reachAux
        split
        · exact ih _ _ h
        · apply ih
          cases seen with
          | nil => cases h
          | cons x xs => simpa using h
  exact this _ _ _ (by simp)

end Nix.Store.C20
