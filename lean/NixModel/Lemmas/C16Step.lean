import NixModel.Lemmas.C16Conv
/-! Lemmas for C16: the well-formedness invariant and its preservation by every operation. -/
namespace Nix.Frame

/-- the stored table is a table: every row has one stored cell of the column's type per column, column names are
    distinct, units (when set) are one per column -/
structure WF (f : Frame) : Prop where
  rows : ∀ r ∈ f.rows, rowOK f.types r = true
  nodup : hasDup f.names = false
  units : ∀ us, f.units = some us → us.length = f.cols.length

theorem normNamesFrom_types : ∀ (i : Nat) (cols : List (String × ColType)),
    (normNamesFrom i cols).map (·.2) = cols.map (·.2)
  | _, [] => rfl
  | i, (n, t) :: rest => by simp [normNamesFrom, normNamesFrom_types (i + 1) rest]

theorem normNamesFrom_length : ∀ (i : Nat) (cols : List (String × ColType)),
    (normNamesFrom i cols).length = cols.length
  | _, [] => rfl
  | i, (n, t) :: rest => by simp [normNamesFrom, normNamesFrom_length (i + 1) rest]

theorem mkDtype_spec {cols c : List (String × ColType)} (h : mkDtype cols = .ok c) :
    c.map (·.2) = cols.map (·.2) ∧ c.length = cols.length ∧ hasDup (c.map (·.1)) = false := by
  unfold mkDtype at h
  simp only at h
  split at h
  · cases h
  · rename_i hd
    cases h
    exact ⟨normNamesFrom_types 0 cols, normNamesFrom_length 0 cols, by simpa using hd⟩

theorem mem_appendCell : ∀ {rows : List Row} {ws : List Val} {r' : Row}, r' ∈ appendCell rows ws →
    ∃ r ∈ rows, ∃ w ∈ ws, r' = r ++ [w]
  | [], _, _, h => by simp [appendCell] at h
  | _ :: _, [], _, h => by simp [appendCell] at h
  | r :: rows, w :: ws, r', h => by
    simp only [appendCell, List.mem_cons] at h
    rcases h with rfl | h
    · exact ⟨r, by simp, w, by simp, rfl⟩
    · obtain ⟨r0, hr0, w0, hw0, e⟩ := mem_appendCell h
      exact ⟨r0, by simp [hr0], w0, by simp [hw0], e⟩

theorem appendCell_length : ∀ {rows : List Row} {ws : List Val}, ws.length = rows.length →
    (appendCell rows ws).length = rows.length
  | [], [], _ => rfl
  | r :: rows, w :: ws, h => by
    have : ws.length = rows.length := by simpa using h
    simp [appendCell, appendCell_length this]
  | [], _ :: _, h => by simp at h
  | _ :: _, [], h => by simp at h

theorem appendCell_get : ∀ {rows : List Row} {ws : List Val} (k : Nat), ws.length = rows.length →
    (appendCell rows ws)[k]? = (rows[k]?).bind (fun r => (ws[k]?).map (fun w => r ++ [w]))
  | [], [], k, _ => by simp [appendCell]
  | r :: rows, w :: ws, 0, _ => by simp [appendCell]
  | r :: rows, w :: ws, k + 1, h => by
    have : ws.length = rows.length := by simpa using h
    simp [appendCell, appendCell_get k this]
  | [], _ :: _, _, h => by simp at h
  | _ :: _, [], _, h => by simp at h

theorem mem_setMany : ∀ {rows : List Row} {ks : List Nat} {rs : List Row} {r : Row},
    r ∈ setMany rows ks rs → r ∈ rows ∨ r ∈ rs
  | rows, [], _, r, h => by simp [setMany] at h; exact Or.inl h
  | rows, _ :: _, [], r, h => by simp [setMany] at h; exact Or.inl h
  | rows, k :: ks, x :: rs, r, h => by
    simp only [setMany] at h
    rcases mem_setMany h with h | h
    · rcases List.mem_or_eq_of_mem_set h with h | rfl
      · exact Or.inl h
      · exact Or.inr (by simp)
    · exact Or.inr (by simp [h])

theorem setMany_length : ∀ {rows : List Row} {ks : List Nat} {rs : List Row},
    (setMany rows ks rs).length = rows.length
  | rows, [], _ => by simp [setMany]
  | rows, _ :: _, [] => by simp [setMany]
  | rows, k :: ks, x :: rs => by simp [setMany, setMany_length]

/-- the loop of write_column: same number of rows; each row is the old row, possibly with cell `c` replaced by a
    stored cell of type `t` -/
theorem writeColLoop_mem : ∀ {t : ColType} {c : Nat} {rows : List Row} {col : List Val} {r' : Row},
    r' ∈ (writeColLoop t c rows col).1 → ∃ r ∈ rows, r' = r ∨ ∃ w, wellTyped t w = true ∧ r' = r.set c w
  | t, c, [], col, r', h => by simp [writeColLoop] at h
  | t, c, r :: rows, [], r', h => by
    simp [writeColLoop] at h
    rcases h with rfl | h
    · exact ⟨r', by simp, Or.inl rfl⟩
    · exact ⟨r', by simp [h], Or.inl rfl⟩
  | t, c, r :: rows, v :: col, r', h => by
    simp only [writeColLoop] at h
    split at h
    · simp at h
      rcases h with rfl | h
      · exact ⟨r', by simp, Or.inl rfl⟩
      · exact ⟨r', by simp [h], Or.inl rfl⟩
    · rename_i w hw
      simp only [List.mem_cons] at h
      rcases h with rfl | h
      · exact ⟨r, by simp, Or.inr ⟨w, conv_wellTyped hw, rfl⟩⟩
      · obtain ⟨r0, hr0, hh⟩ := writeColLoop_mem h
        exact ⟨r0, by simp [hr0], hh⟩

theorem writeColLoop_length : ∀ {t : ColType} {c : Nat} {rows : List Row} {col : List Val},
    (writeColLoop t c rows col).1.length = rows.length
  | t, c, [], col => by simp [writeColLoop]
  | t, c, r :: rows, [] => by simp [writeColLoop]
  | t, c, r :: rows, v :: col => by
    simp only [writeColLoop]
    split
    · simp
    · simp [writeColLoop_length]

theorem types_get {f : Frame} {c : Nat} {ct : String × ColType} (h : f.cols[c]? = some ct) :
    f.types[c]? = some ct.2 := by
  simp [Frame.types, h]

-- ---------------------------------------------------------------------------------------
-- preservation, operation by operation

theorem wf_appendRows {f : Frame} (h : WF f) (rows : List (List Val)) : WF (appendRows f rows).1 := by
  unfold appendRows
  split
  · exact h
  · rename_i rs hrs
    obtain ⟨_, h2, _⟩ := convRows_spec hrs
    refine ⟨?_, h.nodup, h.units⟩
    intro r hr
    simp only [List.mem_append] at hr
    rcases hr with hr | hr
    · exact h.rows r hr
    · exact h2 r hr

theorem wf_appendColumn {f : Frame} (h : WF f) (col : List Val) (name : String) (dt : Option ColType) :
    WF (appendColumn f col name dt).1 := by
  unfold appendColumn
  split
  · exact h
  · rename_i hlen
    simp only
    split
    · exact h
    · rename_i t ht
      split
      · exact h
      · rename_i cols' hc
        split
        · exact h
        · rename_i ws hws
          obtain ⟨ct, cl, cd⟩ := mkDtype_spec hc
          obtain ⟨wl, wt, _⟩ := convCol_spec hws
          refine ⟨?_, ?_, ?_⟩
          · intro r' hr'
            obtain ⟨r, hr, w, hw, rfl⟩ := mem_appendCell hr'
            have : Frame.types ⟨cols', appendCell f.rows ws, f.units.map (· ++ [none])⟩ = f.types ++ [t] := by
              simp [Frame.types, ct]
            rw [this]
            exact rowOK_append (h.rows r hr) (wt w hw)
          · simpa [Frame.names] using cd
          · intro us hus
            simp only [Option.map_eq_some_iff] at hus
            obtain ⟨us0, hus0, rfl⟩ := hus
            simp [cl, h.units us0 hus0]

theorem wf_writeRows {f : Frame} (h : WF f) (rows : List (List Val)) (idx : List Int) :
    WF (writeRows f rows idx).1 := by
  unfold writeRows
  split
  · exact h
  · split
    · exact h
    · split
      · exact h
      · split
        · exact h
        · rename_i rs hrs
          split
          · exact h
          · rename_i ks hks
            obtain ⟨_, h2, _⟩ := convRows_spec hrs
            refine ⟨?_, h.nodup, h.units⟩
            intro r hr
            rcases mem_setMany hr with hr | hr
            · exact h.rows r hr
            · exact h2 r hr

theorem wf_writeRowFlat {f : Frame} (h : WF f) (row : List Val) (idx : List Int) :
    WF (writeRowFlat f row idx).1 := by
  unfold writeRowFlat
  split
  · exact h
  · split
    · exact h
    · exact wf_writeRows h _ _

theorem wf_writeColumn {f : Frame} (h : WF f) (col : List Val) (index : Option Int) (name : Option String) :
    WF (writeColumn f col index name).1 := by
  unfold writeColumn
  split
  · exact h
  · try simp only
    split
    · exact h
    · split
      · exact h
      · split
        · exact h
        · rename_i c hc
          split
          · exact h
          · rename_i ct hct
            split
            · rename_i rows' hloop
              have e : rows' = (writeColLoop ct.2 c f.rows col).1 := by rw [hloop]
              subst e
              refine ⟨?_, h.nodup, h.units⟩
              intro r' hr'
              obtain ⟨r, hr, hh⟩ := writeColLoop_mem hr'
              rcases hh with rfl | ⟨w, hw, rfl⟩
              · exact h.rows _ hr
              · exact rowOK_set (h.rows r hr) (types_get hct) hw
            · exact h

theorem wf_setCell {f : Frame} (h : WF f) {r c : Nat} {row : Row} {ct : String × ColType} {cell w : Val}
    (hrow : f.rows[r]? = some row) (hct : f.cols[c]? = some ct) (hw : conv ct.2 cell = .ok w) :
    WF { f with rows := f.rows.set r (row.set c w) } := by
  refine ⟨?_, h.nodup, h.units⟩
  intro x hx
  rcases List.mem_or_eq_of_mem_set hx with hx | rfl
  · exact h.rows x hx
  · exact rowOK_set (h.rows row (List.mem_of_getElem? hrow)) (types_get hct) (conv_wellTyped hw)

theorem wf_writeCellPos {f : Frame} (h : WF f) (cell : Val) (pos : List Int) : WF (writeCellPos f cell pos).1 := by
  unfold writeCellPos
  split
  · split
    · exact h
    · split
      · exact h
      · rename_i hrow
        split
        · exact h
        · split
          · exact h
          · rename_i hct
            split
            · exact h
            · rename_i hw
              exact wf_setCell h hrow hct hw
  · exact h

theorem wf_writeCellName {f : Frame} (h : WF f) (cell : Val) (name : String) (ri : Int) :
    WF (writeCellName f cell name ri).1 := by
  unfold writeCellName
  split
  · exact h
  · split
    · exact h
    · rename_i hrow
      split
      · exact h
      · split
        · exact h
        · rename_i hct
          split
          · exact h
          · rename_i hw
            exact wf_setCell h hrow hct hw

theorem wf_setUnits {f : Frame} (h : WF f) (us : List (Option String)) : WF (setUnits f us).1 := by
  unfold setUnits
  split
  · exact h
  · rename_i hl
    refine ⟨h.rows, h.nodup, ?_⟩
    intro us' hus
    simp at hus
    subst hus
    simpa using hl

theorem wf_step {f : Frame} (h : WF f) (op : Op) : WF (step f op).1 := by
  cases op with
  | appendRows rows => exact wf_appendRows h rows
  | appendColumn col name dt => exact wf_appendColumn h col name dt
  | writeRows rows idx => exact wf_writeRows h rows idx
  | writeRowFlat row idx => exact wf_writeRowFlat h row idx
  | writeColumn col index name => exact wf_writeColumn h col index name
  | writeCellPos cell pos => exact wf_writeCellPos h cell pos
  | writeCellName cell name row => exact wf_writeCellName h cell name row
  | setUnits us => exact wf_setUnits h us

theorem wf_run {f : Frame} (h : WF f) (ops : List Op) : WF (run f ops) := by
  induction ops generalizing f with
  | nil => exact h
  | cons op ops ih => exact ih (wf_step h op)

theorem wf_createWith {cols : List (String × ColType)} {data : Option (List (List Val))} {f : Frame}
    (h : createWith cols data = .ok f) : WF f := by
  unfold createWith at h
  split at h
  · cases h
  · rename_i c hc
    obtain ⟨_, _, cd⟩ := mkDtype_spec hc
    split at h
    · split at h
      · cases h
      · cases h
        exact ⟨by simp, by simpa [Frame.names] using cd, by simp⟩
    · split at h
      · cases h
      · rename_i rs hrs
        split at h
        · cases h
        · cases h
          obtain ⟨_, h2, _⟩ := convRows_spec hrs
          exact ⟨by simpa [Frame.types] using h2, by simpa [Frame.names] using cd, by simp⟩

end Nix.Frame
