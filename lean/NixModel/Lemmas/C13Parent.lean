import NixModel.Lemmas.C13Find

/-!
# C13 — parent searches find the owner when ids are unique

`parentLoop` (BFS of `Section.parent`) and `findParentRec` (DFS of `Source._find_parent_recursive`)
answer *some* node of the forest that has a child with the wanted id, and answer nothing only when no
node has one.  With unique ids there is exactly one such node: the owner.
-/

namespace Nix.Tree

/-! ## every node is a root or a child of exactly one node -/

mutual
theorem Node.nodes_perm_children : ∀ n : Node, n.nodes.Perm (n :: n.nodes.flatMap Node.children)
  | .mk i cs => by
    have h := nodesL_perm_children cs
    simp only [Node.nodes, List.flatMap_cons, Node.children]
    exact List.Perm.cons _ h
theorem nodesL_perm_children : ∀ rs : List Node, (nodesL rs).Perm (rs ++ (nodesL rs).flatMap Node.children)
  | [] => by simp [nodesL]
  | c :: cs => by
    have h1 := Node.nodes_perm_children c
    have h2 := nodesL_perm_children cs
    simp only [nodesL, List.flatMap_append, List.cons_append]
    -- c.nodes ++ nodesL cs ~ c :: (cs ++ (chs c ++ chs cs))
    refine (List.Perm.append h1 h2).trans ?_
    simp only [List.cons_append]
    refine List.Perm.cons _ ?_
    -- chs c ++ (cs ++ chs cs) ~ cs ++ (chs c ++ chs cs)
    rw [← List.append_assoc, ← List.append_assoc]
    exact List.Perm.append_right _ List.perm_append_comm
end

theorem flatMap_nodup_inj {α β : Type} {f : α → List β} :
    ∀ {l : List α}, (l.flatMap f).Nodup → ∀ {a b : α} {y : β}, a ∈ l → b ∈ l → y ∈ f a → y ∈ f b → a = b := by
  intro l
  induction l with
  | nil => intro _ a b y ha; simp at ha
  | cons h t ih =>
    intro hn a b y ha hb hya hyb
    rw [List.flatMap_cons, List.nodup_append] at hn
    obtain ⟨_, ht, hdis⟩ := hn
    rcases List.mem_cons.mp ha with rfl | ha' <;> rcases List.mem_cons.mp hb with rfl | hb'
    · rfl
    · exact absurd rfl (hdis y hya y (List.mem_flatMap.mpr ⟨b, hb', hyb⟩))
    · exact absurd rfl (hdis y hyb y (List.mem_flatMap.mpr ⟨a, ha', hya⟩))
    · exact ih ht ha' hb' hya hyb

/-- unique ids: what the roots and the children lists look like -/
theorem keys_split {rs : List Node} (h : (keysL rs).Nodup) :
    (rs.map Node.key).Nodup ∧ ((nodesL rs).flatMap fun n => n.children.map Node.key).Nodup ∧
      ∀ r ∈ rs, ∀ s ∈ nodesL rs, ∀ c ∈ s.children, r.key ≠ c.key := by
  have hp : (keysL rs).Perm ((rs ++ (nodesL rs).flatMap Node.children).map Node.key) :=
    (nodesL_perm_children rs).map _
  have h2 := hp.nodup_iff.mp h
  rw [List.map_append, List.nodup_append, List.map_flatMap] at h2
  obtain ⟨ha, hb, hab⟩ := h2
  refine ⟨ha, hb, ?_⟩
  intro r hr s hs c hc
  exact hab r.key (List.mem_map.mpr ⟨r, hr, rfl⟩) c.key
    (List.mem_flatMap.mpr ⟨s, hs, List.mem_map.mpr ⟨c, hc, rfl⟩⟩)

/-- unique ids: two nodes owning a child with the same id are the same node -/
theorem owner_unique {rs : List Node} (h : (keysL rs).Nodup) {s p c x : Node}
    (hs : s ∈ nodesL rs) (hp : p ∈ nodesL rs) (hc : c ∈ s.children) (hx : x ∈ p.children)
    (hk : c.key = x.key) : s = p :=
  flatMap_nodup_inj (keys_split h).2.1 hs hp (List.mem_map.mpr ⟨c, hc, rfl⟩)
    (List.mem_map.mpr ⟨x, hx, hk.symm⟩)

theorem mem_root_or_child {rs : List Node} {n : Node} (h : n ∈ nodesL rs) :
    n ∈ rs ∨ ∃ s ∈ nodesL rs, n ∈ s.children := by
  have := (nodesL_perm_children rs).mem_iff.mp h
  rcases List.mem_append.mp this with h | h
  · exact .inl h
  · obtain ⟨s, hs, hn⟩ := List.mem_flatMap.mp h
    exact .inr ⟨s, hs, hn⟩

theorem child_mem_nodesL {rs : List Node} {s c : Node} (hs : s ∈ nodesL rs) (hc : c ∈ s.children) :
    c ∈ nodesL rs :=
  (nodesL_perm_children rs).mem_iff.mpr (List.mem_append_right _ (List.mem_flatMap.mpr ⟨s, hs, hc⟩))

theorem hasChildKey_iff {s : Node} {k : Nat} : hasChildKey s k = true ↔ ∃ c ∈ s.children, c.key = k := by
  simp [hasChildKey]

/-! ## the BFS of `Section.parent` -/

theorem mem_nodesL_cons {x s : Node} {rest : List Node} :
    x ∈ nodesL (s :: rest) ↔ x = s ∨ x ∈ nodesL s.children ∨ x ∈ nodesL rest := by
  rw [nodesL_cons]; simp [List.mem_append]

theorem parentLoop_spec (k : Nat) : ∀ (n : Nat) (q : List Node), sizeL q ≤ n →
    (∀ s, parentLoop k q = some s → s ∈ nodesL q ∧ hasChildKey s k = true) ∧
    (parentLoop k q = none → ∀ s ∈ nodesL q, hasChildKey s k = false) := by
  intro n
  induction n with
  | zero =>
    intro q hq
    cases q with
    | nil => simp [parentLoop, nodesL]
    | cons s rest => cases s with | mk i cs => (simp [sizeL, Node.size] at hq) <;> omega
  | succ n ih =>
    intro q hq
    cases q with
    | nil => simp [parentLoop, nodesL]
    | cons s rest =>
      rw [parentLoop]
      by_cases hk : hasChildKey s k = true
      · simp only [hk, if_true]
        refine ⟨?_, by simp⟩
        intro s' h
        cases h
        exact ⟨mem_nodesL_cons.mpr (.inl rfl), hk⟩
      · simp only [hk]
        have hsz : sizeL (rest ++ s.children) ≤ n := by
          cases s with | mk i cs =>
          simp only [sizeL_append, sizeL, Node.size, Node.children] at hq ⊢
          omega
        obtain ⟨h1, h2⟩ := ih (rest ++ s.children) hsz
        constructor
        · intro s' h
          obtain ⟨hm, hc⟩ := h1 s' (by simpa using h)
          refine ⟨?_, hc⟩
          rw [nodesL_append, List.mem_append] at hm
          exact mem_nodesL_cons.mpr (hm.elim (fun h => .inr (.inr h)) (fun h => .inr (.inl h)))
        · intro h s' hs'
          have h2' := h2 (by simpa using h)
          rcases mem_nodesL_cons.mp hs' with rfl | h' | h'
          · simpa using hk
          · exact h2' s' (by rw [nodesL_append]; exact List.mem_append_right _ h')
          · exact h2' s' (by rw [nodesL_append]; exact List.mem_append_left _ h')

/-- unique ids ⇒ the BFS answers the owner -/
theorem parentLoop_owner {rs : List Node} (h : (keysL rs).Nodup) {p x : Node}
    (hp : p ∈ nodesL rs) (hx : x ∈ p.children) : parentLoop x.key rs = some p := by
  obtain ⟨h1, h2⟩ := parentLoop_spec x.key (sizeL rs) rs (Nat.le_refl _)
  cases hr : parentLoop x.key rs with
  | none =>
    have := h2 hr p hp
    rw [Bool.eq_false_iff] at this
    exact absurd (hasChildKey_iff.mpr ⟨x, hx, rfl⟩) this
  | some s =>
    obtain ⟨hs, hc⟩ := h1 s hr
    obtain ⟨c, hc, hk⟩ := hasChildKey_iff.mp hc
    rw [owner_unique h hs hp hc hx hk]

/-! ## the DFS of `Source._find_parent_recursive` -/

mutual
theorem findParentRec_spec (k : Nat) : ∀ n : Node,
    (∀ s, findParentRec k n = some s → s ∈ n.nodes ∧ hasChildKey s k = true) ∧
    (findParentRec k n = none → ∀ s ∈ n.nodes, hasChildKey s k = false)
  | .mk i cs => by
    obtain ⟨h1, h2⟩ := findParentRecL_spec k cs
    rw [findParentRec]
    by_cases hk : (cs.any fun c => c.key == k) = true
    · simp only [hk, if_true]
      refine ⟨?_, by simp⟩
      intro s h
      cases h
      exact ⟨by simp [Node.nodes], by simpa [hasChildKey, Node.children] using hk⟩
    · simp only [hk]
      constructor
      · intro s h
        obtain ⟨hm, hc⟩ := h1 s (by simpa using h)
        exact ⟨by simp [Node.nodes, hm], hc⟩
      · intro h s hs
        simp only [Node.nodes, List.mem_cons] at hs
        rcases hs with rfl | hs
        · simpa [hasChildKey, Node.children] using hk
        · exact h2 (by simpa using h) s hs
theorem findParentRecL_spec (k : Nat) : ∀ cs : List Node,
    (∀ s, findParentRecL k cs = some s → s ∈ nodesL cs ∧ hasChildKey s k = true) ∧
    (findParentRecL k cs = none → ∀ s ∈ nodesL cs, hasChildKey s k = false)
  | [] => by simp [findParentRecL, nodesL]
  | c :: cs => by
    obtain ⟨h1, h2⟩ := findParentRec_spec k c
    obtain ⟨h3, h4⟩ := findParentRecL_spec k cs
    rw [findParentRecL]
    cases hr : findParentRec k c with
    | some p =>
      simp only
      refine ⟨?_, by simp⟩
      intro s h
      cases h
      obtain ⟨hm, hc⟩ := h1 p hr
      exact ⟨by simp [nodesL, hm], hc⟩
    | none =>
      simp only
      constructor
      · intro s h
        obtain ⟨hm, hc⟩ := h3 s h
        exact ⟨by simp [nodesL, hm], hc⟩
      · intro h s hs
        simp only [nodesL, List.mem_append] at hs
        rcases hs with hs | hs
        · exact h2 hr s hs
        · exact h4 h s hs
end

theorem findParentRecL_owner {rs : List Node} (h : (keysL rs).Nodup) {p x : Node}
    (hp : p ∈ nodesL rs) (hx : x ∈ p.children) : findParentRecL x.key rs = some p := by
  obtain ⟨h1, h2⟩ := findParentRecL_spec x.key rs
  cases hr : findParentRecL x.key rs with
  | none =>
    have := h2 hr p hp
    rw [Bool.eq_false_iff] at this
    exact absurd (hasChildKey_iff.mpr ⟨x, hx, rfl⟩) this
  | some s =>
    obtain ⟨hs, hc⟩ := h1 s hr
    obtain ⟨c, hc, hk⟩ := hasChildKey_iff.mp hc
    rw [owner_unique h hs hp hc hx hk]

/-! ## lookup by key -/

mutual
theorem Node.find?_spec (k : Nat) : ∀ n : Node,
    (∀ m, n.find? k = some m → m ∈ n.nodes ∧ m.key = k) ∧ (n.find? k = none → k ∉ n.keys)
  | .mk i cs => by
    obtain ⟨h1, h2⟩ := findL?_spec k cs
    rw [Node.find?]
    by_cases hk : i.key = k
    · simp only [hk, if_true]
      refine ⟨?_, by simp⟩
      intro m h
      cases h
      exact ⟨by simp [Node.nodes], hk⟩
    · simp only [hk, if_false]
      constructor
      · intro m h
        obtain ⟨hm, hkk⟩ := h1 m h
        exact ⟨by simp [Node.nodes, hm], hkk⟩
      · intro h
        have := h2 h
        simp only [Node.keys, Node.nodes, List.map_cons, List.mem_cons, not_or]
        exact ⟨fun e => hk (by simpa [Node.key, Node.info] using e.symm), by simpa [keysL] using this⟩
theorem findL?_spec (k : Nat) : ∀ cs : List Node,
    (∀ m, findL? k cs = some m → m ∈ nodesL cs ∧ m.key = k) ∧ (findL? k cs = none → k ∉ keysL cs)
  | [] => by simp [findL?, nodesL, keysL]
  | c :: cs => by
    obtain ⟨h1, h2⟩ := Node.find?_spec k c
    obtain ⟨h3, h4⟩ := findL?_spec k cs
    rw [findL?]
    cases hr : c.find? k with
    | some p =>
      simp only
      refine ⟨?_, by simp⟩
      intro m h
      cases h
      obtain ⟨hm, hkk⟩ := h1 p hr
      exact ⟨by simp [nodesL, hm], hkk⟩
    | none =>
      simp only
      constructor
      · intro m h
        obtain ⟨hm, hkk⟩ := h3 m h
        exact ⟨by simp [nodesL, hm], hkk⟩
      · intro h
        have a := h2 hr
        have b := h4 h
        simp only [keysL, nodesL, List.map_append, List.mem_append, not_or] at b ⊢
        exact ⟨by simpa [Node.keys] using a, b⟩
end

theorem findL?_of_mem {rs : List Node} {x : Node} (hx : x ∈ nodesL rs) :
    ∃ m, findL? x.key rs = some m ∧ m ∈ nodesL rs ∧ m.key = x.key := by
  obtain ⟨h1, h2⟩ := findL?_spec x.key rs
  cases hr : findL? x.key rs with
  | none => exact absurd (List.mem_map.mpr ⟨x, hx, rfl⟩) (h2 hr)
  | some m => exact ⟨m, rfl, h1 m hr⟩

theorem nodup_map_inj {α β : Type} {f : α → β} : ∀ {l : List α}, (l.map f).Nodup →
    ∀ {a b : α}, a ∈ l → b ∈ l → f a = f b → a = b := by
  intro l
  induction l with
  | nil => intro _ a b ha; simp at ha
  | cons h t ih =>
    intro hn a b ha hb hf
    rw [List.map_cons, List.nodup_cons] at hn
    obtain ⟨hnot, ht⟩ := hn
    rcases List.mem_cons.mp ha with rfl | ha' <;> rcases List.mem_cons.mp hb with rfl | hb'
    · rfl
    · exact absurd (List.mem_map.mpr ⟨b, hb', hf.symm⟩) hnot
    · exact absurd (List.mem_map.mpr ⟨a, ha', hf⟩) hnot
    · exact ih ht ha' hb' hf

/-- unique ids: the node a key denotes is the node carrying it -/
theorem eq_of_key_eq {rs : List Node} (h : (keysL rs).Nodup) {a b : Node}
    (ha : a ∈ nodesL rs) (hb : b ∈ nodesL rs) (hk : a.key = b.key) : a = b :=
  nodup_map_inj h ha hb hk

end Nix.Tree
