import NixModel.Lemmas.C13Parent

/-!
# C13 — well-formed files: parents and referring lists

`WF f`: ids are unique in the whole file and smaller than the id supply, and every `_sec_parent`
a creation handle carries is the id of the section that owns it.  (`C13Inv.lean` shows that every state
a history of operations leads to is well-formed.)
-/

namespace Nix.Tree

mutual
/-- cached `_sec_parent`s below `parent` are either absent or the owner's id -/
def cacheOK (parent : Option Nat) : Node → Prop
  | .mk i cs => (i.cparent = none ∨ i.cparent = parent) ∧ cacheOKL (some i.key) cs
def cacheOKL (parent : Option Nat) : List Node → Prop
  | [] => True
  | c :: cs => cacheOK parent c ∧ cacheOKL parent cs
end

def blockKeys (b : Block) : List Nat := b.key :: (keysL b.sources ++ b.holders.map Holder.key)

/-- every id in the file -/
def allKeys (f : File) : List Nat := keysL f.sections ++ f.blocks.flatMap blockKeys

structure WF (f : File) : Prop where
  nodup : (allKeys f).Nodup
  bound : ∀ k ∈ allKeys f, k < f.next
  cache : cacheOKL none f.sections

/-- the default limit `sys.maxsize` exceeds the height of every source tree -/
def Bounded (f : File) : Prop := ∀ b ∈ f.blocks, heightL b.sources ≤ maxsize

/-! ## cached parents -/

theorem cacheOKL_mem {parent : Option Nat} : ∀ {cs : List Node}, cacheOKL parent cs →
    ∀ c ∈ cs, cacheOK parent c
  | [], _, c, hc => by simp at hc
  | d :: ds, h, c, hc => by
    rw [cacheOKL] at h
    rcases List.mem_cons.mp hc with rfl | hc
    · exact h.1
    · exact cacheOKL_mem h.2 c hc

mutual
theorem cacheOK_flat : ∀ (parent : Option Nat) (n : Node), cacheOK parent n →
    ∀ s ∈ n.nodes, ∀ c ∈ s.children, c.cparent = none ∨ c.cparent = some s.key
  | parent, .mk i cs, h, s, hs, c, hc => by
    rw [cacheOK] at h
    simp only [Node.nodes, List.mem_cons] at hs
    rcases hs with rfl | hs
    · have := cacheOKL_mem h.2 c hc
      cases c with | mk j ds =>
      rw [cacheOK] at this
      exact this.1
    · exact cacheOKL_flat (some i.key) cs h.2 s hs c hc
theorem cacheOKL_flat : ∀ (parent : Option Nat) (cs : List Node), cacheOKL parent cs →
    ∀ s ∈ nodesL cs, ∀ c ∈ s.children, c.cparent = none ∨ c.cparent = some s.key
  | _, [], _, s, hs, _, _ => by simp [nodesL] at hs
  | parent, d :: ds, h, s, hs, c, hc => by
    rw [cacheOKL] at h
    simp only [nodesL, List.mem_append] at hs
    rcases hs with hs | hs
    · exact cacheOK_flat parent d h.1 s hs c hc
    · exact cacheOKL_flat parent ds h.2 s hs c hc
end

theorem cacheOKL_root {rs : List Node} (h : cacheOKL none rs) : ∀ r ∈ rs, r.cparent = none := by
  intro r hr
  have := cacheOKL_mem h r hr
  cases r with | mk i cs =>
  rw [cacheOK] at this
  simpa [Node.cparent, Node.info] using this.1

/-! ## `Section.parent` -/

theorem findL?_eq {rs : List Node} (h : (keysL rs).Nodup) {x : Node} (hx : x ∈ nodesL rs) :
    findL? x.key rs = some x := by
  obtain ⟨m, hm, hmem, hk⟩ := findL?_of_mem hx
  rw [hm, eq_of_key_eq h hmem hx hk]

theorem wf_sections {f : File} (hf : WF f) : (keysL f.sections).Nodup :=
  (List.nodup_append.mp hf.nodup).1

theorem sectionParent_root {f : File} (hf : WF f) {x : Node} (hx : x ∈ f.sections) (useCache : Bool) :
    sectionParent f x.key useCache = .ok none := by
  have hn := wf_sections hf
  have hc := cacheOKL_root hf.cache x hx
  have hany : (f.sections.any fun s => s.key == x.key) = true :=
    List.any_eq_true.mpr ⟨x, hx, by simp⟩
  simp only [sectionParent, findL?_eq hn (mem_nodesL_roots hx), hc]
  cases useCache <;> simp [hany]

theorem sectionParent_child {f : File} (hf : WF f) {p x : Node} (hp : p ∈ nodesL f.sections)
    (hx : x ∈ p.children) (useCache : Bool) :
    sectionParent f x.key useCache = .ok (some p.key) := by
  have hn := wf_sections hf
  have hxm := child_mem_nodesL hp hx
  have hc := cacheOKL_flat none _ hf.cache p hp x hx
  have hany : (f.sections.any fun s => s.key == x.key) = false := by
    rw [Bool.eq_false_iff]
    intro h
    obtain ⟨r, hr, hk⟩ := List.any_eq_true.mp h
    exact (keys_split hn).2.2 r hr p hp x hx (by simpa using hk)
  simp only [sectionParent, findL?_eq hn hxm]
  have hloop := parentLoop_owner hn hp hx
  cases useCache
  · simp [hany, hloop]
  · rcases hc with hc | hc
    · simp [hc, hany, hloop]
    · simp [hc]

/-! ## lookup of a source; `Source.parent_block`, `Source.parent_source` -/

theorem findL?_none_of_not_mem {rs : List Node} {k : Nat} (h : k ∉ keysL rs) : findL? k rs = none := by
  cases hr : findL? k rs with
  | none => rfl
  | some m =>
    obtain ⟨hm, hk⟩ := (findL?_spec k rs).1 m hr
    exact absurd (List.mem_map.mpr ⟨m, hm, hk⟩) h

theorem lookupBlocks_src : ∀ {bs : List Block}, (bs.flatMap blockKeys).Nodup →
    ∀ {b : Block} {x : Node}, b ∈ bs → x ∈ nodesL b.sources → lookupBlocks x.key bs = some (.src b x)
  | [], _, b, x, hb, _ => by simp at hb
  | b0 :: bs, hn, b, x, hb, hx => by
    rw [List.flatMap_cons, List.nodup_append] at hn
    obtain ⟨h0, hrest, hdis⟩ := hn
    have hxk : x.key ∈ keysL b.sources := List.mem_map.mpr ⟨x, hx, rfl⟩
    by_cases hbb : b = b0
    · subst hbb
      simp only [blockKeys, List.nodup_cons, List.mem_append, not_or] at h0
      have hne : b.key ≠ x.key := fun e => h0.1.1 (e ▸ hxk)
      have hsn : (keysL b.sources).Nodup := (List.nodup_append.mp h0.2).1
      simp [lookupBlocks, hne, findL?_eq hsn hx]
    · have hb' : b ∈ bs := by
        rcases List.mem_cons.mp hb with h | h
        · exact absurd h hbb
        · exact h
      have hin : x.key ∈ bs.flatMap blockKeys :=
        List.mem_flatMap.mpr ⟨b, hb', by simp [blockKeys, hxk]⟩
      have hnot : x.key ∉ blockKeys b0 := fun h => hdis _ h _ hin rfl
      simp only [blockKeys, List.mem_cons, List.mem_append, not_or] at hnot
      have h1 : b0.key ≠ x.key := fun e => hnot.1 e.symm
      have h2 := findL?_none_of_not_mem hnot.2.1
      have h3 : b0.holders.find? (fun h => h.key == x.key) = none := by
        rw [List.find?_eq_none]
        intro h hh e
        exact hnot.2.2 (List.mem_map.mpr ⟨h, hh, by simpa using e⟩)
      rw [lookupBlocks]
      simp only [h1, if_false, h2, h3]
      exact lookupBlocks_src hrest hb' hx

theorem lookup_src {f : File} (hf : WF f) {b : Block} {x : Node} (hb : b ∈ f.blocks)
    (hx : x ∈ nodesL b.sources) : f.lookup x.key = some (.src b x) := by
  have hn := List.nodup_append.mp hf.nodup
  have hin : x.key ∈ f.blocks.flatMap blockKeys :=
    List.mem_flatMap.mpr ⟨b, hb, by simp [blockKeys, keysL]; exact .inr (.inl ⟨x, hx, rfl⟩)⟩
  have hnot : x.key ∉ keysL f.sections := fun h => hn.2.2 _ h _ hin rfl
  simp only [File.lookup, findL?_none_of_not_mem hnot]
  exact lookupBlocks_src hn.2.1 hb hx

theorem nodup_of_flatMap {α β : Type} {g : α → List β} : ∀ {l : List α}, (l.flatMap g).Nodup →
    ∀ {a : α}, a ∈ l → (g a).Nodup
  | [], _, a, ha => by simp at ha
  | h :: t, hn, a, ha => by
    rw [List.flatMap_cons, List.nodup_append] at hn
    rcases List.mem_cons.mp ha with rfl | ha
    · exact hn.1
    · exact nodup_of_flatMap hn.2.1 ha

theorem wf_block_sources {f : File} (hf : WF f) {b : Block} (hb : b ∈ f.blocks) : (keysL b.sources).Nodup := by
  have hn := (List.nodup_append.mp hf.nodup).2.1
  have : (blockKeys b).Nodup := nodup_of_flatMap hn hb
  simp only [blockKeys, List.nodup_cons] at this
  exact (List.nodup_append.mp this.2).1

theorem parentBlock_eq {f : File} (hf : WF f) {b : Block} {x : Node} (hb : b ∈ f.blocks)
    (hx : x ∈ nodesL b.sources) : parentBlock f x.key = .ok b.key := by
  simp [parentBlock, lookup_src hf hb hx]

theorem sourceParent_root {f : File} (hf : WF f) {b : Block} {x : Node} (hb : b ∈ f.blocks)
    (hx : x ∈ b.sources) : sourceParent f x.key = .ok none := by
  have hany : (b.sources.any fun s => s.key == x.key) = true := List.any_eq_true.mpr ⟨x, hx, by simp⟩
  simp [sourceParent, lookup_src hf hb (mem_nodesL_roots hx), hany]

theorem sourceParent_child {f : File} (hf : WF f) {b : Block} {p x : Node} (hb : b ∈ f.blocks)
    (hp : p ∈ nodesL b.sources) (hx : x ∈ p.children) : sourceParent f x.key = .ok (some p.key) := by
  have hn := wf_block_sources hf hb
  have hany : (b.sources.any fun s => s.key == x.key) = false := by
    rw [Bool.eq_false_iff]
    intro h
    obtain ⟨r, hr, hk⟩ := List.any_eq_true.mp h
    exact (keys_split hn).2.2 r hr p hp x hx (by simpa using hk)
  simp [sourceParent, lookup_src hf hb (child_mem_nodesL hp hx), hany, findParentRecL_owner hn hp hx]

/-! ## referring lists -/

theorem mem_refBlocks {f : File} {k k' : Nat} :
    k' ∈ refBlocks f k ↔ ∃ b ∈ f.blocks, b.key = k' ∧ b.md = some k := by
  simp only [refBlocks, List.mem_map, List.mem_filter, beq_iff_eq]
  constructor
  · rintro ⟨b, ⟨hb, hm⟩, rfl⟩; exact ⟨b, hb, rfl, hm⟩
  · rintro ⟨b, hb, rfl, hm⟩; exact ⟨b, ⟨hb, hm⟩, rfl⟩

theorem mem_refHolders {f : File} {kind : Kind} {k k' : Nat} :
    k' ∈ refHolders f kind k ↔ ∃ b ∈ f.blocks, ∃ h ∈ b.holders, h.kind = kind ∧ h.key = k' ∧ h.md = some k := by
  simp only [refHolders, holdersOf, List.mem_flatMap, List.mem_map, List.mem_filter, beq_iff_eq]
  constructor
  · rintro ⟨b, hb, h, ⟨⟨hh, hk⟩, hm⟩, rfl⟩; exact ⟨b, hb, h, hh, hk, rfl, hm⟩
  · rintro ⟨b, hb, h, hh, hk, rfl, hm⟩; exact ⟨b, hb, h, ⟨⟨hh, hk⟩, hm⟩, rfl⟩

/-- `blk.find_sources()` lists every source of the block -/
theorem mem_find_all {ms : List Node} (hb : heightL ms ≤ maxsize) {x : Node} :
    x ∈ findFrom (.top ms) (fun _ => true) none ↔ x ∈ nodesL ms := by
  rw [findFrom_none, findFrom_some]
  have hft : ∀ l : List Node, l.filter (fun _ => true) = l := fun l => by simp
  simp only [Root.base, Root.members, hft]
  rw [show maxsize + 1 - 1 = maxsize by omega]
  exact (levels_perm maxsize ms hb).mem_iff

theorem mem_refSources {f : File} (hB : Bounded f) {k k' : Nat} :
    k' ∈ refSources f k ↔ ∃ b ∈ f.blocks, ∃ s ∈ nodesL b.sources, s.key = k' ∧ s.md = some k := by
  simp only [refSources, List.mem_flatMap, List.mem_map, List.mem_filter, beq_iff_eq]
  constructor
  · rintro ⟨b, hb, s, ⟨hs, hm⟩, rfl⟩
    exact ⟨b, hb, s, (mem_find_all (hB b hb)).mp hs, rfl, hm⟩
  · rintro ⟨b, hb, s, hs, rfl, hm⟩
    exact ⟨b, hb, s, ⟨(mem_find_all (hB b hb)).mpr hs, hm⟩, rfl⟩

theorem mem_srcRefHolders {b : Block} {kind : Kind} {k k' : Nat} :
    k' ∈ srcRefHolders b kind k ↔ ∃ h ∈ b.holders, h.kind = kind ∧ h.key = k' ∧ k ∈ h.srcs := by
  simp only [srcRefHolders, holdersOf, List.mem_map, List.mem_filter, beq_iff_eq, List.contains_iff_mem]
  constructor
  · rintro ⟨h, ⟨⟨hh, hk⟩, hm⟩, rfl⟩; exact ⟨h, hh, hk, rfl, hm⟩
  · rintro ⟨h, hh, hk, rfl, hm⟩; exact ⟨h, ⟨⟨hh, hk⟩, hm⟩, rfl⟩

end Nix.Tree
