import NixModel.Lemmas.C20Core

/-!
# C20 — one generic copy routine behind the four callers

`File.create_block(copy_from)`, `Block.create_*(copy_from)`, `Section.create_property(copy_from)` and
`File/Section.copy_section` all (1) default the name to the source's, (2) open the destination
container (creating it if missing), (3) refuse an existing name, (4) call `H5Group.copy`.
`copyGeneric` is that routine; the `*_generic` lemmas show that each caller is an instance.
-/
namespace Nix.Store.C20
open Nix.Store Nix.Store.Graph Nix.Store.Lemmas

/-- the destination after its container group was opened / created -/
def destG (dst : Graph) (owner : Nat) (cls : String) : Graph := (dst.ensureGroup owner cls).1
/-- the destination container group -/
def destC (dst : Graph) (owner : Nat) (cls : String) : Nat := (dst.ensureGroup owner cls).2

/-- the name the copy gets: the supplied one, or the source's -/
def effName (src : Graph) (obj : Nat) (name : String) : String :=
  if name == "" then (src.getAttr obj "name").getD "" else name

/-- key map of a copy: source node ↦ its duplicate -/
def copyMap (src dst : Graph) (owner : Nat) (cls : String) (obj : Nat) (shallow : Bool) : Nat → Nat :=
  mapKey (keyMap (copySet src obj shallow) (destG dst owner cls).nextKey)

def copyGeneric (src dst : Graph) (owner : Nat) (cls : String) (obj : Nat) (name : String)
    (shallow keepId : Bool) : Except Err (Graph × Nat) :=
  if (destG dst owner cls).hasChild (destC dst owner cls) (effName src obj name) then .error .duplicateName
  else .ok (h5CopyCore src (destG dst owner cls) (destC dst owner cls) obj (effName src obj name)
              (copySet src obj shallow) (emptiedSet src obj shallow) keepId)

/-- `ensureGroup` a second time finds the group -/
theorem ensureGroup_idem (g : Graph) {p : Nat} (n : String) (hp : p ∈ keys g) :
    (g.ensureGroup p n).1.ensureGroup p n = ((g.ensureGroup p n).1, (g.ensureGroup p n).2) :=
  ensureGroup_of_some (child?_ensureGroup g n ((node?_isSome_iff g p).mpr hp))

/-- `h5Copy` on a destination whose container was already opened by the caller -/
theorem h5Copy_after_ensure (src dst : Graph) (obj owner : Nat) (cls name : String) (shallow keepId : Bool)
    (ho : owner ∈ keys dst) :
    h5Copy src (dst.ensureGroup owner cls).1 obj owner cls name shallow keepId =
      h5CopyCore src (destG dst owner cls) (destC dst owner cls) obj name
        (copySet src obj shallow) (emptiedSet src obj shallow) keepId := by
  rw [h5Copy_eq, ensureGroup_idem dst cls ho]; rfl

theorem generic_of_parts (src dst : Graph) (owner : Nat) (cls : String) (obj : Nat) (name : String)
    (shallow keepId : Bool) (ho : owner ∈ keys dst) :
    (if (dst.ensureGroup owner cls).1.hasChild (dst.ensureGroup owner cls).2 (effName src obj name) then
        (.error .duplicateName : Except Err Graph)
      else .ok (h5Copy src (dst.ensureGroup owner cls).1 obj owner cls (effName src obj name) shallow keepId).1) =
    (copyGeneric src dst owner cls obj name shallow keepId).map (·.1) := by
  unfold copyGeneric
  rw [h5Copy_after_ensure src dst obj owner cls _ shallow keepId ho]
  unfold destG destC
  split <;> rfl

theorem copyBlock_generic (src dst : Graph) (b : Nat) (name : String) (keepId : Bool)
    (hk : kindOf src b = "block") (h0 : 0 ∈ keys dst) :
    copyBlock src dst b name keepId = (copyGeneric src dst 0 "data" b name false keepId).map (·.1) := by
  rw [← generic_of_parts src dst 0 "data" b name false keepId h0]
  unfold copyBlock effName
  simp only [hk, bne_self_eq_false, Bool.false_eq_true, ↓reduceIte]

theorem copyBlock_kind (src dst : Graph) (b : Nat) (name : String) (keepId : Bool)
    (hk : kindOf src b ≠ "block") : copyBlock src dst b name keepId = .error .typeError := by
  unfold copyBlock
  have : (kindOf src b != "block") = true := by simpa using hk
  simp only [this, ↓reduceIte]

theorem copyProperty_generic (src dst : Graph) (sec p : Nat) (name : String) (keepId : Bool)
    (hs : kindOf dst sec = "section") (hk : kindOf src p = "property") (h0 : sec ∈ keys dst) :
    copyProperty src dst sec p name keepId =
      (copyGeneric src dst sec "properties" p name false keepId).map (·.1) := by
  rw [← generic_of_parts src dst sec "properties" p name false keepId h0]
  unfold copyProperty effName
  simp only [hs, hk, bne_self_eq_false, Bool.false_eq_true, ↓reduceIte]

def clsOf (what : String) : Option String :=
  match what with
  | "data_array" => some "data_arrays"
  | "tag" => some "tags"
  | "multi_tag" => some "multi_tags"
  | _ => none

theorem copyIntoBlock_generic (src dst : Graph) (bp : Path) (b : Loc) (what cls : String) (obj : Nat)
    (name : String) (keepId : Bool) (hb : resolve dst rootLoc bp = some b) (hbk : kindOf dst b.key = "block")
    (hcls : clsOf what = some cls) (hk : kindOf src obj = what) (h0 : b.key ∈ keys dst) :
    copyIntoBlock src dst bp what obj name keepId =
      (copyGeneric src dst b.key cls obj name false keepId).map (·.1) := by
  rw [← generic_of_parts src dst b.key cls obj name false keepId h0]
  unfold copyIntoBlock effName
  simp only [hb, hbk, bne_self_eq_false, Bool.false_eq_true, ↓reduceIte]
  unfold clsOf at hcls
  split at hcls
  · cases hcls; simp [hk]
  · cases hcls; simp [hk]
  · cases hcls; simp [hk]
  · cases hcls

/-- where `copy_section` puts the copy -/
def sectionDest (dst : Graph) (destOwner : Option Path) : Option (Nat × String) :=
  match destOwner with
  | none => some (0, "metadata")
  | some p =>
    match resolve dst rootLoc p with
    | some l => if kindOf dst l.key == "section" then some (l.key, "sections") else none
    | none => none

theorem copySection_body (src dst : Graph) (owner : Nat) (cls : String)
    (obj : Nat) (children keepId : Bool) (name : String) (h0 : owner ∈ keys dst) :
    (if (dst.ensureGroup owner cls).1.hasChild (dst.ensureGroup owner cls).2 (effName src obj name) = true then
        (.error .duplicateName : Except Err Graph)
      else if children = true then
        .ok (h5Copy src (dst.ensureGroup owner cls).1 obj owner cls (effName src obj name) (!children) keepId).1
      else readdProps src keepId (propsOf src obj)
        (h5Copy src (dst.ensureGroup owner cls).1 obj owner cls (effName src obj name) (!children) keepId).1
        (h5Copy src (dst.ensureGroup owner cls).1 obj owner cls (effName src obj name) (!children) keepId).2) =
      match copyGeneric src dst owner cls obj name (!children) keepId with
      | .error e => .error e
      | .ok (d1, root) =>
        if children then .ok d1 else readdProps src keepId (propsOf src obj) d1 root := by
  unfold copyGeneric
  rw [h5Copy_after_ensure src dst obj owner cls _ (!children) keepId h0]
  unfold destG destC
  split <;> rfl

theorem copySection_generic (src dst : Graph) (destOwner : Option Path) (owner : Nat) (cls : String)
    (obj : Nat) (children keepId : Bool) (name : String)
    (hd : sectionDest dst destOwner = some (owner, cls)) (hk : kindOf src obj = "section")
    (h0 : owner ∈ keys dst) :
    copySection src dst destOwner obj children keepId name =
      match copyGeneric src dst owner cls obj name (!children) keepId with
      | .error e => .error e
      | .ok (d1, root) =>
        if children then .ok d1 else readdProps src keepId (propsOf src obj) d1 root := by
  rw [← copySection_body src dst owner cls obj children keepId name h0]
  cases destOwner with
  | none =>
    simp only [sectionDest, Option.some.injEq, Prod.mk.injEq] at hd
    obtain ⟨rfl, rfl⟩ := hd
    simp only [copySection, hk, bne_self_eq_false, Bool.false_eq_true, ↓reduceIte]
    rfl
  | some p =>
    simp only [sectionDest] at hd
    cases hr : resolve dst rootLoc p with
    | none => rw [hr] at hd; cases hd
    | some l =>
      rw [hr] at hd
      simp only at hd
      split at hd
      · rename_i hkind
        simp only [Option.some.injEq, Prod.mk.injEq] at hd
        obtain ⟨rfl, rfl⟩ := hd
        simp only [copySection, hr, hkind, hk, bne_self_eq_false, Bool.false_eq_true, ↓reduceIte]
        rfl
      · cases hd

/-! ## the destination stays a well-keyed file through `ensureGroup` -/

theorem fileOk_ensureGroup {g : Graph} (h : FileOk g) {p : Nat} (n : String) (hp : p ∈ keys g) :
    FileOk (g.ensureGroup p n).1 := by
  refine ⟨(ensureGroup_destOk h p n).lt, ?_⟩
  intro k l hl
  rw [links_ensureGroup g n ((node?_isSome_iff g p).mpr hp)] at hl
  rw [keys_ensureGroup]
  split at hl
  · rename_i hc
    rw [if_pos hc.2]
    rcases List.mem_append.mp hl with h' | h'
    · exact List.mem_append.mpr (.inl (h.target k l h'))
    · simp at h'; subst h'; simp
  · have := h.target k l hl
    split
    · exact List.mem_append.mpr (.inl this)
    · exact this

theorem destOk_dest {dst : Graph} (h : FileOk dst) (owner : Nat) (cls : String) :
    DestOk (destG dst owner cls) (destC dst owner cls) := ensureGroup_destOk h owner cls

/-- a link appended to a group in which the name was free is found under that name -/
theorem child?_of_links_append {g g' : Graph} {c t : Nat} {n : String}
    (hl : g'.links c = g.links c ++ [(n, t)]) (hfree : g.hasChild c n = false) : g'.child? c n = some t := by
  have hnone : (g.links c).find? (fun l => l.1 == n) = none := by
    unfold Graph.hasChild Graph.child? at hfree
    cases hf : (g.links c).find? (fun l => l.1 == n) with
    | none => rfl
    | some x => rw [hf] at hfree; cases hfree
  unfold Graph.child?
  rw [hl, List.find?_append, hnone]
  simp

theorem copyGeneric_ok {src dst : Graph} {owner obj : Nat} {cls name : String} {shallow keepId : Bool}
    {g' : Graph} {root : Nat} (h : copyGeneric src dst owner cls obj name shallow keepId = .ok (g', root)) :
    (destG dst owner cls).hasChild (destC dst owner cls) (effName src obj name) = false ∧
    g' = (h5CopyCore src (destG dst owner cls) (destC dst owner cls) obj (effName src obj name)
              (copySet src obj shallow) (emptiedSet src obj shallow) keepId).1 ∧
    root = mapKey (keyMap (copySet src obj shallow) (destG dst owner cls).nextKey) obj := by
  unfold copyGeneric at h
  split at h
  · cases h
  · rename_i hf
    simp only [Except.ok.injEq] at h
    exact ⟨by simpa using hf, by rw [h], by rw [← core_root (src := src) (d0 := destG dst owner cls) (c := destC dst owner cls) (name := effName src obj name) (emptied := emptiedSet src obj shallow) (keepId := keepId), h]⟩

/-- the state after a copy call as the session sees it: a refused call changes nothing -/
def applyCopy (dst : Graph) (r : Except Err Graph) : Graph :=
  match r with
  | .ok g => g
  | .error _ => dst

theorem copySet_deep (src : Graph) (obj : Nat) : copySet src obj false = reachFrom src obj := rfl
theorem emptiedSet_deep (src : Graph) (obj : Nat) : emptiedSet src obj false = [] := rfl

end Nix.Store.C20
