import NixModel.Lemmas.StoreWFC03
import NixModel.Store.Frames

/-!
# C03: what a successful create call leaves behind (`Created`), for every create function,
and `WF` along the extended histories `OpX` (data frames, auto-created multi-tag arrays)
-/
namespace Nix.Store.Lemmas
open Nix.Store Nix.Store.Graph

/-! ## frame lemmas of `addDataset` and `createLinkIn` -/

theorem getAttr_addDataset (g : Graph) (k : Nat) (n : String) (x : Nat) (a : String) :
    (addDataset g k n).getAttr x a = g.getAttr x a := by
  unfold Store.addDataset
  split
  · rfl
  · rw [getAttr_addLink, getAttr_newNode]

theorem links_addDataset_ne (g : Graph) {k x : Nat} (n : String) (h : x ≠ k) :
    (addDataset g k n).links x = g.links x := by
  unfold Store.addDataset
  split
  · rfl
  · rw [links_addLink_ne _ _ _ h, links_newNode]

theorem child?_addDataset_ne (g : Graph) {k x : Nat} (n : String) (h : x ≠ k) (m : String) :
    (addDataset g k n).child? x m = g.child? x m := by
  simp [child?_eq, links_addDataset_ne g n h]

theorem keys_addDataset_mono (g : Graph) (k : Nat) (n : String) {x : Nat} (h : x ∈ keys g) :
    x ∈ keys (addDataset g k n) := by
  unfold Store.addDataset
  split
  · exact h
  · rw [keys_addLink, keys_newNode]; exact List.mem_append_left _ h

theorem nextId_addDataset (g : Graph) (k : Nat) (n : String) : (addDataset g k n).nextId = g.nextId := by
  unfold Store.addDataset
  split
  · rfl
  · rfl

theorem getAttr_createLinkIn (g : Graph) (p : Nat) (n : String) (t x : Nat) (a : String) :
    (createLinkIn g p n t).getAttr x a = g.getAttr x a := by
  unfold createLinkIn
  split
  · rw [getAttr_addLink, getAttr_delLink]
  · rw [getAttr_addLink]

theorem links_createLinkIn_ne (g : Graph) {p x : Nat} (n : String) (t : Nat) (h : x ≠ p) :
    (createLinkIn g p n t).links x = g.links x := by
  unfold createLinkIn
  split
  · rw [links_addLink_ne _ _ _ h, links_delLink_ne _ _ h]
  · rw [links_addLink_ne _ _ _ h]

theorem child?_createLinkIn_ne (g : Graph) {p x : Nat} (n : String) (t : Nat) (h : x ≠ p) (m : String) :
    (createLinkIn g p n t).child? x m = g.child? x m := by
  simp [child?_eq, links_createLinkIn_ne g n t h]

theorem keys_createLinkIn (g : Graph) (p : Nat) (n : String) (t : Nat) : keys (createLinkIn g p n t) = keys g := by
  unfold createLinkIn
  split
  · rw [keys_addLink, keys_delLink]
  · rw [keys_addLink]

theorem nextId_createLinkIn (g : Graph) (p : Nat) (n : String) (t : Nat) :
    (createLinkIn g p n t).nextId = g.nextId := by
  unfold createLinkIn
  split <;> rfl

/-! ## `Created`: the outcome of a successful create call, seen from the graph before the call -/

/-- `g'` is `g` after a create call that made the entity `k` under `name` in the container `cname`
of `ownerKey`: the invariant holds, `k` is a new node carrying the id the supply handed out, no
attribute (in particular no `entity_id`) of an existing node changed, and the container now holds
its old entries, in their order, followed by the new one -/
structure Created (g : Graph) (ownerKey : Nat) (cname name : String) (g' : Graph) (k : Nat) : Prop where
  wf : WF g'
  knew : k ∉ keys g
  kkey : k ∈ keys g'
  keys_mono : ∀ x ∈ keys g, x ∈ keys g'
  attrs_old : ∀ x ∈ keys g, ∀ a, g'.getAttr x a = g.getAttr x a
  eid : g'.entityId k = some (idStr g.nextId)
  nextId_le : g.nextId ≤ g'.nextId
  cont : ∃ c, g'.child? ownerKey cname = some c ∧ c ≠ k ∧
    g'.links c = cLinks g (g.child? ownerKey cname) ++ [(name, k)]
  /-- the owner's other children (its other containers, role links) are the same nodes -/
  child_owner : ∀ m, m ≠ cname → g'.child? ownerKey m = g.child? ownerKey m
  /-- and the link lists of all other existing nodes are untouched -/
  links_other : ∀ x ∈ keys g, x ≠ ownerKey → g.child? ownerKey cname ≠ some x → g'.links x = g.links x

/-- the container as `ensureGroup` leaves it holds what it held before (nothing, if it is new) -/
theorem EnsFacts.cLinks_eq {g g1 : Graph} {p c : Nat} {n : String} (hf : EnsFacts g p n g1 c) :
    cLinks g1 (g1.child? p n) = cLinks g (g.child? p n) := by
  rw [hf.child]
  cases hcc : g.child? p n with
  | some c' =>
    obtain ⟨e1, e2⟩ := hf.old c' hcc
    subst e1; subst e2; rfl
  | none =>
    show g1.links c = []
    exact (hf.new hcc).1

/-- from `NewEnt` on a base graph `g0` that differs from `g` by opened (empty) container groups -/
theorem NewEnt.created {g g0 g' : Graph} {ownerKey k : Nat} {cname nm kind : String}
    (hne : NewEnt g0 ownerKey cname nm (idStr g.nextId) kind g' k)
    (hkeys : ∀ x ∈ keys g, x ∈ keys g0) (hattrs : ∀ x a, g0.getAttr x a = g.getAttr x a)
    (hcl : cLinks g0 (g0.child? ownerKey cname) = cLinks g (g.child? ownerKey cname))
    (hni : g0.nextId = g.nextId)
    (hch : ∀ m, m ≠ cname → g0.child? ownerKey m = g.child? ownerKey m)
    (hlo : ∀ x ∈ keys g, x ≠ ownerKey → g0.links x = g.links x)
    (hcc : ∀ x ∈ keys g, g0.child? ownerKey cname = some x → g.child? ownerKey cname = some x) :
    Created g ownerKey cname nm g' k := by
  obtain ⟨c, hc1, hc2⟩ := hne.cont
  refine ⟨hne.wf, fun hk => hne.knew (hkeys k hk), hne.kkey, fun x hx => hne.keys_mono x (hkeys x hx),
    fun x hx a => by rw [hne.attrs_old x (hkeys x hx), hattrs], hne.eid, hni ▸ hne.nextId_le,
    ⟨c, hc1, ?_, by rw [hc2, hcl]⟩, fun m hm => by rw [hne.child_owner m hm, hch m hm], ?_⟩
  · intro e
    rw [e, hne.klinks] at hc2
    simp at hc2
  · intro x hx hxo hxc
    rw [hne.links_other x (hkeys x hx) hxo (fun e => hxc (hcc x hx e)), hlo x hx hxo]

/-- `ensureGroup` seen from the graph before: the side conditions of `NewEnt.created` -/
theorem EnsFacts.frame {g g1 : Graph} {p c : Nat} {n : String} (hf : EnsFacts g p n g1 c) (h : WF g) :
    (∀ m, m ≠ n → g1.child? p m = g.child? p m) ∧ (∀ x ∈ keys g, x ≠ p → g1.links x = g.links x) ∧
    (∀ x ∈ keys g, g1.child? p n = some x → g.child? p n = some x) := by
  refine ⟨fun m hm => hf.child_other p m (Or.inr hm), fun x _ hx => hf.links_other x hx, ?_⟩
  intro x hx e
  cases hcc : g.child? p n with
  | some c' =>
    obtain ⟨e1, _⟩ := hf.old c' hcc
    rw [e1, hcc] at e; exact e
  | none =>
    exfalso
    rw [hf.child] at e
    have : c = g.nextKey := (hf.new hcc).2.1
    rw [← Option.some.inj e, this] at hx
    exact h.nextKey_fresh hx

/-- adding the entity's own dataset (`data`, `position`) keeps the facts -/
theorem Created.addDataset {g g' : Graph} {ownerKey k : Nat} {cname name : String}
    (hc : Created g ownerKey cname name g' k) (n : String) (hown : ownerKey ∈ keys g)
    (hwf : WF (addDataset g' k n)) : Created g ownerKey cname name (addDataset g' k n) k := by
  obtain ⟨c, hc1, hc2, hc3⟩ := hc.cont
  have hok : ownerKey ≠ k := fun e => hc.knew (e ▸ hown)
  exact ⟨hwf, hc.knew, keys_addDataset_mono _ _ _ hc.kkey, fun x hx => keys_addDataset_mono _ _ _ (hc.keys_mono x hx),
    fun x hx a => by rw [getAttr_addDataset, hc.attrs_old x hx], by rw [entityId_eq, getAttr_addDataset]; exact hc.eid,
    by rw [nextId_addDataset]; exact hc.nextId_le,
    ⟨c, by rw [child?_addDataset_ne _ _ hok]; exact hc1, hc2, by rw [links_addDataset_ne _ _ hc2]; exact hc3⟩,
    fun m hm => by rw [child?_addDataset_ne _ _ hok]; exact hc.child_owner m hm,
    fun x hx hxo hxc => by
      have hxk : x ≠ k := fun e => hc.knew (by rw [← e]; exact hx)
      rw [links_addDataset_ne _ _ hxk]; exact hc.links_other x hx hxo hxc⟩

/-- setting a role link (`positions`, `extents`) of the new entity keeps the facts -/
theorem Created.createLinkIn {g g' : Graph} {ownerKey k : Nat} {cname name : String}
    (hc : Created g ownerKey cname name g' k) (n : String) (t : Nat) (hown : ownerKey ∈ keys g)
    (hwf : WF (createLinkIn g' k n t)) : Created g ownerKey cname name (createLinkIn g' k n t) k := by
  obtain ⟨c, hc1, hc2, hc3⟩ := hc.cont
  have hok : ownerKey ≠ k := fun e => hc.knew (e ▸ hown)
  exact ⟨hwf, hc.knew, by rw [keys_createLinkIn]; exact hc.kkey,
    fun x hx => by rw [keys_createLinkIn]; exact hc.keys_mono x hx,
    fun x hx a => by rw [getAttr_createLinkIn, hc.attrs_old x hx],
    by rw [entityId_eq, getAttr_createLinkIn]; exact hc.eid,
    by rw [nextId_createLinkIn]; exact hc.nextId_le,
    ⟨c, by rw [child?_createLinkIn_ne _ _ _ hok]; exact hc1, hc2, by rw [links_createLinkIn_ne _ _ _ hc2]; exact hc3⟩,
    fun m hm => by rw [child?_createLinkIn_ne _ _ _ hok]; exact hc.child_owner m hm,
    fun x hx hxo hxc => by
      have hxk : x ≠ k := fun e => hc.knew (by rw [← e]; exact hx)
      rw [links_createLinkIn_ne _ _ _ hxk]; exact hc.links_other x hx hxo hxc⟩

/-- ids never change: a create call leaves the `entity_id` of every existing node as it was -/
theorem Created.entityId_old {g g' : Graph} {ownerKey k : Nat} {cname name : String}
    (hc : Created g ownerKey cname name g' k) (x : Nat) (hx : x ∈ keys g) : g'.entityId x = g.entityId x := by
  rw [entityId_eq, hc.attrs_old x hx]; rfl

/-! ## every create function: a successful call is `Created` -/

theorem WF.createBlock_created {g g' : Graph} (h : WF g) {name type : String}
    (hnf : ∀ m, g.nextId ≤ m → name ≠ idStr m) (hn : name ≠ "") (hres : Store.createBlock g name type = .ok g') :
    ∃ k, Created g 0 "data" name g' k := by
  obtain ⟨k, nm, h1, _, hne⟩ := h.createBlock_new hnf hres
  have hf := h.ensFacts "data" h.root
  rw [h1 hn] at hne
  exact ⟨k, hne.created hf.keys_mono hf.attrs hf.cLinks_eq hf.nextId (hf.frame h).1 (hf.frame h).2.1 (hf.frame h).2.2⟩

theorem WF.createSection_created {g g' : Graph} (h : WF g) {p : Path} {name type : String}
    (hnf : ∀ m, g.nextId ≤ m → name ≠ idStr m) (hn : name ≠ "") (hres : Store.createSection g p name type = .ok g') :
    ∃ o k, resolve g rootLoc p = some o ∧
      Created g o.key (if p = [] then "metadata" else "sections") name g' k := by
  obtain ⟨o, k, nm, hr, h1, _, hne⟩ := h.createSection_new hnf hres
  rw [h1 hn] at hne
  refine ⟨o, k, hr, ?_⟩
  cases p with
  | nil => exact hne.created (fun _ hx => hx) (fun _ _ => rfl) rfl rfl (fun _ _ => rfl) (fun _ _ _ => rfl) (fun _ _ e => e)
  | cons s ps =>
    have hf := h.ensFacts "sections" (h.resolve_root_key hr)
    simp only [reduceCtorEq, ↓reduceIte] at hne ⊢
    exact hne.created hf.keys_mono hf.attrs hf.cLinks_eq hf.nextId (hf.frame h).1 (hf.frame h).2.1 (hf.frame h).2.2

/-- `Block.create_group / create_data_array / create_tag / create_multi_tag(positions = array) /
create_source`, `Source.create_source` -/
theorem WF.createIn_created {g g' : Graph} (h : WF g) {ownerPath : Path} {what name type : String}
    {extra : Option Nat} (hnf : ∀ m, g.nextId ≤ m → name ≠ idStr m)
    (hres : Store.createIn g ownerPath what name type extra = .ok g') :
    ∃ o k cname kind, resolve g rootLoc ownerPath = some o ∧
      createSpec (kindOf g o.key) what = some (cname, kind) ∧ Created g o.key cname name g' k := by
  unfold Store.createIn at hres
  cases hr : resolve g rootLoc ownerPath with
  | none => simp [hr] at hres
  | some o =>
    simp only [hr] at hres
    change (match createSpec (kindOf g o.key) what with
      | none => Except.error Err.attributeError
      | some (cname, kind) => _) = _ at hres
    cases hsp : createSpec (kindOf g o.key) what with
    | none => simp [hsp] at hres
    | some ck =>
      obtain ⟨cname, kind⟩ := ck
      simp only [hsp] at hres
      obtain ⟨info, hci, hpl, hitem, hokne, hkne, hd1, hd2, hd3⟩ := createSpec_info hsp
      cases hcn : checkNameType name type with
      | error e => simp [hcn] at hres
      | ok u =>
        simp only [hcn] at hres
        have hokey : o.key ∈ keys g := h.resolve_root_key hr
        have hname : name ≠ "" := by
          intro e
          simp [checkNameType, e] at hcn
        -- the base graph
        have hbase : ∃ g0, g0 = (if (kindOf g o.key == "source") = true then (g.ensureGroup o.key cname).1 else g) ∧
            WF g0 ∧ (∀ x ∈ keys g, x ∈ keys g0) ∧ (∀ k a, g0.getAttr k a = g.getAttr k a) ∧ g0.nextId = g.nextId ∧
            cLinks g0 (g0.child? o.key cname) = cLinks g (g.child? o.key cname) ∧
            ((∀ m, m ≠ cname → g0.child? o.key m = g.child? o.key m) ∧ (∀ x ∈ keys g, x ≠ o.key → g0.links x = g.links x) ∧
              (∀ x ∈ keys g, g0.child? o.key cname = some x → g.child? o.key cname = some x)) := by
          refine ⟨_, rfl, ?_⟩
          by_cases hs : (kindOf g o.key == "source") = true
          · simp only [hs, ↓reduceIte]
            have hf := h.ensFacts cname hokey
            exact ⟨h.ensureGroup cname hokey (h.not_cont_of_kind hokne) (fun m _ => containerInfo_notId hci m),
              hf.keys_mono, hf.attrs, hf.nextId, hf.cLinks_eq, hf.frame h⟩
          · simp only [hs]
            exact ⟨h, fun _ hx => hx, fun _ _ => rfl, rfl, rfl, fun _ _ => rfl, fun _ _ _ => rfl, fun _ _ e => e⟩
        obtain ⟨g0, hg0, w0, hkeys0, hattr0, hni0, hcl0, hfr0⟩ := hbase
        have hokey0 : o.key ∈ keys g0 := hkeys0 _ hokey
        rw [← hg0] at hres
        have hko0 : kindOf g0 o.key = kindOf g o.key := by rw [kindOf_eq, hattr0]; rfl
        have hci0 : containerInfo (okind g0 o.key) cname = some info := by
          rw [w0.okind_of_kind (by rw [hko0]; exact hokne), hko0]; exact hci
        have hfree : name ≠ "" → ∀ c, g0.child? o.key cname = some c → g0.child? c name = none := by
          intro _ c hc
          rw [hc] at hres
          simp only at hres
          by_cases hd : g0.hasChild c name = true
          · simp [hd] at hres
          · rw [hasChild_eq] at hd
            cases hx : g0.child? c name <;> simp_all
        refine ⟨o, ?_⟩
        cases hcc : g0.child? o.key cname
        case' some c =>
          have hd : g0.hasChild c name = false := by rw [hasChild_eq, hfree hname c hcc]; rfl
          rw [hcc] at hres
          simp only [hd] at hres
        case' none =>
          rw [hcc] at hres
          simp only at hres
        all_goals
          simp only [Bool.false_eq_true, ↓reduceIte] at hres
          have hnf0 : ∀ m, g0.nextId ≤ m → name ≠ idStr m := by rw [hni0]; exact hnf
          by_cases hmt : kind = "multi_tag"
          · simp only [hmt, beq_self_eq_true, ↓reduceIte] at hres
            cases extra with
            | none => simp at hres
            | some pos =>
              simp only at hres
              cases hec : Store.entityCreateNew g0 o.key cname name type "multi_tag" with
              | error e => simp [hec] at hres
              | ok r =>
                obtain ⟨g1, k⟩ := r
                simp only [hec] at hres
                obtain ⟨nm, hnm, _, hne, _⟩ := w0.entityCreateNew hokey0 hci0 hpl (hitem.trans hmt) hfree hnf0 hec
                rw [hnm hname, hni0] at hne
                have hcr := hne.created hkeys0 hattr0 hcl0 hni0 hfr0.1 hfr0.2.1 hfr0.2.2
                by_cases hk1 : isKind g1 pos "data_array" = true
                · simp only [hk1, Bool.not_true, Bool.false_eq_true, ↓reduceIte] at hres
                  by_cases hk2 : inBlockStore g1 o.key "data_arrays" pos = true
                  · simp only [hk2, Bool.not_true, Bool.false_eq_true, ↓reduceIte, Except.ok.injEq] at hres
                    rw [← hres]
                    have hkp : kindOf g1 pos = "data_array" := isKind_iff.mp hk1
                    have hk0 : k ≠ 0 := fun e => hne.knew (e ▸ w0.root)
                    refine ⟨k, cname, kind, rfl, hsp, hcr.createLinkIn "positions" pos hokey ?_⟩
                    apply hne.wf.createLinkIn_role hne.kkey (mem_keys_of_kind (by rw [hkp]; decide))
                      (hne.wf.not_cont_of_kind (by rw [hne.kind]; decide))
                      (hne.wf.not_cont_of_kind (by rw [hkp]; decide))
                      (fun m _ => notId_of_head (by decide) m)
                    rw [hne.wf.okind_of_kind (by rw [hne.kind]; decide), hne.kind]; rfl
                  · simp [hk2] at hres
                · simp [hk1] at hres
          · have hmt' : (kind == "multi_tag") = false := by simpa using hmt
            simp only [hmt', Bool.false_eq_true, ↓reduceIte] at hres
            cases hec : Store.entityCreateNew g0 o.key cname name type kind with
            | error e => simp [hec] at hres
            | ok r =>
              obtain ⟨g1, k⟩ := r
              simp only [hec] at hres
              obtain ⟨nm, hnm, _, hne, _⟩ := w0.entityCreateNew hokey0 hci0 hpl hitem hfree hnf0 hec
              rw [hnm hname, hni0] at hne
              have hcr := hne.created hkeys0 hattr0 hcl0 hni0 hfr0.1 hfr0.2.1 hfr0.2.2
              have hkc : ¬ IsCont g1 k := hne.wf.not_cont_of_kind (by rw [hne.kind]; exact hkne)
              have hokk : okind g1 k = kind := by
                rw [hne.wf.okind_of_kind (by rw [hne.kind]; exact hkne), hne.kind]
              by_cases hda : kind = "data_array"
              · simp only [hda, beq_self_eq_true, ↓reduceIte, Except.ok.injEq] at hres
                rw [← hres]
                exact ⟨k, cname, kind, rfl, hsp, hcr.addDataset "data" hokey
                  (hne.wf.addDataset hne.kkey hkc (notId_of_head (by decide)) (by rw [hokk]; exact hd1))⟩
              · have hda' : (kind == "data_array") = false := by simpa using hda
                simp only [hda', Bool.false_eq_true, ↓reduceIte] at hres
                by_cases htg : kind = "tag"
                · simp only [htg, beq_self_eq_true, ↓reduceIte, Except.ok.injEq] at hres
                  rw [← hres]
                  exact ⟨k, cname, kind, rfl, hsp, hcr.addDataset "position" hokey
                    (hne.wf.addDataset hne.kkey hkc (notId_of_head (by decide)) (by rw [hokk]; exact hd2))⟩
                · have htg' : (kind == "tag") = false := by simpa using htg
                  simp only [htg', Bool.false_eq_true, ↓reduceIte, Except.ok.injEq] at hres
                  rw [← hres]; exact ⟨k, cname, kind, rfl, hsp, hcr⟩

/-- `Block.create_data_frame` -/
theorem WF.createFrame_created {g g' : Graph} (h : WF g) {ownerPath : Path} {name type : String}
    (hnf : ∀ m, g.nextId ≤ m → name ≠ idStr m) (hres : Store.createFrame g ownerPath name type = .ok g') :
    ∃ o k, resolve g rootLoc ownerPath = some o ∧ kindOf g o.key = "block" ∧
      Created g o.key "data_frames" name g' k := by
  unfold Store.createFrame at hres
  cases hr : resolve g rootLoc ownerPath with
  | none => simp [hr] at hres
  | some o =>
    simp only [hr] at hres
    by_cases hk : kindOf g o.key = "block"
    · have hk' : (kindOf g o.key != "block") = false := by simpa using hk
      simp only [hk', Bool.false_eq_true, ↓reduceIte] at hres
      cases hcn : checkNameType name type with
      | error e => simp [hcn] at hres
      | ok u =>
        simp only [hcn] at hres
        have hokey : o.key ∈ keys g := h.resolve_root_key hr
        have hokne : kindOf g o.key ≠ "" := by rw [hk]; decide
        have hname : name ≠ "" := by
          intro e
          simp [checkNameType, e] at hcn
        have hci : containerInfo (okind g o.key) "data_frames" = some { flavour := .plain, item := "data_frame" } := by
          rw [h.okind_of_kind hokne, hk]; rfl
        have hfree : name ≠ "" → ∀ c, g.child? o.key "data_frames" = some c → g.child? c name = none := by
          intro _ c hc
          rw [hc] at hres
          simp only at hres
          by_cases hd : g.hasChild c name = true
          · simp [hd] at hres
          · rw [hasChild_eq] at hd
            cases hx : g.child? c name <;> simp_all
        refine ⟨o, ?_⟩
        cases hcc : g.child? o.key "data_frames"
        case' some c =>
          have hd : g.hasChild c name = false := by rw [hasChild_eq, hfree hname c hcc]; rfl
          rw [hcc] at hres
          simp only [hd] at hres
        case' none =>
          rw [hcc] at hres
          simp only at hres
        all_goals
          simp only [Bool.false_eq_true, ↓reduceIte] at hres
          cases hec : Store.entityCreateNew g o.key "data_frames" name type "data_frame" with
          | error e => simp [hec] at hres
          | ok r =>
            obtain ⟨g1, k⟩ := r
            simp only [hec, Except.ok.injEq] at hres
            obtain ⟨nm, hnm, _, hne, _⟩ := h.entityCreateNew hokey hci rfl rfl hfree hnf hec
            rw [hnm hname] at hne
            have hcr := hne.created (fun _ hx => hx) (fun _ _ => rfl) rfl rfl (fun _ _ => rfl) (fun _ _ _ => rfl) (fun _ _ e => e)
            have hkc : ¬ IsCont g1 k := hne.wf.not_cont_of_kind (by rw [hne.kind]; decide)
            have hokk : okind g1 k = "data_frame" := by
              rw [hne.wf.okind_of_kind (by rw [hne.kind]; decide), hne.kind]
            rw [← hres]
            exact ⟨k, rfl, hk, hcr.addDataset "data" hokey
              (hne.wf.addDataset hne.kkey hkc (notId_of_head (by decide)) (by rw [hokk]; rfl))⟩
    · have hk' : (kindOf g o.key != "block") = true := by simpa using hk
      simp [hk'] at hres

theorem WF.createFrame {g g' : Graph} (h : WF g) {ownerPath : Path} {name type : String}
    (hnf : ∀ m, g.nextId ≤ m → name ≠ idStr m) (hres : Store.createFrame g ownerPath name type = .ok g') : WF g' := by
  obtain ⟨_, _, _, _, hc⟩ := h.createFrame_created hnf hres
  exact hc.wf

/-! ## `WF` along the extended histories -/

/-- the name an operation gives to a new entity, if it creates one by name -/
def OpX.newName : OpX → Option String
  | .base op => Op.newName op
  | .createFrame _ n _ => some n

/-- `uuid4` freshness: the call does not name its entity with an id that is still to be drawn -/
def OpX.Fresh (g : Graph) (op : OpX) : Prop :=
  ∀ n, OpX.newName op = some n → ∀ m, g.nextId ≤ m → n ≠ idStr m

def FreshHistX : Graph → List OpX → Prop
  | _, [] => True
  | g, op :: rest => OpX.Fresh g op ∧ FreshHistX (stepX g op) rest

theorem WF.applyX {g g' : Graph} (h : WF g) {op : OpX} (hf : OpX.Fresh g op)
    (ha : Store.applyX g op = some (.ok g')) : WF g' := by
  cases op with
  | base op => exact h.apply (op := op) hf ha
  | createFrame o n t =>
    simp only [Store.applyX, Option.some.injEq] at ha
    exact h.createFrame (hf n rfl) ha

theorem WF.stepX {g : Graph} (h : WF g) {op : OpX} (hf : OpX.Fresh g op) : WF (stepX g op) := by
  unfold Store.stepX
  split
  · rename_i g' ha; exact h.applyX hf ha
  · exact h

theorem WF.runX {g : Graph} (h : WF g) {ops : List OpX} (hf : FreshHistX g ops) : WF (runX g ops) := by
  induction ops generalizing g with
  | nil => exact h
  | cons op rest ih =>
    simp only [Store.runX, List.foldl_cons]
    exact ih (h.stepX hf.1) hf.2

/-- reachability through the extended histories, with the freshness proviso -/
def ReachableFreshX (g : Graph) : Prop := ∃ ops, FreshHistX init ops ∧ g = runX init ops

theorem ReachableFreshX.wf {g : Graph} (h : ReachableFreshX g) : WF g :=
  let ⟨_, hf, e⟩ := h; e ▸ wf_init.runX hf

theorem ReachableFreshX.reachable {g : Graph} (h : ReachableFreshX g) : ReachableX g :=
  let ⟨ops, _, e⟩ := h; ⟨ops, e⟩

theorem ReachableFreshX.step {g : Graph} (h : ReachableFreshX g) {op : OpX} (hf : OpX.Fresh g op) :
    ReachableFreshX (Store.stepX g op) := by
  obtain ⟨ops, hfs, e⟩ := h
  refine ⟨ops ++ [op], ?_, ?_⟩
  · subst e
    generalize init = g0 at *
    induction ops generalizing g0 with
    | nil => exact ⟨hf, trivial⟩
    | cons o rest ih => exact ⟨hfs.1, ih _ hfs.2 hf⟩
  · subst e; simp [Store.runX, List.foldl_append]

/-- the histories of `Store/Step.lean` are histories of the extended type -/
theorem ReachableFresh.toX {g : Graph} (h : ReachableFresh g) : ReachableFreshX g := by
  obtain ⟨ops, hf, e⟩ := h
  refine ⟨ops.map .base, ?_, by rw [runX_base]; exact e⟩
  clear e
  generalize init = g0 at *
  induction ops generalizing g0 with
  | nil => trivial
  | cons o rest ih => exact ⟨hf.1, by rw [stepX_base]; exact ih _ hf.2⟩

end Nix.Store.Lemmas
