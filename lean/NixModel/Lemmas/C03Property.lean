import NixModel.Lemmas.C03Accept
import NixModel.Lemmas.C03Succeeds

/-!
# C03 — `Section.create_property` seen from the graph before: `Created`

So that the acceptance packaging (`Created.accepted`: appended last under its name, fresh id, addressable by position
/ name / id / entity object, delete-by-name restores the list) applies to properties as to every other kind.
-/
namespace Nix.Store.Lemmas
open Nix.Store Nix.Store.Graph

theorem WF.createProperty_created {g g' : Graph} (h : WF g) {ownerPath : Path} {name : String}
    (hnf : ∀ m, g.nextId ≤ m → name ≠ idStr m) (hres : Store.createProperty g ownerPath name = .ok g') :
    ∃ o k, resolve g rootLoc ownerPath = some o ∧ kindOf g o.key = "section" ∧
      Created g o.key "properties" name g' k := by
  have wf' : WF g' := h.createProperty hnf hres
  unfold Store.createProperty at hres
  cases hr : resolve g rootLoc ownerPath with
  | none => simp [hr] at hres
  | some o =>
    simp only [hr] at hres
    by_cases hk : kindOf g o.key = "section"
    · have hk' : (kindOf g o.key != "section") = false := by simpa using hk
      simp only [hk', Bool.false_eq_true, ↓reduceIte] at hres
      have hokey : o.key ∈ keys g := h.resolve_root_key hr
      have hkne : kindOf g o.key ≠ "" := by rw [hk]; decide
      have w1 : WF (g.ensureGroup o.key "properties").1 :=
        h.ensureGroup "properties" hokey (h.not_cont_of_kind hkne) (fun m _ => notId_of_head (by decide) m)
      have hf := h.ensFacts "properties" hokey
      replace hres : (if (name != "" && (g.ensureGroup o.key "properties").1.hasChild
            (g.ensureGroup o.key "properties").2 name) = true then Except.error Err.duplicateName
          else if (name == "") = true then Except.error Err.valueError
          else if hasSlash name = true then Except.error Err.valueError
          else Except.ok ((((((((g.ensureGroup o.key "properties").1.newNode .dataset).1.addLink
            (g.ensureGroup o.key "properties").2 name (g.ensureGroup o.key "properties").1.nextKey).setAttr
            (g.ensureGroup o.key "properties").1.nextKey "name" (some name)).freshId).1.setAttr
            (g.ensureGroup o.key "properties").1.nextKey "entity_id"
              (some (idStr (g.ensureGroup o.key "properties").1.nextId))).setAttr
            (g.ensureGroup o.key "properties").1.nextKey "~kind" (some "property")))) = .ok g' := hres
      have hcl := hf.cLinks_eq
      generalize hg1 : (g.ensureGroup o.key "properties").1 = g1 at *
      generalize hc1 : (g.ensureGroup o.key "properties").2 = c at *
      by_cases hn : name = ""
      · subst hn; simp at hres
      · have hn' : (name != "") = true := by simpa using hn
        have hn'' : (name == "") = false := by simpa using hn
        by_cases hdup : g1.hasChild c name = true
        · simp [hn', hdup] at hres
        · simp only [hn', hdup, Bool.and_false, Bool.false_eq_true, ↓reduceIte, hn''] at hres
          by_cases hs : hasSlash name = true
          · simp [hs] at hres
          · simp only [hs, Bool.false_eq_true, ↓reduceIte, Except.ok.injEq] at hres
            have hck : c ≠ g1.nextKey := fun e => w1.nextKey_fresh (e ▸ hf.ckey)
            rw [setAttr_addLink_comm _ _ _ _ _ hck, freshId_addLink_comm, setAttr_addLink_comm _ _ _ _ _ hck,
              setAttr_addLink_comm _ _ _ _ _ hck] at hres
            have hkN : ((g1.newNode .dataset).1.node? g1.nextKey).isSome := by
              rw [node?_isSome_newNode]; simp
            generalize hA : ((((g1.newNode .dataset).1.setAttr g1.nextKey "name" (some name)).freshId).1.setAttr
              g1.nextKey "entity_id" (some (idStr g1.nextId))).setAttr g1.nextKey "~kind" (some "property") = gA
              at *
            have a2 : gA.getAttr g1.nextKey "entity_id" = some (idStr g1.nextId) := by
              rw [← hA, getAttr_setAttr_attr_ne _ _ _ _ (by decide), getAttr_setAttr_self]
              simp only [node?_isSome_setAttr, node?_freshId]; exact hkN
            have hokne : o.key ≠ g1.nextKey := fun e => w1.nextKey_fresh (e ▸ hf.keys_mono _ hokey)
            have hattrA : ∀ x, x ≠ g1.nextKey → ∀ a, gA.getAttr x a = g.getAttr x a := by
              intro x hx a
              rw [← hA, getAttr_setAttr_ne _ _ _ hx, getAttr_setAttr_ne _ _ _ hx]
              show ((g1.newNode .dataset).1.setAttr g1.nextKey "name" (some name)).getAttr x a = _
              rw [getAttr_setAttr_ne _ _ _ hx, getAttr_newNode, hf.attrs]
            have hchA : ∀ x m, gA.child? x m = g1.child? x m := by
              intro x m
              rw [← hA, child?_setAttr, child?_setAttr]
              show ((g1.newNode .dataset).1.setAttr g1.nextKey "name" (some name)).child? x m = _
              rw [child?_setAttr, child?_newNode]
            have hlinksA : ∀ x, gA.links x = g1.links x := by
              intro x
              rw [← hA, links_setAttr, links_setAttr]
              show ((g1.newNode .dataset).1.setAttr g1.nextKey "name" (some name)).links x = _
              rw [links_setAttr, links_newNode]
            have hkeysA : keys gA = keys g1 ++ [g1.nextKey] := by
              rw [← hA, keys_setAttr, keys_setAttr]
              show keys ((g1.newNode .dataset).1.setAttr g1.nextKey "name" (some name)) = _
              rw [keys_setAttr, keys_newNode]
            have hniA : gA.nextId = g.nextId + 1 := by
              rw [← hA]; simp only [nextId_setAttr, nextId_freshId, nextId_newNode]; rw [hf.nextId]
            have hcnode : (gA.node? c).isSome := by
              apply (node?_isSome_iff gA c).mpr
              rw [hkeysA]; simp [hf.ckey]
            have hknew : g1.nextKey ∉ keys g := fun e => w1.nextKey_fresh (hf.keys_mono _ e)
            have hcno : o.key ≠ c := by
              intro e
              have hci1 : containerInfo (okind g1 o.key) "properties" = some { flavour := .plain, item := "property" } := by
                rw [okind_congr (fun k => hf.attrs k _), h.okind_of_kind hkne, hk]; rfl
              exact w1.not_cont_of_owner hci1 (e ▸ ⟨o.key, "properties", _, hci1, hf.child⟩)
            rw [← hres]
            refine ⟨o, g1.nextKey, rfl, hk, ?_⟩
            refine { wf := by rw [hres]; exact wf', knew := hknew, kkey := ?_, keys_mono := ?_, attrs_old := ?_,
                     eid := ?_, nextId_le := ?_, cont := ?_, child_owner := ?_, links_other := ?_ }
            · rw [keys_addLink, hkeysA]; simp
            · intro x hx
              rw [keys_addLink, hkeysA]
              exact List.mem_append_left _ (hf.keys_mono _ hx)
            · intro x hx a
              rw [getAttr_addLink]
              exact hattrA x (fun e => hknew (e ▸ hx)) a
            · rw [entityId_eq, getAttr_addLink, a2, hf.nextId]
            · rw [nextId_addLink, hniA]; omega
            · refine ⟨c, ?_, hck, ?_⟩
              · rw [child?_addLink_ne _ _ _ hcno, hchA]; exact hf.child
              · rw [links_addLink_self _ _ _ hcnode, hlinksA]
                rw [hf.child] at hcl
                exact congrArg (· ++ [(name, g1.nextKey)]) hcl
            · intro m hm
              rw [child?_addLink_ne _ _ _ hcno, hchA]
              exact hf.child_other o.key m (Or.inr hm)
            · intro x hx hxo hxc
              have hxc' : x ≠ c := by
                intro e
                cases hcc : g.child? o.key "properties" with
                | some c' =>
                  obtain ⟨_, e2⟩ := hf.old c' hcc
                  exact hxc (by rw [hcc, e, e2])
                | none =>
                  have := (hf.new hcc).2.1
                  exact h.nextKey_fresh (this ▸ e ▸ hx)
              rw [links_addLink_ne _ _ _ hxc', hlinksA]
              exact hf.links_other x hxo
    · have hk' : (kindOf g o.key != "section") = true := by simpa using hk
      simp [hk'] at hres

/-- **`Section.create_property` succeeds** for every legal name (non-empty, no slash) that no property of the section
carries -/
theorem WF.createProperty_ok {g : Graph} (h : WF g) {p : Path} {o : Loc} {name : String}
    (hr : resolve g rootLoc p = some o) (hk : kindOf g o.key = "section") (hn : name ≠ "")
    (hs : hasSlash name = false) (hnew : ∀ l ∈ cLinks g (g.child? o.key "properties"), l.1 ≠ name) :
    ∃ g', Store.createProperty g p name = .ok g' := by
  have hokey : o.key ∈ keys g := h.resolve_root_key hr
  have hf := h.ensFacts "properties" hokey
  have hd : (g.ensureGroup o.key "properties").1.hasChild (g.ensureGroup o.key "properties").2 name = false := by
    cases hcc : g.child? o.key "properties" with
    | some c' =>
      obtain ⟨e1, e2⟩ := hf.old c' hcc
      rw [e1, e2]
      exact hasChild_false_of_new hnew hcc
    | none =>
      rw [hasChild_eq, child?_eq, (hf.new hcc).1]; rfl
  have hn' : (name == "") = false := by simpa using hn
  unfold Store.createProperty
  simp only [hr, hk, bne_self_eq_false, Bool.false_eq_true, ↓reduceIte, hd, Bool.and_false, hn', hs]
  exact ⟨_, rfl⟩

end Nix.Store.Lemmas
