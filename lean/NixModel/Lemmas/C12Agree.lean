import NixModel.Store.ApiW

/-!
# C12 — the writers of `Store/ApiW.lean` agree with the `Except` API of `Store/Api.lean`

`toExcept (fW g args) = f g args`: the writer succeeds exactly when the API function does, with the
same resulting graph, and is refused with the same error class.
-/
namespace Nix.Store.Lemmas
open Nix.Store Nix.Store.Graph

theorem toExcept_checked (g : Graph) (r : Except Err Graph) : toExcept (checked g r) = r := by
  cases r <;> rfl

@[simp] theorem toExcept_err (g : Graph) (e : Err) : toExcept (g, some e) = .error e := rfl
@[simp] theorem toExcept_ok (g : Graph) : toExcept (g, none) = .ok g := rfl

theorem entityCreateNew_eq (g : Graph) (o : Nat) (cn n t kd : String) :
    entityCreateNew g o cn n t kd =
      (match entityCreateNewW g o cn n t kd with
       | (g', .ok ck) => .ok (g', ck.2)
       | (_, .error e) => .error e) := by
  unfold entityCreateNew entityCreateNewW
  by_cases h1 : (n == "") = true
  · simp only [h1, ↓reduceIte]
    repeat (first | rfl | split)
  · simp only [h1]
    by_cases h2 : (t != "") = true
    · simp only [h2, ↓reduceIte, Bool.false_eq_true]
      repeat (first | rfl | split)
    · simp only [h2, ↓reduceIte, Bool.false_eq_true]
      repeat (first | rfl | split)

/-- the end of every `create_*`: `Entity.create_new`, result graph only -/
theorem tail_agrees (g : Graph) (o : Nat) (cn n t kd : String) :
    toExcept (match entityCreateNewW g o cn n t kd with
              | (g1, .ok _) => (g1, none)
              | (g1, .error e) => (g1, some e)) =
      (entityCreateNew g o cn n t kd).map (·.1) := by
  rw [entityCreateNew_eq]
  rcases entityCreateNewW g o cn n t kd with ⟨g1, (e | ck)⟩ <;> rfl

/-- case-split the writer's next test and rewrite the API side with the fact obtained -/
macro "agree_step" : tactic =>
  `(tactic| (split <;> (try simp_all only [toExcept_err, toExcept_ok]) <;> (try rfl) <;>
      (try exact tail_agrees _ _ _ _ _ _)))

theorem createBlockW_agrees (g : Graph) (n t : String) :
    toExcept (createBlockW g n t) = createBlock g n t := by
  unfold createBlockW createBlock
  simp only
  split
  · rfl
  · exact tail_agrees _ _ _ _ _ _

theorem createSectionW_agrees (g : Graph) (p : Path) (n t : String) :
    toExcept (createSectionW g p n t) = createSection g p n t := by
  unfold createSectionW createSection
  cases p with
  | nil =>
    simp only
    agree_step
    agree_step
  | cons s ps =>
    simp only
    agree_step
    agree_step
    agree_step
    agree_step

theorem createPropertyW_agrees (g : Graph) (p : Path) (n : String) :
    toExcept (createPropertyW g p n) = createProperty g p n := by
  unfold createPropertyW createProperty
  agree_step
  agree_step
  agree_step
  agree_step
  agree_step

theorem createFeatureW_agrees (g : Graph) (p : Path) (d : Option Nat) (lt : String) :
    toExcept (createFeatureW g p d lt) = createFeature g p d lt := by
  unfold createFeatureW createFeature dfTagged
  agree_step
  agree_step
  agree_step
  cases d with
  | none => simp
  | some t =>
    simp only
    cases hb : blockOfPath g p with
    | none => simp
    | some b =>
      simp only [Option.isSome_some, Bool.true_and]
      by_cases h1 : (isKind g t "data_frame" && lt.toLower == "tagged") = true
      · simp only [h1, ↓reduceIte]; rfl
      · simp only [h1, ↓reduceIte, Bool.false_eq_true]
        repeat (first | rfl | split)

/-- `createIn` of `Api.lean`, with its table of (owner kind, what) named `createSpec` -/
def createInS (g : Graph) (ownerPath : Path) (what name type : String) (extra : Option Nat) :
    Except Err Graph :=
  match resolve g rootLoc ownerPath with
  | none => .error .keyError
  | some o =>
    let ok := kindOf g o.key
    match createSpec ok what with
    | none => .error .attributeError
    | some (cname, kind) =>
      match checkNameType name type with
      | .error e => .error e
      | .ok () =>
        let g0 := if ok == "source" then (g.ensureGroup o.key cname).1 else g
        if hasEntry g0 o.key cname name then .error .duplicateName
        else if kind == "multi_tag" then
          match extra with
          | none => .error .valueError
          | some pos =>
            match entityCreateNew g0 o.key cname name type kind with
            | .error e => .error e
            | .ok (g1, k) =>
              if !isKind g1 pos "data_array" then .error .typeError
              else if !inBlockStore g1 o.key "data_arrays" pos then .error .runtimeError
              else .ok (createLinkIn g1 k "positions" pos)
        else
          match entityCreateNew g0 o.key cname name type kind with
          | .error e => .error e
          | .ok (g1, k) =>
            if kind == "data_array" then .ok (addDataset g1 k "data")
            else if kind == "tag" then .ok (addDataset g1 k "position")
            else .ok g1

theorem createIn_eq_createInS (g : Graph) (p : Path) (w n t : String) (ex : Option Nat) :
    createIn g p w n t ex = createInS g p w n t ex := rfl

theorem createInW_agrees (g : Graph) (p : Path) (w n t : String) (ex : Option Nat) :
    toExcept (createInW g p w n t ex none) = createIn g p w n t ex := by
  rw [createIn_eq_createInS]
  unfold createInW createInS
  cases hr : resolve g rootLoc p with
  | none => rfl
  | some o =>
    simp only
    cases hs : createSpec (kindOf g o.key) w with
    | none => rfl
    | some ck =>
      obtain ⟨cname, kind⟩ := ck
      simp only [stageFault, ite_self]
      cases hc : checkNameType n t with
      | error e => rfl
      | ok u =>
        simp only
        generalize (if (kindOf g o.key == "source") = true then (g.ensureGroup o.key cname).fst else g) = g0
        generalize hasEntry g0 o.key cname n = dup
        cases dup with
        | true => rfl
        | false =>
          simp only [Bool.false_eq_true, ↓reduceIte]
          by_cases hm : (kind == "multi_tag") = true
          · simp only [hm, ↓reduceIte]
            cases ex with
            | none => rfl
            | some pos =>
              simp only
              rw [entityCreateNew_eq]
              rcases entityCreateNewW g0 o.key cname n t kind with ⟨g1, (e | ck)⟩
              · rfl
              · simp only
                repeat (first | rfl | split)
          · simp only [hm, Bool.false_eq_true, ↓reduceIte]
            rw [entityCreateNew_eq]
            rcases entityCreateNewW g0 o.key cname n t kind with ⟨g1, (e | ck)⟩
            · rfl
            · simp only
              by_cases hd : (kind == "data_array") = true
              · simp [hd]
              · by_cases ht : (kind == "tag") = true
                · simp [hd, ht]
                · simp [hd, ht]

/-- on the operations of `Step.lean` the writer semantics and the `Except` semantics agree:
same acceptance, same resulting graph, same error class -/
theorem applyW_agrees (g : Graph) (op : Op) (opw : OpW) (h : OpW.ofOp op = some opw) :
    (applyW g opw).map toExcept = apply g op := by
  cases op <;> simp only [OpW.ofOp, Option.some.injEq, reduceCtorEq] at h <;> subst h
  · simp [applyW, apply, createBlockW_agrees]
  · simp [applyW, apply, createSectionW_agrees]
  · rename_i o w n t e
    cases e <;> simp [applyW, apply, createInW_agrees, Option.map_map, Function.comp_def]
  · simp [applyW, apply, createPropertyW_agrees]
  · rename_i o d lt
    cases d <;> simp [applyW, apply, createFeatureW_agrees, Option.map_map, Function.comp_def]
  · simp only [applyW, apply]
    split <;> simp_all [toExcept_checked]
  · simp only [applyW, apply]
    split <;> simp_all [toExcept_checked]
  · rename_i o r t
    cases t <;> simp [applyW, apply, toExcept_checked, Option.map_map, Function.comp_def]
  · simp [applyW, apply, toExcept_checked]

end Nix.Store.Lemmas
