import NixModel.Store.Step

/-! Lemmas about container views (`contGet`, `contHas`) over an arbitrary graph. -/
namespace Nix.Store.Lemmas
open Nix.Store

theorem contGet_pos_eq (g : Graph) (c : Cont) (i : Int) :
    contGet g c (.pos i) =
      (let n : Int := (contEntries g c).length
       let j := if i < 0 then n + i else i
       if j < 0 || j ≥ n then .error .indexError
       else match (contEntries g c)[j.toNat]? with
         | some l => .ok l
         | none => .error .indexError) := rfl

/-- positional indexing, in range from the front -/
theorem contGet_pos_nonneg (g : Graph) (c : Cont) (i : Nat) (h : i < contLen g c) :
    contGet g c (.pos i) = .ok ((contEntries g c)[i]'h) := by
  rw [contGet_pos_eq]
  unfold contLen at h
  have h0 : ¬ ((i : Int) < 0) := by omega
  dsimp only
  rw [if_neg h0]
  have h1 : ((decide ((i : Int) < 0)) || decide ((i : Int) ≥ ((contEntries g c).length : Int))) = false := by
    simp; omega
  rw [h1]
  simp [List.getElem?_eq_getElem h]

/-- positional indexing with a negative index counts from the end -/
theorem contGet_pos_neg (g : Graph) (c : Cont) (i : Nat) (h1 : 0 < i) (h2 : i ≤ contLen g c) :
    contGet g c (.pos (-(i : Int))) =
      .ok ((contEntries g c)[contLen g c - i]'(by unfold contLen at *; omega)) := by
  rw [contGet_pos_eq]
  unfold contLen at *
  have h0 : (-(i : Int) < 0) := by omega
  dsimp only
  rw [if_pos h0]
  have hj : ((contEntries g c).length : Int) + -(i : Int) = (((contEntries g c).length - i : Nat) : Int) := by
    omega
  rw [hj]
  have h3 : ((decide ((((contEntries g c).length - i : Nat) : Int) < 0)) ||
      decide ((((contEntries g c).length - i : Nat) : Int) ≥ ((contEntries g c).length : Int))) = false := by
    simp; omega
  rw [h3]
  have h4 : (contEntries g c).length - i < (contEntries g c).length := by omega
  simp [List.getElem?_eq_getElem h4]

/-- positional indexing outside `[-len, len)` is an IndexError -/
theorem contGet_pos_oob (g : Graph) (c : Cont) (i : Int)
    (h : i ≥ contLen g c ∨ i < -(contLen g c : Int)) :
    contGet g c (.pos i) = .error .indexError := by
  rw [contGet_pos_eq]
  unfold contLen at *
  by_cases h0 : i < 0
  · dsimp only
    rw [if_pos h0]
    have h3 : ((decide (((contEntries g c).length : Int) + i < 0)) ||
        decide (((contEntries g c).length : Int) + i ≥ ((contEntries g c).length : Int))) = true := by
      simp; omega
    rw [h3]; rfl
  · dsimp only
    rw [if_neg h0]
    have h3 : ((decide (i < 0)) || decide (i ≥ ((contEntries g c).length : Int))) = true := by
      simp; omega
    rw [h3]; rfl


/-! ### lookup by name and by id in owning containers -/

def isPlainLike (f : CFlavour) : Bool :=
  match f with
  | .plain | .sections | .sources => true
  | _ => false

theorem find_by_key_nodup {α : Type} (l : List (String × α)) (n : String) (k : α)
    (hm : (n, k) ∈ l) (hnd : (l.map (·.1)).Nodup) :
    l.find? (fun e => e.1 == n) = some (n, k) := by
  induction l with
  | nil => cases hm
  | cons a t ih =>
    simp only [List.map_cons, List.nodup_cons] at hnd
    rcases List.mem_cons.mp hm with h | h
    · subst h
      simp [List.find?]
    · have hne : a.1 ≠ n := by
        intro e
        apply hnd.1
        rw [e]
        exact List.mem_map.mpr ⟨(n, k), h, rfl⟩
      have : (a.1 == n) = false := by simpa using hne
      simp only [List.find?, this]
      exact ih h hnd.2

theorem find_none_of_forall {α : Type} (l : List α) (p : α → Bool) (h : ∀ x ∈ l, p x = false) :
    l.find? p = none := by
  induction l with
  | nil => rfl
  | cons a t ih =>
    simp only [List.find?, h a (by simp)]
    exact ih fun x hx => h x (by simp [hx])

theorem find_first {α : Type} (l : List α) (p : α → Bool) (j : Nat) (hj : j < l.length)
    (hp : p l[j] = true) (hbefore : ∀ j' (h' : j' < j), p (l[j']'(by omega)) = false) :
    l.find? p = some l[j] := by
  induction l generalizing j with
  | nil => simp at hj
  | cons a t ih =>
    cases j with
    | zero => simp only [List.getElem_cons_zero] at hp ⊢; simp [List.find?, hp]
    | succ j =>
      have h0 := hbefore 0 (by omega)
      simp only [List.getElem_cons_zero] at h0
      simp only [List.find?, h0, List.getElem_cons_succ]
      apply ih j (by simpa using hj) (by simpa using hp)
      intro j' h'
      have := hbefore (j' + 1) (by omega)
      simpa using this

/-- lookup by name in an owning container returns exactly the entry of that name, provided no
entity of the container carries that very text as its *id* (ids are looked up first) -/
theorem contGet_name (g : Graph) (c : Cont) (hf : isPlainLike c.info.flavour = true)
    (n : String) (k : Nat) (hm : (n, k) ∈ contEntries g c)
    (hnd : ((contEntries g c).map (·.1)).Nodup)
    (hclash : isUuid n = true → ∀ l ∈ contEntries g c, g.entityId l.2 ≠ some n) :
    contGet g c (.str n) = .ok (n, k) := by
  have hname : getByName g c.node n = some (n, k) := find_by_key_nodup _ n k hm hnd
  have hgi : getByIdOrName g c.node n = some (n, k) := by
    unfold getByIdOrName
    by_cases hu : isUuid n = true
    · have : getById g c.node n = none := by
        apply find_none_of_forall
        intro l hl
        have := hclash hu l hl
        simpa using this
      simp [hu, this, hname]
    · simp [hu, hname]
  unfold contGet
  cases hfl : c.info.flavour <;> simp_all [isPlainLike]

/-- lookup by id returns the first entry whose target carries that id -/
theorem contGet_id (g : Graph) (c : Cont) (hf : isPlainLike c.info.flavour = true)
    (i : String) (hi : isUuid i = true) (j : Nat) (hj : j < (contEntries g c).length)
    (hid : g.entityId ((contEntries g c)[j]'hj).2 = some i)
    (hfirst : ∀ j' (h' : j' < j), g.entityId ((contEntries g c)[j']'(by omega)).2 ≠ some i) :
    contGet g c (.str i) = .ok ((contEntries g c)[j]'hj) := by
  have hgi : getByIdOrName g c.node i = some ((contEntries g c)[j]'hj) := by
    unfold getByIdOrName getById
    simp only [hi, ↓reduceIte]
    have := find_first (contEntries g c) (fun l => g.entityId l.2 == some i) j hj
      (by simp [hid])
      (by intro j' h'; have := hfirst j' h'; simp [this])
    unfold contEntries at this ⊢
    rw [this]
  unfold contGet
  cases hfl : c.info.flavour <;> simp_all [isPlainLike]

/-- the membership test by name / id agrees with lookup: `x in c` iff `c[x]` succeeds -/
theorem contHas_str_iff_get (g : Graph) (c : Cont) (hf : isPlainLike c.info.flavour = true)
    (x : String) :
    contHas g c (.str x) = .ok (match contGet g c (.str x) with | .ok _ => true | .error _ => false) := by
  unfold contHas contGet
  cases hfl : c.info.flavour <;> simp_all [isPlainLike] <;>
    cases getByIdOrName g c.node x <;> rfl

end Nix.Store.Lemmas
