import NixModel.Lemmas.UnitsCompound

/-!
Helper lemmas for C09: the atomic recogniser is *sound* — whatever `is_atomic` accepts is a prefix–unit–power
combination of the tables (optionally followed by one newline, which Python's `$` tolerates) — so together with
the completeness lemmas `is_atomic` accepts exactly those strings; and sanitizer statements for atoms
(fixed points; micro spellings; blanks).
-/
namespace Nix.Units.Lemmas
open Nix.Units Nix.Units.Gen Nix.Units.Compound

/-! ### what the pieces can capture -/

theorem altM_mem_alts (alts : List Str) (s : Str) (ar : Str × Str) (h : ar ∈ altM alts s) : ar.1 ∈ alts := by
  unfold altM at h
  rw [List.mem_filterMap] at h
  obtain ⟨a, ha, hh⟩ := h
  split at hh
  · cases hh; exact ha
  · cases hh

theorem digitsGreedy_digits : ∀ (s : Str) (mr : Str × Str), mr ∈ digitsGreedy s → mr.1.all isDigit = true := by
  intro s
  induction s with
  | nil => intro mr h; simp [digitsGreedy] at h; subst h; rfl
  | cons c cs ih =>
    intro mr h
    unfold digitsGreedy at h
    split at h
    · rename_i hc
      rw [List.mem_append, List.mem_map] at h
      rcases h with ⟨x, hx, rfl⟩ | h
      · simp [hc, ih x hx]
      · simp at h; subst h; rfl
    · simp at h; subst h; rfl

theorem afterSign_sign (t : Str) (su : Str × Str) (h : su ∈ afterSign t) :
    su.1 = [] ∨ su.1 = ['+'] ∨ su.1 = ['-'] := by
  cases t with
  | nil => simp [afterSign] at h; subst h; simp
  | cons c u =>
    by_cases hp : c = '+'
    · subst hp
      simp [afterSign] at h
      rcases h with rfl | rfl <;> simp
    · by_cases hm : c = '-'
      · subst hm
        simp [afterSign] at h
        rcases h with rfl | rfl <;> simp
      · simp [afterSign, hp, hm] at h
        subst h; simp

theorem digitsPart_power (su mr : Str × Str) (hs : su.1 = [] ∨ su.1 = ['+'] ∨ su.1 = ['-'])
    (h : mr ∈ digitsPart su) : PowerText mr.1 ∧ mr.1 ≠ [] := by
  obtain ⟨sg, x⟩ := su
  cases x with
  | nil => simp [digitsPart] at h
  | cons d v =>
    simp only [digitsPart] at h
    split at h
    · rename_i hd
      rw [List.mem_map] at h
      obtain ⟨y, hy, rfl⟩ := h
      exact ⟨.pow sg d y.1 hs hd (digitsGreedy_digits v y hy), by simp⟩
    · cases h

theorem powerM_power (s : Str) (ar : Str × Str) (h : ar ∈ powerM s) : PowerText ar.1 ∧ ar.1 ≠ [] := by
  cases s with
  | nil => simp [powerM] at h
  | cons c t =>
    by_cases hcar : c = '^'
    · subst hcar
      rw [powerM_caret, List.mem_flatMap] at h
      obtain ⟨su, hsu, har⟩ := h
      exact digitsPart_power su ar (afterSign_sign t su hsu) har
    · rw [powerM_noCaret_head c t hcar] at h
      cases h

/-- every way of matching `prefix? unit power?` consumes a table atom -/
theorem match_atom_sound (s : Str) (m : M) (h : m ∈ matchPieces [.optPre, .unit, .optPow] { rest := s }) :
    ValidAtom m.matched ∧ m.matched ++ m.rest = s := by
  have hsplit := matchPieces_split _ _ m h
  refine ⟨?_, by simpa using hsplit⟩
  simp only [matchPieces, List.mem_flatMap, List.mem_singleton] at h
  obtain ⟨m1, hm1, m2, hm2, m3, hm3, rfl⟩ := h
  -- prefix
  have h1 : ∃ p, p ∈ optPrefixes ∧ m1.matched = p := by
    simp only [stepPiece, List.mem_append, List.mem_map, List.mem_singleton] at hm1
    rcases hm1 with ⟨ar, har, rfl⟩ | rfl
    · exact ⟨ar.1, by simp [optPrefixes, altM_mem_alts _ _ ar har], by simp⟩
    · exact ⟨[], by simp [optPrefixes], rfl⟩
  obtain ⟨p, hp, hmp⟩ := h1
  -- unit
  have h2 : ∃ u, u ∈ units ∧ m2.matched = p ++ u := by
    simp only [stepPiece, List.mem_map] at hm2
    obtain ⟨ar, har, rfl⟩ := hm2
    exact ⟨ar.1, altM_mem_alts _ _ ar har, by simp [hmp]⟩
  obtain ⟨u, hu, hmu⟩ := h2
  -- power
  simp only [stepPiece, List.mem_append, List.mem_map, List.mem_singleton] at hm3
  rcases hm3 with ⟨ar, har, rfl⟩ | rfl
  · exact ⟨p, u, ar.1, hp, hu, (powerM_power _ ar har).1, by simp [hmu]⟩
  · exact ⟨p, u, [], hp, hu, .none, by simp [hmu]⟩

theorem atEnd_cases (r : Str) (h : atEnd r = true) : r = [] ∨ r = ['\n'] := by
  simp only [atEnd, Bool.or_eq_true, beq_iff_eq] at h
  exact h

/-- `is_atomic` accepts exactly the table atoms (any power text), optionally followed by one newline -/
theorem isAtomic_iff (s : Str) :
    isAtomic s = true ↔ ∃ a, ValidAtom a ∧ (s = a ∨ s = a ++ ['\n']) := by
  have hsh : atomicShape = { pieces := [.optPre, .unit, .optPow], endAnchor := true } := rfl
  constructor
  · intro h
    unfold isAtomic reMatch at h
    rw [hsh] at h
    simp only [↓reduceIte] at h
    cases hl : (matchPieces [.optPre, .unit, .optPow] { rest := s }).filter (fun m => atEnd m.rest) with
    | nil => rw [hl] at h; cases h
    | cons m tl =>
      have hm : m ∈ (matchPieces [.optPre, .unit, .optPow] { rest := s }).filter (fun m => atEnd m.rest) := by
        rw [hl]; simp
      obtain ⟨hmem, hend⟩ := List.mem_filter.mp hm
      obtain ⟨hv, hs⟩ := match_atom_sound s m hmem
      refine ⟨m.matched, hv, ?_⟩
      rcases atEnd_cases _ hend with hr | hr
      · left; rw [← hs, hr, List.append_nil]
      · right; rw [← hs, hr]
  · rintro ⟨a, ⟨p, u, w, hp, hu, hw, rfl⟩, rfl | rfl⟩
    · exact (atomic_generic p u w hp hu hw).1
    · obtain ⟨m, hm, hr⟩ := atom_match_generic p u w hp hu hw ['\n']
      unfold isAtomic reMatch
      rw [hsh]
      simp only [↓reduceIte]
      exact head?_filter_isSome _ _ m hm (by simp [hr, atEnd])

/-! ### split on everything else; uniqueness of the decomposition -/

/-- a table atom has exactly one reading as prefix, unit and power -/
theorem atom_decomposition_unique (p u w p' u' w' : Str) (hp : p ∈ optPrefixes) (hu : u ∈ units)
    (hw : PowerText w) (hp' : p' ∈ optPrefixes) (hu' : u' ∈ units) (hw' : PowerText w')
    (h : p ++ u ++ w = p' ++ u' ++ w') : p = p' ∧ u = u' ∧ w = w' := by
  have h1 := split_generic p u w hp hu hw
  have h2 := split_generic p' u' w' hp' hu' hw'
  rw [h, h2] at h1
  simp only [Prod.mk.injEq] at h1
  exact ⟨h1.1.symm, h1.2.1.symm, (powerText_drop_inj w' w hw' hw h1.2.2).symm⟩

theorem stepPiece_pre_sub (m m' : M) (h : m' ∈ stepPiece .pre m) : m' ∈ stepPiece .optPre m := by
  simp only [stepPiece, List.mem_append, List.mem_map] at h ⊢
  exact Or.inl h

theorem stepPiece_pow_sub (m m' : M) (h : m' ∈ stepPiece .pow m) : m' ∈ stepPiece .optPow m := by
  simp only [stepPiece, List.mem_append, List.mem_map] at h ⊢
  exact Or.inl h

theorem stepPiece_optPre_self (m : M) : m ∈ stepPiece .optPre m := by simp [stepPiece]
theorem stepPiece_optPow_self (m : M) : m ∈ stepPiece .optPow m := by simp [stepPiece]

/-- whatever one of the three patterns of `split` matches to the end, the atomic pattern matches too -/
theorem split_shapes_atomic (s : Str) (sh : Shape) (hsh : sh = pupShape ∨ sh = unitPowShape ∨ sh = preUnitShape)
    (m : M) (h : reMatch sh s = some m) : isAtomic s = true := by
  have hat : atomicShape = { pieces := [.optPre, .unit, .optPow], endAnchor := true } := rfl
  have key : ∃ m' ∈ matchPieces [.optPre, .unit, .optPow] { rest := s }, atEnd m'.rest = true := by
    rcases hsh with rfl | rfl | rfl
    · have e : pupShape = { pieces := [.pre, .unit, .pow], endAnchor := true } := rfl
      rw [e] at h
      simp only [reMatch, ↓reduceIte] at h
      have hm := List.mem_of_mem_head? h
      obtain ⟨hmem, hend⟩ := List.mem_filter.mp hm
      simp only [matchPieces, List.mem_flatMap, List.mem_singleton] at hmem
      obtain ⟨m1, hm1, m2, hm2, m3, hm3, rfl⟩ := hmem
      refine ⟨m, ?_, hend⟩
      simp only [matchPieces, List.mem_flatMap, List.mem_singleton]
      exact ⟨m1, stepPiece_pre_sub _ _ hm1, m2, hm2, m, stepPiece_pow_sub _ _ hm3, rfl⟩
    · have e : unitPowShape = { pieces := [.unit, .pow], endAnchor := true } := rfl
      rw [e] at h
      simp only [reMatch, ↓reduceIte] at h
      have hm := List.mem_of_mem_head? h
      obtain ⟨hmem, hend⟩ := List.mem_filter.mp hm
      simp only [matchPieces, List.mem_flatMap, List.mem_singleton] at hmem
      obtain ⟨m2, hm2, m3, hm3, rfl⟩ := hmem
      refine ⟨m, ?_, hend⟩
      simp only [matchPieces, List.mem_flatMap, List.mem_singleton]
      exact ⟨_, stepPiece_optPre_self _, m2, hm2, m, stepPiece_pow_sub _ _ hm3, rfl⟩
    · have e : preUnitShape = { pieces := [.pre, .unit], endAnchor := true } := rfl
      rw [e] at h
      simp only [reMatch, ↓reduceIte] at h
      have hm := List.mem_of_mem_head? h
      obtain ⟨hmem, hend⟩ := List.mem_filter.mp hm
      simp only [matchPieces, List.mem_flatMap, List.mem_singleton] at hmem
      obtain ⟨m1, hm1, m2, hm2, rfl⟩ := hmem
      refine ⟨m, ?_, hend⟩
      simp only [matchPieces, List.mem_flatMap, List.mem_singleton]
      exact ⟨m1, stepPiece_pre_sub _ _ hm1, m, hm2, m, stepPiece_optPow_self _, rfl⟩
  obtain ⟨m', hm', hend⟩ := key
  unfold isAtomic reMatch
  rw [hat]
  simp only [↓reduceIte]
  exact head?_filter_isSome _ _ m' hm' hend

/-- a string that is not an atomic unit is returned whole, as the unit, without prefix and power -/
theorem split_non_atomic (s : Str) (h : isAtomic s = false) : split s = ([], s, []) := by
  have none_of : ∀ sh, (sh = pupShape ∨ sh = unitPowShape ∨ sh = preUnitShape) → reMatch sh s = none := by
    intro sh hsh
    cases hr : reMatch sh s with
    | none => rfl
    | some m => rw [split_shapes_atomic s sh hsh m hr] at h; cases h
  unfold split
  rw [none_of pupShape (Or.inl rfl), none_of unitPowShape (Or.inr (Or.inl rfl)),
    none_of preUnitShape (Or.inr (Or.inr rfl))]

/-! ### the compound recogniser is exact -/

theorem sepM_cases (s : Str) (sr : Str × Str) (h : sr ∈ sepM s) :
    ∃ c, (c = '*' ∨ c = '/') ∧ s = c :: sr.2 := by
  cases s with
  | nil => simp [sepM] at h
  | cons c t =>
    by_cases h1 : c = '*'
    · subst h1; simp [sepM] at h; subst h; exact ⟨'*', Or.inl rfl, rfl⟩
    · by_cases h2 : c = '/'
      · subst h2; simp [sepM] at h; subst h; exact ⟨'/', Or.inr rfl, rfl⟩
      · simp [sepM, h1, h2] at h

theorem atomThenSep_sound (s r : Str) (h : r ∈ atomThenSep s) :
    ∃ a c, ValidAtom a ∧ (c = '*' ∨ c = '/') ∧ s = a ++ c :: r := by
  have hsh : compoundAtomShape.pieces = [.optPre, .unit, .optPow] := rfl
  unfold atomThenSep at h
  rw [hsh, List.mem_flatMap] at h
  obtain ⟨m, hm, hr⟩ := h
  rw [List.mem_map] at hr
  obtain ⟨sr, hsr, rfl⟩ := hr
  obtain ⟨hv, hs⟩ := match_atom_sound s m hm
  obtain ⟨c, hc, hrest⟩ := sepM_cases _ sr hsr
  exact ⟨m.matched, c, hv, hc, by rw [← hs, hrest]⟩

theorem plusGroups_sound : ∀ (fuel : Nat) (s r : Str), r ∈ plusGroups fuel s →
    ∃ front a c, ValidAtom a ∧ (c = '*' ∨ c = '/') ∧ s = front ++ a ++ c :: r := by
  intro fuel
  induction fuel with
  | zero => intro s r h; simp [plusGroups] at h
  | succ n ih =>
    intro s r h
    simp only [plusGroups, List.mem_flatMap, List.mem_append, List.mem_singleton] at h
    obtain ⟨r1, hr1, h | rfl⟩ := h
    · obtain ⟨a1, c1, _, _, hs1⟩ := atomThenSep_sound s r1 hr1
      obtain ⟨front, a, c, hv, hc, hs2⟩ := ih r1 r h
      exact ⟨a1 ++ c1 :: front, a, c, hv, hc, by rw [hs1, hs2]; simp⟩
    · obtain ⟨a1, c1, hv, hc, hs1⟩ := atomThenSep_sound s r hr1
      exact ⟨[], a1, c1, hv, hc, by rw [hs1]; simp⟩

theorem compoundAt_sound (s : Str) (h : compoundAt s = true) :
    ∃ front a₁ c a₂ back, ValidAtom a₁ ∧ ValidAtom a₂ ∧ (c = '*' ∨ c = '/') ∧
      s = front ++ a₁ ++ c :: a₂ ++ back := by
  have hsh : compoundAtomShape.pieces = [.optPre, .unit, .optPow] := rfl
  unfold compoundAt at h
  rw [List.any_eq_true] at h
  obtain ⟨r, hr, hm⟩ := h
  obtain ⟨front, a₁, c, hv₁, hc, hs⟩ := plusGroups_sound _ s r hr
  rw [hsh] at hm
  cases hL : matchPieces [.optPre, .unit, .optPow] { rest := r } with
  | nil => rw [hL] at hm; simp at hm
  | cons m tl =>
    have hmem : m ∈ matchPieces [.optPre, .unit, .optPow] { rest := r } := by rw [hL]; simp
    obtain ⟨hv₂, hs₂⟩ := match_atom_sound r m hmem
    exact ⟨front, a₁, c, m.matched, m.rest, hv₁, hv₂, hc, by rw [hs, ← hs₂]; simp⟩

theorem mem_tails (s t : Str) (h : t ∈ tails s) : ∃ front, s = front ++ t := by
  induction s with
  | nil => simp [tails] at h; subst h; exact ⟨[], rfl⟩
  | cons c cs ih =>
    simp only [tails, List.mem_cons] at h
    rcases h with rfl | h
    · exact ⟨[], rfl⟩
    · obtain ⟨f, hf⟩ := ih h
      exact ⟨c :: f, by rw [hf]; rfl⟩

/-- `is_compound` accepts exactly the strings that contain two table atoms joined by `*` or `/` -/
theorem isCompound_iff (s : Str) :
    isCompound s = true ↔ ∃ front a₁ c a₂ back, ValidAtom a₁ ∧ ValidAtom a₂ ∧ (c = '*' ∨ c = '/') ∧
      s = front ++ a₁ ++ c :: a₂ ++ back := by
  have hsearch : compoundUsesSearch = true := rfl
  constructor
  · intro h
    unfold isCompound at h
    rw [hsearch] at h
    simp only [Bool.and_eq_true, ↓reduceIte] at h
    obtain ⟨_, h⟩ := h
    rw [List.any_eq_true] at h
    obtain ⟨t, ht, hc⟩ := h
    obtain ⟨f0, hf0⟩ := mem_tails s t ht
    obtain ⟨front, a₁, c, a₂, back, hv₁, hv₂, hcc, hs⟩ := compoundAt_sound t hc
    exact ⟨f0 ++ front, a₁, c, a₂, back, hv₁, hv₂, hcc, by rw [hf0, hs]; simp⟩
  · rintro ⟨front, a₁, c, a₂, back, ⟨p₁, u₁, w₁, hp₁, hu₁, hw₁, rfl⟩, ⟨p₂, u₂, w₂, hp₂, hu₂, hw₂, rfl⟩, hc, rfl⟩
    have hat := compoundAt_atoms_generic p₁ u₁ w₁ p₂ u₂ w₂ c back hp₁ hu₁ hw₁ hp₂ hu₂ hw₂ hc
    have hne : (p₁ ++ u₁ ++ w₁ ++ c :: (p₂ ++ u₂ ++ w₂) ++ back) ≠ [] := by simp
    have := compound_search front _ hat hne
    simpa [List.append_assoc] using this

/-- `is_si` accepts exactly: a table atom (optionally followed by one newline), or any string containing two
table atoms joined by `*` or `/` -/
theorem isSi_iff (s : Str) :
    isSi s = true ↔ (∃ a, ValidAtom a ∧ (s = a ∨ s = a ++ ['\n'])) ∨
      (∃ front a₁ c a₂ back, ValidAtom a₁ ∧ ValidAtom a₂ ∧ (c = '*' ∨ c = '/') ∧
        s = front ++ a₁ ++ c :: a₂ ++ back) := by
  rw [← isAtomic_iff, ← isCompound_iff]
  unfold isSi
  cases hs : s with
  | nil =>
    have h1 : isAtomic [] = false := by decide
    have h2 : isCompound [] = false := by decide
    simp [h1, h2]
  | cons c cs => simp

/-! ### sanitizer on atoms -/

theorem containsSub_append_noU (a b : Str) (hb : 'u' ∉ b) :
    containsSub ['m', 'u'] (a ++ b) = containsSub ['m', 'u'] a := by
  induction a with
  | nil =>
    simp only [List.nil_append]
    have h2 : containsSub ['m', 'u'] b = false := by
      induction b with
      | nil => exact containsSub_nil _ (by simp)
      | cons c cs ih =>
        rw [containsSub_cons]
        have hcs : 'u' ∉ cs := fun e => hb (by simp [e])
        rw [ih hcs]
        cases cs with
        | nil => simp [List.isPrefixOf]
        | cons c2 cs2 =>
          have : 'u' ≠ c2 := fun e => hb (by rw [e]; simp)
          simp [List.isPrefixOf, this]
    rw [h2, containsSub_nil _ (by simp)]
  | cons c cs ih =>
    rw [List.cons_append, containsSub_cons, containsSub_cons, ih]
    congr 1
    cases cs with
    | nil =>
      cases b with
      | nil => rfl
      | cons b1 bs =>
        have : 'u' ≠ b1 := fun e => hb (by rw [e]; simp)
        simp [List.isPrefixOf, this]
    | cons c2 cs2 => simp [List.isPrefixOf]

def cleanStr (a : Str) : Bool :=
  !a.contains ' ' && !a.contains micro1 && !a.contains micro2 && !containsSub ['m', 'u'] a

theorem tables_clean : ∀ p ∈ optPrefixes, ∀ u ∈ units, cleanStr (p ++ u) = true := by decide +kernel

theorem sanitizer_fixed_of_clean (a : Str) (h1 : ' ' ∉ a) (h2 : micro1 ∉ a) (h3 : micro2 ∉ a)
    (h4 : containsSub ['m', 'u'] a = false) : sanitizer a = a := by
  rw [sanitizer_unfold]
  simp only
  rw [replace_noop [' '] [] a (containsSub_single _ _ h1),
    replace_noop [micro1] ['u'] a (containsSub_single _ _ h2),
    replace_noop [micro2] ['u'] a (containsSub_single _ _ h3),
    replaceFix_noop _ _ _ _ h4]

theorem powerText_chars (w : Str) (hw : PowerText w) : ∀ c ∈ w, c = '^' ∨ c = '+' ∨ c = '-' ∨ isDigit c = true := by
  cases hw with
  | none => intro c hc; cases hc
  | pow sign d ds hs hd hds =>
    intro c hc
    simp only [List.cons_append, List.mem_cons, List.mem_append] at hc
    rcases hc with rfl | hc | rfl | hc
    · simp
    · rcases hs with rfl | rfl | rfl
      · cases hc
      · simp at hc; simp [hc]
      · simp at hc; simp [hc]
    · right; right; right; exact isDigit19_isDigit c hd
    · right; right; right; exact (List.all_eq_true.mp hds) c hc

/-- every table atom (any power text) is a fixed point of the clean-up -/
theorem sanitizer_atom_fixed (a : Str) (ha : ValidAtom a) : sanitizer a = a := by
  obtain ⟨p, u, w, hp, hu, hw, rfl⟩ := ha
  have hc := tables_clean p hp u hu
  simp only [cleanStr, Bool.and_eq_true, Bool.not_eq_true', List.contains_eq_mem,
    decide_eq_false_iff_not] at hc
  obtain ⟨⟨⟨c1, c2⟩, c3⟩, c4⟩ := hc
  have hwc := powerText_chars w hw
  have notin : ∀ x : Char, x ≠ '^' → x ≠ '+' → x ≠ '-' → isDigit x = false → x ∉ w := by
    intro x n1 n2 n3 n4 hx
    rcases hwc x hx with e | e | e | e
    · exact n1 e
    · exact n2 e
    · exact n3 e
    · rw [n4] at e; cases e
  have w1 : ' ' ∉ w := notin ' ' (by decide) (by decide) (by decide) (by decide)
  have w2 : micro1 ∉ w := notin micro1 (by decide) (by decide) (by decide) (by decide)
  have w3 : micro2 ∉ w := notin micro2 (by decide) (by decide) (by decide) (by decide)
  have w4 : 'u' ∉ w := notin 'u' (by decide) (by decide) (by decide) (by decide)
  apply sanitizer_fixed_of_clean
  · intro h; rcases List.mem_append.mp h with h | h
    · exact c1 h
    · exact w1 h
  · intro h; rcases List.mem_append.mp h with h | h
    · exact c2 h
    · exact w2 h
  · intro h; rcases List.mem_append.mp h with h | h
    · exact c3 h
    · exact w3 h
  · rw [containsSub_append_noU _ _ w4]; exact c4

/-! ### sanitizer: blanks and micro spellings -/

/-- `str.replace` of a single character, by structural recursion -/
def rep1 (c0 : Char) (new : Str) : Str → Str
  | [] => []
  | c :: cs => if c == c0 then new ++ rep1 c0 new cs else c :: rep1 c0 new cs

theorem replaceFuel_rep1 (c0 : Char) (new : Str) : ∀ (fuel : Nat) (s : Str), s.length < fuel →
    replaceFuel fuel [c0] new s = rep1 c0 new s := by
  intro fuel
  induction fuel with
  | zero => intro s h; omega
  | succ n ih =>
    intro s h
    cases s with
    | nil => simp [replaceFuel, rep1]
    | cons c cs =>
      simp only [List.length_cons] at h
      by_cases hc : c = c0
      · subst hc
        simp [replaceFuel, rep1, List.isPrefixOf, ih cs (by omega)]
      · have hc' : ¬ c0 = c := fun e => hc e.symm
        simp [replaceFuel, rep1, List.isPrefixOf, hc, hc', ih cs (by omega)]

theorem replace_rep1 (c0 : Char) (new s : Str) : replace [c0] new s = rep1 c0 new s :=
  replaceFuel_rep1 c0 new _ s (by omega)

theorem rep1_blank (s : Str) : rep1 ' ' [] s = removeBlanks s := by
  induction s with
  | nil => rfl
  | cons c cs ih =>
    by_cases hc : c = ' '
    · subst hc; simpa [rep1, removeBlanks] using ih
    · simpa [rep1, removeBlanks, hc] using ih

theorem removeBlanks_noBlank (s : Str) : ' ' ∉ removeBlanks s := by
  simp [removeBlanks]

/-- the clean-up sees a string only through its de-blanked form -/
theorem sanitizer_removeBlanks (s : Str) : sanitizer s = sanitizer (removeBlanks s) := by
  rw [sanitizer_unfold, sanitizer_unfold]
  have h1 : replace [' '] [] s = removeBlanks s := by rw [replace_rep1, rep1_blank]
  have h2 : replace [' '] [] (removeBlanks s) = removeBlanks s :=
    replace_noop _ _ _ (containsSub_single _ _ (removeBlanks_noBlank s))
  rw [h1, h2]

/-- blanks anywhere in a table atom do not matter: the clean-up returns the atom, which is SI -/
theorem sanitizer_blanked_atom (s a : Str) (ha : ValidAtom a) (hs : removeBlanks s = a) :
    sanitizer s = a ∧ isSi (sanitizer s) = true := by
  have h : sanitizer s = a := by rw [sanitizer_removeBlanks, hs, sanitizer_atom_fixed a ha]
  obtain ⟨p, u, w, hp, hu, hw, rfl⟩ := ha
  exact ⟨h, by rw [h]; exact (atomic_generic p u w hp hu hw).2⟩

/-- the three spellings of micro the clean-up maps to `u` -/
def microSpellings : List Str := [[micro1], [micro2], ['m', 'u']]

theorem replaceFuel_mu_head (n : Nat) (rest : Str) (h : containsSub ['m', 'u'] rest = false) :
    replaceFuel (n + 1) ['m', 'u'] ['u'] ('m' :: 'u' :: rest) = 'u' :: rest := by
  simp [replaceFuel, List.isPrefixOf, replaceFuel_noop _ _ n rest h]

theorem replaceFix_mu_head (n : Nat) (rest : Str) (h : containsSub ['m', 'u'] rest = false)
    (hu : containsSub ['m', 'u'] ('u' :: rest) = false) :
    replaceFix (n + 1) ['m', 'u'] ['u'] ('m' :: 'u' :: rest) = 'u' :: rest := by
  have hc0 : containsSub ['m', 'u'] ('m' :: 'u' :: rest) = true := by
    rw [containsSub_cons]; simp [List.isPrefixOf]
  have hrep : replace ['m', 'u'] ['u'] ('m' :: 'u' :: rest) = 'u' :: rest := replaceFuel_mu_head _ _ h
  simp only [replaceFix, hc0, ↓reduceIte, hrep]
  exact replaceFix_noop _ _ _ _ hu

theorem sanitizer_micro (sp u w : Str) (hsp : sp ∈ microSpellings) (hu : u ∈ units) (hw : PowerText w) :
    sanitizer (sp ++ u ++ w) = ['u'] ++ u ++ w := by
  have hv : ValidAtom (u ++ w) := ⟨[], u, w, by simp [optPrefixes], hu, hw, by simp⟩
  -- `u ++ w` is clean
  have hfix := sanitizer_atom_fixed _ hv
  have hc := tables_clean [] (by simp [optPrefixes]) u hu
  simp only [cleanStr, List.nil_append, Bool.and_eq_true, Bool.not_eq_true', List.contains_eq_mem,
    decide_eq_false_iff_not] at hc
  obtain ⟨⟨⟨c1, c2⟩, c3⟩, c4⟩ := hc
  have hwc := powerText_chars w hw
  have notin : ∀ x : Char, x ≠ '^' → x ≠ '+' → x ≠ '-' → isDigit x = false → x ∉ w := by
    intro x n1 n2 n3 n4 hx
    rcases hwc x hx with e | e | e | e
    · exact n1 e
    · exact n2 e
    · exact n3 e
    · rw [n4] at e; cases e
  have r1 : ' ' ∉ u ++ w := fun h => (List.mem_append.mp h).elim c1
    (notin ' ' (by decide) (by decide) (by decide) (by decide))
  have r2 : micro1 ∉ u ++ w := fun h => (List.mem_append.mp h).elim c2
    (notin micro1 (by decide) (by decide) (by decide) (by decide))
  have r3 : micro2 ∉ u ++ w := fun h => (List.mem_append.mp h).elim c3
    (notin micro2 (by decide) (by decide) (by decide) (by decide))
  have r4 : containsSub ['m', 'u'] (u ++ w) = false := by
    rw [containsSub_append_noU _ _ (notin 'u' (by decide) (by decide) (by decide) (by decide))]; exact c4
  have e1 : rep1 ' ' [] (u ++ w) = u ++ w := by
    rw [← replace_rep1]; exact replace_noop _ _ _ (containsSub_single _ _ r1)
  have e2 : rep1 micro1 ['u'] (u ++ w) = u ++ w := by
    rw [← replace_rep1]; exact replace_noop _ _ _ (containsSub_single _ _ r2)
  have e3 : rep1 micro2 ['u'] (u ++ w) = u ++ w := by
    rw [← replace_rep1]; exact replace_noop _ _ _ (containsSub_single _ _ r3)
  -- after the three character replacements the text is `u…` or `mu…`
  have hu_clean : containsSub ['m', 'u'] ('u' :: (u ++ w)) = false := by
    rw [containsSub_cons, r4]; simp [List.isPrefixOf]
  rw [sanitizer_unfold]
  simp only [microSpellings, List.mem_cons, List.not_mem_nil, or_false] at hsp
  rcases hsp with rfl | rfl | rfl
  · have : replace [micro2] ['u'] (replace [micro1] ['u'] (replace [' '] [] ([micro1] ++ u ++ w))) =
        'u' :: (u ++ w) := by
      simp only [replace_rep1, List.cons_append, List.nil_append, rep1]
      have d1 : (micro1 == ' ') = false := by decide
      have d2 : (micro1 == micro1) = true := by decide
      have d3 : ('u' == micro2) = false := by decide
      simp only [d1, d2, d3, Bool.false_eq_true, ↓reduceIte, e1, rep1, e2, List.cons_append,
        List.nil_append, e3]
    simp only [this]
    rw [replaceFix_noop _ _ _ _ hu_clean]
    simp
  · have : replace [micro2] ['u'] (replace [micro1] ['u'] (replace [' '] [] ([micro2] ++ u ++ w))) =
        'u' :: (u ++ w) := by
      simp only [replace_rep1, List.cons_append, List.nil_append, rep1]
      have d1 : (micro2 == ' ') = false := by decide
      have d2 : (micro2 == micro1) = false := by decide
      have d3 : (micro2 == micro2) = true := by decide
      simp only [d1, d2, d3, Bool.false_eq_true, ↓reduceIte, e1, rep1, e2, List.cons_append,
        List.nil_append, e3]
    simp only [this]
    rw [replaceFix_noop _ _ _ _ hu_clean]
    simp
  · have : replace [micro2] ['u'] (replace [micro1] ['u'] (replace [' '] [] (['m', 'u'] ++ u ++ w))) =
        'm' :: 'u' :: (u ++ w) := by
      simp only [replace_rep1, List.cons_append, List.nil_append, rep1]
      have d1 : ('m' == ' ') = false := by decide
      have d2 : ('u' == ' ') = false := by decide
      have d3 : ('m' == micro1) = false := by decide
      have d4 : ('u' == micro1) = false := by decide
      have d5 : ('m' == micro2) = false := by decide
      have d6 : ('u' == micro2) = false := by decide
      simp only [d1, d2, d3, d4, d5, d6, Bool.false_eq_true, ↓reduceIte, e1, rep1, e2, e3]
    simp only [this]
    rw [List.length_cons, replaceFix_mu_head _ _ r4 hu_clean]
    simp

/-- so a unit written with a micro sign (either code point) or `mu` is, after the clean-up, the atom with
prefix `u`: atomic, SI, split into (`u`, unit, power) -/
theorem sanitizer_micro_atom (sp u w : Str) (hsp : sp ∈ microSpellings) (hu : u ∈ units) (hw : PowerText w) :
    isSi (sanitizer (sp ++ u ++ w)) = true ∧ split (sanitizer (sp ++ u ++ w)) = (['u'], u, w.drop 1) := by
  rw [sanitizer_micro sp u w hsp hu hw]
  have hp : ['u'] ∈ optPrefixes := by decide
  exact ⟨(atomic_generic ['u'] u w hp hu hw).2, split_generic ['u'] u w hp hu hw⟩

/-! ### sanitizer on compounds written with blanks -/

theorem containsSub_mu_sep (a rest : Str) (c : Char) (hc : c ≠ 'm' ∧ c ≠ 'u') :
    containsSub ['m', 'u'] (a ++ c :: rest) = (containsSub ['m', 'u'] a || containsSub ['m', 'u'] rest) := by
  induction a with
  | nil =>
    rw [List.nil_append, containsSub_cons, containsSub_nil _ (by simp)]
    have : ('m' == c) = false := by simpa using hc.1.symm
    simp [List.isPrefixOf, this]
  | cons x xs ih =>
    rw [List.cons_append, containsSub_cons, containsSub_cons, ih, Bool.or_assoc]
    congr 1
    cases xs with
    | nil =>
      have : ('u' == c) = false := by simpa using hc.2.symm
      simp [List.isPrefixOf, this]
    | cons y ys => simp [List.isPrefixOf]

theorem validAtom_clean (a : Str) (ha : ValidAtom a) :
    micro1 ∉ a ∧ micro2 ∉ a ∧ containsSub ['m', 'u'] a = false := by
  have hfix := sanitizer_atom_fixed a ha
  obtain ⟨_, h2, h3, h4⟩ := sanitizer_is_clean' a
  rw [hfix] at h2 h3 h4
  exact ⟨h2, h3, h4⟩

theorem joinCompound_clean : ∀ (l : List (Char × Str)) (a₀ : Str), ValidAtom a₀ → ValidSeq l →
    micro1 ∉ joinCompound a₀ l ∧ micro2 ∉ joinCompound a₀ l ∧
      containsSub ['m', 'u'] (joinCompound a₀ l) = false := by
  intro l
  induction l with
  | nil => intro a₀ ha _; exact validAtom_clean a₀ ha
  | cons sa l ih =>
    intro a₀ ha hl
    obtain ⟨sep, a⟩ := sa
    have hsa := hl (sep, a) (by simp)
    have hsep : sep = '*' ∨ sep = '/' := hsa.1
    obtain ⟨i1, i2, i3⟩ := ih a hsa.2 (fun x hx => hl x (by simp [hx]))
    obtain ⟨c1, c2, c3⟩ := validAtom_clean a₀ ha
    have n1 : sep ≠ micro1 ∧ sep ≠ micro2 ∧ sep ≠ 'm' ∧ sep ≠ 'u' := by
      rcases hsep with rfl | rfl <;> decide
    simp only [joinCompound]
    refine ⟨?_, ?_, ?_⟩
    · intro h
      rcases List.mem_append.mp h with h | h
      · exact c1 h
      · rcases List.mem_cons.mp h with h | h
        · exact n1.1 h.symm
        · exact i1 h
    · intro h
      rcases List.mem_append.mp h with h | h
      · exact c2 h
      · rcases List.mem_cons.mp h with h | h
        · exact n1.2.1 h.symm
        · exact i2 h
    · rw [containsSub_mu_sep _ _ _ ⟨n1.2.2.1, n1.2.2.2⟩, c3, i3]; rfl

/-- a product/quotient of table atoms written with blanks around the separators is, after the clean-up, the
blank-free sequence — recognised as compound and SI -/
theorem sanitizer_padded (a₀ : Str) (l : List (Str × Char × Str × Str)) (ha : ValidAtom a₀)
    (hl : ValidPadded l) :
    sanitizer (joinPadded a₀ l) = joinCompound a₀ (stripPads l) := by
  have hv := validSeq_stripPads l hl
  obtain ⟨h2, h3, h4⟩ := joinCompound_clean (stripPads l) a₀ ha hv
  rw [sanitizer_removeBlanks, removeBlanks_joinPadded l a₀ ha hl]
  exact sanitizer_fixed_of_clean _ (joinCompound_noBlank _ a₀ ha hv) h2 h3 h4

end Nix.Units.Lemmas
