import NixModel.Lemmas.C04Hist

/-!
# C04 — deletion *by object*, and what the other key forms can address

`del container[obj]` takes the object it is handed (`Container.__delitem__`: an `Entity` / item-class object is
not looked up again); a name, an id or a position is resolved by `container[key]`, which yields a member.
-/
namespace Nix.Store.C04
open Nix.Store Nix.Store.Graph

/-- flavours whose `__contains__` for an entity object asks for the object itself (`Container.__contains__`:
the child stored under the object's name must *be* the object); link lists and feature lists ask by id -/
def hasByObject (f : CFlavour) : Bool :=
  match f with
  | .plain | .sections | .sources => true
  | _ => false

/-- `obj in container` (plain / section / source containers) answers `True` only for a member -/
theorem contHas_ent_mem (g : Graph) (c : Cont) (k : Nat) (hf : hasByObject c.info.flavour = true)
    (h : contHas g c (.ent k) = .ok true) : ∃ l ∈ contEntries g c, l.2 = k := by
  have key : (match g.getAttr k "name" with
        | some nm =>
          match getByName g c.node nm with
          | some l => (.ok (l.2 == k) : Except Err Bool)
          | none => .ok false
        | none => .ok false) = .ok true → ∃ l ∈ contEntries g c, l.2 = k := by
    intro h
    cases hn : g.getAttr k "name" with
    | none => simp [hn] at h
    | some nm =>
      simp only [hn] at h
      cases hb : getByName g c.node nm with
      | none => simp [hb] at h
      | some l =>
        simp only [hb, Except.ok.injEq, beq_iff_eq] at h
        exact ⟨l, List.mem_of_find?_eq_some hb, h⟩
  unfold contHas at h
  simp only at h
  split at h
  · cases h
  · cases hfl : c.info.flavour <;> simp only [hfl] at h hf <;> first | exact key h | cases hf

/-- a key that is not an entity object addresses a member of the container -/
theorem delTarget_member (g : Graph) (c : Cont) (key : Key) (k : Nat)
    (hkey : ∀ x, key ≠ .ent x) (ht : delTarget g c key = .ok k) : ∃ l ∈ contEntries g c, l.2 = k := by
  cases key with
  | ent x => exact absurd rfl (hkey x)
  | str s =>
    unfold delTarget at ht
    simp only at ht
    cases hg : contGet g c (.str s) with
    | error e => rw [hg] at ht; cases ht
    | ok l =>
      rw [hg] at ht
      simp only [Except.map, Except.ok.injEq] at ht
      exact ⟨l, contGet_mem g c _ l hg, ht⟩
  | pos i =>
    unfold delTarget at ht
    simp only at ht
    cases hg : contGet g c (.pos i) with
    | error e => rw [hg] at ht; cases ht
    | ok l =>
      rw [hg] at ht
      simp only [Except.map, Except.ok.injEq] at ht
      exact ⟨l, contGet_mem g c _ l hg, ht⟩

/-- by a text that is not of UUID form, a plain / section / source container yields the member linked under
exactly that name -/
theorem delTarget_name (g : Graph) (c : Cont) (x : String) (k : Nat)
    (hf : hasByObject c.info.flavour = true) (hx : isUuid x = false)
    (ht : delTarget g c (.str x) = .ok k) : (x, k) ∈ contEntries g c := by
  unfold delTarget at ht
  simp only at ht
  cases hg : contGet g c (.str x) with
  | error e => rw [hg] at ht; cases ht
  | ok l =>
    rw [hg] at ht
    simp only [Except.map, Except.ok.injEq] at ht
    have hmem := contGet_mem g c _ l hg
    have hname : l.1 = x := by
      have key : (match getByIdOrName g c.node x with
          | some l => (.ok l : Except Err (String × Nat))
          | none => .error .keyError) = .ok l → l.1 = x := by
        intro h
        unfold getByIdOrName at h
        simp only [hx, Bool.false_eq_true, ↓reduceIte] at h
        cases hb : getByName g c.node x with
        | none => simp [hb] at h
        | some l' =>
          simp only [hb, Except.ok.injEq] at h
          have := List.find?_some hb
          subst h
          simpa using this
      unfold contGet at hg
      simp only at hg
      cases hfl : c.info.flavour <;> simp only [hfl] at hg hf <;> first | exact key hg | cases hf
    have : l = (x, k) := by
      cases l; simp only at hname ht; subst hname; subst ht; rfl
    rw [← this]; exact hmem

end Nix.Store.C04
