import NixModel.Lemmas.C13Refs
import NixModel.Pure.TreeShape

/-!
# C13 — a shape with today's constants denotes the hand-written model

`Pure/TreeShape.lean` interprets the shape of the Python code as extracted by
`harness/extract/findshape.py`.  Here: for the *canonical* constants (those the property needs) the
interpreters coincide with the functions of `Pure/Tree.lean`, about which the lemmas of
`C13Find / C13Parent / C13File / C13Inv / C13Refs` speak.  `Props/C13.lean` checks by `decide` that the
generated constants are canonical.
-/

namespace Nix.Tree.Shape
open Nix.Tree

/-! ## find -/

/-- the constants of the loop the property needs: `level = child.level + 1`, `level <= limit`, plain filter -/
def Finder.LoopCanonical (s : Finder) : Prop := s.loopCmp = .le ∧ s.step = 1 ∧ s.filterNeg = false

/-- … and of the part before the loop: no defaulting of its own, `level = 0`, `level += 1`, `level <= limit` -/
def Finder.Canonical (s : Finder) : Prop :=
  s.defaulting = .absent ∧ s.level0 = 0 ∧ s.topInc = 1 ∧ s.topCmp = .le ∧ s.LoopCanonical

instance (s : Finder) : Decidable s.LoopCanonical := by unfold Finder.LoopCanonical; infer_instance
instance (s : Finder) : Decidable s.Canonical := by unfold Finder.Canonical; infer_instance

/-- a public search method as the property needs it: `None` (and only `None`) becomes `maxsize` -/
def Wrapper.Canonical (w : Wrapper) : Prop := w.defaulting = .isNone ∧ w.finder.Canonical

instance (w : Wrapper) : Decidable w.Canonical := by unfold Wrapper.Canonical; infer_instance

theorem findLoopG_eq (s : Finder) (h : s.LoopCanonical) (filt : Node → Bool) (limit : Nat)
    (q : List (Node × Nat)) : findLoopG s filt limit q = findLoop filt limit q := by
  obtain ⟨h1, h2, h3⟩ := h
  fun_induction findLoop filt limit q with
  | case1 => simp [findLoopG]
  | case2 n lvl rest fifo hf ih =>
    rw [findLoopG]
    simp only [h1, h2, h3, Cmp.eval, hf, bne_iff_ne, ne_eq, Bool.true_eq_false, not_false_eq_true, if_true,
      decide_eq_true_eq]
    exact congrArg _ ih
  | case3 n lvl rest fifo hf ih =>
    rw [findLoopG]
    simp only [h1, h2, h3, Cmp.eval, decide_eq_true_eq]
    simp only [Bool.not_eq_true] at hf
    simp only [hf, bne_self_eq_false, Bool.false_eq_true, if_false]
    exact ih

theorem findG_eq (s : Finder) (h : s.Canonical) (root : Root) (filt : Node → Bool) (l : Nat) :
    findG s root filt (some l) = .ok (findFrom root filt (some l)) := by
  obtain ⟨h1, h2, h3, h4, h5⟩ := h
  cases root with
  | node n => simp [findG, h1, h2, Defaulting.apply, findFrom, findLoopG_eq s h5]
  | top ms =>
    simp only [findG, h1, h2, h3, h4, Defaulting.apply, findFrom, findLoopG_eq s h5, Cmp.eval, Nat.zero_add,
      decide_eq_true_eq]
    split <;> rfl

/-- a canonical public search method is `findFrom` (never an error) -/
theorem findW_eq (w : Wrapper) (h : w.Canonical) (root : Root) (filt : Node → Bool) (limit : Option Nat) :
    findW w root filt limit = .ok (findFrom root filt limit) := by
  obtain ⟨h1, h2⟩ := h
  cases limit with
  | none =>
    simp only [findW, h1, Defaulting.apply]
    rw [findG_eq _ h2, findFrom_none]
  | some l =>
    simp only [findW, h1, Defaulting.apply]
    exact findG_eq _ h2 _ _ _

/-! ## parents -/

theorem anyBy_key {kb : KeyBy} (h : kb ≠ .name) (l : List Node) (k : Nat) (nm : String) :
    anyBy kb l k nm = l.any (fun c => c.key == k) := by
  cases kb <;> simp_all [anyBy]

theorem parentLoopG_eq {kb : KeyBy} (h : kb ≠ .name) (k : Nat) (nm : String) (q : List Node) :
    parentLoopG kb k nm q = parentLoop k q := by
  fun_induction parentLoop k q with
  | case1 => simp [parentLoopG]
  | case2 s rest hc =>
    rw [parentLoopG, anyBy_key h]
    simp only [hasChildKey] at hc
    simp [hc]
  | case3 s rest hc ih =>
    rw [parentLoopG, anyBy_key h]
    simp only [hasChildKey, Bool.not_eq_true] at hc
    simp only [hc, Bool.false_eq_true, if_false]
    exact ih

/-- `Section.parent` with the cache test first and containment by id (or by object) is the model's -/
theorem sectionParentG_eq (s : ParentShape) (h1 : s.cacheFirst = true) (h2 : s.containKey ≠ .name)
    (f : File) (k : Nat) (useCache : Bool) : sectionParentG s f k useCache = sectionParent f k useCache := by
  unfold sectionParentG sectionParent
  cases findL? k f.sections with
  | none => rfl
  | some n =>
    simp only [h1, Bool.true_and, parentLoopG_eq h2]
    rfl

mutual
theorem findParentRecG_eq {kb : KeyBy} (h : kb ≠ .name) (k : Nat) (nm : String) :
    ∀ n : Node, findParentRecG kb k nm n = findParentRec k n
  | .mk i cs => by
    rw [findParentRecG, findParentRec, anyBy_key h, findParentRecLG_eq h k nm cs]
theorem findParentRecLG_eq {kb : KeyBy} (h : kb ≠ .name) (k : Nat) (nm : String) :
    ∀ cs : List Node, findParentRecLG kb k nm cs = findParentRecL k cs
  | [] => by simp [findParentRecLG, findParentRecL]
  | c :: cs => by
    rw [findParentRecLG, findParentRecL, findParentRecG_eq h k nm c, findParentRecLG_eq h k nm cs]
    rfl
end

/-- `Source.parent_source` with both containment tests by id (or by object) is the model's -/
theorem sourceParentG_eq (s : SrcParentShape) (h1 : s.topKey ≠ .name) (h2 : s.recKey ≠ .name)
    (f : File) (k : Nat) : sourceParentG s f k = sourceParent f k := by
  unfold sourceParentG sourceParent
  cases f.lookup k with
  | none => rfl
  | some r => cases r <;> simp [anyBy_key h1, findParentRecLG_eq h2]

/-! ## referring lists -/

theorem mdMatch_key {kb : KeyBy} (h : kb ≠ .name) (f : File) (md : Option Nat) (k : Nat) :
    mdMatch f kb md k = (md == some k) := by
  cases md with
  | none => simp [mdMatch]
  | some t => cases kb <;> simp_all [mdMatch]

theorem refScan_blocks {kb : KeyBy} (h : kb ≠ .name) (f : File) (k : Nat) :
    refScan f ⟨.blocks, kb⟩ k = refBlocks f k := by
  simp [refScan, refBlocks, mdMatch_key h]

theorem refScan_holders {kb : KeyBy} (h : kb ≠ .name) (f : File) (kind : Kind) (k : Nat) :
    refScan f ⟨.holders kind, kb⟩ k = refHolders f kind k := by
  simp [refScan, refHolders, mdMatch_key h]

theorem refScan_sourcesFind {kb : KeyBy} (h : kb ≠ .name) (f : File) (k : Nat) :
    refScan f ⟨.sourcesFind, kb⟩ k = refSources f k := by
  simp [refScan, refSources, mdMatch_key h]

/-- what a scan has to return for the property: the referrers of its kind -/
def Scope.spec (f : File) (k : Nat) : Scope → List Nat
  | .blocks => refBlocks f k
  | .holders kind => refHolders f kind k
  | .sourcesFind => refSources f k
  | .sourcesTop => refSources f k

/-- a scan is fit for the property when it compares ids and, for sources, looks at every depth -/
def Scan.Canonical (sc : Scan) : Prop := sc.key ≠ .name ∧ sc.scope ≠ .sourcesTop

instance (sc : Scan) : Decidable sc.Canonical := by unfold Scan.Canonical; infer_instance

theorem refScan_eq (sc : Scan) (h : sc.Canonical) (f : File) (k : Nat) : refScan f sc k = sc.scope.spec f k := by
  obtain ⟨scope, kb⟩ := sc
  obtain ⟨h1, h2⟩ := h
  cases scope with
  | blocks => exact refScan_blocks h1 f k
  | holders kind => exact refScan_holders h1 f kind k
  | sourcesFind => exact refScan_sourcesFind h1 f k
  | sourcesTop => exact absurd rfl h2

theorem srcRefScan_eq (b : Block) (sc : SrcScan) (k : Nat) : srcRefScan b sc k = srcRefHolders b sc.kind k := rfl

/-! ## `find_related` -/

theorem findG_node (s : Finder) (h : s.Canonical) (n : Node) (filt : Node → Bool) (l : Nat) :
    findG s (.node n) filt (some l) = .ok ((levels (l + 1) [n]).filter filt) := by
  rw [findG_eq s h, findFrom_some]
  simp [Root.base, Root.members]

/-- a top-level section: no parent, so just the section and its children -/
theorem findRelatedG_root (ps : ParentShape) (rs : RelatedShape) (h1 : ps.cacheFirst = true)
    (h2 : ps.containKey ≠ .name) (h3 : rs.finder.Canonical) {f : File} (hf : WF f) {x : Node}
    (hx : x ∈ f.sections) (useCache : Bool) (filt : Node → Bool) :
    findRelatedG ps rs f x.key useCache filt = .ok ((levels (rs.selfLimit + 1) [x]).filter filt) := by
  unfold findRelatedG
  rw [findL?_eq (wf_sections hf) (mem_nodesL_roots hx), sectionParentG_eq ps h1 h2,
    sectionParent_root hf hx]
  simp [findG_node _ h3, eraseKey]

/-- a section below `p`: `p` and its children (the section itself taken out once), then the section and
its children -/
theorem findRelatedG_child (ps : ParentShape) (rs : RelatedShape) (h1 : ps.cacheFirst = true)
    (h2 : ps.containKey ≠ .name) (h3 : rs.finder.Canonical) {f : File} (hf : WF f) {p x : Node}
    (hp : p ∈ nodesL f.sections) (hx : x ∈ p.children) (useCache : Bool) (filt : Node → Bool) :
    findRelatedG ps rs f x.key useCache filt =
      .ok (eraseKey x.key ((levels (rs.parentLimit + 1) [p]).filter filt) ++
           (levels (rs.selfLimit + 1) [x]).filter filt) := by
  unfold findRelatedG
  rw [findL?_eq (wf_sections hf) (child_mem_nodesL hp hx), sectionParentG_eq ps h1 h2,
    sectionParent_child hf hp hx]
  simp only [findL?_eq (wf_sections hf) hp, findG_node _ h3]

end Nix.Tree.Shape
