import NixModel.Pure.Tagging
import NixModel.Props.C07
import NixModel.Props.C09

/-!
Lemmas for C08, part 1: one axis.

Vocabulary shared by the C08 statements:
* `dimCoord dim i`, `dimDom dim` — coordinate of sample `i` and sample domain of a descriptor (C07's
  `sampledCoord` / `tickCoord` / `setCoord`; `none` = every natural number);
* `DimOK dim`          — the descriptor is inside C07's theorems (positive interval / ascending ticks);
* `SepAt dim x`        — C07's tolerance hypothesis for an end point `x` (vacuous for ticks);
* `Region`, `regionOf` — the region along one axis in the dimension's unit: `[p·sc, p·sc + e·sc]`, end excluded
  iff the stop rule says so *and* the extent entry is positive; no entry or entry `≤ 0` ⇒ inclusive;
* `InRegion dim R i`   — sample `i`'s coordinate lies in `R`;
* `UnitRel u dim sc`   — tag unit `u` converts to the dimension's unit with the exact factor `sc`.
-/
namespace Nix.Tagging
open Nix Nix.Dim Nix.DataView Nix.Units Nix.Units.Lemmas Nix.Units.Gen

def dimCoord : DimDesc → Nat → Rat
  | .sampled off si _ => sampledCoord off si
  | .range ticks _ => tickCoord ticks
  | .set _ => setCoord

def dimDom : DimDesc → Option Nat
  | .sampled _ _ _ => none
  | .range ticks _ => some ticks.length
  | .set n => setDom n

def DimOK : DimDesc → Prop
  | .sampled _ si _ => 0 < si
  | .range ticks _ => AscendingList ticks
  | .set _ => True

/-- C07's `Separated` hypothesis for an end point, per descriptor kind (none for ticks) -/
def SepAt : DimDesc → Rat → Prop
  | .sampled off si _, x => Nix.C07.SeparatedSampled off si x
  | .range _ _, _ => True
  | .set _, x => SeparatedAt Nix.Dim.Gen.setHitTol x

/-- a region along one axis, in the dimension's unit -/
structure Region where
  mode : SliceMode
  s : Rat
  e : Rat

/-- the region of an axis with position `p`, optional extent entry `e?`, scale factor `sc` -/
def regionOf (stop : SliceMode) (p : Rat) (e? : Option Rat) (sc : Rat) : Region :=
  ⟨(stopOf stop (p * sc) sc e?).2, p * sc, (stopOf stop (p * sc) sc e?).1⟩

def InRegion (dim : DimDesc) (R : Region) (i : Nat) : Prop := InInterval R.mode R.s R.e (dimCoord dim i)

/-! ## the generated decisions of `_calc_data_slices` (`Generated/TagShape.lean`) are the expected ones -/

/-- the generated test on the extent entry is `e > 0`; failing it, and without an entry, the mode is `Inclusive` -/
theorem gen_extent_mode (e : Rat) :
    (Gen.extentKeepsStopRule e = true ↔ 0 < e) ∧ sliceModeNamed Gen.extentElseMode = .inclusive ∧
    sliceModeNamed Gen.noExtentMode = .inclusive := by
  refine ⟨?_, by decide, by decide⟩
  simp [Gen.extentKeepsStopRule]

/-- the generated stop position is `extent · scaling + start` -/
theorem gen_stopPos (e sc start : Rat) : Gen.stopPos e sc start = e * sc + start := rfl

/-- the generated slice is `slice(a, b + 1)`; a whole axis starts at 0 -/
theorem gen_sliceOf (a b : Int) : Gen.sliceOf a b = (a, b + 1) := rfl
theorem gen_wholeAxisStart : Gen.wholeAxisStart = 0 := rfl

/-- the generated comparison of a slice stop with the data extent is `≤` -/
theorem gen_stopInData (s n : Int) : Gen.stopInData s n = decide (s ≤ n) := rfl

/-- the generated refusal test of an indexed feature is `posidx > rows` -/
theorem gen_indexedRowBeyond (i rows : Nat) : Gen.indexedRowBeyond i rows = decide (i > rows) := rfl

theorem noneStr_eq : noneStr = ['n', 'o', 'n', 'e'] := rfl

/-- `stopOf` with the generated decisions spelled out -/
theorem stopOf_some (stop : SliceMode) (start sc e : Rat) :
    stopOf stop start sc (some e) = (e * sc + start, if 0 < e then stop else .inclusive) := by
  have h := gen_extent_mode e
  unfold stopOf
  simp only [gen_stopPos, h.2.1]
  by_cases he : 0 < e
  · simp [he, h.1.mpr he]
  · have : Gen.extentKeepsStopRule e = false := by
      cases hk : Gen.extentKeepsStopRule e with
      | false => rfl
      | true => exact absurd (h.1.mp hk) he
    simp [he, this]

theorem stopOf_none (stop : SliceMode) (start sc : Rat) :
    stopOf stop start sc none = (start, .inclusive) := by
  unfold stopOf
  simp only [(gen_extent_mode 0).2.2]

/-- `regionOf` spelled out -/
theorem regionOf_some (stop : SliceMode) (p e sc : Rat) :
    regionOf stop p (some e) sc = ⟨if 0 < e then stop else .inclusive, p * sc, e * sc + p * sc⟩ := by
  simp only [regionOf, stopOf_some]

theorem regionOf_none (stop : SliceMode) (p sc : Rat) :
    regionOf stop p none sc = ⟨.inclusive, p * sc, p * sc⟩ := by
  simp only [regionOf, stopOf_none]

/-- the descriptor's `range_indices` meets C07's specification -/
theorem dimRangeIndices_meets (dim : DimDesc) (hd : DimOK dim) (s e : Rat) (m : SliceMode)
    (hs : SepAt dim s) (he : SepAt dim e) :
    MeetsRange m (dimCoord dim) (dimDom dim) s e (dimRangeIndices dim s e m) := by
  cases dim with
  | sampled off si u => exact Nix.C07.range_indices_sampled off si s e m hd hs he
  | range ticks u => exact Nix.C07.range_indices_range ticks hd s e m
  | set n => exact Nix.C07.range_indices_set n s e m hs he

/-- what one entry of the slice tuple must be for a region `R` on a descriptor:
`slice(a, b)` with `a … b-1` exactly the samples of the descriptor inside `R` (and there is one), or
`None` when there is none -/
def AxisSpec (dim : DimDesc) (R : Region) : Option Win → Prop
  | some (a, b) => ∃ ka kb : Nat, a = (ka : Int) ∧ b = (kb : Int) + 1 ∧ ka ≤ kb ∧ InDom (dimDom dim) kb ∧
      ∀ i, InDom (dimDom dim) i → (InRegion dim R i ↔ ka ≤ i ∧ i ≤ kb)
  | none => ∀ i, InDom (dimDom dim) i → ¬ InRegion dim R i

/-- **one axis**: when the unit converts with factor `sc`, the loop body of `_calc_data_slices` yields
the slice of exactly the samples in the scaled region, `None` when there is none, or `IndexError`
(negative extent on a range / set dimension) — and then, too, no sample lies in the region -/
theorem axisSlice_spec (stop : SliceMode) (dim : DimDesc) (p : Rat) (e? : Option Rat) (unit : Option Str)
    (sc : Rat) (hd : DimOK dim) (hu : scalePosition p unit dim = .ok (p * sc, sc))
    (hs : SepAt dim (regionOf stop p e? sc).s) (he : SepAt dim (regionOf stop p e? sc).e) :
    match axisSlice stop dim p e? unit with
    | .ok w => AxisSpec dim (regionOf stop p e? sc) w
    | .error err => err = .indexError ∧ ∀ i, InDom (dimDom dim) i → ¬ InRegion dim (regionOf stop p e? sc) i := by
  have hm := dimRangeIndices_meets dim hd (regionOf stop p e? sc).s (regionOf stop p e? sc).e
    (regionOf stop p e? sc).mode hs he
  unfold axisSlice
  rw [hu]
  simp only []
  have e1 : (regionOf stop p e? sc).s = p * sc := rfl
  have e2 : (regionOf stop p e? sc).e = (stopOf stop (p * sc) sc e?).1 := rfl
  have e3 : (regionOf stop p e? sc).mode = (stopOf stop (p * sc) sc e?).2 := rfl
  rw [e1, e2, e3] at hm
  generalize hr : dimRangeIndices dim (p * sc) (stopOf stop (p * sc) sc e?).1 (stopOf stop (p * sc) sc e?).2 = r
    at hm
  match r, hm with
  | .ok (some (a, b)), hm =>
    obtain ⟨ka, kb, ha, hb, hle, hdom, hall⟩ := hm
    exact ⟨ka, kb, ha, by rw [hb], hle, hdom, hall⟩
  | .ok none, hm => exact hm
  | .error err, hm => exact hm

/-! ## units -/

/-- tag unit `u` (none: the tag carries no units) converts to the unit of `dim` with the exact factor `sc`:
a set dimension takes no unit (`""` and `"none"` count as none); without tag units nothing is scaled;
two prefixed forms of the same SI unit and power scale by the ratio of the prefixes raised to the power -/
inductive UnitRel : Option Str → DimDesc → Rat → Prop
  | setNoUnit (n : Nat) : UnitRel none (.set n) 1
  | setFalsy (n : Nat) (u : Str) (h : u = [] ∨ u = noneStr) : UnitRel (some u) (.set n) 1
  | noTagUnit (dim : DimDesc) : UnitRel none dim 1
  | scaled (dim : DimDesc) (p₁ p₂ u w : Str) (h₁ : p₁ ∈ optPrefixes) (h₂ : p₂ ∈ optPrefixes)
      (hu : u ∈ units) (hw : w ∈ powerTexts) (hset : ∀ n, dim ≠ .set n)
      (hdim : dim.unit = some (p₂ ++ u ++ w)) :
      UnitRel (some (p₁ ++ u ++ w)) dim (tenPow (expOf p₁ - expOf p₂) ^ powVal w)

theorem tenPow_pos (k : Int) : 0 < tenPow k := by
  unfold tenPow
  exact zpow_pos (by norm_num) k

/-- `_scale_position` returns `(pos · sc, sc)` and `sc > 0` -/
theorem scalePosition_of_unitRel (pos : Rat) (u : Option Str) (dim : DimDesc) (sc : Rat)
    (h : UnitRel u dim sc) : scalePosition pos u dim = .ok (pos * sc, sc) ∧ 0 < sc := by
  cases h with
  | setNoUnit n => exact ⟨rfl, by norm_num⟩
  | setFalsy n u h =>
    refine ⟨?_, by norm_num⟩
    rcases h with rfl | rfl <;> simp [scalePosition, noneStr]
  | noTagUnit =>
    refine ⟨?_, by norm_num⟩
    cases dim <;> simp [scalePosition]
  | scaled _ p₁ p₂ u w h₁ h₂ hu hw hset hdim =>
    refine ⟨?_, zpow_pos (tenPow_pos _) _⟩
    have hsc := (Nix.C09.scaling_ratio p₁ p₂ u w h₁ h₂ hu hw).2
    cases dim with
    | sampled off si du =>
      simp only [DimDesc.unit] at hdim
      subst hdim
      simp only [scalePosition, hsc]
    | range ticks du =>
      simp only [DimDesc.unit] at hdim
      subst hdim
      simp only [scalePosition, hsc]
    | set n => exact absurd rfl (hset n)

/-- refusals of `_scale_position`: a real unit on a set dimension, a unit for a dimension without one,
another SI base unit or power — always `IncompatibleDimensions`, whatever the position -/
theorem scalePosition_refuses (pos : Rat) :
    (∀ n u, u ≠ [] → u ≠ noneStr → scalePosition pos (some u) (.set n) = .error .incompatibleDimensions) ∧
    (∀ off si u, scalePosition pos (some u) (.sampled off si none) = .error .incompatibleDimensions) ∧
    (∀ ticks u, scalePosition pos (some u) (.range ticks none) = .error .incompatibleDimensions) ∧
    (∀ (dim : DimDesc) (p₁ p₂ u₁ u₂ w₁ w₂ : Str), p₁ ∈ optPrefixes → p₂ ∈ optPrefixes → u₁ ∈ units → u₂ ∈ units →
      w₁ ∈ powerTexts → w₂ ∈ powerTexts → (u₁ ≠ u₂ ∨ w₁.drop 1 ≠ w₂.drop 1) →
      dim.unit = some (p₂ ++ u₂ ++ w₂) →
      scalePosition pos (some (p₁ ++ u₁ ++ w₁)) dim = .error .incompatibleDimensions) := by
  refine ⟨?_, ?_, ?_, ?_⟩
  · intro n u h1 h2
    have : (!u.isEmpty && u != noneStr) = true := by
      cases u with
      | nil => exact absurd rfl h1
      | cons c cs => simpa using h2
    simp [scalePosition, this]
  · intro off si u; rfl
  · intro ticks u; rfl
  · intro dim p₁ p₂ u₁ u₂ w₁ w₂ h₁ h₂ hu₁ hu₂ hw₁ hw₂ hne hdim
    have hsc := (Nix.C09.not_scalable p₁ p₂ u₁ u₂ w₁ w₂ h₁ h₂ hu₁ hu₂ hw₁ hw₂ hne).2
    cases dim with
    | sampled off si du =>
      simp only [DimDesc.unit] at hdim
      subst hdim
      simp only [scalePosition, hsc]
    | range ticks du =>
      simp only [DimDesc.unit] at hdim
      subst hdim
      simp only [scalePosition, hsc]
    | set n => simp [DimDesc.unit] at hdim

end Nix.Tagging
