import NixModel.Lemmas.C16Create
/-! Lemmas for C16: which operation can change the schema, the units and the row count; stored column names are
never empty, so `append_column(name)` stores the column under exactly that name. -/
namespace Nix.Frame

theorem setMany_length' : ∀ (rows : List Row) (ks : List Nat) (rs : List Row),
    (setMany rows ks rs).length = rows.length
  | rows, [], _ => by simp [setMany]
  | rows, _ :: _, [] => by simp [setMany]
  | rows, k :: ks, r :: rs => by simp [setMany, setMany_length' (rows.set k r) ks rs]

theorem writeColLoop_length' : ∀ (t : ColType) (c : Nat) (rows : List Row) (col : List Val),
    (writeColLoop t c rows col).1.length = rows.length
  | t, c, [], _ => by simp [writeColLoop]
  | t, c, _ :: _, [] => by simp [writeColLoop]
  | t, c, r :: rows, v :: col => by
    simp only [writeColLoop]
    split
    · rfl
    · simp [writeColLoop_length' t c rows col]

/-- only `append_column` changes the columns -/
theorem step_cols (f : Frame) (op : Op) (h : ∀ col name dt, op ≠ .appendColumn col name dt) :
    (step f op).1.cols = f.cols := by
  cases op with
  | appendColumn col name dt => exact absurd rfl (h col name dt)
  | appendRows rows => simp only [step, appendRows]; split <;> rfl
  | writeRows rows idx => simp only [step, writeRows]; repeat' split
                          all_goals rfl
  | writeRowFlat row idx => simp only [step, writeRowFlat, writeRows]; repeat' split
                            all_goals rfl
  | writeColumn col index name => simp only [step, writeColumn]; repeat' split
                                  all_goals rfl
  | writeCellPos cell pos => simp only [step, writeCellPos]; repeat' split
                             all_goals rfl
  | writeCellName cell name ri => simp only [step, writeCellName]; repeat' split
                                  all_goals rfl
  | setUnits us => simp only [step, setUnits]; split <;> rfl

/-- only `units = …` and `append_column` (one more empty unit) change the units -/
theorem step_units (f : Frame) (op : Op) (h : ∀ col name dt, op ≠ .appendColumn col name dt)
    (h' : ∀ us, op ≠ .setUnits us) : (step f op).1.units = f.units := by
  cases op with
  | appendColumn col name dt => exact absurd rfl (h col name dt)
  | setUnits us => exact absurd rfl (h' us)
  | appendRows rows => simp only [step, appendRows]; split <;> rfl
  | writeRows rows idx => simp only [step, writeRows]; repeat' split
                          all_goals rfl
  | writeRowFlat row idx => simp only [step, writeRowFlat, writeRows]; repeat' split
                            all_goals rfl
  | writeColumn col index name => simp only [step, writeColumn]; repeat' split
                                  all_goals rfl
  | writeCellPos cell pos => simp only [step, writeCellPos]; repeat' split
                             all_goals rfl
  | writeCellName cell name ri => simp only [step, writeCellName]; repeat' split
                                  all_goals rfl

/-- only `append_rows` changes the number of rows -/
theorem step_nrows (f : Frame) (op : Op) (h : ∀ rows, op ≠ .appendRows rows) :
    (step f op).1.rows.length = f.rows.length := by
  cases op with
  | appendRows rows => exact absurd rfl (h rows)
  | appendColumn col name dt =>
    simp only [step, appendColumn]
    split
    · rfl
    · rename_i hl
      repeat' split
      all_goals first | rfl | skip
      rename_i ws hws
      have := (convCol_spec hws).1
      exact appendCell_length (by simp at hl; omega)
  | writeRows rows idx => simp only [step, writeRows]; repeat' split
                          all_goals first | rfl | exact setMany_length' _ _ _
  | writeRowFlat row idx => simp only [step, writeRowFlat, writeRows]; repeat' split
                            all_goals first | rfl | exact setMany_length' _ _ _
  | writeColumn col index name =>
    simp only [step, writeColumn]; repeat' split
    all_goals first | rfl | skip
    rename_i rows' hloop
    have e := congrArg Prod.fst hloop
    simp only at e
    rw [← e]
    exact writeColLoop_length' _ _ _ _
  | writeCellPos cell pos => exact writeCellPos_rows_length f cell pos
  | writeCellName cell name ri => exact writeCellName_rows_length f cell name ri
  | setUnits us => simp only [step, setUnits]; split <;> rfl

-- ---------------------------------------------------------------------------------------
-- stored names are never empty

def NamesOK (f : Frame) : Prop := ∀ c ∈ f.cols, c.1 ≠ ""

theorem f_append_ne (s : String) : "f" ++ s ≠ "" := by
  intro h
  have := congrArg String.length h
  simp at this

theorem normNamesFrom_nonempty : ∀ (i : Nat) (cols : List (String × ColType)), ∀ c ∈ normNamesFrom i cols, c.1 ≠ ""
  | _, [], c, h => by simp [normNamesFrom] at h
  | i, (n, t) :: rest, c, h => by
    simp only [normNamesFrom, List.mem_cons] at h
    rcases h with rfl | h
    · simp only
      split
      · exact f_append_ne _
      · assumption
    · exact normNamesFrom_nonempty (i + 1) rest c h

theorem mkDtype_namesOK {cols c : List (String × ColType)} (h : mkDtype cols = .ok c) : ∀ x ∈ c, x.1 ≠ "" := by
  unfold mkDtype at h
  simp only at h
  split at h
  · cases h
  · injection h with h; subst h
    exact normNamesFrom_nonempty 0 cols

theorem namesOK_step {f : Frame} (h : NamesOK f) (op : Op) : NamesOK (step f op).1 := by
  cases op with
  | appendColumn col name dt =>
    simp only [step, appendColumn]
    repeat' split
    all_goals first | exact h | skip
    rename_i cols' hd _ _ _
    exact mkDtype_namesOK hd
  | appendRows rows => unfold NamesOK; rw [step_cols f _ (by intro _ _ _ e; cases e)]; exact h
  | writeRows rows idx => unfold NamesOK; rw [step_cols f _ (by intro _ _ _ e; cases e)]; exact h
  | writeRowFlat row idx => unfold NamesOK; rw [step_cols f _ (by intro _ _ _ e; cases e)]; exact h
  | writeColumn col index name => unfold NamesOK; rw [step_cols f _ (by intro _ _ _ e; cases e)]; exact h
  | writeCellPos cell pos => unfold NamesOK; rw [step_cols f _ (by intro _ _ _ e; cases e)]; exact h
  | writeCellName cell name ri => unfold NamesOK; rw [step_cols f _ (by intro _ _ _ e; cases e)]; exact h
  | setUnits us => unfold NamesOK; rw [step_cols f _ (by intro _ _ _ e; cases e)]; exact h

theorem namesOK_run {f : Frame} (h : NamesOK f) (ops : List Op) : NamesOK (run f ops) := by
  induction ops generalizing f with
  | nil => exact h
  | cons op ops ih => exact ih (namesOK_step h op)

theorem namesOK_createWith {cols : List (String × ColType)} {data : Option (List (List Val))} {f : Frame}
    (h : createWith cols data = .ok f) : NamesOK f := mkDtype_namesOK (createWith_spec h).1

/-- an accepted `append_column(col, name)` with a proper name stores the column under exactly that name, as the
    new last column -/
theorem appendColumn_named {f f' : Frame} (hn : NamesOK f) {col : List Val} {name : String} {dt : Option ColType}
    (hne : name ≠ "") (h : appendColumn f col name dt = (f', none)) :
    ∃ t, f'.cols = f.cols ++ [(name, t)] ∧ (∀ t0, dt = some t0 → t = t0) ∧
      (dt = none → ∃ v, col.head? = some v ∧ t = typeOfVal v) := by
  unfold appendColumn at h
  simp only at h
  repeat' split at h
  all_goals first | (simp at h; done) | skip
  rename_i t ht _ cols' hd _ ws hws
  injection h with h1 _
  subst h1
  refine ⟨t, ?_, ?_, ?_⟩
  · unfold mkDtype at hd
    simp only [normNamesFrom_append 0 f.cols name t hne, normNamesFrom_id 0 f.cols hn] at hd
    split at hd
    · cases hd
    · injection hd with hd; exact hd.symm
  · intro t0 e; subst e; simpa using ht.symm
  · intro e; subst e
    cases col with
    | nil => simp at ht
    | cons v vs => exact ⟨v, rfl, by simpa using ht.symm⟩

end Nix.Frame
