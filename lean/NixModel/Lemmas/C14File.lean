import NixModel.Lemmas.C14Tags

/-!
# C14 — the traversal of `check_file`: which objects are visited, and the API reads that raise
-/
namespace Nix.Validator.Lemmas
open Nix.Validator Nix.Validator.Gen

/-! ## flattening of the source / section trees (pre-order) -/

mutual
/-- all sources of a tree -/
def sourceEnts : Source → List Ent
  | .mk e ch => e :: sourcesEnts ch
def sourcesEnts : List Source → List Ent
  | [] => []
  | s :: rest => sourceEnts s ++ sourcesEnts rest
end

mutual
/-- all sections of a tree, each with its properties -/
def sectionNodes : Section → List (Ent × List Property)
  | .mk e ps ch => (e, ps) :: sectionsNodes ch
def sectionsNodes : List Section → List (Ent × List Property)
  | [] => []
  | s :: rest => sectionNodes s ++ sectionsNodes rest
end

/-! ## `mapIdx` -/

theorem mem_mapIdx {α β : Type} (f : Nat → α → β) (x : β) (l : List α) :
    ∀ start, x ∈ mapIdx f start l ↔ ∃ i a, l[i]? = some a ∧ x = f (start + i) a := by
  induction l with
  | nil => intro start; simp [mapIdx]
  | cons a rest ih =>
    intro start
    simp only [mapIdx, List.mem_cons, ih]
    constructor
    · rintro (h | ⟨i, b, hi, hx⟩)
      · exact ⟨0, a, by simp, by simpa using h⟩
      · exact ⟨i + 1, b, by simpa using hi, by rw [hx]; congr 1; omega⟩
    · rintro ⟨i, b, hi, hx⟩
      cases i with
      | zero =>
        simp only [List.getElem?_cons_zero, Option.some.injEq] at hi
        subst hi
        exact Or.inl (by simpa using hx)
      | succ j => exact Or.inr ⟨j, b, by simpa using hi, by rw [hx]; congr 1; omega⟩

/-! ## the trees: what is visited -/

mutual
theorem sourceChecks_sound (pre : List Nat) (s : Source) (km : Key × List Msg)
    (h : km ∈ sourceChecks pre s) : km.1.kind = .source ∧ ∃ e ∈ sourceEnts s, km.2 = checkEntity e := by
  match s with
  | .mk e ch =>
    simp only [sourceChecks, List.mem_cons] at h
    rcases h with h | h
    · subst h
      exact ⟨rfl, e, by simp [sourceEnts], rfl⟩
    · obtain ⟨hk, e', he', hm⟩ := sourcesChecks_sound pre 0 ch km h
      exact ⟨hk, e', by simp [sourceEnts, he'], hm⟩
theorem sourcesChecks_sound (pre : List Nat) (i : Nat) (l : List Source) (km : Key × List Msg)
    (h : km ∈ sourcesChecks pre i l) : km.1.kind = .source ∧ ∃ e ∈ sourcesEnts l, km.2 = checkEntity e := by
  match l with
  | [] => simp [sourcesChecks] at h
  | s :: rest =>
    simp only [sourcesChecks, List.mem_append] at h
    rcases h with h | h
    · obtain ⟨hk, e', he', hm⟩ := sourceChecks_sound (pre ++ [i]) s km h
      exact ⟨hk, e', by simp [sourcesEnts, he'], hm⟩
    · obtain ⟨hk, e', he', hm⟩ := sourcesChecks_sound pre (i + 1) rest km h
      exact ⟨hk, e', by simp [sourcesEnts, he'], hm⟩
end

mutual
theorem sourceChecks_complete (pre : List Nat) (s : Source) (e : Ent) (h : e ∈ sourceEnts s) :
    ∃ p, (⟨.source, p⟩, checkEntity e) ∈ sourceChecks pre s := by
  match s with
  | .mk e0 ch =>
    simp only [sourceEnts, List.mem_cons] at h
    rcases h with h | h
    · subst h
      exact ⟨pre, by simp [sourceChecks]⟩
    · obtain ⟨p, hp⟩ := sourcesChecks_complete pre 0 ch e h
      exact ⟨p, by simp [sourceChecks, hp]⟩
theorem sourcesChecks_complete (pre : List Nat) (i : Nat) (l : List Source) (e : Ent) (h : e ∈ sourcesEnts l) :
    ∃ p, (⟨.source, p⟩, checkEntity e) ∈ sourcesChecks pre i l := by
  match l with
  | [] => simp [sourcesEnts] at h
  | s :: rest =>
    simp only [sourcesEnts, List.mem_append] at h
    rcases h with h | h
    · obtain ⟨p, hp⟩ := sourceChecks_complete (pre ++ [i]) s e h
      exact ⟨p, by simp [sourcesChecks, hp]⟩
    · obtain ⟨p, hp⟩ := sourcesChecks_complete pre (i + 1) rest e h
      exact ⟨p, by simp [sourcesChecks, hp]⟩
end

mutual
theorem sectionChecks_sound (pre : List Nat) (s : Section) (km : Key × List Msg)
    (h : km ∈ sectionChecks pre s) :
    km.1.kind = .section ∧ ∃ n ∈ sectionNodes s, km.2 = checkSection n.1 n.2 := by
  match s with
  | .mk e ps ch =>
    simp only [sectionChecks, List.mem_cons] at h
    rcases h with h | h
    · subst h
      exact ⟨rfl, (e, ps), by simp [sectionNodes], rfl⟩
    · obtain ⟨hk, n, hn, hm⟩ := sectionsChecks_sound pre 0 ch km h
      exact ⟨hk, n, by simp [sectionNodes, hn], hm⟩
theorem sectionsChecks_sound (pre : List Nat) (i : Nat) (l : List Section) (km : Key × List Msg)
    (h : km ∈ sectionsChecks pre i l) :
    km.1.kind = .section ∧ ∃ n ∈ sectionsNodes l, km.2 = checkSection n.1 n.2 := by
  match l with
  | [] => simp [sectionsChecks] at h
  | s :: rest =>
    simp only [sectionsChecks, List.mem_append] at h
    rcases h with h | h
    · obtain ⟨hk, n, hn, hm⟩ := sectionChecks_sound (pre ++ [i]) s km h
      exact ⟨hk, n, by simp [sectionsNodes, hn], hm⟩
    · obtain ⟨hk, n, hn, hm⟩ := sectionsChecks_sound pre (i + 1) rest km h
      exact ⟨hk, n, by simp [sectionsNodes, hn], hm⟩
end

mutual
theorem sectionChecks_complete (pre : List Nat) (s : Section) (n : Ent × List Property)
    (h : n ∈ sectionNodes s) : ∃ p, (⟨.section, p⟩, checkSection n.1 n.2) ∈ sectionChecks pre s := by
  match s with
  | .mk e0 ps ch =>
    simp only [sectionNodes, List.mem_cons] at h
    rcases h with h | h
    · subst h
      exact ⟨pre, by simp [sectionChecks]⟩
    · obtain ⟨p, hp⟩ := sectionsChecks_complete pre 0 ch n h
      exact ⟨p, by simp [sectionChecks, hp]⟩
theorem sectionsChecks_complete (pre : List Nat) (i : Nat) (l : List Section) (n : Ent × List Property)
    (h : n ∈ sectionsNodes l) : ∃ p, (⟨.section, p⟩, checkSection n.1 n.2) ∈ sectionsChecks pre i l := by
  match l with
  | [] => simp [sectionsNodes] at h
  | s :: rest =>
    simp only [sectionsNodes, List.mem_append] at h
    rcases h with h | h
    · obtain ⟨p, hp⟩ := sectionChecks_complete (pre ++ [i]) s n h
      exact ⟨p, by simp [sectionsChecks, hp]⟩
    · obtain ⟨p, hp⟩ := sectionsChecks_complete pre (i + 1) rest n h
      exact ⟨p, by simp [sectionsChecks, hp]⟩
end

/-! ## the objects of a file and their check results -/

/-- `msgs` is what the validator computes for some object of kind `kind` in the file -/
def IsCheckOf (f : File) (kind : Kind) (msgs : List Msg) : Prop :=
  match kind with
  | .file => msgs = checkFileObj f
  | .block => ∃ b ∈ f.blocks, msgs = checkEntity b.ent
  | .group => ∃ b ∈ f.blocks, ∃ g ∈ b.groups, msgs = checkEntity g
  | .array => ∃ b ∈ f.blocks, ∃ da ∈ b.arrays, msgs = checkDataArray da
  | .tag => ∃ b ∈ f.blocks, ∃ t ∈ b.tags, msgs = checkTag b.arrays t
  | .mtag => ∃ b ∈ f.blocks, ∃ t ∈ b.mtags, msgs = checkMultiTag b.arrays t
  | .source => ∃ b ∈ f.blocks, ∃ e ∈ sourcesEnts b.sources, msgs = checkEntity e
  | .section => ∃ n ∈ sectionsNodes f.sections, msgs = checkSection n.1 n.2

/-- `IsCheckOf` for the objects of one block -/
def IsBlockCheckOf (b : Block) (kind : Kind) (msgs : List Msg) : Prop :=
  match kind with
  | .block => msgs = checkEntity b.ent
  | .group => ∃ g ∈ b.groups, msgs = checkEntity g
  | .array => ∃ da ∈ b.arrays, msgs = checkDataArray da
  | .tag => ∃ t ∈ b.tags, msgs = checkTag b.arrays t
  | .mtag => ∃ t ∈ b.mtags, msgs = checkMultiTag b.arrays t
  | .source => ∃ e ∈ sourcesEnts b.sources, msgs = checkEntity e
  | .file | .section => False

theorem blockChecks_iff (bi : Nat) (b : Block) (kind : Kind) (msgs : List Msg) :
    (∃ p, (⟨kind, p⟩, msgs) ∈ blockChecks bi b) ↔ IsBlockCheckOf b kind msgs := by
  unfold blockChecks
  simp only [List.mem_cons, List.mem_append, mem_mapIdx, Nat.zero_add, Prod.mk.injEq, Key.mk.injEq]
  constructor
  · rintro ⟨p, h⟩
    rcases h with h | (((h | h) | h) | h) | h
    · obtain ⟨⟨rfl, -⟩, rfl⟩ := h; rfl
    · obtain ⟨i, g, hi, ⟨rfl, -⟩, rfl⟩ := h; exact ⟨g, List.mem_of_getElem? hi, rfl⟩
    · obtain ⟨i, g, hi, ⟨rfl, -⟩, rfl⟩ := h; exact ⟨g, List.mem_of_getElem? hi, rfl⟩
    · obtain ⟨i, g, hi, ⟨rfl, -⟩, rfl⟩ := h; exact ⟨g, List.mem_of_getElem? hi, rfl⟩
    · obtain ⟨i, g, hi, ⟨rfl, -⟩, rfl⟩ := h; exact ⟨g, List.mem_of_getElem? hi, rfl⟩
    · obtain ⟨hk, e, he, hm⟩ := sourcesChecks_sound [bi] 0 b.sources _ h
      simp only at hk hm
      subst hk
      exact ⟨e, he, hm⟩
  · intro h
    cases kind with
    | file => exact absurd h (by simp [IsBlockCheckOf])
    | «section» => exact absurd h (by simp [IsBlockCheckOf])
    | block => exact ⟨[bi], Or.inl ⟨⟨rfl, rfl⟩, h⟩⟩
    | group =>
      obtain ⟨g, hg, rfl⟩ := h
      obtain ⟨i, hi⟩ := List.mem_iff_getElem?.mp hg
      exact ⟨[bi, i], Or.inr (Or.inl (Or.inl (Or.inl (Or.inl ⟨i, g, hi, ⟨rfl, rfl⟩, rfl⟩))))⟩
    | array =>
      obtain ⟨g, hg, rfl⟩ := h
      obtain ⟨i, hi⟩ := List.mem_iff_getElem?.mp hg
      exact ⟨[bi, i], Or.inr (Or.inl (Or.inl (Or.inl (Or.inr ⟨i, g, hi, ⟨rfl, rfl⟩, rfl⟩))))⟩
    | tag =>
      obtain ⟨g, hg, rfl⟩ := h
      obtain ⟨i, hi⟩ := List.mem_iff_getElem?.mp hg
      exact ⟨[bi, i], Or.inr (Or.inl (Or.inl (Or.inr ⟨i, g, hi, ⟨rfl, rfl⟩, rfl⟩)))⟩
    | mtag =>
      obtain ⟨g, hg, rfl⟩ := h
      obtain ⟨i, hi⟩ := List.mem_iff_getElem?.mp hg
      exact ⟨[bi, i], Or.inr (Or.inl (Or.inr ⟨i, g, hi, ⟨rfl, rfl⟩, rfl⟩))⟩
    | source =>
      obtain ⟨e, he, rfl⟩ := h
      obtain ⟨p, hp⟩ := sourcesChecks_complete [bi] 0 b.sources e he
      exact ⟨p, Or.inr (Or.inr hp)⟩

theorem blocksChecks_iff (kind : Kind) (msgs : List Msg) (l : List Block) :
    ∀ start, (∃ p, (⟨kind, p⟩, msgs) ∈ blocksChecks start l) ↔ ∃ b ∈ l, IsBlockCheckOf b kind msgs := by
  induction l with
  | nil => intro start; simp [blocksChecks]
  | cons b rest ih =>
    intro start
    simp only [blocksChecks, List.mem_append, exists_or, blockChecks_iff, ih, List.mem_cons,
      exists_eq_or_imp]

/-- **the traversal visits exactly the objects of the file**: an entry of kind `kind` with messages
`msgs` is produced iff `msgs` is the check result of an object of that kind -/
theorem allChecks_iff (f : File) (kind : Kind) (msgs : List Msg) :
    (∃ p, (⟨kind, p⟩, msgs) ∈ allChecks f) ↔ IsCheckOf f kind msgs := by
  unfold allChecks
  simp only [List.mem_cons, List.mem_append, exists_or, blocksChecks_iff, Prod.mk.injEq, Key.mk.injEq]
  constructor
  · rintro (⟨p, ⟨rfl, -⟩, rfl⟩ | ⟨b, hb, h⟩ | ⟨p, h⟩)
    · rfl
    · cases kind <;> first | exact ⟨b, hb, h⟩ | exact absurd h (by simp [IsBlockCheckOf])
    · obtain ⟨hk, n, hn, hm⟩ := sectionsChecks_sound [] 0 f.sections _ h
      simp only at hk hm
      subst hk
      exact ⟨n, hn, hm⟩
  · intro h
    cases kind with
    | file => exact Or.inl ⟨[], ⟨rfl, rfl⟩, h⟩
    | block => obtain ⟨b, hb, h⟩ := h; exact Or.inr (Or.inl ⟨b, hb, h⟩)
    | group => obtain ⟨b, hb, h⟩ := h; exact Or.inr (Or.inl ⟨b, hb, h⟩)
    | array => obtain ⟨b, hb, h⟩ := h; exact Or.inr (Or.inl ⟨b, hb, h⟩)
    | tag => obtain ⟨b, hb, h⟩ := h; exact Or.inr (Or.inl ⟨b, hb, h⟩)
    | mtag => obtain ⟨b, hb, h⟩ := h; exact Or.inr (Or.inl ⟨b, hb, h⟩)
    | source => obtain ⟨b, hb, h⟩ := h; exact Or.inr (Or.inl ⟨b, hb, h⟩)
    | «section» =>
      obtain ⟨n, hn, rfl⟩ := h
      obtain ⟨p, hp⟩ := sectionsChecks_complete [] 0 f.sections n hn
      exact Or.inr (Or.inr ⟨p, hp⟩)

end Nix.Validator.Lemmas
