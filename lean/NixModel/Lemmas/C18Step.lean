import NixModel.Lemmas.C18Sort

/-! one successful step of the collected list leaves exactly the rest of the list to collect -/
namespace Nix.Upgrade.Lemmas
open Nix.Upgrade

/-- representation invariant: HDF5 link names are unique inside a group -/
def WF (f : File) : Prop :=
  (f.props.map (·.1)).Nodup ∧ (f.arrays.map (·.path)).Nodup ∧ ∀ a ∈ f.arrays, (a.dims.map (·.name)).Nodup

instance (f : File) : Decidable (WF f) := by unfold WF; exact inferInstance

/-! ### properties -/

theorem hasPath_false {ps : List (Path × PObj)} {p : Path} (h : hasPath ps p = false) : p ∉ ps.map (·.1) := by
  unfold hasPath at h
  simp only [List.any_eq_false, beq_iff_eq] at h
  simp only [List.mem_map, not_exists, not_and]
  intro e he
  exact h e he

theorem createAll_ok (es : List (Path × PObj)) : ∀ ps : List (Path × PObj),
    (createAll ps es).2 = none → (createAll ps es).1 = ps ++ es := by
  induction es with
  | nil => intro ps _; simp [createAll]
  | cons e es ih =>
    intro ps h
    simp only [createAll] at h ⊢
    cases hp : hasPath ps e.1 with
    | true => simp [hp] at h
    | false =>
      simp only [hp, Bool.false_eq_true, ↓reduceIte] at h ⊢
      rw [ih _ h]
      simp

theorem createAll_nodup (es : List (Path × PObj)) : ∀ ps : List (Path × PObj),
    (ps.map (·.1)).Nodup → (createAll ps es).2 = none → ((createAll ps es).1.map (·.1)).Nodup := by
  induction es with
  | nil => intro ps h _; simpa [createAll] using h
  | cons e es ih =>
    intro ps hnd h
    simp only [createAll] at h ⊢
    cases hp : hasPath ps e.1 with
    | true => simp [hp] at h
    | false =>
      simp only [hp, Bool.false_eq_true, ↓reduceIte] at h ⊢
      apply ih _ _ h
      have hnot := hasPath_false hp
      simp only [List.map_append, List.map_cons, List.map_nil]
      rw [List.nodup_append]
      refine ⟨hnd, by simp, ?_⟩
      intro a ha b hb
      simp only [List.mem_singleton] at hb
      subst hb
      intro hab
      exact hnot (hab ▸ ha)

theorem oldPaths_append (a b : List (Path × PObj)) : oldPaths (a ++ b) = oldPaths a ++ oldPaths b := by
  simp [oldPaths, List.filterMap_append]

theorem oldPaths_converted (r : Nat) (p : Path) (o : OldProp) : oldPaths (converted r p o) = [] := by
  unfold converted
  simp only [oldPaths_append]
  simp only [List.append_eq_nil_iff]
  refine ⟨⟨⟨⟨⟨rfl, ?_⟩, ?_⟩, ?_⟩, ?_⟩, ?_⟩ <;> (split <;> rfl)

theorem oldPaths_filter (ps : List (Path × PObj)) (p : Path) :
    oldPaths (ps.filter (·.1 != p)) = (oldPaths ps).filter (· != p) := by
  induction ps with
  | nil => rfl
  | cons e ps ih =>
    obtain ⟨q, o⟩ := e
    by_cases h : (q != p) = true
    · cases o <;> simp_all [oldPaths]
    · cases o <;> simp_all [oldPaths]

theorem oldPaths_eq (ps : List (Path × PObj)) :
    oldPaths ps = (ps.filter fun e => match e.2 with | .old _ => true | .new _ => false).map (·.1) := by
  induction ps with
  | nil => rfl
  | cons e ps ih =>
    obtain ⟨q, o⟩ := e
    cases o <;> simp_all [oldPaths]

theorem oldPaths_nodup {ps : List (Path × PObj)} (h : (ps.map (·.1)).Nodup) : (oldPaths ps).Nodup := by
  rw [oldPaths_eq]
  exact h.sublist (List.Sublist.map _ List.filter_sublist)

theorem mem_oldPaths {ps : List (Path × PObj)} {p : Path} (h : p ∈ oldPaths ps) :
    ∃ o, (p, PObj.old o) ∈ ps := by
  unfold oldPaths at h
  simp only [List.mem_filterMap] at h
  obtain ⟨⟨q, x⟩, hm, hx⟩ := h
  cases x with
  | old o => simp only [Option.some.injEq] at hx; subst hx; exact ⟨o, hm⟩
  | new n => simp at hx

theorem lookup_of_mem {ps : List (Path × PObj)} {p : Path} {x : PObj}
    (hnd : (ps.map (·.1)).Nodup) (hm : (p, x) ∈ ps) : lookup ps p = some x := by
  induction ps with
  | nil => cases hm
  | cons e ps ih =>
    simp only [List.map_cons, List.nodup_cons] at hnd
    simp only [List.mem_cons] at hm
    rcases hm with rfl | hm
    · simp [lookup]
    · have : e.1 ≠ p := by
        intro he
        apply hnd.1
        rw [he]
        exact List.mem_map.mpr ⟨(p, x), hm, rfl⟩
      have hb : (e.1 == p) = false := by simpa using this
      have := ih hnd.2 hm
      simp only [lookup, List.find?_cons, hb] at this ⊢
      exact this

theorem filter_paths_nodup {ps : List (Path × PObj)} (p : Path) (h : (ps.map (·.1)).Nodup) :
    ((ps.filter (·.1 != p)).map (·.1)).Nodup :=
  h.sublist (List.Sublist.map _ List.filter_sublist)

/-- a successful conversion of a compound property: no needed name was taken, the old dataset was replaced -/
theorem convertProp_old_ok {r : Nat} {f f' : File} {p : Path} {o : OldProp}
    (hl : lookup f.props p = some (.old o)) (hs : convertProp r f p = (f', none)) :
    nameTaken f.props (converted r p o) = false ∧
    f' = { f with props := (createAll (f.props.filter (·.1 != p)) (converted r p o)).1 } ∧
    (createAll (f.props.filter (·.1 != p)) (converted r p o)).2 = none := by
  unfold convertProp at hs
  rw [hl] at hs
  simp only at hs
  cases ht : nameTaken f.props (converted r p o) with
  | true => simp [ht] at hs
  | false =>
    simp only [ht, Bool.false_eq_true, ↓reduceIte, Prod.mk.injEq] at hs
    exact ⟨rfl, hs.1.symm, hs.2⟩

/-- converting the first property of the visit order -/
theorem convertProp_head {r : Nat} {f f' : File} {p : Path} {t : List Path} (hwf : WF f)
    (hh : propTasks f = p :: t) (hs : convertProp r f p = (f', none)) :
    propTasks f' = t ∧ WF f' ∧ f'.arrays = f.arrays ∧ f'.version = f.version ∧ f'.id = f.id := by
  have hmem : p ∈ oldPaths f.props := by
    have : p ∈ propTasks f := by rw [hh]; simp
    unfold propTasks at this
    exact List.mem_mergeSort.mp this
  obtain ⟨o, ho⟩ := mem_oldPaths hmem
  have hl := lookup_of_mem hwf.1 ho
  obtain ⟨_, hf, he⟩ := convertProp_old_ok hl hs
  have hprops := createAll_ok _ _ he
  have hnd := createAll_nodup _ _ (filter_paths_nodup p hwf.1) he
  subst hf
  refine ⟨?_, ⟨hnd, hwf.2.1, hwf.2.2⟩, rfl, rfl, rfl⟩
  unfold propTasks
  simp only
  rw [hprops, oldPaths_append, oldPaths_converted, List.append_nil, oldPaths_filter]
  exact mergeSort_filter_head (oldPaths_nodup hwf.1) hh

/-! ### dimensions -/

theorem convertDimObj_alias {r : Nat} {daid : String} {d : Dim} (h : isAliasDim d = true) :
    (convertDimObj r daid d).2 = none ∧ isAliasDim (convertDimObj r daid d).1 = false
      ∧ (convertDimObj r daid d).1.name = d.name := by
  obtain ⟨name, ty, ticks, unit, label, alias, link⟩ := d
  cases ticks <;> cases link <;> cases alias <;> simp_all [isAliasDim, convertDimObj]

theorem updDims_names {r : Nat} {daid dn : String} : ∀ {ds ds' : List Dim} {e : Option Err},
    updDims r daid dn ds = some (ds', e) →
    (∀ d ∈ ds, (convertDimObj r daid d).1.name = d.name) → ds'.map (·.name) = ds.map (·.name) := by
  intro ds
  induction ds with
  | nil => intro ds' e h; simp [updDims] at h
  | cons d ds ih =>
    intro ds' e h hn
    simp only [updDims] at h
    cases hd : (d.name == dn) with
    | true =>
      simp only [hd, ↓reduceIte, Option.some.injEq, Prod.mk.injEq] at h
      rw [← h.1]
      simp [hn d (by simp)]
    | false =>
      simp only [hd, Bool.false_eq_true, ↓reduceIte] at h
      cases hu : updDims r daid dn ds with
      | none => simp [hu] at h
      | some x =>
        simp only [hu, Option.map_some, Option.some.injEq, Prod.mk.injEq] at h
        rw [← h.1]
        simp only [List.map_cons]
        rw [ih (e := x.2) (by rw [hu]) (fun d' hd' => hn d' (by simp [hd']))]

theorem convertDimObj_name (r : Nat) (daid : String) (d : Dim) : (convertDimObj r daid d).1.name = d.name := by
  unfold convertDimObj
  split
  · rfl
  · split
    · rfl
    · split <;> rfl

/-- inside one array: converting the first alias dimension removes it from the list of alias dimensions -/
theorem updDims_head {r : Nat} {daid dn : String} {ap : String} : ∀ {ds : List Dim} {rest : List (String × String)},
    (ds.map (·.name)).Nodup →
    (ds.filter isAliasDim).map (fun d => (ap, d.name)) = (ap, dn) :: rest →
    ∃ ds', updDims r daid dn ds = some (ds', none) ∧
      (ds'.filter isAliasDim).map (fun d => (ap, d.name)) = rest := by
  intro ds
  induction ds with
  | nil => intro rest _ h; simp at h
  | cons d ds ih =>
    intro rest hnd h
    simp only [List.map_cons, List.nodup_cons] at hnd
    cases ha : isAliasDim d with
    | true =>
      simp only [List.filter_cons, ha, ↓reduceIte, List.map_cons, List.cons.injEq, Prod.mk.injEq, true_and] at h
      obtain ⟨hn, hrest⟩ := h
      have hc := convertDimObj_alias (r := r) (daid := daid) ha
      refine ⟨(convertDimObj r daid d).1 :: ds, ?_, ?_⟩
      · simp only [updDims, hn, beq_self_eq_true, ↓reduceIte]
        rw [← hc.1]
      · simp only [List.filter_cons, hc.2.1, Bool.false_eq_true, ↓reduceIte]
        exact hrest
    | false =>
      simp only [List.filter_cons, ha, Bool.false_eq_true, ↓reduceIte] at h
      have hmem : (ap, dn) ∈ (ds.filter isAliasDim).map (fun d => (ap, d.name)) := by rw [h]; simp
      have hdn : d.name ≠ dn := by
        intro hd
        simp only [List.mem_map, List.mem_filter, Prod.mk.injEq, true_and] at hmem
        obtain ⟨d', ⟨hd', _⟩, hname⟩ := hmem
        apply hnd.1
        rw [hd, ← hname]
        exact List.mem_map.mpr ⟨d', hd', rfl⟩
      obtain ⟨ds', hu, hr⟩ := ih hnd.2 h
      have hb : (d.name == dn) = false := by simpa using hdn
      refine ⟨d :: ds', ?_, ?_⟩
      · simp only [updDims, hb, Bool.false_eq_true, ↓reduceIte, hu, Option.map_some]
      · simp only [List.filter_cons, ha, Bool.false_eq_true, ↓reduceIte]
        exact hr

theorem updDims_some_names {r : Nat} {daid dn : String} {ds ds' : List Dim} {e : Option Err}
    (h : updDims r daid dn ds = some (ds', e)) : ds'.map (·.name) = ds.map (·.name) :=
  updDims_names h (fun d _ => convertDimObj_name r daid d)

theorem aliasDims_cons (a : Arr) (as : List Arr) :
    aliasDims (a :: as) = (a.dims.filter isAliasDim).map (fun d => (a.path, d.name)) ++ aliasDims as := by
  simp [aliasDims]

theorem mem_aliasDims_path {as : List Arr} {ap dn : String} (h : (ap, dn) ∈ aliasDims as) :
    ap ∈ as.map (·.path) := by
  unfold aliasDims at h
  simp only [List.mem_flatMap, List.mem_map, List.mem_filter, Prod.mk.injEq] at h
  obtain ⟨a, ha, _, _, hp, _⟩ := h
  exact List.mem_map.mpr ⟨a, ha, hp⟩

/-- converting the first alias dimension of the file -/
theorem updArrs_head {r : Nat} {ap dn : String} : ∀ {as : List Arr} {rest : List (String × String)},
    (as.map (·.path)).Nodup → (∀ a ∈ as, (a.dims.map (·.name)).Nodup) →
    aliasDims as = (ap, dn) :: rest →
    ∃ as', updArrs r ap dn as = some (as', none) ∧ aliasDims as' = rest ∧
      as'.map (·.path) = as.map (·.path) ∧ (∀ a ∈ as', (a.dims.map (·.name)).Nodup) := by
  intro as
  induction as with
  | nil => intro rest _ _ h; simp [aliasDims] at h
  | cons a as ih =>
    intro rest hnd hdims h
    rw [aliasDims_cons] at h
    simp only [List.map_cons, List.nodup_cons] at hnd
    cases hc : (a.dims.filter isAliasDim).map (fun d => (a.path, d.name)) with
    | nil =>
      rw [hc, List.nil_append] at h
      have hmem : (ap, dn) ∈ aliasDims as := by rw [h]; simp
      have hne : a.path ≠ ap := fun he => hnd.1 (he ▸ mem_aliasDims_path hmem)
      obtain ⟨as', hu, hr, hp, hd⟩ := ih hnd.2 (fun x hx => hdims x (by simp [hx])) h
      have hb : (a.path == ap) = false := by simpa using hne
      refine ⟨a :: as', ?_, ?_, ?_, ?_⟩
      · simp only [updArrs, hb, Bool.false_eq_true, ↓reduceIte, hu, Option.map_some]
      · rw [aliasDims_cons, hc, hr]; rfl
      · simp [hp]
      · intro x hx
        simp only [List.mem_cons] at hx
        rcases hx with rfl | hx
        · exact hdims _ (by simp)
        · exact hd x hx
    | cons c cs =>
      rw [hc, List.cons_append, List.cons.injEq] at h
      obtain ⟨hcc, hrest⟩ := h
      have hpath : a.path = ap := by
        have : c ∈ (a.dims.filter isAliasDim).map (fun d => (a.path, d.name)) := by rw [hc]; simp
        simp only [List.mem_map] at this
        obtain ⟨d, _, hd⟩ := this
        rw [hcc] at hd
        exact (Prod.mk.inj hd).1
      subst hcc
      rw [← hpath] at hc
      obtain ⟨ds', hu, hr⟩ := updDims_head (r := r) (daid := a.id) (hdims a (by simp)) hc
      refine ⟨{ a with dims := ds' } :: as, ?_, ?_, ?_, ?_⟩
      · simp only [updArrs, hpath, beq_self_eq_true, ↓reduceIte, hu, Option.map_some]
      · rw [aliasDims_cons]
        simp only
        rw [hr, hrest]
      · rfl
      · intro x hx
        simp only [List.mem_cons] at hx
        rcases hx with rfl | hx
        · simp only
          rw [updDims_some_names hu]
          exact hdims a (by simp)
        · exact hdims x (by simp [hx])

theorem convertDim_head {r : Nat} {f f' : File} {ap dn : String} {rest : List (String × String)} {e : Option Err}
    (hwf : WF f) (hh : aliasDims f.arrays = (ap, dn) :: rest) (hs : convertDim r f ap dn = (f', e)) :
    e = none ∧ aliasDims f'.arrays = rest ∧ WF f' ∧ f'.props = f.props ∧ f'.version = f.version ∧ f'.id = f.id := by
  obtain ⟨as', hu, hr, hp, hd⟩ := updArrs_head (r := r) hwf.2.1 hwf.2.2 hh
  unfold convertDim at hs
  rw [hu] at hs
  simp only [Prod.mk.injEq] at hs
  obtain ⟨hf, he⟩ := hs
  subst hf
  refine ⟨he.symm, hr, ⟨hwf.1, ?_, hd⟩, rfl, rfl, rfl⟩
  simp only
  rw [hp]
  exact hwf.2.1

end Nix.Upgrade.Lemmas
