import NixModel.Pure.Version

/-!
Helper lemmas for C11 (`Props/C11.lean`): evaluation of the generated chains, the version gates on
triples, lexicographic threshold, `finishOpen`, `run`.
-/
namespace Nix.Version.Lemmas
open Nix Nix.Version Nix.Gen.Format

/-! ### the generated chains -/
theorem lookup_ro : chainLookup modeReadOnly modeTable = some .rdonly := by decide
theorem lookup_rw : chainLookup modeReadWrite modeTable = some .rdwr := by decide
theorem lookup_ow : chainLookup modeOverwrite modeTable = some .trunc := by decide
theorem gate_ro : chainLookup modeReadOnly gateTable = some .canRead := by decide
theorem gate_rw : chainLookup modeReadWrite gateTable = some .canWrite := by decide
theorem gate_ow : chainLookup modeOverwrite gateTable = none := by decide
theorem ro_ne_ow : modeReadOnly ≠ modeOverwrite := by decide
theorem rw_ne_ow : modeReadWrite ≠ modeOverwrite := by decide
theorem rw_ne_ro : modeReadWrite ≠ modeReadOnly := by decide
theorem ow_ne_ro : modeOverwrite ≠ modeReadOnly := by decide

theorem mapFileMode_ro : mapFileMode modeReadOnly = .ok .rdonly := by simp [mapFileMode, lookup_ro]
theorem mapFileMode_rw : mapFileMode modeReadWrite = .ok .rdwr := by simp [mapFileMode, lookup_rw]
theorem mapFileMode_ow : mapFileMode modeOverwrite = .ok .trunc := by simp [mapFileMode, lookup_ow]

/-- the only letter mapped to the read-only flag is the ReadOnly letter -/
theorem mapFileMode_rdonly_iff (m : Str) (a : Acc) (h : mapFileMode m = .ok a) :
    a = .rdonly ↔ m = modeReadOnly := by
  by_cases h1 : m = modeReadOnly
  · subst h1; rw [mapFileMode_ro] at h; cases h; simp
  · by_cases h2 : m = modeReadWrite
    · subst h2; rw [mapFileMode_rw] at h; cases h; simp [rw_ne_ro]
    · by_cases h3 : m = modeOverwrite
      · subst h3; rw [mapFileMode_ow] at h; cases h; simp [ow_ne_ro]
      · exfalso; simp [mapFileMode, modeTable, chainLookup, h1, h2, h3] at h

/-! ### version gates on triples -/

/-- `(x,y,z) >= (1,2,0)` in Python's tuple order -/
theorem threshold_triple (x y z : Int) :
    cmpTuple idThresholdCmp [x, y, z] idThreshold
      = decide (x > 1 ∨ (x = 1 ∧ (y > 2 ∨ (y = 2 ∧ z ≥ 0)))) := by
  simp only [idThresholdCmp, idThreshold, cmpTuple, tupleLt]
  rw [Bool.eq_iff_iff]
  by_cases h1 : x = 1 <;> by_cases h2 : y = 2 <;> simp [h1, h2] <;> omega

/-- Bool → Prop normal form for the generated comparisons; the remaining goal is linear arithmetic
over the opaque constants `libX libY libZ`, so an equivalent rewrite of the Python condition
(operands swapped, `<=` for `>=`, nested differently) does not break the proofs below -/
macro "bool_omega" : tactic =>
  `(tactic| (rw [Bool.eq_iff_iff]
             simp only [Bool.and_eq_true, Bool.or_eq_true, Bool.not_eq_true', Bool.not_eq_eq_eq_not, Bool.not_true,
               Bool.not_false, Bool.or_eq_false_iff, Bool.and_eq_false_imp, decide_eq_true_eq,
               decide_eq_false_iff_not, List.cons.injEq, and_true, ne_eq,
               Bool.true_eq_false, Bool.false_eq_true, iff_true, iff_false, true_iff, false_iff] <;> omega))

theorem canRead_triple (fmt id : Option Str) (x y z : Int) :
    canRead ⟨fmt, some [x, y, z], id⟩ = .ok (decide (x = libX ∧ y ≤ libY)) := by
  simp only [canRead, versionLen, canReadCond, List.length_cons, List.length_nil]
  simp only [show ¬ (0 + 1 + 1 + 1 ≠ 3) by decide, if_false]
  congr 1
  bool_omega

theorem canWrite_triple (fmt id : Option Str) (x y z : Int) :
    canWrite ⟨fmt, some [x, y, z], id⟩ = .ok (decide (x = libX ∧ y = libY ∧ z = libZ)) := by
  simp only [canWrite, versionLen, canWriteCmp, cmpTuple, libVersion, List.length_cons, List.length_nil]
  simp only [show ¬ (0 + 1 + 1 + 1 ≠ 3) by decide, if_false]
  congr 1
  bool_omega

theorem canRead_badlen (fmt id : Option Str) (v : List Int) (h : v.length ≠ 3) :
    canRead ⟨fmt, some v, id⟩ = .error .runtimeError := by
  simp [canRead, versionLen, h]

theorem canWrite_badlen (fmt id : Option Str) (v : List Int) (h : v.length ≠ 3) :
    canWrite ⟨fmt, some v, id⟩ = .error .runtimeError := by
  simp [canWrite, versionLen, h]

/-! ### sessions -/

theorem run_nil (s : Session) (d : Disk) : run s d [] = (d, []) := rfl

theorem run_cons (s : Session) (d : Disk) (op : Op) (ops : List Op) :
    run s d (op :: ops) = ((run s (step s d op).1 ops).1, (step s d op).2 :: (run s (step s d op).1 ops).2) := rfl

theorem step_read (s : Session) (d : Disk) (r : Read) : step s d (.read r) = (d, doRead d r) := rfl

theorem step_mut_rdonly (s : Session) (hs : s.acc = .rdonly) (d : Disk) (f : Content → Except Err Content) :
    step s d (.mutate f) = (d, .refused .h5ReadOnly) := by
  simp [step, hs]

theorem step_rdonly_disk (s : Session) (hs : s.acc = .rdonly) (d : Disk) (op : Op) : (step s d op).1 = d := by
  cases op with
  | read r => rfl
  | mutate f => rw [step_mut_rdonly s hs]

theorem run_rdonly_disk (s : Session) (hs : s.acc = .rdonly) (d : Disk) (ops : List Op) : (run s d ops).1 = d := by
  induction ops with
  | nil => rfl
  | cons op ops ih => rw [run_cons, step_rdonly_disk s hs]; exact ih

theorem run_length (s : Session) (d : Disk) (ops : List Op) : (run s d ops).2.length = ops.length := by
  induction ops generalizing d with
  | nil => rfl
  | cons op ops ih => rw [run_cons]; simp [ih]

/-- in a read-only session the i-th output is determined by the i-th call and the initial file -/
theorem run_rdonly_out (s : Session) (hs : s.acc = .rdonly) (d : Disk) (ops : List Op) (i : Nat) (op : Op)
    (h : ops[i]? = some op) : (run s d ops).2[i]? = some (step s d op).2 := by
  induction ops generalizing i with
  | nil => simp at h
  | cons o ops ih =>
    rw [run_cons, step_rdonly_disk s hs]
    cases i with
    | zero => simp at h; simp [h]
    | succ i => simp at h; simpa using ih i h

end Nix.Version.Lemmas
