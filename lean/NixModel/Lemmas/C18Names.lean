import NixModel.Lemmas.C18Clean
import Mathlib.Data.List.Nodup

/-! `<name>.<extra>` names: different (property, extra) pairs give different names, so the only way the no-clash
hypothesis `Clean` can fail is an existing dataset sitting at such a name -/
namespace Nix.Upgrade.Lemmas
open Nix.Upgrade

/-- the last two characters tell the five suffixes apart -/
theorem suffix_tail2 : ∀ s ∈ suffixes, ∀ s' ∈ suffixes,
    s.toList.reverse.take 2 = s'.toList.reverse.take 2 → s = s' := by
  decide

theorem suffix_len : ∀ s ∈ suffixes, 2 ≤ s.toList.reverse.length := by decide

theorem append_suffix_inj {a b s s' : String} (hs : s ∈ suffixes) (hs' : s' ∈ suffixes)
    (h : a ++ s = b ++ s') : a = b ∧ s = s' := by
  have hl : a.toList ++ s.toList = b.toList ++ s'.toList := by
    rw [← String.toList_append, ← String.toList_append, h]
  have hr := congrArg List.reverse hl
  simp only [List.reverse_append] at hr
  have ht := congrArg (List.take 2) hr
  rw [List.take_append_of_le_length (suffix_len s hs), List.take_append_of_le_length (suffix_len s' hs')] at ht
  have hss := suffix_tail2 s hs s' hs' ht
  subst hss
  exact ⟨String.toList_inj.mp (List.append_cancel_right hl), rfl⟩

theorem extraPath_ne_nil (p : Path) (s : String) : extraPath p s ≠ [] := by
  match p with
  | [] => simp [extraPath]
  | [a] => simp [extraPath]
  | a :: b :: t => simp [extraPath]

theorem extraPath_inj {s s' : String} (hs : s ∈ suffixes) (hs' : s' ∈ suffixes) :
    ∀ {p q : Path}, p ≠ [] → q ≠ [] → extraPath p s = extraPath q s' → p = q ∧ s = s'
  | [], _, hp, _, _ => absurd rfl hp
  | _, [], _, hq, _ => absurd rfl hq
  | [a], [b], _, _, h => by
    simp only [extraPath, List.cons.injEq, and_true] at h
    obtain ⟨h1, h2⟩ := append_suffix_inj hs hs' h
    exact ⟨by rw [h1], h2⟩
  | [a], b :: b2 :: t, _, _, h => by
    simp only [extraPath, List.cons.injEq] at h
    exact absurd h.2.symm (extraPath_ne_nil _ _)
  | a :: a2 :: t, [b], _, _, h => by
    simp only [extraPath, List.cons.injEq] at h
    exact absurd h.2 (extraPath_ne_nil _ _)
  | a :: a2 :: t, b :: b2 :: u, _, _, h => by
    simp only [extraPath, List.cons.injEq] at h
    obtain ⟨h1, h2⟩ := extraPath_inj hs hs' (p := a2 :: t) (q := b2 :: u) (by simp) (by simp) h.2
    exact ⟨by rw [h.1, h1], h2⟩

/-- the same property, different extras: different names (also for the degenerate empty path) -/
theorem extraPath_inj_suffix {s s' : String} (hs : s ∈ suffixes) (hs' : s' ∈ suffixes) :
    ∀ {p : Path}, extraPath p s = extraPath p s' → s = s'
  | [], h => by simpa [extraPath] using h
  | _ :: _, h => (extraPath_inj hs hs' (by simp) (by simp) h).2

theorem extras_nodup_any (p : Path) : (extras p).Nodup := by
  unfold extras
  refine List.Nodup.map_on ?_ (by decide)
  intro s hs s' hs' h
  exact extraPath_inj_suffix hs hs' h

/-- the hypothesis in the terms of the finding: every dataset below /metadata has a name, and no dataset sits at
a `<name>.<extra>` name of a compound property -/
def NoNameTaken (f : File) : Prop :=
  (∀ e ∈ f.props, e.1 ≠ []) ∧ ∀ p ∈ oldPaths f.props, ∀ s ∈ suffixes, extraPath p s ∉ f.props.map (·.1)

instance (f : File) : Decidable (NoNameTaken f) := by unfold NoNameTaken; exact inferInstance

theorem extras_nodup {p : Path} (hp : p ≠ []) : (extras p).Nodup := by
  unfold extras
  refine List.Nodup.map_on ?_ (by decide)
  intro s hs s' hs' h
  exact (extraPath_inj hs hs' hp hp h).2

theorem clean_of_noNameTaken {f : File} (hnd : (f.props.map (·.1)).Nodup) (h : NoNameTaken f) : Clean f := by
  unfold Clean targets
  have hne : ∀ p ∈ oldPaths f.props, p ≠ [] := by
    intro p hp
    obtain ⟨o, ho⟩ := mem_oldPaths hp
    exact h.1 _ ho
  rw [List.nodup_append]
  refine ⟨hnd, ?_, ?_⟩
  · rw [List.nodup_flatMap]
    refine ⟨fun p hp => extras_nodup (hne p hp), ?_⟩
    have hond := oldPaths_nodup hnd
    refine List.Pairwise.imp_of_mem ?_ hond
    intro p q hp hq hpq x hx hx'
    unfold extras at hx hx'
    obtain ⟨s, hs, rfl⟩ := List.mem_map.mp hx
    obtain ⟨s', hs', he⟩ := List.mem_map.mp hx'
    exact hpq (extraPath_inj hs hs' (hne p hp) (hne q hq) he.symm).1
  · intro a ha b hb hab
    subst hab
    obtain ⟨p, hp, hx⟩ := List.mem_flatMap.mp hb
    unfold extras at hx
    obtain ⟨s, hs, rfl⟩ := List.mem_map.mp hx
    exact h.2 p hp s hs ha

end Nix.Upgrade.Lemmas
