import NixModel.Lemmas.C18Clean

/-! one conversion is lossless: what `converted` creates decodes to the old rows -/
namespace Nix.Upgrade.Lemmas
open Nix.Upgrade

def usOf (o : OldProp) : List Flt := o.rows.map (·.uncertainty)
def manyOf (o : OldProp) : Bool := decide (distinctCount (usOf o) > 1)

def mainOf (r : Nat) (o : OldProp) : NewProp :=
  { freshProp r o.dtype (o.rows.map (·.value)) with
    definition := nonEmpty o.definition, unit := nonEmpty o.unit,
    uncertainty := if manyOf o then none else if (usOf o).any Flt.truthy then (usOf o).head? else none }

def uncExtra (r : Nat) (q : Path) (o : OldProp) : List (Path × PObj) :=
  if manyOf o then [(extraPath q ".uncertainty", .new (freshProp r "float64" ((usOf o).map .flt)))] else []

def strExtraOf (r : Nat) (q : Path) (o : OldProp) (suf : String) (sel : OldRow → String) : List (Path × PObj) :=
  if o.rows.any (fun x => sel x != "") then
    [(extraPath q suf, .new (freshProp r "str" (o.rows.map fun x => .str (sel x))))]
  else []

theorem converted_eq (r : Nat) (q : Path) (o : OldProp) :
    converted r q o = [(q, PObj.new (mainOf r o))] ++ uncExtra r q o
      ++ strExtraOf r q o ".reference" (·.reference) ++ strExtraOf r q o ".filename" (·.filename)
      ++ strExtraOf r q o ".encoder" (·.encoder) ++ strExtraOf r q o ".checksum" (·.checksum) := rfl

theorem converted_paths_sub (r : Nat) (q : Path) (o : OldProp) :
    ∀ x ∈ (converted r q o).map (·.1), x = q ∨ x ∈ extras q := by
  intro x hx
  rw [converted_eq] at hx
  simp only [uncExtra, strExtraOf, List.map_append, List.mem_append, List.map_cons, List.map_nil,
    List.mem_singleton] at hx
  simp only [extras, suffixes, List.map_cons, List.map_nil, List.mem_cons, List.not_mem_nil, or_false]
  rcases hx with ((((h | h) | h) | h) | h) | h
  · exact Or.inl h
  all_goals (split at h <;> simp_all)

/-- everything after the main property sits at a `<name>.<extra>` path -/
theorem converted_tail_paths (r : Nat) (q : Path) (o : OldProp) :
    ∀ e ∈ (converted r q o).tail, e.1 ∈ extras q := by
  intro e he
  rw [converted_eq] at he
  simp only [List.append_assoc, List.cons_append, List.nil_append, List.tail_cons, uncExtra, strExtraOf,
    List.mem_append] at he
  simp only [extras, suffixes, List.map_cons, List.map_nil, List.mem_cons, List.not_mem_nil, or_false]
  rcases he with h | h | h | h | h
  all_goals (split at h <;> simp_all)

theorem view_mainOf (r : Nat) (o : OldProp) : (PObj.new (mainOf r o)).view = (PObj.old o).view := by
  simp only [PObj.view, mainOf, freshProp, PropView.mk.injEq, true_and]
  constructor <;> (unfold nonEmpty; cases o.definition <;> cases o.unit <;> simp [Option.filter] <;> split <;> simp_all)

theorem lookup_none_of_not_mem {ps : List (Path × PObj)} {p : Path} (h : p ∉ ps.map (·.1)) :
    lookup ps p = none := by
  unfold lookup
  rw [Option.map_eq_none_iff, List.find?_eq_none]
  intro e he hp
  exact h (List.mem_map.mpr ⟨e, he, by simpa using hp⟩)

theorem eraseDups_ne_nil {l : List Flt} (h : l ≠ []) : l.eraseDups ≠ [] := by
  cases l with
  | nil => exact absurd rfl h
  | cons a as => rw [List.eraseDups_cons]; simp

/-- at most one distinct value (NaNs counted one by one): every element is the head -/
theorem all_eq_head {l : List Flt} (h : ¬ distinctCount l > 1) : ∀ x ∈ l, l.head? = some x := by
  cases l with
  | nil => intro x hx; cases hx
  | cons a as =>
    intro x hx
    simp only [List.mem_cons] at hx
    rcases hx with rfl | hx
    · rfl
    · by_cases hxa : x = a
      · subst hxa; rfl
      exfalso
      apply h
      unfold distinctCount
      by_cases ha : a = Flt.nan
      · subst ha
        have hne : (List.filter (fun y => y != Flt.nan) (Flt.nan :: as)) ≠ [] := by
          intro hnil
          have := List.filter_eq_nil_iff.mp hnil x (List.mem_cons_of_mem _ hx)
          simp [hxa] at this
        have := List.length_pos_iff.mpr (eraseDups_ne_nil hne)
        simp only [List.count_cons_self]
        omega
      · have hfa : List.filter (fun y => y != Flt.nan) (a :: as) = a :: List.filter (fun y => y != Flt.nan) as := by
          rw [List.filter_cons]; simp [ha]
        by_cases hxn : x = Flt.nan
        · subst hxn
          have hc : 0 < as.count Flt.nan := List.count_pos_iff.mpr hx
          have := List.length_pos_iff.mpr (eraseDups_ne_nil (l := List.filter (fun y => y != Flt.nan) (a :: as))
            (by rw [hfa]; simp))
          have : List.count Flt.nan (a :: as) = as.count Flt.nan := by
            rw [List.count_cons]; simp [ha]
          omega
        · rw [hfa, List.eraseDups_cons]
          have hne : (List.filter (fun b => !b == a) (List.filter (fun y => y != Flt.nan) as)) ≠ [] := by
            intro hnil
            have hxm : x ∈ List.filter (fun y => y != Flt.nan) as := List.mem_filter.mpr ⟨hx, by simp [hxn]⟩
            have := List.filter_eq_nil_iff.mp hnil x hxm
            simp [hxa] at this
          have := List.length_pos_iff.mpr (eraseDups_ne_nil hne)
          simp only [List.length_cons]
          omega

/-- the objects of one conversion are in the file, and nothing else sits at its `<name>.<extra>` paths -/
structure Done (r : Nat) (ps : List (Path × PObj)) (q : Path) (o : OldProp) : Prop where
  mem : ∀ e ∈ converted r q o, e ∈ ps
  only : ∀ x ∈ extras q, x ∈ ps.map (·.1) → x ∈ (converted r q o).map (·.1)

section
variable {r : Nat} {ps : List (Path × PObj)} {q : Path} {o : OldProp}
  (hnd : (ps.map (·.1)).Nodup) (hd : Done r ps q o)
include hnd hd

theorem decode_main : lookup ps q = some (.new (mainOf r o)) :=
  lookup_of_mem hnd (hd.mem _ (by rw [converted_eq]; simp))

theorem decode_str {suf : String} {sel : OldRow → String} (hsuf : extraPath q suf ∈ extras q)
    (hsub : ∀ e ∈ strExtraOf r q o suf sel, e ∈ converted r q o)
    (honly : extraPath q suf ∈ (converted r q o).map (·.1) → o.rows.any (fun x => sel x != "") = true) :
    extraStr ps q suf = some (o.rows.map sel) := by
  unfold extraStr
  rw [decode_main hnd hd]
  cases hany : o.rows.any (fun x => sel x != "") with
  | true =>
    have hmem : (extraPath q suf, PObj.new (freshProp r "str" (o.rows.map fun x => .str (sel x)))) ∈ ps :=
      hd.mem _ (hsub _ (by simp [strExtraOf, hany]))
    rw [lookup_of_mem hnd hmem]
    simp [freshProp, List.map_map, Function.comp_def]
  | false =>
    have hnot : extraPath q suf ∉ ps.map (·.1) := fun h => by
      have := honly (hd.only _ hsuf h)
      rw [hany] at this
      cases this
    rw [lookup_none_of_not_mem hnot]
    simp only [mainOf, freshProp, List.map_map, Option.some.injEq]
    apply List.map_congr_left
    intro x hx
    have := List.any_eq_false.mp hany x hx
    simpa using this

theorem decode_unc (hsuf : extraPath q ".uncertainty" ∈ extras q)
    (hsub : ∀ e ∈ uncExtra r q o, e ∈ converted r q o)
    (honly : extraPath q ".uncertainty" ∈ (converted r q o).map (·.1) → manyOf o = true) :
    extraUnc ps q = some (usOf o) := by
  unfold extraUnc
  rw [decode_main hnd hd]
  cases hmany : manyOf o with
  | true =>
    have hmem : (extraPath q ".uncertainty", PObj.new (freshProp r "float64" ((usOf o).map .flt))) ∈ ps :=
      hd.mem _ (hsub _ (by simp [uncExtra, hmany]))
    rw [lookup_of_mem hnd hmem]
    simp [freshProp, List.map_map, Function.comp_def]
  | false =>
    have hnot : extraPath q ".uncertainty" ∉ ps.map (·.1) := fun h => by
      have := honly (hd.only _ hsuf h)
      rw [hmany] at this
      cases this
    rw [lookup_none_of_not_mem hnot]
    have hall := all_eq_head (l := usOf o) (by simpa [manyOf] using hmany)
    simp only [mainOf, freshProp, hmany, Bool.false_eq_true, ↓reduceIte, List.map_map, Option.some.injEq]
    unfold usOf at hall ⊢
    apply List.map_congr_left
    intro x hx
    have hx' := hall x.uncertainty (List.mem_map.mpr ⟨x, hx, rfl⟩)
    simp only [Function.comp_def]
    cases hz : (o.rows.map (·.uncertainty)).any Flt.truthy with
    | true => simp [hx']
    | false =>
      have := List.any_eq_false.mp hz x.uncertainty (List.mem_map.mpr ⟨x, hx, rfl⟩)
      have hx0 : x.uncertainty = Flt.fin 0 := by
        cases hu : x.uncertainty with
        | fin q => rw [hu] at this; simp only [Flt.truthy, bne_iff_ne, ne_eq, Decidable.not_not] at this; rw [this]
        | nan => rw [hu] at this; simp [Flt.truthy] at this
        | inf b => rw [hu] at this; simp [Flt.truthy] at this
      simp [hx0]

/-- everything of the old property is retrievable from what its conversion created -/
theorem decode_all (hq : (q :: extras q).Nodup) :
    lookup ps q = some (.new (mainOf r o)) ∧
    extraUnc ps q = some (o.rows.map (·.uncertainty)) ∧
    extraStr ps q ".reference" = some (o.rows.map (·.reference)) ∧
    extraStr ps q ".filename" = some (o.rows.map (·.filename)) ∧
    extraStr ps q ".encoder" = some (o.rows.map (·.encoder)) ∧
    extraStr ps q ".checksum" = some (o.rows.map (·.checksum)) := by
  simp only [extras, suffixes, List.map_cons, List.map_nil, List.nodup_cons, List.mem_cons, List.not_mem_nil,
    or_false, not_or, List.nodup_nil, and_true] at hq
  obtain ⟨⟨h01, h02, h03, h04, h05⟩, ⟨h12, h13, h14, h15⟩, ⟨h23, h24, h25⟩, ⟨h34, h35⟩, h45⟩ := hq
  have hmemx : ∀ suf ∈ suffixes, extraPath q suf ∈ extras q := fun suf h => List.mem_map.mpr ⟨suf, h, rfl⟩
  refine ⟨decode_main hnd hd, ?_, ?_, ?_, ?_, ?_⟩
  · refine decode_unc hnd hd (hmemx _ (by simp [suffixes])) (fun e he => ?_) (fun h => ?_)
    · rw [converted_eq]; simp [he]
    · rw [converted_eq] at h
      simp only [uncExtra, strExtraOf, List.map_append, List.mem_append, List.map_cons, List.map_nil,
        List.mem_singleton] at h
      rcases h with ((((h | h) | h) | h) | h) | h
      · exact absurd h.symm h01
      · split at h <;> simp_all
      all_goals (split at h <;> simp_all)
  all_goals
    refine decode_str hnd hd (hmemx _ (by simp [suffixes])) (fun e he => ?_) (fun h => ?_)
    · rw [converted_eq]; simp [he]
    · rw [converted_eq] at h
      simp only [uncExtra, strExtraOf, List.map_append, List.mem_append, List.map_cons, List.map_nil,
        List.mem_singleton] at h
      rcases h with ((((h | h) | h) | h) | h) | h
      · first | exact absurd h.symm h02 | exact absurd h.symm h03 | exact absurd h.symm h04 | exact absurd h.symm h05
      all_goals (split at h <;> simp_all)

end

end Nix.Upgrade.Lemmas
