import NixModel.Lemmas.C18Resume

/-! names: the `<name>.<extra>` paths an upgrade may create, and the no-clash hypothesis -/
namespace Nix.Upgrade.Lemmas
open Nix.Upgrade

def suffixes : List String := [".uncertainty", ".reference", ".filename", ".encoder", ".checksum"]

/-- the five `<name>.<extra>` paths of a property path -/
def extras (p : Path) : List Path := suffixes.map (extraPath p)

/-- every path the file has or the upgrade may create -/
def targets (ps : List (Path × PObj)) : List Path := ps.map (·.1) ++ (oldPaths ps).flatMap extras

/-- no `<name>.<extra>` name of a compound property is taken, by a dataset or by the extras of another
compound property (decidable; implies unique link names among the property datasets) -/
def Clean (f : File) : Prop := (targets f.props).Nodup

instance (f : File) : Decidable (Clean f) := by unfold Clean; exact inferInstance

theorem nodup_flatMap_disjoint {α β : Type} {f : α → List β} : ∀ {l : List α}, (l.flatMap f).Nodup →
    ∀ {a b : α}, a ∈ l → b ∈ l → a ≠ b → ∀ x, x ∈ f a → x ∈ f b → False := by
  intro l
  induction l with
  | nil => intro _ a b ha; cases ha
  | cons c l ih =>
    intro h a b ha hb hab x hxa hxb
    rw [List.flatMap_cons, List.nodup_append] at h
    obtain ⟨_, h2, h3⟩ := h
    simp only [List.mem_cons] at ha hb
    rcases ha with rfl | ha <;> rcases hb with rfl | hb
    · exact hab rfl
    · exact h3 x hxa x (List.mem_flatMap.mpr ⟨b, hb, hxb⟩) rfl
    · exact h3 x hxb x (List.mem_flatMap.mpr ⟨a, ha, hxa⟩) rfl
    · exact ih h2 ha hb hab x hxa hxb

theorem nodup_flatMap_mem {α β : Type} {f : α → List β} : ∀ {l : List α}, (l.flatMap f).Nodup →
    ∀ {a : α}, a ∈ l → (f a).Nodup := by
  intro l
  induction l with
  | nil => intro _ a ha; cases ha
  | cons c l ih =>
    intro h a ha
    rw [List.flatMap_cons, List.nodup_append] at h
    simp only [List.mem_cons] at ha
    rcases ha with rfl | ha
    · exact h.1
    · exact ih h.2.1 ha

theorem mem_oldPaths_of_mem {ps : List (Path × PObj)} {p : Path} {o : OldProp} (h : (p, PObj.old o) ∈ ps) :
    p ∈ oldPaths ps := by
  unfold oldPaths
  exact List.mem_filterMap.mpr ⟨(p, .old o), h, rfl⟩

section
variable {ps : List (Path × PObj)} (hc : (targets ps).Nodup)
include hc

theorem clean_paths_nodup : (ps.map (·.1)).Nodup := (List.nodup_append.mp hc).1

/-- K1: an extra path of a compound property is not a dataset of the file -/
theorem clean_extra_not_path {q : Path} {o : OldProp} (hq : (q, PObj.old o) ∈ ps) {x : Path}
    (hx : x ∈ extras q) : x ∉ ps.map (·.1) := by
  intro hmem
  exact (List.nodup_append.mp hc).2.2 x hmem x
    (List.mem_flatMap.mpr ⟨q, mem_oldPaths_of_mem hq, hx⟩) rfl

/-- K2: the extra paths of two different compound properties are different -/
theorem clean_extras_disjoint {q p : Path} {o o' : OldProp} (hq : (q, PObj.old o) ∈ ps)
    (hp : (p, PObj.old o') ∈ ps) (hne : q ≠ p) {x : Path} (hxq : x ∈ extras q) (hxp : x ∈ extras p) : False :=
  nodup_flatMap_disjoint (List.nodup_append.mp hc).2.1 (mem_oldPaths_of_mem hq) (mem_oldPaths_of_mem hp)
    hne x hxq hxp

theorem clean_extras_nodup {q : Path} {o : OldProp} (hq : (q, PObj.old o) ∈ ps) : (q :: extras q).Nodup := by
  rw [List.nodup_cons]
  refine ⟨?_, nodup_flatMap_mem (List.nodup_append.mp hc).2.1 (mem_oldPaths_of_mem hq)⟩
  intro hmem
  exact clean_extra_not_path hc hq hmem (List.mem_map.mpr ⟨(q, .old o), hq, rfl⟩)

end

end Nix.Upgrade.Lemmas
