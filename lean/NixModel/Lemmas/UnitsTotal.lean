import NixModel.Lemmas.UnitsSound

/-!
Helper lemmas for C09: `scaling` is total and exact on ALL inputs — for any two strings it either refuses with
`InvalidUnit` (exactly when `scalable` is false) or returns the ratio of the prefixes `split` found raised to the
power `split` found; `KeyError` (prefix without a factor) and `ValueError` (`int()` of the power text) cannot
happen, because whatever `split` captures as prefix is in the prefix table (every entry of which has a factor) and
whatever it captures as power is a text of the POWER grammar.
-/
namespace Nix.Units.Lemmas
open Nix.Units Nix.Units.Gen

/-- a captured power: nothing, or the text of a power without its leading `^` -/
def PowerTail (x : Str) : Prop := x = [] ∨ PowerText ('^' :: x)

theorem prefixes_have_factor : ∀ p ∈ prefixes, (prefixExpOf p).isSome = true := by decide

/-! ### what the three patterns of split capture -/

theorem pre_step (m m' : M) (h : m' ∈ stepPiece .pre m) :
    (∃ p ∈ prefixes, m'.pre = some p) ∧ m'.pow = m.pow := by
  simp only [stepPiece, List.mem_map] at h
  obtain ⟨ar, har, rfl⟩ := h
  exact ⟨⟨ar.1, altM_mem_alts _ _ ar har, rfl⟩, rfl⟩

theorem unit_step (m m' : M) (h : m' ∈ stepPiece .unit m) : m'.pre = m.pre ∧ m'.pow = m.pow := by
  simp only [stepPiece, List.mem_map] at h
  obtain ⟨ar, _, rfl⟩ := h
  exact ⟨rfl, rfl⟩

theorem pow_step (m m' : M) (h : m' ∈ stepPiece .pow m) :
    m'.pre = m.pre ∧ ∃ w, m'.pow = some w ∧ PowerText w ∧ w ≠ [] := by
  simp only [stepPiece, List.mem_map] at h
  obtain ⟨ar, har, rfl⟩ := h
  exact ⟨rfl, ar.1, rfl, (powerM_power _ ar har).1, (powerM_power _ ar har).2⟩

theorem powerTail_of (w : Str) (hw : PowerText w) (hne : w ≠ []) : PowerTail (w.drop 1) := by
  cases hw with
  | none => exact absurd rfl hne
  | pow sign d ds hs hd hds =>
    right
    simpa using PowerText.pow sign d ds hs hd hds

/-- whatever `split` returns: the prefix is from the table (or empty), the power is a power text (or empty) -/
theorem split_parts (s : Str) : (split s).1 ∈ optPrefixes ∧ PowerTail (split s).2.2 := by
  have e1 : pupShape = { pieces := [.pre, .unit, .pow], endAnchor := true } := rfl
  have e2 : unitPowShape = { pieces := [.unit, .pow], endAnchor := true } := rfl
  have e3 : preUnitShape = { pieces := [.pre, .unit], endAnchor := true } := rfl
  unfold split
  cases h1 : reMatch pupShape s with
  | some m =>
    rw [e1] at h1
    simp only [reMatch, ↓reduceIte] at h1
    obtain ⟨hmem, _⟩ := List.mem_filter.mp (List.mem_of_mem_head? h1)
    simp only [matchPieces, List.mem_flatMap, List.mem_singleton] at hmem
    obtain ⟨m1, hm1, m2, hm2, m3, hm3, rfl⟩ := hmem
    obtain ⟨⟨p, hp, hpre⟩, _⟩ := pre_step _ _ hm1
    obtain ⟨hpre2, _⟩ := unit_step _ _ hm2
    obtain ⟨hpre3, w, hpow, hw, hwne⟩ := pow_step _ _ hm3
    simp only [hpre3, hpre2, hpre, hpow, optStr]
    exact ⟨by simp [optPrefixes, hp], powerTail_of w hw hwne⟩
  | none =>
    cases h2 : reMatch unitPowShape s with
    | some m =>
      rw [e2] at h2
      simp only [reMatch, ↓reduceIte] at h2
      obtain ⟨hmem, _⟩ := List.mem_filter.mp (List.mem_of_mem_head? h2)
      simp only [matchPieces, List.mem_flatMap, List.mem_singleton] at hmem
      obtain ⟨m2, hm2, m3, hm3, rfl⟩ := hmem
      obtain ⟨_, w, hpow, hw, hwne⟩ := pow_step _ _ hm3
      simp only [hpow, optStr]
      exact ⟨by simp [optPrefixes], powerTail_of w hw hwne⟩
    | none =>
      cases h3 : reMatch preUnitShape s with
      | some m =>
        rw [e3] at h3
        simp only [reMatch, ↓reduceIte] at h3
        obtain ⟨hmem, _⟩ := List.mem_filter.mp (List.mem_of_mem_head? h3)
        simp only [matchPieces, List.mem_flatMap, List.mem_singleton] at hmem
        obtain ⟨m1, hm1, m2, hm2, rfl⟩ := hmem
        obtain ⟨⟨p, hp, hpre⟩, _⟩ := pre_step _ _ hm1
        obtain ⟨hpre2, _⟩ := unit_step _ _ hm2
        simp only [hpre2, hpre, optStr]
        exact ⟨by simp [optPrefixes, hp], Or.inl rfl⟩
      | none => exact ⟨by simp [optPrefixes], Or.inl rfl⟩

/-! ### scaling on all inputs -/

/-- the integer a captured power stands for (1 without a power) -/
def powOf (x : Str) : Int := if x.isEmpty then 1 else powVal ('^' :: x)

theorem powerTail_cases (x : Str) (hx : PowerTail x) :
    (x.isEmpty = true ∧ powOf x = 1) ∨ (x.isEmpty = false ∧ pyInt x = some (powOf x)) := by
  rcases hx with rfl | hx
  · left; exact ⟨rfl, rfl⟩
  · rcases powerText_cases _ hx with ⟨he, _⟩ | ⟨he, hp⟩
    · left
      have : x.isEmpty = true := by simpa using he
      exact ⟨this, by simp [powOf, this]⟩
    · right
      have hxe : x.isEmpty = false := by simpa using he
      refine ⟨hxe, ?_⟩
      simp only [List.drop_succ_cons, List.drop_zero] at hp
      simp [powOf, hxe, hp]

/-- for ANY two strings: refusal with `InvalidUnit` exactly when not scalable; otherwise the ratio of the two
prefixes `split` found, raised to the power `split` found — no other outcome exists -/
theorem scaling_total (a b : Str) :
    scaling a b =
      if scalable a b then
        .ok (tenPow (expOf (split a).1 - expOf (split b).1) ^ powOf (split a).2.2)
      else .error .invalidUnit := by
  cases hs : scalable a b with
  | false => simp [scaling, hs]
  | true =>
    obtain ⟨_, _, _, hw⟩ := (scalable_iff a b).mp hs
    obtain ⟨hpa, hxa⟩ := split_parts a
    obtain ⟨hpb, _⟩ := split_parts b
    unfold scaling
    simp only [hs, Bool.not_true, Bool.false_eq_true, ↓reduceIte]
    rw [← hw]
    exact scalingCore_eq _ _ _ hpa hpb (powOf (split a).2.2) (powerTail_cases _ hxa)

/-- a conversion factor is never zero or negative -/
theorem scaling_pos (a b : Str) (r : Rat) (h : scaling a b = .ok r) : 0 < r := by
  rw [scaling_total] at h
  split at h
  · cases h
    apply zpow_pos
    unfold tenPow
    exact zpow_pos (by norm_num) _
  · cases h

/-- conversions compose for ANY strings the code reports scalable -/
theorem scaling_compose_general (a b c : Str) (hab : scalable a b = true) (hbc : scalable b c = true) :
    ∃ x y z : Rat, scaling a b = .ok x ∧ scaling b c = .ok y ∧ scaling a c = .ok z ∧ x * y = z := by
  have hac := scalable_trans a b c hab hbc
  obtain ⟨_, _, _, hw⟩ := (scalable_iff a b).mp hab
  have e1 : scaling a b = .ok (tenPow (expOf (split a).1 - expOf (split b).1) ^ powOf (split a).2.2) := by
    rw [scaling_total, hab]; rfl
  have e2 : scaling b c = .ok (tenPow (expOf (split b).1 - expOf (split c).1) ^ powOf (split b).2.2) := by
    rw [scaling_total, hbc]; rfl
  have e3 : scaling a c = .ok (tenPow (expOf (split a).1 - expOf (split c).1) ^ powOf (split a).2.2) := by
    rw [scaling_total, hac]; rfl
  exact ⟨_, _, _, e1, e2, e3, by rw [← hw]; exact ratio_compose _ _ _ _⟩

/-- and invert -/
theorem scaling_invert_general (a b : Str) (hab : scalable a b = true) :
    ∃ x y : Rat, scaling a b = .ok x ∧ scaling b a = .ok y ∧ x * y = 1 := by
  have hba : scalable b a = true := by rw [scalable_symm]; exact hab
  obtain ⟨_, _, _, hw⟩ := (scalable_iff a b).mp hab
  have e1 : scaling a b = .ok (tenPow (expOf (split a).1 - expOf (split b).1) ^ powOf (split a).2.2) := by
    rw [scaling_total, hab]; rfl
  have e2 : scaling b a = .ok (tenPow (expOf (split b).1 - expOf (split a).1) ^ powOf (split b).2.2) := by
    rw [scaling_total, hba]; rfl
  exact ⟨_, _, e1, e2, by rw [← hw]; exact ratio_invert _ _ _⟩

end Nix.Units.Lemmas
