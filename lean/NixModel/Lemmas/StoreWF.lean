import NixModel.Lemmas.StoreWFApi

/-!
# Every graph reachable through the nixio API is well-formed

`WF` (see `StoreWFInv.lean`) holds of `init` and is preserved by `step` for every constructor of
`Op`, hence holds along every history. The one assumption is the freshness of `uuid4`: the ids of
the model are `id:0, id:1, …` in the order they are drawn, so a history must not *name* an entity
with an id that the supply has not handed out yet (`Op.Fresh`). Names equal to ids that are
already in the file (the known name-equals-sibling-id clash of C03) are allowed.

Import this file to get `WF`, the primitive lemmas (`StoreWFBasic`, `StoreWFInv`), the per-function
lemmas (`StoreWFOps`, `StoreWFApi`) and `reachable_wf`.
-/
namespace Nix.Store.Lemmas
open Nix.Store Nix.Store.Graph

/-- the name an operation gives to a new entity, if it creates one by name -/
def Op.newName : Op → Option String
  | .createBlock n _ => some n
  | .createSection _ n _ => some n
  | .createIn _ _ n _ _ => some n
  | .createProperty _ n => some n
  | _ => none

/-- `uuid4` freshness: the call does not name its entity with an id that is still to be drawn -/
def Op.Fresh (g : Graph) (op : Op) : Prop :=
  ∀ n, Op.newName op = some n → ∀ m, g.nextId ≤ m → n ≠ idStr m

/-- freshness along a history -/
def FreshHist : Graph → List Op → Prop
  | _, [] => True
  | g, op :: rest => Op.Fresh g op ∧ FreshHist (step g op) rest

/-- the graph with the root group only -/
theorem wf_empty : WF ({} : Graph) := by
  have hk0 : ∀ k, k ≠ 0 → ({} : Graph).node? k = none := by
    intro k hk
    rw [node?_eq_none_iff]
    simpa [keys] using hk
  have hl : ∀ k, ({} : Graph).links k = [] := by
    intro k
    by_cases hk : k = 0
    · subst hk; decide
    · exact links_of_node?_none (hk0 k hk)
  have ha : ∀ k a, ({} : Graph).getAttr k a = none := by
    intro k a
    by_cases hk : k = 0
    · subst hk; simp [Graph.getAttr, Graph.node?]
    · exact getAttr_of_node?_none (hk0 k hk) a
  have hch : ∀ k n, ({} : Graph).child? k n = none := fun k n => by
    rw [child?_none_iff, hl]; intro l hl'; cases hl'
  refine ⟨by decide, ?_, by decide, ?_, ?_, ?_, ?_, ?_, ?_, ?_, ?_, ?_, ?_⟩
  · intro k hk
    have : k = 0 := by simpa [keys] using hk
    subst this; decide
  · intro k l h; rw [hl] at h; cases h
  · intro k; rw [hl]; exact List.nodup_nil
  · intro k l h; rw [hl] at h; cases h
  · intro k i h; rw [entityId_eq, ha] at h; cases h
  · intro k k' i h; rw [entityId_eq, ha] at h; cases h
  · rintro c ⟨k, cn, info, _, h2⟩; rw [hch] at h2; cases h2
  · intro k cn info c _ h2; rw [hch] at h2; cases h2
  · intro k cn info c _ h2; rw [hch] at h2; cases h2
  · rw [kindOf_eq, ha]; rfl
  · intro k; rw [kindOf_eq, ha]; decide

/-- a freshly created file (root, `data`, `metadata`) -/
theorem wf_init : WF init := by
  unfold init
  have w1 : WF (({} : Graph).ensureGroup 0 "data").1 :=
    wf_empty.ensureGroup "data" wf_empty.root wf_empty.not_cont_root (fun m _ => notId_of_head (by decide) m)
  exact w1.ensureGroup "metadata" w1.root w1.not_cont_root (fun m _ => notId_of_head (by decide) m)

/-- one lemma per constructor of `Op`, assembled: a successful call keeps the invariant -/
theorem WF.apply {g g' : Graph} (h : WF g) {op : Op} (hf : Op.Fresh g op)
    (ha : Store.apply g op = some (.ok g')) : WF g' := by
  cases op with
  | createBlock n t =>
    simp only [Store.apply, Option.some.injEq] at ha
    exact h.createBlock (hf n rfl) ha
  | createSection o n t =>
    simp only [Store.apply, Option.some.injEq] at ha
    exact h.createSection (hf n rfl) ha
  | createIn o w n t extra =>
    cases extra with
    | none =>
      simp only [Store.apply, Option.some.injEq] at ha
      exact h.createIn (hf n rfl) ha
    | some ep =>
      simp only [Store.apply, Option.map_eq_some_iff] at ha
      obtain ⟨l, _, ha⟩ := ha
      exact h.createIn (hf n rfl) ha
  | createProperty o n =>
    simp only [Store.apply, Option.some.injEq] at ha
    exact h.createProperty (hf n rfl) ha
  | createFeature o data lt =>
    cases data with
    | none =>
      simp only [Store.apply, Option.some.injEq] at ha
      exact h.createFeature ha
    | some dp =>
      simp only [Store.apply, Option.map_eq_some_iff] at ha
      obtain ⟨l, _, ha⟩ := ha
      exact h.createFeature ha
  | del o c k =>
    simp only [Store.apply] at ha
    split at ha
    · simp only [Option.some.injEq] at ha
      exact h.contDel ha
    · cases ha
  | append o c k =>
    simp only [Store.apply] at ha
    split at ha
    · rename_i cont key hc _
      simp only [Option.some.injEq] at ha
      exact h.contAppend hc ha
    · cases ha
  | setRole o r target =>
    cases target with
    | none =>
      simp only [Store.apply, Option.some.injEq] at ha
      exact h.setRole ha
    | some tp =>
      simp only [Store.apply, Option.map_eq_some_iff] at ha
      obtain ⟨l, _, ha⟩ := ha
      exact h.setRole ha
  | setAttr p a v =>
    simp only [Store.apply, Option.some.injEq] at ha
    exact h.setAttrOp ha
  | reopen =>
    simp only [Store.apply, Option.some.injEq, Except.ok.injEq] at ha
    exact ha ▸ h

/-- `WF g → WF (step g op)`: refused calls leave the graph as it is -/
theorem WF.step {g : Graph} (h : WF g) {op : Op} (hf : Op.Fresh g op) : WF (step g op) := by
  unfold Store.step
  split
  · rename_i g' ha; exact h.apply hf ha
  · exact h

theorem WF.run {g : Graph} (h : WF g) {ops : List Op} (hf : FreshHist g ops) : WF (run g ops) := by
  induction ops generalizing g with
  | nil => exact h
  | cons op rest ih =>
    simp only [Store.run, List.foldl_cons]
    exact ih (h.step hf.1) hf.2

/-- every graph reachable from the empty file by a history that respects `uuid4` freshness is
well-formed -/
theorem reachable_wf {g : Graph} (ops : List Op) (hf : FreshHist init ops) (hg : g = run init ops) : WF g :=
  hg ▸ wf_init.run hf

/-- reachability with the freshness proviso -/
def ReachableFresh (g : Graph) : Prop := ∃ ops, FreshHist init ops ∧ g = run init ops

theorem ReachableFresh.reachable {g : Graph} (h : ReachableFresh g) : Reachable g :=
  let ⟨ops, _, e⟩ := h; ⟨ops, e⟩

theorem ReachableFresh.wf {g : Graph} (h : ReachableFresh g) : WF g :=
  let ⟨ops, hf, e⟩ := h; reachable_wf ops hf e

theorem ReachableFresh.step {g : Graph} (h : ReachableFresh g) {op : Op} (hf : Op.Fresh g op) :
    ReachableFresh (Store.step g op) := by
  obtain ⟨ops, hfs, e⟩ := h
  refine ⟨ops ++ [op], ?_, ?_⟩
  · subst e
    generalize init = g0 at *
    induction ops generalizing g0 with
    | nil => exact ⟨hf, trivial⟩
    | cons o rest ih => exact ⟨hfs.1, ih _ hfs.2 hf⟩
  · subst e; simp [Store.run, List.foldl_append]

end Nix.Store.Lemmas
