import NixModel.Lemmas.C05Stale
import NixModel.Lemmas.C04Bfs

/-! What the membership tests of the link lists look at: the *entries* of the block's container group (member
lists, references) and the entries of `sources` groups reached from the block's `sources` group through `sources`
groups only (source lists).  No other link of the file - `metadata`, `link`, `properties`, `references`,
`positions`, `features`, `data`, the link of a dimension - is followed, so an object that hangs below the block's
sources (arrays, tags) only through such a link is refused. -/
namespace Nix.Store.Lemmas
open Nix.Store Nix.Store.Graph Nix.Store.C04

/-- `k` is an entry of the group linked as `sub` from the node `p` (e.g. an entry of `p`'s `sources` group) -/
def EntryOf (g : Graph) (sub : String) (p k : Nat) : Prop :=
  ∃ c l, g.child? p sub = some c ∧ l ∈ g.links c ∧ l.2 = k

/-- `k` is reached from the block `b` by a chain `b -sources-> entry -sources-> entry …` of length ≥ 1: the walk of
`Block.find_sources` -/
inductive SourceOf (g : Graph) : Nat → Nat → Prop
  | top {b k : Nat} : EntryOf g "sources" b k → SourceOf g b k
  | sub {b m k : Nat} : SourceOf g b m → EntryOf g "sources" m k → SourceOf g b k

theorem kids_entry {g : Graph} {sub : String} {k m : Nat} (h : m ∈ kids g sub k) : EntryOf g sub k m := by
  unfold kids at h
  cases hc : g.child? k sub with
  | none => simp [hc] at h
  | some c =>
    simp only [hc, List.mem_map] at h
    obtain ⟨l, hl, he⟩ := h
    exact ⟨c, l, hc, hl, he⟩

theorem sourceOf_desc {g : Graph} {b m k : Nat} (hm : SourceOf g b m) (hd : Desc g "sources" m k) :
    SourceOf g b k := by
  induction hd with
  | refl => exact hm
  | step hkid _ ih => exact ih (.sub hm (kids_entry hkid))

/-- whatever a source-tree walk ends in is an entry of some `sources` group -/
theorem sourceOf_entry {g : Graph} {b k : Nat} (h : SourceOf g b k) : ∃ p, EntryOf g "sources" p k := by
  cases h with
  | top h => exact ⟨_, h⟩
  | sub _ h => exact ⟨_, h⟩

/-- the object test of `SourceLinkContainer._accept` finds only what the walk over `sources` groups reaches -/
theorem inSourceTreeObj_sourceOf {g : Graph} {b k : Nat} (h : inSourceTreeObj g b k = true) : SourceOf g b k := by
  unfold inSourceTreeObj at h
  cases hc : g.child? b "sources" with
  | none => simp [hc] at h
  | some c =>
    simp only [hc, List.any_eq_true, List.mem_map] at h
    obtain ⟨top, ⟨l, hl, he⟩, hin⟩ := h
    have hin' : k ∈ subtreeKeys g "sources" top := by simpa using hin
    exact sourceOf_desc (.top ⟨c, l, hc, hl, he⟩) (subtreeKeys_sound g "sources" top k hin')

/-- an accepted `append` to a source list: the item is reached from the list's block through `sources` groups only -/
theorem contAppend_source_ok {g g' : Graph} {c : Cont} {k : Nat} (hf : c.info.flavour = .sourceLink)
    (h : contAppend g c (.ent k) = .ok g') : ∃ b, c.block = some b ∧ SourceOf g b k := by
  unfold contAppend at h
  simp only [hf] at h
  cases hid : g.entityId k with
  | none => simp [hid] at h
  | some id =>
    cases hb : c.block with
    | none => simp [hid, hb] at h
    | some b =>
      refine ⟨b, rfl, ?_⟩
      by_cases ho : inSourceTreeObj g b k = true
      · exact inSourceTreeObj_sourceOf ho
      · simp [hid, hb, ho] at h

/-- an accepted `append` to a member list / to references: the item is an entry of the block's own container group -/
theorem contAppend_link_ok {g g' : Graph} {c : Cont} {k : Nat} (hf : c.info.flavour = .link)
    (h : contAppend g c (.ent k) = .ok g') :
    ∃ b, c.block = some b ∧ EntryOf g c.info.store b k ∧ kindOf g k = c.info.item := by
  unfold contAppend at h
  simp only [hf] at h
  cases hid : g.entityId k with
  | none => simp [hid] at h
  | some id =>
    cases hb : c.block with
    | none => simp [hid, hb] at h
    | some b =>
      refine ⟨b, rfl, ?_⟩
      by_cases hk : kindOf g k = c.info.item
      · refine ⟨?_, hk⟩
        have hs : inBlockStore g b c.info.store k = true := by
          cases hbs : inBlockStore g b c.info.store k with
          | true => rfl
          | false =>
            exfalso
            unfold inBlockStore at hbs
            simp only [hid, hb, hk, bne_self_eq_false, Bool.false_eq_true, ↓reduceIte] at h
            cases hn : g.getAttr k "name" with
            | none => simp [hn] at h
            | some nm =>
              simp only [hn] at h hbs
              cases hl : getByName g (g.child? b c.info.store) nm with
              | none => simp [hl] at h
              | some l =>
                simp only [hl] at hbs
                simp [hl, hbs] at h
        obtain ⟨nm, l, _, hl, he⟩ := (inBlockStore_iff g b c.info.store k).mp hs
        unfold getByName cLinks at hl
        cases hc : g.child? b c.info.store with
        | none => simp [hc] at hl
        | some cn =>
          simp only [hc] at hl
          exact ⟨cn, l, hc, List.mem_of_find?_eq_some hl, he⟩
      · have : (kindOf g k != c.info.item) = true := by simpa using hk
        simp [hid, hb, this] at h

end Nix.Store.Lemmas
