import NixModel.Pure.TimeFormat

/-!
# Lemmas for the format-driven time conversion (`Pure.TimeFormat`) — used by `Props/C19.lean`

`timeToStr` through its broken-down fields; the generated `strftime` format renders to the model's layout; the
15-character case of the generated `strptime` format is the model's `strToTime` (one case split per digit test);
a successful parse consumes exactly the widths of the pieces, so any other length is refused by both.
-/
namespace Nix.Time.Lemmas
open Nix.Time Nix.Civil Nix.Time.Gen

theorem timeToStr_fields (t : Int) :
    timeToStr t = match fieldsOf t with
      | .error e => .error e
      | .ok f => .ok (yearDigits f.year ++ pad2 f.month ++ pad2 f.day ++ ['T'] ++ pad2 f.hour ++
                      pad2 f.minute ++ pad2 f.second) := by
  unfold timeToStr fieldsOf
  dsimp only
  split
  · rfl
  · split <;> rfl

theorem formatWith_source (f : Fields) :
    formatWith f strftimeFormat = some (yearDigits f.year ++ pad2 f.month ++ pad2 f.day ++ ['T'] ++
      pad2 f.hour ++ pad2 f.minute ++ pad2 f.second) := by
  simp [strftimeFormat, formatWith, renderPiece]


theorem epoch_shift : dayOfCivil epoch.1 epoch.2.1 epoch.2.2 = epochShift := by decide

theorem litT (x : Char) : litMatches 'T' x = (x == 'T' || x == 't') := by
  have h1 : 'T'.toLower = 't' := by decide
  have h2 : 'T'.toUpper = 'T' := by decide
  simp only [litMatches, h1, h2]
  cases (x == 'T') <;> cases (x == 't') <;> rfl

set_option linter.unusedSimpArgs false in
theorem str15 (y1 y2 y3 y4 m1 m2 d1 d2 sep h1 h2 n1 n2 s1 s2 : Char) :
    strToTimeWith strptimeFormat epoch [y1, y2, y3, y4, m1, m2, d1, d2, sep, h1, h2, n1, n2, s1, s2] =
    strToTime [y1, y2, y3, y4, m1, m2, d1, d2, sep, h1, h2, n1, n2, s1, s2] := by
  cases hb0 : isDigit y1
  · simp [strToTimeWith, strptimeFormat, parseWith, parsePiece, strToTime, litT, epoch_shift, hb0]
  cases hb1 : isDigit y2
  · simp [strToTimeWith, strptimeFormat, parseWith, parsePiece, strToTime, litT, epoch_shift, hb0, hb1]
  cases hb2 : isDigit y3
  · simp [strToTimeWith, strptimeFormat, parseWith, parsePiece, strToTime, litT, epoch_shift, hb0, hb1, hb2]
  cases hb3 : isDigit y4
  · simp [strToTimeWith, strptimeFormat, parseWith, parsePiece, strToTime, litT, epoch_shift, hb0, hb1, hb2, hb3]
  cases hb4 : isDigit m1
  · simp [strToTimeWith, strptimeFormat, parseWith, parsePiece, strToTime, litT, epoch_shift, hb0, hb1, hb2, hb3, hb4]
  cases hb5 : isDigit m2
  · simp [strToTimeWith, strptimeFormat, parseWith, parsePiece, strToTime, litT, epoch_shift, hb0, hb1, hb2, hb3, hb4, hb5]
  cases hb6 : isDigit d1
  · simp [strToTimeWith, strptimeFormat, parseWith, parsePiece, strToTime, litT, epoch_shift, hb0, hb1, hb2, hb3, hb4, hb5, hb6]
  cases hb7 : isDigit d2
  · simp [strToTimeWith, strptimeFormat, parseWith, parsePiece, strToTime, litT, epoch_shift, hb0, hb1, hb2, hb3, hb4, hb5, hb6, hb7]
  cases hsep : (sep == 'T' || sep == 't')
  · simp [strToTimeWith, strptimeFormat, parseWith, parsePiece, strToTime, litT, epoch_shift, hb0, hb1, hb2, hb3, hb4, hb5, hb6, hb7, hsep]
  cases hb9 : isDigit h1
  · simp [strToTimeWith, strptimeFormat, parseWith, parsePiece, strToTime, litT, epoch_shift, hb0, hb1, hb2, hb3, hb4, hb5, hb6, hb7, hsep, hb9]
  cases hb10 : isDigit h2
  · simp [strToTimeWith, strptimeFormat, parseWith, parsePiece, strToTime, litT, epoch_shift, hb0, hb1, hb2, hb3, hb4, hb5, hb6, hb7, hsep, hb9, hb10]
  cases hb11 : isDigit n1
  · simp [strToTimeWith, strptimeFormat, parseWith, parsePiece, strToTime, litT, epoch_shift, hb0, hb1, hb2, hb3, hb4, hb5, hb6, hb7, hsep, hb9, hb10, hb11]
  cases hb12 : isDigit n2
  · simp [strToTimeWith, strptimeFormat, parseWith, parsePiece, strToTime, litT, epoch_shift, hb0, hb1, hb2, hb3, hb4, hb5, hb6, hb7, hsep, hb9, hb10, hb11, hb12]
  cases hb13 : isDigit s1
  · simp [strToTimeWith, strptimeFormat, parseWith, parsePiece, strToTime, litT, epoch_shift, hb0, hb1, hb2, hb3, hb4, hb5, hb6, hb7, hsep, hb9, hb10, hb11, hb12, hb13]
  cases hb14 : isDigit s2
  · simp [strToTimeWith, strptimeFormat, parseWith, parsePiece, strToTime, litT, epoch_shift, hb0, hb1, hb2, hb3, hb4, hb5, hb6, hb7, hsep, hb9, hb10, hb11, hb12, hb13, hb14]
  simp [strToTimeWith, strptimeFormat, parseWith, parsePiece, strToTime, litT, epoch_shift, hb0, hb1, hb2, hb3, hb4, hb5, hb6, hb7, hsep, hb9, hb10, hb11, hb12, hb13, hb14]


/-- number of characters a directive consumes (fixed-width fields) -/
def pieceWidth : Piece → Nat
  | .year => 4
  | .lit _ => 1
  | .other _ => 0
  | _ => 2

theorem parsePiece_length (f f' : Fields) (p : Piece) (s rest : Str)
    (h : parsePiece f p s = some (f', rest)) : s.length = rest.length + pieceWidth p := by
  unfold parsePiece at h
  split at h
  all_goals first
    | (split at h
       · cases h; simp [pieceWidth]; try omega
       · cases h)
    | cases h

theorem parseWith_length (fmt : List Piece) : ∀ (f f' : Fields) (s : Str),
    parseWith fmt f s = some f' → s.length = (fmt.map pieceWidth).sum := by
  induction fmt with
  | nil =>
    intro f f' s h
    cases s with
    | nil => rfl
    | cons a r => simp [parseWith] at h
  | cons p ps ih =>
    intro f f' s h
    simp only [parseWith] at h
    split at h
    · rename_i f1 rest hp
      have h1 := parsePiece_length f f1 p s rest hp
      have h2 := ih f1 f' rest h
      simp only [List.map_cons, List.sum_cons]
      omega
    · cases h

theorem strToTime_length (s : Str) (h : s.length ≠ 15) : strToTime s = .error .valueError := by
  unfold strToTime
  split
  · simp at h
  · rfl


end Nix.Time.Lemmas
