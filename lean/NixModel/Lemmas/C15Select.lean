import NixModel.Lemmas.C15Read

/-! Helper lemmas for C15: the whole-array selection is the identity gather. -/
namespace Nix.Poly.Lemmas
open Nix.Poly

theorem range_blocks (m d : Nat) :
    (List.range d).flatMap (fun i => (List.range m).map (· + i * m)) = List.range (d * m) := by
  induction d with
  | zero => simp
  | succ d ih =>
    rw [List.range_succ, List.flatMap_append, ih, Nat.succ_mul, List.range_add]
    simp [Nat.add_comm]

theorem flatPositions_full (shape : List Nat) :
    flatPositions shape (shape.map List.range) = List.range shape.prod := by
  induction shape with
  | nil => simp [flatPositions]
  | cons d ds ih =>
    simp only [List.map_cons, flatPositions, ih, List.prod_cons]
    exact range_blocks ds.prod d

theorem sliceIndices_full (d : Nat) : sliceIndices none none none d = .ok (0, (d : Int), 1) := by
  simp [sliceIndices]

theorem axisSel_full (d : Nat) : axisSel d fullSlice = .ok (List.range d, true) := by
  simp only [fullSlice, axisSel, sliceIndices_full]
  have h1 : ¬ ((1 : Int) < 1) := by omega
  have h2 : ¬ ((d : Int) < 0) := by omega
  simp only [h1, h2, if_false]
  have hc : (1 + ((d : Int) - 0 - 1) / 1).toNat = d := by omega
  rw [hc]
  congr 2
  apply List.ext_getElem <;> simp

theorem mapM_axisSel_full (shape : List Nat) :
    (List.zip shape (List.replicate shape.length fullSlice)).mapM (fun di => axisSel di.1 di.2)
      = .ok (shape.map fun d => (List.range d, true)) := by
  induction shape with
  | nil => rfl
  | cons d ds ih =>
    simp only [List.length_cons, List.replicate_succ, List.zip_cons_cons, List.mapM_cons, axisSel_full, ih,
      bind, Except.bind, pure, Except.pure, List.map_cons]

/-- the whole-array read selects every position, in order, with the stored shape -/
theorem select_whole (shape : List Nat) (h : shape ≠ []) :
    select shape none = .ok (shape, List.range shape.prod) := by
  cases shape with
  | nil => exact absurd rfl h
  | cons d ds =>
    have hpad : padIndex (d :: ds).length [fullSlice]
        = .ok (List.replicate (d :: ds).length fullSlice) := by
      simp [padIndex, List.replicate_succ]
    unfold select
    simp only [hpad, bind, Except.bind, mapM_axisSel_full]
    have hshape : (List.filterMap (fun s : List Nat × Bool => if s.2 = true then some s.1.length else none)
        (List.map (fun d => (List.range d, true)) (d :: ds))) = d :: ds := by
      generalize (d :: ds) = l
      induction l with
      | nil => rfl
      | cons x xs ih => simp [ih]
    have hpos : (List.map (fun d => (List.range d, true)) (d :: ds)).map (·.1)
        = (d :: ds).map List.range := by
      simp [List.map_map, Function.comp_def]
    rw [hshape, hpos, flatPositions_full]

theorem gather_range (xs : List Rat) : gather xs (List.range xs.length) = .ok xs := by
  unfold gather
  rw [mapM_congr_ok _ (fun p => (xs[p]?).getD 0)]
  · congr 1
    apply List.ext_getElem
    · simp
    · intro i h1 h2
      simp at h1
      simp [List.getElem?_eq_getElem h2]
  · intro p hp
    have hp' : p < xs.length := List.mem_range.mp hp
    simp [List.getElem?_eq_getElem hp']

end Nix.Poly.Lemmas
