import NixModel.Store.Step

/-!
# C04 — graph-level facts about `deleteAll`, `delLink`, `addLink`, `setAttr`

Everything here is about an *arbitrary* graph (no well-formedness assumed): `updNode` and
`deleteAll` rewrite every stored node with a matching key in the same way, and `node?` reads the
first one, so the lemmas hold even for graphs with repeated keys.
-/
namespace Nix.Store.C04
open Nix.Store Nix.Store.Graph

/-- the node `k` carries an `entity_id` that is in `ids` — what `delete_all(ids)` tests on every
child of every group -/
def doomed (g : Graph) (ids : List String) (k : Nat) : Bool :=
  match g.entityId k with
  | some i => ids.contains i
  | none => false

/-- the filter `deleteAll` applies to every link list, written with `doomed` -/
def keepLink (g : Graph) (ids : List String) (l : String × Nat) : Bool := !doomed g ids l.2

theorem deleteAll_eq (g : Graph) (ids : List String) :
    g.deleteAll ids =
      { g with nodes := g.nodes.map fun kn =>
          (kn.1, { kn.2 with links := kn.2.links.filter (keepLink g ids) }) } := by
  unfold Graph.deleteAll
  simp only
  congr 1
  apply List.map_congr_left
  intro kn _
  congr 2
  apply List.filter_congr
  intro l _
  unfold keepLink doomed
  cases g.entityId l.2 <;> simp

/-! ## `node?` after a key-preserving rewrite of all nodes -/

theorem find_key_map (ns : List (Nat × Node)) (h : Nat × Node → Nat × Node)
    (hk : ∀ kn, (h kn).1 = kn.1) (k : Nat) :
    (ns.map h).find? (fun kn => kn.1 == k) = (ns.find? (fun kn => kn.1 == k)).map h := by
  induction ns with
  | nil => rfl
  | cons a t ih =>
    simp only [List.map_cons, List.find?_cons, hk]
    cases (a.1 == k) <;> simp [ih]

theorem deleteAll_node? (g : Graph) (ids : List String) (k : Nat) :
    (g.deleteAll ids).node? k =
      (g.node? k).map fun n => { n with links := n.links.filter (keepLink g ids) } := by
  rw [deleteAll_eq]
  unfold Graph.node?
  have := find_key_map g.nodes
    (fun kn => (kn.1, { kn.2 with links := kn.2.links.filter (keepLink g ids) })) (fun _ => rfl) k
  simp only at this ⊢
  rw [this]
  cases g.nodes.find? (fun kn => kn.1 == k) <;> rfl

theorem updNode_node? (g : Graph) (p : Nat) (f : Node → Node) (k : Nat) :
    (g.updNode p f).node? k = if k = p then (g.node? k).map f else g.node? k := by
  unfold Graph.updNode Graph.node?
  have := find_key_map g.nodes (fun kn => if kn.1 == p then (kn.1, f kn.2) else kn)
    (by intro kn; split <;> rfl) k
  simp only at this ⊢
  rw [this]
  by_cases hkp : k = p
  · subst hkp
    simp only [↓reduceIte]
    cases hf : g.nodes.find? (fun kn => kn.1 == k) with
    | none => rfl
    | some kn =>
      have hk := List.find?_some hf
      simp only [Option.map_some]
      simp only [beq_iff_eq] at hk
      simp [hk]
  · simp only [hkp, ↓reduceIte]
    cases hf : g.nodes.find? (fun kn => kn.1 == k) with
    | none => rfl
    | some kn =>
      have hk := List.find?_some hf
      have : kn.1 = k := by simpa using hk
      have hne : ¬ kn.1 = p := by rw [this]; exact hkp
      simp [hne]

/-! ## what `deleteAll` does to links, attributes, keys -/

/-- **link lists after `deleteAll`**: every group keeps exactly its links to targets that do not
carry one of the ids, in their old order -/
theorem deleteAll_links (g : Graph) (ids : List String) (k : Nat) :
    (g.deleteAll ids).links k = (g.links k).filter (keepLink g ids) := by
  unfold Graph.links
  rw [deleteAll_node?]
  cases g.node? k <;> rfl

theorem deleteAll_getAttr (g : Graph) (ids : List String) (k : Nat) (a : String) :
    (g.deleteAll ids).getAttr k a = g.getAttr k a := by
  unfold Graph.getAttr
  rw [deleteAll_node?]
  cases g.node? k <;> rfl

theorem deleteAll_entityId (g : Graph) (ids : List String) (k : Nat) :
    (g.deleteAll ids).entityId k = g.entityId k := deleteAll_getAttr g ids k "entity_id"

theorem deleteAll_kind (g : Graph) (ids : List String) (k : Nat) :
    ((g.deleteAll ids).node? k).map (·.kind) = (g.node? k).map (·.kind) := by
  rw [deleteAll_node?]
  cases g.node? k <;> rfl

theorem deleteAll_attrs (g : Graph) (ids : List String) (k : Nat) :
    ((g.deleteAll ids).node? k).map (·.attrs) = (g.node? k).map (·.attrs) := by
  rw [deleteAll_node?]
  cases g.node? k <;> rfl

theorem deleteAll_keys (g : Graph) (ids : List String) :
    (g.deleteAll ids).nodes.map (·.1) = g.nodes.map (·.1) := by
  rw [deleteAll_eq]
  simp [List.map_map, Function.comp_def]

theorem deleteAll_counters (g : Graph) (ids : List String) :
    (g.deleteAll ids).nextKey = g.nextKey ∧ (g.deleteAll ids).nextId = g.nextId := ⟨rfl, rfl⟩

theorem deleteAll_doomed (g : Graph) (ids ids' : List String) (k : Nat) :
    doomed (g.deleteAll ids) ids' k = doomed g ids' k := by
  unfold doomed
  rw [deleteAll_entityId]

theorem deleteAll_kindOf (g : Graph) (ids : List String) (k : Nat) :
    kindOf (g.deleteAll ids) k = kindOf g k := by
  unfold kindOf
  rw [deleteAll_getAttr]

theorem mem_deleteAll_links (g : Graph) (ids : List String) (k : Nat) (l : String × Nat) :
    l ∈ (g.deleteAll ids).links k ↔ l ∈ g.links k ∧ doomed g ids l.2 = false := by
  rw [deleteAll_links, List.mem_filter]
  unfold keepLink
  simp

theorem deleteAll_child? (g : Graph) (ids : List String) (k : Nat) (name : String) (t : Nat)
    (h : (g.deleteAll ids).child? k name = some t) : doomed g ids t = false := by
  unfold Graph.child? at h
  cases hf : ((g.deleteAll ids).links k).find? (fun l => l.1 == name) with
  | none => simp [hf] at h
  | some l =>
    simp only [hf, Option.map_some, Option.some.injEq] at h
    have hm := List.mem_of_find?_eq_some hf
    have := ((mem_deleteAll_links g ids k l).mp hm).2
    rw [h] at this
    exact this

/-! ## `delLink`, `addLink`, `setAttr`: one node changes, nothing else -/

theorem delLink_links (g : Graph) (p : Nat) (name : String) (k : Nat) :
    (g.delLink p name).links k =
      if k = p then (g.links k).filter (fun l => l.1 != name) else g.links k := by
  unfold Graph.delLink Graph.links
  rw [updNode_node?]
  by_cases h : k = p
  · simp only [h, ↓reduceIte]
    cases g.node? p <;> rfl
  · simp only [h, ↓reduceIte]

theorem delLink_getAttr (g : Graph) (p : Nat) (name : String) (k : Nat) (a : String) :
    (g.delLink p name).getAttr k a = g.getAttr k a := by
  unfold Graph.delLink Graph.getAttr
  rw [updNode_node?]
  by_cases h : k = p
  · simp only [h, ↓reduceIte]
    cases g.node? p <;> rfl
  · simp only [h, ↓reduceIte]

theorem delLink_attrs (g : Graph) (p : Nat) (name : String) (k : Nat) :
    ((g.delLink p name).node? k).map (·.attrs) = (g.node? k).map (·.attrs) := by
  unfold Graph.delLink
  rw [updNode_node?]
  by_cases h : k = p
  · simp only [h, ↓reduceIte]
    cases g.node? p <;> rfl
  · simp only [h, ↓reduceIte]

theorem delLink_keys (g : Graph) (p : Nat) (name : String) :
    (g.delLink p name).nodes.map (·.1) = g.nodes.map (·.1) := by
  unfold Graph.delLink Graph.updNode
  simp only [List.map_map]
  apply List.map_congr_left
  intro kn _
  simp only [Function.comp]
  split <;> rfl

end Nix.Store.C04
