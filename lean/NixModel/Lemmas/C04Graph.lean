import NixModel.Store.Step

/-!
# C04 — graph-level facts about `deleteObjs` (`delete_all` by object), `delLink`, `addLink`, `setAttr`

Everything here is about an *arbitrary* graph (no well-formedness assumed): `updNode` and
`deleteObjs` rewrite every stored node with a matching key in the same way, and `node?` reads the
first one, so the lemmas hold even for graphs with repeated keys.
-/
namespace Nix.Store.C04
open Nix.Store Nix.Store.Graph

/-- the node `k` is one of the objects handed to `delete_all(objs)` — what the visitor tests on every
child of every group (`child.h5obj in targets`) -/
def doomed (ks : List Nat) (k : Nat) : Bool := ks.contains k

/-- the filter `deleteObjs` applies to every link list, written with `doomed` -/
def keepLink (ks : List Nat) (l : String × Nat) : Bool := !doomed ks l.2

theorem deleteObjs_eq (g : Graph) (ks : List Nat) :
    g.deleteObjs ks =
      { g with nodes := g.nodes.map fun kn =>
          (kn.1, { kn.2 with links := kn.2.links.filter (keepLink ks) }) } := rfl

/-! ## `node?` after a key-preserving rewrite of all nodes -/

theorem find_key_map (ns : List (Nat × Node)) (h : Nat × Node → Nat × Node)
    (hk : ∀ kn, (h kn).1 = kn.1) (k : Nat) :
    (ns.map h).find? (fun kn => kn.1 == k) = (ns.find? (fun kn => kn.1 == k)).map h := by
  induction ns with
  | nil => rfl
  | cons a t ih =>
    simp only [List.map_cons, List.find?_cons, hk]
    cases (a.1 == k) <;> simp [ih]

theorem deleteObjs_node? (g : Graph) (ks : List Nat) (k : Nat) :
    (g.deleteObjs ks).node? k =
      (g.node? k).map fun n => { n with links := n.links.filter (keepLink ks) } := by
  rw [deleteObjs_eq]
  unfold Graph.node?
  have := find_key_map g.nodes
    (fun kn => (kn.1, { kn.2 with links := kn.2.links.filter (keepLink ks) })) (fun _ => rfl) k
  simp only at this ⊢
  rw [this]
  cases g.nodes.find? (fun kn => kn.1 == k) <;> rfl

theorem updNode_node? (g : Graph) (p : Nat) (f : Node → Node) (k : Nat) :
    (g.updNode p f).node? k = if k = p then (g.node? k).map f else g.node? k := by
  unfold Graph.updNode Graph.node?
  have := find_key_map g.nodes (fun kn => if kn.1 == p then (kn.1, f kn.2) else kn)
    (by intro kn; split <;> rfl) k
  simp only at this ⊢
  rw [this]
  by_cases hkp : k = p
  · subst hkp
    simp only [↓reduceIte]
    cases hf : g.nodes.find? (fun kn => kn.1 == k) with
    | none => rfl
    | some kn =>
      have hk := List.find?_some hf
      simp only [Option.map_some]
      simp only [beq_iff_eq] at hk
      simp [hk]
  · simp only [hkp, ↓reduceIte]
    cases hf : g.nodes.find? (fun kn => kn.1 == k) with
    | none => rfl
    | some kn =>
      have hk := List.find?_some hf
      have : kn.1 = k := by simpa using hk
      have hne : ¬ kn.1 = p := by rw [this]; exact hkp
      simp [hne]

/-! ## what `deleteObjs` does to links, attributes, keys -/

/-- **link lists after `deleteObjs`**: every group keeps exactly its links to targets that
are none of the objects, in their old order -/
theorem deleteObjs_links (g : Graph) (ks : List Nat) (k : Nat) :
    (g.deleteObjs ks).links k = (g.links k).filter (keepLink ks) := by
  unfold Graph.links
  rw [deleteObjs_node?]
  cases g.node? k <;> rfl

theorem deleteObjs_getAttr (g : Graph) (ks : List Nat) (k : Nat) (a : String) :
    (g.deleteObjs ks).getAttr k a = g.getAttr k a := by
  unfold Graph.getAttr
  rw [deleteObjs_node?]
  cases g.node? k <;> rfl

theorem deleteObjs_entityId (g : Graph) (ks : List Nat) (k : Nat) :
    (g.deleteObjs ks).entityId k = g.entityId k := deleteObjs_getAttr g ks k "entity_id"

theorem deleteObjs_kind (g : Graph) (ks : List Nat) (k : Nat) :
    ((g.deleteObjs ks).node? k).map (·.kind) = (g.node? k).map (·.kind) := by
  rw [deleteObjs_node?]
  cases g.node? k <;> rfl

theorem deleteObjs_attrs (g : Graph) (ks : List Nat) (k : Nat) :
    ((g.deleteObjs ks).node? k).map (·.attrs) = (g.node? k).map (·.attrs) := by
  rw [deleteObjs_node?]
  cases g.node? k <;> rfl

theorem deleteObjs_keys (g : Graph) (ks : List Nat) :
    (g.deleteObjs ks).nodes.map (·.1) = g.nodes.map (·.1) := by
  rw [deleteObjs_eq]
  simp [List.map_map, Function.comp_def]

theorem deleteObjs_counters (g : Graph) (ks : List Nat) :
    (g.deleteObjs ks).nextKey = g.nextKey ∧ (g.deleteObjs ks).nextId = g.nextId := ⟨rfl, rfl⟩

theorem deleteObjs_kindOf (g : Graph) (ks : List Nat) (k : Nat) :
    kindOf (g.deleteObjs ks) k = kindOf g k := by
  unfold kindOf
  rw [deleteObjs_getAttr]

theorem mem_deleteObjs_links (g : Graph) (ks : List Nat) (k : Nat) (l : String × Nat) :
    l ∈ (g.deleteObjs ks).links k ↔ l ∈ g.links k ∧ doomed ks l.2 = false := by
  rw [deleteObjs_links, List.mem_filter]
  unfold keepLink
  simp

theorem deleteObjs_child? (g : Graph) (ks : List Nat) (k : Nat) (name : String) (t : Nat)
    (h : (g.deleteObjs ks).child? k name = some t) : doomed ks t = false := by
  unfold Graph.child? at h
  cases hf : ((g.deleteObjs ks).links k).find? (fun l => l.1 == name) with
  | none => simp [hf] at h
  | some l =>
    simp only [hf, Option.map_some, Option.some.injEq] at h
    have hm := List.mem_of_find?_eq_some hf
    have := ((mem_deleteObjs_links g ks k l).mp hm).2
    rw [h] at this
    exact this

/-! ## `delLink`, `addLink`, `setAttr`: one node changes, nothing else -/

theorem delLink_links (g : Graph) (p : Nat) (name : String) (k : Nat) :
    (g.delLink p name).links k =
      if k = p then (g.links k).filter (fun l => l.1 != name) else g.links k := by
  unfold Graph.delLink Graph.links
  rw [updNode_node?]
  by_cases h : k = p
  · simp only [h, ↓reduceIte]
    cases g.node? p <;> rfl
  · simp only [h, ↓reduceIte]

theorem delLink_getAttr (g : Graph) (p : Nat) (name : String) (k : Nat) (a : String) :
    (g.delLink p name).getAttr k a = g.getAttr k a := by
  unfold Graph.delLink Graph.getAttr
  rw [updNode_node?]
  by_cases h : k = p
  · simp only [h, ↓reduceIte]
    cases g.node? p <;> rfl
  · simp only [h, ↓reduceIte]

theorem delLink_attrs (g : Graph) (p : Nat) (name : String) (k : Nat) :
    ((g.delLink p name).node? k).map (·.attrs) = (g.node? k).map (·.attrs) := by
  unfold Graph.delLink
  rw [updNode_node?]
  by_cases h : k = p
  · simp only [h, ↓reduceIte]
    cases g.node? p <;> rfl
  · simp only [h, ↓reduceIte]

theorem delLink_keys (g : Graph) (p : Nat) (name : String) :
    (g.delLink p name).nodes.map (·.1) = g.nodes.map (·.1) := by
  unfold Graph.delLink Graph.updNode
  simp only [List.map_map]
  apply List.map_congr_left
  intro kn _
  simp only [Function.comp]
  split <;> rfl

end Nix.Store.C04
