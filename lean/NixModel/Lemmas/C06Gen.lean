import NixModel.Pure.ViewGen
import NixModel.Generated.ViewShape
import NixModel.Lemmas.C06View

/-!
Lemmas for C06: the definitions compiled from the Python source (`Generated/ViewShape.lean`, put
together by the interpreters of `Pure/ViewGen.lean`) are the hand-written model of
`Pure/DataView.lean`, for all inputs.
-/
namespace Nix.ViewGen
open Nix.Py Nix.NdIndex Nix.DataView Nix.Generated.ViewShape

/-! ### `DataView.__init__` -/

theorem anyZip_eq (ws : List Win) (shape : List Nat) :
    anyZipB (fun (_ s_stop e : Int) => decide (s_stop > e)) ws shape = anyStopBeyond ws shape := by
  induction ws generalizing shape with
  | nil => cases shape <;> rfl
  | cons w ws ih =>
    cases shape with
    | nil => rfl
    | cons n shape => simp [anyZipB, anyStopBeyond, ih]

theorem anyOne_eq (ws : List Win) :
    anyOneB (fun (s_start s_stop : Int) => (decide (s_start < 0) || decide (s_stop < s_start))) ws =
      anyNegative ws := by
  induction ws with
  | nil => rfl
  | cons w ws ih => simp [anyOneB, anyNegative, ih]

theorem norm_eq (ws : List Win) (shape : List Nat) : normG initNorm ws shape = zipNorm ws shape := by
  induction ws generalizing shape with
  | nil => cases shape <;> rfl
  | cons w ws ih =>
    cases shape with
    | nil => rfl
    | cons n shape =>
      have hn : ¬ ((n : Int) < 0) := by omega
      simp [normG, zipNorm, ih, initNorm, sliceIndices, hn, PySlice.indices, normWin]

theorem runSteps_eq (ws : List Win) (shape : List Nat) :
    runSteps initSteps ws shape =
      (decide (ws.length = shape.length) && !anyStopBeyond ws shape && !anyNegative ws) := by
  simp only [initSteps, runSteps, InitStep.fires, anyZip_eq, anyOne_eq, pyLen]
  by_cases hl : ws.length = shape.length
  · have : ¬ ((ws.length : Int) ≠ (shape.length : Int)) := by omega
    cases h1 : anyStopBeyond ws shape <;> cases h2 : anyNegative ws <;> simp [hl]
  · have : ((ws.length : Int) ≠ (shape.length : Int)) := by omega
    simp [hl, this]

theorem mkViewG_eq (shape : List Nat) (slices : Option (List (Option Win))) :
    mkViewG initSteps initNorm shape slices = mkView shape slices := by
  unfold mkViewG mkView
  cases slices with
  | none => rfl
  | some sl =>
    simp only
    cases allSome sl with
    | none => rfl
    | some ws =>
      simp only [runSteps_eq, norm_eq]
      by_cases hl : ws.length = shape.length
      · cases h1 : anyStopBeyond ws shape <;> cases h2 : anyNegative ws <;> simp [hl]
      · simp [hl]

/-! ### `_expand_user_slices` -/

theorem expand_eq (ix : List Ix) (rank : Nat) :
    expandUserSlices ix (rank : Int) = expandUser rank ix := by
  have hc := count_split ix
  unfold expandUserSlices expandUser
  simp only [pyCount, pyLen, pyIndexEllipsis, pyRepeat]
  by_cases h1 : countEllipsis ix > 1
  · have : ((countEllipsis ix : Nat) : Int) > 1 := by omega
    simp [h1, this]
  · have h1' : ¬ (((countEllipsis ix : Nat) : Int) > 1) := by omega
    simp only [h1, h1', if_false]
    by_cases h2 : ix.length - countEllipsis ix > rank
    · have : ((ix.length : Nat) : Int) - ((countEllipsis ix : Nat) : Int) > (rank : Int) := by omega
      simp [h2, this]
    · have h2' : ¬ (((ix.length : Nat) : Int) - ((countEllipsis ix : Nat) : Int) > (rank : Int)) := by omega
      simp only [h2, h2', if_false]
      by_cases h3 : countEllipsis ix = 1
      · have h3' : ((countEllipsis ix : Nat) : Int) = 1 := by omega
        simp only [h3, if_true]
        have hnn : ¬ (((List.takeWhile (fun i => !i.isEllipsis) ix).length : Int) < 0) := by omega
        have hnn' : ¬ (((List.takeWhile (fun i => !i.isEllipsis) ix).length : Int) + 1 < 0) := by omega
        have hpad : ((rank : Int) - (ix.length : Int) + 1).toNat = rank + 1 - ix.length := by omega
        have hd : (((List.takeWhile (fun i => !i.isEllipsis) ix).length : Int) + 1).toNat =
            (List.takeWhile (fun i => !i.isEllipsis) ix).length + 1 := by omega
        simp only [pyTake, pyDrop, hnn, hnn', if_false, hpad, hd, Int.toNat_natCast, fullSlices]
        simp
      · have h3' : ¬ (((countEllipsis ix : Nat) : Int) = 1) := by omega
        simp only [h3, h3', if_false]
        have hpad : ((rank : Int) - (ix.length : Int)).toNat = rank - ix.length := by omega
        simp only [hpad, fullSlices]
        simp

/-! ### `_transform_coordinates` -/

theorem transformAxis_eq (dv : Win) (i : Ix) :
    transformAxisG transformInt transformSlice transformOther dv i = transformAxis dv i := by
  obtain ⟨a, b⟩ := dv
  cases i with
  | ellipsis => rfl
  | int k =>
    simp only [transformAxisG, transformInt, transformAxis, decide_eq_true_eq, Bool.or_eq_true]
    by_cases hk : k < 0
    · simp only [hk, if_true]
      by_cases h : b + k < a ∨ b + k ≥ b <;> simp [h]
    · simp only [hk, if_false]
      by_cases h : k + a < a ∨ k + a ≥ b <;> simp [h]
  | slice s =>
    simp only [transformAxisG, transformSlice, transformSliceFn, transformAxis, sliceIndices]
    by_cases hd : b - a < 0
    · simp [hd]
    · simp only [hd, if_false]
      cases hs : s.indices (b - a).toNat with
      | error e => simp
      | ok t =>
        obtain ⟨us, ue, uk⟩ := t
        simp only [decide_eq_true_eq]
        by_cases h1 : a + (if ue < 0 then b - a + ue else ue) > b
        · simp [h1]
        · by_cases h2 : uk < 0
          · simp [h1, h2]
          · by_cases h3 : a + us < a <;> simp [h1, h2, h3]

theorem transformAxes_eq (ws : List Win) (ix : List Ix) :
    transformAxesG (transformAxisG transformInt transformSlice transformOther) ws ix =
      transformAxes ws ix := by
  induction ws generalizing ix with
  | nil => cases ix <;> rfl
  | cons w ws ih =>
    cases ix with
    | nil => rfl
    | cons i ix =>
      simp only [transformAxesG, transformAxes, transformAxis_eq, ih]
      cases transformAxis w i with
      | error e => rfl
      | ok t => cases transformAxes ws ix <;> rfl

theorem transform_eq (v : View) (ix : List Ix) :
    transformG expandUserSlices (transformAxisG transformInt transformSlice transformOther) v ix =
      transform v ix := by
  simp only [transformG, transform, pyLen, expand_eq, transformAxes_eq]
  cases expandUser v.window.length ix <;> rfl

/-! ### `_read_data` / `_write_data`, the single-value rule, `get_slice` -/

theorem viewRead_eq (v : View) (sl : Option IxArg) :
    viewReadG readInvalid readTest
      (transformG expandUserSlices (transformAxisG transformInt transformSlice transformOther)) v sl =
      viewRead v (sl.map IxArg.toList) := by
  unfold viewReadG viewRead
  cases hv : v.valid
  · simp [readInvalid]
  · cases sl with
    | none =>
      simp [readTest, SlTest.eval]
      cases daRead v.parent (windowIx v.window) <;> rfl
    | some a =>
      simp [readTest, SlTest.eval, transform_eq]
      cases transform v a.toList with
      | error e => rfl
      | ok tix => cases daRead v.parent tix <;> rfl

theorem viewWrite_eq (v : View) (sl : Option IxArg) :
    viewWriteG writeInvalid writeTest
      (transformG expandUserSlices (transformAxisG transformInt transformSlice transformOther)) v sl =
      viewWrite v (sl.map IxArg.toList) := by
  unfold viewWriteG viewWrite
  cases hv : v.valid
  · simp [writeInvalid]
  · cases sl with
    | none => simp [writeTest, SlTest.eval]
    | some a =>
      simp only [writeTest, SlTest.eval, transform_eq, Option.map]
      cases transform v a.toList <;> simp

theorem resultShape_eq (sel : List AxisSel) :
    resultShapeG singleTest singleShape (selShape sel) = resultShape sel := by
  unfold resultShapeG resultShape singleTest singleShape pyLen
  cases selShape sel with
  | nil => simp
  | cons n s =>
    have : ¬ ((s.length : Int) + 1 = 0) := by omega
    simp [this]

theorem zipWindows_eq (ps es : List Int) : zipWindowsG getSliceWindow ps es = zipWindows ps es := by
  induction ps generalizing es with
  | nil => cases es <;> rfl
  | cons p ps ih =>
    cases es with
    | nil => rfl
    | cons e es => simp [zipWindowsG, zipWindows, getSliceWindow, ih]

theorem getSlice_eq (shape : List Nat) (positions : List Int) (extents : Option (List Int)) :
    getSliceG getSliceGuard1 getSliceErr1 getSliceGuard2 getSliceErr2 getSliceWindow
      (mkViewG initSteps initNorm) shape positions extents = getSlice shape positions extents := by
  unfold getSliceG getSlice
  simp only [getSliceGuard1, getSliceGuard2, getSliceErr1, getSliceErr2, pyLen, zipWindows_eq, mkViewG_eq]
  by_cases h1 : positions.length = shape.length
  · have : ((positions.length : Nat) : Int) = (shape.length : Int) := by omega
    cases extents with
    | none => simp [h1]
    | some ext =>
      by_cases h2 : ext.length = shape.length
      · have : ((ext.length : Nat) : Int) = (shape.length : Int) := by omega
        simp [h1, h2]
      · have h2' : ¬ (((ext.length : Nat) : Int) = (shape.length : Int)) := by omega
        cases ext with
        | nil => simp [h1]
        | cons e es =>
          simp only [List.length_cons] at h2 h2'
          simp [h1, h2]
          have : ¬ ((es.length : Int) + 1 = (shape.length : Int)) := by omega
          simp [this]
  · have : ¬ (((positions.length : Nat) : Int) = (shape.length : Int)) := by omega
    simp [h1, this]

end Nix.ViewGen
