import NixModel.Lemmas.C02Handles

/-!
# C02 — the handle machine for *every* version of the code, when no link-list group is removed

`Inv'`: every cached object is the group `P` links under the handle's name (there are no removed
groups at all). It is preserved by every link-list operation that does not remove a group
(`delete` without delete-if-empty, or children at depth ≤ 1), whatever the two `Code` flags are;
so the stale-handle defect D9 needs a group removal while another handle is alive.
-/
namespace Nix.Handles.Lemmas
open Nix.Handles

def HOk' (st : St) (h : Handle) : Prop :=
  ∀ c, h.cache = some c → c < st.next ∧ (st.heap c).path = some h.name

structure Inv' (st : St) : Prop extends Core st where
  hok : ∀ h ∈ st.handles, HOk' st h

theorem HOk'.toHOk {st : St} {h : Handle} (hh : HOk' st h) : HOk st h :=
  fun c hc => ⟨(hh c hc).1, Or.inl (hh c hc).2⟩

/-- the view through a handle is the view of a fresh handle, for every version of the code -/
theorem view_eq_truth' (cd : Code) {st : St} (hc : Core st) {h : Handle} (hh : HOk' st h) :
    view cd st h = truth st h.name := by
  unfold view getter entriesOf truth
  cases hcache : h.cache with
  | none => simp
  | some c =>
    have hp := (hh c hcache).2
    have : inFile st c = true := by simp [inFile, hp]
    simp [this, hcache, hc.pathPlink c _ hp]

theorem getter_eq' (cd : Code) {st : St} {h : Handle} (hh : HOk' st h) {c : Nat} (hcache : h.cache = some c) :
    getter cd st h = h := by
  have hp := (hh c hcache).2
  have : inFile st c = true := by simp [inFile, hp]
  unfold getter
  simp [hcache, this]

theorem getter_ok' (cd : Code) {st : St} (hc : Core st) {h : Handle} (hh : HOk' st h) :
    HOk' st (getter cd st h) := by
  cases hcache : h.cache with
  | some c => rw [getter_eq' cd hh hcache]; exact hh
  | none =>
    intro c hc'
    rw [getter_name]
    unfold getter at hc'
    simp only [hcache] at hc'
    exact hc.plinkPath _ _ hc'

theorem lookupOrCreate_hok' {st : St} (h : Handle) {h' : Handle} (hh' : HOk' st h') :
    HOk' (lookupOrCreate st h).1 h' := by
  unfold lookupOrCreate
  cases hpl : st.plinks h.name with
  | some c' => exact hh'
  | none =>
    intro c hcache
    have := hh' c hcache
    have hne : c ≠ st.next := by omega
    simp only [upd, hne, ↓reduceIte]
    exact ⟨by omega, this.2⟩

theorem createH5_spec' (cd : Code) {st : St} (hc : Core st) {h : Handle} (hh : HOk' st h) :
    Core (createH5 cd st h).1 ∧
    (∃ c, (createH5 cd st h).2.cache = some c ∧ (createH5 cd st h).1.plinks h.name = some c) ∧
    (∀ h', HOk' st h' → HOk' (createH5 cd st h).1 h') := by
  have hl := lookupOrCreate_spec hc h
  unfold createH5
  cases hcache : h.cache with
  | none => exact ⟨hl.1, hl.2.1, fun h' x => lookupOrCreate_hok' h x⟩
  | some c =>
    simp only
    split
    · exact ⟨hc, ⟨c, hcache, hc.pathPlink _ _ (hh c hcache).2⟩, fun _ x => x⟩
    · exact ⟨hl.1, hl.2.1, fun h' x => lookupOrCreate_hok' h x⟩

theorem hok'_of_linked {st : St} (hc : Core st) {h : Handle} {c : Nat} (hcache : h.cache = some c)
    (hpl : st.plinks h.name = some c) : HOk' st h := by
  intro c' hc'
  rw [hcache] at hc'; cases hc'
  exact hc.plinkPath _ _ hpl

theorem inv'_setHandle {st : St} (hI : Inv' st) (i : Nat) {h : Handle} (hh : HOk' st h) :
    Inv' (setHandle st i h) := by
  refine ⟨⟨hI.noAnchor, hI.plinkPath, hI.pathPlink⟩, ?_⟩
  intro h' hmem
  rcases List.mem_or_eq_of_mem_set hmem with hm | rfl
  · exact hI.hok h' hm
  · exact hh

theorem core_updObj {st : St} (hC : Core st) {c : Nat} (o : Obj)
    (hpath : o.path = (st.heap c).path) (hanch : o.anchored = (st.heap c).anchored) :
    Core { st with heap := upd st.heap c o } := by
  refine ⟨?_, ?_, ?_⟩
  · intro c'
    simp only [upd]
    split
    · rename_i e; rw [hanch, ← e]; exact hC.noAnchor c'
    · exact hC.noAnchor c'
  · intro n c' hnc
    have := hC.plinkPath n c' hnc
    refine ⟨this.1, ?_⟩
    simp only [upd]
    split
    · rename_i e; rw [hpath, ← e]; exact this.2
    · exact this.2
  · intro c' n hcn
    simp only [upd] at hcn
    split at hcn
    · rename_i e; rw [hpath, ← e] at hcn; exact hC.pathPlink c' n hcn
    · exact hC.pathPlink c' n hcn

theorem hok'_updObj {st : St} {c : Nat} (o : Obj) (hpath : o.path = (st.heap c).path) {h : Handle}
    (hh : HOk' st h) : HOk' { st with heap := upd st.heap c o } h := by
  intro c' hcache
  have := hh c' hcache
  refine ⟨this.1, ?_⟩
  simp only [upd]
  split
  · rename_i e; subst e; rw [hpath]; exact this.2
  · exact this.2

theorem inv'_updObj {st : St} (hI : Inv' st) {c : Nat} (o : Obj)
    (hpath : o.path = (st.heap c).path) (hanch : o.anchored = (st.heap c).anchored) :
    Inv' { st with heap := upd st.heap c o } :=
  ⟨core_updObj hI.toCore o hpath hanch, fun h' hm => hok'_updObj o hpath (hI.hok h' hm)⟩

/-- a `delete` that cannot remove the group: no delete-if-empty, or the children live at depth ≤ 1 -/
def keepsGroups (depth : Nat) : Op → Bool
  | .delete _ _ die => !die || decide (depth ≤ 1)
  | _ => true

theorem step_depth (cd : Code) (st : St) (op : Op) : (step cd st op).1.depth = st.depth := by
  cases op <;> simp only [step, setHandle]
  · -- openH
    split
    · rename_i h
      show (createH5 cd st _).1.depth = _
      unfold createH5 lookupOrCreate
      repeat' split
      all_goals rfl
    · rfl
  all_goals first
    | rfl
    | (repeat' split
       all_goals first
         | rfl
         | (unfold unlinkP; split <;> rfl)
         | (show (createH5 cd st _).1.depth = _
            unfold createH5 lookupOrCreate
            repeat' split
            all_goals rfl))

theorem inv'_step (cd : Code) {st : St} (hI : Inv' st) (op : Op) (hop : op.isListOp = true)
    (hk : keepsGroups st.depth op = true) : Inv' (step cd st op).1 := by
  have hC : Core st := hI.toCore
  cases op with
  | newEntity => cases hop
  | plink _ _ => cases hop
  | punlink _ => cases hop
  | openH name create =>
    simp only [step]
    have hnone : HOk' st { name := name, cache := none } := by intro c hc; cases hc
    split
    · obtain ⟨hc1, ⟨c, hcache, hpl⟩, htr⟩ := createH5_spec' cd hC hnone
      refine ⟨⟨hc1.noAnchor, hc1.plinkPath, hc1.pathPlink⟩, ?_⟩
      intro h' hmem
      simp only [List.mem_append, List.mem_singleton] at hmem
      rcases hmem with hm | rfl
      · rw [createH5_handles] at hm
        exact htr h' (hI.hok h' hm)
      · refine hok'_of_linked hc1 hcache ?_
        rw [createH5_name]; exact hpl
    · refine ⟨⟨hC.noAnchor, hC.plinkPath, hC.pathPlink⟩, ?_⟩
      intro h' hmem
      simp only [List.mem_append, List.mem_singleton] at hmem
      rcases hmem with hm | rfl
      · exact hI.hok h' hm
      · exact hnone
  | read i =>
    simp only [step]
    split
    · exact hI
    · rename_i h hget
      exact inv'_setHandle hI i (getter_ok' cd hC (hI.hok h (List.mem_of_getElem? hget)))
  | getAttr i a =>
    simp only [step]
    split
    · exact hI
    · rename_i h hget
      exact inv'_setHandle hI i (getter_ok' cd hC (hI.hok h (List.mem_of_getElem? hget)))
  | createLink i key target =>
    simp only [step]
    split
    · exact hI
    · rename_i h hget
      have hh := hI.hok h (List.mem_of_getElem? hget)
      obtain ⟨hc1, ⟨c, hcache, hpl⟩, htr⟩ := createH5_spec' cd hC hh
      have hI1 : Inv' (createH5 cd st h).1 :=
        ⟨hc1, fun h' hm => htr h' (hI.hok h' (by rw [createH5_handles] at hm; exact hm))⟩
      have hh1 : HOk' (createH5 cd st h).1 (createH5 cd st h).2 :=
        hok'_of_linked hc1 hcache (by rw [createH5_name]; exact hpl)
      have hh2 := getter_ok' cd hc1 hh1
      split
      · exact inv'_setHandle hI1 i hh2
      · refine inv'_setHandle (inv'_updObj hI1 _ ?_ ?_) i (hok'_updObj _ ?_ hh2) <;> rfl
  | setAttr i a v =>
    simp only [step]
    split
    · exact hI
    · rename_i h hget
      have hh := hI.hok h (List.mem_of_getElem? hget)
      obtain ⟨hc1, ⟨c, hcache, hpl⟩, htr⟩ := createH5_spec' cd hC hh
      have hI1 : Inv' (createH5 cd st h).1 :=
        ⟨hc1, fun h' hm => htr h' (hI.hok h' (by rw [createH5_handles] at hm; exact hm))⟩
      have hh1 : HOk' (createH5 cd st h).1 (createH5 cd st h).2 :=
        hok'_of_linked hc1 hcache (by rw [createH5_name]; exact hpl)
      have hh2 := getter_ok' cd hc1 hh1
      split
      · exact inv'_setHandle hI1 i hh2
      · refine inv'_setHandle (inv'_updObj hI1 _ ?_ ?_) i (hok'_updObj _ ?_ hh2) <;> rfl
  | delete i key dIE =>
    simp only [keepsGroups, Bool.or_eq_true, Bool.not_eq_eq_eq_not, Bool.not_true,
      decide_eq_true_eq] at hk
    simp only [step]
    split
    · exact hI
    · rename_i h hget
      have hh := hI.hok h (List.mem_of_getElem? hget)
      have hh1 := getter_ok' cd hC hh
      split
      · exact inv'_setHandle hI i hh1
      · rename_i c hc
        split
        · exact inv'_setHandle hI i hh1
        · have hI1 := inv'_updObj hI (c := c)
            { st.heap c with links := (st.heap c).links.filter fun l => l.1 != key } rfl rfl
          have hh1' := hok'_updObj (c := c)
            { st.heap c with links := (st.heap c).links.filter fun l => l.1 != key } rfl hh1
          split
          · exact inv'_setHandle hI1 i hh1'
          · split
            · rename_i hcond
              exfalso
              simp only [Bool.and_eq_true, decide_eq_true_eq] at hcond
              rcases hk with hk | hk
              · rw [hk] at hcond; exact absurd hcond.1.1 (by simp)
              · omega
            · exact inv'_setHandle hI1 i hh1'

theorem inv'_run (cd : Code) {st : St} (hI : Inv' st) (ops : List Op)
    (hops : ∀ op ∈ ops, op.isListOp = true ∧ keepsGroups st.depth op = true) :
    Inv' (run cd st ops).1 := by
  induction ops generalizing st with
  | nil => exact hI
  | cons op ops ih =>
    rw [run_fst_cons]
    have h1 := hops op (by simp)
    refine ih (inv'_step cd hI op h1.1 h1.2) (fun o ho => ?_)
    rw [step_depth]
    exact hops o (by simp [ho])

theorem inv'_init (d : Nat) : Inv' { depth := d } := by
  refine ⟨⟨?_, ?_, ?_⟩, ?_⟩ <;> simp

end Nix.Handles.Lemmas
