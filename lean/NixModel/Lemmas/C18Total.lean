import NixModel.Lemmas.C18Inside
import NixModel.Lemmas.C18Inv
import NixModel.Lemmas.C18Names
import NixModel.Lemmas.C18Content
import NixModel.Lemmas.C18History

/-! what every run keeps — for every file (no `Clean` hypothesis), every list of steps, failing steps included -/
namespace Nix.Upgrade.Lemmas
open Nix.Upgrade

/-- `create_dataset` never overwrites: link names stay unique, whether or not a later creation fails -/
theorem createAll_nodup_always (es : List (Path × PObj)) : ∀ ps : List (Path × PObj),
    (ps.map (·.1)).Nodup → ((createAll ps es).1.map (·.1)).Nodup := by
  induction es with
  | nil => intro ps h; simpa [createAll] using h
  | cons e es ih =>
    intro ps hnd
    simp only [createAll]
    cases hp : hasPath ps e.1 with
    | true => simpa using hnd
    | false =>
      simp only [Bool.false_eq_true, ↓reduceIte]
      apply ih
      have hnot := hasPath_false hp
      simp only [List.map_append, List.map_cons, List.map_nil]
      rw [List.nodup_append]
      refine ⟨hnd, by simp, ?_⟩
      intro a ha b hb
      simp only [List.mem_singleton] at hb
      subst hb
      intro hab
      exact hnot (hab ▸ ha)

/-- every property of `f` is still there in `g` and reads the same dtype, values, unit, definition -/
def ViewKept (f g : List (Path × PObj)) : Prop :=
  ∀ p x, (p, x) ∈ f → ∃ y, (p, y) ∈ g ∧ y.view = x.view

theorem ViewKept.refl (f : List (Path × PObj)) : ViewKept f f := fun _ x h => ⟨x, h, rfl⟩

theorem ViewKept.trans {f g h : List (Path × PObj)} (a : ViewKept f g) (b : ViewKept g h) : ViewKept f h := by
  intro p x hx
  obtain ⟨y, hy, hv⟩ := a p x hx
  obtain ⟨z, hz, hw⟩ := b p y hy
  exact ⟨z, hz, hw.trans hv⟩

theorem hasPath_filter_self (ps : List (Path × PObj)) (p : Path) : hasPath (ps.filter (·.1 != p)) p = false := by
  unfold hasPath
  simp only [List.any_eq_false, List.mem_filter, bne_iff_ne, ne_eq, beq_iff_eq, and_imp]
  intro e _ h
  exact h

theorem convertProp_kept (r : Nat) (f : File) (q : Path) (hnd : (f.props.map (·.1)).Nodup) :
    ((convertProp r f q).1.props.map (·.1)).Nodup ∧ ViewKept f.props (convertProp r f q).1.props ∧
    (convertProp r f q).1.arrays = f.arrays ∧ (convertProp r f q).1.other = f.other ∧
    (convertProp r f q).1.version = f.version ∧ (convertProp r f q).1.id = f.id := by
  unfold convertProp
  cases hl : lookup f.props q with
  | none => exact ⟨hnd, ViewKept.refl _, rfl, rfl, rfl, rfl⟩
  | some x =>
    cases x with
    | new n => exact ⟨hnd, ViewKept.refl _, rfl, rfl, rfl, rfl⟩
    | old o =>
      simp only
      cases ht : nameTaken f.props (converted r q o) with
      | true => exact ⟨hnd, ViewKept.refl _, rfl, rfl, rfl, rfl⟩
      | false =>
      simp only [Bool.false_eq_true, ↓reduceIte]
      refine ⟨createAll_nodup_always _ _ (filter_paths_nodup q hnd), ?_, trivial, trivial, trivial, trivial⟩
      have hconv : converted r q o = (q, PObj.new (mainOf r o)) :: (converted r q o).tail := by
        rw [converted_eq]; rfl
      rw [hconv]
      simp only [createAll, hasPath_filter_self, Bool.false_eq_true, ↓reduceIte]
      obtain ⟨n, hn⟩ := createAll_prefix (converted r q o).tail (f.props.filter (·.1 != q) ++ [(q, PObj.new (mainOf r o))])
      rw [hn]
      intro p x hx
      by_cases hpq : p = q
      · subst hpq
        have hx' := lookup_of_mem hnd hx
        rw [hl] at hx'
        cases hx'
        exact ⟨PObj.new (mainOf r o), by simp, view_mainOf r o⟩
      · exact ⟨x, by simp [List.mem_filter, hx, hpq], rfl⟩

/-- once no needed name is taken, the creations of one conversion cannot fail -/
theorem createAll_converted_ok {r : Nat} {ps : List (Path × PObj)} {q : Path} {o : OldProp}
    (hnd : (ps.map (·.1)).Nodup) (hq : q ∈ ps.map (·.1)) (hfree : nameTaken ps (converted r q o) = false) :
    (createAll (ps.filter (·.1 != q)) (converted r q o)).2 = none := by
  have hconv : converted r q o = (q, PObj.new (mainOf r o)) :: (converted r q o).tail := by
    rw [converted_eq]; rfl
  have htail : ∀ e ∈ (converted r q o).tail, e.1 ∉ ps.map (·.1) := by
    intro e he hmem
    unfold nameTaken at hfree
    have := List.any_eq_false.mp hfree e he
    unfold hasPath at this
    obtain ⟨y, hy, hye⟩ := List.mem_map.mp hmem
    exact this (List.any_eq_true.mpr ⟨y, hy, by simpa using hye⟩)
  have hsub : ((converted r q o).tail.map (·.1)).Sublist (extras q) := by
    have h := converted_paths_sublist r q o
    rw [hconv] at h
    simp only [List.map_cons] at h
    exact List.cons_sublist_cons.mp h
  apply createAll_succeeds
  rw [hconv, List.map_cons, List.nodup_append]
  refine ⟨filter_paths_nodup q hnd, ?_, ?_⟩
  · rw [List.nodup_cons]
    refine ⟨fun hmem => ?_, (extras_nodup_any q).sublist hsub⟩
    obtain ⟨e, he, heq⟩ := List.mem_map.mp hmem
    exact htail e he (heq ▸ hq)
  · intro a ha b hb hab
    subst hab
    obtain ⟨e, he, rfl⟩ := List.mem_map.mp ha
    have hef := mem_filter_ne.mp he
    simp only [List.mem_cons, List.mem_map] at hb
    rcases hb with h | ⟨e', he', h⟩
    · exact hef.2 h
    · exact htail e' he' (h ▸ List.mem_map.mpr ⟨e, hef.1, rfl⟩)

/-- a property conversion that fails has changed nothing (the refusal comes before the first write) -/
theorem convertProp_fail_unchanged {r : Nat} {f f' : File} {q : Path} {e : Err}
    (hnd : (f.props.map (·.1)).Nodup) (hs : convertProp r f q = (f', some e)) : f' = f := by
  unfold convertProp at hs
  cases hl : lookup f.props q with
  | none => rw [hl] at hs; simp only [Prod.mk.injEq] at hs; exact hs.1.symm
  | some x =>
    rw [hl] at hs
    cases x with
    | new n => simp at hs
    | old o =>
      simp only at hs
      cases ht : nameTaken f.props (converted r q o) with
      | true => simp only [ht, ↓reduceIte, Prod.mk.injEq] at hs; exact hs.1.symm
      | false =>
        simp only [ht, Bool.false_eq_true, ↓reduceIte, Prod.mk.injEq] at hs
        have hq : q ∈ f.props.map (·.1) := by
          unfold lookup at hl
          obtain ⟨e', he', _⟩ := Option.map_eq_some_iff.mp hl
          have h1 := List.mem_of_find?_eq_some he'
          have h2 := List.find?_some he'
          exact List.mem_map.mpr ⟨e', h1, by simpa using h2⟩
        have := createAll_converted_ok (r := r) (o := o) hnd hq ht
        rw [this] at hs
        cases hs.2

theorem convertDim_props (r : Nat) (f : File) (a d : String) :
    (convertDim r f a d).1.props = f.props ∧ (convertDim r f a d).1.other = f.other ∧
    (convertDim r f a d).1.version = f.version ∧ (convertDim r f a d).1.id = f.id := by
  unfold convertDim
  cases updArrs r a d f.arrays <;> simp

theorem applyStep_kept (lib : List Nat) (r : Nat) (f : File) (s : Step) (hnd : (f.props.map (·.1)).Nodup) :
    ((applyStep lib r f s).1.props.map (·.1)).Nodup ∧ ViewKept f.props (applyStep lib r f s).1.props ∧
    (applyStep lib r f s).1.other = f.other := by
  cases s with
  | addId =>
    simp only [applyStep]
    cases hasValidId f <;> exact ⟨hnd, ViewKept.refl _, rfl⟩
  | prop q => obtain ⟨h1, h2, _, h4, _⟩ := convertProp_kept r f q hnd; exact ⟨h1, h2, h4⟩
  | dim a d =>
    obtain ⟨h1, h2, _⟩ := convertDim_props r f a d
    simp only [applyStep]
    rw [h1]
    exact ⟨hnd, ViewKept.refl _, h2⟩
  | bump => exact ⟨hnd, ViewKept.refl _, rfl⟩

theorem runSteps_kept (lib : List Nat) (r : Nat) (ss : List Step) : ∀ f : File, (f.props.map (·.1)).Nodup →
    ((runSteps lib r f ss).1.props.map (·.1)).Nodup ∧ ViewKept f.props (runSteps lib r f ss).1.props ∧
    (runSteps lib r f ss).1.other = f.other := by
  induction ss with
  | nil => intro f h; exact ⟨h, ViewKept.refl _, rfl⟩
  | cons s ss ih =>
    intro f hnd
    rw [runSteps_cons]
    obtain ⟨h1, h2, h3⟩ := applyStep_kept lib r f s hnd
    generalize applyStep lib r f s = res at h1 h2 h3
    obtain ⟨f', e⟩ := res
    cases e with
    | some e => exact ⟨h1, h2, h3⟩
    | none =>
      obtain ⟨k1, k2, k3⟩ := ih f' h1
      exact ⟨k1, h2.trans k2, k3.trans h3⟩

/-- a failed upgrade has not raised the version -/
theorem failed_keeps_version {lib : List Nat} {r : Nat} {f : File} (h : (upgrade lib r f).2 ≠ none) :
    (upgrade lib r f).1.version = f.version := by
  cases hu : upToDate lib f with
  | true =>
    unfold upgrade at h ⊢
    rw [collect_upToDate hu] at h ⊢
    rfl
  | false =>
    unfold upgrade at h ⊢
    rw [collect_old hu, runSteps_append] at h ⊢
    have hv := runSteps_version (lib := lib) (r := r) (f := f) (ss := preSteps f)
      (fun s hs hb => bump_not_mem_preSteps f (hb ▸ hs))
    generalize runSteps lib r f (preSteps f) = res at h hv ⊢
    obtain ⟨g, e⟩ := res
    cases e with
    | some e => exact hv
    | none => exact absurd rfl h

/-- the only step of a collected list that can fail is a property conversion, and it fails before its first write -/
theorem head_fail_unchanged {lib : List Nat} {r : Nat} {f f' : File} {s : Step} {rest : List Step} {e : Err}
    (hwf : WF f) (hc : collect lib f = s :: rest) (hs : applyStep lib r f s = (f', some e)) : f' = f := by
  rcases head_class hc with rfl | ⟨p, t, rfl, _⟩ | ⟨ap, dn, D, rfl, hd⟩ | rfl
  · simp only [applyStep] at hs
    split at hs <;> simp at hs
  · exact convertProp_fail_unchanged hwf.1 hs
  · have := (convertDim_head hwf hd hs).1
    cases this
  · simp [applyStep] at hs

/-- a failed upgrade leaves exactly what an interruption at a step boundary leaves -/
theorem failure_is_interruption {lib : List Nat} {r : Nat} : ∀ (n : Nat) (f g : File) (e : Err),
    (collect lib f).length = n → WF f → upgrade lib r f = (g, some e) →
    ∃ k, k < n ∧ interrupt lib r k f = (g, none) := by
  intro n
  induction n with
  | zero =>
    intro f g e hn _ hu
    have : collect lib f = [] := List.length_eq_zero_iff.mp hn
    unfold upgrade at hu
    rw [this] at hu
    cases hu
  | succ n ih =>
    intro f g e hn hwf hu
    cases hc : collect lib f with
    | nil => rw [hc] at hn; cases hn
    | cons s rest =>
      cases hs : applyStep lib r f s with
      | mk f' e' =>
        cases e' with
        | some e' =>
          have hf := head_fail_unchanged hwf hc hs
          subst hf
          unfold upgrade at hu
          rw [hc, runSteps_cons, hs] at hu
          simp only [Prod.mk.injEq] at hu
          refine ⟨0, by omega, ?_⟩
          unfold interrupt
          rw [← hu.1]
          rfl
        | none =>
          obtain ⟨hwf', hc'⟩ := collect_step hwf hc hs
          have hlen : (collect lib f').length = n := by
            rw [hc']; rw [hc] at hn; simpa using hn
          have hu' : upgrade lib r f' = (g, some e) := by
            unfold upgrade at hu ⊢
            rw [hc, runSteps_cons, hs] at hu
            rw [hc']
            exact hu
          obtain ⟨k, hk, hi⟩ := ih f' g e hlen hwf' hu'
          refine ⟨k + 1, by omega, ?_⟩
          unfold interrupt at hi ⊢
          rw [hc, List.take_succ_cons, runSteps_cons, hs]
          rw [hc'] at hi
          exact hi

/-- the same for a run that was going to be interrupted before its `k`-th step but failed earlier -/
theorem prefix_failure_is_interruption {lib : List Nat} {r : Nat} : ∀ (k : Nat) (f g : File) (e : Err),
    WF f → interrupt lib r k f = (g, some e) → ∃ j, j < k ∧ interrupt lib r j f = (g, none) := by
  intro k
  induction k with
  | zero => intro f g e _ hi; simp [interrupt, runSteps] at hi
  | succ k ih =>
    intro f g e hwf hi
    cases hc : collect lib f with
    | nil => unfold interrupt at hi; rw [hc] at hi; simp [runSteps] at hi
    | cons s rest =>
      cases hs : applyStep lib r f s with
      | mk f' e' =>
        cases e' with
        | some e' =>
          have hf := head_fail_unchanged hwf hc hs
          subst hf
          unfold interrupt at hi
          rw [hc, List.take_succ_cons, runSteps_cons, hs] at hi
          simp only [Prod.mk.injEq] at hi
          refine ⟨0, by omega, ?_⟩
          unfold interrupt
          rw [← hi.1]
          rfl
        | none =>
          obtain ⟨hwf', hc'⟩ := collect_step hwf hc hs
          have hi' : interrupt lib r k f' = (g, some e) := by
            unfold interrupt at hi ⊢
            rw [hc, List.take_succ_cons, runSteps_cons, hs] at hi
            rw [hc']
            exact hi
          obtain ⟨j, hj, hij⟩ := ih f' g e hwf' hi'
          refine ⟨j + 1, by omega, ?_⟩
          unfold interrupt at hij ⊢
          rw [hc, List.take_succ_cons, runSteps_cons, hs]
          rw [hc'] at hij
          exact hij

/-- resuming after an interruption, whether or not the interrupted run was refused on the way -/
theorem resume_total {lib : List Nat} {r1 r2 r3 : Nat} (k : Nat) {f : File} (hwf : WF f) :
    (upgrade lib r2 (interrupt lib r1 k f).1).1.erase = (upgrade lib r3 f).1.erase ∧
    (upgrade lib r2 (interrupt lib r1 k f).1).2 = (upgrade lib r3 f).2 ∧ WF (interrupt lib r1 k f).1 := by
  cases hi : interrupt lib r1 k f with
  | mk g e =>
    cases e with
    | none =>
      have := resume_erase (lib := lib) (r1 := r1) (r2 := r2) (r3 := r3) k hwf (by rw [hi])
      rw [hi] at this
      exact ⟨this.1, this.2, interrupt_wf hwf hi⟩
    | some e =>
      obtain ⟨j, _, hj⟩ := prefix_failure_is_interruption k f g e hwf hi
      have := resume_erase (lib := lib) (r1 := r1) (r2 := r2) (r3 := r3) j hwf (by rw [hj])
      rw [hj] at this
      exact ⟨this.1, this.2, interrupt_wf hwf hj⟩

/-- invocations `r, r+1, …`, the `i`-th interrupted before its `kᵢ`-th step or refused earlier; the next one is
started on whatever was left -/
def runHistoryAny (lib : List Nat) : Nat → File → List Nat → File
  | _, f, [] => f
  | r, f, k :: ks => runHistoryAny lib (r + 1) (interrupt lib r k f).1 ks

theorem history_any_resume {lib : List Nat} {r2 r3 : Nat} : ∀ (ks : List Nat) (r : Nat) {f : File}, WF f →
    (upgrade lib r2 (runHistoryAny lib r f ks)).1.erase = (upgrade lib r3 f).1.erase ∧
    (upgrade lib r2 (runHistoryAny lib r f ks)).2 = (upgrade lib r3 f).2 := by
  intro ks
  induction ks with
  | nil => intro r f _; exact upgrade_erase_congr r2 r3 f
  | cons k ks ih =>
    intro r f hwf
    obtain ⟨h1, h2, hwf1⟩ := resume_total (lib := lib) (r1 := r) (r2 := r3) (r3 := r3) k hwf
    obtain ⟨g1, g2⟩ := ih (r + 1) hwf1
    exact ⟨g1.trans h1, g2.trans h2⟩

end Nix.Upgrade.Lemmas
