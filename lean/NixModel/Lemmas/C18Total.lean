import NixModel.Lemmas.C18Inside
import NixModel.Lemmas.C18Inv

/-! what every run keeps — for every file (no `Clean` hypothesis), every list of steps, failing steps included -/
namespace Nix.Upgrade.Lemmas
open Nix.Upgrade

/-- `create_dataset` never overwrites: link names stay unique, whether or not a later creation fails -/
theorem createAll_nodup_always (es : List (Path × PObj)) : ∀ ps : List (Path × PObj),
    (ps.map (·.1)).Nodup → ((createAll ps es).1.map (·.1)).Nodup := by
  induction es with
  | nil => intro ps h; simpa [createAll] using h
  | cons e es ih =>
    intro ps hnd
    simp only [createAll]
    cases hp : hasPath ps e.1 with
    | true => simpa using hnd
    | false =>
      simp only [Bool.false_eq_true, ↓reduceIte]
      apply ih
      have hnot := hasPath_false hp
      simp only [List.map_append, List.map_cons, List.map_nil]
      rw [List.nodup_append]
      refine ⟨hnd, by simp, ?_⟩
      intro a ha b hb
      simp only [List.mem_singleton] at hb
      subst hb
      intro hab
      exact hnot (hab ▸ ha)

/-- every property of `f` is still there in `g` and reads the same dtype, values, unit, definition -/
def ViewKept (f g : List (Path × PObj)) : Prop :=
  ∀ p x, (p, x) ∈ f → ∃ y, (p, y) ∈ g ∧ y.view = x.view

theorem ViewKept.refl (f : List (Path × PObj)) : ViewKept f f := fun _ x h => ⟨x, h, rfl⟩

theorem ViewKept.trans {f g h : List (Path × PObj)} (a : ViewKept f g) (b : ViewKept g h) : ViewKept f h := by
  intro p x hx
  obtain ⟨y, hy, hv⟩ := a p x hx
  obtain ⟨z, hz, hw⟩ := b p y hy
  exact ⟨z, hz, hw.trans hv⟩

theorem hasPath_filter_self (ps : List (Path × PObj)) (p : Path) : hasPath (ps.filter (·.1 != p)) p = false := by
  unfold hasPath
  simp only [List.any_eq_false, List.mem_filter, bne_iff_ne, ne_eq, beq_iff_eq, and_imp]
  intro e _ h
  exact h

theorem convertProp_kept (r : Nat) (f : File) (q : Path) (hnd : (f.props.map (·.1)).Nodup) :
    ((convertProp r f q).1.props.map (·.1)).Nodup ∧ ViewKept f.props (convertProp r f q).1.props ∧
    (convertProp r f q).1.arrays = f.arrays ∧ (convertProp r f q).1.other = f.other ∧
    (convertProp r f q).1.version = f.version ∧ (convertProp r f q).1.id = f.id := by
  unfold convertProp
  cases hl : lookup f.props q with
  | none => exact ⟨hnd, ViewKept.refl _, rfl, rfl, rfl, rfl⟩
  | some x =>
    cases x with
    | new n => exact ⟨hnd, ViewKept.refl _, rfl, rfl, rfl, rfl⟩
    | old o =>
      simp only
      refine ⟨createAll_nodup_always _ _ (filter_paths_nodup q hnd), ?_, trivial, trivial, trivial, trivial⟩
      have hconv : converted r q o = (q, PObj.new (mainOf r o)) :: (converted r q o).tail := by
        rw [converted_eq]; rfl
      rw [hconv]
      simp only [createAll, hasPath_filter_self, Bool.false_eq_true, ↓reduceIte]
      obtain ⟨n, hn⟩ := createAll_prefix (converted r q o).tail (f.props.filter (·.1 != q) ++ [(q, PObj.new (mainOf r o))])
      rw [hn]
      intro p x hx
      by_cases hpq : p = q
      · subst hpq
        have hx' := lookup_of_mem hnd hx
        rw [hl] at hx'
        cases hx'
        exact ⟨PObj.new (mainOf r o), by simp, view_mainOf r o⟩
      · exact ⟨x, by simp [List.mem_filter, hx, hpq], rfl⟩

theorem convertDim_props (r : Nat) (f : File) (a d : String) :
    (convertDim r f a d).1.props = f.props ∧ (convertDim r f a d).1.other = f.other ∧
    (convertDim r f a d).1.version = f.version ∧ (convertDim r f a d).1.id = f.id := by
  unfold convertDim
  cases updArrs r a d f.arrays <;> simp

theorem applyStep_kept (lib : List Nat) (r : Nat) (f : File) (s : Step) (hnd : (f.props.map (·.1)).Nodup) :
    ((applyStep lib r f s).1.props.map (·.1)).Nodup ∧ ViewKept f.props (applyStep lib r f s).1.props ∧
    (applyStep lib r f s).1.other = f.other := by
  cases s with
  | addId =>
    simp only [applyStep]
    cases hasValidId f <;> exact ⟨hnd, ViewKept.refl _, rfl⟩
  | prop q => obtain ⟨h1, h2, _, h4, _⟩ := convertProp_kept r f q hnd; exact ⟨h1, h2, h4⟩
  | dim a d =>
    obtain ⟨h1, h2, _⟩ := convertDim_props r f a d
    simp only [applyStep]
    rw [h1]
    exact ⟨hnd, ViewKept.refl _, h2⟩
  | bump => exact ⟨hnd, ViewKept.refl _, rfl⟩

theorem runSteps_kept (lib : List Nat) (r : Nat) (ss : List Step) : ∀ f : File, (f.props.map (·.1)).Nodup →
    ((runSteps lib r f ss).1.props.map (·.1)).Nodup ∧ ViewKept f.props (runSteps lib r f ss).1.props ∧
    (runSteps lib r f ss).1.other = f.other := by
  induction ss with
  | nil => intro f h; exact ⟨h, ViewKept.refl _, rfl⟩
  | cons s ss ih =>
    intro f hnd
    rw [runSteps_cons]
    obtain ⟨h1, h2, h3⟩ := applyStep_kept lib r f s hnd
    generalize applyStep lib r f s = res at h1 h2 h3
    obtain ⟨f', e⟩ := res
    cases e with
    | some e => exact ⟨h1, h2, h3⟩
    | none =>
      obtain ⟨k1, k2, k3⟩ := ih f' h1
      exact ⟨k1, h2.trans k2, k3.trans h3⟩

/-- a failed upgrade has not raised the version -/
theorem failed_keeps_version {lib : List Nat} {r : Nat} {f : File} (h : (upgrade lib r f).2 ≠ none) :
    (upgrade lib r f).1.version = f.version := by
  cases hu : upToDate lib f with
  | true =>
    unfold upgrade at h ⊢
    rw [collect_upToDate hu] at h ⊢
    rfl
  | false =>
    unfold upgrade at h ⊢
    rw [collect_old hu, runSteps_append] at h ⊢
    have hv := runSteps_version (lib := lib) (r := r) (f := f) (ss := preSteps f)
      (fun s hs hb => bump_not_mem_preSteps f (hb ▸ hs))
    generalize runSteps lib r f (preSteps f) = res at h hv ⊢
    obtain ⟨g, e⟩ := res
    cases e with
    | some e => exact hv
    | none => exact absurd rfl h

end Nix.Upgrade.Lemmas
