import NixModel.Lemmas.C13IdsRef
import NixModel.Pure.TreeIdsRel

/-!
# C13 — `Section.find_related` on id texts = on keys
-/

namespace Nix.Tree.Ids
open Nix.Tree Nix.Tree.Shape

/-- whatever the constants of the finder, the loop only returns nodes of the trees waiting in the fifo -/
theorem findLoopG_subset (s : Finder) (filt : Node → Bool) (lim : Nat) (q : List (Node × Nat)) :
    ∀ x, x ∈ findLoopG s filt lim q → x ∈ nodesL (q.map Prod.fst) := by
  fun_induction findLoopG s filt lim q with
  | case1 => intro x h; simp at h
  | case2 n lvl rest fifo hf ih =>
    intro x h
    have hfifo : ∀ y, y ∈ nodesL (fifo.map Prod.fst) → y ∈ nodesL (n :: rest.map Prod.fst) := by
      intro y hy
      simp only [fifo] at hy
      split at hy
      · rw [List.map_append, nodesL_append, List.mem_append, List.map_map] at hy
        rcases hy with hy | hy
        · exact mem_nodesL_cons.mpr (.inr (.inr hy))
        · have e : (Prod.fst ∘ fun e : Node => (e, lvl + s.step)) = id := rfl
          rw [e, List.map_id] at hy
          exact mem_nodesL_cons.mpr (.inr (.inl hy))
      · exact mem_nodesL_cons.mpr (.inr (.inr hy))
    rcases List.mem_cons.mp h with h | h
    · exact mem_nodesL_cons.mpr (.inl h)
    · exact hfifo x (ih x h)
  | case3 n lvl rest fifo hf ih =>
    intro x h
    have hfifo : ∀ y, y ∈ nodesL (fifo.map Prod.fst) → y ∈ nodesL (n :: rest.map Prod.fst) := by
      intro y hy
      simp only [fifo] at hy
      split at hy
      · rw [List.map_append, nodesL_append, List.mem_append, List.map_map] at hy
        rcases hy with hy | hy
        · exact mem_nodesL_cons.mpr (.inr (.inr hy))
        · have e : (Prod.fst ∘ fun e : Node => (e, lvl + s.step)) = id := rfl
          rw [e, List.map_id] at hy
          exact mem_nodesL_cons.mpr (.inr (.inl hy))
      · exact mem_nodesL_cons.mpr (.inr (.inr hy))
    exact hfifo x (ih x h)

/-- a search started at a node only returns nodes of its subtree -/
theorem findG_node_subset (s : Finder) (p : Node) (filt : Node → Bool) (lim : Option Nat) {r : List Node}
    (h : findG s (.node p) filt lim = .ok r) : ∀ x ∈ r, x ∈ nodesL [p] := by
  unfold findG at h
  cases hd : s.defaulting.apply lim with
  | none => simp [hd] at h
  | some l =>
    simp only [hd, Except.ok.injEq] at h
    subst h
    intro x hx
    simpa using findLoopG_subset s filt l [(p, s.level0)] x hx

theorem eraseT_eq {texts : Nat → String} {ks : List Nat} (inj : TextsInjOn texts ks) {k : Nat} (hk : k ∈ ks) :
    ∀ l : List Node, (∀ x ∈ l, x.key ∈ ks) → eraseT texts k l = eraseKey k l
  | [], _ => rfl
  | x :: xs, h => by
    rw [eraseT, eraseKey, beq_texts (inj x.key (h x (List.mem_cons_self ..)) k hk),
      eraseT_eq inj hk xs (fun y hy => h y (List.mem_cons_of_mem _ hy))]

mutual
theorem nodes_sub {rs : List Node} : ∀ (c : Node), c ∈ nodesL rs → ∀ y ∈ c.nodes, y ∈ nodesL rs
  | .mk i cs, hc, y, hy => by
    rw [Node.nodes] at hy
    rcases List.mem_cons.mp hy with h | h
    · exact h ▸ hc
    · exact nodesL_sub cs (fun d hd => child_mem_nodesL hc hd) y h
theorem nodesL_sub {rs : List Node} : ∀ (cs : List Node), (∀ d ∈ cs, d ∈ nodesL rs) → ∀ y ∈ nodesL cs, y ∈ nodesL rs
  | [], _, y, hy => by simp [nodesL] at hy
  | c :: cs, h, y, hy => by
    rw [nodesL, List.mem_append] at hy
    rcases hy with hy | hy
    · exact nodes_sub c (h c (List.mem_cons_self ..)) y hy
    · exact nodesL_sub cs (fun d hd => h d (List.mem_cons_of_mem _ hd)) y hy
end

theorem nodesL_single_subset {rs : List Node} {p : Node} (hp : p ∈ nodesL rs) : ∀ x ∈ nodesL [p], x ∈ nodesL rs :=
  nodesL_sub [p] (fun d hd => by rw [List.mem_singleton.mp hd]; exact hp)

theorem findRelatedT_eq (ps : ParentShape) (rs : RelatedShape) (sh : IdLookup) (hv : sh.idKey = .asGiven)
    {texts : Nat → String} {f : File} (ok : IdsOK texts f.sections) (k : Nat)
    (useCache : Bool) (filt : Node → Bool) :
    findRelatedT ps rs sh texts f k useCache filt = findRelatedG ps rs f k useCache filt := by
  unfold findRelatedT findRelatedG
  cases hn : findL? k f.sections with
  | none => rfl
  | some n =>
    obtain ⟨hmem, hkey⟩ := (findL?_spec k f.sections).1 n hn
    have hk : k ∈ keysL f.sections := hkey ▸ key_mem hmem
    simp only [sectionParentT_eq ps sh hv ok]
    cases sectionParentG ps f k useCache with
    | error e => rfl
    | ok par =>
      cases par with
      | none =>
        cases findG rs.finder (.node n) filt (some rs.selfLimit) <;> rfl
      | some pk =>
        simp only []
        cases hp : findL? pk f.sections with
        | none => rfl
        | some p =>
          have hpm := ((findL?_spec pk f.sections).1 p hp).1
          simp only []
          cases ha : findG rs.finder (.node p) filt (some rs.parentLimit) with
          | error e => rfl
          | ok a =>
            have e : eraseT texts k a = eraseKey k a :=
              eraseT_eq (ks := keysL f.sections) ok.inj hk a
                (fun x hx => key_mem (nodesL_single_subset hpm x (findG_node_subset _ _ _ _ ha x hx)))
            cases findG rs.finder (.node n) filt (some rs.selfLimit) with
            | error e' => rfl
            | ok b =>
              show Except.ok (eraseT texts k a ++ b) = Except.ok (eraseKey k a ++ b)
              rw [e]

end Nix.Tree.Ids
