import NixModel.Lemmas.C13IdsRef
import NixModel.Pure.TreeIdsRel

/-!
# C13 — `Section.find_related` on id texts = on keys
-/

namespace Nix.Tree.Ids
open Nix.Tree Nix.Tree.Shape

theorem eraseT_eq {texts : Nat → String} (inj : TextsInj texts) (k : Nat) :
    ∀ l : List Node, eraseT texts k l = eraseKey k l
  | [] => rfl
  | x :: xs => by
    rw [eraseT, eraseKey, beq_texts (inj x.key k), eraseT_eq inj k xs]

theorem findRelatedT_eq (ps : ParentShape) (rs : RelatedShape) (sh : IdLookup) (hv : sh.idKey = .asGiven)
    {texts : Nat → String} (inj : TextsInj texts) {f : File} (ok : IdsOK texts f.sections) (k : Nat)
    (useCache : Bool) (filt : Node → Bool) :
    findRelatedT ps rs sh texts f k useCache filt = findRelatedG ps rs f k useCache filt := by
  unfold findRelatedT findRelatedG
  cases findL? k f.sections with
  | none => rfl
  | some n =>
    simp only [sectionParentT_eq ps sh hv ok, eraseT_eq inj]
    rfl

end Nix.Tree.Ids
