import NixModel.Lemmas.C14File

/-!
# C14 — which object an entry of `results["errors"]` belongs to

`allChecks_iff` says that every object gets an entry; here the *key* is tied to the position: the entry with path
`[bi, i]` and kind array is the check result of the `i`-th array of the `bi`-th block, and so on for blocks, groups,
tags and multi-tags ("reported for exactly the objects that have it").
-/
namespace Nix.Validator.Lemmas
open Nix.Validator Nix.Validator.Gen

theorem mem_blocksChecks (km : Key × List Msg) (l : List Block) :
    ∀ start, km ∈ blocksChecks start l ↔ ∃ j b, l[j]? = some b ∧ km ∈ blockChecks (start + j) b := by
  induction l with
  | nil => intro start; simp [blocksChecks]
  | cons b rest ih =>
    intro start
    simp only [blocksChecks, List.mem_append, ih]
    constructor
    · rintro (h | ⟨j, b', hj, hm⟩)
      · exact ⟨0, b, by simp, by simpa using h⟩
      · refine ⟨j + 1, b', by simpa using hj, ?_⟩
        have : start + (j + 1) = start + 1 + j := by omega
        rw [this]; exact hm
    · rintro ⟨j, b', hj, hm⟩
      cases j with
      | zero =>
        simp only [List.getElem?_cons_zero, Option.some.injEq] at hj
        subst hj
        exact Or.inl (by simpa using hm)
      | succ j' =>
        refine Or.inr ⟨j', b', by simpa using hj, ?_⟩
        have : start + (j' + 1) = start + 1 + j' := by omega
        rw [← this]; exact hm

/-- the flat kinds of a block -/
def FlatEntry (b : Block) (kind : Kind) (i : Nat) (msgs : List Msg) : Prop :=
  match kind with
  | .group => ∃ g, b.groups[i]? = some g ∧ msgs = checkEntity g
  | .array => ∃ da, b.arrays[i]? = some da ∧ msgs = checkDataArray da
  | .tag => ∃ t, b.tags[i]? = some t ∧ msgs = checkTag b.arrays t
  | .mtag => ∃ t, b.mtags[i]? = some t ∧ msgs = checkMultiTag b.arrays t
  | _ => False

theorem blockChecks_flat (bj : Nat) (b : Block) (kind : Kind) (bi i : Nat) (msgs : List Msg)
    (hk : kind = .group ∨ kind = .array ∨ kind = .tag ∨ kind = .mtag) :
    ((⟨kind, [bi, i]⟩ : Key), msgs) ∈ blockChecks bj b ↔ bj = bi ∧ FlatEntry b kind i msgs := by
  have hsrc : ((⟨kind, [bi, i]⟩ : Key), msgs) ∉ sourcesChecks [bj] 0 b.sources := by
    intro h
    have := (sourcesChecks_sound [bj] 0 b.sources _ h).1
    simp only at this
    rcases hk with rfl | rfl | rfl | rfl <;> cases this
  unfold blockChecks
  simp only [List.mem_cons, List.mem_append, mem_mapIdx, Nat.zero_add, Prod.mk.injEq, Key.mk.injEq, hsrc, or_false]
  rcases hk with rfl | rfl | rfl | rfl
  all_goals
    simp only [FlatEntry, reduceCtorEq, false_and, and_false, exists_false, exists_const, or_false, false_or, true_and,
      List.cons.injEq, and_true]
    constructor
    · rintro ⟨j, x, hj, ⟨rfl, rfl⟩, rfl⟩; exact ⟨rfl, x, hj, rfl⟩
    · rintro ⟨rfl, x, hj, rfl⟩; exact ⟨i, x, hj, ⟨rfl, rfl⟩, rfl⟩

theorem blockChecks_block (bj : Nat) (b : Block) (bi : Nat) (msgs : List Msg) :
    ((⟨.block, [bi]⟩ : Key), msgs) ∈ blockChecks bj b ↔ bj = bi ∧ msgs = checkEntity b.ent := by
  have hsrc : ((⟨.block, [bi]⟩ : Key), msgs) ∉ sourcesChecks [bj] 0 b.sources := by
    intro h
    have := (sourcesChecks_sound [bj] 0 b.sources _ h).1
    cases this
  unfold blockChecks
  simp only [List.mem_cons, List.mem_append, mem_mapIdx, Nat.zero_add, Prod.mk.injEq, Key.mk.injEq, hsrc, or_false,
    reduceCtorEq, false_and, and_false, exists_false, exists_const, or_false, true_and, List.cons.injEq, and_true]
  constructor
  · rintro ⟨rfl, rfl⟩; exact ⟨rfl, rfl⟩
  · rintro ⟨rfl, rfl⟩; exact ⟨rfl, rfl⟩

theorem not_mem_sections_of_kind (f : File) (k : Key) (msgs : List Msg) (hk : k.kind ≠ .section) :
    (k, msgs) ∉ sectionsChecks [] 0 f.sections := by
  intro h
  exact hk (sectionsChecks_sound [] 0 f.sections _ h).1

/-- an entry with a two-level path and a flat kind is the check of the object at that position -/
theorem allChecks_flat (f : File) (kind : Kind) (bi i : Nat) (msgs : List Msg)
    (hk : kind = .group ∨ kind = .array ∨ kind = .tag ∨ kind = .mtag) :
    ((⟨kind, [bi, i]⟩ : Key), msgs) ∈ allChecks f ↔ ∃ b, f.blocks[bi]? = some b ∧ FlatEntry b kind i msgs := by
  have hsec := not_mem_sections_of_kind f ⟨kind, [bi, i]⟩ msgs (by rcases hk with rfl | rfl | rfl | rfl <;> simp)
  have hfile : ¬ ((⟨kind, [bi, i]⟩ : Key) = ⟨.file, []⟩ ∧ msgs = checkFileObj f) := by
    rintro ⟨h, -⟩; cases h
  unfold allChecks
  simp only [List.mem_cons, List.mem_append, Prod.mk.injEq, hfile, hsec, or_false, false_or, mem_blocksChecks,
    Nat.zero_add]
  constructor
  · rintro ⟨j, b, hj, hm⟩
    obtain ⟨rfl, he⟩ := (blockChecks_flat j b kind bi i msgs hk).mp hm
    exact ⟨b, hj, he⟩
  · rintro ⟨b, hj, he⟩
    exact ⟨bi, b, hj, (blockChecks_flat bi b kind bi i msgs hk).mpr ⟨rfl, he⟩⟩

theorem allChecks_block (f : File) (bi : Nat) (msgs : List Msg) :
    ((⟨.block, [bi]⟩ : Key), msgs) ∈ allChecks f ↔ ∃ b, f.blocks[bi]? = some b ∧ msgs = checkEntity b.ent := by
  have hsec := not_mem_sections_of_kind f ⟨.block, [bi]⟩ msgs (by simp)
  have hfile : ¬ ((⟨.block, [bi]⟩ : Key) = ⟨.file, []⟩ ∧ msgs = checkFileObj f) := by
    rintro ⟨h, -⟩; cases h
  unfold allChecks
  simp only [List.mem_cons, List.mem_append, Prod.mk.injEq, hfile, hsec, or_false, false_or, mem_blocksChecks,
    Nat.zero_add]
  constructor
  · rintro ⟨j, b, hj, hm⟩
    obtain ⟨rfl, he⟩ := (blockChecks_block j b bi msgs).mp hm
    exact ⟨b, hj, he⟩
  · rintro ⟨b, hj, he⟩
    exact ⟨bi, b, hj, (blockChecks_block bi b bi msgs).mpr ⟨rfl, he⟩⟩

end Nix.Validator.Lemmas
