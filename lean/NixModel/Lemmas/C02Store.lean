import NixModel.Lemmas.StoreWFBasic

/-!
# C02 — lemmas over the structural model: reopen, attribute writes, deletions

Everything here is about `Store/Step`'s `run`: the file is the only state, so `reopen` is the
identity; the attribute read after a write is the written value and stays so until the next
write of that attribute; a deleted entity is linked from nowhere in any later state reached by
operations that add no link.
-/
namespace Nix.C02.Lemmas
open Nix.Store Nix.Store.Graph Nix.Store.Lemmas

/-- split every `match` / `if` of a hypothesis -/
macro "crack" h:ident : tactic =>
  `(tactic| ((try dsimp only at $h:ident); repeat' (split at $h:ident)))

/-! ## reopen -/

def isReopen : Op → Bool
  | .reopen => true
  | _ => false

theorem step_reopen (g : Graph) : step g .reopen = g := rfl

theorem run_nil (g : Graph) : run g [] = g := rfl
theorem run_cons (g : Graph) (op : Op) (ops : List Op) : run g (op :: ops) = run (step g op) ops := rfl

theorem run_append (g : Graph) (a b : List Op) : run g (a ++ b) = run (run g a) b := by
  simp [run, List.foldl_append]

theorem step_cases (g : Graph) (op : Op) :
    (∃ g', apply g op = some (.ok g') ∧ step g op = g') ∨ step g op = g := by
  unfold step
  cases h : apply g op with
  | none => right; rfl
  | some r =>
    cases r with
    | error e => right; rfl
    | ok g' => left; exact ⟨g', rfl, rfl⟩

theorem apply_del {g g' : Graph} {o : Path} {c : String} {k : KeyArg}
    (h : apply g (.del o c k) = some (.ok g')) :
    ∃ cont kk, openCont g o c = some cont ∧ resolveKeyArg g k = some kk ∧ contDel g cont kk = .ok g' := by
  simp only [apply] at h
  cases hc : openCont g o c <;> cases hk : resolveKeyArg g k <;> simp [hc, hk] at h
  exact ⟨_, _, rfl, rfl, h⟩

theorem apply_append {g g' : Graph} {o : Path} {c : String} {k : KeyArg}
    (h : apply g (.append o c k) = some (.ok g')) :
    ∃ cont kk, openCont g o c = some cont ∧ resolveKeyArg g k = some kk ∧ contAppend g cont kk = .ok g' := by
  simp only [apply] at h
  cases hc : openCont g o c <;> cases hk : resolveKeyArg g k <;> simp [hc, hk] at h
  exact ⟨_, _, rfl, rfl, h⟩

theorem apply_setAttr {g g' : Graph} {p : Path} {a : String} {v : Option String}
    (h : apply g (.setAttr p a v) = some (.ok g')) : setAttrOp g p a v = .ok g' := by
  simpa [apply] using h

theorem apply_setRole_none {g g' : Graph} {o : Path} {r : String}
    (h : apply g (.setRole o r none) = some (.ok g')) : setRole g o r none = .ok g' := by
  simpa [apply] using h

theorem run_insert_reopen (g : Graph) (h : List Op) (k : Nat) :
    run g (h.take k ++ [.reopen] ++ h.drop k) = run g h := by
  rw [run_append, run_append, run_cons, run_nil, step_reopen, ← run_append, List.take_append_drop]

theorem run_filter_reopen (g : Graph) (h : List Op) :
    run g (h.filter fun o => !isReopen o) = run g h := by
  induction h generalizing g with
  | nil => rfl
  | cons op ops ih =>
    rw [List.filter_cons]
    split
    · rw [run_cons, run_cons, ih]
    · rename_i hr
      have : op = .reopen := by
        cases op <;> simp [isReopen] at hr
        rfl
      subst this
      rw [run_cons, step_reopen, ih]

/-! ## path resolution depends on the links only -/

theorem stepSeg_congr {g g' : Graph} (hl : ∀ k, g'.links k = g.links k) (l : Loc) (s : Seg) :
    stepSeg g' l s = stepSeg g l s := by
  cases s <;> simp [stepSeg, Graph.child?, hl]

theorem resolve_congr {g g' : Graph} (hl : ∀ k, g'.links k = g.links k) (l : Loc) (p : Path) :
    resolve g' l p = resolve g l p := by
  induction p generalizing l with
  | nil => rfl
  | cons s ps ih =>
    simp only [resolve, stepSeg_congr hl]
    cases stepSeg g l s with
    | none => rfl
    | some l' => exact ih l'

/-! ## attribute writes -/

/-- what ends up in the file: `unit = ""` clears the unit, everything else is stored as given -/
def stored (attr : String) (v : Option String) : Option String :=
  if attr == "unit" && v == some "" then none else v

theorem attrAllowed_kind_ne {kind attr : String} (h : attrAllowed kind attr = true) : kind ≠ "" := by
  intro e
  subst e
  unfold attrAllowed at h
  split at h <;> simp at h

theorem node_of_kind {g : Graph} {k : Nat} (h : kindOf g k ≠ "") : (g.node? k).isSome := by
  unfold kindOf at h
  cases hg : g.getAttr k "~kind" with
  | none => simp [hg] at h
  | some s => exact node?_isSome_of_getAttr hg

/-- an accepted attribute write is exactly one `setAttr` on the resolved node -/
theorem setAttrOp_ok {g g' : Graph} {p : Path} {a : String} {v : Option String}
    (h : setAttrOp g p a v = .ok g') :
    ∃ o, resolve g rootLoc p = some o ∧ g' = g.setAttr o.key a (stored a v) ∧ (g.node? o.key).isSome := by
  unfold setAttrOp at h
  cases hr : resolve g rootLoc p with
  | none => simp [hr] at h
  | some o =>
    simp only [hr] at h
    refine ⟨o, rfl, ?_, ?_⟩
    · unfold stored
      split at h
      · cases h
      · split at h
        · cases h
        · split at h
          · rename_i hu
            simp only [hu, ↓reduceIte]
            cases h; rfl
          · rename_i hu
            have : (a == "unit" && v == some "") = false := by simpa using hu
            simp only [this]
            cases h; rfl
    · split at h
      · cases h
      · rename_i hal
        have : attrAllowed (kindOf g o.key) a = true := by simpa using hal
        exact node_of_kind (attrAllowed_kind_ne this)

/-- the value read back, the frame, and the unchanged structure -/
theorem setAttrOp_effect {g g' : Graph} {p : Path} {a : String} {v : Option String}
    (h : setAttrOp g p a v = .ok g') :
    ∃ o, resolve g rootLoc p = some o ∧ resolve g' rootLoc p = some o ∧
      g'.getAttr o.key a = stored a v ∧
      (∀ k b, ¬ (k = o.key ∧ b = a) → g'.getAttr k b = g.getAttr k b) ∧
      (∀ k, g'.links k = g.links k) := by
  obtain ⟨o, hr, hg, hn⟩ := setAttrOp_ok h
  subst hg
  refine ⟨o, hr, ?_, getAttr_setAttr_self g a _ hn, ?_, fun k => links_setAttr g _ _ _ k⟩
  · rw [resolve_congr (fun k => links_setAttr g _ _ _ k)]; exact hr
  · intro k b hne
    rw [getAttr_setAttr]
    simp [hne]

/-! ## operations that write no attribute of an existing entity -/

/-- deletions, unlinking, linking, reopen: no attribute of any object changes -/
def keepsAttrs : Op → Bool
  | .del _ _ _ => true
  | .append _ _ _ => true
  | .reopen => true
  | _ => false

theorem getAttr_h5Delete {g g' : Graph} {grp parent depth : Nat} {lname x : String} {die : Bool}
    (h : h5Delete g grp parent lname depth x die = .ok g') (k : Nat) (a : String) :
    g'.getAttr k a = g.getAttr k a := by
  unfold h5Delete at h
  crack h
  all_goals first
    | (cases h; done)
    | (cases h; simp [getAttr_delLink])

theorem getAttr_contDel {g g' : Graph} {c : Cont} {key : Key} (h : contDel g c key = .ok g')
    (k : Nat) (a : String) : g'.getAttr k a = g.getAttr k a := by
  unfold contDel at h
  crack h
  all_goals first
    | (cases h; done)
    | (cases h; exact getAttr_deleteObjs _ _ _ _)
    | exact getAttr_h5Delete h k a

theorem getAttr_createLinkIn (g : Graph) (grp : Nat) (name : String) (t k : Nat) (a : String) :
    (createLinkIn g grp name t).getAttr k a = g.getAttr k a := by
  unfold createLinkIn
  split <;> simp [getAttr_addLink, getAttr_delLink]

theorem getAttr_contAppend {g g' : Graph} {c : Cont} {key : Key} (h : contAppend g c key = .ok g')
    (k : Nat) (a : String) : g'.getAttr k a = g.getAttr k a := by
  unfold contAppend at h
  crack h
  all_goals first
    | (cases h; done)
    | (cases h; rw [getAttr_createLinkIn, getAttr_ensureGroup])

theorem getAttr_step_keeps (g : Graph) (op : Op) (hop : keepsAttrs op = true) (k : Nat) (a : String) :
    (step g op).getAttr k a = g.getAttr k a := by
  rcases step_cases g op with ⟨g', happ, hst⟩ | hst
  · rw [hst]
    cases op with
    | del o c key =>
      obtain ⟨_, _, _, _, hd⟩ := apply_del happ
      exact getAttr_contDel hd k a
    | append o c key =>
      obtain ⟨_, _, _, _, hd⟩ := apply_append happ
      exact getAttr_contAppend hd k a
    | reopen => simp only [apply, Option.some.injEq, Except.ok.injEq] at happ; rw [happ]
    | _ => cases hop
  · rw [hst]

/-- the operations after which attribute `a` of every object is what it was: the attribute-free
ones and writes of *other* attribute names -/
def leavesAttr (a : String) : Op → Bool
  | .setAttr _ b _ => b != a
  | op => keepsAttrs op

theorem getAttr_step_leaves (g : Graph) (a : String) (op : Op) (hop : leavesAttr a op = true) (k : Nat) :
    (step g op).getAttr k a = g.getAttr k a := by
  cases op with
  | setAttr p b v =>
    simp only [leavesAttr, bne_iff_ne, ne_eq] at hop
    rcases step_cases g (.setAttr p b v) with ⟨g', happ, hst⟩ | hst
    · rw [hst]
      obtain ⟨o, _, _, _, hframe, _⟩ := setAttrOp_effect (apply_setAttr happ)
      exact hframe k a (fun h => hop h.2.symm)
    · rw [hst]
  | _ => exact getAttr_step_keeps g _ (by simpa [leavesAttr] using hop) k a

theorem getAttr_run_leaves (g : Graph) (a : String) (ops : List Op)
    (hops : ∀ op ∈ ops, leavesAttr a op = true) (k : Nat) :
    (run g ops).getAttr k a = g.getAttr k a := by
  induction ops generalizing g with
  | nil => rfl
  | cons op ops ih =>
    rw [run_cons, ih _ (fun o ho => hops o (by simp [ho])), getAttr_step_leaves g a op (hops op (by simp))]

/-! ## deletions -/

def delTarget (g : Graph) (c : Cont) (key : Key) : Except Err Nat :=
  match key with
  | .ent k => .ok k
  | k => (contGet g c k).map (·.2)

/-- containers that own their entries (deleting removes the entity from the file) -/
def isOwning (f : CFlavour) : Bool :=
  match f with
  | .plain | .features | .sections | .sources => true
  | _ => false

theorem bfsKeys_acc (g : Graph) (sub : String) (fuel : Nat) (q : List Nat) (acc : List Nat) (x : Nat)
    (hx : x ∈ acc) : x ∈ bfsKeys g sub fuel q acc := by
  induction fuel generalizing q acc with
  | zero => simpa [bfsKeys] using hx
  | succ n ih =>
    cases q with
    | nil => simpa [bfsKeys] using hx
    | cons k rest =>
      simp only [bfsKeys]
      apply ih
      simp [hx]

theorem subtreeKeys_self (g : Graph) (sub : String) (k : Nat) : k ∈ subtreeKeys g sub k := by
  unfold subtreeKeys
  simp only [bfsKeys]
  apply bfsKeys_acc
  simp

/-- no link to a deleted object survives `delete_all` -/
theorem deleteObjs_unlinked (g : Graph) (ks : List Nat) (k : Nat) (hin : k ∈ ks) (p : Nat) (l : String × Nat)
    (hl : l ∈ (g.deleteObjs ks).links p) : l.2 ≠ k := by
  intro e
  rw [links_deleteObjs] at hl
  have := (List.mem_filter.mp hl).2
  unfold keepObj at this
  rw [e] at this
  simp [hin] at this

/-- what `__delitem__` does once the item is known -/
def delTail (g : Graph) (c : Cont) (k : Nat) : Except Err Graph :=
  if kindOf g k != c.info.item then .error .typeError
  else
    match c.info.flavour with
    | .plain | .features => .ok (g.deleteObjs [k])
    | .sections => .ok (g.deleteObjs (subtreeKeys g "sections" k))
    | .sources => .ok (g.deleteObjs (subtreeKeys g "sources" k ++ [k]))
    | .link | .sourceLink =>
      match c.node, g.entityId k with
      | some cn, some i => h5Delete g cn c.owner.key c.cname (c.owner.depth + 1) i true
      | _, _ => .error .keyError

theorem contDel_eq (g : Graph) (c : Cont) (key : Key) :
    contDel g c key = (delTarget g c key).bind (delTail g c) := by
  cases key with
  | ent k => rfl
  | str x =>
    unfold contDel delTarget
    dsimp only
    generalize contGet g c (.str x) = r
    cases r <;> rfl
  | pos i =>
    unfold contDel delTarget
    dsimp only
    generalize contGet g c (.pos i) = r
    cases r <;> rfl

/-- after `del c[key]` on an owning container no group of the file links the deleted object (whether
or not it carries an `entity_id`: deletion is by object) -/
theorem contDel_unlinked {g g' : Graph} {c : Cont} {key : Key} {k : Nat}
    (hown : isOwning c.info.flavour = true) (ht : delTarget g c key = .ok k)
    (hdel : contDel g c key = .ok g') :
    ∀ p l, l ∈ g'.links p → l.2 ≠ k := by
  rw [contDel_eq, ht] at hdel
  change delTail g c k = .ok g' at hdel
  unfold delTail at hdel
  split at hdel
  · cases hdel
  · cases hf : c.info.flavour <;> simp only [hf, isOwning] at hown hdel <;> try cases hown
    · -- plain
      cases hdel
      exact fun p l hl => deleteObjs_unlinked g _ k (by simp) p l hl
    · -- sections
      cases hdel
      exact fun p l hl => deleteObjs_unlinked g _ k (subtreeKeys_self g _ k) p l hl
    · -- sources
      cases hdel
      exact fun p l hl => deleteObjs_unlinked g _ k (by simp) p l hl
    · -- features
      cases hdel
      exact fun p l hl => deleteObjs_unlinked g _ k (by simp) p l hl

/-- operations that add no link: deletions / unlinking, attribute writes, clearing a role, reopen -/
def addsNoLink : Op → Bool
  | .del _ _ _ => true
  | .setAttr _ _ _ => true
  | .setRole _ _ none => true
  | .reopen => true
  | _ => false

theorem links_h5Delete {g g' : Graph} {grp parent depth : Nat} {lname x : String} {die : Bool}
    (h : h5Delete g grp parent lname depth x die = .ok g') (p : Nat) (l : String × Nat)
    (hl : l ∈ g'.links p) : l ∈ g.links p := by
  unfold h5Delete at h
  crack h
  all_goals first
    | (cases h; done)
    | (cases h; exact (links_delLink_sublist _ _ _ _).subset ((links_delLink_sublist _ _ _ _).subset hl))
    | (cases h; exact (links_delLink_sublist _ _ _ _).subset hl)

theorem links_contDel {g g' : Graph} {c : Cont} {key : Key} (h : contDel g c key = .ok g')
    (p : Nat) (l : String × Nat) (hl : l ∈ g'.links p) : l ∈ g.links p := by
  unfold contDel at h
  crack h
  all_goals first
    | (cases h; done)
    | (cases h; exact (links_deleteObjs_sublist _ _ _).subset hl)
    | exact links_h5Delete h p l hl

theorem links_setRole_none {g g' : Graph} {o : Path} {role : String} (h : setRole g o role none = .ok g')
    (p : Nat) (l : String × Nat) (hl : l ∈ g'.links p) : l ∈ g.links p := by
  unfold setRole at h
  crack h
  all_goals first
    | (cases h; done)
    | (cases h; first | exact hl | exact (links_delLink_sublist _ _ _ _).subset hl)
    | simp_all

theorem links_step_addsNoLink (g : Graph) (op : Op) (hop : addsNoLink op = true) (p : Nat)
    (l : String × Nat) (hl : l ∈ (step g op).links p) : l ∈ g.links p := by
  rcases step_cases g op with ⟨g', happ, hst⟩ | hst
  · rw [hst] at hl
    cases op with
    | del o c key =>
      obtain ⟨_, _, _, _, hd⟩ := apply_del happ
      exact links_contDel hd p l hl
    | setAttr q a v =>
      obtain ⟨_, _, _, _, _, hlinks⟩ := setAttrOp_effect (apply_setAttr happ)
      rw [← hlinks]; exact hl
    | setRole o r t =>
      cases t with
      | some _ => cases hop
      | none => exact links_setRole_none (apply_setRole_none happ) p l hl
    | reopen => simp only [apply, Option.some.injEq, Except.ok.injEq] at happ; rw [happ]; exact hl
    | _ => cases hop
  · rw [hst] at hl; exact hl

theorem links_run_addsNoLink (g : Graph) (ops : List Op) (hops : ∀ op ∈ ops, addsNoLink op = true)
    (p : Nat) (l : String × Nat) (hl : l ∈ (run g ops).links p) : l ∈ g.links p := by
  induction ops generalizing g with
  | nil => exact hl
  | cons op ops ih =>
    rw [run_cons] at hl
    exact links_step_addsNoLink g op (hops op (by simp)) p l
      (ih _ (fun o ho => hops o (by simp [ho])) hl)

end Nix.C02.Lemmas
