import NixModel.Pure.NdRun
import NixModel.Lemmas.C01Append

/-! C01: the definitions compiled from the Python source (`Generated/DataSetShape.lean`) are, for all inputs,
the hand-written model (`Pure/NdStore.lean` over `Pure/NdArray.lean`). -/
namespace Nix.Nd.Lemmas
open Nix Nix.Nd Nix.NdGen Nix.Gen.DataSet

/-! ### Python builtins on shapes -/

theorem pyLen_ofNat (l : List Nat) : pyLen (l.map Int.ofNat) = (l.length : Int) := by simp [pyLen]

theorem dsShapeOf_eq (A : DArr) : dsShapeOf A = A.arr.shape.map Int.ofNat := rfl

theorem dsSetExtent_eq (A : DArr) (e : List Int) : dsSetExtent A e = h5Resize A e := rfl

/-- the shape test of `append`: the list comprehension yields the per-axis inequalities of the axes other than
`axis`, and `any` of it is `shapeMismatch` -/
theorem comp_mismatch (axis : Int) : ∀ (xs ys : List Nat) (i0 : Int),
    ∃ L, compEnumZipFrom i0 (fun i _ _ => decide (i ≠ axis)) (fun _ s ds => .ok (decide (s ≠ ds)))
        (xs.map Int.ofNat) (ys.map Int.ofNat) = (.ok L : Except IoErr (List Bool)) ∧
      pyAny L = shapeMismatch (axis - i0) xs ys
  | [], _, _ => ⟨[], by simp [compEnumZipFrom], by simp [pyAny, shapeMismatch]⟩
  | _ :: _, [], _ => ⟨[], by simp [compEnumZipFrom], by simp [pyAny, shapeMismatch]⟩
  | x :: xs, y :: ys, i0 => by
    obtain ⟨L, hL, hany⟩ := comp_mismatch axis xs ys (i0 + 1)
    have hrel : axis - (i0 + 1) = axis - i0 - 1 := by omega
    by_cases hc : i0 = axis
    · subst hc
      refine ⟨L, ?_, ?_⟩
      · rw [List.map_cons, List.map_cons, compEnumZipFrom]
        simp only [ne_eq, not_true_eq_false, decide_false, Bool.false_eq_true, if_false]
        exact hL
      · rw [hany, hrel]
        simp [shapeMismatch]
    · refine ⟨decide ((x : Int) ≠ (y : Int)) :: L, ?_, ?_⟩
      · rw [List.map_cons, List.map_cons, compEnumZipFrom]
        simp only [ne_eq, hc, not_false_eq_true, decide_true, if_true, hL]
        rfl
      · have h0 : axis - i0 ≠ 0 := by omega
        simp only [pyAny, hany, hrel, shapeMismatch, ne_eq, h0, not_false_eq_true, decide_true, Bool.true_and]
        congr 1
        simp [Int.ofNat_inj]

/-- `offset = tuple(0 if i != axis else x for i, x in enumerate(self.shape))` -/
theorem comp_offset (axis : Int) : ∀ (xs : List Nat) (i0 : Int),
    compEnumFrom i0 (fun _ _ => true) (fun i x => .ok (if decide (i ≠ axis) then 0 else x)) (xs.map Int.ofNat)
      = (.ok ((appendOffset (axis - i0) xs).map Int.ofNat) : Except IoErr (List Int))
  | [], _ => by simp [compEnumFrom, appendOffset]
  | x :: xs, i0 => by
    have hrel : axis - (i0 + 1) = axis - i0 - 1 := by omega
    simp only [List.map_cons, compEnumFrom, if_true, comp_offset axis xs (i0 + 1), hrel, appendOffset]
    by_cases hc : i0 = axis
    · have : axis - i0 = 0 := by omega
      simp [hc, this]
    · have : axis - i0 ≠ 0 := by omega
      simp [hc, this]

theorem pyGetItem_append (pre : List Nat) (s : Nat) (ss : List Nat) :
    pyGetItem ((pre ++ s :: ss).map Int.ofNat) (pre.length : Int) = .ok (s : Int) := by
  unfold pyGetItem
  have h1 : ¬ ((pre.length : Int) < 0) := by omega
  simp only [h1, if_false, Int.toNat_natCast]
  simp

/-- `enlarge = tuple(self.shape[i] + (0 if i != axis else x) for i, x in enumerate(data.shape))`, ranks equal -/
theorem comp_enlarge (axis : Int) : ∀ (pre ss ds : List Nat), ss.length = ds.length →
    compEnumFrom (pre.length : Int) (fun _ _ => true)
        (fun i x => (pyGetItem ((pre ++ ss).map Int.ofNat) i).bind fun t =>
          .ok (t + (if decide (i ≠ axis) then 0 else x))) (ds.map Int.ofNat)
      = (.ok ((appendEnlarge (axis - (pre.length : Int)) ss ds).map Int.ofNat) : Except IoErr (List Int))
  | _, [], [], _ => by simp [compEnumFrom, appendEnlarge]
  | _, [], _ :: _, h => by simp at h
  | _, _ :: _, [], h => by simp at h
  | pre, s :: ss, d :: ds, h => by
    simp only [List.length_cons, Nat.add_right_cancel_iff] at h
    have ih := comp_enlarge axis (pre ++ [s]) ss ds h
    have hlen : ((pre ++ [s]).length : Int) = (pre.length : Int) + 1 := by simp
    have happ : pre ++ [s] ++ ss = pre ++ s :: ss := by simp
    rw [hlen, happ] at ih
    have hrel : axis - ((pre.length : Int) + 1) = axis - (pre.length : Int) - 1 := by omega
    rw [List.map_cons, compEnumFrom, ih]
    simp only [if_true, pyGetItem_append, Except.bind, hrel]
    rw [appendEnlarge]
    by_cases hc : (pre.length : Int) = axis
    · have : axis - (pre.length : Int) = 0 := by omega
      simp [hc, this]
    · have : axis - (pre.length : Int) ≠ 0 := by omega
      simp [hc, this]

/-- `slc = tuple(slice(o, c + o) for o, c in zip(offset, count))` -/
theorem comp_slices : ∀ (os cs : List Nat),
    compZip (fun _ _ => true) (fun o c => .ok (pySlice2 o (c + o))) (os.map Int.ofNat) (cs.map Int.ofNat)
      = (.ok ((appendSlices os cs).map .ix) : Except IoErr (List IxE))
  | [], _ => by simp [compZip, appendSlices]
  | _ :: _, [] => by simp [compZip, appendSlices]
  | o :: os, c :: cs => by
    rw [List.map_cons, List.map_cons, compZip]
    simp only [if_true, comp_slices os cs, appendSlices, List.map_cons]
    rfl

/-! ### the compiled methods are the model -/

theorem h5WriteData_eq (A : DArr) (d : Arr) (slc : IndexArg) : h5WriteData A d slc = writeData A d slc := by
  cases slc <;> rfl

theorem dsSetItem_eq (A : DArr) (ix : IndexArg) (d : Arr) : dsSetItem A ix d = writeData A d ix :=
  h5WriteData_eq A d ix

theorem dsWriteDirect_eq (A : DArr) (d : Arr) : dsWriteDirect A d = writeData A d .none :=
  h5WriteData_eq A d .none

theorem ndShape_len_zero (d : NdArray Elem) : (pyLen (ndShape d) ≠ 0) ↔ d.shape ≠ [] := by
  simp [pyLen, ndShape]

/-- the tail of the read path: h5py's ValueError / TypeError become IndexError, a 0-d result gets shape (1,) -/
theorem read_post (x : Except IoErr (NdArray Elem)) :
    (match pyCatchMap x [(IoErr.err .valueError, IoErr.err .indexError),
        (IoErr.err .typeError, IoErr.err .indexError)] with
      | Except.error e => (Except.error e : Except IoErr (NdArray Elem))
      | Except.ok data =>
        Except.ok (if (!decide (pyLen (ndShape data) ≠ 0)) = true then npSetShape1 data else data)) =
    (match x with
      | Except.ok r => (Except.ok (if r.shape = [] then ⟨[1], fun _ => r.get []⟩ else r) :
          Except IoErr (NdArray Elem))
      | Except.error e =>
        if e = IoErr.err .valueError ∨ e = IoErr.err .typeError then Except.error (IoErr.err .indexError)
        else Except.error e) := by
  cases x with
  | ok r =>
    simp only [pyCatchMap]
    by_cases hr : r.shape = []
    · simp [hr, pyLen, ndShape, npSetShape1]
    · have : ¬ (pyLen (ndShape r) = 0) := (ndShape_len_zero r).mpr hr
      simp [hr, this]
  | error e =>
    cases e with
    | osError => simp [pyCatchMap, List.find?]
    | err e => cases e <;> simp [pyCatchMap, List.find?]

theorem dsGetItem_eq (A : DArr) (ix : IndexArg) : dsGetItem A ix = readData A ix := by
  unfold dsGetItem daReadData dsReadData h5ReadData readData
  cases ix with
  | none => exact read_post _
  | one i => exact read_post _
  | tuple l => exact read_post _

theorem dsArray_eq (A : DArr) : dsArray A = readData A .none := dsGetItem_eq A .none

theorem dsReadDirect_eq (A : DArr) : dsReadDirect A = readData A .none := dsGetItem_eq A .none

theorem dsLen_eq (A : DArr) : dsLen A = lenS A := by
  unfold dsLen lenS
  rw [dsShapeOf_eq]
  cases A.arr.shape with
  | nil => rfl
  | cons n ns => rfl

theorem npProd_ofNat : ∀ l : List Nat, npProd (l.map Int.ofNat) = (Nix.Nd.sizeOf l : Int)
  | [] => rfl
  | x :: xs => by simp [npProd, Nix.Nd.sizeOf, npProd_ofNat xs]

theorem dsSize_eq (A : DArr) : dsSize A = sizeS A := by
  unfold dsSize sizeS
  rw [dsShapeOf_eq, npProd_ofNat]

/-- `DataSet.append` as compiled from the source is `appendS`: same checks in the same order, same offset /
enlarge / hyperslab, same restore-on-failure -/
theorem dsAppend_eq (A : DArr) (d : Arr) (axis : Int) : dsAppend A d axis = appendS A d axis := by
  unfold dsAppend appendS
  simp only [dsShapeOf_eq, dsSetExtent_eq, npAscontiguousarray, arrShape, pyLen_ofNat]
  by_cases hl : A.arr.shape.length = (contiguous d.a).shape.length
  · have hl' : ¬ ((A.arr.shape.length : Int) ≠ ((contiguous d.a).shape.length : Int)) := by simp [hl]
    simp only [hl', decide_false, Bool.false_eq_true, if_false, hl, ne_eq, not_true_eq_false]
    by_cases hax : 0 ≤ axis ∧ axis < ((contiguous d.a).shape.length : Int)
    · simp only [hax.1, hax.2, decide_true, Bool.and_self, Bool.not_true, Bool.false_eq_true, if_false,
        and_self, not_true_eq_false]
      obtain ⟨L, hL, hany⟩ := comp_mismatch axis A.arr.shape (contiguous d.a).shape 0
      simp only [compEnumZip, hL, pyBind, hany, Int.sub_zero]
      cases hm : shapeMismatch axis A.arr.shape (contiguous d.a).shape with
      | true => simp [pyRaise]
      | false =>
        simp only [Bool.false_eq_true, if_false]
        have hoff := comp_offset axis A.arr.shape 0
        have henl := comp_enlarge axis [] A.arr.shape (contiguous d.a).shape hl
        simp only [List.length_nil, Int.natCast_zero, Int.sub_zero, List.nil_append] at hoff henl
        simp only [compEnum, hoff, henl, pyBind, h5Resize]
        cases hse : setExtent A ((appendEnlarge axis A.arr.shape (contiguous d.a).shape).map Int.ofNat) with
        | error e => simp [pyThen]
        | ok A1 =>
          simp only [pyThen, comp_slices, pyBind, dsWriteData, h5WriteData_eq]
          cases hw : writeData A1 ⟨d.dt, contiguous d.a⟩
              (.tuple ((appendSlices (appendOffset axis A.arr.shape) (contiguous d.a).shape).map .ix)) with
          | ok B => simp [pyTryReraise]
          | error e =>
            simp only [pyTryReraise, anyException, if_true]
            cases setExtent A1 (A.arr.shape.map Int.ofNat) with
            | ok A2 => simp [pyDone]
            | error e2 => simp
    · have hax' : (decide (0 ≤ axis) && decide (axis < ((contiguous d.a).shape.length : Int))) = false := by
        by_cases h0 : 0 ≤ axis
        · have : ¬ axis < ((contiguous d.a).shape.length : Int) := fun h => hax ⟨h0, h⟩
          simp [this]
        · simp [h0]
      simp [hax', hax, pyRaise]
  · have hl' : (A.arr.shape.length : Int) ≠ ((contiguous d.a).shape.length : Int) := by
      intro h; exact hl (by exact_mod_cast h)
    simp [hl', hl, pyRaise]

theorem dsSetExtent_h5 (A : DArr) (e : List Int) : dsSetExtent A e = h5Resize A e := rfl

/-- the steps the driver executes (through the compiled definitions) are the steps of the model -/
theorem stepGen_eq (A : DArr) (s : TStep) : stepGen A s = stepS A s := by
  cases s with
  | write d => simp only [stepGen, stepS, dsWriteDirect_eq]
  | assign ix d => simp only [stepGen, stepS, dsSetItem_eq]
  | append d axis => exact dsAppend_eq A d axis
  | resize e => rfl
  | reopen => rfl

end Nix.Nd.Lemmas
