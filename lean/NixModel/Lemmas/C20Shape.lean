import NixModel.Lemmas.C20Spec
import NixModel.Generated.CopyShape

/-!
# C20 — the copy code *as generated from the source* is the hand-written model

`Store/CopyShape.lean` interprets the shape of `H5Group.copy` and of the entry points that
`harness/extract/copyshape.py` reads from the source. Here: for all arguments the interpretation of
the generated `Gen.h5GroupCopy` is `h5Copy` (`h5CopyBy_gen`), and an entry point whose generated
shape satisfies `ShapeOk` is `copyGeneric` (+ the re-adding loop for shallow section copies)
(`callerBy_generic`). `Gen.all_ok` checks `ShapeOk` for the eight generated entry points.
-/
namespace Nix.Store.C20
open Nix.Store Nix.Store.Graph Nix.Store.Lemmas Nix.Store.CopyShape

theorem regenWhere_hasId (g : Graph) (ks : List Nat) :
    regenWhere [(.hasEntityId, true)] g ks = regenIds g ks := by
  induction ks generalizing g with
  | nil => rfl
  | cons k ks ih =>
    cases h : g.entityId k with
    | none =>
      rw [regenIds_cons_none h, ← ih]
      simp [regenWhere, guardsHold, condHolds, h]
    | some i =>
      rw [regenIds_cons_some h, ← ih]
      simp [regenWhere, guardsHold, condHolds, h, giveFreshId]

theorem nodeKind_of_nkind {g : Graph} {k : Nat} {kd : NKind} (h : nkind g k = some kd) : nodeKind g k = kd := by
  unfold nkind at h
  unfold nodeKind
  cases hn : g.node? k with
  | none => rw [hn] at h; cases h
  | some n => rw [hn] at h; simpa using h

theorem nkind_freshId (g : Graph) (k : Nat) : nkind (g.freshId).1 k = nkind g k := rfl

theorem nkind_giveFreshId (g : Graph) (k k' : Nat) : nkind (giveFreshId g k) k' = nkind g k' := by
  unfold giveFreshId
  rw [nkind_setAttr, nkind_freshId]

/-- a node without links reaches only itself -/
theorem reachFrom_leaf (g : Graph) (k : Nat) (h : g.links k = []) : reachFrom g k = [k] := by
  unfold reachFrom
  generalize g.nodes.length * (g.nodes.length + 1) + _ = f
  show reachAux g (f + 1 + 1) [k] [] = [k]
  simp [reachAux, h]

theorem copySet_leaf (src : Graph) (k : Nat) (shallow : Bool) (h : src.links k = []) : copySet src k shallow = [k] := by
  unfold copySet
  cases shallow
  · simp only [Bool.false_eq_true, ↓reduceIte]; exact reachFrom_leaf src k h
  · simp [h, List.eraseDups_cons]

/-- the copied set starts with the source -/
theorem copySet_head (src : Graph) (k : Nat) (shallow : Bool) :
    ∃ rest, copySet src k shallow = k :: rest := by
  unfold copySet
  cases shallow
  · simp only [Bool.false_eq_true, ↓reduceIte]
    have := reachFrom_head src k
    cases hr : reachFrom src k with
    | nil => rw [hr] at this; cases this
    | cons a rest => rw [hr] at this; simp only [List.head?_cons, Option.some.injEq] at this; exact ⟨rest, by rw [this]⟩
  · simp only [↓reduceIte]
    rw [List.eraseDups_cons]
    exact ⟨_, rfl⟩

theorem copySet_self_mem (src : Graph) (k : Nat) (shallow : Bool) : k ∈ copySet src k shallow := by
  obtain ⟨rest, h⟩ := copySet_head src k shallow
  rw [h]; exact List.mem_cons_self

/-- `H5Group.copy` as the source is written now (`Gen.h5GroupCopy`) is the model `h5Copy`: for every
source graph and source object that carries an id (every entity does) and, when it is a dataset (a
Property), has no members; every destination file, container, name, depth and id policy -/
theorem h5CopyBy_gen {src dst : Graph} (hdst : FileOk dst) (obj owner : Nat) (cls name : String)
    (shallow keepId : Bool) (hid : src.entityId obj ≠ none)
    (hleaf : nodeKind src obj ≠ .group → src.links obj = []) :
    h5CopyBy Gen.h5GroupCopy src dst obj owner cls name shallow keepId =
      h5Copy src dst obj owner cls name shallow keepId := by
  rw [h5Copy_eq]
  have hd : DestOk (dst.ensureGroup owner cls).1 (dst.ensureGroup owner cls).2 := destOk_dest hdst owner cls
  have hform : h5CopyBy Gen.h5GroupCopy src dst obj owner cls name shallow keepId =
      (if keepId then coreD3 src (dst.ensureGroup owner cls).1 (dst.ensureGroup owner cls).2 obj name
            (copySet src obj shallow) (emptiedSet src obj shallow)
        else regenBy { rootFresh := true, visits := true, visitOnlyGroupRoot := true, guards := [(.hasEntityId, true)] }
          (coreD3 src (dst.ensureGroup owner cls).1 (dst.ensureGroup owner cls).2 obj name
            (copySet src obj shallow) (emptiedSet src obj shallow))
          (mapKey (keyMap (copySet src obj shallow) (dst.ensureGroup owner cls).1.nextKey) obj)
          (((copySet src obj shallow).map
            (mapKey (keyMap (copySet src obj shallow) (dst.ensureGroup owner cls).1.nextKey))).tail),
       mapKey (keyMap (copySet src obj shallow) (dst.ensureGroup owner cls).1.nextKey) obj) := by
    unfold h5CopyBy Gen.h5GroupCopy coreD3 copySet emptiedSet
    cases keepId <;> rfl
  rw [hform, h5CopyCore_eq]
  cases keepId
  · simp only [Bool.false_eq_true, ↓reduceIte]
    congr 1
    obtain ⟨rest, hks⟩ := copySet_head src obj shallow
    have hself := copySet_self_mem src obj shallow
    generalize hD : coreD3 src (dst.ensureGroup owner cls).1 (dst.ensureGroup owner cls).2 obj name
            (copySet src obj shallow) (emptiedSet src obj shallow) = D3
    have hidD : ∃ i, D3.entityId (mapKey (keyMap (copySet src obj shallow) (dst.ensureGroup owner cls).1.nextKey) obj)
        = some i := by
      rw [← hD]
      unfold Graph.entityId
      rw [D3_getAttr_new hd hself hself, if_neg (by simp)]
      cases h : src.getAttr obj "entity_id" with
      | none => exact absurd h hid
      | some i => exact ⟨i, rfl⟩
    have hkind : nkind D3 (mapKey (keyMap (copySet src obj shallow) (dst.ensureGroup owner cls).1.nextKey) obj) =
        some (nodeKind src obj) := by
      rw [← hD]; exact D3_nkind_new hd hself
    obtain ⟨i, hi⟩ := hidD
    have hmap : (copySet src obj shallow).map
        (mapKey (keyMap (copySet src obj shallow) (dst.ensureGroup owner cls).1.nextKey)) =
        mapKey (keyMap (copySet src obj shallow) (dst.ensureGroup owner cls).1.nextKey) obj ::
          ((copySet src obj shallow).map
            (mapKey (keyMap (copySet src obj shallow) (dst.ensureGroup owner cls).1.nextKey))).tail := by
      conv => lhs; arg 2; rw [hks]
      conv => rhs; arg 2; arg 1; arg 2; rw [hks]
      rfl
    rw [hmap, regenIds_cons_some hi]
    simp only [List.tail_cons]
    unfold regenBy
    simp only [↓reduceIte, Bool.not_true, Bool.false_or, Bool.true_and]
    have hk2 := nodeKind_of_nkind ((nkind_giveFreshId D3
      (mapKey (keyMap (copySet src obj shallow) (dst.ensureGroup owner cls).1.nextKey) obj)
      (mapKey (keyMap (copySet src obj shallow) (dst.ensureGroup owner cls).1.nextKey) obj)).trans hkind)
    by_cases hg : nodeKind src obj = .group
    · have : (nodeKind (giveFreshId D3 (mapKey (keyMap (copySet src obj shallow) (dst.ensureGroup owner cls).1.nextKey) obj))
          (mapKey (keyMap (copySet src obj shallow) (dst.ensureGroup owner cls).1.nextKey) obj) == NKind.group) = true := by
        rw [hk2, hg]; rfl
      rw [if_pos this, regenWhere_hasId]; rfl
    · have : (nodeKind (giveFreshId D3 (mapKey (keyMap (copySet src obj shallow) (dst.ensureGroup owner cls).1.nextKey) obj))
          (mapKey (keyMap (copySet src obj shallow) (dst.ensureGroup owner cls).1.nextKey) obj) == NKind.group) = false := by
        rw [hk2]; cases h : nodeKind src obj
        · exact absurd h hg
        · rfl
      rw [this]
      simp only [Bool.false_eq_true, ↓reduceIte]
      rw [copySet_leaf src obj shallow (hleaf hg)]
      rfl
  · rfl

/-! ## entry points -/

/-- what the theorems of `Props/C20.lean` need of an entry point's shape -/
def ShapeOk (sh : CallerShape) : Bool :=
  sh.defaultsName && sh.dupGroup == sh.cls && sh.cls != "" && sh.forwardsKeepId && sh.returnsByName &&
  (sh.readdsProps == (sh.depth == .notChildren))

/-- an entry point with an acceptable shape is: `TypeError` for a source of another kind, else the
generic routine (`copyGeneric`: default name, open the destination container, refuse an existing
name, `H5Group.copy`) followed — for `children=False` of `copy_section` — by re-adding the properties -/
theorem callerBy_generic {src dst : Graph} (hdst : FileOk dst) (sh : CallerShape) (hok : ShapeOk sh = true)
    (owner obj : Nat) (name : String) (children keepId : Bool) (ho : owner ∈ keys dst)
    (hk : kindOf src obj = sh.srcKind) (hid : src.entityId obj ≠ none)
    (hleaf : nodeKind src obj ≠ .group → src.links obj = []) :
    callerBy Gen.h5GroupCopy sh src dst owner obj name children keepId =
      match copyGeneric src dst owner sh.cls obj name (shallowOf sh children) keepId with
      | .error e => .error e
      | .ok (d1, root) =>
        if sh.readdsProps && !children then
          (readdProps src keepId (propsOf src obj) d1 root).map fun d => (d, root)
        else .ok (d1, root) := by
  unfold ShapeOk at hok
  simp only [Bool.and_eq_true, beq_iff_eq, bne_iff_ne, ne_eq] at hok
  obtain ⟨⟨⟨⟨⟨h1, h2⟩, h3⟩, h4⟩, h5⟩, h6⟩ := hok
  have hfo : FileOk (dst.ensureGroup owner sh.cls).1 := fileOk_ensureGroup hdst sh.cls ho
  unfold callerBy copyGeneric
  rw [hk, h1, h2, h4]
  have hne : (sh.cls == "") = false := by simpa using h3
  have hne' : (sh.cls != "") = true := by simpa using h3
  simp only [bne_self_eq_false, Bool.false_eq_true, ↓reduceIte, Bool.true_and, hne, hne']
  have hname : (if (name == "") = true then (src.getAttr obj "name").getD "" else name) = effName src obj name := rfl
  rw [hname]
  unfold destG destC
  by_cases hdup : (dst.ensureGroup owner sh.cls).1.hasChild (dst.ensureGroup owner sh.cls).2 (effName src obj name) = true
  · simp only [hdup, ↓reduceIte]
  · simp only [hdup, Bool.false_eq_true, ↓reduceIte]
    rw [h5CopyBy_gen hfo obj owner sh.cls _ _ keepId hid hleaf,
      h5Copy_after_ensure src dst obj owner sh.cls _ _ keepId ho]
    rfl

theorem Gen.all_ok :
    ShapeOk Gen.fileCreateBlock = true ∧ ShapeOk Gen.blockCreateDataArray = true ∧
    ShapeOk Gen.blockCreateDataFrame = true ∧ ShapeOk Gen.blockCreateTag = true ∧
    ShapeOk Gen.blockCreateMultiTag = true ∧ ShapeOk Gen.sectionCreateProperty = true ∧
    ShapeOk Gen.fileCopySection = true ∧ ShapeOk Gen.sectionCopySection = true := by decide

end Nix.Store.C20
