import NixModel.Lemmas.C18Repeat

/-! any number of interruptions -/
namespace Nix.Upgrade.Lemmas
open Nix.Upgrade

/-- invocations `r, r+1, …` of the upgrade, the `i`-th interrupted before its `kᵢ`-th step -/
def runHistory (lib : List Nat) : Nat → File → List Nat → File × Option Err
  | _, f, [] => (f, none)
  | r, f, k :: ks =>
    match interrupt lib r k f with
    | (g, none) => runHistory lib (r + 1) g ks
    | (g, some e) => (g, some e)

theorem interrupt_wf {lib : List Nat} {r k : Nat} {f g : File} (hwf : WF f)
    (h : interrupt lib r k f = (g, none)) : WF g :=
  (collect_after_prefix k hwf h).1

theorem upgrade_erase_congr {lib : List Nat} (r r' : Nat) (f : File) :
    (upgrade lib r f).1.erase = (upgrade lib r' f).1.erase ∧ (upgrade lib r f).2 = (upgrade lib r' f).2 := by
  have h1 := upgrade_erase lib r f
  have h2 := upgrade_erase lib r' f
  rw [h1] at h2
  exact ⟨(Prod.mk.inj h2).1, (Prod.mk.inj h2).2⟩

theorem history_resume {lib : List Nat} {r2 r3 : Nat} : ∀ (ks : List Nat) (r : Nat) {f g : File}, WF f →
    runHistory lib r f ks = (g, none) →
    (upgrade lib r2 g).1.erase = (upgrade lib r3 f).1.erase ∧ (upgrade lib r2 g).2 = (upgrade lib r3 f).2 := by
  intro ks
  induction ks with
  | nil =>
    intro r f g _ h
    simp only [runHistory, Prod.mk.injEq, and_true] at h
    subst h
    exact upgrade_erase_congr r2 r3 f
  | cons k ks ih =>
    intro r f g hwf h
    simp only [runHistory] at h
    cases hi : interrupt lib r k f with
    | mk g1 e =>
      cases e with
      | some e => rw [hi] at h; simp at h
      | none =>
        rw [hi] at h
        simp only at h
        have hwf1 := interrupt_wf hwf hi
        obtain ⟨h1, h2⟩ := ih (r + 1) hwf1 h
        have hres := resume_erase (lib := lib) (r1 := r) (r2 := r3) (r3 := r3) k hwf (by rw [hi])
        rw [hi] at hres
        exact ⟨h1.trans hres.1, h2.trans hres.2⟩

/-- a prefix of a successful run is successful -/
theorem prefix_ok {lib : List Nat} {r : Nat} {f : File} (k : Nat) (hok : (upgrade lib r f).2 = none) :
    (interrupt lib r k f).2 = none := by
  unfold upgrade at hok
  unfold interrupt
  rw [← List.take_append_drop k (collect lib f), runSteps_append] at hok
  cases hp : runSteps lib r f ((collect lib f).take k) with
  | mk g e =>
    cases e with
    | none => rfl
    | some e => rw [hp] at hok; simp at hok

end Nix.Upgrade.Lemmas
