import NixModel.Lemmas.UnitsSound

/-!
Helper lemmas for C09: the fuel parameters of the model are never exhausted.  Python's `str.replace` and the
`while` loop of `split_compound` have no bound; the model gives them `length + 1` steps.  For ALL inputs any
larger amount of fuel gives the same result, so the `fuel = 0` exits of the model are artefacts that no input
reaches.  (For `sanitizer`'s fix-point loop this is `replaceFix_clean`, for `is_compound` it follows from
`isCompound_iff`.)
-/
namespace Nix.Units.Lemmas
open Nix.Units Nix.Units.Gen Nix.Units.Compound

theorem replaceFuel_irrel (old new : Str) : ∀ (n m : Nat) (s : Str), s.length < n → s.length < m →
    replaceFuel n old new s = replaceFuel m old new s := by
  intro n
  induction n with
  | zero => intro m s h; omega
  | succ k ih =>
    intro m s hn hm
    obtain ⟨j, rfl⟩ : ∃ j, m = j + 1 := ⟨m - 1, by omega⟩
    cases s with
    | nil => simp [replaceFuel]
    | cons c cs =>
      simp only [List.length_cons] at hn hm
      simp only [replaceFuel]
      split
      · rename_i hp
        simp only [Bool.and_eq_true, Bool.not_eq_true', List.isEmpty_eq_false_iff] at hp
        have hlen : ((c :: cs).drop old.length).length ≤ cs.length := by
          have : 0 < old.length := List.length_pos_iff.mpr hp.2
          simp only [List.length_drop, List.length_cons]
          omega
        rw [ih j _ (by omega) (by omega)]
      · rw [ih j cs (by omega) (by omega)]

/-- `str.replace` in the model does not depend on the fuel it is given -/
theorem replace_fuel (old new s : Str) (n : Nat) (h : s.length < n) :
    replaceFuel n old new s = replace old new s :=
  replaceFuel_irrel old new n (s.length + 1) s h (by omega)

theorem matchAtom_rest_le (s : Str) (m : M) (h : matchAtom s = some m) : m.rest.length ≤ s.length := by
  have hsh : compoundSplitShape = { pieces := [.optPre, .unit, .optPow], endAnchor := false } := rfl
  have hlook : compoundSplitLookahead = true := rfl
  unfold matchAtom at h
  rw [hsh, hlook] at h
  simp only [Bool.false_eq_true, ↓reduceIte] at h
  obtain ⟨hmem, _⟩ := List.mem_filter.mp (List.mem_of_mem_head? h)
  have := matchPieces_split _ _ m hmem
  have hl : (m.matched ++ m.rest).length = s.length := by rw [this]; simp
  simp only [List.length_append] at hl
  omega

/-- the loop of `split_compound` in the model does not depend on the fuel it is given (for every input) -/
theorem splitCompoundLoop_irrel : ∀ (n m : Nat) (s : Str) (sep : Char) (acc : List Str),
    s.length < n → s.length < m →
    Compound.splitCompoundLoop n s sep acc = Compound.splitCompoundLoop m s sep acc := by
  intro n
  induction n with
  | zero => intro m s sep acc h; omega
  | succ k ih =>
    intro m s sep acc hn hm
    obtain ⟨j, rfl⟩ : ∃ j, m = j + 1 := ⟨m - 1, by omega⟩
    simp only [Compound.splitCompoundLoop]
    cases hma : matchAtom s with
    | none => rfl
    | some mm =>
      simp only
      split
      · rfl
      · have hrest := matchAtom_rest_le s mm hma
        have hrep : compoundSplitReplace = ([' '], []) := rfl
        rw [hrep]
        have hle : (replace [' '] [] mm.rest).length ≤ mm.rest.length :=
          replaceFuel_length_le [' '] [] (by simp) _ _
        cases hsuf : replace [' '] [] mm.rest with
        | nil => rfl
        | cons sp tl =>
          rw [hsuf] at hle
          simp only [List.length_cons] at hle
          exact ih j tl sp _ (by omega) (by omega)

theorem splitCompound_fuel (s : Str) (n : Nat) (h : s.length < n) :
    Compound.splitCompoundLoop n s ' ' [] = Compound.splitCompound s :=
  splitCompoundLoop_irrel n (s.length + 1) s ' ' [] h (by omega)

end Nix.Units.Lemmas
