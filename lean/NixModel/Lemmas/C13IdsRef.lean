import NixModel.Lemmas.C13Supplied
import NixModel.Lemmas.C13File
import NixModel.Pure.TreeIdsRef

/-!
# C13 — referring scans on id texts = referring scans on keys, when the ids met do not repeat
-/

namespace Nix.Tree.Ids
open Nix.Tree Nix.Tree.Shape

/-- the sections the metadata links stored in the file point to -/
def mdTargets (f : File) : List Nat :=
  f.blocks.flatMap fun b =>
    b.md.toList ++ b.holders.flatMap (fun h => h.md.toList) ++ (nodesL b.sources).flatMap (fun s => s.md.toList)

/-- different entities among `ks`, different id texts (uuid4 freshness + the caller's ids pairwise different) -/
def TextsInjOn (texts : Nat → String) (ks : List Nat) : Prop := ∀ a ∈ ks, ∀ b ∈ ks, texts a = texts b → a = b

theorem mdMatchK_eq {texts : Nat → String} {ks : List Nat} (inj : TextsInjOn texts ks) (f : File) (kb : KeyBy)
    {md : Option Nat} (hm : ∀ t, md = some t → t ∈ ks) {k : Nat} (hk : k ∈ ks) :
    mdMatchK texts f kb md k = mdMatch f kb md k := by
  cases kb with
  | name => rfl
  | id =>
    cases md with
    | none => rfl
    | some t => exact beq_texts (inj t (hm t rfl) k hk)
  | obj =>
    cases md with
    | none => rfl
    | some t => exact beq_texts (inj t (hm t rfl) k hk)

theorem flatMap_congr' {α β : Type} {l : List α} {g h : α → List β} (e : ∀ a ∈ l, g a = h a) :
    l.flatMap g = l.flatMap h := by
  induction l with
  | nil => rfl
  | cons x xs ih =>
    simp only [List.flatMap_cons, e x (List.mem_cons_self ..), ih (fun a ha => e a (List.mem_cons_of_mem _ ha))]

theorem filter_congr' {α : Type} {l : List α} {p q : α → Bool} (e : ∀ a ∈ l, p a = q a) :
    l.filter p = l.filter q := by
  induction l with
  | nil => rfl
  | cons x xs ih =>
    simp only [List.filter_cons, e x (List.mem_cons_self ..), ih (fun a ha => e a (List.mem_cons_of_mem _ ha))]

theorem md_block_mem {f : File} {b : Block} (hb : b ∈ f.blocks) {t : Nat} (h : b.md = some t) : t ∈ mdTargets f :=
  List.mem_flatMap.mpr ⟨b, hb, by simp [h]⟩

theorem md_holder_mem {f : File} {b : Block} (hb : b ∈ f.blocks) {x : Holder} (hx : x ∈ b.holders) {t : Nat}
    (h : x.md = some t) : t ∈ mdTargets f :=
  List.mem_flatMap.mpr ⟨b, hb, by
    simp only [List.mem_append, List.mem_flatMap]
    exact .inl (.inr ⟨x, hx, by simp [h]⟩)⟩

theorem md_source_mem {f : File} {b : Block} (hb : b ∈ f.blocks) {x : Node} (hx : x ∈ nodesL b.sources) {t : Nat}
    (h : x.md = some t) : t ∈ mdTargets f :=
  List.mem_flatMap.mpr ⟨b, hb, by
    simp only [List.mem_append, List.mem_flatMap]
    exact .inr ⟨x, hx, by simp [h]⟩⟩

theorem find_all_subset {ms : List Node} {x : Node} (h : x ∈ findFrom (.top ms) (fun _ => true) none) :
    x ∈ nodesL ms := by
  rw [findFrom_none, findFrom_some] at h
  exact levels_subset _ _ (List.mem_filter.mp h).1

theorem refScanT_eq {texts : Nat → String} (f : File) (k : Nat) (inj : TextsInjOn texts (k :: mdTargets f))
    (sc : Scan) : refScanT texts f sc k = refScan f sc k := by
  have hk : k ∈ k :: mdTargets f := List.mem_cons_self ..
  have tl : ∀ {t}, t ∈ mdTargets f → t ∈ k :: mdTargets f := fun h => List.mem_cons_of_mem _ h
  obtain ⟨scope, kb⟩ := sc
  cases scope with
  | blocks =>
    simp only [refScanT, refScan]
    rw [filter_congr' fun b hb => mdMatchK_eq inj f kb (fun t h => tl (md_block_mem hb h)) hk]
  | holders kind =>
    simp only [refScanT, refScan]
    apply flatMap_congr'
    intro b hb
    rw [filter_congr' (l := holdersOf b kind) fun x hx => mdMatchK_eq inj f kb
      (fun t h => tl (md_holder_mem hb (List.mem_filter.mp (show x ∈ b.holders.filter _ from hx)).1 h)) hk]
  | sourcesFind =>
    simp only [refScanT, refScan]
    apply flatMap_congr'
    intro b hb
    rw [filter_congr' fun x hx => mdMatchK_eq inj f kb
      (fun t h => tl (md_source_mem hb (find_all_subset hx) h)) hk]
  | sourcesTop =>
    simp only [refScanT, refScan]
    apply flatMap_congr'
    intro b hb
    rw [filter_congr' fun x hx => mdMatchK_eq inj f kb
      (fun t h => tl (md_source_mem hb (mem_nodesL_roots hx) h)) hk]

theorem refListT_eq {texts : Nat → String} (f : File) (k : Nat) (inj : TextsInjOn texts (k :: mdTargets f))
    (tbl : List (String × Scan)) (nm : String) : refListT texts tbl f nm k = refList tbl f nm k := by
  unfold refListT refList
  cases tbl.lookup nm with
  | none => rfl
  | some sc => simp only [refScanT_eq f k inj]

theorem refObjectsT_eq {texts : Nat → String} (f : File) (k : Nat) (inj : TextsInjOn texts (k :: mdTargets f))
    (tbl : List (String × Scan)) : ∀ order : List String, refObjectsT texts tbl order f k = refObjectsG tbl order f k
  | [] => rfl
  | nm :: rest => by
    rw [refObjectsT, refObjectsG, refListT_eq f k inj, refObjectsT_eq f k inj tbl rest]
    cases refList tbl f nm k <;> cases refObjectsG tbl rest f k <;> rfl

/-- the texts of a history do not repeat among `ks` when the caller's ids are fit (the part of `SuppliedOK` about
ids, for the keys `ks`) -/
theorem textsInjOn_of_supplied {given : List (Nat × String)} {gen : Nat → String} {ks : List Nat}
    (genInj : ∀ a ∈ ks, given.lookup a = none → ∀ b ∈ ks, given.lookup b = none → gen a = gen b → a = b)
    (givenNodup : (given.map Prod.snd).Nodup)
    (sep : ∀ k t, (k, t) ∈ given → ∀ a ∈ ks, given.lookup a = none → t ≠ gen a) :
    TextsInjOn (textsOf given gen) ks := by
  have cases_text : ∀ a, (∃ t, (a, t) ∈ given ∧ textsOf given gen a = t) ∨
      (given.lookup a = none ∧ textsOf given gen a = gen a) := by
    intro a
    unfold textsOf
    cases hl : given.lookup a with
    | none => exact .inr ⟨rfl, rfl⟩
    | some t => exact .inl ⟨t, lookup_mem hl, rfl⟩
  intro a ha b hb hab
  rcases cases_text a with ⟨ta, hma, hta⟩ | ⟨hla, hta⟩ <;> rcases cases_text b with ⟨tb, hmb, htb⟩ | ⟨hlb, htb⟩
  · have e : ta = tb := hta.symm.trans (hab.trans htb)
    exact snd_inj_of_nodup givenNodup hma (e ▸ hmb)
  · exact absurd (hta.symm.trans (hab.trans htb)) (sep _ _ hma b hb hlb)
  · exact absurd (htb.symm.trans (hab.symm.trans hta)) (sep _ _ hmb a ha hla)
  · exact genInj a ha hla b hb hlb (hta.symm.trans (hab.trans htb))

end Nix.Tree.Ids
