import NixModel.Lemmas.C13Supplied
import NixModel.Pure.TreeIdsRef

/-!
# C13 — referring scans on id texts = referring scans on keys, when ids never repeat
-/

namespace Nix.Tree.Ids
open Nix.Tree Nix.Tree.Shape

/-- ids never repeat (uuid4 freshness + the caller's ids pairwise different): different entities, alive or deleted,
different texts -/
def TextsInj (texts : Nat → String) : Prop := ∀ a b, texts a = texts b → a = b

theorem mdMatchK_eq {texts : Nat → String} (inj : TextsInj texts) (f : File) (kb : KeyBy) (md : Option Nat) (k : Nat) :
    mdMatchK texts f kb md k = mdMatch f kb md k := by
  cases kb with
  | name => rfl
  | id =>
    cases md with
    | none => rfl
    | some t => exact beq_texts (inj t k)
  | obj =>
    cases md with
    | none => rfl
    | some t => exact beq_texts (inj t k)

theorem refScanT_eq {texts : Nat → String} (inj : TextsInj texts) (f : File) (sc : Scan) (k : Nat) :
    refScanT texts f sc k = refScan f sc k := by
  obtain ⟨scope, kb⟩ := sc
  cases scope <;> simp only [refScanT, refScan, mdMatchK_eq inj]

theorem refListT_eq {texts : Nat → String} (inj : TextsInj texts) (tbl : List (String × Scan)) (f : File)
    (nm : String) (k : Nat) : refListT texts tbl f nm k = refList tbl f nm k := by
  unfold refListT refList
  cases tbl.lookup nm with
  | none => rfl
  | some sc => simp only [refScanT_eq inj]

theorem refObjectsT_eq {texts : Nat → String} (inj : TextsInj texts) (tbl : List (String × Scan)) (f : File)
    (k : Nat) : ∀ order : List String, refObjectsT texts tbl order f k = refObjectsG tbl order f k
  | [] => rfl
  | nm :: rest => by
    rw [refObjectsT, refObjectsG, refListT_eq inj, refObjectsT_eq inj tbl f k rest]
    cases refList tbl f nm k <;> cases refObjectsG tbl rest f k <;> rfl

/-- the texts of a history never repeat when the caller's ids are fit (`SuppliedOK`, the part about ids) -/
theorem textsInj_of_supplied {given : List (Nat × String)} {gen : Nat → String}
    (genInj : ∀ a b, gen a = gen b → a = b) (givenNodup : (given.map Prod.snd).Nodup)
    (sep : ∀ k t, (k, t) ∈ given → ∀ a, t ≠ gen a) : TextsInj (textsOf given gen) := by
  have cases_text : ∀ a, (∃ t, (a, t) ∈ given ∧ textsOf given gen a = t) ∨ textsOf given gen a = gen a := by
    intro a
    unfold textsOf
    cases hl : given.lookup a with
    | none => exact .inr rfl
    | some t => exact .inl ⟨t, lookup_mem hl, rfl⟩
  intro a b hab
  rcases cases_text a with ⟨ta, hma, hta⟩ | hta <;> rcases cases_text b with ⟨tb, hmb, htb⟩ | htb
  · have e : ta = tb := hta.symm.trans (hab.trans htb)
    exact snd_inj_of_nodup givenNodup hma (e ▸ hmb)
  · exact absurd (hta.symm.trans (hab.trans htb)) (sep _ _ hma b)
  · exact absurd (htb.symm.trans (hab.symm.trans hta)) (sep _ _ hmb a)
  · exact genInj a b (hta.symm.trans (hab.trans htb))

end Nix.Tree.Ids
