import NixModel.Pure.Frame
/-! Lemmas for C16: cell conversion, rows, typed rows. Core only (no Mathlib needed). -/
namespace Nix.Frame

/-- a row whose cells are stored cells of the column types, one per column -/
def rowOK : List ColType → Row → Bool
  | [], [] => true
  | t :: ts, v :: vs => wellTyped t v && rowOK ts vs
  | _, _ => false

theorem inRange_ok {lo hi n : Int} {w : Val} (h : inRange lo hi n = .ok w) : w = .int n ∧ lo ≤ n ∧ n ≤ hi := by
  unfold inRange at h
  split at h
  · cases h; simp_all
  · cases h

theorem conv_wellTyped {t : ColType} {v w : Val} (h : conv t v = .ok w) : wellTyped t w = true := by
  cases t <;> cases v <;> simp [conv, ColType.range] at h <;>
    first
      | (subst h; simp [wellTyped]; done)
      | (subst h; rename_i b; cases b <;> simp [wellTyped, ColType.range]; done)
      | (obtain ⟨rfl, h1, h2⟩ := inRange_ok h; simp [wellTyped, ColType.range, h1, h2])

theorem conv_id {t : ColType} {v : Val} (h : wellTyped t v = true) : conv t v = .ok v := by
  cases t <;> cases v <;> simp [wellTyped, ColType.range] at h <;> simp [conv, ColType.range, inRange, h]

theorem rowOK_length : ∀ {ts : List ColType} {r : Row}, rowOK ts r = true → r.length = ts.length
  | [], [], _ => rfl
  | _ :: ts, _ :: vs, h => by
    simp [rowOK] at h
    simp [rowOK_length h.2]
  | [], _ :: _, h => by simp [rowOK] at h
  | _ :: _, [], h => by simp [rowOK] at h

theorem convCells_ok : ∀ {ts : List ColType} {vs : List Val} {ws : Row}, convCells ts vs = .ok ws → rowOK ts ws = true
  | [], [], ws, h => by simp [convCells] at h; subst h; rfl
  | t :: ts, v :: vs, ws, h => by
    simp only [convCells] at h
    split at h
    · cases h
    · rename_i w hw
      split at h
      · cases h
      · rename_i ws' hws
        cases h
        simp [rowOK, conv_wellTyped hw, convCells_ok hws]
  | [], _ :: _, _, h => by simp [convCells] at h
  | _ :: _, [], _, h => by simp [convCells] at h

theorem convCells_id : ∀ {ts : List ColType} {vs : Row}, rowOK ts vs = true → convCells ts vs = .ok vs
  | [], [], _ => rfl
  | t :: ts, v :: vs, h => by
    simp [rowOK] at h
    simp [convCells, conv_id h.1, convCells_id h.2]
  | [], _ :: _, h => by simp [rowOK] at h
  | _ :: _, [], h => by simp [rowOK] at h

theorem convRow_ok {ts : List ColType} {vs : List Val} {ws : Row} (h : convRow ts vs = .ok ws) : rowOK ts ws = true := by
  unfold convRow at h
  split at h
  · cases h
  · exact convCells_ok h

/-- a well-typed row is stored as it is -/
theorem convRow_id {ts : List ColType} {vs : Row} (h : rowOK ts vs = true) : convRow ts vs = .ok vs := by
  unfold convRow
  simp [rowOK_length h, convCells_id h]

/-- `convRows` converts row by row: same number of rows, row k is the conversion of row k -/
theorem convRows_spec : ∀ {ts : List ColType} {rows : List (List Val)} {rs : List Row}, convRows ts rows = .ok rs →
    rs.length = rows.length ∧ (∀ r ∈ rs, rowOK ts r = true) ∧
    ∀ k (h : k < rows.length), ∃ w, rs[k]? = some w ∧ convRow ts rows[k] = .ok w
  | ts, [], rs, h => by simp [convRows] at h; subst h; simp
  | ts, r :: rows, rs, h => by
    simp only [convRows] at h
    split at h
    · cases h
    · rename_i w hw
      split at h
      · cases h
      · rename_i ws hws
        cases h
        obtain ⟨h1, h2, h3⟩ := convRows_spec hws
        refine ⟨by simp [h1], ?_, ?_⟩
        · intro x hx
          rcases List.mem_cons.1 hx with rfl | hx
          · exact convRow_ok hw
          · exact h2 x hx
        · intro k hk
          cases k with
          | zero => exact ⟨w, by simp, by simpa using hw⟩
          | succ k =>
            have hk' : k < rows.length := by simpa using hk
            obtain ⟨w', hw1, hw2⟩ := h3 k hk'
            exact ⟨w', by simpa using hw1, by simpa using hw2⟩

theorem convCol_spec : ∀ {t : ColType} {col ws : List Val}, convCol t col = .ok ws →
    ws.length = col.length ∧ (∀ w ∈ ws, wellTyped t w = true) ∧
    ∀ k (h : k < col.length), ∃ w, ws[k]? = some w ∧ conv t col[k] = .ok w
  | t, [], ws, h => by simp [convCol] at h; subst h; simp
  | t, v :: col, ws, h => by
    simp only [convCol] at h
    split at h
    · cases h
    · rename_i w hw
      split at h
      · cases h
      · rename_i ws' hws
        cases h
        obtain ⟨h1, h2, h3⟩ := convCol_spec hws
        refine ⟨by simp [h1], ?_, ?_⟩
        · intro x hx
          rcases List.mem_cons.1 hx with rfl | hx
          · exact conv_wellTyped hw
          · exact h2 x hx
        · intro k hk
          cases k with
          | zero => exact ⟨w, by simp, by simpa using hw⟩
          | succ k =>
            have hk' : k < col.length := by simpa using hk
            obtain ⟨w', hw1, hw2⟩ := h3 k hk'
            exact ⟨w', by simpa using hw1, by simpa using hw2⟩

/-- replacing cell `c` of a typed row by a cell of that column's type keeps the row typed -/
theorem rowOK_set : ∀ {ts : List ColType} {r : Row} {c : Nat} {t : ColType} {w : Val},
    rowOK ts r = true → ts[c]? = some t → wellTyped t w = true → rowOK ts (r.set c w) = true
  | [], [], _, _, _, _, h, _ => by simp at h
  | t :: ts, v :: vs, 0, _, _, h, hc, hw => by
    simp at hc; subst hc
    simp [rowOK] at h ⊢
    exact ⟨hw, h.2⟩
  | t :: ts, v :: vs, c + 1, _, _, h, hc, hw => by
    simp at hc
    simp [rowOK] at h ⊢
    exact ⟨h.1, rowOK_set h.2 hc hw⟩
  | [], _ :: _, _, _, _, h, _, _ => by simp [rowOK] at h
  | _ :: _, [], _, _, _, h, _, _ => by simp [rowOK] at h

theorem rowOK_append : ∀ {ts : List ColType} {r : Row} {t : ColType} {v : Val},
    rowOK ts r = true → wellTyped t v = true → rowOK (ts ++ [t]) (r ++ [v]) = true
  | [], [], _, _, _, hv => by simp [rowOK, hv]
  | t :: ts, v :: vs, _, _, h, hv => by
    simp [rowOK] at h ⊢
    exact ⟨h.1, rowOK_append h.2 hv⟩
  | [], _ :: _, _, _, h, _ => by simp [rowOK] at h
  | _ :: _, [], _, _, h, _ => by simp [rowOK] at h

end Nix.Frame
