import NixModel.Lemmas.C16Bytes
/-! Lemmas for C16: `frame[name]`, `frame[lo:hi]` and `read_columns(group_by_cols=True)` are views of the stored
table, on the abstract frame and on the stored bytes. -/
namespace Nix.Frame

theorem rowOK_get : ∀ {ts : List ColType} {r : Row} {c : Nat} {t : ColType} {v : Val},
    rowOK ts r = true → ts[c]? = some t → r[c]? = some v → wellTyped t v = true
  | t0 :: ts, v0 :: vs, 0, t, v, h, ht, hv => by
    simp only [rowOK, Bool.and_eq_true] at h
    simp at ht hv; subst ht; subst hv; exact h.1
  | t0 :: ts, v0 :: vs, c + 1, t, v, h, ht, hv => by
    simp only [rowOK, Bool.and_eq_true] at h
    simp at ht hv
    exact rowOK_get h.2 ht hv
  | [], [], _, _, _, _, ht, _ => by simp at ht
  | [], _ :: _, _, _, _, h, _, _ => by simp [rowOK] at h
  | _ :: _, [], _, _, _, h, _, _ => by simp [rowOK] at h

/-- `colOf` is field `c` of every row, in row order -/
theorem colOf_spec : ∀ {rows : List Row} {c : Nat} {col : List Val}, colOf rows c = .ok col →
    col.length = rows.length ∧ ∀ r, r < rows.length → (rows[r]?).bind (·[c]?) = col[r]?
  | [], c, col, h => by
    simp [colOf] at h; subst h; simp
  | row :: rs, c, col, h => by
    simp only [colOf] at h
    split at h
    · rename_i v vs hv hvs
      injection h with h; subst h
      obtain ⟨l, g⟩ := colOf_spec hvs
      refine ⟨by simp [l], ?_⟩
      intro r hr
      cases r with
      | zero => simp [hv]
      | succ r => simpa using g r (by simpa using hr)
    · cases h
    · cases h

theorem colOf_mem : ∀ {rows : List Row} {c : Nat} {col : List Val}, colOf rows c = .ok col →
    ∀ v ∈ col, ∃ row ∈ rows, row[c]? = some v
  | [], c, col, h => by
    simp [colOf] at h; subst h; simp
  | row :: rs, c, col, h => by
    simp only [colOf] at h
    split at h
    · rename_i v vs hv hvs
      injection h with h; subst h
      intro x hx
      rcases List.mem_cons.1 hx with e | e
      · subst e; exact ⟨row, by simp, hv⟩
      · obtain ⟨r', hr', g⟩ := colOf_mem hvs x e
        exact ⟨r', by simp [hr'], g⟩
    · cases h
    · cases h

theorem colsOf_spec {rows : List Row} : ∀ {ks : List Nat} {cs : List (List Val)}, colsOf rows ks = .ok cs →
    cs.length = ks.length ∧ ∀ j (hj : j < ks.length), ∃ col, cs[j]? = some col ∧ colOf rows ks[j] = .ok col
  | [], cs, h => by
    simp [colsOf] at h; subst h; simp
  | k :: ks, cs, h => by
    simp only [colsOf] at h
    split at h
    · rename_i c cs' hc hcs
      injection h with h; subst h
      obtain ⟨l, g⟩ := colsOf_spec hcs
      refine ⟨by simp [l], ?_⟩
      intro j hj
      cases j with
      | zero => exact ⟨c, by simp, by simpa using hc⟩
      | succ j =>
        obtain ⟨col, g1, g2⟩ := g j (by simpa using hj)
        exact ⟨col, by simpa using g1, by simpa using g2⟩
    · cases h
    · cases h

theorem sliceList_get_lt {α : Type} {l : List α} {lo hi : Option Int} {r : Nat}
    (h : r < (sliceList l lo hi).length) : (sliceList l lo hi)[r]? = l[sliceStart l.length lo + r]? := by
  have := sliceList_get l lo hi r
  split at this
  · exact this
  · rw [List.getElem?_eq_getElem h] at this; cases this

/-- `frame[name]`: the column called `name`, one cell per row in row order -/
theorem getField_spec {f : Frame} {name : String} {col : List Val} (h : getField f name = .ok col) :
    ∃ c, findCol f.cols name = some c ∧ col.length = f.rows.length ∧
      ∀ r, r < f.rows.length → f.cell r c = col[r]? := by
  unfold getField at h
  split at h
  · cases h
  · rename_i c hc
    obtain ⟨l, g⟩ := colOf_spec h
    exact ⟨c, hc, l, fun r hr => by simpa [Frame.cell] using g r hr⟩

/-- grouped columns: list `j` is column `ks[j]` of the rows of the slice, in row order -/
theorem readColumnsGrouped_spec {f : Frame} {ks : List Nat} {lo hi : Option Int} {cols : List (List Val)}
    (hk : ks.length ≠ 1) (h : readColumnsGrouped f (.ok ks) lo hi = .ok cols) :
    cols.length = ks.length ∧ ∀ j (hj : j < ks.length), ∃ col, cols[j]? = some col ∧
      col.length = (sliceList f.rows lo hi).length ∧
      ∀ r, r < col.length → f.cell (sliceStart f.rows.length lo + r) ks[j] = col[r]? := by
  have h' : colsOf (sliceList f.rows lo hi) ks = .ok cols := by
    match ks, hk with
    | [], _ => simpa [readColumnsGrouped] using h
    | [_], hk => simp at hk
    | _ :: _ :: _, _ => simpa [readColumnsGrouped] using h
  obtain ⟨l, g⟩ := colsOf_spec h'
  refine ⟨l, ?_⟩
  intro j hj
  obtain ⟨col, g1, g2⟩ := g j hj
  obtain ⟨l2, g3⟩ := colOf_spec g2
  refine ⟨col, g1, l2, ?_⟩
  intro r hr
  have hr' : r < (sliceList f.rows lo hi).length := by rw [← l2]; exact hr
  have := g3 r hr'
  rw [sliceList_get_lt hr'] at this
  simpa [Frame.cell] using this

-- ---------------------------------------------------------------------------------------
-- the same reads on the stored bytes

theorem sColOf_enc : ∀ (rows : List Row) (c : Nat),
    sColOf (rows.map encRow) c = (colOf rows c).map (·.map enc)
  | [], _ => rfl
  | r :: rs, c => by
    simp only [List.map_cons, sColOf, colOf, sColOf_enc rs c, encRow, List.getElem?_map]
    cases r[c]? <;> cases colOf rs c <;> rfl

theorem convStringField_enc {t : ColType} : ∀ {col : List Val}, (∀ v ∈ col, wellTyped t v = true) →
    convStringField t (col.map enc) = .ok col
  | [], _ => rfl
  | v :: vs, h => by
    simp only [List.map_cons, convStringField]
    rw [convStringCell_enc (h v (by simp)), convStringField_enc (fun x hx => h x (by simp [hx]))]

theorem sGetField_enc {f : Frame} (wf : WF f) (name : String) : sGetField (encFrame f) name = getField f name := by
  simp only [sGetField, getField]
  have hc : (encFrame f).cols = f.cols := rfl
  have hr : (encFrame f).rows = f.rows.map encRow := rfl
  rw [hc, hr]
  cases hf : findCol f.cols name with
  | none => rfl
  | some c =>
    simp only []
    cases hct : f.cols[c]? with
    | none =>
      -- `findCol` returns a position inside the list
      have : c < f.cols.length := by
        unfold findCol at hf
        exact (List.findIdx?_eq_some_iff_getElem.1 hf).1
      simp [List.getElem?_eq_getElem this] at hct
    | some ct =>
      simp only [sColOf_enc]
      cases hcol : colOf f.rows c with
      | error e => rfl
      | ok col =>
        simp only [Except.map]
        apply convStringField_enc
        intro v hv
        obtain ⟨row, hrow, hcell⟩ := colOf_mem hcol v hv
        have ht : f.types[c]? = some ct.2 := by simp [Frame.types, hct]
        exact rowOK_get (wf.rows row hrow) ht hcell

theorem sGetSlice_enc {f : Frame} (wf : WF f) (lo hi : Option Int) :
    sGetSlice (encFrame f) lo hi = .ok (getSlice f lo hi) := by
  simp only [sGetSlice, getSlice]
  have hr : (encFrame f).rows = f.rows.map encRow := rfl
  have ht : (encFrame f).types = f.types := rfl
  rw [hr, ht, sliceList_map]
  exact convStringRows_enc (fun r hr => wf.rows r (sliceList_mem hr))

theorem sReadColumnsGrouped_enc {f : Frame} (wf : WF f) (sel : Except Err (List Nat)) (lo hi : Option Int) :
    sReadColumnsGrouped (encFrame f) sel lo hi = readColumnsGrouped f sel lo hi := by
  have hr : (encFrame f).rows = f.rows.map encRow := rfl
  have ht : (encFrame f).types = f.types := rfl
  have hconv : convStringRows f.types ((sliceList f.rows lo hi).map encRow) = .ok (sliceList f.rows lo hi) :=
    convStringRows_enc (fun r hr => wf.rows r (sliceList_mem hr))
  cases sel with
  | error e => rfl
  | ok ks =>
    match ks with
    | [] => simp only [sReadColumnsGrouped, readColumnsGrouped, hr, ht, sliceList_map, hconv]
    | [k] => simp only [sReadColumnsGrouped, readColumnsGrouped, hr, ht, sliceList_map, hconv]
    | _ :: _ :: _ => simp only [sReadColumnsGrouped, readColumnsGrouped, hr, ht, sliceList_map, hconv]

end Nix.Frame
