import NixModel.Lemmas.C18Basic

/-! visit order: removing the head of the sorted list of old paths leaves its tail -/
namespace Nix.Upgrade.Lemmas
open Nix.Upgrade

theorem pathLe_trans (a b c : Path) : pathLe a b = true → pathLe b c = true → pathLe a c = true := by
  simp only [pathLe, decide_eq_true_eq]
  exact Std.le_trans

theorem pathLe_total (a b : Path) : (pathLe a b || pathLe b a) = true := by
  simp only [pathLe, Bool.or_eq_true, decide_eq_true_eq]
  exact Std.le_total

theorem pathLe_antisymm (a b : Path) : pathLe a b = true → pathLe b a = true → a = b := by
  simp only [pathLe, decide_eq_true_eq]
  exact Std.le_antisymm

theorem sorted_mergeSort (l : List Path) : (l.mergeSort pathLe).Pairwise (fun a b => pathLe a b = true) :=
  List.pairwise_mergeSort pathLe_trans pathLe_total l

/-- if the sorted list of a duplicate-free list is `p :: t`, sorting the list without `p` gives `t` -/
theorem mergeSort_filter_head {l t : List Path} {p : Path} (hnd : l.Nodup)
    (h : l.mergeSort pathLe = p :: t) : (l.filter (· != p)).mergeSort pathLe = t := by
  have hperm : (p :: t).Perm l := h ▸ List.mergeSort_perm l pathLe
  have hnd' : (p :: t).Nodup := hperm.symm.nodup hnd
  have hsorted : (p :: t).Pairwise (fun a b => pathLe a b = true) := h ▸ sorted_mergeSort l
  have hpt : p ∉ t := (List.nodup_cons.mp hnd').1
  have hft : (p :: t).filter (· != p) = t := by
    rw [List.filter_cons]
    simp only [bne_self_eq_false, Bool.false_eq_true, if_false]
    apply List.filter_eq_self.mpr
    intro a ha
    simp only [bne_iff_ne, ne_eq]
    intro hap
    exact hpt (hap ▸ ha)
  have hperm2 : ((l.filter (· != p)).mergeSort pathLe).Perm t := by
    refine (List.mergeSort_perm _ _).trans ?_
    rw [← hft]
    exact (hperm.symm.filter _)
  exact List.Perm.eq_of_pairwise (le := fun a b => pathLe a b = true)
    (fun a b _ _ => pathLe_antisymm a b) (sorted_mergeSort _) hsorted.tail hperm2

/-- a sorted permutation is the result of the sort (used to evaluate `propTasks` on concrete files) -/
theorem mergeSort_eq_of {l t : List Path} (hs : t.Pairwise (fun a b => pathLe a b = true)) (hp : t.Perm l) :
    l.mergeSort pathLe = t :=
  List.Perm.eq_of_pairwise (le := fun a b => pathLe a b = true)
    (fun a b _ _ => pathLe_antisymm a b) (sorted_mergeSort _) hs ((List.mergeSort_perm _ _).trans hp.symm)

end Nix.Upgrade.Lemmas
