import NixModel.Pure.PropVals

/-!
# C10 helper lemmas, part 1: `get_dtype`, the type check, conversion, the property-level mutators
-/
namespace Nix.PropVals

/-! ## the value an input denotes (specification side) -/

/-- the stored cell that *is* this Python value (no dtype involved) -/
def PyVal.cell? : PyVal → Option Cell
  | .pyBool b | .npBool b => some (.b b)
  | .pyInt i | .npInt i => some (.i i)
  | .pyFloat x | .npFloat x => some (.f x)
  | .pyStr s | .npStr s => some (.s s)
  | .other => none

def cellsOf? : List PyVal → Option (List Cell)
  | [] => some []
  | v :: vs =>
    match v.cell?, cellsOf? vs with
    | some c, some cs => some (c :: cs)
    | _, _ => none

/-- the value list an input denotes when it is *assigned* (`prop.values = inp`) -/
def Input.assigned? : Input → Option (List Cell)
  | .none => some []
  | .scalar v => if v.isEmptyStr then some [] else cellsOf? [v]
  | .list vs => cellsOf? vs
  | .ndarray _ (0 :: _) _ => some []
  | .ndarray _ [_] data => some data
  | .ndarray _ _ _ => Option.none
  | .type _ => Option.none

/-- the values an input contributes when it is *appended* (`prop.extend_values(inp)`), C order -/
def Input.appended? : Input → Option (List Cell)
  | .scalar v => cellsOf? [v]
  | .list vs => cellsOf? vs
  | .ndarray _ _ data => some data
  | _ => Option.none

/-! ## `get_dtype` -/

theorem getDtype_cases (v : PyVal) :
    getDtype v = .ok .bool ∨ getDtype v = .ok .int64 ∨ getDtype v = .ok .float64 ∨
    getDtype v = .ok .string ∨ getDtype v = .error .valueError := by
  cases v <;> simp [getDtype, getDtypeCls, PyVal.cls, PyClass.isBools, PyClass.isIntegral, PyClass.isReal,
    PyClass.isStr]

theorem getDtype_bool {v : PyVal} : getDtype v = .ok .bool ↔ (∃ b, v = .pyBool b) ∨ (∃ b, v = .npBool b) := by
  cases v <;> simp [getDtype, getDtypeCls, PyVal.cls, PyClass.isBools, PyClass.isIntegral, PyClass.isReal,
    PyClass.isStr]

theorem getDtype_int {v : PyVal} : getDtype v = .ok .int64 ↔ (∃ i, v = .pyInt i) ∨ (∃ i, v = .npInt i) := by
  cases v <;> simp [getDtype, getDtypeCls, PyVal.cls, PyClass.isBools, PyClass.isIntegral, PyClass.isReal,
    PyClass.isStr]

theorem getDtype_float {v : PyVal} :
    getDtype v = .ok .float64 ↔ (∃ x, v = .pyFloat x) ∨ (∃ x, v = .npFloat x) := by
  cases v <;> simp [getDtype, getDtypeCls, PyVal.cls, PyClass.isBools, PyClass.isIntegral, PyClass.isReal,
    PyClass.isStr]

theorem getDtype_str {v : PyVal} : getDtype v = .ok .string ↔ (∃ s, v = .pyStr s) ∨ (∃ s, v = .npStr s) := by
  cases v <;> simp [getDtype, getDtypeCls, PyVal.cls, PyClass.isBools, PyClass.isIntegral, PyClass.isReal,
    PyClass.isStr]

theorem getDtype_error {v : PyVal} {e : Err} (h : getDtype v = .error e) : e = .valueError ∧ v = .other := by
  cases v <;> simp_all [getDtype, getDtypeCls, PyVal.cls, PyClass.isBools, PyClass.isIntegral, PyClass.isReal,
    PyClass.isStr]

theorem getDtypeCls_main {c : PyClass} {d : DType} (h : getDtypeCls c = .ok d) :
    d = .bool ∨ d = .int64 ∨ d = .float64 ∨ d = .string := by
  unfold getDtypeCls at h
  split at h
  · simp_all
  · split at h
    · simp_all
    · split at h
      · simp_all
      · split at h <;> simp_all

theorem getDtype_main {v : PyVal} {d : DType} (h : getDtype v = .ok d) :
    d = .bool ∨ d = .int64 ∨ d = .float64 ∨ d = .string := getDtypeCls_main h

/-! ## conversion after a passed check -/

/-- a value whose `get_dtype` is `d` converts to a cell of dtype `d` holding exactly that value, or
(Python / numpy integers outside int64 only) raises OverflowError -/
theorem toCell_of_getDtype {v : PyVal} {d : DType} (h : getDtype v = .ok d) :
    (∃ c, toCell d v = .ok c ∧ v.cell? = some c ∧ cellOk d c = true) ∨
    (toCell d v = .error .overflowError ∧ d = .int64) := by
  have hint : ∀ i : Int, (∃ c, (if int64Min ≤ i ∧ i ≤ int64Max then Except.ok (Cell.i i)
        else Except.error Err.overflowError) = Except.ok c ∧ some (Cell.i i) = some c ∧
        cellOk .int64 c = true) ∨
      ((if int64Min ≤ i ∧ i ≤ int64Max then (Except.ok (Cell.i i) : Except Err Cell)
        else Except.error Err.overflowError) = Except.error Err.overflowError ∧ DType.int64 = .int64) := by
    intro i
    by_cases hr : int64Min ≤ i ∧ i ≤ int64Max
    · left
      refine ⟨.i i, by simp [hr], rfl, ?_⟩
      simp only [int64Min, int64Max] at hr
      simp only [cellOk, Bool.and_eq_true, decide_eq_true_eq]
      omega
    · right
      simp [hr]
  cases v with
  | pyBool b =>
    have : d = .bool := by simpa [getDtype, getDtypeCls, PyVal.cls, PyClass.isBools] using h.symm
    subst this; left; exact ⟨.b b, rfl, rfl, rfl⟩
  | npBool b =>
    have : d = .bool := by simpa [getDtype, getDtypeCls, PyVal.cls, PyClass.isBools] using h.symm
    subst this; left; exact ⟨.b b, rfl, rfl, rfl⟩
  | pyInt i =>
    have : d = .int64 := by
      simpa [getDtype, getDtypeCls, PyVal.cls, PyClass.isBools, PyClass.isIntegral] using h.symm
    subst this; exact hint i
  | npInt i =>
    have : d = .int64 := by
      simpa [getDtype, getDtypeCls, PyVal.cls, PyClass.isBools, PyClass.isIntegral] using h.symm
    subst this; exact hint i
  | pyFloat x =>
    have : d = .float64 := by
      simpa [getDtype, getDtypeCls, PyVal.cls, PyClass.isBools, PyClass.isIntegral, PyClass.isReal] using h.symm
    subst this; left; exact ⟨.f x, rfl, rfl, rfl⟩
  | npFloat x =>
    have : d = .float64 := by
      simpa [getDtype, getDtypeCls, PyVal.cls, PyClass.isBools, PyClass.isIntegral, PyClass.isReal] using h.symm
    subst this; left; exact ⟨.f x, rfl, rfl, rfl⟩
  | pyStr x =>
    have : d = .string := by
      simpa [getDtype, getDtypeCls, PyVal.cls, PyClass.isBools, PyClass.isIntegral, PyClass.isReal,
        PyClass.isStr] using h.symm
    subst this; left; exact ⟨.s x, rfl, rfl, rfl⟩
  | npStr x =>
    have : d = .string := by
      simpa [getDtype, getDtypeCls, PyVal.cls, PyClass.isBools, PyClass.isIntegral, PyClass.isReal,
        PyClass.isStr] using h.symm
    subst this; left; exact ⟨.s x, rfl, rfl, rfl⟩
  | other =>
    simp [getDtype, getDtypeCls, PyVal.cls, PyClass.isBools, PyClass.isIntegral, PyClass.isReal,
      PyClass.isStr] at h

theorem convertAll_spec {d : DType} : ∀ {vs : List PyVal}, (∀ v ∈ vs, getDtype v = .ok d) →
    (∃ cs, convertAll d vs = .ok cs ∧ cellsOf? vs = some cs ∧ cs.length = vs.length ∧
      ∀ c ∈ cs, cellOk d c = true) ∨
    (convertAll d vs = .error .overflowError ∧ d = .int64)
  | [], _ => by simp [convertAll, cellsOf?]
  | v :: vs, h => by
    have hv : getDtype v = .ok d := h v (by simp)
    have hvs : ∀ w ∈ vs, getDtype w = .ok d := fun w hw => h w (by simp [hw])
    rcases toCell_of_getDtype hv with ⟨c, hc, hcell, hok⟩ | ⟨he, hd⟩
    · rcases convertAll_spec hvs with ⟨cs, hcs, hspec, hlen, hall⟩ | ⟨he, hd⟩
      · left
        refine ⟨c :: cs, ?_, ?_, ?_, ?_⟩
        · simp [convertAll, hc, hcs]
        · simp [cellsOf?, hcell, hspec]
        · simp [hlen]
        · intro c' hc'
          rcases List.mem_cons.mp hc' with rfl | hm
          · exact hok
          · exact hall c' hm
      · right
        subst hd
        simp [convertAll, hc, he]
    · right
      subst hd
      simp [convertAll, he]

/-! ## the consistency scan -/

theorem checkConsistent_ok {vt : DType} : ∀ {vs : List PyVal},
    checkConsistent vt vs = .ok () ↔ ∀ v ∈ vs, getDtype v = .ok vt
  | [] => by simp [checkConsistent]
  | v :: vs => by
    unfold checkConsistent
    cases hv : getDtype v with
    | error e => simp [hv]
    | ok d =>
      by_cases hd : d = vt
      · subst hd
        simp [hv, checkConsistent_ok (vs := vs)]
      · simp [hv, hd]

/-- the scan fails only with TypeError (an element of another supported type) or ValueError (an
element of a class `get_dtype` does not know) -/
theorem checkConsistent_error {vt : DType} : ∀ {vs : List PyVal} {e : Err},
    checkConsistent vt vs = .error e → e = .typeError ∨ e = .valueError
  | [], e, h => by simp [checkConsistent] at h
  | v :: vs, e, h => by
    unfold checkConsistent at h
    cases hv : getDtype v with
    | error e' =>
      rw [hv] at h
      have := (getDtype_error hv).1
      simp at h
      subst h
      exact Or.inr this
    | ok d =>
      rw [hv] at h
      by_cases hd : d = vt
      · subst hd
        simp at h
        exact checkConsistent_error h
      · simp [hd] at h
        exact Or.inl h.symm

/-- all elements of supported classes, one of them of another type than `vt` (at any position):
TypeError -/
theorem checkConsistent_mixed {vt : DType} : ∀ {vs : List PyVal},
    (∀ v ∈ vs, ∃ d, getDtype v = .ok d) → (∃ v ∈ vs, getDtype v ≠ .ok vt) →
    checkConsistent vt vs = .error .typeError
  | [], _, h => by simp at h
  | v :: vs, hsup, hbad => by
    unfold checkConsistent
    obtain ⟨d, hd⟩ := hsup v (by simp)
    rw [hd]
    by_cases hdv : d = vt
    · subst hdv
      simp
      apply checkConsistent_mixed (fun w hw => hsup w (by simp [hw]))
      obtain ⟨w, hw, hne⟩ := hbad
      rcases List.mem_cons.mp hw with rfl | hm
      · exact absurd hd hne
      · exact ⟨w, hm, hne⟩
    · simp [hdv]

/-! ## `_check_new_value_types` -/

/-- what a passed check guarantees, per input form -/
theorem check_ok_list {pd : DType} {vs : List PyVal} (h : checkNewValueTypes pd (.list vs) = .ok ()) :
    vs ≠ [] ∧ ∀ v ∈ vs, getDtype v = .ok pd := by
  cases vs with
  | nil => simp [checkNewValueTypes] at h
  | cons v vs =>
    simp only [checkNewValueTypes] at h
    cases hv : getDtype v with
    | error e => simp [hv] at h
    | ok d =>
      simp only [hv] at h
      by_cases hd : d = pd
      · subst hd
        simp at h
        exact ⟨by simp, checkConsistent_ok.mp h⟩
      · simp [hd] at h

theorem check_ok_elem {pd : DType} {inp : Input} (hl : ∀ vs, inp ≠ .list vs) (hn : ∀ a b c, inp ≠ .ndarray a b c)
    (h : checkNewValueTypes pd inp = .ok ()) : getDtype inp.asElem = .ok pd := by
  cases inp with
  | list vs => exact absurd rfl (hl vs)
  | ndarray a b c => exact absurd rfl (hn a b c)
  | none | scalar _ | type _ =>
    simp only [checkNewValueTypes] at h
    cases hv : getDtype (Input.asElem _) with
    | error e => simp [hv] at h
    | ok d =>
      simp only [hv] at h
      by_cases hd : d = pd
      · subst hd; rfl
      · simp [hd] at h

theorem check_ok_nd {pd : DType} {dt : ADType} {shape : List Nat} {data : List Cell}
    (h : checkNewValueTypes pd (.ndarray dt shape data) = .ok ()) :
    dt = .num pd ∧ pd ≠ .string ∧ shape ≠ [] ∧ shape.head? ≠ some 0 := by
  simp only [checkNewValueTypes] at h
  split at h
  · simp at h
  · simp at h
  · rename_i h1 h2
    split at h
    · rename_i hm
      cases dt with
      | num d =>
        simp [arrMatches] at hm
        refine ⟨by rw [hm.1], by rw [← hm.1]; exact hm.2, ?_, ?_⟩
        · intro hs; exact h1 hs
        · intro hs
          cases shape with
          | nil => simp at hs
          | cons n ns =>
            simp at hs
            exact h2 ns (by rw [hs])
      | ustr => simp [arrMatches] at hm
      | other => simp [arrMatches] at hm
    · simp at h

/-- the check fails only with TypeError, ValueError or (empty sequence / 0-d array) IndexError -/
theorem check_error {pd : DType} {inp : Input} {e : Err} (h : checkNewValueTypes pd inp = .error e) :
    e = .typeError ∨ e = .valueError ∨ e = .indexError := by
  unfold checkNewValueTypes at h
  split at h
  · simp at h; simp [← h]
  · split at h
    · rename_i e' he'
      simp at h; subst h
      exact Or.inr (Or.inl (getDtype_error he').1)
    · split at h
      · simp at h; simp [← h]
      · rcases checkConsistent_error h with h | h <;> simp [h]
  · split at h
    · simp at h; simp [← h]
    · simp at h; simp [← h]
    · split at h
      · simp at h
      · simp at h; simp [← h]
  · split at h
    · rename_i e' he'
      simp at h; subst h
      exact Or.inr (Or.inl (getDtype_error he').1)
    · split at h
      · simp at h; simp [← h]
      · rcases checkConsistent_error h with h | h <;> simp [h]

/-! ## typed value lists -/

def Typed (p : PropRec) : Prop := ∀ c ∈ p.vals, cellOk p.dtype c = true

theorem fill_ok (d : DType) : cellOk d d.fill = true := by
  cases d <;> simp [DType.fill, cellOk]

theorem resize_typed {d : DType} {vals : List Cell} (n : Nat) (h : ∀ c ∈ vals, cellOk d c = true) :
    ∀ c ∈ resize d vals n, cellOk d c = true := by
  intro c hc
  simp only [resize, List.mem_append] at hc
  rcases hc with hc | hc
  · exact h c (List.mem_of_mem_take hc)
  · rw [List.mem_replicate] at hc
    rw [hc.2]; exact fill_ok d

/-- same identity: name, id, dtype, and (separately) attributes -/
structure SameHead (p q : PropRec) : Prop where
  name : q.name = p.name
  id : q.id = p.id
  dtype : q.dtype = p.dtype

theorem SameHead.refl (p : PropRec) : SameHead p p := ⟨rfl, rfl, rfl⟩

/-! ## `assignList`, the `values` setter -/

theorem assignList_head (p : PropRec) (vs : List PyVal) :
    SameHead p (assignList p vs).1 ∧ (assignList p vs).1.attrs = p.attrs := by
  unfold assignList
  split
  · exact ⟨SameHead.refl p, rfl⟩
  · split
    · exact ⟨SameHead.refl p, rfl⟩
    · split <;> exact ⟨⟨rfl, rfl, rfl⟩, rfl⟩

theorem assignList_typed {p : PropRec} (vs : List PyVal) (h : Typed p) : Typed (assignList p vs).1 := by
  unfold assignList
  split
  · exact h
  · rename_i hchk
    have hall := (check_ok_list hchk).2
    split
    · exact h
    · split
      · exact h
      · rename_i cells hconv
        rcases convertAll_spec hall with ⟨cs, hcs, _, _, hok⟩ | ⟨he, _⟩
        · rw [hcs] at hconv
          cases hconv
          exact hok
        · rw [he] at hconv; cases hconv

/-- result of `assignList`: success stores exactly the denoted cells; a refusal by the type check, an
OverflowError of the conversion and the ValueError for text containing NUL leave the property
untouched -/
theorem assignList_result (p : PropRec) (vs : List PyVal) :
    (∃ cells, assignList p vs = ({ p with vals := cells }, .ok ()) ∧ cellsOf? vs = some cells ∧
        checkNewValueTypes p.dtype (.list vs) = .ok ()) ∨
    (∃ e, assignList p vs = (p, .error e) ∧
        (checkNewValueTypes p.dtype (.list vs) = .error e ∨
         (checkNewValueTypes p.dtype (.list vs) = .ok () ∧ e = .overflowError))) ∨
    (assignList p vs = (p, .error .valueError) ∧
        checkNewValueTypes p.dtype (.list vs) = .ok ()) := by
  cases hchk : checkNewValueTypes p.dtype (.list vs) with
  | error e =>
    right; left
    exact ⟨e, by simp [assignList, hchk], Or.inl rfl⟩
  | ok u =>
    have hall := (check_ok_list hchk).2
    by_cases hn : textRefused p.dtype vs = true
    · right; right
      exact ⟨by simp [assignList, hchk, hn], rfl⟩
    · rcases convertAll_spec hall with ⟨cs, hcs, hspec, _, _⟩ | ⟨he, _⟩
      · left
        exact ⟨cs, by simp [assignList, hchk, hcs, hn], hspec, rfl⟩
      · right; left
        exact ⟨.overflowError, by simp [assignList, hchk, he, hn], Or.inr ⟨rfl, rfl⟩⟩

/-- the four ways the `values` setter can go -/
theorem setValues_cases (p : PropRec) (inp : Input) :
    (setValues p inp = (p.clear, .ok ()) ∧ inp.assigned? = some []) ∨
    (∃ vs, setValues p inp = assignList p vs ∧ inp.assigned? = cellsOf? vs) ∨
    (∃ e, setValues p inp = (p, .error e) ∧ (e = .typeError ∨ checkNewValueTypes p.dtype inp = .error e)) ∨
    (∃ dt n data, inp = .ndarray dt [n + 1] data ∧ checkNewValueTypes p.dtype inp = .ok () ∧
      setValues p inp = ({ p with vals := data }, .ok ())) := by
  cases inp with
  | none => left; exact ⟨rfl, rfl⟩
  | type t => right; left; exact ⟨[.other], rfl, by simp [Input.assigned?, cellsOf?, PyVal.cell?]⟩
  | list vs =>
    cases vs with
    | nil => left; exact ⟨rfl, rfl⟩
    | cons v vs => right; left; exact ⟨v :: vs, rfl, rfl⟩
  | scalar v =>
    by_cases hv : v.isEmptyStr = true
    · left; exact ⟨by simp [setValues, hv], by simp [Input.assigned?, hv]⟩
    · right; left; exact ⟨[v], by simp [setValues, hv], by simp [Input.assigned?, hv]⟩
  | ndarray dt shape data =>
    cases shape with
    | nil => right; right; left; exact ⟨.typeError, rfl, Or.inl rfl⟩
    | cons n ns =>
      cases n with
      | zero => left; exact ⟨rfl, rfl⟩
      | succ n =>
        cases ns with
        | nil =>
          cases hchk : checkNewValueTypes p.dtype (.ndarray dt [n + 1] data) with
          | error e => right; right; left; exact ⟨e, by simp [setValues, hchk], Or.inr rfl⟩
          | ok u => right; right; right; exact ⟨dt, n, data, rfl, rfl, by simp [setValues, hchk]⟩
        | cons m ms =>
          cases hchk : checkNewValueTypes p.dtype (.ndarray dt ((n + 1) :: m :: ms) data) with
          | error e => right; right; left; exact ⟨e, by simp [setValues, hchk], Or.inr rfl⟩
          | ok u => right; right; left; exact ⟨.typeError, by simp [setValues, hchk], Or.inl rfl⟩

theorem setValues_head (p : PropRec) (inp : Input) :
    SameHead p (setValues p inp).1 ∧ (setValues p inp).1.attrs = p.attrs := by
  rcases setValues_cases p inp with ⟨h, _⟩ | ⟨vs, h, _⟩ | ⟨e, h, _⟩ | ⟨dt, n, data, _, _, h⟩
  · rw [h]; exact ⟨⟨rfl, rfl, rfl⟩, rfl⟩
  · rw [h]; exact assignList_head p vs
  · rw [h]; exact ⟨SameHead.refl p, rfl⟩
  · rw [h]; exact ⟨⟨rfl, rfl, rfl⟩, rfl⟩

theorem setValues_typed {p : PropRec} {inp : Input} (hwf : inp.WF = true) (h : Typed p) :
    Typed (setValues p inp).1 := by
  rcases setValues_cases p inp with ⟨h', _⟩ | ⟨vs, h', _⟩ | ⟨e, h', _⟩ | ⟨dt, n, data, hi, hchk, h'⟩
  · rw [h']; intro c hc; simp [PropRec.clear] at hc
  · rw [h']; exact assignList_typed vs h
  · rw [h']; exact h
  · rw [h']
    subst hi
    have hm := check_ok_nd hchk
    intro c hc
    simp only [Input.WF, hm.1] at hwf
    simp at hwf
    exact hwf.2.2 c hc

/-- anything the `values` setter raises leaves the property exactly as it was -/
theorem setValues_refused {p : PropRec} {inp : Input} {e : Err} (h : (setValues p inp).2 = .error e) :
    (setValues p inp).1 = p := by
  rcases setValues_cases p inp with ⟨h', _⟩ | ⟨vs, h', _⟩ | ⟨e', h', _⟩ | ⟨dt, n, data, _, _, h'⟩
  · rw [h'] at h; simp at h
  · rw [h'] at h ⊢
    rcases assignList_result p vs with ⟨cells, hres, _⟩ | ⟨e', hres, _⟩ | ⟨hres, _⟩
    · rw [hres] at h; simp at h
    · rw [hres]
    · rw [hres]
  · rw [h']
  · rw [h'] at h; simp at h

/-- success of the `values` setter: the property holds exactly the values the input denotes -/
theorem setValues_ok {p : PropRec} {inp : Input} (h : (setValues p inp).2 = .ok ()) :
    ∃ cells, inp.assigned? = some cells ∧ (setValues p inp).1 = { p with vals := cells } := by
  rcases setValues_cases p inp with ⟨h', hs⟩ | ⟨vs, h', hs⟩ | ⟨e', h', _⟩ | ⟨dt, n, data, hi, _, h'⟩
  · exact ⟨[], hs, by rw [h']; rfl⟩
  · rw [h'] at h ⊢
    rcases assignList_result p vs with ⟨cells, hres, hspec, _⟩ | ⟨e', hres, _⟩ | ⟨hres, _⟩
    · exact ⟨cells, by rw [hs, hspec], by rw [hres]⟩
    · rw [hres] at h; simp at h
    · rw [hres] at h; simp at h
  · rw [h'] at h; simp at h
  · subst hi; exact ⟨data, rfl, by rw [h']⟩

/-- the type check precedes every change: when it refuses, the setter returns that very error and
the property is untouched — unless the input was the empty request, which is honoured before -/
theorem setValues_check_error {p : PropRec} {inp : Input} {e : Err}
    (h : checkNewValueTypes p.dtype inp = .error e) :
    setValues p inp = (p, .error e) ∨ (setValues p inp = (p.clear, .ok ()) ∧ inp.assigned? = some []) ∨
    (setValues p inp = (p, .error .typeError)) := by
  cases inp with
  | none => right; left; exact ⟨rfl, rfl⟩
  | list ws =>
    cases ws with
    | nil => right; left; exact ⟨rfl, rfl⟩
    | cons w ws =>
      left
      show assignList p (w :: ws) = _
      simp [assignList, h]
  | scalar v =>
    by_cases hv : v.isEmptyStr = true
    · right; left; exact ⟨by simp [setValues, hv], by simp [Input.assigned?, hv]⟩
    · left
      have h2 : checkNewValueTypes p.dtype (.list [v]) = .error e := by
        simp only [checkNewValueTypes, Input.asElem] at h ⊢
        exact h
      simp [setValues, hv, assignList, h2]
  | type t =>
    left
    have h2 : checkNewValueTypes p.dtype (.list [.other]) = .error e := by
      simp only [checkNewValueTypes, Input.asElem] at h ⊢
      exact h
    simp [setValues, assignList, h2]
  | ndarray dt shape data =>
    cases shape with
    | nil => right; right; rfl
    | cons n ns =>
      cases n with
      | zero => right; left; exact ⟨rfl, rfl⟩
      | succ n =>
        cases ns with
        | nil => left; simp [setValues, h]
        | cons m ms => left; simp [setValues, h]

/-! ## `extend_values` -/

/-- after a passed check the flattened new cells are the denoted ones, all of the property's dtype -/
theorem inputCells_spec {pd : DType} {inp : Input} (hwf : inp.WF = true)
    (hchk : checkNewValueTypes pd inp = .ok ()) :
    (∃ cs, inputCells pd inp = .ok cs ∧ inp.appended? = some cs ∧ ∀ c ∈ cs, cellOk pd c = true) ∨
    (inputCells pd inp = .error .overflowError ∧ pd = .int64) := by
  cases inp with
  | list vs =>
    have hall := (check_ok_list hchk).2
    rcases convertAll_spec hall with ⟨cs, hcs, hspec, _, hok⟩ | ⟨he, hd⟩
    · exact Or.inl ⟨cs, hcs, hspec, hok⟩
    · exact Or.inr ⟨he, hd⟩
  | ndarray dt shape data =>
    have hm := check_ok_nd hchk
    left
    refine ⟨data, rfl, rfl, ?_⟩
    simp only [Input.WF, hm.1] at hwf
    simp at hwf
    exact hwf.2.2
  | none =>
    have := check_ok_elem (by intro vs h; cases h) (by intro a b c h; cases h) hchk
    simp [Input.asElem, getDtype, getDtypeCls, PyVal.cls, PyClass.isBools, PyClass.isIntegral,
      PyClass.isReal, PyClass.isStr] at this
  | type t =>
    have := check_ok_elem (by intro vs h; cases h) (by intro a b c h; cases h) hchk
    simp [Input.asElem, getDtype, getDtypeCls, PyVal.cls, PyClass.isBools, PyClass.isIntegral,
      PyClass.isReal, PyClass.isStr] at this
  | scalar v =>
    have hv : getDtype v = .ok pd :=
      check_ok_elem (by intro vs h; cases h) (by intro a b c h; cases h) hchk
    have hall : ∀ w ∈ [v], getDtype w = .ok pd := by simpa using hv
    rcases convertAll_spec hall with ⟨cs, hcs, hspec, _, hok⟩ | ⟨he, hd⟩
    · exact Or.inl ⟨cs, hcs, hspec, hok⟩
    · exact Or.inr ⟨he, hd⟩

/-- the ways `extend_values` can go -/
theorem extendValues_cases (p : PropRec) (inp : Input) (hwf : inp.WF = true) :
    (∃ e, checkNewValueTypes p.dtype inp = .error e ∧ extendValues p inp = (p, .error e)) ∨
    (checkNewValueTypes p.dtype inp = .ok () ∧ extendValues p inp = (p, .error .overflowError)) ∨
    (∃ cs, checkNewValueTypes p.dtype inp = .ok () ∧ inp.appended? = some cs ∧
        (∀ c ∈ cs, cellOk p.dtype c = true) ∧
        ((extendValues p inp = ({ p with vals := p.vals ++ cs }, .ok ())) ∨
         (extendValues p inp = (p, .error .valueError)))) := by
  cases hchk : checkNewValueTypes p.dtype inp with
  | error e => left; exact ⟨e, rfl, by simp [extendValues, hchk]⟩
  | ok u =>
    rcases inputCells_spec hwf hchk with ⟨cs, hcs, hspec, hok⟩ | ⟨hov, hd⟩
    · right; right
      refine ⟨cs, rfl, hspec, hok, ?_⟩
      by_cases hn : textRefused p.dtype inp.elems = true
      · right; simp [extendValues, hchk, hn]
      · left; simp [extendValues, hchk, hcs, hn]
    · right; left
      have hn : textRefused p.dtype inp.elems = false := by simp [textRefused, hd]
      exact ⟨rfl, by simp [extendValues, hchk, hov, hn]⟩

theorem extendValues_head (p : PropRec) (inp : Input) :
    SameHead p (extendValues p inp).1 ∧ (extendValues p inp).1.attrs = p.attrs := by
  unfold extendValues
  split
  · exact ⟨SameHead.refl p, rfl⟩
  · split
    · exact ⟨SameHead.refl p, rfl⟩
    · split <;> exact ⟨⟨rfl, rfl, rfl⟩, rfl⟩

theorem extendValues_typed {p : PropRec} {inp : Input} (hwf : inp.WF = true) (h : Typed p) :
    Typed (extendValues p inp).1 := by
  rcases extendValues_cases p inp hwf with ⟨e, _, h'⟩ | ⟨_, h'⟩ | ⟨cs, _, _, hok, h' | h'⟩
  · rw [h']; exact h
  · rw [h']; exact h
  · rw [h']
    intro c hc
    simp only [List.mem_append] at hc
    rcases hc with hc | hc
    · exact h c hc
    · exact hok c hc
  · rw [h']; exact h

/-- `extend_values`: whatever it raises, the property is untouched -/
theorem extendValues_refused {p : PropRec} {inp : Input} {e : Err} (hwf : inp.WF = true)
    (h : (extendValues p inp).2 = .error e) : (extendValues p inp).1 = p := by
  rcases extendValues_cases p inp hwf with ⟨e', _, h'⟩ | ⟨_, h'⟩ | ⟨cs, _, _, _, h' | h'⟩
  · rw [h']
  · rw [h']
  · rw [h'] at h; simp at h
  · rw [h']

theorem extendValues_check_error {p : PropRec} {inp : Input} {e : Err}
    (h : checkNewValueTypes p.dtype inp = .error e) : extendValues p inp = (p, .error e) := by
  simp [extendValues, h]

/-- success of `extend_values`: the new values follow the existing ones, in order -/
theorem extendValues_ok {p : PropRec} {inp : Input} (hwf : inp.WF = true)
    (h : (extendValues p inp).2 = .ok ()) :
    ∃ cells, inp.appended? = some cells ∧ (extendValues p inp).1 = { p with vals := p.vals ++ cells } := by
  rcases extendValues_cases p inp hwf with ⟨e', _, h'⟩ | ⟨_, h'⟩ | ⟨cs, _, hs, _, h' | h'⟩
  · rw [h'] at h; simp at h
  · rw [h'] at h; simp at h
  · exact ⟨cs, hs, by rw [h']⟩
  · rw [h'] at h; simp at h

/-! ## attributes, clear -/

theorem setAttr_head (p : PropRec) (a : AttrName) (v : AttrVal) :
    SameHead p (setAttr p a v).1 ∧ (setAttr p a v).1.vals = p.vals := by
  unfold setAttr
  split
  · split <;> first | exact ⟨⟨rfl, rfl, rfl⟩, rfl⟩ | (split <;> exact ⟨⟨rfl, rfl, rfl⟩, rfl⟩)
  · split <;> exact ⟨⟨rfl, rfl, rfl⟩, rfl⟩
  · split <;> exact ⟨⟨rfl, rfl, rfl⟩, rfl⟩

theorem setAttr_refused {p : PropRec} {a : AttrName} {v : AttrVal} {e : Err}
    (h : (setAttr p a v).2 = .error e) : (setAttr p a v).1 = p := by
  unfold setAttr at h ⊢
  split
  · split <;> first | (simp at h; done) | rfl | (split <;> rfl)
  · split <;> first | (simp at h; done) | rfl
  · split <;> first | (simp at h; done) | rfl

theorem setOdml_head (p : PropRec) (o : Option OdmlType) :
    SameHead p (setOdml p o).1 ∧ (setOdml p o).1.vals = p.vals := by
  unfold setOdml
  split
  · exact ⟨⟨rfl, rfl, rfl⟩, rfl⟩
  · split
    · exact ⟨⟨rfl, rfl, rfl⟩, rfl⟩
    · split <;> exact ⟨⟨rfl, rfl, rfl⟩, rfl⟩

theorem setOdml_refused {p : PropRec} {o : Option OdmlType} {e : Err}
    (h : (setOdml p o).2 = .error e) : (setOdml p o).1 = p := by
  cases o with
  | none => rfl
  | some t =>
    cases hv : p.vals with
    | nil => simp [setOdml, hv]
    | cons c cs =>
      by_cases hc : odmlCompatible t (readClassDtype p.dtype) = true
      · simp [setOdml, hv, hc] at h
      · simp [setOdml, hv, hc]

end Nix.PropVals
