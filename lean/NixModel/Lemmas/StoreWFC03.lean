import NixModel.Lemmas.StoreWF

/-!
# Consequences of `WF` for the container views (helper lemmas of C03)
-/
namespace Nix.Store.Lemmas
open Nix.Store Nix.Store.Graph

/-- model ids are accepted by the id/name dispatch (`util.is_uuid`) -/
theorem isUuid_idStr (n : Nat) : isUuid (idStr n) = true := by
  unfold isUuid
  have : (idStr n).startsWith "id:" = true := by
    rw [String.startsWith_string_iff]
    unfold idStr
    simp [toString, String.toList_append]
  simp [this]

/-- the entries of an opened container are well-typed -/
theorem WF.entries_ok {g : Graph} (h : WF g) {p : Path} {cn : String} {c : Cont}
    (hc : openCont g p cn = some c) : ∀ l ∈ contEntries g c, EntryOk g c.info l := by
  obtain ⟨o, _, hci, _, _, _, hnode⟩ := openCont_some hc
  intro l hl
  unfold contEntries cLinks at hl
  rw [hnode] at hl
  cases hch : g.child? o.key cn with
  | none => simp [hch] at hl
  | some cg =>
    simp only [hch] at hl
    exact h.typing o.key cn c.info cg hci hch l hl

theorem WF.entries_nodup {g : Graph} (h : WF g) (c : Cont) : ((contEntries g c).map (·.1)).Nodup := by
  unfold contEntries cLinks
  cases c.node with
  | none => exact List.nodup_nil
  | some cg => exact h.names_nodup cg

/-- in an owning container two entries with the same target are the same entry -/
theorem entry_eq_of_target {g : Graph} {info : CInfo} (hpl : isPlainLike info.flavour = true)
    {l l' : String × Nat} (h1 : EntryOk g info l) (h2 : EntryOk g info l') (e : l.2 = l'.2) : l = l' := by
  have a1 := h1.2.2
  have a2 := h2.2.2
  simp only [hpl, ↓reduceIte] at a1 a2
  rw [e, a2] at a1
  cases l; cases l'
  simp only at e a1
  simp only [Option.some.injEq] at a1
  rw [e, a1]

theorem getElem_inj_of_names_nodup {l : List (String × Nat)} (hnd : (l.map (·.1)).Nodup) {i j : Nat}
    (hi : i < l.length) (hj : j < l.length) (e : l[i] = l[j]) : i = j := by
  have h1 : (l.map (·.1))[i]'(by simpa using hi) = (l.map (·.1))[j]'(by simpa using hj) := by
    simp only [List.getElem_map, e]
  exact (List.getElem_inj hnd).mp h1

/-- all access paths of an owning container of a well-formed graph denote the same entry -/
theorem WF.views_agree_of {g : Graph} (h : WF g) {c : Cont}
    (hok : ∀ l ∈ contEntries g c, EntryOk g c.info l) (hpl : isPlainLike c.info.flavour = true)
    (j : Nat) (hj : j < contLen g c) :
    contGet g c (.pos j) = .ok ((contEntries g c)[j]'hj) ∧
    g.getAttr ((contEntries g c)[j]'hj).2 "name" = some ((contEntries g c)[j]'hj).1 ∧
    (∃ i, g.entityId ((contEntries g c)[j]'hj).2 = some i ∧ isUuid i = true ∧
      contGet g c (.str i) = .ok ((contEntries g c)[j]'hj) ∧ contHas g c (.str i) = .ok true) ∧
    ((isUuid ((contEntries g c)[j]'hj).1 = true →
        ∀ l ∈ contEntries g c, g.entityId l.2 ≠ some ((contEntries g c)[j]'hj).1) →
      contGet g c (.str ((contEntries g c)[j]'hj).1) = .ok ((contEntries g c)[j]'hj) ∧
      contHas g c (.str ((contEntries g c)[j]'hj).1) = .ok true) ∧
    contHas g c (.ent ((contEntries g c)[j]'hj).2) = .ok true := by
  have hnd := h.entries_nodup c
  have hmem : (contEntries g c)[j]'hj ∈ contEntries g c := List.getElem_mem _
  have he := hok _ hmem
  obtain ⟨hkind, ⟨i, hid⟩, hname⟩ := he
  simp only [hpl, ↓reduceIte] at hname
  obtain ⟨n, _, hin⟩ := h.ids_wf _ _ hid
  have hui : isUuid i = true := hin ▸ isUuid_idStr n
  have hgetid : contGet g c (.str i) = .ok ((contEntries g c)[j]'hj) := by
    apply contGet_id g c hpl i hui j hj hid
    intro j' hj' e'
    have hj'' : j' < (contEntries g c).length := by unfold contLen at hj; omega
    have hmem' : (contEntries g c)[j']'hj'' ∈ contEntries g c := List.getElem_mem _
    have := h.ids_distinct _ _ i e' hid
    have := entry_eq_of_target hpl (hok _ hmem') (hok _ hmem) this
    have := getElem_inj_of_names_nodup hnd hj'' hj this
    omega
  have hmemid : contHas g c (.str i) = .ok true := by
    rw [contHas_str_iff_get g c hpl, hgetid]
  refine ⟨contGet_pos_nonneg g c j hj, hname, ⟨i, hid, hui, hgetid, hmemid⟩, ?_, ?_⟩
  · intro hclash
    have hg : contGet g c (.str ((contEntries g c)[j]'hj).1) = .ok ((contEntries g c)[j]'hj) :=
      contGet_name g c hpl _ _ hmem hnd hclash
    exact ⟨hg, by rw [contHas_str_iff_get g c hpl, hg]⟩
  · have hbyname : getByName g c.node ((contEntries g c)[j]'hj).1 = some ((contEntries g c)[j]'hj) :=
      find_by_key_nodup _ _ _ hmem hnd
    unfold contHas
    have hk' : (kindOf g ((contEntries g c)[j]'hj).2 != c.info.item) = false := by simpa using hkind
    simp only [hk', Bool.false_eq_true, ↓reduceIte]
    cases hfl : c.info.flavour <;> simp_all [isPlainLike]

/-- all access paths of an owning container of a well-formed graph denote the same entry -/
theorem WF.views_agree {g : Graph} (h : WF g) {p : Path} {cn : String} {c : Cont}
    (hc : openCont g p cn = some c) (hpl : isPlainLike c.info.flavour = true)
    (j : Nat) (hj : j < contLen g c) :
    contGet g c (.pos j) = .ok ((contEntries g c)[j]'hj) ∧
    g.getAttr ((contEntries g c)[j]'hj).2 "name" = some ((contEntries g c)[j]'hj).1 ∧
    (∃ i, g.entityId ((contEntries g c)[j]'hj).2 = some i ∧ isUuid i = true ∧
      contGet g c (.str i) = .ok ((contEntries g c)[j]'hj) ∧ contHas g c (.str i) = .ok true) ∧
    ((isUuid ((contEntries g c)[j]'hj).1 = true →
        ∀ l ∈ contEntries g c, g.entityId l.2 ≠ some ((contEntries g c)[j]'hj).1) →
      contGet g c (.str ((contEntries g c)[j]'hj).1) = .ok ((contEntries g c)[j]'hj) ∧
      contHas g c (.str ((contEntries g c)[j]'hj).1) = .ok true) ∧
    contHas g c (.ent ((contEntries g c)[j]'hj).2) = .ok true :=
  h.views_agree_of (h.entries_ok hc) hpl j hj

/-! ## deletion from a plain container removes exactly the addressed entry -/

theorem contGet_mem {g : Graph} {c : Cont} (hpl : isPlainLike c.info.flavour = true) {key : Key}
    {e : String × Nat} (hget : contGet g c key = .ok e) : e ∈ contEntries g c := by
  unfold contGet at hget
  cases key with
  | pos i =>
    simp only at hget
    split at hget
    all_goals
      split at hget
      · cases hget
      · split at hget
        · rename_i l hl; cases hget; exact List.mem_of_getElem? hl
        · cases hget
  | ent k => cases hget
  | str x =>
    simp only at hget
    have : getByIdOrName g c.node x = some e := by
      cases hfl : c.info.flavour <;> simp_all [isPlainLike] <;>
        (cases hq : getByIdOrName g c.node x <;> simp_all)
    unfold getByIdOrName at this
    split at this
    · split at this
      · rename_i r hr
        cases this
        exact List.mem_of_find?_eq_some hr
      · exact List.mem_of_find?_eq_some this
    · exact List.mem_of_find?_eq_some this

theorem WF.contDel_plain_of {g : Graph} (h : WF g) {c : Cont}
    (hok : ∀ l ∈ contEntries g c, EntryOk g c.info l) (hfl : c.info.flavour = .plain) {key : Key} {e : String × Nat}
    (hget : contGet g c key = .ok e) :
    ∃ g', Store.contDel g c key = .ok g' ∧
      cLinks g' c.node = (contEntries g c).filter (fun l => l != e) := by
  have hpl : isPlainLike c.info.flavour = true := by rw [hfl]; rfl
  have hmem := contGet_mem hpl hget
  obtain ⟨hkind, _, _⟩ := hok e hmem
  have hk' : (kindOf g e.2 != c.info.item) = false := by simpa using hkind
  refine ⟨g.deleteObjs [e.2], ?_, ?_⟩
  · unfold Store.contDel
    cases key with
    | ent k => simp [contGet] at hget
    | pos j =>
      simp only [hget, Except.map]
      simp only [hk', Bool.false_eq_true, ↓reduceIte, hfl]
    | str x =>
      simp only [hget, Except.map]
      simp only [hk', Bool.false_eq_true, ↓reduceIte, hfl]
  · unfold contEntries cLinks
    cases hn : c.node with
    | none => rfl
    | some cg =>
      simp only
      rw [links_deleteObjs]
      apply List.filter_congr
      intro l hl
      have hl' : l ∈ contEntries g c := by unfold contEntries cLinks; rw [hn]; exact hl
      unfold keepObj
      by_cases hii : l.2 = e.2
      · have := entry_eq_of_target hpl (hok l hl') (hok e hmem) hii
        simp [this]
      · have : l ≠ e := by
          intro e'; subst e'; exact hii rfl
        simp [hii, this]

theorem WF.contDel_plain {g : Graph} (h : WF g) {p : Path} {cn : String} {c : Cont}
    (hc : openCont g p cn = some c) (hfl : c.info.flavour = .plain) {key : Key} {e : String × Nat}
    (hget : contGet g c key = .ok e) :
    ∃ g', Store.contDel g c key = .ok g' ∧
      cLinks g' c.node = (contEntries g c).filter (fun l => l != e) :=
  h.contDel_plain_of (h.entries_ok hc) hfl hget

/-! ## link lists -/

/-- `append` puts the entry last; appending an entity that is already linked moves it to the end -/
theorem WF.contAppend_entries {g g' : Graph} (h : WF g) {p : Path} {cn : String} {c : Cont} {key : Key}
    (hc : openCont g p cn = some c) (hres : Store.contAppend g c key = .ok g') :
    ∃ k id cg, g.entityId k = some id ∧ g'.child? c.owner.key cn = some cg ∧
      g'.links cg = (contEntries g c).filter (fun l => l.1 != id) ++ [(id, k)] := by
  obtain ⟨o, hr, hci, ho, hcn, _, hnode⟩ := openCont_some hc
  obtain ⟨k, id, hid, _, e⟩ := contAppend_ok hres
  rw [ho, hcn] at e
  have hokey : o.key ∈ keys g := h.resolve_root_key hr
  have w1 : WF (g.ensureGroup o.key cn).1 :=
    h.ensureGroup cn hokey (h.not_cont_of_owner hci) (fun m _ => containerInfo_notId hci m)
  have hf := h.ensFacts cn hokey
  generalize hg1 : (g.ensureGroup o.key cn).1 = g1 at *
  generalize hcn1 : (g.ensureGroup o.key cn).2 = cg at *
  have hci1 : containerInfo (okind g1 o.key) cn = some c.info := by
    rw [okind_congr (fun k => hf.attrs k _)]; exact hci
  have hcno : o.key ≠ cg := fun e' =>
    w1.not_cont_of_owner hci1 (e' ▸ ⟨o.key, cn, c.info, hci1, hf.child⟩)
  have hlc : g1.links cg = contEntries g c := by
    unfold contEntries cLinks
    rw [hnode]
    cases hcc : g.child? o.key cn with
    | some c' => obtain ⟨e1, e2⟩ := hf.old c' hcc; rw [e1, e2]
    | none => rw [(hf.new hcc).1]
  have hcgn : (g1.node? cg).isSome := w1.node_of_key hf.ckey
  refine ⟨k, id, cg, hid, ?_, ?_⟩
  · rw [ho, e]
    unfold createLinkIn
    rw [child?_addLink_ne _ _ _ hcno]
    split
    · rw [child?_delLink_ne _ _ hcno]; exact hf.child
    · exact hf.child
  · rw [e]
    unfold createLinkIn
    split
    · rw [links_addLink_self _ _ _ (by rw [node?_isSome_delLink]; exact hcgn), links_delLink_self, hlc]
    · rename_i hh
      rw [links_addLink_self _ _ _ hcgn, hlc]
      congr 1
      have hfree : ∀ l ∈ g1.links cg, l.1 ≠ id := by
        apply hasChild_false_iff.mp
        cases hx : g1.hasChild cg id <;> simp_all
      rw [← hlc]
      symm
      apply List.filter_eq_self.mpr
      intro l hl
      simpa using hfree l hl

theorem getByIdOrName_link_name {g : Graph} {cnode : Option Nat} {x : String} {l : String × Nat}
    (hok : ∀ l ∈ cLinks g cnode, g.entityId l.2 = some l.1) (h : getByIdOrName g cnode x = some l) :
    l.1 = x := by
  unfold getByIdOrName at h
  have byname : getByName g cnode x = some l → l.1 = x := by
    intro h'
    have := List.find?_some h'
    simpa using this
  split at h
  · split at h
    · rename_i r hr
      cases h
      have h1 := List.find?_some hr
      have h2 := hok _ (List.mem_of_find?_eq_some hr)
      simp only [beq_iff_eq] at h1
      rw [h1] at h2
      exact (Option.some.inj h2).symm
    · exact byname h
  · exact byname h

/-- removing an entry from a link list (`del list[x]`, any key form) keeps the other entries in
their order -/
theorem WF.contDel_link {g g' : Graph} (h : WF g) {p : Path} {cn : String} {c : Cont} {key : Key}
    (hc : openCont g p cn = some c) (hfl : c.info.flavour = .link ∨ c.info.flavour = .sourceLink)
    (hres : Store.contDel g c key = .ok g') :
    ∃ id cg, c.node = some cg ∧ g'.links cg = (contEntries g c).filter (fun l => l.1 != id) := by
  unfold Store.contDel at hres
  simp only at hres
  split at hres
  · cases hres
  · rename_i k _
    split at hres
    · cases hres
    · rcases hfl with hfl | hfl
      all_goals
        simp only [hfl] at hres
        split at hres
        · rename_i cg i hn hi
          refine ⟨i, cg, hn, ?_⟩
          obtain ⟨o, hr, hci, ho, hcn, _, hnode⟩ := openCont_some hc
          have hokl : ∀ l ∈ cLinks g (some cg), g.entityId l.2 = some l.1 := by
            intro l hl
            have := (h.entries_ok hc l (by unfold contEntries; rw [hn]; exact hl)).2.2
            simpa [hfl, isPlainLike] using this
          have hcgo : cg ≠ c.owner.key := by
            intro e'
            rw [ho] at e'
            exact h.not_cont_of_owner hci (e' ▸ ⟨o.key, cn, c.info, hci, by rw [← hnode]; exact hn⟩)
          have hent : contEntries g c = g.links cg := by unfold contEntries cLinks; rw [hn]
          unfold Store.h5Delete at hres
          simp only at hres
          split at hres
          · cases hres
          · rename_i name hname
            have hnm : name = i := by
              split at hname
              · split at hname
                · rename_i l hl
                  cases hname
                  exact getByIdOrName_link_name hokl hl
                · cases hname
              · cases hname; rfl
            subst hnm
            split at hres
            · cases hres
            · split at hres
              · cases hres
                rw [links_delLink_ne _ _ hcgo, links_delLink_self, hent]
              · cases hres
                rw [links_delLink_self, hent]
        · cases hres

/-! ## ids never change -/

theorem h5Delete_getAttr {g g' : Graph} {grp parent depth : Nat} {lname x : String} {die : Bool}
    (hres : h5Delete g grp parent lname depth x die = .ok g') (k : Nat) (a : String) :
    g'.getAttr k a = g.getAttr k a := by
  unfold h5Delete at hres
  simp only at hres
  split at hres
  · cases hres
  · split at hres
    · cases hres
    · split at hres
      · cases hres; rw [getAttr_delLink, getAttr_delLink]
      · cases hres; rw [getAttr_delLink]

/-- deleting / unlinking changes no attribute of any node -/
theorem contDel_getAttr {g g' : Graph} {c : Cont} {key : Key} (hres : contDel g c key = .ok g')
    (k : Nat) (a : String) : g'.getAttr k a = g.getAttr k a := by
  unfold contDel at hres
  simp only at hres
  split at hres
  · cases hres
  · split at hres
    · cases hres
    · split at hres
      all_goals first
        | (cases hres; exact getAttr_deleteObjs ..)
        | (split at hres
           all_goals first
             | exact h5Delete_getAttr hres k a
             | cases hres)

/-- linking changes no attribute of any node -/
theorem contAppend_getAttr {g g' : Graph} {c : Cont} {key : Key} (hres : contAppend g c key = .ok g')
    (k : Nat) (a : String) : g'.getAttr k a = g.getAttr k a := by
  obtain ⟨_, _, _, _, e⟩ := contAppend_ok hres
  rw [e]
  unfold createLinkIn
  split
  · rw [getAttr_addLink, getAttr_delLink, getAttr_ensureGroup]
  · rw [getAttr_addLink, getAttr_ensureGroup]

/-- an attribute setter never writes `entity_id` -/
theorem setAttrOp_entityId {g g' : Graph} {p : Path} {attr : String} {v : Option String}
    (hres : setAttrOp g p attr v = .ok g') (k : Nat) : g'.entityId k = g.entityId k := by
  unfold setAttrOp at hres
  cases hr : resolve g rootLoc p with
  | none => simp [hr] at hres
  | some o =>
    simp only [hr] at hres
    split at hres
    · cases hres
    · rename_i hal
      have hal' : attrAllowed (kindOf g o.key) attr = true := by simpa using hal
      have hne : attr ≠ "entity_id" := by
        intro e; subst e; simp [attrAllowed] at hal'
      split at hres
      · cases hres
      · split at hres <;> cases hres <;>
          exact getAttr_setAttr_attr_ne g o.key k _ (Ne.symm hne)

/-- creating a block changes the id of no existing node -/
theorem WF.createBlock_entityId {g g' : Graph} (h : WF g) {name type : String}
    (hnf : ∀ m, g.nextId ≤ m → name ≠ idStr m) (hres : Store.createBlock g name type = .ok g')
    (k : Nat) (hk : k ∈ keys g) : g'.entityId k = g.entityId k := by
  obtain ⟨_, _, _, _, hne⟩ := h.createBlock_new hnf hres
  have hf := h.ensFacts "data" h.root
  rw [entityId_eq, hne.attrs_old k (hf.keys_mono k hk), hf.attrs]; rfl

/-- creating a section changes the id of no existing node -/
theorem WF.createSection_entityId {g g' : Graph} (h : WF g) {p : Path} {name type : String}
    (hnf : ∀ m, g.nextId ≤ m → name ≠ idStr m) (hres : Store.createSection g p name type = .ok g')
    (k : Nat) (hk : k ∈ keys g) : g'.entityId k = g.entityId k := by
  obtain ⟨o, _, _, hr, _, _, hne⟩ := h.createSection_new hnf hres
  cases p with
  | nil =>
    have hk' : k ∈ keys (sectionBase g [] o.key) := hk
    rw [entityId_eq, hne.attrs_old k hk']; rfl
  | cons s ps =>
    have hf := h.ensFacts "sections" (h.resolve_root_key hr)
    have hk' : k ∈ keys (sectionBase g (s :: ps) o.key) := hf.keys_mono k hk
    rw [entityId_eq, hne.attrs_old k hk']
    exact hf.attrs k _

/-! ## a legal new name is accepted (blocks) -/

theorem filter_ne_append_new {entries : List (String × Nat)} {name : String} {k : Nat}
    (hnew : ∀ l ∈ entries, l.1 ≠ name) :
    (entries ++ [(name, k)]).filter (fun l => l != (name, k)) = entries := by
  rw [List.filter_append]
  have h1 : entries.filter (fun l => l != (name, k)) = entries := by
    apply List.filter_eq_self.mpr
    intro l hl
    have := hnew l hl
    simp only [bne_iff_ne, ne_eq]
    intro e; rw [e] at this; exact this rfl
  rw [h1]; simp

theorem WF.legal_name_accepted_block {g : Graph} (h : WF g) {name type : String} {c : Cont}
    (hc : openCont g [] "data" = some c)
    (hn : name ≠ "") (hs : hasSlash name = false) (ht : type ≠ "")
    (hfresh : ∀ m, g.nextId ≤ m → name ≠ idStr m)
    (hnew : ∀ l ∈ contEntries g c, l.1 ≠ name) :
    ∃ g' k c', Store.createBlock g name type = .ok g' ∧ WF g' ∧ openCont g' [] "data" = some c' ∧
      contEntries g' c' = contEntries g c ++ [(name, k)] ∧
      g'.entityId k = some (g.freshId).2 ∧ (∀ k', g.entityId k' ≠ some (g.freshId).2) ∧
      contGet g' c' (.str (g.freshId).2) = .ok (name, k) ∧
      contHas g' c' (.str (g.freshId).2) = .ok true ∧
      contHas g' c' (.ent k) = .ok true ∧
      ((isUuid name = true → ∀ l ∈ contEntries g c, g.entityId l.2 ≠ some name) →
         contGet g' c' (.str name) = .ok (name, k) ∧ contHas g' c' (.str name) = .ok true ∧
         ∃ g'', Store.contDel g' c' (.str name) = .ok g'' ∧ cLinks g'' c'.node = contEntries g c) := by
  obtain ⟨o, hr, _, _, _, _, hnode⟩ := openCont_some hc
  have ho : o = rootLoc := by simpa [resolve] using hr.symm
  subst ho
  have hf := h.ensFacts "data" h.root
  have w0 : WF (g.ensureGroup 0 "data").1 :=
    h.ensureGroup "data" h.root h.not_cont_root (fun m _ => notId_of_head (by decide) m)
  -- the entries of `blocks` before the call, seen in the graph with the group opened
  have hold : cLinks (g.ensureGroup 0 "data").1 ((g.ensureGroup 0 "data").1.child? 0 "data") = contEntries g c := by
    unfold contEntries
    rw [hnode, hf.child]
    show (g.ensureGroup 0 "data").1.links (g.ensureGroup 0 "data").2 = cLinks g (g.child? rootLoc.key "data")
    cases hcc : g.child? 0 "data" with
    | some c' =>
      obtain ⟨e1, e2⟩ := hf.old c' hcc
      rw [e1, e2]
      show g.links c' = cLinks g (g.child? 0 "data")
      rw [hcc]; rfl
    | none =>
      rw [(hf.new hcc).1]
      show [] = cLinks g (g.child? 0 "data")
      rw [hcc]; rfl
  have hnodup : (g.ensureGroup 0 "data").1.hasChild (g.ensureGroup 0 "data").2 name = false := by
    rw [hasChild_false_iff]
    intro l hl
    apply hnew l
    rw [← hold, hf.child]; exact hl
  cases hcb : Store.createBlock g name type with
  | error e =>
    exfalso
    unfold Store.createBlock Store.entityCreateNew at hcb
    have hn' : (name == "") = false := by simpa using hn
    have ht' : (type == "") = false := by simpa using ht
    simp [hn, ht, hs, hnodup, hn', ht', Except.map] at hcb
  | ok g' =>
    obtain ⟨k, nm, hnm, _, hne⟩ := h.createBlock_new hfresh hcb
    have hnm' := hnm hn
    subst hnm'
    obtain ⟨cg, hcg, hlinks⟩ := hne.cont
    rw [hold] at hlinks
    let c' : Cont := { owner := rootLoc, ownerKind := "file", cname := "data",
                       info := { flavour := .plain, item := "block" }, node := some cg, block := none }
    have hc' : openCont g' [] "data" = some c' := by
      simp [openCont, resolve, ownerKindOf, rootLoc, containerInfo, blockOfPath, hcg, c']
    have hent' : contEntries g' c' = contEntries g c ++ [(nm, k)] := hlinks
    have hpl' : isPlainLike c'.info.flavour = true := rfl
    have hlen : contLen g' c' = contLen g c + 1 := by unfold contLen; rw [hent']; simp
    have hj : contLen g c < contLen g' c' := by omega
    have hlast : (contEntries g' c')[contLen g c]'hj = (nm, k) := by
      simp [hent', contLen]
    have hv := hne.wf.views_agree hc' hpl' (contLen g c) hj
    rw [hlast] at hv
    obtain ⟨_, _, ⟨i, hi, _, hgi, hhi⟩, hbyname, hent⟩ := hv
    have hik : i = (g.freshId).2 := by
      have := hne.eid; rw [hi] at this; exact Option.some.inj this
    subst hik
    have hfreshid : ∀ k', g.entityId k' ≠ some (g.freshId).2 := by
      intro k' e
      obtain ⟨n, hn1, hn2⟩ := h.ids_wf k' _ e
      have := idStr_inj hn2; omega
    refine ⟨g', k, c', rfl, hne.wf, hc', hent', hi, hfreshid, hgi, hhi, hent, ?_⟩
    intro hclash
    have hclash' : isUuid (nm, k).1 = true → ∀ l ∈ contEntries g' c', g'.entityId l.2 ≠ some (nm, k).1 := by
      intro hu l hl
      rw [hent'] at hl
      rcases List.mem_append.mp hl with hl | hl
      · have hlk : l.2 ∈ keys (g.ensureGroup 0 "data").1 := by
          apply w0.target_exists (g.ensureGroup 0 "data").2 l
          rw [← hold, hf.child] at hl; exact hl
        rw [entityId_eq, hne.attrs_old _ hlk, hf.attrs]
        exact hclash hu l hl
      · simp only [List.mem_singleton] at hl
        rw [hl, hi]
        intro e
        exact hfresh g.nextId (Nat.le_refl _) (Option.some.inj e).symm
    obtain ⟨hgn, hhn⟩ := hbyname hclash'
    refine ⟨hgn, hhn, ?_⟩
    obtain ⟨g'', hdel, hl''⟩ := hne.wf.contDel_plain hc' rfl hgn
    refine ⟨g'', hdel, ?_⟩
    rw [hl'', hent']
    exact filter_ne_append_new hnew

end Nix.Store.Lemmas
