import NixModel.Lemmas.StoreWFBasic
import NixModel.Lemmas.StoreViews

/-!
# The well-formedness invariant `WF` of graphs reachable through the nixio API

Definition and preservation by the *primitive* graph transformations under local preconditions.
The API functions (`Store/Api.lean`) are compositions of these (see `StoreWFOps.lean`).
-/
namespace Nix.Store.Lemmas
open Nix.Store Nix.Store.Graph

/-- kind of an owner as `openCont` sees it: the root is the file -/
def okind (g : Graph) (k : Nat) : String := if k == 0 then "file" else kindOf g k

theorem ownerKindOf_eq (g : Graph) (l : Loc) : ownerKindOf g l = okind g l.key := rfl

/-- `c` is the HDF5 group of some container of some entity (or of the file) -/
def IsCont (g : Graph) (c : Nat) : Prop :=
  ∃ k cn info, containerInfo (okind g k) cn = some info ∧ g.child? k cn = some c

/-- what an entry `(link name, target)` of a container described by `info` must look like:
the target has the item kind and an id; in owning containers (blocks, arrays, sections, sources …)
the link is named by the entity's `name`, in link lists and feature lists by its `entity_id` -/
def EntryOk (g : Graph) (info : CInfo) (l : String × Nat) : Prop :=
  kindOf g l.2 = info.item ∧ (∃ i, g.entityId l.2 = some i) ∧
  (if isPlainLike info.flavour = true then g.getAttr l.2 "name" = some l.1 else g.entityId l.2 = some l.1)

structure WF (g : Graph) : Prop where
  /-- node keys are unique -/
  keys_nodup : (keys g).Nodup
  /-- and below the next key -/
  keys_lt : ∀ k ∈ keys g, k < g.nextKey
  /-- the root group exists -/
  root : 0 ∈ keys g
  /-- every link leads to a node -/
  target_exists : ∀ k l, l ∈ g.links k → l.2 ∈ keys g
  /-- link names are unique per node -/
  names_nodup : ∀ k, ((g.links k).map (·.1)).Nodup
  /-- no link is named like an id that was not handed out yet -/
  names_not_future : ∀ k l, l ∈ g.links k → ∀ n, g.nextId ≤ n → l.1 ≠ idStr n
  /-- every entity id was handed out by the supply -/
  ids_wf : ∀ k i, g.entityId k = some i → ∃ n, n < g.nextId ∧ i = idStr n
  /-- entity ids are pairwise distinct (the histories have no copy operation) -/
  ids_distinct : ∀ k k' i, g.entityId k = some i → g.entityId k' = some i → k = k'
  /-- container groups are plain groups: not the root, no entity kind -/
  cont_plain : ∀ c, IsCont g c → c ≠ 0 ∧ kindOf g c = ""
  /-- a container group is linked only by its owner, under the container's name -/
  cont_unique : ∀ k cn info c, containerInfo (okind g k) cn = some info → g.child? k cn = some c →
    ∀ k' l, l ∈ g.links k' → l.2 = c → k' = k ∧ l.1 = cn
  /-- container typing -/
  typing : ∀ k cn info c, containerInfo (okind g k) cn = some info → g.child? k cn = some c →
    ∀ l ∈ g.links c, EntryOk g info l
  /-- the root group carries no entity kind -/
  root_kind : kindOf g 0 = ""
  /-- and no node poses as the file -/
  kind_not_file : ∀ k, kindOf g k ≠ "file"

/-! ## small facts -/

theorem containerInfo_empty (cn : String) : containerInfo "" cn = none := by simp [containerInfo]

theorem containerInfo_item_ne {ok cn : String} {info : CInfo} (h : containerInfo ok cn = some info) :
    info.item ≠ "" := by
  unfold containerInfo at h
  split at h <;> first | (cases h; decide) | cases h

theorem okind_congr {g g' : Graph} (h : ∀ k, g'.getAttr k "~kind" = g.getAttr k "~kind") (k : Nat) :
    okind g' k = okind g k := by
  unfold okind kindOf
  rw [h]

theorem WF.node_of_key {g : Graph} (_ : WF g) {k : Nat} (hk : k ∈ keys g) : (g.node? k).isSome :=
  (node?_isSome_iff g k).mpr hk

theorem WF.nextKey_fresh {g : Graph} (h : WF g) : g.nextKey ∉ keys g :=
  fun hk => Nat.lt_irrefl _ (h.keys_lt _ hk)

theorem WF.nextKey_node? {g : Graph} (h : WF g) : g.node? g.nextKey = none :=
  (node?_eq_none_iff g _).mpr h.nextKey_fresh

theorem WF.nextKey_pos {g : Graph} (h : WF g) : 0 < g.nextKey := h.keys_lt 0 h.root

theorem WF.child_mem {g : Graph} (h : WF g) {k t : Nat} {n : String} (hm : (n, t) ∈ g.links k) :
    g.child? k n = some t := child?_of_mem_nodup (h.names_nodup k) hm

/-- a node with an entity kind is not a container group -/
theorem WF.not_cont_of_kind {g : Graph} (h : WF g) {k : Nat} (hk : kindOf g k ≠ "") : ¬ IsCont g k :=
  fun hc => hk (h.cont_plain k hc).2

theorem WF.not_cont_root {g : Graph} (h : WF g) : ¬ IsCont g 0 :=
  fun hc => (h.cont_plain 0 hc).1 rfl

/-- an owner (something `containerInfo` knows) is not a container group -/
theorem WF.not_cont_of_owner {g : Graph} (h : WF g) {k : Nat} {cn : String} {info : CInfo}
    (hci : containerInfo (okind g k) cn = some info) : ¬ IsCont g k := by
  intro hc
  have := h.cont_plain k hc
  unfold okind at hci
  have h0 : (k == 0) = false := by simpa using this.1
  rw [h0, this.2] at hci
  simp [containerInfo_empty] at hci

/-! ## transfer: same keys and identity attributes, fewer links, more ids handed out -/

/-- `child?` in a graph whose link lists are sublists of a graph with unique link names -/
theorem child?_of_sublist {g g' : Graph} (hnd : ∀ k, ((g.links k).map (·.1)).Nodup)
    (hsub : ∀ k, (g'.links k).Sublist (g.links k)) {k t : Nat} {n : String}
    (h : g'.child? k n = some t) : g.child? k n = some t :=
  child?_of_mem_nodup (hnd k) ((hsub k).subset (child?_some_mem h))

theorem WF.transfer {g g' : Graph} (h : WF g)
    (hkeys : keys g' = keys g) (hnk : g'.nextKey = g.nextKey) (hni : g.nextId ≤ g'.nextId)
    (hlinks : ∀ k, (g'.links k).Sublist (g.links k))
    (hid : ∀ k, g'.getAttr k "entity_id" = g.getAttr k "entity_id")
    (hname : ∀ k, g'.getAttr k "name" = g.getAttr k "name")
    (hkind : ∀ k, g'.getAttr k "~kind" = g.getAttr k "~kind") : WF g' := by
  have hko : ∀ k, kindOf g' k = kindOf g k := fun k => by simp [kindOf_eq, hkind]
  have hok : ∀ k, okind g' k = okind g k := okind_congr hkind
  have heid : ∀ k, g'.entityId k = g.entityId k := fun k => by simp [entityId_eq, hid]
  have hch : ∀ {k t n}, g'.child? k n = some t → g.child? k n = some t :=
    fun hc => child?_of_sublist h.names_nodup hlinks hc
  have hcont : ∀ c, IsCont g' c → IsCont g c := by
    rintro c ⟨k, cn, info, h1, h2⟩
    exact ⟨k, cn, info, by rwa [hok] at h1, hch h2⟩
  refine ⟨by rw [hkeys]; exact h.keys_nodup, ?_, by rw [hkeys]; exact h.root, ?_, ?_, ?_, ?_, ?_, ?_, ?_, ?_, ?_, ?_⟩
  · intro k hk; rw [hnk]; exact h.keys_lt k (hkeys ▸ hk)
  · intro k l hl; rw [hkeys]; exact h.target_exists k l ((hlinks k).subset hl)
  · intro k; exact ((hlinks k).map _).nodup (h.names_nodup k)
  · intro k l hl n hn; exact h.names_not_future k l ((hlinks k).subset hl) n (Nat.le_trans hni hn)
  · intro k i hi
    obtain ⟨n, hn, e⟩ := h.ids_wf k i (by rwa [heid] at hi)
    exact ⟨n, Nat.lt_of_lt_of_le hn hni, e⟩
  · intro k k' i h1 h2; rw [heid] at h1 h2; exact h.ids_distinct k k' i h1 h2
  · intro c hc; rw [hko]; exact h.cont_plain c (hcont c hc)
  · intro k cn info c h1 h2 k' l hl hlc
    exact h.cont_unique k cn info c (by rwa [hok] at h1) (hch h2) k' l ((hlinks k').subset hl) hlc
  · intro k cn info c h1 h2 l hl
    have := h.typing k cn info c (by rwa [hok] at h1) (hch h2) l ((hlinks c).subset hl)
    unfold EntryOk at this ⊢
    rw [hko, heid, hname]; exact this
  · rw [hko]; exact h.root_kind
  · intro k; rw [hko]; exact h.kind_not_file k

/-- removing links (`del group[name]`) -/
theorem WF.delLink {g : Graph} (h : WF g) (p : Nat) (n : String) : WF (g.delLink p n) :=
  h.transfer (keys_delLink g p n) rfl (Nat.le_refl _) (fun k => links_delLink_sublist g p k n)
    (fun _ => getAttr_delLink ..) (fun _ => getAttr_delLink ..) (fun _ => getAttr_delLink ..)

/-- `delete_all` by id (the code before the repair; unused by the model) -/
theorem WF.deleteAll {g : Graph} (h : WF g) (ids : List String) : WF (g.deleteAll ids) :=
  h.transfer (keys_deleteAll g ids) rfl (Nat.le_refl _) (links_deleteAll_sublist g ids)
    (fun _ => getAttr_deleteAll ..) (fun _ => getAttr_deleteAll ..) (fun _ => getAttr_deleteAll ..)

/-- `delete_all` by object (the repaired code) -/
theorem WF.deleteObjs {g : Graph} (h : WF g) (ks : List Nat) : WF (g.deleteObjs ks) :=
  h.transfer (keys_deleteObjs g ks) rfl (Nat.le_refl _) (links_deleteObjs_sublist g ks)
    (fun _ => getAttr_deleteObjs ..) (fun _ => getAttr_deleteObjs ..) (fun _ => getAttr_deleteObjs ..)

/-- drawing an id -/
theorem WF.freshId {g : Graph} (h : WF g) : WF (g.freshId).1 :=
  h.transfer rfl rfl (Nat.le_succ _) (fun _ => List.Sublist.refl _) (fun _ => rfl) (fun _ => rfl) (fun _ => rfl)

/-- writing an attribute that is not one of the identity attributes -/
theorem WF.setAttr_other {g : Graph} (h : WF g) (k : Nat) {a : String} (v : Option String)
    (h1 : a ≠ "entity_id") (h2 : a ≠ "name") (h3 : a ≠ "~kind") : WF (g.setAttr k a v) :=
  h.transfer (keys_setAttr ..) rfl (Nat.le_refl _) (fun k' => by rw [links_setAttr]; exact List.Sublist.refl _)
    (fun _ => getAttr_setAttr_attr_ne g k _ v (Ne.symm h1))
    (fun _ => getAttr_setAttr_attr_ne g k _ v (Ne.symm h2))
    (fun _ => getAttr_setAttr_attr_ne g k _ v (Ne.symm h3))

/-! ## a new node -/

theorem WF.newNode {g : Graph} (h : WF g) (kd : NKind) : WF (g.newNode kd).1 := by
  have hko : ∀ k, kindOf (g.newNode kd).1 k = kindOf g k := fun k => by simp [kindOf_eq, getAttr_newNode]
  have hok : ∀ k, okind (g.newNode kd).1 k = okind g k := okind_congr fun k => getAttr_newNode ..
  have heid : ∀ k, (g.newNode kd).1.entityId k = g.entityId k := fun k => by simp [entityId_eq, getAttr_newNode]
  have hcont : ∀ c, IsCont (g.newNode kd).1 c → IsCont g c := by
    rintro c ⟨k, cn, info, h1, h2⟩
    exact ⟨k, cn, info, by rwa [hok] at h1, by rwa [child?_newNode] at h2⟩
  refine ⟨?_, ?_, ?_, ?_, ?_, ?_, ?_, ?_, ?_, ?_, ?_, ?_, ?_⟩
  · rw [keys_newNode]
    exact List.nodup_append.mpr ⟨h.keys_nodup, by simp, by
      intro a ha b hb
      simp only [List.mem_singleton] at hb
      subst hb
      exact fun e => h.nextKey_fresh (e ▸ ha)⟩
  · intro k hk
    rw [keys_newNode] at hk
    rw [nextKey_newNode]
    rcases List.mem_append.mp hk with hk | hk
    · exact Nat.lt_succ_of_lt (h.keys_lt k hk)
    · simp only [List.mem_singleton] at hk; omega
  · rw [keys_newNode]; exact List.mem_append_left _ h.root
  · intro k l hl
    rw [links_newNode] at hl
    rw [keys_newNode]; exact List.mem_append_left _ (h.target_exists k l hl)
  · intro k; rw [links_newNode]; exact h.names_nodup k
  · intro k l hl; rw [links_newNode] at hl; exact h.names_not_future k l hl
  · intro k i hi; rw [heid] at hi; exact h.ids_wf k i hi
  · intro k k' i h1 h2; rw [heid] at h1 h2; exact h.ids_distinct k k' i h1 h2
  · intro c hc; rw [hko]; exact h.cont_plain c (hcont c hc)
  · intro k cn info c h1 h2 k' l hl hlc
    rw [links_newNode] at hl
    exact h.cont_unique k cn info c (by rwa [hok] at h1) (by rwa [child?_newNode] at h2) k' l hl hlc
  · intro k cn info c h1 h2 l hl
    rw [links_newNode] at hl
    have := h.typing k cn info c (by rwa [hok] at h1) (by rwa [child?_newNode] at h2) l hl
    unfold EntryOk at this ⊢
    rw [hko, heid, getAttr_newNode]; exact this
  · rw [hko]; exact h.root_kind
  · intro k; rw [hko]; exact h.kind_not_file k

/-! ## orphans: nodes without links in or out (a node just made, before it is linked) -/

def Orphan (g : Graph) (k : Nat) : Prop :=
  k ≠ 0 ∧ g.links k = [] ∧ ∀ k' l, l ∈ g.links k' → l.2 ≠ k

theorem WF.orphan_newNode {g : Graph} (h : WF g) (kd : NKind) : Orphan (g.newNode kd).1 g.nextKey := by
  refine ⟨Nat.pos_iff_ne_zero.mp h.nextKey_pos, ?_, ?_⟩
  · rw [links_newNode]; exact links_of_node?_none h.nextKey_node?
  · intro k' l hl e
    rw [links_newNode] at hl
    exact h.nextKey_fresh (e ▸ h.target_exists k' l hl)

theorem Orphan.setAttr {g : Graph} {k : Nat} (h : Orphan g k) (k' : Nat) (a : String) (v : Option String) :
    Orphan (g.setAttr k' a v) k := by
  refine ⟨h.1, by rw [links_setAttr]; exact h.2.1, ?_⟩
  intro k'' l hl
  rw [links_setAttr] at hl
  exact h.2.2 k'' l hl

theorem Orphan.freshId {g : Graph} {k : Nat} (h : Orphan g k) : Orphan (g.freshId).1 k := h

theorem Orphan.not_cont {g : Graph} {k : Nat} (h : Orphan g k) : ¬ IsCont g k := by
  rintro ⟨k', cn, info, _, h2⟩
  exact h.2.2 k' _ (child?_some_mem h2) rfl

/-- any attribute may be written on an orphan; an `entity_id` must be a handed-out, unused id -/
theorem WF.setAttr_orphan {g : Graph} (h : WF g) {k : Nat} (ho : Orphan g k) (a : String) (v : Option String)
    (hidv : a = "entity_id" → ∃ n, v = some (idStr n) ∧ n < g.nextId ∧ ∀ k', g.entityId k' ≠ some (idStr n))
    (hkf : a = "~kind" → v ≠ some "file") :
    WF (g.setAttr k a v) := by
  have hattr : ∀ k' a', k' ≠ k → (g.setAttr k a v).getAttr k' a' = g.getAttr k' a' :=
    fun k' a' hk => getAttr_setAttr_ne g a v hk a'
  have hko : ∀ k', k' ≠ k → kindOf (g.setAttr k a v) k' = kindOf g k' := fun k' hk => by
    simp [kindOf_eq, hattr k' _ hk]
  have heid : ∀ k', k' ≠ k → (g.setAttr k a v).entityId k' = g.entityId k' := fun k' hk => by
    simp [entityId_eq, hattr k' _ hk]
  have hok : ∀ k', k' ≠ k → okind (g.setAttr k a v) k' = okind g k' := fun k' hk => by
    unfold okind; rw [hko k' hk]
  have hnochild : ∀ cn, g.child? k cn = none := fun cn => by
    rw [child?_none_iff, ho.2.1]; intro l hl; cases hl
  have hcont : ∀ c, IsCont (g.setAttr k a v) c → IsCont g c ∧ c ≠ k := by
    rintro c ⟨k', cn, info, h1, h2⟩
    rw [child?_setAttr] at h2
    have hk' : k' ≠ k := by
      intro e; subst e; rw [hnochild] at h2; cases h2
    refine ⟨⟨k', cn, info, by rwa [hok k' hk'] at h1, h2⟩, ?_⟩
    intro e; subst e
    exact ho.2.2 k' _ (child?_some_mem h2) rfl
  have howner : ∀ {k' cn info c}, containerInfo (okind (g.setAttr k a v) k') cn = some info →
      (g.setAttr k a v).child? k' cn = some c → containerInfo (okind g k') cn = some info ∧ g.child? k' cn = some c := by
    intro k' cn info c h1 h2
    rw [child?_setAttr] at h2
    have hk' : k' ≠ k := by
      intro e; subst e; rw [hnochild] at h2; cases h2
    exact ⟨by rwa [hok k' hk'] at h1, h2⟩
  refine ⟨by rw [keys_setAttr]; exact h.keys_nodup, ?_, by rw [keys_setAttr]; exact h.root, ?_, ?_, ?_, ?_, ?_, ?_, ?_, ?_, ?_, ?_⟩
  · intro k' hk'; rw [keys_setAttr] at hk'; exact h.keys_lt k' hk'
  · intro k' l hl; rw [links_setAttr] at hl; rw [keys_setAttr]; exact h.target_exists k' l hl
  · intro k'; rw [links_setAttr]; exact h.names_nodup k'
  · intro k' l hl; rw [links_setAttr] at hl; exact h.names_not_future k' l hl
  · intro k' i hi
    by_cases hk : k' = k
    · subst hk
      by_cases ha : a = "entity_id"
      · obtain ⟨n, hv, hn, _⟩ := hidv ha
        subst ha
        rw [entityId_eq, getAttr_setAttr] at hi
        simp only [and_self, ↓reduceIte] at hi
        split at hi
        · rw [hv] at hi; exact ⟨n, hn, by simpa using hi.symm⟩
        · cases hi
      · rw [entityId_eq, getAttr_setAttr_attr_ne g k' k' v (Ne.symm ha)] at hi
        exact h.ids_wf k' i hi
    · rw [heid k' hk] at hi; exact h.ids_wf k' i hi
  · have key : ∀ k' i, k' ≠ k → (g.setAttr k a v).entityId k = some i → g.entityId k' = some i → False := by
      intro k' i hk h1 h2
      by_cases ha : a = "entity_id"
      · obtain ⟨n, hv, _, hfr⟩ := hidv ha
        subst ha
        rw [entityId_eq, getAttr_setAttr] at h1
        simp only [and_self, ↓reduceIte] at h1
        split at h1
        · rw [hv] at h1
          have : i = idStr n := by simpa using h1.symm
          exact hfr k' (this ▸ h2)
        · cases h1
      · rw [entityId_eq, getAttr_setAttr_attr_ne g k k v (Ne.symm ha)] at h1
        exact hk (h.ids_distinct k' k i h2 h1)
    intro k1 k2 i h1 h2
    by_cases e1 : k1 = k
    · by_cases e2 : k2 = k
      · rw [e1, e2]
      · subst e1; rw [heid k2 e2] at h2; exact absurd (key k2 i e2 h1 h2) id
    · by_cases e2 : k2 = k
      · subst e2; rw [heid k1 e1] at h1; exact absurd (key k1 i e1 h2 h1) id
      · rw [heid k1 e1] at h1; rw [heid k2 e2] at h2; exact h.ids_distinct k1 k2 i h1 h2
  · intro c hc
    obtain ⟨hc1, hc2⟩ := hcont c hc
    rw [hko c hc2]; exact h.cont_plain c hc1
  · intro k' cn info c h1 h2 k'' l hl hlc
    obtain ⟨h1', h2'⟩ := howner h1 h2
    rw [links_setAttr] at hl
    exact h.cont_unique k' cn info c h1' h2' k'' l hl hlc
  · intro k' cn info c h1 h2 l hl
    obtain ⟨h1', h2'⟩ := howner h1 h2
    rw [links_setAttr] at hl
    have hlk : l.2 ≠ k := ho.2.2 c l hl
    have := h.typing k' cn info c h1' h2' l hl
    unfold EntryOk at this ⊢
    rw [hko l.2 hlk, heid l.2 hlk, hattr l.2 _ hlk]; exact this
  · rw [hko 0 (Ne.symm ho.1)]; exact h.root_kind
  · intro k'
    by_cases hk : k' = k
    · subst hk
      by_cases ha : a = "~kind"
      · subst ha
        rw [kindOf_eq, getAttr_setAttr]
        simp only [and_self, ↓reduceIte]
        split
        · intro e
          apply hkf rfl
          cases v with
          | none => simp at e
          | some s => simp at e; rw [e]
        · decide
      · rw [kindOf_eq, getAttr_setAttr_attr_ne g k' k' v (Ne.symm ha), ← kindOf_eq]
        exact h.kind_not_file k'
    · rw [hko k' hk]; exact h.kind_not_file k'

/-! ## adding a link -/

/-- a link that is not a container entry: a role link (`metadata`, `positions`, …), a leaf
dataset, or the link to a freshly made, still empty container group -/
theorem WF.addLink_plain {g : Graph} (h : WF g) {p t : Nat} {n : String}
    (hp : p ∈ keys g) (ht : t ∈ keys g) (hfree : g.child? p n = none)
    (hpc : ¬ IsCont g p) (htc : ¬ IsCont g t)
    (hnf : ∀ m, g.nextId ≤ m → n ≠ idStr m)
    (hci : ∀ info, containerInfo (okind g p) n = some info → Orphan g t ∧ kindOf g t = "" ∧ t ≠ p) :
    WF (g.addLink p n t) := by
  have hpn : (g.node? p).isSome := h.node_of_key hp
  have hko : ∀ k, kindOf (g.addLink p n t) k = kindOf g k := fun k => by simp [kindOf_eq, getAttr_addLink]
  have hok : ∀ k, okind (g.addLink p n t) k = okind g k := okind_congr fun k => getAttr_addLink ..
  have heid : ∀ k, (g.addLink p n t).entityId k = g.entityId k := fun k => by simp [entityId_eq, getAttr_addLink]
  -- an owner/container pair of the new graph is an old one, or the new link itself
  have howner : ∀ {k cn info c}, containerInfo (okind (g.addLink p n t) k) cn = some info →
      (g.addLink p n t).child? k cn = some c →
      (containerInfo (okind g k) cn = some info ∧ g.child? k cn = some c) ∨
      (k = p ∧ cn = n ∧ c = t ∧ Orphan g t ∧ kindOf g t = "" ∧ t ≠ p) := by
    intro k cn info c h1 h2
    rw [hok] at h1
    by_cases hk : k = p
    · subst hk
      by_cases hcn : cn = n
      · subst hcn
        rw [child?_addLink_self g cn t hpn hfree] at h2
        have := hci info h1
        exact Or.inr ⟨rfl, rfl, by simpa using h2.symm, this.1, this.2.1, this.2.2⟩
      · rw [child?_addLink_name_ne g k k t hcn] at h2
        exact Or.inl ⟨h1, h2⟩
    · rw [child?_addLink_ne g n t hk] at h2
      exact Or.inl ⟨h1, h2⟩
  refine ⟨by rw [keys_addLink]; exact h.keys_nodup, ?_, by rw [keys_addLink]; exact h.root, ?_, ?_, ?_, ?_, ?_, ?_, ?_, ?_, ?_, ?_⟩
  · intro k hk; rw [keys_addLink] at hk; exact h.keys_lt k hk
  · intro k l hl
    rw [keys_addLink]
    rcases mem_links_addLink hl with hl | ⟨_, hl⟩
    · exact h.target_exists k l hl
    · rw [hl]; exact ht
  · intro k
    by_cases hk : k = p
    · subst hk
      rw [links_addLink_self g n t hpn, List.map_append]
      refine List.nodup_append.mpr ⟨h.names_nodup k, by simp, ?_⟩
      intro a ha b hb
      simp only [List.map_cons, List.map_nil, List.mem_singleton] at hb
      subst hb
      obtain ⟨l, hl, e⟩ := List.mem_map.mp ha
      exact fun e' => (child?_none_iff.mp hfree) l hl (e.trans e')
    · rw [links_addLink_ne g n t hk]; exact h.names_nodup k
  · intro k l hl m hm
    rcases mem_links_addLink hl with hl | ⟨_, hl⟩
    · exact h.names_not_future k l hl m hm
    · rw [hl]; exact hnf m hm
  · intro k i hi; rw [heid] at hi; exact h.ids_wf k i hi
  · intro k k' i h1 h2; rw [heid] at h1 h2; exact h.ids_distinct k k' i h1 h2
  · rintro c ⟨k, cn, info, h1, h2⟩
    rw [hko]
    rcases howner h1 h2 with ⟨h1', h2'⟩ | ⟨_, _, e, ho, hk0, _⟩
    · exact h.cont_plain c ⟨k, cn, info, h1', h2'⟩
    · subst e; exact ⟨ho.1, hk0⟩
  · intro k cn info c h1 h2 k' l hl hlc
    rcases howner h1 h2 with ⟨h1', h2'⟩ | ⟨e1, e2, e3, ho, _, _⟩
    · rcases mem_links_addLink hl with hl | ⟨_, hl⟩
      · exact h.cont_unique k cn info c h1' h2' k' l hl hlc
      · exfalso
        apply htc
        rw [hl] at hlc
        simp only at hlc
        exact hlc ▸ ⟨k, cn, info, h1', h2'⟩
    · rcases mem_links_addLink hl with hl | ⟨e4, hl⟩
      · exact absurd (e3 ▸ hlc) (ho.2.2 k' l hl)
      · rw [hl]; exact ⟨e4.trans e1.symm, e2.symm⟩
  · intro k cn info c h1 h2 l hl
    rcases howner h1 h2 with ⟨h1', h2'⟩ | ⟨_, _, e3, ho, _, hcp⟩
    · have hcp : c ≠ p := fun e => hpc (e ▸ ⟨k, cn, info, h1', h2'⟩)
      rw [links_addLink_ne g n t hcp] at hl
      have := h.typing k cn info c h1' h2' l hl
      unfold EntryOk at this ⊢
      rw [hko, heid, getAttr_addLink]; exact this
    · rw [e3, links_addLink_ne g n t hcp, ho.2.1] at hl
      cases hl
  · rw [hko]; exact h.root_kind
  · intro k; rw [hko]; exact h.kind_not_file k

/-- a new entry of a container: the target is well-typed for it -/
theorem WF.addLink_entry {g : Graph} (h : WF g) {k c t : Nat} {cn n : String} {info : CInfo}
    (hci : containerInfo (okind g k) cn = some info) (hcc : g.child? k cn = some c)
    (ht : t ∈ keys g) (hfree : g.child? c n = none)
    (hnf : ∀ m, g.nextId ≤ m → n ≠ idStr m)
    (hok : EntryOk g info (n, t)) : WF (g.addLink c n t) := by
  have hc : IsCont g c := ⟨k, cn, info, hci, hcc⟩
  have hckeys : c ∈ keys g := h.target_exists k _ (child?_some_mem hcc)
  have hcn : (g.node? c).isSome := h.node_of_key hckeys
  have hcplain := h.cont_plain c hc
  have hko : ∀ k, kindOf (g.addLink c n t) k = kindOf g k := fun k => by simp [kindOf_eq, getAttr_addLink]
  have hokd : ∀ k, okind (g.addLink c n t) k = okind g k := okind_congr fun k => getAttr_addLink ..
  have heid : ∀ k, (g.addLink c n t).entityId k = g.entityId k := fun k => by simp [entityId_eq, getAttr_addLink]
  have htc : ¬ IsCont g t := h.not_cont_of_kind (by rw [hok.1]; exact containerInfo_item_ne hci)
  have howner : ∀ {k' cn' info' c'}, containerInfo (okind (g.addLink c n t) k') cn' = some info' →
      (g.addLink c n t).child? k' cn' = some c' →
      containerInfo (okind g k') cn' = some info' ∧ g.child? k' cn' = some c' := by
    intro k' cn' info' c' h1 h2
    rw [hokd] at h1
    have hk' : k' ≠ c := by
      intro e; subst e
      unfold okind at h1
      have h0 : (k' == 0) = false := by simpa using hcplain.1
      rw [h0, hcplain.2] at h1
      simp [containerInfo_empty] at h1
    rw [child?_addLink_ne g n t hk'] at h2
    exact ⟨h1, h2⟩
  refine ⟨by rw [keys_addLink]; exact h.keys_nodup, ?_, by rw [keys_addLink]; exact h.root, ?_, ?_, ?_, ?_, ?_, ?_, ?_, ?_, ?_, ?_⟩
  · intro k hk; rw [keys_addLink] at hk; exact h.keys_lt k hk
  · intro k l hl
    rw [keys_addLink]
    rcases mem_links_addLink hl with hl | ⟨_, hl⟩
    · exact h.target_exists k l hl
    · rw [hl]; exact ht
  · intro k'
    by_cases hk : k' = c
    · subst hk
      rw [links_addLink_self g n t hcn, List.map_append]
      refine List.nodup_append.mpr ⟨h.names_nodup k', by simp, ?_⟩
      intro a ha b hb
      simp only [List.map_cons, List.map_nil, List.mem_singleton] at hb
      subst hb
      obtain ⟨l, hl, e⟩ := List.mem_map.mp ha
      exact fun e' => (child?_none_iff.mp hfree) l hl (e.trans e')
    · rw [links_addLink_ne g n t hk]; exact h.names_nodup k'
  · intro k' l hl m hm
    rcases mem_links_addLink hl with hl | ⟨_, hl⟩
    · exact h.names_not_future k' l hl m hm
    · rw [hl]; exact hnf m hm
  · intro k' i hi; rw [heid] at hi; exact h.ids_wf k' i hi
  · intro k1 k2 i h1 h2; rw [heid] at h1 h2; exact h.ids_distinct k1 k2 i h1 h2
  · rintro c' ⟨k', cn', info', h1, h2⟩
    obtain ⟨h1', h2'⟩ := howner h1 h2
    rw [hko]; exact h.cont_plain c' ⟨k', cn', info', h1', h2'⟩
  · intro k' cn' info' c' h1 h2 k'' l hl hlc
    obtain ⟨h1', h2'⟩ := howner h1 h2
    rcases mem_links_addLink hl with hl | ⟨_, hl⟩
    · exact h.cont_unique k' cn' info' c' h1' h2' k'' l hl hlc
    · exfalso
      apply htc
      rw [hl] at hlc
      simp only at hlc
      exact hlc ▸ ⟨k', cn', info', h1', h2'⟩
  · intro k' cn' info' c' h1 h2 l hl
    obtain ⟨h1', h2'⟩ := howner h1 h2
    have hentry : EntryOk g info' l := by
      rcases mem_links_addLink hl with hl1 | ⟨e, hl2⟩
      · exact h.typing k' cn' info' c' h1' h2' l hl1
      · subst e
        -- the container has one owner, so `info' = info`
        obtain ⟨e1, e2⟩ := h.cont_unique k' cn' info' c' h1' h2' k (cn, c') (child?_some_mem hcc) rfl
        subst e1
        simp only at e2
        subst e2
        rw [hci] at h1'
        cases h1'
        rw [hl2]; exact hok
    unfold EntryOk at hentry ⊢
    rw [hko, heid, getAttr_addLink]; exact hentry
  · rw [hko]; exact h.root_kind
  · intro k; rw [hko]; exact h.kind_not_file k

end Nix.Store.Lemmas
