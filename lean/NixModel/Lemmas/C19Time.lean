import NixModel.Pure.Time
import NixModel.Lemmas.C19Days

/-!
# C19 — `strToTime (timeToStr t) = t` for every whole second 1970 … 2100

Digits and seconds-of-day by arithmetic (`omega`), the date by the kernel-checked day table
(`Nix.Civil.dayOk_of_lt`), lifted to every `t` by `t = 86400·d + s`.
-/
namespace Nix.Time.Lemmas
open Nix.Civil Nix.Time

theorem digit_table : ∀ k, k < 10 →
    isDigit (Char.ofNat (48 + k)) = true ∧ digitVal (Char.ofNat (48 + k)) = k := by decide

theorem isDigit_digitChar (n : Nat) : isDigit (digitChar n) = true :=
  (digit_table (n % 10) (Nat.mod_lt _ (by decide))).1

theorem digitVal_digitChar (n : Nat) : digitVal (digitChar n) = n % 10 :=
  (digit_table (n % 10) (Nat.mod_lt _ (by decide))).2

theorem num2_pad (n : Nat) (h : n < 100) : num2 (digitChar (n / 10)) (digitChar n) = n := by
  simp only [num2, digitVal_digitChar]; omega

theorem num4_year (y : Nat) (h : y < 10000) :
    num4 (digitChar (y / 1000)) (digitChar (y / 100)) (digitChar (y / 10)) (digitChar y) = y := by
  simp only [num4, digitVal_digitChar]; omega

theorem daysInMonth_le (y m : Nat) : daysInMonth y m ≤ 31 := by
  unfold daysInMonth
  split
  · split <;> omega
  · split
    · omega
    · split <;> omega

/-- the string written for a date with a 4-digit year parses back -/
theorem parse_format (y m d sod : Nat) (hy : 1000 ≤ y) (hv : validDate y m d = true)
    (hs : sod < 86400) :
    strToTime (yearDigits y ++ pad2 m ++ pad2 d ++ ['T'] ++ pad2 (sod / 3600) ++
        pad2 (sod % 3600 / 60) ++ pad2 (sod % 60))
      = .ok ((((dayOfCivil y m d : Nat) : Int) - (epochShift : Int)) * 86400 + (sod : Int)) := by
  have hv' := hv
  simp only [validDate, Bool.and_eq_true, decide_eq_true_eq] at hv'
  obtain ⟨⟨⟨⟨⟨h1, h2⟩, h3⟩, h4⟩, h5⟩, h6⟩ := hv'
  have hd31 := daysInMonth_le y m
  have hy4 : ¬ y < 10 ∧ ¬ y < 100 ∧ ¬ y < 1000 := by omega
  simp only [yearDigits, hy4.1, hy4.2.1, hy4.2.2, if_false, pad2, List.cons_append, List.nil_append,
    strToTime, isDigit_digitChar, List.all_cons, List.all_nil, Bool.and_self,
    beq_self_eq_true, Bool.true_or, if_true]
  rw [num4_year y (by omega), num2_pad m (by omega), num2_pad d (by omega),
    num2_pad (sod / 3600) (by omega), num2_pad (sod % 3600 / 60) (by omega),
    num2_pad (sod % 60) (by omega)]
  have hh : (sod / 3600 ≤ 23) ∧ (sod % 3600 / 60 ≤ 59) ∧ (sod % 60 ≤ 59) := by omega
  simp only [hv, hh.1, hh.2.1, hh.2.2, decide_true, Bool.and_self, if_true]
  congr 2
  omega

theorem roundtrip (t : Int) (h : InRange t) : (timeToStr t).bind strToTime = .ok t := by
  obtain ⟨h0, h1⟩ := h
  have hdn : (t / 86400).toNat < days2100 := by unfold days2100; omega
  have hok := dayOk_of_lt _ hdn
  simp only [dayOk, Bool.and_eq_true, beq_iff_eq, decide_eq_true_eq] at hok
  obtain ⟨⟨⟨hback, hvalid⟩, hlo⟩, hhi⟩ := hok
  have hz : ¬ (t / 86400 + (epochShift : Int) < 0) := by unfold epochShift; omega
  have hzn : (t / 86400 + (epochShift : Int)).toNat = (t / 86400).toNat + epochShift := by
    unfold epochShift; omega
  have hyr : ¬ ((civilOfDay ((t / 86400).toNat + epochShift)).1 < 1 ∨
      (civilOfDay ((t / 86400).toNat + epochShift)).1 > 9999) := by omega
  simp only [timeToStr, hz, if_false, hzn, Bool.or_eq_true, decide_eq_true_eq, hyr, Except.bind]
  rw [parse_format _ _ _ _ (by omega) hvalid (by omega), hback]
  refine congrArg Except.ok ?_
  unfold epochShift
  omega

end Nix.Time.Lemmas
