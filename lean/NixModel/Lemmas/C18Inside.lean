import NixModel.Pure.UpgradeInside
import NixModel.Lemmas.C18Clean

/-! interruption inside one property conversion: the property is never scheduled again -/
namespace Nix.Upgrade.Lemmas
open Nix.Upgrade

theorem createAll_prefix (es : List (Path × PObj)) : ∀ ps : List (Path × PObj),
    ∃ n, (createAll ps es).1 = ps ++ es.take n := by
  induction es with
  | nil => intro ps; exact ⟨0, by simp [createAll]⟩
  | cons e es ih =>
    intro ps
    simp only [createAll]
    cases hp : hasPath ps e.1 with
    | true => exact ⟨0, by simp⟩
    | false =>
      obtain ⟨n, hn⟩ := ih (ps ++ [e])
      exact ⟨n + 1, by simp [hn]⟩

theorem oldPaths_sublist_nil {l l' : List (Path × PObj)} (hs : l'.Sublist l) (h : oldPaths l = []) :
    oldPaths l' = [] := by
  rw [List.eq_nil_iff_forall_not_mem] at h ⊢
  intro q hq
  obtain ⟨o, ho⟩ := mem_oldPaths hq
  exact h q (mem_oldPaths_of_mem (hs.subset ho))

/-- whatever the point inside the conversion of `p`: afterwards `p` is not a compound dataset any more -/
theorem inside_not_old {run : Nat} {f : File} {p : Path} {o : OldProp} (c : Nat)
    (ho : lookup f.props p = some (.old o)) (hfree : nameTaken f.props (converted run p o) = false) :
    p ∉ oldPaths (convertPropTake run f p c).1.props := by
  unfold convertPropTake
  rw [ho]
  simp only [hfree, Bool.false_eq_true, ↓reduceIte]
  obtain ⟨n, hn⟩ := createAll_prefix ((converted run p o).take c) (f.props.filter (·.1 != p))
  rw [hn, oldPaths_append, oldPaths_filter,
    oldPaths_sublist_nil ((List.take_sublist _ _).trans (List.take_sublist _ _)) (oldPaths_converted run p o)]
  simp

/-- … so no later `collect_tasks` schedules it -/
theorem inside_not_scheduled {run : Nat} {f : File} {p : Path} {o : OldProp} (lib : List Nat) (c : Nat)
    (ho : lookup f.props p = some (.old o)) (hfree : nameTaken f.props (converted run p o) = false) :
    Step.prop p ∉ collect lib (convertPropTake run f p c).1 := by
  have h := inside_not_old (run := run) c ho hfree
  intro hm
  unfold collect at hm
  split at hm
  · cases hm
  · simp only [List.mem_append, List.mem_map, List.mem_singleton, reduceCtorEq, or_false] at hm
    rcases hm with (hm | ⟨q, hq, he⟩) | ⟨ad, _, he⟩
    · split at hm <;> simp at hm
    · injection he with he
      subst he
      unfold propTasks at hq
      exact h ((List.mergeSort_perm _ _).mem_iff.mp hq)
    · cases he

/-- cut before the first `create_property` call: the dataset is gone -/
theorem inside_zero_gone {run : Nat} {f : File} {p : Path} {o : OldProp}
    (ho : lookup f.props p = some (.old o)) (hfree : nameTaken f.props (converted run p o) = false) :
    hasPath (convertPropTake run f p 0).1.props p = false ∧ (convertPropTake run f p 0).2 = none := by
  unfold convertPropTake
  rw [ho]
  simp [createAll, hasPath, hfree]

/-- a refused conversion (a needed name is taken) leaves the file as it is, wherever it would have been cut -/
theorem inside_refused {run : Nat} {f : File} {p : Path} {o : OldProp} (c : Nat)
    (ho : lookup f.props p = some (.old o)) (htaken : nameTaken f.props (converted run p o) = true) :
    convertPropTake run f p c = (f, some .valueError) ∧ convertProp run f p = (f, some .valueError) := by
  unfold convertPropTake convertProp
  rw [ho]
  simp [htaken]

/-- cut after the last call: the complete conversion -/
theorem inside_full {run : Nat} {f : File} {p : Path} (c : Nat)
    (hc : ∀ o, lookup f.props p = some (.old o) → (converted run p o).length ≤ c) :
    convertPropTake run f p c = convertProp run f p := by
  unfold convertPropTake convertProp
  cases h : lookup f.props p with
  | none => rfl
  | some x =>
    cases x with
    | new n => rfl
    | old o => simp only; rw [List.take_of_length_le (hc o h)]

/-- a dimension group holding both the new link group and the old alias link: never scheduled, a stale task
fails on it (`create_h5group`: name exists), and it reads like the converted dimension -/
theorem half_converted_dim (run : Nat) (daid : String) (a : Arr) (d : Dim) (h : d.halfConverted = true) :
    isAliasDim d = false ∧ convertDimObj run daid d = (d, some .valueError) ∧
    readDim a d = ⟨a.data, a.unit, a.label⟩ := by
  unfold Dim.halfConverted at h
  simp only [Bool.and_eq_true, Option.isNone_iff_eq_none, Option.isSome_iff_exists] at h
  obtain ⟨⟨ht, l, hl⟩, ha⟩ := h
  refine ⟨by simp [isAliasDim, hl], by simp [convertDimObj, ht, hl, ha], ?_⟩
  simp [readDim, hl]

end Nix.Upgrade.Lemmas
