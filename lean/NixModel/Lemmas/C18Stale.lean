import NixModel.Lemmas.C18Total

/-!
A task list collected *before* an interrupted run, processed completely on what the interruption left
(`nixio upgrade a.nix ./a.nix` interrupted in the first list and started again, a second instance of the tool):
every step the interrupted run already made is recognised as done by its re-check and changes nothing, the
remaining steps are exactly what a fresh `collect_tasks` would schedule.
-/
namespace Nix.Upgrade.Lemmas
open Nix.Upgrade

/-- the re-check of step `s` finds its work done on `g` -/
def StepDone (lib : List Nat) (g : File) : Step → Prop
  | .addId => hasValidId g = true
  | .prop p => ∃ n, (p, PObj.new n) ∈ g.props
  | .dim ap dn => ∃ a d, dimAt ap dn g.arrays = some (a, d) ∧ Skips d = true
  | .bump => g.version = lib

/-- a step whose work is done changes nothing and does not fail -/
theorem stepDone_apply {lib : List Nat} {r : Nat} {g : File} {s : Step} (hnd : (g.props.map (·.1)).Nodup)
    (h : StepDone lib g s) : applyStep lib r g s = (g, none) := by
  cases s with
  | addId =>
    have h' : hasValidId g = true := h
    simp [applyStep, h']
  | prop p =>
    obtain ⟨n, hn⟩ := h
    simp [applyStep, convertProp, lookup_of_mem hnd hn]
  | dim ap dn =>
    obtain ⟨a, d, hat, hsk⟩ := h
    simp [applyStep, convertDim, updArrs_skip hat hsk]
  | bump =>
    have h' : g.version = lib := h
    cases g
    simp only [applyStep, Prod.mk.injEq, and_true]
    simp_all

theorem createAll_mem (es : List (Path × PObj)) : ∀ (ps : List (Path × PObj)) (e : Path × PObj),
    e ∈ ps → e ∈ (createAll ps es).1 := by
  intro ps e he
  obtain ⟨n, hn⟩ := createAll_prefix es ps
  rw [hn]
  exact List.mem_append_left _ he

/-- a plain property stays what it is under every step -/
theorem applyStep_keepNew (lib : List Nat) (r : Nat) (f : File) (t : Step) (hnd : (f.props.map (·.1)).Nodup)
    {p : Path} {n : NewProp} (h : (p, PObj.new n) ∈ f.props) : (p, PObj.new n) ∈ (applyStep lib r f t).1.props := by
  cases t with
  | addId =>
    simp only [applyStep]
    cases hasValidId f <;> exact h
  | prop q =>
    simp only [applyStep]
    unfold convertProp
    cases hl : lookup f.props q with
    | none => exact h
    | some x =>
      cases x with
      | new m => exact h
      | old o =>
        simp only
        cases ht : nameTaken f.props (converted r q o) with
        | true => exact h
        | false =>
          simp only [Bool.false_eq_true, ↓reduceIte]
          apply createAll_mem
          refine mem_filter_ne.mpr ⟨h, ?_⟩
          intro hpq
          simp only at hpq
          subst hpq
          rw [lookup_of_mem hnd h] at hl
          cases hl
  | dim a d =>
    simp only [applyStep]
    rw [(convertDim_props r f a d).1]
    exact h
  | bump => exact h

theorem convertDimObj_keeps_skips {r : Nat} {daid : String} {d : Dim} (h : Skips d = true) :
    Skips (convertDimObj r daid d).1 = true := by
  rw [convertDimObj_skips h]; exact h

/-- work that is done stays done under every step -/
theorem stepDone_step {lib : List Nat} {r : Nat} {g : File} {s : Step} (t : Step)
    (hnd : (g.props.map (·.1)).Nodup) (h : StepDone lib g s) : StepDone lib (applyStep lib r g t).1 s := by
  cases s with
  | addId => exact applyStep_validId h
  | prop p =>
    obtain ⟨n, hn⟩ := h
    exact ⟨n, applyStep_keepNew lib r g t hnd hn⟩
  | dim ap dn =>
    obtain ⟨a, d, hat, hsk⟩ := h
    cases t with
    | addId =>
      simp only [applyStep]
      cases hasValidId g <;> exact ⟨a, d, hat, hsk⟩
    | prop q =>
      simp only [applyStep]
      show ∃ a d, dimAt ap dn (convertProp r g q).1.arrays = some (a, d) ∧ Skips d = true
      rw [(convertProp_kept r g q hnd).2.2.1]
      exact ⟨a, d, hat, hsk⟩
    | dim ap' dn' =>
      simp only [applyStep]
      unfold convertDim
      cases hu : updArrs r ap' dn' g.arrays with
      | none => exact ⟨a, d, hat, hsk⟩
      | some y =>
        obtain ⟨as', e⟩ := y
        obtain ⟨a', d', hat', hrel⟩ := dimAt_updArrs hu hat
        refine ⟨a', d', hat', ?_⟩
        rcases hrel with h1 | ⟨_, _, h3⟩
        · rw [h1]; exact hsk
        · rw [h3]; exact convertDimObj_keeps_skips hsk
    | bump => exact ⟨a, d, hat, hsk⟩
  | bump =>
    have h' : g.version = lib := h
    cases t with
    | bump => rfl
    | addId => exact (applyStep_version (by simp)).trans h'
    | prop q => exact (applyStep_version (by simp)).trans h'
    | dim a d => exact (applyStep_version (by simp)).trans h'

theorem stepDone_runSteps {lib : List Nat} {r : Nat} {s : Step} (ss : List Step) : ∀ g : File,
    (g.props.map (·.1)).Nodup → StepDone lib g s → StepDone lib (runSteps lib r g ss).1 s := by
  induction ss with
  | nil => intro g _ h; exact h
  | cons t ss ih =>
    intro g hnd h
    rw [runSteps_cons]
    have h1 := (applyStep_kept lib r g t hnd).1
    have h2 := stepDone_step (r := r) t hnd h
    generalize applyStep lib r g t = res at h1 h2
    obtain ⟨g', e⟩ := res
    cases e with
    | some e => exact h2
    | none => exact ih g' h1 h2

theorem dimIn_updDims_same {r : Nat} {daid dn : String} : ∀ {ds ds' : List Dim} {e : Option Err} {d : Dim},
    updDims r daid dn ds = some (ds', e) → dimIn dn ds = some d →
    dimIn dn ds' = some (convertDimObj r daid d).1 := by
  intro ds
  induction ds with
  | nil => intro ds' e d h; simp [updDims] at h
  | cons x ds ih =>
    intro ds' e d h hd
    simp only [updDims] at h
    simp only [dimIn] at hd
    cases hx : x.name == dn with
    | true =>
      simp only [hx, ↓reduceIte, Option.some.injEq, Prod.mk.injEq] at h hd
      obtain ⟨h1, _⟩ := h
      subst h1 hd
      simp only [dimIn, convertDimObj_name, hx, ↓reduceIte]
    | false =>
      simp only [hx, Bool.false_eq_true, ↓reduceIte] at h hd
      cases hu : updDims r daid dn ds with
      | none => simp [hu] at h
      | some y =>
        obtain ⟨ds2, e2⟩ := y
        simp only [hu, Option.map_some, Option.some.injEq, Prod.mk.injEq] at h
        obtain ⟨h1, _⟩ := h
        subst h1
        simp only [dimIn, hx, Bool.false_eq_true, ↓reduceIte]
        exact ih hu hd

/-- converting `(ap, dn)` converts exactly the dimension group that address leads to -/
theorem dimAt_updArrs_same {r : Nat} {ap dn : String} : ∀ {as as' : List Arr} {e : Option Err} {a : Arr} {d : Dim},
    updArrs r ap dn as = some (as', e) → dimAt ap dn as = some (a, d) →
    ∃ a', dimAt ap dn as' = some (a', (convertDimObj r a.id d).1) := by
  intro as
  induction as with
  | nil => intro as' e a d h; simp [updArrs] at h
  | cons x as ih =>
    intro as' e a d h hd
    simp only [updArrs] at h
    simp only [dimAt] at hd
    cases hx : x.path == ap with
    | true =>
      simp only [hx, ↓reduceIte] at h hd
      cases hu : updDims r x.id dn x.dims with
      | none => simp [hu] at h
      | some y =>
        obtain ⟨ds2, e2⟩ := y
        simp only [hu, Option.map_some, Option.some.injEq, Prod.mk.injEq] at h
        obtain ⟨h1, _⟩ := h
        subst h1
        cases hdi : dimIn dn x.dims with
        | none => simp [hdi] at hd
        | some d0 =>
          simp only [hdi, Option.map_some, Option.some.injEq, Prod.mk.injEq] at hd
          obtain ⟨ha, hd0⟩ := hd
          subst ha hd0
          refine ⟨{ x with dims := ds2 }, ?_⟩
          simp only [dimAt, hx, ↓reduceIte, dimIn_updDims_same hu hdi, Option.map_some]
    | false =>
      simp only [hx, Bool.false_eq_true, ↓reduceIte] at h hd
      cases hu : updArrs r ap dn as with
      | none => simp [hu] at h
      | some y =>
        obtain ⟨as2, e2⟩ := y
        simp only [hu, Option.map_some, Option.some.injEq, Prod.mk.injEq] at h
        obtain ⟨h1, _⟩ := h
        subst h1
        simp only [dimAt, hx, Bool.false_eq_true, ↓reduceIte]
        exact ih hu hd

/-- the step at the head of a collected list, once it succeeded, is done -/
theorem stepDone_head {lib : List Nat} {r : Nat} {f f' : File} {s : Step} {rest : List Step} (hwf : WF f)
    (hc : collect lib f = s :: rest) (hs : applyStep lib r f s = (f', none)) : StepDone lib f' s := by
  rcases head_class hc with rfl | ⟨p, t, rfl, hp⟩ | ⟨ap, dn, D, rfl, hd⟩ | rfl
  · have := addId_valid lib r f
    rw [hs] at this
    exact this
  · have hmem : p ∈ oldPaths f.props := by
      have : p ∈ propTasks f := by rw [hp]; simp
      exact List.mem_mergeSort.mp this
    obtain ⟨o, ho⟩ := mem_oldPaths hmem
    have hl := lookup_of_mem hwf.1 ho
    simp only [applyStep] at hs
    obtain ⟨_, hg, he⟩ := convertProp_old_ok hl hs
    subst hg
    refine ⟨mainOf r o, ?_⟩
    simp only
    rw [createAll_ok _ _ he, converted_eq]
    simp
  · simp only [applyStep] at hs
    unfold convertDim at hs
    cases hu : updArrs r ap dn f.arrays with
    | none => simp [hu] at hs
    | some y =>
      obtain ⟨as', e⟩ := y
      simp only [hu, Prod.mk.injEq] at hs
      obtain ⟨hg, he⟩ := hs
      subst hg
      obtain ⟨a, d, hat, hal⟩ := mem_aliasDims_dimAt hwf.2.1 hwf.2.2 (by rw [hd]; simp : (ap, dn) ∈ aliasDims f.arrays)
      obtain ⟨a', hat'⟩ := dimAt_updArrs_same hu hat
      exact ⟨a', _, hat', convertDimObj_alias_skips hal⟩
  · simp only [applyStep, Prod.mk.injEq, and_true] at hs
    subst hs
    rfl

/-- after a successful prefix of `k` steps of the collected list, every one of those steps is done -/
theorem prefix_steps_done {lib : List Nat} {r : Nat} : ∀ (k : Nat) {f g : File}, WF f →
    runSteps lib r f ((collect lib f).take k) = (g, none) →
    ∀ s ∈ (collect lib f).take k, StepDone lib g s := by
  intro k
  induction k with
  | zero => intro f g _ _ s hs; simp at hs
  | succ k ih =>
    intro f g hwf h s hs
    cases hc : collect lib f with
    | nil => rw [hc] at hs; simp at hs
    | cons s0 rest =>
      rw [hc, List.take_succ_cons] at h hs
      rw [runSteps_cons] at h
      cases hs0 : applyStep lib r f s0 with
      | mk f' e =>
        cases e with
        | some e => rw [hs0] at h; simp at h
        | none =>
          rw [hs0] at h
          simp only at h
          obtain ⟨hwf', hc'⟩ := collect_step hwf hc hs0
          rw [← hc'] at h hs
          rcases List.mem_cons.mp hs with rfl | hs'
          · have hd := stepDone_head hwf hc hs0
            have := stepDone_runSteps (r := r) ((collect lib f').take k) f' hwf'.1 hd
            rw [h] at this
            exact this
          · exact ih hwf' h s hs'

/-- the stale list on what the interruption left = a fresh upgrade of what the interruption left -/
theorem stale_after_prefix {lib : List Nat} {r1 r2 : Nat} (k : Nat) {f g : File} (hwf : WF f)
    (hi : runSteps lib r1 f ((collect lib f).take k) = (g, none)) :
    runSteps lib r2 g (collect lib f) = upgrade lib r2 g := by
  obtain ⟨hwfg, hcg⟩ := collect_after_prefix k hwf hi
  have hdone := prefix_steps_done k hwf hi
  conv => lhs; rw [← List.take_append_drop k (collect lib f), runSteps_append]
  rw [runSteps_id (fun s hs => stepDone_apply hwfg.1 (hdone s hs))]
  simp only [upgrade, hcg]

/-! ### what an interrupted run has kept -/

/-- `run_induction_ok` for a successful prefix of the collected list -/
theorem prefix_induction_ok {lib : List Nat} {r : Nat} (P : File → Prop)
    (hstep : ∀ g s rest g', WF g → P g → collect lib g = s :: rest → applyStep lib r g s = (g', none) → P g') :
    ∀ (k : Nat) {f g : File}, WF f → P f → runSteps lib r f ((collect lib f).take k) = (g, none) → P g := by
  intro k
  induction k with
  | zero =>
    intro f g _ hP h
    simp only [List.take_zero, runSteps_nil, Prod.mk.injEq, and_true] at h
    subst h
    exact hP
  | succ k ih =>
    intro f g hwf hP h
    cases hc : collect lib f with
    | nil =>
      rw [hc] at h
      simp only [List.take_nil, runSteps_nil, Prod.mk.injEq, and_true] at h
      subst h
      exact hP
    | cons s rest =>
      rw [hc, List.take_succ_cons, runSteps_cons] at h
      cases hs : applyStep lib r f s with
      | mk f' e =>
        cases e with
        | some e => rw [hs] at h; simp at h
        | none =>
          rw [hs] at h
          simp only at h
          obtain ⟨hwf', hc'⟩ := collect_step hwf hc hs
          rw [← hc'] at h
          exact ih hwf' (hstep f s rest f' hwf hP hc hs) h

/-- arrays with their dimension readings and everything else are as before at every interruption point, also when
the run was refused at an earlier step -/
theorem interrupt_rest_kept {lib : List Nat} {r : Nat} (k : Nat) {f : File} (hwf : WF f) :
    (interrupt lib r k f).1.arrays.map arrView = f.arrays.map arrView ∧ (interrupt lib r k f).1.other = f.other := by
  have ok : ∀ (j : Nat) (g : File), interrupt lib r j f = (g, none) →
      g.arrays.map arrView = f.arrays.map arrView ∧ g.other = f.other := by
    intro j g hj
    refine prefix_induction_ok (lib := lib) (r := r)
      (fun g => g.arrays.map arrView = f.arrays.map arrView ∧ g.other = f.other) ?_ j hwf ⟨rfl, rfl⟩ hj
    intro g s rest g' hwfg hP hc hs
    rcases head_class hc with rfl | ⟨p, t, rfl, _⟩ | ⟨ap, dn, D, rfl, hd⟩ | rfl
    · simp only [applyStep] at hs
      split at hs <;> (cases hs; exact hP)
    · simp only [applyStep] at hs
      obtain ⟨_, _, h3, h4, _⟩ := convertProp_kept r g p hwfg.1
      rw [hs] at h3 h4
      simp only at h3 h4
      rw [h3, h4]
      exact hP
    · simp only [applyStep] at hs
      obtain ⟨h1, _, h3⟩ := convertDim_view hs
      rw [h1, h3]
      exact hP
    · simp only [applyStep, Prod.mk.injEq] at hs
      rw [← hs.1]
      exact hP
  cases hi : interrupt lib r k f with
  | mk g e =>
    cases e with
    | none => exact ok k g hi
    | some e =>
      obtain ⟨j, _, hj⟩ := prefix_failure_is_interruption k f g e hwf hi
      exact ok j g hj

end Nix.Upgrade.Lemmas
