import NixModel.Lemmas.C16Cells
/-! Lemmas for C16: an accepted write is what the reads return. -/
namespace Nix.Frame

theorem row_len {f : Frame} (wf : WF f) {r : Nat} {row : Row} (h : f.rows[r]? = some row) :
    row.length = f.cols.length := by
  simpa [Frame.types] using rowOK_length (wf.rows row (List.mem_of_getElem? h))

theorem normIdx_self {n k : Nat} (h : k < n) : normIdx n (k : Int) = some k := by
  unfold normIdx
  simp [h]

/-- append_rows: row `n + k` of the new table is the conversion of the k-th appended row -/
theorem read_appendRows {f f' : Frame} {rows : List (List Val)} (h : appendRows f rows = (f', none)) :
    f'.cols = f.cols ∧ f'.units = f.units ∧ f'.rows.length = f.rows.length + rows.length ∧
    ∀ k (hk : k < rows.length), ∃ w, convRow f.types rows[k] = .ok w ∧
      readRow f' ((f.rows.length + k : Nat) : Int) = .ok w := by
  unfold appendRows at h
  split at h
  · simp at h
  · rename_i rs hrs
    injection h with h1 _
    subst h1
    obtain ⟨hl, _, hk⟩ := convRows_spec hrs
    refine ⟨rfl, rfl, by simp [hl], ?_⟩
    intro k hk'
    obtain ⟨w, hw1, hw2⟩ := hk k hk'
    refine ⟨w, hw2, ?_⟩
    have hlt : f.rows.length + k < (f.rows ++ rs).length := by simp; omega
    unfold readRow
    simp only [normIdx_self hlt]
    have : (f.rows ++ rs)[f.rows.length + k]? = some w := by
      rw [List.getElem?_append_right (by omega)]
      simpa using hw1
    simp [this]

/-- write_cell (either addressing): the addressed cell holds the converted value -/
theorem read_setCell {f : Frame} (wf : WF f) {r c : Nat} {row : Row} {w : Val}
    (hrow : f.rows[r]? = some row) (hc : c < f.cols.length) :
    Frame.cell { f with rows := f.rows.set r (row.set c w) } r c = some w := by
  have hlt : r < f.rows.length := by
    rcases Nat.lt_or_ge r f.rows.length with hlt | hge
    · exact hlt
    · simp [List.getElem?_eq_none hge] at hrow
  have hl := row_len wf hrow
  simp [Frame.cell, List.getElem?_set_self hlt, List.getElem?_set_self (by omega : c < row.length)]

theorem read_writeCellPos {f f' : Frame} (wf : WF f) {cell : Val} {pos : List Int}
    (h : writeCellPos f cell pos = (f', none)) :
    ∃ ri ci r c ct w, pos = [ri, ci] ∧ normIdx f.rows.length ri = some r ∧ normIdx f.cols.length ci = some c ∧
      f.cols[c]? = some ct ∧ conv ct.2 cell = .ok w ∧ f'.cell r c = some w ∧ f'.cols = f.cols := by
  unfold writeCellPos at h
  repeat' split at h
  all_goals first
    | (simp at h; done)
    | skip
  rename_i ri ci _ r hr _ row hrow _ c hc _ ct hct _ w hw
  injection h with h1 _
  subst h1
  exact ⟨ri, ci, r, c, ct, w, rfl, hr, hc, hct, hw, read_setCell wf hrow (normIdx_lt hc), rfl⟩

theorem findCol_lt {cols : List (String × ColType)} {name : String} {c : Nat} (h : findCol cols name = some c) :
    c < cols.length := by
  unfold findCol at h
  exact (List.findIdx?_eq_some_iff_getElem.1 h).1

theorem read_writeCellName {f f' : Frame} (wf : WF f) {cell : Val} {name : String} {ri : Int}
    (h : writeCellName f cell name ri = (f', none)) :
    ∃ r c ct w, normIdx f.rows.length ri = some r ∧ findCol f.cols name = some c ∧
      f.cols[c]? = some ct ∧ conv ct.2 cell = .ok w ∧ f'.cell r c = some w ∧ f'.cols = f.cols := by
  unfold writeCellName at h
  repeat' split at h
  all_goals first
    | (simp at h; done)
    | skip
  rename_i _ r hr _ row hrow _ c hc _ ct hct _ w hw
  injection h with h1 _
  subst h1
  exact ⟨r, c, ct, w, hr, hc, hct, hw, read_setCell wf hrow (findCol_lt hc), rfl⟩

/-- write_column: every row holds the converted cell in the addressed column -/
theorem read_writeColumn {f f' : Frame} (wf : WF f) {col : List Val} {index name}
    (h : writeColumn f col index name = (f', none)) (hne : f.rows ≠ []) :
    ∃ c ct, colTarget f index name = some c ∧ f.cols[c]? = some ct ∧ f'.cols = f.cols ∧
      ∀ r (hr : r < f.rows.length), ∃ v w, col[r]? = some v ∧ conv ct.2 v = .ok w ∧ f'.cell r c = some w := by
  unfold writeColumn at h
  repeat' split at h
  all_goals first
    | (simp at h; done)
    | skip
  · rename_i hrows
    exact absurd hrows hne
  · rename_i hlen nm hnm _ _ _ c hc _ ct hct _ rows' hloop
    injection h with h1 h2
    subst h1
    have e : rows' = (writeColLoop ct.2 c f.rows col).1 := by rw [hloop]
    subst e
    have h2 : (writeColLoop ct.2 c f.rows col).2 = none := by rw [hloop]
    refine ⟨c, ct, by simp [colTarget, hnm, hc], hct, rfl, ?_⟩
    intro r hr
    have hrow : f.rows[r]? = some f.rows[r] := List.getElem?_eq_getElem hr
    obtain ⟨v, w, hv, hw, hg⟩ := writeColLoop_done h2 (by omega) r _ hrow
    refine ⟨v, w, hv, hw, ?_⟩
    have hl := row_len wf hrow
    have hcl : c < f.cols.length := findCol_lt hc
    simp [Frame.cell, hg, List.getElem?_set_self (by omega : c < (f.rows[r]).length)]

/-- append_column: the new last column holds the converted cells; its type is the requested / derived one -/
theorem read_appendColumn {f f' : Frame} (wf : WF f) {col : List Val} {name : String} {dt : Option ColType}
    (h : appendColumn f col name dt = (f', none)) :
    ∃ t, f'.types = f.types ++ [t] ∧ (∀ t0, dt = some t0 → t = t0) ∧ f'.rows.length = f.rows.length ∧
      ∀ r (hr : r < f.rows.length), ∃ v w, col[r]? = some v ∧ conv t v = .ok w ∧
        f'.cell r f.cols.length = some w := by
  unfold appendColumn at h
  try simp only at h
  repeat' split at h
  all_goals first
    | (simp at h; done)
    | skip
  all_goals
    rename_i _ t ht _ cols' hc _ ws hws
    injection h with h1 _
    subst h1
    obtain ⟨ct, cl, _⟩ := mkDtype_spec hc
    obtain ⟨wl, _, wk⟩ := convCol_spec hws
    have hl : ws.length = f.rows.length := by omega
    refine ⟨t, by simp [Frame.types, ct], ?_, appendCell_length hl, ?_⟩
    · intro t0 ht0
      simp_all
    · intro r hr
      obtain ⟨w, hw1, hw2⟩ := wk r (by omega)
      have hrow : f.rows[r]? = some f.rows[r] := List.getElem?_eq_getElem hr
      have hlen := row_len wf hrow
      refine ⟨col[r]'(by omega), w, List.getElem?_eq_getElem (by omega), hw2, ?_⟩
      simp [Frame.cell, appendCell_get r hl, hrow, hw1, ← hlen]

theorem read_setUnits {f f' : Frame} {us : List (Option String)} (h : setUnits f us = (f', none)) :
    us.length = f.cols.length ∧ f'.cols = f.cols ∧ f'.rows = f.rows ∧
    unitsOf f' = some (us.map (fun u => if u = some "" then none else u)) := by
  unfold setUnits at h
  split at h
  · simp at h
  · rename_i hl
    injection h with h1 _
    subst h1
    exact ⟨by omega, rfl, rfl, rfl⟩

end Nix.Frame

namespace Nix.Frame

theorem increasing_tail {a : Nat} {l : List Nat} (h : increasing (a :: l) = true) : increasing l = true := by
  cases l with
  | nil => rfl
  | cons b l => simp [increasing] at h; exact h.2

theorem increasing_lt : ∀ {a : Nat} {l : List Nat}, increasing (a :: l) = true → ∀ b ∈ l, a < b
  | a, [], _, b, hb => by simp at hb
  | a, c :: l, h, b, hb => by
    simp [increasing] at h
    rcases List.mem_cons.1 hb with rfl | hb
    · exact h.1
    · exact Nat.lt_trans h.1 (increasing_lt h.2 b hb)

/-- rows written through an increasing index list: position `ks[j]` holds `rs[j]` -/
theorem setMany_get_mem : ∀ {ks : List Nat} {rows rs : List Row}, increasing ks = true → ks.length = rs.length →
    (∀ k ∈ ks, k < rows.length) → ∀ (j k : Nat), ks[j]? = some k → (setMany rows ks rs)[k]? = rs[j]?
  | [], rows, rs, _, _, _, j, k, h => by simp at h
  | k0 :: ks, rows, [], _, hl, _, _, _, _ => by simp at hl
  | k0 :: ks, rows, r :: rs, hi, hl, hb, j, k, h => by
    simp only [setMany]
    cases j with
    | zero =>
      simp at h; subst h
      have hn : k0 ∉ ks := fun hm => Nat.lt_irrefl _ (increasing_lt hi k0 hm)
      rw [setMany_get_not_mem hn]
      simp [List.getElem?_set_self (hb k0 (by simp))]
    | succ j =>
      simp only [List.getElem?_cons_succ] at h ⊢
      exact setMany_get_mem (increasing_tail hi) (by simpa using hl)
        (fun x hx => by simpa using hb x (by simp [hx])) j k h

theorem normList_get : ∀ {n : Nat} {idx : List Int} {ks : List Nat}, normList n idx = .ok ks →
    ks.length = idx.length ∧ ∀ j (h : j < idx.length), ∃ k, ks[j]? = some k ∧ normIdx n idx[j] = some k
  | n, [], ks, h => by simp [normList] at h; subst h; simp
  | n, i :: is, ks, h => by
    simp only [normList] at h
    split at h
    · cases h
    · rename_i k0 hk0
      split at h
      · cases h
      · rename_i ks' hks'
        cases h
        obtain ⟨h1, h2⟩ := normList_get hks'
        refine ⟨by simp [h1], ?_⟩
        intro j hj
        cases j with
        | zero => exact ⟨k0, by simp, by simpa using hk0⟩
        | succ j =>
          obtain ⟨k, hk1, hk2⟩ := h2 j (by simpa using hj)
          exact ⟨k, by simpa using hk1, by simpa using hk2⟩

/-- write_rows: for every position j of the index list, reading row `idx[j]` returns the conversion of `rows[j]` -/
theorem read_writeRows {f f' : Frame} {rows : List (List Val)} {idx : List Int}
    (h : writeRows f rows idx = (f', none)) :
    f'.cols = f.cols ∧ f'.units = f.units ∧ f'.rows.length = f.rows.length ∧ rows.length = idx.length ∧
    ∀ j (hj : j < idx.length) (hj' : j < rows.length), ∃ w, convRow f.types rows[j] = .ok w ∧
      readRow f' idx[j] = .ok w := by
  unfold writeRows at h
  repeat' split at h
  all_goals first
    | (simp at h; done)
    | skip
  rename_i hne hlen _ _ rs hrs _ ks hks
  injection h with h1 _
  subst h1
  obtain ⟨rl, _, rk⟩ := convRows_spec hrs
  unfold selectList at hks
  split at hks
  · cases hks
  · rename_i ks' hks'
    split at hks
    · rename_i hinc
      injection hks with hks
      subst hks
      obtain ⟨kl, kk⟩ := normList_get hks'
      refine ⟨rfl, rfl, setMany_length, by omega, ?_⟩
      intro j hj hj'
      obtain ⟨w, hw1, hw2⟩ := rk j hj'
      obtain ⟨k, hk1, hk2⟩ := kk j hj
      refine ⟨w, hw2, ?_⟩
      unfold readRow
      simp only [setMany_length, hk2]
      have hb : ∀ x ∈ ks', x < f.rows.length := by
        intro x hx
        obtain ⟨i, _, hi⟩ := normList_mem hks' x hx
        exact normIdx_lt hi
      rw [setMany_get_mem hinc (by omega) hb j k hk1, hw1]
    · cases hks

end Nix.Frame
