import NixModel.Lemmas.C18Inv

/-! content along a whole run -/
namespace Nix.Upgrade.Lemmas
open Nix.Upgrade

/-- what a dimension reads as -/
def dimView (a : Arr) (d : Dim) : String × String × DimView := (d.name, d.dimType, readDim a d)

/-- what an array reads as (data, descriptors, every dimension) -/
def arrView (a : Arr) : String × String × String × Option String × Option String × List (String × String × DimView) :=
  (a.path, a.id, a.data, a.unit, a.label, a.dims.map (dimView a))

theorem convertDimObj_view (r : Nat) (daid : String) (a : Arr) (d : Dim)
    (h : (convertDimObj r daid d).2 = none) : dimView a (convertDimObj r daid d).1 = dimView a d := by
  obtain ⟨name, ty, ticks, unit, label, alias, link⟩ := d
  cases ticks <;> cases link <;> cases alias <;>
    simp_all [convertDimObj, dimView, readDim, isAliasRead, newLink]

theorem updDims_view {r : Nat} {daid dn : String} (a : Arr) : ∀ {ds ds' : List Dim},
    updDims r daid dn ds = some (ds', none) → ds'.map (dimView a) = ds.map (dimView a) := by
  intro ds
  induction ds with
  | nil => intro ds' h; simp [updDims] at h
  | cons d ds ih =>
    intro ds' h
    simp only [updDims] at h
    cases hd : (d.name == dn) with
    | true =>
      simp only [hd, ↓reduceIte, Option.some.injEq, Prod.mk.injEq] at h
      rw [← h.1]
      simp only [List.map_cons, convertDimObj_view r daid a d h.2]
    | false =>
      simp only [hd, Bool.false_eq_true, ↓reduceIte] at h
      cases hu : updDims r daid dn ds with
      | none => simp [hu] at h
      | some x =>
        obtain ⟨xs, e⟩ := x
        simp only [hu, Option.map_some, Option.some.injEq, Prod.mk.injEq] at h
        obtain ⟨h1, h2⟩ := h
        subst h2
        rw [← h1]
        simp only [List.map_cons, ih hu]

theorem dimView_congr {a a' : Arr} (h1 : a'.data = a.data) (h2 : a'.unit = a.unit) (h3 : a'.label = a.label)
    (d : Dim) : dimView a' d = dimView a d := by
  simp only [dimView, readDim, h1, h2, h3]

theorem updArrs_view {r : Nat} {ap dn : String} : ∀ {as as' : List Arr},
    updArrs r ap dn as = some (as', none) → as'.map arrView = as.map arrView := by
  intro as
  induction as with
  | nil => intro as' h; simp [updArrs] at h
  | cons a as ih =>
    intro as' h
    simp only [updArrs] at h
    cases hp : (a.path == ap) with
    | true =>
      simp only [hp, ↓reduceIte] at h
      cases hu : updDims r a.id dn a.dims with
      | none => simp [hu] at h
      | some x =>
        obtain ⟨ds', e⟩ := x
        simp only [hu, Option.map_some, Option.some.injEq, Prod.mk.injEq] at h
        obtain ⟨h1, h2⟩ := h
        subst h2
        rw [← h1]
        simp only [List.map_cons, List.cons.injEq, and_true]
        simp only [arrView, Prod.mk.injEq, true_and]
        rw [← updDims_view a hu]
        apply List.map_congr_left
        intro d _
        exact dimView_congr rfl rfl rfl d
    | false =>
      simp only [hp, Bool.false_eq_true, ↓reduceIte] at h
      cases hu : updArrs r ap dn as with
      | none => simp [hu] at h
      | some x =>
        obtain ⟨xs, e⟩ := x
        simp only [hu, Option.map_some, Option.some.injEq, Prod.mk.injEq] at h
        obtain ⟨h1, h2⟩ := h
        subst h2
        rw [← h1]
        simp only [List.map_cons, ih hu]

theorem convertDim_view {r : Nat} {g g' : File} {ap dn : String} (h : convertDim r g ap dn = (g', none)) :
    g'.arrays.map arrView = g.arrays.map arrView ∧ g'.props = g.props ∧ g'.other = g.other := by
  unfold convertDim at h
  cases hu : updArrs r ap dn g.arrays with
  | none => simp [hu] at h
  | some x =>
    obtain ⟨as', e⟩ := x
    simp only [hu, Prod.mk.injEq] at h
    obtain ⟨h1, h2⟩ := h
    subst h2
    subst h1
    exact ⟨updArrs_view hu, rfl, rfl⟩

/-- which step heads the collected list -/
theorem head_class {lib : List Nat} {g : File} {s : Step} {rest : List Step} (hc : collect lib g = s :: rest) :
    s = .addId ∨ (∃ p t, s = .prop p ∧ propTasks g = p :: t) ∨
    (∃ ap dn D, s = .dim ap dn ∧ aliasDims g.arrays = (ap, dn) :: D) ∨ s = .bump := by
  cases hu : upToDate lib g with
  | true => rw [collect_upToDate hu] at hc; cases hc
  | false =>
    rw [collect_old hu] at hc
    unfold preSteps at hc
    cases hv : hasValidId g with
    | false =>
      simp only [hv, Bool.false_eq_true, ↓reduceIte, List.cons_append, List.nil_append, List.append_assoc,
        List.cons.injEq] at hc
      exact Or.inl hc.1.symm
    | true =>
      simp only [hv, ↓reduceIte, List.nil_append, List.append_assoc] at hc
      cases hp : propTasks g with
      | cons p t =>
        simp only [hp, List.map_cons, List.cons_append, List.cons.injEq] at hc
        exact Or.inr (Or.inl ⟨p, t, hc.1.symm, rfl⟩)
      | nil =>
        simp only [hp, List.map_nil, List.nil_append] at hc
        cases hd : aliasDims g.arrays with
        | cons ad ds =>
          obtain ⟨ap, dn⟩ := ad
          simp only [hd, List.map_cons, List.cons_append, List.cons.injEq] at hc
          exact Or.inr (Or.inr (Or.inl ⟨ap, dn, ds, hc.1.symm, rfl⟩))
        | nil =>
          simp only [hd, List.map_nil, List.nil_append, List.cons.injEq] at hc
          exact Or.inr (Or.inr (Or.inr hc.1.symm))

/-- induction along a run: every step executed is the head of what `collect` yields on the current state -/
theorem run_induction {lib : List Nat} {r : Nat} (P : File → Prop)
    (hstep : ∀ g s rest, WF g → P g → collect lib g = s :: rest →
      (applyStep lib r g s).2 = none ∧ P (applyStep lib r g s).1) :
    ∀ (n : Nat) (f : File), (collect lib f).length = n → WF f → P f →
      (upgrade lib r f).2 = none ∧ P (upgrade lib r f).1 ∧ WF (upgrade lib r f).1 := by
  intro n
  induction n with
  | zero =>
    intro f hn hwf hP
    have : collect lib f = [] := List.length_eq_zero_iff.mp hn
    unfold upgrade
    rw [this]
    exact ⟨rfl, hP, hwf⟩
  | succ n ih =>
    intro f hn hwf hP
    cases hc : collect lib f with
    | nil => rw [hc] at hn; cases hn
    | cons s rest =>
      obtain ⟨he, hP'⟩ := hstep f s rest hwf hP hc
      cases hs : applyStep lib r f s with
      | mk f' e =>
        rw [hs] at he hP'
        simp only at he hP'
        subst he
        obtain ⟨hwf', hc'⟩ := collect_step hwf hc hs
        have hlen : (collect lib f').length = n := by
          rw [hc'] ; rw [hc] at hn; simpa using hn
        have hup : upgrade lib r f = upgrade lib r f' := by
          unfold upgrade
          rw [hc, runSteps_cons, hs, hc']
        rw [hup]
        exact ih f' hlen hwf' hP'

/-- the content invariant of a run started on `f0` -/
def ContentInv (r : Nat) (f0 g : File) : Prop :=
  Inv r f0.props g.props ∧ g.arrays.map arrView = f0.arrays.map arrView ∧ g.other = f0.other

theorem content_step {lib : List Nat} {r : Nat} {f0 : File} (hclean : Clean f0) :
    ∀ g s rest, WF g → ContentInv r f0 g → collect lib g = s :: rest →
      (applyStep lib r g s).2 = none ∧ ContentInv r f0 (applyStep lib r g s).1 := by
  intro g s rest hwf hinv hc
  rcases head_class hc with rfl | ⟨p, t, rfl, hp⟩ | ⟨ap, dn, D, rfl, hd⟩ | rfl
  · simp only [applyStep]
    split
    · exact ⟨rfl, hinv⟩
    · exact ⟨rfl, hinv⟩
  · have hmem : p ∈ oldPaths g.props := by
      have : p ∈ propTasks g := by rw [hp]; simp
      exact List.mem_mergeSort.mp this
    obtain ⟨o, ho⟩ := mem_oldPaths hmem
    have hl := lookup_of_mem hwf.1 ho
    obtain ⟨hok, hinv', hfree⟩ := inv_convert hclean hwf.1 hinv.1 ho
    simp only [applyStep, convertProp, hl, hfree, Bool.false_eq_true, ↓reduceIte]
    refine ⟨hok, ?_, hinv.2.1, hinv.2.2⟩
    simp only
    rw [createAll_ok _ _ hok]
    exact hinv'
  · cases hs : convertDim r g ap dn with
    | mk g' e =>
      obtain ⟨he, _⟩ := convertDim_head hwf hd hs
      subst he
      obtain ⟨h1, h2, h3⟩ := convertDim_view hs
      simp only [applyStep, hs]
      refine ⟨trivial, ?_, ?_, ?_⟩
      · rw [h2]; exact hinv.1
      · rw [h1]; exact hinv.2.1
      · rw [h3]; exact hinv.2.2
  · exact ⟨rfl, hinv⟩

theorem Clean.wf_props {f : File} (h : Clean f) : (f.props.map (·.1)).Nodup := clean_paths_nodup h

/-- a successful upgrade of an old file leaves no compound property -/
theorem upgrade_no_old {lib : List Nat} {r : Nat} {f : File} (hwf : WF f) (hold : upToDate lib f = false)
    (hok : (upgrade lib r f).2 = none) : oldPaths (upgrade lib r f).1.props = [] := by
  unfold upgrade at hok ⊢
  have hcol := collect_old hold
  rw [hcol, runSteps_append] at hok ⊢
  cases hp : runSteps lib r f (preSteps f) with
  | mk g e =>
    cases e with
    | some e => rw [hp] at hok; simp at hok
    | none =>
      simp only [runSteps_cons, applyStep, runSteps_nil]
      have htake : (collect lib f).take (preSteps f).length = preSteps f := by
        rw [hcol]; simp
      have hp' : runSteps lib r f ((collect lib f).take (preSteps f).length) = (g, none) := by
        rw [htake]; exact hp
      obtain ⟨_, hcg⟩ := collect_after_prefix (preSteps f).length hwf hp'
      rw [hcol] at hcg
      simp only [List.drop_left] at hcg
      have hug : upToDate lib g = false := by
        cases hu : upToDate lib g with
        | false => rfl
        | true => rw [collect_upToDate hu] at hcg; cases hcg
      rw [collect_old hug] at hcg
      have hpre : preSteps g = [] := by
        have := congrArg List.length hcg
        simp only [List.length_append, List.length_cons, List.length_nil] at this
        exact List.length_eq_zero_iff.mp (by omega)
      unfold preSteps at hpre
      simp only [List.append_eq_nil_iff, List.map_eq_nil_iff] at hpre
      have hpt : propTasks g = [] := hpre.1.2
      unfold propTasks at hpt
      have := congrArg List.length hpt
      simp only [List.length_mergeSort, List.length_nil] at this
      exact List.length_eq_zero_iff.mp this

end Nix.Upgrade.Lemmas
