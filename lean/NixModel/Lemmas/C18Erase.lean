import NixModel.Lemmas.C18Basic

/-! `erase` (forget which run made an id / a timestamp) commutes with collecting and running steps -/
namespace Nix.Upgrade.Lemmas
open Nix.Upgrade

def eraseEntry (e : Path × PObj) : Path × PObj := (e.1, e.2.erase)

theorem erase_props (f : File) : f.erase.props = f.props.map eraseEntry := rfl
theorem erase_arrays (f : File) : f.erase.arrays = f.arrays.map Arr.erase := rfl
theorem erase_version (f : File) : f.erase.version = f.version := rfl

theorem hasValidId_erase (f : File) : hasValidId f.erase = hasValidId f := by
  unfold hasValidId File.erase
  cases f.id <;> rfl

theorem oldPaths_erase (ps : List (Path × PObj)) : oldPaths (ps.map eraseEntry) = oldPaths ps := by
  induction ps with
  | nil => rfl
  | cons e ps ih =>
    obtain ⟨p, o⟩ := e
    cases o <;> simp_all [oldPaths, eraseEntry, PObj.erase]

theorem isAliasDim_erase (d : Dim) : isAliasDim d.erase = isAliasDim d := by
  unfold isAliasDim Dim.erase
  cases d.link <;> rfl

theorem aliasDims_erase (as : List Arr) : aliasDims (as.map Arr.erase) = aliasDims as := by
  unfold aliasDims
  induction as with
  | nil => rfl
  | cons a as ih =>
    simp only [List.map_cons, List.flatMap_cons, ih]
    congr 1
    simp only [Arr.erase, List.filter_map, List.map_map]
    have : (isAliasDim ∘ Dim.erase) = isAliasDim := funext isAliasDim_erase
    rw [this]
    apply List.map_congr_left
    intro d _
    rfl

theorem collect_erase (lib : List Nat) (f : File) : collect lib f.erase = collect lib f := by
  unfold collect upToDate propTasks
  rw [hasValidId_erase, erase_props, oldPaths_erase, erase_arrays, aliasDims_erase, erase_version]

/-! steps -/

theorem hasPath_erase (ps : List (Path × PObj)) (p : Path) : hasPath (ps.map eraseEntry) p = hasPath ps p := by
  unfold hasPath
  simp [List.any_map, eraseEntry, Function.comp_def]

theorem lookup_erase (ps : List (Path × PObj)) (p : Path) :
    lookup (ps.map eraseEntry) p = (lookup ps p).map PObj.erase := by
  unfold lookup
  induction ps with
  | nil => rfl
  | cons e ps ih =>
    simp only [List.map_cons, List.find?_cons]
    by_cases h : (e.1 == p) = true
    · simp [eraseEntry, h]
    · simp only [eraseEntry, h] at ih ⊢
      exact ih

theorem createAll_erase (es : List (Path × PObj)) : ∀ ps : List (Path × PObj),
    createAll (ps.map eraseEntry) (es.map eraseEntry)
      = ((createAll ps es).1.map eraseEntry, (createAll ps es).2) := by
  induction es with
  | nil => intro ps; rfl
  | cons e es ih =>
    intro ps
    simp only [List.map_cons, createAll]
    have : hasPath (ps.map eraseEntry) (eraseEntry e).1 = hasPath ps e.1 := hasPath_erase ps e.1
    rw [this]
    by_cases h : hasPath ps e.1 = true
    · simp [h]
    · simp only [h]
      have := ih (ps ++ [e])
      simp only [List.map_append, List.map_cons, List.map_nil] at this
      simpa using this

theorem converted_erase (r : Nat) (p : Path) (o : OldProp) :
    (converted r p o).map eraseEntry = converted 0 p o := by
  unfold converted
  simp only [List.map_append, List.map_cons, List.map_nil]
  congr 1
  · congr 1
    · congr 1
      · congr 1
        · congr 1
          split <;> rfl
        · split <;> rfl
      · split <;> rfl
    · split <;> rfl
  · split <;> rfl

theorem filter_erase (ps : List (Path × PObj)) (p : Path) :
    (ps.map eraseEntry).filter (·.1 != p) = (ps.filter (·.1 != p)).map eraseEntry := by
  rw [List.filter_map]
  rfl

theorem nameTaken_erase (ps es : List (Path × PObj)) :
    nameTaken (ps.map eraseEntry) (es.map eraseEntry) = nameTaken ps es := by
  unfold nameTaken
  rw [← List.map_tail, List.any_map]
  congr 1
  funext e
  exact hasPath_erase ps e.1

theorem convertProp_erase (r : Nat) (f : File) (p : Path) :
    convertProp 0 f.erase p = ((convertProp r f p).1.erase, (convertProp r f p).2) := by
  unfold convertProp
  rw [erase_props, lookup_erase]
  cases h : lookup f.props p with
  | none => rfl
  | some o =>
    cases o with
    | new n => rfl
    | old o =>
      simp only [Option.map_some, PObj.erase]
      rw [filter_erase, ← converted_erase r, createAll_erase, nameTaken_erase]
      cases nameTaken f.props (converted r p o) <;> rfl

theorem convertDimObj_erase (r : Nat) (daid : String) (d : Dim) :
    convertDimObj 0 daid d.erase = ((convertDimObj r daid d).1.erase, (convertDimObj r daid d).2) := by
  unfold convertDimObj
  obtain ⟨name, ty, ticks, unit, label, alias, link⟩ := d
  cases ticks <;> cases link <;> cases alias <;> rfl

theorem updDims_erase (r : Nat) (daid dn : String) (ds : List Dim) :
    updDims 0 daid dn (ds.map Dim.erase)
      = (updDims r daid dn ds).map (fun x => (x.1.map Dim.erase, x.2)) := by
  induction ds with
  | nil => rfl
  | cons d ds ih =>
    simp only [List.map_cons, updDims]
    have hn : d.erase.name = d.name := rfl
    rw [hn]
    by_cases h : (d.name == dn) = true
    · simp [h, convertDimObj_erase r]
    · simp only [h, ih]
      cases updDims r daid dn ds <;> rfl

theorem updArrs_erase (r : Nat) (ap dn : String) (as : List Arr) :
    updArrs 0 ap dn (as.map Arr.erase)
      = (updArrs r ap dn as).map (fun x => (x.1.map Arr.erase, x.2)) := by
  induction as with
  | nil => rfl
  | cons a as ih =>
    simp only [List.map_cons, updArrs]
    have hp : a.erase.path = a.path := rfl
    have hi : a.erase.id = a.id := rfl
    have hd : a.erase.dims = a.dims.map Dim.erase := rfl
    rw [hp, hi, hd]
    by_cases h : (a.path == ap) = true
    · simp only [h, if_true, updDims_erase r]
      cases updDims r a.id dn a.dims <;> rfl
    · simp only [h, ih]
      cases updArrs r ap dn as <;> rfl

theorem convertDim_erase (r : Nat) (f : File) (ap dn : String) :
    convertDim 0 f.erase ap dn = ((convertDim r f ap dn).1.erase, (convertDim r f ap dn).2) := by
  unfold convertDim
  rw [erase_arrays, updArrs_erase r]
  cases updArrs r ap dn f.arrays <;> rfl

theorem applyStep_erase (lib : List Nat) (r : Nat) (f : File) (s : Step) :
    applyStep lib 0 f.erase s = ((applyStep lib r f s).1.erase, (applyStep lib r f s).2) := by
  cases s with
  | bump => rfl
  | addId =>
    simp only [applyStep, hasValidId_erase]
    split <;> rfl
  | prop p => exact convertProp_erase r f p
  | dim a d => exact convertDim_erase r f a d

theorem runSteps_erase (lib : List Nat) (r : Nat) (ss : List Step) : ∀ f : File,
    runSteps lib 0 f.erase ss = ((runSteps lib r f ss).1.erase, (runSteps lib r f ss).2) := by
  induction ss with
  | nil => intro f; rfl
  | cons s ss ih =>
    intro f
    rw [runSteps_cons, runSteps_cons, applyStep_erase lib r]
    generalize applyStep lib r f s = res
    obtain ⟨f', e⟩ := res
    cases e with
    | none => exact ih f'
    | some e => rfl

theorem upgrade_erase (lib : List Nat) (r : Nat) (f : File) :
    upgrade lib 0 f.erase = ((upgrade lib r f).1.erase, (upgrade lib r f).2) := by
  unfold upgrade
  rw [collect_erase, runSteps_erase lib r]

theorem interrupt_erase (lib : List Nat) (r k : Nat) (f : File) :
    interrupt lib 0 k f.erase = ((interrupt lib r k f).1.erase, (interrupt lib r k f).2) := by
  unfold interrupt
  rw [collect_erase, runSteps_erase lib r]

end Nix.Upgrade.Lemmas
