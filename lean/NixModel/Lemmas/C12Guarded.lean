import NixModel.Pure.Guarded

/-! # The discipline theorem for every system of guards and writes (C12) -/
namespace Nix.Guarded

variable {A S O G W : Type} [DecidableEq G]

omit [DecidableEq G] in
theorem run_cons_ok (sys : Sys A S O G W) (a : A) (st : Step G W) (r : List (Step G W)) (s : S)
    (h : (step sys a s st).2 = none) : run sys a (st :: r) s = run sys a r (step sys a s st).1 := by
  cases hst : step sys a s st with
  | mk s' oe =>
    rw [hst] at h
    simp only at h
    subst h
    simp [run, hst]

omit [DecidableEq G] in
theorem run_cons_err (sys : Sys A S O G W) (a : A) (st : Step G W) (r : List (Step G W)) (s : S) (e : Err)
    (h : (step sys a s st).2 = some e) : run sys a (st :: r) s = ((step sys a s st).1, some e) := by
  cases hst : step sys a s st with
  | mk s' oe =>
    rw [hst] at h
    simp only at h
    subst h
    simp [run, hst]

/-- by induction over the list: while only invisible writes have happened a refusal shows readers the file they
knew; after a visible write nothing refuses -/
theorem run_safe (sys : Sys A S O G W) (hs : sys.Sound) (a : A) :
    ∀ (steps : List (Step G W)) (seen : List G) (dirty : Bool) (s : S),
      safeFrom sys seen dirty steps = true →
      (∀ g ∈ seen, sys.check a g = none) →
      (dirty = true → (run sys a steps s).2 = none) ∧
      (dirty = false → ∀ e, (run sys a steps s).2 = some e → sys.obs (run sys a steps s).1 = sys.obs s) := by
  intro steps
  induction steps with
  | nil => intro seen dirty s _ _; simp [run]
  | cons st r ih =>
    intro seen dirty s hsafe inv
    cases st with
    | guard g =>
      simp only [safeFrom] at hsafe
      cases dirty with
      | true =>
        simp only [if_true, Bool.and_eq_true] at hsafe
        have hc : sys.check a g = none := inv g (List.contains_iff_mem.mp hsafe.1)
        have hstep : (step sys a s (.guard g)).2 = none := by simp [step, hc]
        rw [run_cons_ok sys a _ r s hstep]
        have : (step sys a s (.guard g)).1 = s := by simp [step]
        rw [this]
        exact ih seen true s hsafe.2 inv
      | false =>
        simp only [Bool.false_eq_true, if_false] at hsafe
        refine ⟨by simp, fun _ => ?_⟩
        cases hc : sys.check a g with
        | none =>
          have hstep : (step sys a s (.guard g)).2 = none := by simp [step, hc]
          rw [run_cons_ok sys a _ r s hstep]
          have : (step sys a s (.guard g)).1 = s := by simp [step]
          rw [this]
          have inv' : ∀ g' ∈ g :: (sys.implies g ++ seen), sys.check a g' = none := by
            intro g' hg'
            cases List.mem_cons.mp hg' with
            | inl h => rw [h]; exact hc
            | inr h =>
              cases List.mem_append.mp h with
              | inl h1 => exact hs.implies_ok a g g' hc h1
              | inr h2 => exact inv g' h2
          exact (ih (g :: (sys.implies g ++ seen)) false s hsafe inv').2 rfl
        | some e' =>
          have hstep : (step sys a s (.guard g)).2 = some e' := by simp [step, hc]
          rw [run_cons_err sys a _ r s e' hstep]
          intro e _
          simp [step]
    | write w =>
      simp only [safeFrom, Bool.and_eq_true, List.all_eq_true] at hsafe
      have hn : ∀ g ∈ sys.needs w, sys.check a g = none :=
        fun g hg => inv g (List.contains_iff_mem.mp (hsafe.1 g hg))
      have hstep : (step sys a s (.write w)).2 = none := by
        simp only [step]; exact hs.exec_ok a s w hn
      rw [run_cons_ok sys a _ r s hstep]
      cases dirty with
      | true =>
        have hnone := (ih seen true (step sys a s (.write w)).1 (by simpa using hsafe.2) inv).1 rfl
        exact ⟨fun _ => hnone, by simp⟩
      | false =>
        refine ⟨by simp, fun _ e he => ?_⟩
        cases hi : sys.invisible w with
        | true =>
          have h2 : safeFrom sys seen false r = true := by simpa [hi] using hsafe.2
          have := (ih seen false (step sys a s (.write w)).1 h2 inv).2 rfl e he
          rw [this]
          simp only [step]
          exact hs.invisible_obs a s w hi
        | false =>
          have h2 : safeFrom sys seen true r = true := by simpa [hi] using hsafe.2
          have hnone := (ih seen true (step sys a s (.write w)).1 h2 inv).1 rfl
          rw [hnone] at he
          exact absurd he (by simp)

/-- **refused ⇒ unchanged for readers**, for every sound system and every list that obeys the discipline -/
theorem safe_refused_unchanged (sys : Sys A S O G W) (hs : sys.Sound) (steps : List (Step G W))
    (h : safe sys steps = true) (a : A) (s : S) (e : Err) (he : (run sys a steps s).2 = some e) :
    sys.obs (run sys a steps s).1 = sys.obs s :=
  (run_safe sys hs a steps [] false s h (by simp)).2 rfl e he

end Nix.Guarded

namespace Nix.Guarded

variable {A S O G W : Type} [DecidableEq G]

/-- **functions with a protected section**: if the part before the `try` obeys the discipline, the `except` clause
restores what readers saw whenever the protected body refuses, and nothing after the section can refuse, then a
refused call ends in a file readers cannot tell from the one it started with — for every sound system -/
theorem fn_refused_unchanged (sys : Sys A S O G W) (hs : sys.Sound) (fn : Fn G W) (a : A) (s : S)
    (hpre : safe sys fn.pre = true)
    (hrest : ∀ s1 s2 e, run sys a fn.pre s = (s1, none) → run sys a fn.body s1 = (s2, some e) →
      sys.obs (execAll sys a fn.handler s2) = sys.obs s)
    (hpost : ∀ s1 s2, run sys a fn.pre s = (s1, none) → run sys a fn.body s1 = (s2, none) →
      (run sys a fn.post s2).2 = none)
    (e : Err) (he : (runFn sys a fn s).2 = some e) : sys.obs (runFn sys a fn s).1 = sys.obs s := by
  unfold runFn at he ⊢
  cases h1 : run sys a fn.pre s with
  | mk s1 o1 =>
    cases o1 with
    | some e1 =>
      simp only [h1] at he ⊢
      have := safe_refused_unchanged sys hs fn.pre hpre a s e1 (by rw [h1])
      rw [h1] at this
      exact this
    | none =>
      simp only [h1] at he ⊢
      cases h2 : run sys a fn.body s1 with
      | mk s2 o2 =>
        cases o2 with
        | some e2 =>
          simp only [h2] at he ⊢
          exact hrest s1 s2 e2 h1 h2
        | none =>
          simp only [h2] at he ⊢
          have := hpost s1 s2 h1 h2
          rw [this] at he
          exact absurd he (by simp)

end Nix.Guarded

namespace Nix.Guarded

variable {A S G W : Type} [DecidableEq G]

/-- **refused calls are invisible in every history**: on a system whose readers see the whole state, a history of
calls that obey the discipline ends where the history of its accepted calls ends -/
theorem history_skips_refused (sys : Sys A S S G W) (hs : sys.Sound) (hid : ∀ s, sys.obs s = s)
    (h : List (A × List (Step G W))) (hsafe : ∀ c ∈ h, safe sys c.2 = true) (s : S) :
    runHistory sys h s = runAccepted sys h s := by
  induction h generalizing s with
  | nil => rfl
  | cons c r ih =>
    have hr : ∀ c' ∈ r, safe sys c'.2 = true := fun c' hc' => hsafe c' (List.mem_cons_of_mem _ hc')
    simp only [runHistory, runAccepted]
    cases he : (run sys c.1 c.2 s).2 with
    | none => simp only; exact ih hr _
    | some e =>
      simp only
      have := safe_refused_unchanged sys hs c.2 (hsafe c (List.mem_cons_self ..)) c.1 s e he
      rw [hid, hid] at this
      rw [this]
      exact ih hr s

end Nix.Guarded
