import NixModel.Lemmas.StoreWF

/-! The fresh-key hypothesis of the C05 theorems (`g.node? g.nextKey = none`) holds in every graph
reached by a history of structural operations (C03's invariant `WF`). Kept apart from
`Props/C05.lean` so that the C05 check does not depend on the C03 proof files. -/
namespace Nix.Store.Lemmas
open Nix.Store

theorem fresh_of_wf {g : Graph} (h : WF g) : g.node? g.nextKey = none := by
  rw [node?_eq_none_iff]
  intro hm
  exact Nat.lt_irrefl _ (h.keys_lt _ hm)

theorem fresh_of_reachable {g : Graph} (h : ReachableFresh g) : g.node? g.nextKey = none :=
  fresh_of_wf h.wf

end Nix.Store.Lemmas
