import NixModel.Lemmas.StoreWFOps

/-!
# `WF` is preserved by the API functions of `Store/Api.lean`
-/
namespace Nix.Store.Lemmas
open Nix.Store Nix.Store.Graph

/-! ## `Entity.create_new` -/

/-- when `create_new` succeeds: the type is non-empty, the name has no slash, and the result is
`ecnCore` on the graph after drawing one id; an empty name is replaced by that id -/
theorem entityCreateNew_ok {g g' : Graph} {ownerKey k : Nat} {cname name type kind : String}
    (h : entityCreateNew g ownerKey cname name type kind = .ok (g', k)) :
    type ≠ "" ∧ ∃ nm, (name ≠ "" → nm = name) ∧ (name = "" → nm = idStr g.nextId) ∧ hasSlash nm = false ∧
      (g', k) = ecnCore (g.freshId).1 ownerKey cname nm type (idStr g.nextId) kind := by
  unfold entityCreateNew at h
  by_cases hn : name = ""
  · subst hn
    simp only [beq_self_eq_true, ↓reduceIte] at h
    by_cases hs : hasSlash (g.freshId).2 = true
    · simp [hs] at h
    · by_cases ht : type = ""
      · simp [hs, ht] at h
      · simp only [hs, Bool.false_eq_true, ↓reduceIte, beq_iff_eq, ht, Except.ok.injEq] at h
        refine ⟨ht, idStr g.nextId, fun e => absurd rfl e, fun _ => rfl,
          (by have : hasSlash (idStr g.nextId) ≠ true := hs; simpa using this), ?_⟩
        exact h.symm
  · have hn' : (name == "") = false := by simpa using hn
    by_cases ht : type = ""
    · subst ht
      simp only [hn', Bool.false_eq_true, ↓reduceIte, bne_self_eq_false] at h
      by_cases hs : hasSlash name = true
      · simp [hs] at h
      · simp [hs] at h
    · have ht' : (type != "") = true := by simpa using ht
      simp only [hn', Bool.false_eq_true, ↓reduceIte, ht'] at h
      by_cases hs : hasSlash name = true
      · simp [hs] at h
      · simp only [hs, Bool.false_eq_true, ↓reduceIte, beq_iff_eq, ht, Except.ok.injEq] at h
        refine ⟨ht, name, fun _ => rfl, fun e => absurd e hn, by simpa using hs, ?_⟩
        exact h.symm

theorem WF.entityCreateNew {g g' : Graph} (h : WF g) {ownerKey k : Nat} {cname name type kind : String}
    {info : CInfo}
    (hown : ownerKey ∈ keys g) (hci : containerInfo (okind g ownerKey) cname = some info)
    (hpl : isPlainLike info.flavour = true) (hitem : info.item = kind)
    (hfree : name ≠ "" → ∀ c, g.child? ownerKey cname = some c → g.child? c name = none)
    (hnf : ∀ m, g.nextId ≤ m → name ≠ idStr m)
    (hres : entityCreateNew g ownerKey cname name type kind = .ok (g', k)) :
    ∃ nm, (name ≠ "" → nm = name) ∧ (name = "" → nm = idStr g.nextId) ∧
      NewEnt g ownerKey cname nm (idStr g.nextId) kind g' k ∧ g'.nextId = g.nextId + 1 := by
  obtain ⟨_, nm, hn1, hn2, _, e⟩ := entityCreateNew_ok hres
  have wf := h.freshId
  have hfree' : ∀ c, (g.freshId).1.child? ownerKey cname = some c → (g.freshId).1.child? c nm = none := by
    intro c hc
    by_cases hn : name = ""
    · rw [hn2 hn]
      apply child?_none_iff.mpr
      intro l hl
      exact h.names_not_future c l hl g.nextId (Nat.le_refl _)
    · rw [hn1 hn]; exact hfree hn c hc
  have hnf' : ∀ m, (g.freshId).1.nextId ≤ m → nm ≠ idStr m := by
    intro m hm
    rw [nextId_freshId] at hm
    by_cases hn : name = ""
    · rw [hn2 hn]; intro e; have := idStr_inj e; omega
    · rw [hn1 hn]; exact hnf m (by omega)
  have hun : ∀ k', (g.freshId).1.entityId k' ≠ some (idStr g.nextId) := by
    intro k' e
    obtain ⟨n, hn, e'⟩ := h.ids_wf k' _ e
    have := idStr_inj e'; omega
  have key := wf.ecnCore (ownerKey := ownerKey) (cname := cname) (name := nm) (id := idStr g.nextId)
    (kind := kind) type (info := info) (n := g.nextId) hown hci hpl hitem hfree' hnf' rfl
    (by rw [nextId_freshId]; omega) hun
  rw [← e] at key
  exact ⟨nm, hn1, hn2, ⟨key.wf, key.knew, key.kkey, key.keys_mono, key.attrs_old, key.kind, key.eid,
    key.nameAttr, key.klinks, Nat.le_trans (Nat.le_succ _) key.nextId_le, key.cont, key.links_other,
    key.child_owner⟩, by
      have := ecnCore_nextId (g.freshId).1 ownerKey cname nm type (idStr g.nextId) kind
      rw [← e] at this; exact this⟩

theorem map_fst_ok {α β : Type} {x : Except Err (α × β)} {a : α} (h : x.map (·.1) = .ok a) :
    ∃ b, x = .ok (a, b) := by
  cases x with
  | error e => cases h
  | ok v =>
    cases v with
    | mk a' b =>
      simp only [Except.map, Except.ok.injEq] at h
      exact ⟨b, by rw [← h]⟩

theorem WF.okind_of_kind {g : Graph} (h : WF g) {k : Nat} (hk : kindOf g k ≠ "") : okind g k = kindOf g k := by
  unfold okind
  have : k ≠ 0 := fun e => hk (e ▸ h.root_kind)
  simp [this]

theorem okind_root (g : Graph) : okind g 0 = "file" := rfl

theorem mem_keys_of_kind {g : Graph} {k : Nat} (hk : kindOf g k ≠ "") : k ∈ keys g := by
  rw [← node?_isSome_iff]
  cases hn : g.node? k with
  | some _ => rfl
  | none => exact absurd (by rw [kindOf_eq, getAttr_of_node?_none hn]; rfl) hk

theorem isKind_iff {g : Graph} {k : Nat} {kind : String} : isKind g k kind = true ↔ kindOf g k = kind := by
  simp [isKind]

/-! ## `File.create_block` -/

/-- the outcome of a create function: the graph `g0` in which `create_new` ran (the input graph,
possibly with the container group opened) and the facts about the new entity -/
theorem WF.createBlock_new {g g' : Graph} (h : WF g) {name type : String}
    (hnf : ∀ m, g.nextId ≤ m → name ≠ idStr m) (hres : createBlock g name type = .ok g') :
    ∃ k nm, (name ≠ "" → nm = name) ∧ (name = "" → nm = idStr g.nextId) ∧
      NewEnt (g.ensureGroup 0 "data").1 0 "data" nm (idStr g.nextId) "block" g' k := by
  unfold createBlock at hres
  have w0 : WF (g.ensureGroup 0 "data").1 :=
    h.ensureGroup "data" h.root h.not_cont_root (fun m _ => notId_of_head (by decide) m)
  have hf := h.ensFacts "data" h.root
  replace hres : (if (name != "" && (g.ensureGroup 0 "data").1.hasChild (g.ensureGroup 0 "data").2 name) = true
      then Except.error Err.duplicateName
      else (Store.entityCreateNew (g.ensureGroup 0 "data").1 0 "data" name type "block").map (·.1)) = .ok g' := hres
  generalize hg0 : (g.ensureGroup 0 "data").1 = g0 at *
  generalize hdk : (g.ensureGroup 0 "data").2 = dataK at *
  by_cases hdup : (name != "" && g0.hasChild dataK name) = true
  · simp [hdup] at hres
  · simp only [hdup, Bool.false_eq_true, ↓reduceIte] at hres
    obtain ⟨k, hk⟩ := map_fst_ok hres
    obtain ⟨nm, h1, h2, hne, _⟩ := w0.entityCreateNew (info := { flavour := .plain, item := "block" })
      (hf.keys_mono 0 h.root) (by rw [okind_root]; rfl) rfl rfl
      (by
        intro hn c hc
        rw [hf.child] at hc
        cases hc
        have : g0.hasChild dataK name = false := by
          have hn' : (name != "") = true := by simpa using hn
          simpa [hn'] using hdup
        rw [hasChild_eq] at this
        cases hx : g0.child? dataK name <;> simp_all)
      (by rw [hf.nextId]; exact hnf) hk
    rw [hf.nextId] at h2 hne
    exact ⟨k, nm, h1, h2, hne⟩

theorem WF.createBlock {g g' : Graph} (h : WF g) {name type : String}
    (hnf : ∀ m, g.nextId ≤ m → name ≠ idStr m) (hres : createBlock g name type = .ok g') : WF g' := by
  obtain ⟨_, _, _, _, hne⟩ := h.createBlock_new hnf hres
  exact hne.wf

/-! ## `create_section` -/

theorem getByName_none_of_getByIdOrName {g : Graph} {c : Option Nat} {x : String}
    (h : getByIdOrName g c x = none) : getByName g c x = none := by
  unfold getByIdOrName at h
  by_cases hu : isUuid x = true
  · simp only [hu, ↓reduceIte] at h
    cases hg : getById g c x with
    | some r => simp [hg] at h
    | none => simpa [hg] using h
  · simpa [hu] using h

theorem child?_none_of_getByName {g : Graph} {c : Nat} {x : String} (h : getByName g (some c) x = none) :
    g.child? c x = none := by
  unfold getByName cLinks at h
  rw [child?_eq]; simp only at h; rw [h]; rfl

/-- the graph in which `create_new` runs for `create_section` -/
def sectionBase (g : Graph) (ownerPath : Path) (ownerKey : Nat) : Graph :=
  match ownerPath with
  | [] => g
  | _ => (g.ensureGroup ownerKey "sections").1

theorem WF.createSection_new {g g' : Graph} (h : WF g) {ownerPath : Path} {name type : String}
    (hnf : ∀ m, g.nextId ≤ m → name ≠ idStr m) (hres : createSection g ownerPath name type = .ok g') :
    ∃ o k nm, resolve g rootLoc ownerPath = some o ∧ (name ≠ "" → nm = name) ∧ (name = "" → nm = idStr g.nextId) ∧
      NewEnt (sectionBase g ownerPath o.key) o.key (if ownerPath = [] then "metadata" else "sections") nm
        (idStr g.nextId) "section" g' k := by
  unfold createSection at hres
  cases ownerPath with
  | nil =>
    simp only [openCont, resolve, ownerKindOf, rootLoc, beq_self_eq_true, ↓reduceIte, containerInfo,
      Option.pure_def, Option.bind_eq_bind, Option.bind_some] at hres
    simp only [contHas] at hres
    cases hg : getByIdOrName g (g.child? 0 "metadata") name with
    | some r => simp [hg] at hres
    | none =>
      simp only [hg, Option.isSome_none] at hres
      obtain ⟨k, hk⟩ := map_fst_ok hres
      obtain ⟨nm, h1, h2, hne, _⟩ := h.entityCreateNew (info := { flavour := .sections, item := "section" })
        h.root (by rw [okind_root]; rfl) rfl rfl
        (by
          intro _ c hc
          rw [hc] at hg
          exact child?_none_of_getByName (getByName_none_of_getByIdOrName hg))
        hnf hk
      exact ⟨rootLoc, k, nm, rfl, h1, h2, hne⟩
  | cons s ps =>
    simp only at hres
    cases hr : resolve g rootLoc (s :: ps) with
    | none => simp [hr] at hres
    | some o =>
      simp only [hr] at hres
      by_cases hk : kindOf g o.key = "section"
      · have hk' : (kindOf g o.key != "section") = false := by simpa using hk
        simp only [hk', Bool.false_eq_true, ↓reduceIte] at hres
        cases hcn : checkNameType name type with
        | error e => simp [hcn] at hres
        | ok u =>
          simp only [hcn] at hres
          have hokey : o.key ∈ keys g := h.resolve_root_key hr
          have hkne : kindOf g o.key ≠ "" := by rw [hk]; decide
          have w1 : WF (g.ensureGroup o.key "sections").1 :=
            h.ensureGroup "sections" hokey (h.not_cont_of_kind hkne) (fun m _ => notId_of_head (by decide) m)
          have hf := h.ensFacts "sections" hokey
          replace hres : (if (g.ensureGroup o.key "sections").1.hasChild (g.ensureGroup o.key "sections").2 name = true
              then Except.error Err.duplicateName
              else (Store.entityCreateNew (g.ensureGroup o.key "sections").1 o.key "sections" name type "section").map
                (·.1)) = .ok g' := hres
          generalize hg1 : (g.ensureGroup o.key "sections").1 = g1 at *
          generalize hc1 : (g.ensureGroup o.key "sections").2 = c1 at *
          by_cases hdup : g1.hasChild c1 name = true
          · simp [hdup] at hres
          · simp only [hdup, Bool.false_eq_true, ↓reduceIte] at hres
            obtain ⟨k, hkk⟩ := map_fst_ok hres
            have hko1 : kindOf g1 o.key = "section" := by rw [kindOf_eq, hf.attrs, ← kindOf_eq]; exact hk
            obtain ⟨nm, h1, h2, hne, _⟩ := w1.entityCreateNew (info := { flavour := .sections, item := "section" })
              (hf.keys_mono _ hokey)
              (by rw [w1.okind_of_kind (by rw [hko1]; decide), hko1]; rfl) rfl rfl
              (by
                intro _ c hc
                rw [hf.child] at hc
                cases hc
                rw [hasChild_eq] at hdup
                cases hx : g1.child? c1 name <;> simp_all)
              (by rw [hf.nextId]; exact hnf) hkk
            rw [hf.nextId] at h2 hne
            refine ⟨o, k, nm, rfl, h1, h2, ?_⟩
            simp only [sectionBase, hg1, reduceCtorEq, ↓reduceIte]
            exact hne
      · have hk' : (kindOf g o.key != "section") = true := by simpa using hk
        simp [hk'] at hres

theorem WF.createSection {g g' : Graph} (h : WF g) {ownerPath : Path} {name type : String}
    (hnf : ∀ m, g.nextId ≤ m → name ≠ idStr m) (hres : createSection g ownerPath name type = .ok g') :
    WF g' := by
  obtain ⟨_, _, _, _, _, _, hne⟩ := h.createSection_new hnf hres
  exact hne.wf

/-! ## `create_group / create_data_array / create_tag / create_multi_tag / create_source` -/

/-- container and kind for `createIn` (the table inside the function) -/
def createSpec (ok what : String) : Option (String × String) :=
  match ok, what with
  | "block", "group" => some ("groups", "group")
  | "block", "data_array" => some ("data_arrays", "data_array")
  | "block", "tag" => some ("tags", "tag")
  | "block", "multi_tag" => some ("multi_tags", "multi_tag")
  | "block", "source" => some ("sources", "source")
  | "source", "source" => some ("sources", "source")
  | _, _ => none

theorem createSpec_info {ok what cname kind : String} (h : createSpec ok what = some (cname, kind)) :
    ∃ info, containerInfo ok cname = some info ∧ isPlainLike info.flavour = true ∧ info.item = kind ∧
      ok ≠ "" ∧ kind ≠ "" ∧ containerInfo kind "data" = none ∧ containerInfo kind "position" = none ∧
      containerInfo kind "positions" = none := by
  unfold createSpec at h
  split at h <;> cases h
  all_goals exact ⟨_, rfl, rfl, rfl, by decide, by decide, rfl, rfl, rfl⟩

theorem WF.addDataset {g : Graph} (h : WF g) {k : Nat} {n : String} (hk : k ∈ keys g) (hkc : ¬ IsCont g k)
    (hn : NotId n) (hci : containerInfo (okind g k) n = none) : WF (addDataset g k n) := by
  unfold Store.addDataset
  by_cases hh : g.hasChild k n = true
  · simp [hh, h]
  · simp only [hh, Bool.false_eq_true, ↓reduceIte]
    have hfree : g.child? k n = none := by
      rw [hasChild_eq] at hh
      cases hx : g.child? k n <;> simp_all
    have w1 := h.newNode .dataset
    have o1 := h.orphan_newNode .dataset
    apply w1.addLink_plain
    · rw [keys_newNode]; exact List.mem_append_left _ hk
    · rw [keys_newNode]; simp [newNode_snd]
    · rw [child?_newNode]; exact hfree
    · exact fun hx => hkc (IsCont.of_same (fun k => getAttr_newNode ..) (fun k m => child?_newNode ..) hx)
    · exact o1.not_cont
    · exact fun m _ => hn m
    · intro info hi
      rw [okind_congr (fun k => getAttr_newNode ..), hci] at hi
      cases hi

/-- the graph in which `create_new` runs for `createIn` -/
def createBase (g : Graph) (ownerKey : Nat) (cname : String) : Graph :=
  if kindOf g ownerKey == "source" then (g.ensureGroup ownerKey cname).1 else g

theorem WF.createIn {g g' : Graph} (h : WF g) {ownerPath : Path} {what name type : String} {extra : Option Nat}
    (hnf : ∀ m, g.nextId ≤ m → name ≠ idStr m) (hres : createIn g ownerPath what name type extra = .ok g') :
    WF g' := by
  unfold Store.createIn at hres
  cases hr : resolve g rootLoc ownerPath with
  | none => simp [hr] at hres
  | some o =>
    simp only [hr] at hres
    change (match createSpec (kindOf g o.key) what with
      | none => Except.error Err.attributeError
      | some (cname, kind) => _) = _ at hres
    cases hsp : createSpec (kindOf g o.key) what with
    | none => simp [hsp] at hres
    | some ck =>
      obtain ⟨cname, kind⟩ := ck
      simp only [hsp] at hres
      obtain ⟨info, hci, hpl, hitem, hokne, hkne, hd1, hd2, hd3⟩ := createSpec_info hsp
      cases hcn : checkNameType name type with
      | error e => simp [hcn] at hres
      | ok u =>
        simp only [hcn] at hres
        have hokey : o.key ∈ keys g := h.resolve_root_key hr
        have hname : name ≠ "" := by
          intro e
          simp [checkNameType, e] at hcn
        -- the base graph
        have hbase : ∃ g0, g0 = (if (kindOf g o.key == "source") = true then (g.ensureGroup o.key cname).1 else g) ∧
            WF g0 ∧ o.key ∈ keys g0 ∧ (∀ k a, g0.getAttr k a = g.getAttr k a) ∧ g0.nextId = g.nextId := by
          refine ⟨_, rfl, ?_⟩
          by_cases hs : (kindOf g o.key == "source") = true
          · simp only [hs, ↓reduceIte]
            have hf := h.ensFacts cname hokey
            exact ⟨h.ensureGroup cname hokey (h.not_cont_of_kind hokne) (fun m _ => containerInfo_notId hci m),
              hf.keys_mono _ hokey, hf.attrs, hf.nextId⟩
          · simp only [hs]
            exact ⟨h, hokey, fun _ _ => rfl, rfl⟩
        obtain ⟨g0, hg0, w0, hokey0, hattr0, hni0⟩ := hbase
        rw [← hg0] at hres
        have hko0 : kindOf g0 o.key = kindOf g o.key := by rw [kindOf_eq, hattr0]; rfl
        have hci0 : containerInfo (okind g0 o.key) cname = some info := by
          rw [w0.okind_of_kind (by rw [hko0]; exact hokne), hko0]; exact hci
        have hfree : name ≠ "" → ∀ c, g0.child? o.key cname = some c → g0.child? c name = none := by
          intro _ c hc
          rw [hc] at hres
          simp only at hres
          by_cases hd : g0.hasChild c name = true
          · simp [hd] at hres
          · rw [hasChild_eq] at hd
            cases hx : g0.child? c name <;> simp_all
        cases hcc : g0.child? o.key cname
        case' some c =>
          have hd : g0.hasChild c name = false := by rw [hasChild_eq, hfree hname c hcc]; rfl
          rw [hcc] at hres
          simp only [hd] at hres
        case' none =>
          rw [hcc] at hres
          simp only at hres
        all_goals
          simp only [Bool.false_eq_true, ↓reduceIte] at hres
          have hnf0 : ∀ m, g0.nextId ≤ m → name ≠ idStr m := by rw [hni0]; exact hnf
          by_cases hmt : kind = "multi_tag"
          · simp only [hmt, beq_self_eq_true, ↓reduceIte] at hres
            cases extra with
            | none => simp at hres
            | some pos =>
              simp only at hres
              cases hec : Store.entityCreateNew g0 o.key cname name type "multi_tag" with
              | error e => simp [hec] at hres
              | ok r =>
                obtain ⟨g1, k⟩ := r
                simp only [hec] at hres
                obtain ⟨nm, _, _, hne, _⟩ := w0.entityCreateNew hokey0 hci0 hpl (hitem.trans hmt) hfree hnf0 hec
                by_cases hk1 : isKind g1 pos "data_array" = true
                · simp only [hk1, Bool.not_true, Bool.false_eq_true, ↓reduceIte] at hres
                  by_cases hk2 : inBlockStore g1 o.key "data_arrays" pos = true
                  · simp only [hk2, Bool.not_true, Bool.false_eq_true, ↓reduceIte, Except.ok.injEq] at hres
                    rw [← hres]
                    have hkp : kindOf g1 pos = "data_array" := isKind_iff.mp hk1
                    have hk0 : k ≠ 0 := fun e => hne.knew (e ▸ w0.root)
                    apply hne.wf.createLinkIn_role hne.kkey (mem_keys_of_kind (by rw [hkp]; decide))
                      (hne.wf.not_cont_of_kind (by rw [hne.kind]; decide))
                      (hne.wf.not_cont_of_kind (by rw [hkp]; decide))
                      (fun m _ => notId_of_head (by decide) m)
                    rw [hne.wf.okind_of_kind (by rw [hne.kind]; decide), hne.kind]; rfl
                  · simp [hk2] at hres
                · simp [hk1] at hres
          · have hmt' : (kind == "multi_tag") = false := by simpa using hmt
            simp only [hmt', Bool.false_eq_true, ↓reduceIte] at hres
            cases hec : Store.entityCreateNew g0 o.key cname name type kind with
            | error e => simp [hec] at hres
            | ok r =>
              obtain ⟨g1, k⟩ := r
              simp only [hec] at hres
              obtain ⟨nm, _, _, hne, _⟩ := w0.entityCreateNew hokey0 hci0 hpl hitem hfree hnf0 hec
              have hkc : ¬ IsCont g1 k := hne.wf.not_cont_of_kind (by rw [hne.kind]; exact hkne)
              have hokk : okind g1 k = kind := by
                rw [hne.wf.okind_of_kind (by rw [hne.kind]; exact hkne), hne.kind]
              by_cases hda : kind = "data_array"
              · simp only [hda, beq_self_eq_true, ↓reduceIte, Except.ok.injEq] at hres
                rw [← hres]
                exact hne.wf.addDataset hne.kkey hkc (notId_of_head (by decide)) (by rw [hokk]; exact hd1)
              · have hda' : (kind == "data_array") = false := by simpa using hda
                simp only [hda', Bool.false_eq_true, ↓reduceIte] at hres
                by_cases htg : kind = "tag"
                · simp only [htg, beq_self_eq_true, ↓reduceIte, Except.ok.injEq] at hres
                  rw [← hres]
                  exact hne.wf.addDataset hne.kkey hkc (notId_of_head (by decide)) (by rw [hokk]; exact hd2)
                · have htg' : (kind == "tag") = false := by simpa using htg
                  simp only [htg', Bool.false_eq_true, ↓reduceIte, Except.ok.injEq] at hres
                  rw [← hres]; exact hne.wf

/-! ## `Section.create_property` -/

theorem freshId_addLink_comm (g : Graph) (c : Nat) (n : String) (t : Nat) :
    ((g.addLink c n t).freshId).1 = ((g.freshId).1).addLink c n t := rfl

theorem WF.createProperty {g g' : Graph} (h : WF g) {ownerPath : Path} {name : String}
    (hnf : ∀ m, g.nextId ≤ m → name ≠ idStr m) (hres : createProperty g ownerPath name = .ok g') : WF g' := by
  unfold Store.createProperty at hres
  cases hr : resolve g rootLoc ownerPath with
  | none => simp [hr] at hres
  | some o =>
    simp only [hr] at hres
    by_cases hk : kindOf g o.key = "section"
    · have hk' : (kindOf g o.key != "section") = false := by simpa using hk
      simp only [hk', Bool.false_eq_true, ↓reduceIte] at hres
      have hokey : o.key ∈ keys g := h.resolve_root_key hr
      have hkne : kindOf g o.key ≠ "" := by rw [hk]; decide
      have w1 : WF (g.ensureGroup o.key "properties").1 :=
        h.ensureGroup "properties" hokey (h.not_cont_of_kind hkne) (fun m _ => notId_of_head (by decide) m)
      have hf := h.ensFacts "properties" hokey
      replace hres : (if (name != "" && (g.ensureGroup o.key "properties").1.hasChild
            (g.ensureGroup o.key "properties").2 name) = true then Except.error Err.duplicateName
          else if (name == "") = true then Except.error Err.valueError
          else if hasSlash name = true then Except.error Err.valueError
          else Except.ok ((((((((g.ensureGroup o.key "properties").1.newNode .dataset).1.addLink
            (g.ensureGroup o.key "properties").2 name (g.ensureGroup o.key "properties").1.nextKey).setAttr
            (g.ensureGroup o.key "properties").1.nextKey "name" (some name)).freshId).1.setAttr
            (g.ensureGroup o.key "properties").1.nextKey "entity_id"
              (some (idStr (g.ensureGroup o.key "properties").1.nextId))).setAttr
            (g.ensureGroup o.key "properties").1.nextKey "~kind" (some "property")))) = .ok g' := hres
      generalize hg1 : (g.ensureGroup o.key "properties").1 = g1 at *
      generalize hc1 : (g.ensureGroup o.key "properties").2 = c at *
      by_cases hn : name = ""
      · subst hn; simp at hres
      · have hn' : (name != "") = true := by simpa using hn
        have hn'' : (name == "") = false := by simpa using hn
        by_cases hdup : g1.hasChild c name = true
        · simp [hn', hdup] at hres
        · simp only [hn', hdup, Bool.and_false, Bool.false_eq_true, ↓reduceIte, hn''] at hres
          by_cases hs : hasSlash name = true
          · simp [hs] at hres
          · simp only [hs, Bool.false_eq_true, ↓reduceIte, Except.ok.injEq] at hres
            rw [← hres]
            have hck : c ≠ g1.nextKey := fun e => w1.nextKey_fresh (e ▸ hf.ckey)
            rw [setAttr_addLink_comm _ _ _ _ _ hck, freshId_addLink_comm, setAttr_addLink_comm _ _ _ _ _ hck,
              setAttr_addLink_comm _ _ _ _ _ hck]
            -- the attributes are written on the still unlinked dataset
            have wN := w1.newNode .dataset
            have oN := w1.orphan_newNode .dataset
            have hkN : ((g1.newNode .dataset).1.node? g1.nextKey).isSome := by
              rw [node?_isSome_newNode]; simp
            have wA1 := wN.setAttr_orphan oN "name" (some name) (by intro e; exact absurd e (by decide))
              (by intro e; exact absurd e (by decide))
            have oA1 := oN.setAttr g1.nextKey "name" (some name)
            have wA2 := wA1.freshId
            have oA2 : Orphan (((g1.newNode .dataset).1.setAttr g1.nextKey "name" (some name)).freshId).1
              g1.nextKey := oA1
            have wA3 := wA2.setAttr_orphan oA2 "entity_id" (some (idStr g1.nextId)) (by
              intro _
              refine ⟨g1.nextId, rfl, by simp [nextId_freshId, nextId_setAttr, nextId_newNode], ?_⟩
              intro k' e
              have e' : ((g1.newNode .dataset).1.setAttr g1.nextKey "name" (some name)).getAttr k' "entity_id" =
                  some (idStr g1.nextId) := e
              rw [getAttr_setAttr_attr_ne _ _ _ _ (by decide), getAttr_newNode] at e'
              obtain ⟨n, hn1, hn2⟩ := w1.ids_wf k' _ e'
              have := idStr_inj hn2; omega) (by intro e; exact absurd e (by decide))
            have oA3 := oA2.setAttr g1.nextKey "entity_id" (some (idStr g1.nextId))
            have wA4 := wA3.setAttr_orphan oA3 "~kind" (some "property") (by intro e; exact absurd e (by decide))
              (by intro _; decide)
            generalize hA : ((((g1.newNode .dataset).1.setAttr g1.nextKey "name" (some name)).freshId).1.setAttr
              g1.nextKey "entity_id" (some (idStr g1.nextId))).setAttr g1.nextKey "~kind" (some "property") = gA
              at *
            have hnodeA : (gA.node? g1.nextKey).isSome := by
              rw [← hA]; simp only [node?_isSome_setAttr, node?_freshId]; exact hkN
            have a3 : gA.getAttr g1.nextKey "~kind" = some "property" := by
              rw [← hA, getAttr_setAttr_self]
              simp only [node?_isSome_setAttr, node?_freshId]; exact hkN
            have a2 : gA.getAttr g1.nextKey "entity_id" = some (idStr g1.nextId) := by
              rw [← hA, getAttr_setAttr_attr_ne _ _ _ _ (by decide), getAttr_setAttr_self]
              simp only [node?_isSome_setAttr, node?_freshId]; exact hkN
            have a1 : gA.getAttr g1.nextKey "name" = some name := by
              rw [← hA, getAttr_setAttr_attr_ne _ _ _ _ (by decide), getAttr_setAttr_attr_ne _ _ _ _ (by decide),
                getAttr_freshId]
              exact getAttr_setAttr_self _ _ _ hkN
            have hokne : o.key ≠ g1.nextKey := fun e => w1.nextKey_fresh (e ▸ hf.keys_mono _ hokey)
            have hattrA : ∀ x, x ≠ g1.nextKey → ∀ a, gA.getAttr x a = g.getAttr x a := by
              intro x hx a
              rw [← hA, getAttr_setAttr_ne _ _ _ hx, getAttr_setAttr_ne _ _ _ hx]
              show ((g1.newNode .dataset).1.setAttr g1.nextKey "name" (some name)).getAttr x a = _
              rw [getAttr_setAttr_ne _ _ _ hx, getAttr_newNode, hf.attrs]
            have hchA : ∀ x m, gA.child? x m = g1.child? x m := by
              intro x m
              rw [← hA, child?_setAttr, child?_setAttr]
              show ((g1.newNode .dataset).1.setAttr g1.nextKey "name" (some name)).child? x m = _
              rw [child?_setAttr, child?_newNode]
            have hkeysA : keys gA = keys g1 ++ [g1.nextKey] := by
              rw [← hA, keys_setAttr, keys_setAttr]
              show keys ((g1.newNode .dataset).1.setAttr g1.nextKey "name" (some name)) = _
              rw [keys_setAttr, keys_newNode]
            have hniA : gA.nextId = g.nextId + 1 := by
              rw [← hA]; simp only [nextId_setAttr, nextId_freshId, nextId_newNode]; rw [hf.nextId]
            apply wA4.addLink_entry (k := o.key) (cn := "properties") (info := { flavour := .plain, item := "property" })
            · have : kindOf gA o.key = "section" := by rw [kindOf_eq, hattrA _ hokne, ← kindOf_eq]; exact hk
              rw [wA4.okind_of_kind (by rw [this]; decide), this]; rfl
            · rw [hchA]; exact hf.child
            · rw [hkeysA]; simp
            · rw [hchA]
              rw [hasChild_eq] at hdup
              cases hx : g1.child? c name <;> simp_all
            · intro m hm
              rw [hniA] at hm
              exact hnf m (by omega)
            · refine ⟨?_, ⟨_, a2⟩, ?_⟩
              · rw [kindOf_eq, a3]; rfl
              · simp only [isPlainLike, ↓reduceIte]; exact a1
    · have hk' : (kindOf g o.key != "section") = true := by simpa using hk
      simp [hk'] at hres

/-! ## `BaseTag.create_feature` -/

/-- the graph `create_feature` builds once its checks have passed -/
def featFinal (g : Graph) (okey t : Nat) (lt tt : String) : Graph :=
  let i := idStr g.nextId
  let r2 := (g.freshId).1.ensureGroup okey "features"
  let r3 := r2.1.ensureGroup r2.2 i
  createLinkIn ((((r3.1.setAttr r3.2 "entity_id" (some i)).setAttr r3.2 "~kind" (some "feature")).setAttr r3.2
    "link_type" (some lt)).setAttr r3.2 "target_type" (some tt)) r3.2 "data" t

theorem WF.featFinal {g : Graph} (h : WF g) {okey t : Nat} (lt tt : String) (hokey : okey ∈ keys g)
    (hok : kindOf g okey = "tag" ∨ kindOf g okey = "multi_tag") (ht : kindOf g t ≠ "") :
    WF (featFinal g okey t lt tt) := by
  have hokne : kindOf g okey ≠ "" := by rcases hok with e | e <;> rw [e] <;> decide
  have w1 := h.freshId
  have hci : containerInfo (okind g okey) "features" = some { flavour := .features, item := "feature" } := by
    rw [h.okind_of_kind hokne]
    rcases hok with e | e <;> rw [e] <;> rfl
  have w2 : WF ((g.freshId).1.ensureGroup okey "features").1 :=
    w1.ensureGroup "features" hokey (fun hx => h.not_cont_of_kind hokne hx) (fun m _ => notId_of_head (by decide) m)
  have hf := w1.ensFacts "features" hokey
  unfold Lemmas.featFinal
  simp only
  generalize hg2 : ((g.freshId).1.ensureGroup okey "features").1 = g2 at *
  generalize hc2 : ((g.freshId).1.ensureGroup okey "features").2 = c at *
  have hfree : g2.child? c (idStr g.nextId) = none := by
    apply child?_none_iff.mpr
    intro l hl
    cases hcc : (g.freshId).1.child? okey "features" with
    | some c' =>
      obtain ⟨e1, e2⟩ := hf.old c' hcc
      rw [e1] at hl
      exact h.names_not_future c l hl g.nextId (Nat.le_refl _)
    | none => rw [(hf.new hcc).1] at hl; cases hl
  rw [ensureGroup_of_none hfree]
  simp only
  have hck : c ≠ g2.nextKey := fun e => w2.nextKey_fresh (e ▸ hf.ckey)
  rw [setAttr_addLink_comm _ _ _ _ _ hck, setAttr_addLink_comm _ _ _ _ _ hck,
    setAttr_addLink_comm _ _ _ _ _ hck, setAttr_addLink_comm _ _ _ _ _ hck]
  have wN := w2.newNode .group
  have oN := w2.orphan_newNode .group
  have hkN : ((g2.newNode .group).1.node? g2.nextKey).isSome := by rw [node?_isSome_newNode]; simp
  have hni2 : g2.nextId = g.nextId + 1 := hf.nextId
  have wA1 := wN.setAttr_orphan oN "entity_id" (some (idStr g.nextId)) (by
    intro _
    refine ⟨g.nextId, rfl, by rw [nextId_newNode, hni2]; omega, ?_⟩
    intro k' e
    rw [entityId_eq, getAttr_newNode, hf.attrs] at e
    obtain ⟨n, hn1, hn2⟩ := h.ids_wf k' _ e
    have := idStr_inj hn2; omega) (by intro e; exact absurd e (by decide))
  have oA1 := oN.setAttr g2.nextKey "entity_id" (some (idStr g.nextId))
  have wA2 := wA1.setAttr_orphan oA1 "~kind" (some "feature") (by intro e; exact absurd e (by decide))
    (by intro _; decide)
  have oA2 := oA1.setAttr g2.nextKey "~kind" (some "feature")
  have wA3 := wA2.setAttr_orphan oA2 "link_type" (some lt) (by intro e; exact absurd e (by decide))
    (by intro e; exact absurd e (by decide))
  have oA3 := oA2.setAttr g2.nextKey "link_type" (some lt)
  have wA4 := wA3.setAttr_orphan oA3 "target_type" (some tt) (by intro e; exact absurd e (by decide))
    (by intro e; exact absurd e (by decide))
  generalize hA : ((((g2.newNode .group).1.setAttr g2.nextKey "entity_id" (some (idStr g.nextId))).setAttr
    g2.nextKey "~kind" (some "feature")).setAttr g2.nextKey "link_type" (some lt)).setAttr g2.nextKey
    "target_type" (some tt) = gA at *
  have a2 : gA.getAttr g2.nextKey "~kind" = some "feature" := by
    rw [← hA, getAttr_setAttr_attr_ne _ _ _ _ (by decide), getAttr_setAttr_attr_ne _ _ _ _ (by decide),
      getAttr_setAttr_self]
    simp only [node?_isSome_setAttr]; exact hkN
  have a1 : gA.getAttr g2.nextKey "entity_id" = some (idStr g.nextId) := by
    rw [← hA, getAttr_setAttr_attr_ne _ _ _ _ (by decide), getAttr_setAttr_attr_ne _ _ _ _ (by decide),
      getAttr_setAttr_attr_ne _ _ _ _ (by decide)]
    exact getAttr_setAttr_self _ _ _ hkN
  have hattrA : ∀ x, x ≠ g2.nextKey → ∀ a, gA.getAttr x a = g.getAttr x a := by
    intro x hx a
    rw [← hA, getAttr_setAttr_ne _ _ _ hx, getAttr_setAttr_ne _ _ _ hx, getAttr_setAttr_ne _ _ _ hx,
      getAttr_setAttr_ne _ _ _ hx, getAttr_newNode, hf.attrs]
    rfl
  have hchA : ∀ x m, gA.child? x m = g2.child? x m := by
    intro x m
    rw [← hA, child?_setAttr, child?_setAttr, child?_setAttr, child?_setAttr, child?_newNode]
  have hkeysA : keys gA = keys g2 ++ [g2.nextKey] := by
    rw [← hA, keys_setAttr, keys_setAttr, keys_setAttr, keys_setAttr, keys_newNode]
  have hniA : gA.nextId = g.nextId + 1 := by
    rw [← hA]; simp only [nextId_setAttr, nextId_newNode]; exact hni2
  have hkfresh : ∀ x ∈ keys g, x ≠ g2.nextKey := fun x hx e => w2.nextKey_fresh (e ▸ hf.keys_mono x hx)
  have wB : WF (gA.addLink c (idStr g.nextId) g2.nextKey) := by
    apply wA4.addLink_entry (k := okey) (cn := "features") (info := { flavour := .features, item := "feature" })
    · have : kindOf gA okey = kindOf g okey := by rw [kindOf_eq, hattrA _ (hkfresh _ hokey)]; rfl
      rw [wA4.okind_of_kind (by rw [this]; exact hokne), this, ← h.okind_of_kind hokne]; exact hci
    · rw [hchA]; exact hf.child
    · rw [hkeysA]; simp
    · rw [hchA]; exact hfree
    · intro m hm e
      rw [hniA] at hm
      have := idStr_inj e; omega
    · refine ⟨?_, ⟨_, a1⟩, ?_⟩
      · rw [kindOf_eq, a2]; rfl
      · simp only [isPlainLike, Bool.false_eq_true, ↓reduceIte]; exact a1
  have htkey : t ∈ keys g := mem_keys_of_kind ht
  have hkB : kindOf (gA.addLink c (idStr g.nextId) g2.nextKey) g2.nextKey = "feature" := by
    rw [kindOf_eq, getAttr_addLink, a2]; rfl
  have htB : kindOf (gA.addLink c (idStr g.nextId) g2.nextKey) t = kindOf g t := by
    rw [kindOf_eq, getAttr_addLink, hattrA _ (hkfresh _ htkey)]; rfl
  apply wB.createLinkIn_role
  · rw [keys_addLink, hkeysA]; simp
  · rw [keys_addLink, hkeysA]; exact List.mem_append_left _ (hf.keys_mono _ htkey)
  · exact wB.not_cont_of_kind (by rw [hkB]; decide)
  · exact wB.not_cont_of_kind (by rw [htB]; exact ht)
  · exact fun m _ => notId_of_head (by decide) m
  · rw [wB.okind_of_kind (by rw [hkB]; decide), hkB]; rfl

theorem WF.createFeature {g g' : Graph} (h : WF g) {ownerPath : Path} {data : Option Nat} {linkType : String}
    (hres : createFeature g ownerPath data linkType = .ok g') : WF g' := by
  unfold Store.createFeature at hres
  cases hr : resolve g rootLoc ownerPath with
  | none => simp [hr] at hres
  | some o =>
    simp only [hr] at hres
    have hokey : o.key ∈ keys g := h.resolve_root_key hr
    split at hres
    · cases hres
    · rename_i hkind
      split at hres
      · cases hres
      · cases data with
        | none => simp at hres
        | some t =>
          cases hb : blockOfPath g ownerPath with
          | none => simp [hb] at hres
          | some b =>
            simp only [hb] at hres
            split at hres
            · cases hres
            · split at hres
              · cases hres
              · rename_i hkd
                split at hres
                · cases hres
                · split at hres
                  · cases hres
                  · have e : g' = Lemmas.featFinal g o.key t linkType.toLower
                        (if isKind g t "data_array" = true then "DataArray" else "DataFrame") :=
                      (Except.ok.inj hres).symm
                    rw [e]
                    apply h.featFinal _ _ hokey
                    · simp only [bne_iff_ne, ne_eq, Bool.and_eq_true, decide_eq_true_eq, not_and,
                        Decidable.not_not] at hkind
                      by_cases e1 : kindOf g o.key = "tag"
                      · exact Or.inl e1
                      · exact Or.inr (hkind e1)
                    · simp only [Bool.not_eq_eq_eq_not, Bool.not_true, Bool.or_eq_false_iff, not_and,
                        Bool.not_eq_false] at hkd
                      intro e0
                      simp [isKind, e0] at hkd

/-! ## deletion -/

theorem WF.h5Delete {g g' : Graph} (h : WF g) {grp parent depth : Nat} {lname x : String} {die : Bool}
    (hres : h5Delete g grp parent lname depth x die = .ok g') : WF g' := by
  unfold Store.h5Delete at hres
  simp only at hres
  split at hres
  · cases hres
  · split at hres
    · cases hres
    · split at hres
      · cases hres; exact (h.delLink _ _).delLink _ _
      · cases hres; exact h.delLink _ _

theorem WF.contDel {g g' : Graph} (h : WF g) {c : Cont} {key : Key} (hres : contDel g c key = .ok g') :
    WF g' := by
  unfold Store.contDel at hres
  simp only at hres
  split at hres
  · cases hres
  · split at hres
    · cases hres
    · split at hres
      all_goals first
        | (cases hres; exact h.deleteObjs _)
        | (split at hres
           all_goals first
             | exact h.h5Delete hres
             | cases hres)

/-! ## attributes -/

theorem WF.setAttrOp {g g' : Graph} (h : WF g) {p : Path} {attr : String} {v : Option String}
    (hres : setAttrOp g p attr v = .ok g') : WF g' := by
  unfold Store.setAttrOp at hres
  cases hr : resolve g rootLoc p with
  | none => simp [hr] at hres
  | some o =>
    simp only [hr] at hres
    split at hres
    · cases hres
    · rename_i hal
      have hal' : attrAllowed (kindOf g o.key) attr = true := by simpa using hal
      have hne : attr ≠ "entity_id" ∧ attr ≠ "name" ∧ attr ≠ "~kind" := by
        refine ⟨?_, ?_, ?_⟩ <;> intro e <;> subst e <;> simp [attrAllowed] at hal'
      split at hres
      · cases hres
      · split at hres <;> cases hres <;> exact h.setAttr_other _ _ hne.1 hne.2.1 hne.2.2

/-! ## role links -/

theorem containerInfo_metadata {k : String} (h : k ≠ "file") : containerInfo k "metadata" = none := by
  unfold containerInfo
  split <;> simp_all

/-- a role link from an entity `p` of kind `pk` to an entity `t` -/
theorem WF.roleLink {g : Graph} (h : WF g) {p t : Nat} {n : String} (hp : kindOf g p ≠ "") (ht : kindOf g t ≠ "")
    (hn : NotId n) (hci : containerInfo (kindOf g p) n = none) : WF (createLinkIn g p n t) :=
  h.createLinkIn_role (mem_keys_of_kind hp) (mem_keys_of_kind ht) (h.not_cont_of_kind hp) (h.not_cont_of_kind ht)
    (fun m _ => hn m) (by rw [h.okind_of_kind hp]; exact hci)

theorem WF.setRole {g g' : Graph} (h : WF g) {ownerPath : Path} {role : String} {target : Option Nat}
    (hres : setRole g ownerPath role target = .ok g') : WF g' := by
  unfold Store.setRole at hres
  cases hr : resolve g rootLoc ownerPath with
  | none => simp [hr] at hres
  | some o =>
    simp only [hr] at hres
    split at hres
    · -- metadata := t
      rename_i t
      split at hres
      · cases hres
      · rename_i hk
        split at hres
        · cases hres
        · rename_i hts
          cases hres
          simp only [Bool.or_eq_true, beq_iff_eq, not_or] at hk
          have hts' : kindOf g t = "section" := by simpa [isKind] using hts
          apply h.roleLink (fun e => hk.2 e) (by rw [hts']; decide) (notId_of_head (by decide))
          exact containerInfo_metadata (h.kind_not_file _)
    · -- del metadata
      split at hres
      · cases hres
      · split at hres <;> cases hres
        · exact h.delLink _ _
        · exact h
    · -- link := t
      rename_i t
      split at hres
      · cases hres
      · rename_i hk
        split at hres
        · cases hres
        · rename_i hts
          cases hres
          have hk' : kindOf g o.key = "section" := by simpa using hk
          have hts' : kindOf g t = "section" := by simpa [isKind] using hts
          apply h.roleLink (by rw [hk']; decide) (by rw [hts']; decide) (notId_of_head (by decide))
          rw [hk']; rfl
    · -- link := None
      split at hres
      · cases hres
      · split at hres <;> cases hres
        · exact h.delLink _ _
        · exact h
    · -- positions := t
      rename_i t
      split at hres
      · cases hres
      · rename_i hk
        split at hres
        · split at hres
          · cases hres
          · rename_i hts
            split at hres
            · cases hres
            · cases hres
              have hk' : kindOf g o.key = "multi_tag" := by simpa using hk
              have hts' : kindOf g t = "data_array" := by simpa [isKind] using hts
              apply h.roleLink (by rw [hk']; decide) (by rw [hts']; decide) (notId_of_head (by decide))
              rw [hk']; rfl
        · cases hres
    · split at hres <;> cases hres
    · -- extents := t
      rename_i t
      split at hres
      · cases hres
      · rename_i hk
        split at hres
        · split at hres
          · cases hres
          · rename_i hts
            split at hres
            · cases hres
            · cases hres
              have hk' : kindOf g o.key = "multi_tag" := by simpa using hk
              have hts' : kindOf g t = "data_array" := by simpa [isKind] using hts
              apply h.roleLink (by rw [hk']; decide) (by rw [hts']; decide) (notId_of_head (by decide))
              rw [hk']; rfl
        · cases hres
    · -- extents := None
      split at hres
      · cases hres
      · split at hres <;> cases hres
        · exact h.delLink _ _
        · exact h
    · -- data := t
      rename_i t
      split at hres
      · cases hres
      · rename_i hk
        have hk' : kindOf g o.key = "feature" := by simpa using hk
        have hkne : kindOf g o.key ≠ "" := by rw [hk']; decide
        have key : ∀ (tt kd : String), kindOf g t = kd → kd ≠ "" →
            WF (createLinkIn (g.setAttr o.key "target_type" (some tt)) o.key "data" t) := by
          intro tt kd hts hkd
          have w1 := h.setAttr_other o.key (some tt) (a := "target_type") (by decide) (by decide) (by decide)
          have hko : ∀ x, kindOf (g.setAttr o.key "target_type" (some tt)) x = kindOf g x := fun x => by
            rw [kindOf_eq, getAttr_setAttr_attr_ne _ _ _ _ (by decide)]; rfl
          apply w1.roleLink (by rw [hko]; exact hkne) (by rw [hko, hts]; exact hkd) (notId_of_head (by decide))
          rw [hko, hk']; rfl
        split at hres
        · split at hres
          · rename_i hts
            split at hres
            · cases hres
            · cases hres
              exact key _ "data_array" (by simpa [isKind] using hts) (by decide)
          · split at hres
            · rename_i hts
              split at hres
              · cases hres
              · split at hres
                · cases hres
                · cases hres
                  exact key _ "data_frame" (by simpa [isKind] using hts) (by decide)
            · cases hres
        · cases hres
    · split at hres <;> cases hres
    · cases hres

/-! ## link lists: `append` -/

theorem contAppend_ok {g g' : Graph} {c : Cont} {key : Key} (hres : contAppend g c key = .ok g') :
    ∃ k id, g.entityId k = some id ∧
      ((c.info.flavour = .link ∧ kindOf g k = c.info.item) ∨
       (c.info.flavour = .sourceLink ∧ ∃ b, c.block = some b ∧ inSourceTree g b id = true)) ∧
      g' = createLinkIn (g.ensureGroup c.owner.key c.cname).1 (g.ensureGroup c.owner.key c.cname).2 id k := by
  unfold Store.contAppend at hres
  split at hres
  case h_3 => cases hres
  all_goals
    simp only at hres
    split at hres
    · cases hres
    · rename_i k hk
      split at hres
      · cases hres
      · rename_i id hid
        split at hres
        · cases hres
        · cases hres
        · rename_i hacc
          refine ⟨k, id, hid, ?_, (Except.ok.inj hres).symm⟩
          split at hacc
          · left
            refine ⟨by assumption, ?_⟩
            split at hacc
            · cases hacc
            · rename_i hkk
              simpa using hkk
          · right
            rename_i b _ _
            have hacc' : inSourceTree g b id = true ∧ inSourceTreeObj g b k = true := by simpa using hacc
            exact ⟨by assumption, b, by assumption, hacc'.1⟩
          · cases hacc

/-! ### the source tree holds sources -/

theorem WF.bfsIds_sources {g : Graph} (h : WF g) : ∀ (fuel : Nat) (queue : List Nat) (acc : List String),
    (∀ k ∈ queue, kindOf g k = "source") →
    (∀ i ∈ acc, ∃ k, kindOf g k = "source" ∧ g.entityId k = some i) →
    ∀ i ∈ bfsIds g "sources" fuel queue acc, ∃ k, kindOf g k = "source" ∧ g.entityId k = some i := by
  intro fuel
  induction fuel with
  | zero => intro queue acc _ ha i hi; exact ha i (by simpa [bfsIds] using hi)
  | succ n ih =>
    intro queue acc hq ha i hi
    cases queue with
    | nil => exact ha i (by simpa [bfsIds] using hi)
    | cons k rest =>
      simp only [bfsIds] at hi
      have hk : kindOf g k = "source" := hq k (by simp)
      refine ih _ _ ?_ ?_ i hi
      · intro x hx
        rcases List.mem_append.mp hx with hx | hx
        · exact hq x (by simp [hx])
        · cases hc : g.child? k "sources" with
          | none => simp [hc] at hx
          | some c =>
            simp only [hc, List.mem_map] at hx
            obtain ⟨l, hl, e⟩ := hx
            have := h.typing k "sources" { flavour := .sources, item := "source" } c
              (by rw [h.okind_of_kind (by rw [hk]; decide), hk]; rfl) hc l hl
            rw [← e]; exact this.1
      · intro j hj
        cases he : g.entityId k with
        | none => simp only [he] at hj; exact ha j hj
        | some i' =>
          simp only [he] at hj
          rcases List.mem_append.mp hj with hj | hj
          · exact ha j hj
          · simp only [List.mem_singleton] at hj
            exact ⟨k, hk, hj ▸ he⟩

theorem WF.blockOfPath_kind {g : Graph} (h : WF g) {p : Path} {b : Nat} (hb : blockOfPath g p = some b) :
    kindOf g b = "block" := by
  unfold blockOfPath at hb
  split at hb
  · rename_i bs _
    simp only [resolve, stepSeg, rootLoc, Option.map_eq_some_iff] at hb
    obtain ⟨l, hl, e⟩ := hb
    cases hd : g.child? 0 "data" with
    | none => simp [hd] at hl
    | some d =>
      simp only [hd, Option.map_some] at hl
      have ht := h.typing 0 "data" { flavour := .plain, item := "block" } d rfl hd
      cases bs with
      | name n =>
        simp only at hl
        cases hc : g.child? d n with
        | none => simp [hc] at hl
        | some t =>
          simp only [hc, Option.map_some, Option.some.injEq] at hl
          have := ht _ (child?_some_mem hc)
          rw [← e, ← hl]; exact this.1
      | idx i =>
        simp only at hl
        cases hc : (g.links d)[i]? with
        | none => simp [hc] at hl
        | some nk =>
          simp only [hc, Option.map_some, Option.some.injEq] at hl
          have := ht _ (List.mem_of_getElem? hc)
          rw [← e, ← hl]; exact this.1
  · cases hb

theorem WF.inSourceTree_kind {g : Graph} (h : WF g) {b k : Nat} {id : String} (hb : kindOf g b = "block")
    (hid : g.entityId k = some id) (hin : inSourceTree g b id = true) : kindOf g k = "source" := by
  unfold inSourceTree at hin
  cases hc : g.child? b "sources" with
  | none => simp [hc] at hin
  | some c =>
    simp only [hc, List.any_eq_true, List.mem_map] at hin
    obtain ⟨top, ⟨l, hl, e⟩, hmem⟩ := hin
    have ht := h.typing b "sources" { flavour := .sources, item := "source" } c
      (by rw [h.okind_of_kind (by rw [hb]; decide), hb]; rfl) hc l hl
    have hmem' : id ∈ subtreeIds g "sources" top := by simpa using hmem
    obtain ⟨k', hk', he⟩ := h.bfsIds_sources _ [top] [] (by intro x hx; simp at hx; rw [hx, ← e]; exact ht.1)
      (by intro i hi; cases hi) id hmem'
    rw [h.ids_distinct k k' id hid he]; exact hk'

theorem openCont_some {g : Graph} {ownerPath : Path} {cname : String} {c : Cont}
    (hc : openCont g ownerPath cname = some c) :
    ∃ o, resolve g rootLoc ownerPath = some o ∧ containerInfo (okind g o.key) cname = some c.info ∧
      c.owner = o ∧ c.cname = cname ∧ c.block = blockOfPath g ownerPath ∧ c.node = g.child? o.key cname := by
  unfold openCont at hc
  cases hr : resolve g rootLoc ownerPath with
  | none => simp [hr] at hc
  | some o =>
    cases hi : containerInfo (ownerKindOf g o) cname with
    | none => simp [hr, hi] at hc
    | some info =>
      simp only [hr, hi, Option.pure_def, Option.bind_eq_bind, Option.bind_some, Option.some.injEq] at hc
      subst hc
      exact ⟨o, rfl, hi, rfl, rfl, rfl, rfl⟩

theorem containerInfo_sourceLink {ok cn : String} {info : CInfo} (h : containerInfo ok cn = some info)
    (hf : info.flavour = .sourceLink) : info.item = "source" := by
  unfold containerInfo at h
  split at h <;> cases h <;> first | rfl | cases hf

theorem WF.contAppend {g g' : Graph} (h : WF g) {ownerPath : Path} {cname : String} {c : Cont} {key : Key}
    (hc : openCont g ownerPath cname = some c) (hres : contAppend g c key = .ok g') : WF g' := by
  obtain ⟨o, hr, hci, ho, hcn, hblk, _⟩ := openCont_some hc
  obtain ⟨k, id, hid, hacc, e⟩ := contAppend_ok hres
  rw [ho, hcn] at e
  have hokey : o.key ∈ keys g := h.resolve_root_key hr
  have hkind : kindOf g k = c.info.item := by
    rcases hacc with ⟨_, hk⟩ | ⟨hfl, b, hb, hin⟩
    · exact hk
    · rw [containerInfo_sourceLink hci hfl]
      exact h.inSourceTree_kind (h.blockOfPath_kind (hblk ▸ hb)) hid hin
  have hnpl : isPlainLike c.info.flavour = false := by
    rcases hacc with ⟨hfl, _⟩ | ⟨hfl, _⟩ <;> rw [hfl] <;> rfl
  have w1 : WF (g.ensureGroup o.key cname).1 :=
    h.ensureGroup cname hokey (h.not_cont_of_owner hci) (fun m _ => containerInfo_notId hci m)
  have hf := h.ensFacts cname hokey
  generalize hg1 : (g.ensureGroup o.key cname).1 = g1 at *
  generalize hcn1 : (g.ensureGroup o.key cname).2 = cn at *
  have hci1 : containerInfo (okind g1 o.key) cname = some c.info := by
    rw [okind_congr (fun k => hf.attrs k _)]; exact hci
  have hcno : o.key ≠ cn := fun e' =>
    w1.not_cont_of_owner hci1 (e' ▸ ⟨o.key, cname, c.info, hci1, hf.child⟩)
  have hkkey : k ∈ keys g1 := hf.keys_mono _ (mem_keys_of_kind (by rw [hkind]; exact containerInfo_item_ne hci))
  obtain ⟨n, hn, hidn⟩ := h.ids_wf k id hid
  -- the graph after the optional unlink
  have key : ∀ g2 : Graph, WF g2 → (∀ x a, g2.getAttr x a = g1.getAttr x a) → keys g2 = keys g1 →
      g2.nextId = g1.nextId → g2.child? o.key cname = some cn → g2.child? cn id = none →
      WF (g2.addLink cn id k) := by
    intro g2 w2 hattr hkeys hni hch hfree
    apply w2.addLink_entry (k := o.key) (cn := cname) (info := c.info)
    · rw [okind_congr (fun k => hattr k _)]; exact hci1
    · exact hch
    · rw [hkeys]; exact hkkey
    · exact hfree
    · intro m hm e'
      rw [hni, hf.nextId] at hm
      rw [hidn] at e'
      have := idStr_inj e'; omega
    · refine ⟨?_, ⟨id, ?_⟩, ?_⟩
      · rw [kindOf_eq, hattr, hf.attrs, ← kindOf_eq]; exact hkind
      · rw [entityId_eq, hattr, hf.attrs]; exact hid
      · simp only [hnpl, Bool.false_eq_true, ↓reduceIte]
        rw [entityId_eq, hattr, hf.attrs]; exact hid
  rw [e]
  unfold createLinkIn
  by_cases hh : g1.hasChild cn id = true
  · simp only [hh, ↓reduceIte]
    exact key _ (w1.delLink cn id) (fun x a => getAttr_delLink ..) (keys_delLink ..) rfl
      (by rw [child?_delLink_ne _ _ hcno]; exact hf.child) (child?_delLink_self ..)
  · simp only [hh]
    exact key g1 w1 (fun _ _ => rfl) rfl rfl hf.child (by
      rw [hasChild_eq] at hh
      cases hx : g1.child? cn id <;> simp_all)

end Nix.Store.Lemmas
