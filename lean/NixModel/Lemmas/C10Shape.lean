import NixModel.Pure.PropShape

/-!
# C10 helper lemmas, part 5: the statement machine of `Pure/PropShape.lean`

* `exec_refusal_unchanged`: for *any* statement list in which the statements that can raise precede the
  first statement that changes the dataset, a run that raises leaves the dataset as it was;
* the pieces used to show that the hand-written `setValues` / `extendValues` are the interpretation of
  the statement lists generated from the source.
-/
namespace Nix.PropVals.Shape
open Nix.PropVals

theorem sem_noraise {s : Prim} (h : s.mayRaise = false) (m : M) : ∃ m', s.sem m = .next m' := by
  cases s <;> simp [Prim.mayRaise] at h <;> exact ⟨_, rfl⟩

/-- a statement raises with the dataset as it found it -/
theorem sem_raise {s : Prim} {m : M} {q : PropRec} {e : Err} (h : s.sem m = .raise q e) : q = m.p := by
  cases s <;> simp only [Prim.sem] at h
  · split at h <;> first | (cases h; rfl) | cases h | (split at h <;> cases h)
  · cases h
  · split at h <;> cases h; rfl
  · split at h <;> cases h; rfl
  · split at h <;> cases h; rfl
  · cases h
  · split at h <;> cases h; rfl
  all_goals cases h

/-- a statement that does not change the dataset hands it on as it found it -/
theorem sem_nomut {s : Prim} (hs : s.mutates = false) {m m' : M} (h : s.sem m = .next m') : m'.p = m.p := by
  cases s <;> simp [Prim.mutates] at hs <;> simp only [Prim.sem] at h
  · split at h <;> first | (cases h; rfl) | cases h | (split at h <;> cases h; rfl)
  · cases h; rfl
  · split at h <;> cases h; rfl
  · split at h <;> cases h; rfl
  · split at h <;> cases h; rfl
  · cases h; rfl
  · cases h; rfl

theorem exec_noraise : ∀ (body : List Prim) (m : M), body.all (fun t => !t.mayRaise) = true →
    (exec body m).2 = .ok ()
  | [], _, _ => rfl
  | s :: rest, m, h => by
    rw [List.all_cons, Bool.and_eq_true] at h
    obtain ⟨m', hm'⟩ := sem_noraise (s := s) (by simpa using h.1) m
    simp only [exec, hm']
    exact exec_noraise rest m' h.2

/-- **Checks first ⇒ a refusal changes nothing**, for *any* statement list: if every statement that
can raise comes before the first one that changes the dataset, then whenever the run raises the
dataset is what it was. -/
theorem exec_refusal_unchanged : ∀ (body : List Prim) (m : M) (e : Err), checksFirst body = true →
    (exec body m).2 = .error e → (exec body m).1 = m.p
  | [], _, _, _, h => by simp [exec] at h
  | s :: rest, m, e, hc, h => by
    simp only [exec] at h ⊢
    cases hsem : s.sem m with
    | done q => simp [hsem] at h
    | raise q e' => exact sem_raise hsem
    | next m' =>
      simp only [hsem] at h ⊢
      by_cases hm : s.mutates = true
      · simp only [checksFirst, hm, if_true] at hc
        rw [exec_noraise rest m' hc] at h; cases h
      · have hm' : s.mutates = false := by simpa using hm
        simp only [checksFirst, hm'] at hc
        rw [exec_refusal_unchanged rest m' e (by simpa using hc) h]
        exact sem_nomut hm' hsem

theorem setter_list (p : PropRec) (v : PyVal) (vs : List PyVal) :
    exec [.checkTypes, .checkText, .convert, .resizeTo, .writeAll, .stamp] { p := p, x := .list (v :: vs) } =
      assignList p (v :: vs) := by
  simp only [exec, Prim.sem, assignList, Input.elems, inputCells]
  cases h : checkNewValueTypes p.dtype (.list (v :: vs)) with
  | error e => rfl
  | ok u =>
    by_cases hn : textRefused p.dtype (v :: vs) = true
    · simp [hn]
    · cases hc : convertAll p.dtype (v :: vs) with
      | error e => simp [hn, hc]
      | ok cs => simp [hn, hc]

theorem wrap_elems (x : Input) : (wrap x).elems = x.elems := by cases x <;> rfl
theorem wrap_cells (d : DType) (x : Input) : inputCells d (wrap x) = inputCells d x := by cases x <;> rfl

theorem resize_take (d : DType) (vals : List Cell) (n : Nat) :
    (resize d vals (vals.length + n)).take vals.length = vals := by
  simp [resize, List.take_of_length_le]

end Nix.PropVals.Shape
