import NixModel.Lemmas.C07Grid

/-!
Helper lemmas for C07: `SampledDimension.index_of` and `SetDimension.index_of` return the
order-theoretic sample for every offset, positive interval / label count, position and mode,
when the (scaled) position is on a sample or outside the tolerance band of every sample.
-/
namespace Nix.Dim.Lemmas
open Nix Nix.Dim Nix.Dim.Gen

/-! ## SampledDimension: transfer to the unit grid -/

theorem sampledCoord_eq (off si : Rat) (j : Nat) : sampledCoord off si j = (j : Rat) * si + off := by
  simp [sampledCoord, sampledPositionAt]

theorem sampled_le (off si pos : Rat) (hsi : 0 < si) (j : Nat) :
    sampledCoord off si j ≤ pos ↔ setCoord j ≤ (pos - off) / si := by
  rw [sampledCoord_eq, setCoord, le_div_iff₀ hsi]
  constructor <;> intro h <;> linarith

theorem sampled_lt (off si pos : Rat) (hsi : 0 < si) (j : Nat) :
    sampledCoord off si j < pos ↔ setCoord j < (pos - off) / si := by
  rw [sampledCoord_eq, setCoord, lt_div_iff₀ hsi]
  constructor <;> intro h <;> linarith

theorem sampled_ge (off si pos : Rat) (hsi : 0 < si) (j : Nat) :
    pos ≤ sampledCoord off si j ↔ (pos - off) / si ≤ setCoord j := by
  rw [sampledCoord_eq, setCoord, div_le_iff₀ hsi]
  constructor <;> intro h <;> linarith

theorem sampled_transfer (off si pos : Rat) (hsi : 0 < si) (mode : IndexMode) (n : Option Nat) (k : Nat) :
    IsSample mode (sampledCoord off si) n pos k ↔ IsSample mode setCoord n ((pos - off) / si) k := by
  cases mode
  · simp only [IsSample, IsLastBefore, sampled_lt off si pos hsi]
  · simp only [IsSample, IsLastAtOrBefore, sampled_le off si pos hsi]
  · simp only [IsSample, IsFirstAtOrAfter, sampled_ge off si pos hsi]
  · simp only [IsSample]

/-- `index_of` on the unit grid with unbounded domain, as a function of the scaled position -/
theorem sampled_core (tz th : Tol) (rnd : String) (hr : rnd = "round" ∨ rnd = "floor")
    (hz1 : 0 ≤ tz.rtol) (hz2 : 0 ≤ tz.atol) (hh1 : 0 ≤ th.rtol) (hh2 : 0 ≤ th.atol)
    (x : Rat) (mode : IndexMode) (hm : mode ≠ .other)
    (hsz : SeparatedAt tz x) (hsh : SeparatedAt th x) :
    Meets mode setCoord none x (sampledIndexOfT tz true th rnd 0 1 x mode) := by
  unfold sampledIndexOfT
  rw [if_neg one_ne_zero]
  simp only [sub_zero, div_one, ↓reduceIte]
  have hdom : ∀ i, InDom none i := inDom_none
  by_cases hneg : x < 0
  · rw [if_pos hneg]
    cases mode with
    | other => exact absurd rfl hm
    | geq => rw [if_pos rfl]; exact grid_neg_geq none x (le_of_lt hneg) (hdom 0)
    | leq => rw [if_neg (by decide)]; exact grid_neg_leq none x hneg
    | less => rw [if_neg (by decide)]; exact grid_neg_less none x (le_of_lt hneg)
  · rw [if_neg hneg]
    have h0 : 0 ≤ x := not_lt.1 hneg
    have hguard : isclose tz x 0 = true ↔ x = 0 := by
      have := isclose_sep tz hz1 hz2 x 0 hsz
      simpa using this
    obtain ⟨m, hfl, hm1, hm2⟩ := floor_nat x h0
    obtain ⟨hc, hint⟩ := roundBy_cases rnd hr x
    rw [hfl] at hc hint
    rcases eq_or_lt_of_le hm1 with hxm | hxm
    · -- on sample m
      have hidx : roundBy rnd x = (m : Int) := hint (by rw [← hxm]; push_cast; rfl)
      have hclose : isclose th x ((m : Int) : Rat) = true :=
        (isclose_sep th hh1 hh2 x m hsh).2 (by rw [← hxm]; push_cast; rfl)
      rw [hidx]
      cases mode with
      | other => exact absurd rfl hm
      | geq =>
        rw [if_neg (by simp), if_pos hclose]
        exact grid_on_geq none x m hxm.symm (hdom m)
      | leq =>
        rw [if_neg (by simp), if_pos hclose]
        exact grid_on_leq none x m hxm.symm (hdom m)
      | less =>
        by_cases hm0 : m = 0
        · have hx0 : x = 0 := by rw [← hxm, hm0]; simp
          rw [if_pos (by simp [hguard.2 hx0])]
          exact grid_neg_less none x (le_of_eq hx0)
        · have hx0 : x ≠ 0 := by
            rw [← hxm]; exact_mod_cast hm0
          have : isclose tz x 0 ≠ true := fun h => hx0 (hguard.1 h)
          rw [if_neg (by simp [this]), if_pos hclose]
          obtain ⟨m', rfl⟩ : ∃ m', m = m' + 1 := ⟨m - 1, by omega⟩
          have hc' : (((m' + 1 : Nat) : Int) - 1) = (m' : Int) := by push_cast; ring
          show Meets .less setCoord none x (.ok (((m' + 1 : Nat) : Int) - 1))
          rw [hc']
          exact grid_on_less none x m' hxm.symm (hdom m')
    · -- strictly between m and m + 1
      have hx0 : x ≠ 0 := by
        have : (0 : Rat) ≤ (m : Rat) := Nat.cast_nonneg m
        intro h; rw [h] at hxm; linarith
      have hg : isclose tz x 0 ≠ true := fun h => hx0 (hguard.1 h)
      have hnotint : ∀ k : Int, (k = (m : Int) ∨ k = (m : Int) + 1) → x ≠ (k : Rat) := by
        rintro k (rfl | rfl) h
        · rw [h] at hxm; push_cast at hxm; exact lt_irrefl _ hxm
        · rw [h] at hm2; push_cast at hm2; exact lt_irrefl _ hm2
      have hnc : isclose th x ((roundBy rnd x : Int) : Rat) ≠ true := by
        intro h
        exact hnotint _ hc ((isclose_sep th hh1 hh2 x _ hsh).1 h)
      rw [if_neg (by simp [hg]), if_neg hnc]
      rcases hc with hidx | hidx
      · rw [hidx]
        have hlt : (((m : Int) : Rat)) < x := by push_cast; exact hxm
        rw [if_pos hlt]
        cases mode with
        | other => exact absurd rfl hm
        | geq => exact grid_between_geq none x m hxm (le_of_lt hm2) (hdom _)
        | leq => exact grid_between_leq none x m hm1 hm2 (hdom m)
        | less => exact grid_between_less none x m hxm (le_of_lt hm2) (hdom m)
      · rw [hidx]
        have hnlt : ¬ ((((m : Int) + 1 : Int) : Rat)) < x := by push_cast; linarith
        rw [if_neg hnlt]
        have hc' : ((m : Int) + 1 - 1) = (m : Int) := by ring
        cases mode with
        | other => exact absurd rfl hm
        | geq => exact grid_between_geq none x m hxm (le_of_lt hm2) (hdom _)
        | leq =>
          show Meets .leq setCoord none x (.ok ((m : Int) + 1 - 1))
          rw [hc']; exact grid_between_leq none x m hm1 hm2 (hdom m)
        | less =>
          show Meets .less setCoord none x (.ok ((m : Int) + 1 - 1))
          rw [hc']; exact grid_between_less none x m hxm (le_of_lt hm2) (hdom m)

/-- **`SampledDimension.index_of`**, tolerances as parameters -/
theorem sampledIndexOfT_meets (tz th : Tol) (rnd : String) (hr : rnd = "round" ∨ rnd = "floor")
    (hz1 : 0 ≤ tz.rtol) (hz2 : 0 ≤ tz.atol) (hh1 : 0 ≤ th.rtol) (hh2 : 0 ≤ th.atol)
    (off si pos : Rat) (mode : IndexMode) (hsi : 0 < si) (hm : mode ≠ .other)
    (hsz : SeparatedAt tz ((pos - off) / si)) (hsh : SeparatedAt th ((pos - off) / si)) :
    Meets mode (sampledCoord off si) none pos (sampledIndexOfT tz true th rnd off si pos mode) := by
  rw [meets_congr (sampled_transfer off si pos hsi mode none)]
  have hne : si ≠ 0 := ne_of_gt hsi
  have := sampled_core tz th rnd hr hz1 hz2 hh1 hh2 ((pos - off) / si) mode hm hsz hsh
  have heq : sampledIndexOfT tz true th rnd off si pos mode
      = sampledIndexOfT tz true th rnd 0 1 ((pos - off) / si) mode := by
    unfold sampledIndexOfT
    simp [hne]
  rw [heq]
  exact this

/-! ## SetDimension -/

theorem roundBy_floor (x : Rat) : roundBy "floor" x = ⌊x⌋ := by
  unfold roundBy
  rw [if_neg (by decide), if_neg (by decide)]
  rfl

theorem setDom_zero : setDom 0 = none := rfl
theorem setDom_pos (n : Nat) (h : n ≠ 0) : setDom n = some n := by simp [setDom, h]

/-- every grid point at or below a position that is not beyond the last label is a label -/
theorem set_inDom (n : Nat) (pos : Rat) (hc : ¬ (n ≠ 0 ∧ (n : Rat) - 1 < pos)) (k : Nat) (hk : (k : Rat) ≤ pos) :
    InDom (setDom n) k := by
  by_cases hn : n = 0
  · subst hn; rw [setDom_zero]; exact inDom_none k
  · rw [setDom_pos n hn, inDom_some]
    have : pos ≤ (n : Rat) - 1 := by
      by_contra h
      exact hc ⟨hn, not_le.1 h⟩
    have h2 : (k : Rat) < (n : Rat) := by linarith
    exact_mod_cast h2

theorem set_inDom_succ (n : Nat) (pos : Rat) (hc : ¬ (n ≠ 0 ∧ (n : Rat) - 1 < pos)) (k : Nat) (hk : (k : Rat) < pos) :
    InDom (setDom n) (k + 1) := by
  by_cases hn : n = 0
  · subst hn; rw [setDom_zero]; exact inDom_none _
  · rw [setDom_pos n hn, inDom_some]
    have : pos ≤ (n : Rat) - 1 := by
      by_contra h
      exact hc ⟨hn, not_le.1 h⟩
    have h2 : (k : Rat) < (n : Rat) - 1 := by linarith
    have h3 : ((k + 1 : Nat) : Rat) < (n : Rat) := by push_cast; linarith
    exact_mod_cast h3

/-- **`SetDimension.index_of`**, tolerance as a parameter (`n = 0`: no labels, unbounded) -/
theorem setIndexOfT_meets (th : Tol) (hh1 : 0 ≤ th.rtol) (hh2 : 0 ≤ th.atol) (n : Nat) (pos : Rat)
    (mode : IndexMode) (hm : mode ≠ .other) (hsh : SeparatedAt th pos) :
    Meets mode setCoord (setDom n) pos (setIndexOfT th "floor" n pos mode) := by
  unfold setIndexOfT
  by_cases hneg : pos < 0
  · rw [if_pos hneg]
    have hd0 : InDom (setDom n) 0 := by
      by_cases hn : n = 0
      · subst hn; exact inDom_none 0
      · rw [setDom_pos n hn, inDom_some]; omega
    cases mode with
    | other => exact absurd rfl hm
    | geq => rw [if_pos rfl]; exact grid_neg_geq _ pos (le_of_lt hneg) hd0
    | leq => rw [if_neg (by decide)]; exact grid_neg_leq _ pos hneg
    | less => rw [if_neg (by decide)]; exact grid_neg_less _ pos (le_of_lt hneg)
  · rw [if_neg hneg]
    have h0 : 0 ≤ pos := not_lt.1 hneg
    by_cases hz : pos = 0 ∧ mode = .less
    · rw [if_pos hz]
      obtain ⟨hp, rfl⟩ := hz
      exact grid_neg_less _ pos (le_of_eq hp)
    · rw [if_neg hz]
      by_cases hc : n ≠ 0 ∧ (n : Rat) - 1 < pos
      · rw [if_pos hc]
        obtain ⟨hn, hgt⟩ := hc
        rw [setDom_pos n hn]
        cases mode with
        | other => exact absurd rfl hm
        | geq => rw [if_neg (by decide)]; exact grid_after_geq n pos hgt
        | leq => rw [if_pos (by decide)]; exact grid_after_leq n hn pos hgt
        | less => rw [if_pos (by decide)]; exact grid_after_less n hn pos hgt
      · rw [if_neg hc]
        obtain ⟨m, hfl, hm1, hm2⟩ := floor_nat pos h0
        simp only [roundBy_floor, hfl]
        rcases eq_or_lt_of_le hm1 with hxm | hxm
        · -- on label m
          have hclose : isclose th pos ((m : Int) : Rat) = true :=
            (isclose_sep th hh1 hh2 pos m hsh).2 (by rw [← hxm]; push_cast; rfl)
          rw [if_pos hclose]
          have hdm : InDom (setDom n) m := set_inDom n pos hc m hm1
          cases mode with
          | other => exact absurd rfl hm
          | geq => exact grid_on_geq _ pos m hxm.symm hdm
          | leq => exact grid_on_leq _ pos m hxm.symm hdm
          | less =>
            have hm0 : m ≠ 0 := by
              intro h
              apply hz
              refine ⟨?_, rfl⟩
              rw [← hxm, h]; simp
            obtain ⟨m', rfl⟩ : ∃ m', m = m' + 1 := ⟨m - 1, by omega⟩
            have hc' : (((m' + 1 : Nat) : Int) - 1) = (m' : Int) := by push_cast; ring
            show Meets .less setCoord (setDom n) pos (.ok (((m' + 1 : Nat) : Int) - 1))
            rw [hc']
            have hdm' : InDom (setDom n) m' := set_inDom n pos hc m' (by
              have : ((m' : Nat) : Rat) ≤ ((m' + 1 : Nat) : Rat) := by push_cast; linarith
              linarith)
            exact grid_on_less _ pos m' hxm.symm hdm'
        · -- strictly between m and m + 1
          have hnc : isclose th pos ((m : Int) : Rat) ≠ true := by
            intro h
            have := (isclose_sep th hh1 hh2 pos m hsh).1 h
            rw [this] at hxm; push_cast at hxm; exact lt_irrefl _ hxm
          rw [if_neg hnc]
          have hdm : InDom (setDom n) m := set_inDom n pos hc m hm1
          cases mode with
          | other => exact absurd rfl hm
          | geq => exact grid_between_geq _ pos m hxm (le_of_lt hm2) (set_inDom_succ n pos hc m hxm)
          | leq => exact grid_between_leq _ pos m hm1 hm2 hdm
          | less => exact grid_between_less _ pos m hxm (le_of_lt hm2) hdm

end Nix.Dim.Lemmas
