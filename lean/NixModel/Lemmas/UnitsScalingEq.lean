import NixModel.Pure.UnitsScaling

/-! Helper lemmas for C09: the interpretation of the regenerated statement shape of `scaling()` is the
hand-written model `Nix.Units.scaling`, for all inputs. -/
namespace Nix.Units.Lemmas
open Nix.Units Nix.Units.Gen

theorem chainScale_eq (op dp : Str) : Scaling.chainScale op dp scaleChain = prefixScale op dp := by
  unfold prefixScale
  cases ho : op.isEmpty <;> cases hd : dp.isEmpty <;> cases heo : prefixExpOf op <;>
    cases hed : prefixExpOf dp <;>
    simp [Scaling.chainScale, scaleChain, scaleElse, Scaling.litHolds, Scaling.evalExpr, bothPrefixedBranch,
      ho, hd, heo, hed]

theorem scalingCoreGen_eq (op dp opow dpow : Str) :
    Scaling.scalingCore op dp opow dpow = scalingCore op dp opow dpow := by
  unfold Scaling.scalingCore scalingCore
  rw [chainScale_eq]
  simp [scaleShortcutPrefix, scaleShortcutPower, scalePowerFromOrg]
  rfl

theorem isSiGen_eq (s : Str) : Scaling.isSi s = isSi s := by
  simp [Scaling.isSi, isSiShape, Scaling.evalSi, isSi]

theorem scalableGen_eq (a b : Str) : Scaling.scalable a b = scalable a b := by
  unfold Scaling.scalable scalable
  simp [isSiGen_eq, scalableNeedsSiA, scalableNeedsSiB, scalableComparesUnit, scalableComparesPower]

theorem scalingGen_eq (a b : Str) : Scaling.scaling a b = scaling a b := by
  unfold Scaling.scaling scaling
  rw [scalingCoreGen_eq, scalableGen_eq]

end Nix.Units.Lemmas
