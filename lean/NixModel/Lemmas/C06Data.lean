import NixModel.Pure.ViewData
import NixModel.Pure.DimSpec
import NixModel.Lemmas.C06View
import NixModel.Lemmas.C07Round

/-!
Lemmas for C06, `get_slice` in DATA mode: the window `_get_slice_bydim` builds on one dimension,
composed with C07's order-theoretic characterisation of `index_of` (`Meets`, `Pure/DimSpec.lean`,
`Lemmas/C07Range.lean`, `Lemmas/C07Index.lean`).
-/
namespace Nix.ViewData
open Nix.Py Nix.NdIndex Nix.DataView Nix.Dim Nix.Dim.Gen Nix.Dim.Lemmas

/-- what the window `[start, start + extent)` of one dimension means: `start` is the first sample
at or after `pos`, `start + extent` the last sample at or before `hi = pos + ext`; every sample
inside the window has its position in `[pos, hi]`, and every sample with a position in `[pos, hi]`
lies in `[start, start + extent]` (the window leaves out at most the end sample itself) -/
def WindowMeaning (coord : Nat → Rat) (dom : Option Nat) (pos hi : Rat) (s x : Int) : Prop :=
  ∃ a b : Nat, s = (a : Int) ∧ s + x = (b : Int) ∧ a ≤ b ∧
    IsFirstAtOrAfter coord dom pos a ∧ IsLastAtOrBefore coord dom hi b ∧
    (∀ i, a ≤ i → i < b → pos ≤ coord i ∧ coord i ≤ hi) ∧
    (∀ i, InDom dom i → pos ≤ coord i → coord i ≤ hi → a ≤ i ∧ i ≤ b)

theorem inDom_of_le (dom : Option Nat) (i j : Nat) (hij : i ≤ j) (hj : InDom dom j) : InDom dom i := by
  intro m hm
  have := hj m hm
  omega

/-- the generic composition: two `index_of` results that meet their specification, on ascending
coordinates, give a window with that meaning -/
theorem window_of_meets (coord : Nat → Rat) (dom : Option Nat) (hasc : Ascending coord dom)
    (pos hi : Rat) (r1 r2 : Except Err Int) (h1 : Meets .geq coord dom pos r1)
    (h2 : Meets .leq coord dom hi r2) (s x : Int) (h : startExtent r1 r2 = .ok (s, x))
    (hx : 0 ≤ x) : WindowMeaning coord dom pos hi s x := by
  cases r1 with
  | error e => simp [startExtent] at h
  | ok s' =>
    cases r2 with
    | error e => simp [startExtent] at h
    | ok l =>
      simp only [startExtent, Except.ok.injEq, Prod.mk.injEq] at h
      obtain ⟨hs, hxl⟩ := h
      subst hs
      obtain ⟨a, ha, hA⟩ := h1
      obtain ⟨b, hb, hB⟩ := h2
      have hA' : IsFirstAtOrAfter coord dom pos a := hA
      have hB' : IsLastAtOrBefore coord dom hi b := hB
      have hab : a ≤ b := by omega
      refine ⟨a, b, ha, by omega, hab, hA', hB', ?_, ?_⟩
      · intro i hai hib
        have hdi : InDom dom i := inDom_of_le dom i b (by omega) hB'.1
        exact ⟨le_trans hA'.2.1 (hasc a i hai hdi), le_trans (hasc i b (by omega) hB'.1) hB'.2.1⟩
      · intro i hdi hp hh
        exact ⟨hA'.2.2 i hdi hp, hB'.2.2 i hdi hh⟩

/-- `bydimAxis` on a range dimension: `(-1, -1)` exactly when an `index_of` found no sample
(`IndexError`); otherwise the two indices -/
theorem range_axis_cases (ticks : List Rat) (hasc : AscendingList ticks) (pos ext : Rat) :
    (∃ s x, bydimAxis (.range ticks) pos ext = .ok (s, x) ∧
      startExtent (rangeIndexOf ticks pos .geq) (rangeIndexOf ticks (pos + ext) .leq) = .ok (s, x)) ∨
    (bydimAxis (.range ticks) pos ext = .ok (-1, -1) ∧
      ((∀ k, ¬ IsFirstAtOrAfter (tickCoord ticks) (some ticks.length) pos k) ∨
       (∀ k, ¬ IsLastAtOrBefore (tickCoord ticks) (some ticks.length) (pos + ext) k))) := by
  have m1 := rangeIndexOf_meets ticks hasc pos .geq (by decide)
  have m2 := rangeIndexOf_meets ticks hasc (pos + ext) .leq (by decide)
  unfold bydimAxis
  cases h1 : rangeIndexOf ticks pos .geq with
  | error e =>
    rw [h1] at m1
    obtain ⟨he, hno⟩ := m1
    subst he
    right
    exact ⟨by simp [startExtent, h1], Or.inl hno⟩
  | ok s =>
    cases h2 : rangeIndexOf ticks (pos + ext) .leq with
    | error e =>
      rw [h2] at m2
      obtain ⟨he, hno⟩ := m2
      subst he
      right
      exact ⟨by simp [startExtent, h1, h2], Or.inr hno⟩
    | ok l =>
      left
      exact ⟨s, l - s, by simp [startExtent, h1, h2], by simp [startExtent]⟩

theorem range_axis_meaning (ticks : List Rat) (hasc : AscendingList ticks) (pos ext : Rat)
    (s x : Int) (h : bydimAxis (.range ticks) pos ext = .ok (s, x)) (hx : 0 ≤ x) :
    WindowMeaning (tickCoord ticks) (some ticks.length) pos (pos + ext) s x := by
  rcases range_axis_cases ticks hasc pos ext with ⟨s', x', h1, h2⟩ | ⟨h1, _⟩
  · rw [h1] at h
    simp only [Except.ok.injEq, Prod.mk.injEq] at h
    obtain ⟨rfl, rfl⟩ := h
    exact window_of_meets _ _ (tick_ascending ticks hasc) pos (pos + ext) _ _
      (rangeIndexOf_meets ticks hasc pos .geq (by decide))
      (rangeIndexOf_meets ticks hasc (pos + ext) .leq (by decide)) _ _ h2 hx
  · rw [h1] at h
    simp only [Except.ok.injEq, Prod.mk.injEq] at h
    omega

/-- both `np.isclose` calls of `SampledDimension.index_of` decide exactly at this position -/
def SeparatedSampled (off si pos : Rat) : Prop :=
  SeparatedAt sampledZeroTol ((pos - off) / si) ∧ SeparatedAt sampledHitTol ((pos - off) / si)

theorem sampled_meets (off si pos : Rat) (mode : IndexMode) (hsi : 0 < si) (hm : mode ≠ .other)
    (hsep : SeparatedSampled off si pos) (hgen : sampledZeroOnScaled = true ∧ sampledRounding = "round") :
    Meets mode (sampledCoord off si) none pos (sampledIndexOf off si pos mode) := by
  unfold sampledIndexOf
  rw [hgen.1, hgen.2]
  exact sampledIndexOfT_meets sampledZeroTol sampledHitTol "round" (Or.inl rfl)
    gen_tol_facts.1.1 gen_tol_facts.1.2.1 gen_tol_facts.2.1.1 gen_tol_facts.2.1.2
    off si pos mode hsi hm hsep.1 hsep.2

theorem sampled_axis_meaning (off si pos ext : Rat) (hsi : 0 < si)
    (hs1 : SeparatedSampled off si pos) (hs2 : SeparatedSampled off si (pos + ext))
    (s x : Int) (h : bydimAxis (.sampled off si) pos ext = .ok (s, x)) (hx : 0 ≤ x) :
    WindowMeaning (sampledCoord off si) none pos (pos + ext) s x := by
  have hgen : sampledZeroOnScaled = true ∧ sampledRounding = "round" := ⟨rfl, by decide⟩
  exact window_of_meets _ _ (ascending_sampled off si hsi none) pos (pos + ext) _ _
    (sampled_meets off si pos .geq hsi (by decide) hs1 hgen)
    (sampled_meets off si (pos + ext) .leq hsi (by decide) hs2 hgen) _ _ h hx

/-! ### the loop -/

/-- the loop produces exactly one window per dimension, each `(start, start + extent)` of that
dimension's `bydimAxis` with a non-negative extent -/
theorem bydimLoop_cons (d : DimDesc) (ds : List DimDesc) (p : Rat) (ps : List Rat) (e : Rat)
    (es : List Rat) (w : Win) (ws : List Win) :
    bydimLoop (d :: ds) (p :: ps) (e :: es) = .ok (some (w :: ws)) ↔
      ∃ s x, bydimAxis d p e = .ok (s, x) ∧ 0 ≤ x ∧ w = (s, s + x) ∧
        bydimLoop ds ps es = .ok (some ws) := by
  simp only [bydimLoop]
  cases h : bydimAxis d p e with
  | error err => simp
  | ok sx =>
    obtain ⟨s, x⟩ := sx
    by_cases hx : x < 0
    · simp only [hx, if_true]
      constructor
      · intro h'; cases h'
      · rintro ⟨s', x', h', hx', _⟩
        simp only [Except.ok.injEq, Prod.mk.injEq] at h'
        omega
    · simp only [hx, if_false]
      cases hl : bydimLoop ds ps es with
      | error err => simp
      | ok o =>
        cases o with
        | none => simp
        | some ws' =>
          simp only [Except.ok.injEq, Option.some.injEq, List.cons.injEq, Prod.mk.injEq]
          constructor
          · rintro ⟨rfl, rfl⟩
            exact ⟨s, x, ⟨rfl, rfl⟩, by omega, rfl, rfl⟩
          · rintro ⟨s', x', ⟨rfl, rfl⟩, _, rfl, rfl⟩
            exact ⟨rfl, rfl⟩

theorem bydimLoop_nil_iff (ds : List DimDesc) (ps es : List Rat) :
    bydimLoop ds ps es = .ok (some []) ↔ (ds = [] ∨ ps = [] ∨ es = []) := by
  cases ds with
  | nil => simp [bydimLoop]
  | cons d ds =>
    cases ps with
    | nil => simp [bydimLoop]
    | cons p ps =>
      cases es with
      | nil => simp [bydimLoop]
      | cons e es =>
        simp only [bydimLoop]
        cases h : bydimAxis d p e with
        | error err => simp
        | ok sx =>
          obtain ⟨s, x⟩ := sx
          by_cases hx : x < 0
          · simp [hx]
          · simp only [hx, if_false]
            cases hl : bydimLoop ds ps es with
            | error err => simp
            | ok o => cases o <;> simp

/-- as many windows as the shortest of the three lists -/
theorem bydimLoop_length (ds : List DimDesc) (ps es : List Rat) (ws : List Win)
    (h : bydimLoop ds ps es = .ok (some ws)) :
    ws.length = min ds.length (min ps.length es.length) := by
  induction ds generalizing ps es ws with
  | nil => simp [bydimLoop] at h; simp [h]
  | cons d ds ih =>
    cases ps with
    | nil => simp [bydimLoop] at h; simp [h]
    | cons p ps =>
      cases es with
      | nil => simp [bydimLoop] at h; simp [h]
      | cons e es =>
        cases ws with
        | nil =>
          have := (bydimLoop_nil_iff (d :: ds) (p :: ps) (e :: es)).1 h
          simp at this
        | cons w ws =>
          obtain ⟨_, _, _, _, _, hr⟩ := (bydimLoop_cons d ds p ps e es w ws).1 h
          have := ih ps es ws hr
          simp [this]

end Nix.ViewData
