import NixModel.Lemmas.C16Getitem
/-! Lemmas for C16: a cell the column type refuses — in particular a number outside the range of an integer column —
is refused by every row / column write, not only by `write_cell` and `write_column` (`C16Refuse.lean`). -/
namespace Nix.Frame

theorem convCells_err_of_cell : ∀ {ts : List ColType} {vs : List Val} (j : Nat) {t : ColType} {v : Val} {e : Err},
    ts[j]? = some t → vs[j]? = some v → conv t v = .error e → ∃ e', convCells ts vs = .error e'
  | [], _, _, _, _, _, ht, _, _ => by simp at ht
  | _ :: _, [], _, _, _, _, _, hv, _ => by simp at hv
  | t0 :: ts, v0 :: vs, 0, t, v, e, ht, hv, he => by
    simp at ht hv; subst ht; subst hv
    exact ⟨e, by simp [convCells, he]⟩
  | t0 :: ts, v0 :: vs, j + 1, t, v, e, ht, hv, he => by
    simp at ht hv
    obtain ⟨e', h'⟩ := convCells_err_of_cell j ht hv he
    simp only [convCells]
    cases conv t0 v0 with
    | error e0 => exact ⟨e0, rfl⟩
    | ok w => exact ⟨e', by simp [h']⟩

theorem convRow_err_of_cell {ts : List ColType} {vs : List Val} (j : Nat) {t : ColType} {v : Val} {e : Err}
    (ht : ts[j]? = some t) (hv : vs[j]? = some v) (he : conv t v = .error e) : ∃ e', convRow ts vs = .error e' := by
  unfold convRow
  split
  · exact ⟨_, rfl⟩
  · exact convCells_err_of_cell j ht hv he

theorem convRows_err_of_cell {ts : List ColType} : ∀ {rows : List (List Val)},
    (∃ r ∈ rows, ∃ (j : Nat) (t : ColType) (v : Val) (e : Err), ts[j]? = some t ∧ r[j]? = some v ∧ conv t v = .error e) →
    ∃ e', convRows ts rows = .error e'
  | [], h => by simp at h
  | r :: rows, h => by
    simp only [convRows]
    cases hr : convRow ts r with
    | error e => exact ⟨e, rfl⟩
    | ok w =>
      obtain ⟨r', hr', j, t, v, e, h1, h2, h3⟩ := h
      rcases List.mem_cons.1 hr' with eq | hm
      · subst eq
        obtain ⟨e', he'⟩ := convRow_err_of_cell j h1 h2 h3
        rw [hr] at he'; cases he'
      · obtain ⟨e', he'⟩ := convRows_err_of_cell (rows := rows) ⟨r', hm, j, t, v, e, h1, h2, h3⟩
        exact ⟨e', by simp [he']⟩

theorem convCol_err_of_cell {t : ColType} : ∀ {col : List Val}, (∃ v ∈ col, ∃ e, conv t v = .error e) →
    ∃ e', convCol t col = .error e'
  | [], h => by simp at h
  | v :: vs, h => by
    simp only [convCol]
    cases hv : conv t v with
    | error e => exact ⟨e, rfl⟩
    | ok w =>
      obtain ⟨x, hx, e, he⟩ := h
      rcases List.mem_cons.1 hx with eq | hm
      · subst eq; rw [hv] at he; cases he
      · obtain ⟨e', he'⟩ := convCol_err_of_cell (col := vs) ⟨x, hm, e, he⟩
        exact ⟨e', by simp [he']⟩

theorem refuse_appendRows_cell {f : Frame} {rows : List (List Val)}
    (h : ∃ r ∈ rows, ∃ (j : Nat) (t : ColType) (v : Val) (e : Err), f.types[j]? = some t ∧ r[j]? = some v ∧ conv t v = .error e) :
    ∃ e, appendRows f rows = (f, some e) := by
  obtain ⟨e, he⟩ := convRows_err_of_cell h
  exact ⟨e, by simp [appendRows, he]⟩

theorem refuse_appendColumn_cell {f : Frame} {col : List Val} {name : String} {t : ColType}
    (h : ∃ v ∈ col, ∃ e, conv t v = .error e) : ∃ e, appendColumn f col name (some t) = (f, some e) := by
  obtain ⟨e, he⟩ := convCol_err_of_cell h
  unfold appendColumn
  split
  · exact ⟨_, rfl⟩
  · simp only []
    cases mkDtype (f.cols ++ [(name, t)]) with
    | error e' => exact ⟨e', rfl⟩
    | ok c => exact ⟨e, by simp [he]⟩

theorem refuse_writeRows_cell {f : Frame} {rows : List (List Val)} {idx : List Int}
    (h : ∃ r ∈ rows, ∃ (j : Nat) (t : ColType) (v : Val) (e : Err), f.types[j]? = some t ∧ r[j]? = some v ∧ conv t v = .error e) :
    ∃ e, writeRows f rows idx = (f, some e) := by
  obtain ⟨e, he⟩ := convRows_err_of_cell h
  unfold writeRows
  split
  · exact ⟨_, rfl⟩
  · split
    · exact ⟨_, rfl⟩
    · split
      · exact ⟨_, rfl⟩
      · exact ⟨e, by simp [he]⟩

/-- a number outside the range of an integer column type is a cell the type refuses, Python int or float -/
theorem conv_out_of_range {t : ColType} {lo hi : Int} (ht : t.range = some (lo, hi)) (n : Int)
    (h : n < lo ∨ hi < n) : conv t (.int n) = .error .valueError := by
  cases t <;> simp [ColType.range] at ht <;> obtain ⟨rfl, rfl⟩ := ht <;>
    simp only [conv, ColType.range, inRange] <;> split <;> first | rfl | omega

end Nix.Frame
