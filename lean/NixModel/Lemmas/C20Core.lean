import NixModel.Lemmas.C20Copy

/-!
# C20 — the graph after `h5Copy`: new nodes, old nodes, ids

Everything is stated for `h5CopyCore` on a destination `d0` in which the container group `c` already
exists (`h5Copy_eq`), under `DestOk d0 c`: the keys of `d0` are below its `nextKey` and `c` is one
of them. `ensureGroup_destOk` produces that from the same facts about the destination file.
-/
namespace Nix.Store.C20
open Nix.Store Nix.Store.Graph Nix.Store.Lemmas

structure DestOk (d0 : Graph) (c : Nat) : Prop where
  lt : ∀ k ∈ keys d0, k < d0.nextKey
  c_mem : c ∈ keys d0

/-- the graph before the optional id regeneration -/
def coreD3 (src d0 : Graph) (c srcKey : Nat) (name : String) (ks emptied : List Nat) : Graph :=
  (((copyNodes src d0 ks emptied).1.addLink c name (mapKey (keyMap ks d0.nextKey) srcKey)).setAttr
    (mapKey (keyMap ks d0.nextKey) srcKey) "name" (some name))

theorem h5CopyCore_eq (src d0 : Graph) (c srcKey : Nat) (name : String) (ks emptied : List Nat) (keepId : Bool) :
    h5CopyCore src d0 c srcKey name ks emptied keepId =
      (if keepId then coreD3 src d0 c srcKey name ks emptied
       else regenIds (coreD3 src d0 c srcKey name ks emptied) (ks.map (mapKey (keyMap ks d0.nextKey))),
       mapKey (keyMap ks d0.nextKey) srcKey) := rfl

section
variable {src d0 : Graph} {c srcKey : Nat} {name : String} {ks emptied : List Nat}

local notation "mk" => mapKey (keyMap ks d0.nextKey)

theorem new_ne_c (h : DestOk d0 c) {k : Nat} (hk : k ∈ ks) : mapKey (keyMap ks d0.nextKey) k ≠ c := by
  have := (mapKey_range d0.nextKey hk).1
  have := h.lt c h.c_mem
  omega

theorem D3_links_new (h : DestOk d0 c) {k : Nat} (hk : k ∈ ks) :
    (coreD3 src d0 c srcKey name ks emptied).links (mapKey (keyMap ks d0.nextKey) k) =
      if emptied.contains k then []
      else (src.links k).map fun l => (l.1, mapKey (keyMap ks d0.nextKey) l.2) := by
  unfold coreD3
  rw [links_setAttr, links_addLink_ne _ _ _ (new_ne_c h hk), links_copyNodes_new src d0 ks emptied h.lt hk]

theorem D3_root_isSome (h : DestOk d0 c) (hs : srcKey ∈ ks) :
    (((copyNodes src d0 ks emptied).1.addLink c name (mapKey (keyMap ks d0.nextKey) srcKey)).node?
      (mapKey (keyMap ks d0.nextKey) srcKey)).isSome := by
  rw [node?_isSome_addLink, node?_copyNodes_new src d0 ks emptied h.lt hs]; rfl

theorem D3_getAttr_new (h : DestOk d0 c) (hs : srcKey ∈ ks) {k : Nat} (hk : k ∈ ks) (a : String) :
    (coreD3 src d0 c srcKey name ks emptied).getAttr (mapKey (keyMap ks d0.nextKey) k) a =
      if k = srcKey ∧ a = "name" then some name else src.getAttr k a := by
  unfold coreD3
  rw [getAttr_setAttr, D3_root_isSome h hs]
  have hiff : (mapKey (keyMap ks d0.nextKey) k = mapKey (keyMap ks d0.nextKey) srcKey) ↔ k = srcKey :=
    ⟨fun e => mapKey_inj d0.nextKey hk hs e, fun e => by rw [e]⟩
  by_cases hc : k = srcKey ∧ a = "name"
  · have : mapKey (keyMap ks d0.nextKey) k = mapKey (keyMap ks d0.nextKey) srcKey ∧ a = "name" := ⟨hiff.mpr hc.1, hc.2⟩
    simp [hc]
  · have : ¬ (mapKey (keyMap ks d0.nextKey) k = mapKey (keyMap ks d0.nextKey) srcKey ∧ a = "name") :=
      fun e => hc ⟨hiff.mp e.1, e.2⟩
    rw [if_neg this, if_neg hc, getAttr_addLink, getAttr_copyNodes_new src d0 ks emptied h.lt hk]

theorem D3_nkind_new (h : DestOk d0 c) {k : Nat} (hk : k ∈ ks) :
    nkind (coreD3 src d0 c srcKey name ks emptied) (mapKey (keyMap ks d0.nextKey) k) =
      some ((src.node? k).getD {}).kind := by
  unfold coreD3
  rw [nkind_setAttr, nkind_addLink, nkind_copyNodes_new src d0 ks emptied h.lt hk]

theorem old_ne_root (hs : srcKey ∈ ks) {k : Nat} (hk : k < d0.nextKey) :
    k ≠ mapKey (keyMap ks d0.nextKey) srcKey := by
  have := (mapKey_range d0.nextKey hs).1
  omega

theorem D3_getAttr_old (hs : srcKey ∈ ks) {k : Nat} (hk : k < d0.nextKey) (a : String) :
    (coreD3 src d0 c srcKey name ks emptied).getAttr k a = d0.getAttr k a := by
  unfold coreD3
  rw [getAttr_setAttr_ne _ _ _ (old_ne_root hs hk), getAttr_addLink, getAttr_copyNodes_old src d0 ks emptied hk]

theorem D3_links_old (h : DestOk d0 c) {k : Nat} (hk : k < d0.nextKey) :
    (coreD3 src d0 c srcKey name ks emptied).links k =
      if k = c then d0.links c ++ [(name, mapKey (keyMap ks d0.nextKey) srcKey)] else d0.links k := by
  unfold coreD3
  rw [links_setAttr]
  by_cases hc : k = c
  · subst hc
    have hn : ((copyNodes src d0 ks emptied).1.node? k).isSome := by
      rw [node?_copyNodes_old src d0 ks emptied hk]; exact (node?_isSome_iff d0 k).mpr h.c_mem
    rw [if_pos rfl, links_addLink_self _ _ _ hn, links_copyNodes_old src d0 ks emptied hk]
  · rw [if_neg hc, links_addLink_ne _ _ _ hc, links_copyNodes_old src d0 ks emptied hk]

theorem D3_nkind_old {k : Nat} (hk : k < d0.nextKey) :
    nkind (coreD3 src d0 c srcKey name ks emptied) k = nkind d0 k := by
  unfold coreD3
  rw [nkind_setAttr, nkind_addLink]
  unfold nkind
  rw [node?_copyNodes_old src d0 ks emptied hk]

theorem D3_keys : keys (coreD3 src d0 c srcKey name ks emptied) =
    keys d0 ++ ks.map (mapKey (keyMap ks d0.nextKey)) := by
  unfold coreD3
  rw [keys_setAttr, keys_addLink, copyNodes_keys]

theorem D3_nextId : (coreD3 src d0 c srcKey name ks emptied).nextId = d0.nextId := rfl
theorem D3_nextKey : (coreD3 src d0 c srcKey name ks emptied).nextKey = d0.nextKey + ks.length := rfl

end

theorem nodup_map_of_inj_on {α β : Type} (l : List α) (f : α → β) (hnd : l.Nodup)
    (hinj : ∀ a ∈ l, ∀ b ∈ l, f a = f b → a = b) : (l.map f).Nodup := by
  induction l with
  | nil => simp
  | cons x xs ih =>
    rw [List.map_cons, List.nodup_cons]
    refine ⟨?_, ih (List.nodup_cons.mp hnd).2 (fun a ha b hb => hinj a (List.mem_cons.mpr (.inr ha)) b (List.mem_cons.mpr (.inr hb)))⟩
    intro hm
    obtain ⟨y, hy, e⟩ := List.mem_map.mp hm
    have := hinj y (List.mem_cons.mpr (.inr hy)) x List.mem_cons_self e
    exact (List.nodup_cons.mp hnd).1 (this ▸ hy)

theorem newKeys_nodup (ks : List Nat) (N : Nat) (hnd : ks.Nodup) : (ks.map (mapKey (keyMap ks N))).Nodup :=
  nodup_map_of_inj_on ks _ hnd (fun _ ha _ hb e => mapKey_inj N ha hb e)

theorem old_not_new {ks : List Nat} {N k : Nat} (hk : k < N) : k ∉ ks.map (mapKey (keyMap ks N)) := by
  intro hm
  obtain ⟨y, hy, e⟩ := List.mem_map.mp hm
  have := (mapKey_range N hy).1
  omega

/-! ## the result of `h5CopyCore` -/

section
variable {src d0 : Graph} {c srcKey : Nat} {name : String} {ks emptied : List Nat} {keepId : Bool}

theorem core_root : (h5CopyCore src d0 c srcKey name ks emptied keepId).2 = mapKey (keyMap ks d0.nextKey) srcKey := rfl

theorem core_links_new (h : DestOk d0 c) {k : Nat} (hk : k ∈ ks) :
    (h5CopyCore src d0 c srcKey name ks emptied keepId).1.links (mapKey (keyMap ks d0.nextKey) k) =
      if emptied.contains k then []
      else (src.links k).map fun l => (l.1, mapKey (keyMap ks d0.nextKey) l.2) := by
  rw [h5CopyCore_eq]
  cases keepId
  · simp only [Bool.false_eq_true, ↓reduceIte]; rw [regenIds_links]; exact D3_links_new h hk
  · simp only [↓reduceIte]; exact D3_links_new h hk

theorem core_getAttr_new (h : DestOk d0 c) (hs : srcKey ∈ ks) {k : Nat} (hk : k ∈ ks) (a : String)
    (ha : a ≠ "entity_id" ∨ keepId = true) :
    (h5CopyCore src d0 c srcKey name ks emptied keepId).1.getAttr (mapKey (keyMap ks d0.nextKey) k) a =
      if k = srcKey ∧ a = "name" then some name else src.getAttr k a := by
  rw [h5CopyCore_eq]
  cases keepId
  · simp only [Bool.false_eq_true, ↓reduceIte]
    have ha' : a ≠ "entity_id" := by
      rcases ha with h | h
      · exact h
      · cases h
    rw [regenIds_getAttr _ _ _ _ (.inl ha')]; exact D3_getAttr_new h hs hk a
  · simp only [↓reduceIte]; exact D3_getAttr_new h hs hk a

theorem core_nkind_new (h : DestOk d0 c) {k : Nat} (hk : k ∈ ks) :
    nkind (h5CopyCore src d0 c srcKey name ks emptied keepId).1 (mapKey (keyMap ks d0.nextKey) k) =
      some ((src.node? k).getD {}).kind := by
  rw [h5CopyCore_eq]
  cases keepId
  · simp only [Bool.false_eq_true, ↓reduceIte]; rw [regenIds_nkind]; exact D3_nkind_new h hk
  · simp only [↓reduceIte]; exact D3_nkind_new h hk

theorem core_getAttr_old (hs : srcKey ∈ ks) {k : Nat} (hk : k < d0.nextKey) (a : String) :
    (h5CopyCore src d0 c srcKey name ks emptied keepId).1.getAttr k a = d0.getAttr k a := by
  rw [h5CopyCore_eq]
  cases keepId
  · simp only [Bool.false_eq_true, ↓reduceIte]
    rw [regenIds_getAttr _ _ _ _ (.inr (old_not_new hk))]; exact D3_getAttr_old hs hk a
  · simp only [↓reduceIte]; exact D3_getAttr_old hs hk a

theorem core_links_old (h : DestOk d0 c) {k : Nat} (hk : k < d0.nextKey) :
    (h5CopyCore src d0 c srcKey name ks emptied keepId).1.links k =
      if k = c then d0.links c ++ [(name, mapKey (keyMap ks d0.nextKey) srcKey)] else d0.links k := by
  rw [h5CopyCore_eq]
  cases keepId
  · simp only [Bool.false_eq_true, ↓reduceIte]; rw [regenIds_links]; exact D3_links_old h hk
  · simp only [↓reduceIte]; exact D3_links_old h hk

theorem core_nkind_old {k : Nat} (hk : k < d0.nextKey) :
    nkind (h5CopyCore src d0 c srcKey name ks emptied keepId).1 k = nkind d0 k := by
  rw [h5CopyCore_eq]
  cases keepId
  · simp only [Bool.false_eq_true, ↓reduceIte]; rw [regenIds_nkind]; exact D3_nkind_old hk
  · simp only [↓reduceIte]; exact D3_nkind_old hk

theorem core_keys : keys (h5CopyCore src d0 c srcKey name ks emptied keepId).1 =
    keys d0 ++ ks.map (mapKey (keyMap ks d0.nextKey)) := by
  rw [h5CopyCore_eq]
  cases keepId
  · simp only [Bool.false_eq_true, ↓reduceIte]; rw [regenIds_keys]; exact D3_keys
  · simp only [↓reduceIte]; exact D3_keys

theorem core_nextKey : (h5CopyCore src d0 c srcKey name ks emptied keepId).1.nextKey = d0.nextKey + ks.length := by
  rw [h5CopyCore_eq]
  cases keepId
  · simp only [Bool.false_eq_true, ↓reduceIte]; rw [regenIds_nextKey]; rfl
  · rfl

theorem core_nextId_le : d0.nextId ≤ (h5CopyCore src d0 c srcKey name ks emptied keepId).1.nextId := by
  rw [h5CopyCore_eq]
  cases keepId
  · simp only [Bool.false_eq_true, ↓reduceIte]
    exact regenIds_nextId_le (coreD3 src d0 c srcKey name ks emptied) _
  · exact Nat.le_refl _

/-- ids after a regenerating copy -/
theorem core_ids_fresh (h : DestOk d0 c) (hs : srcKey ∈ ks) (hnd : ks.Nodup) {k : Nat} (hk : k ∈ ks) :
    (src.entityId k = none →
      (h5CopyCore src d0 c srcKey name ks emptied false).1.entityId (mapKey (keyMap ks d0.nextKey) k) = none) ∧
    (∀ i, src.entityId k = some i → ∃ n, d0.nextId ≤ n ∧
      n < (h5CopyCore src d0 c srcKey name ks emptied false).1.nextId ∧
      (h5CopyCore src d0 c srcKey name ks emptied false).1.entityId (mapKey (keyMap ks d0.nextKey) k) =
        some (idStr n)) := by
  rw [h5CopyCore_eq]
  simp only [Bool.false_eq_true, ↓reduceIte]
  have hid : (coreD3 src d0 c srcKey name ks emptied).entityId (mapKey (keyMap ks d0.nextKey) k) =
      src.entityId k := by
    rw [entityId_eq, D3_getAttr_new h hs hk, if_neg (by simp)]; rfl
  have := regenIds_ids (coreD3 src d0 c srcKey name ks emptied) _ (newKeys_nodup ks d0.nextKey hnd)
    (mapKey (keyMap ks d0.nextKey) k) (List.mem_map.mpr ⟨k, hk, rfl⟩)
  rw [hid] at this
  exact this

theorem core_ids_distinct (h : DestOk d0 c) (hs : srcKey ∈ ks) (hnd : ks.Nodup) {a b : Nat}
    (ha : a ∈ ks) (hb : b ∈ ks) (hab : a ≠ b) {i j : String}
    (hi : src.entityId a = some i) (hj : src.entityId b = some j) :
    (h5CopyCore src d0 c srcKey name ks emptied false).1.entityId (mapKey (keyMap ks d0.nextKey) a) ≠
    (h5CopyCore src d0 c srcKey name ks emptied false).1.entityId (mapKey (keyMap ks d0.nextKey) b) := by
  rw [h5CopyCore_eq]
  simp only [Bool.false_eq_true, ↓reduceIte]
  have hid : ∀ k ∈ ks, (coreD3 src d0 c srcKey name ks emptied).entityId (mapKey (keyMap ks d0.nextKey) k) =
      src.entityId k := by
    intro k hk
    rw [entityId_eq, D3_getAttr_new h hs hk, if_neg (by simp)]; rfl
  apply regenIds_distinct (coreD3 src d0 c srcKey name ks emptied) _ (newKeys_nodup ks d0.nextKey hnd)
    _ _ (List.mem_map.mpr ⟨a, ha, rfl⟩) (List.mem_map.mpr ⟨b, hb, rfl⟩)
    (fun e => hab (mapKey_inj d0.nextKey ha hb e)) i j
  · rw [hid a ha]; exact hi
  · rw [hid b hb]; exact hj

end

/-! ## `ensureGroup` on the destination -/

/-- what the theorems need of a destination file: node keys below `nextKey`, links lead to nodes -/
structure FileOk (g : Graph) : Prop where
  lt : ∀ k ∈ keys g, k < g.nextKey
  target : ∀ k l, l ∈ g.links k → l.2 ∈ keys g

theorem keys_ensureGroup (g : Graph) (p : Nat) (n : String) :
    keys (g.ensureGroup p n).1 = if g.child? p n = none then keys g ++ [g.nextKey] else keys g := by
  cases h : g.child? p n with
  | some k => rw [ensureGroup_of_some h]; simp
  | none => rw [ensureGroup_of_none h, keys_addLink, keys_newNode]; simp

theorem nextKey_ensureGroup (g : Graph) (p : Nat) (n : String) :
    (g.ensureGroup p n).1.nextKey = if g.child? p n = none then g.nextKey + 1 else g.nextKey := by
  cases h : g.child? p n with
  | some k => rw [ensureGroup_of_some h]; simp
  | none => rw [ensureGroup_of_none h]; simp [nextKey_addLink, nextKey_newNode]

theorem nextKey_le_ensureGroup (g : Graph) (p : Nat) (n : String) : g.nextKey ≤ (g.ensureGroup p n).1.nextKey := by
  rw [nextKey_ensureGroup]; split <;> omega

theorem ensureGroup_destOk {g : Graph} (h : FileOk g) (p : Nat) (n : String) :
    DestOk (g.ensureGroup p n).1 (g.ensureGroup p n).2 := by
  cases hc : g.child? p n with
  | some k =>
    rw [ensureGroup_of_some hc]
    exact ⟨h.lt, h.target p (n, k) (child?_some_mem hc)⟩
  | none =>
    refine ⟨?_, ?_⟩
    · intro k hk
      rw [keys_ensureGroup, nextKey_ensureGroup, if_pos hc] at *
      rcases List.mem_append.mp hk with h' | h'
      · have := h.lt k h'; omega
      · simp at h'; omega
    · rw [keys_ensureGroup, if_pos hc, ensureGroup_of_none hc]; simp

/-- old nodes of the file after `ensureGroup`: attributes as before, links as before except that the
owner gains the container link if it was missing -/
theorem ensureGroup_old {g : Graph} {p : Nat} (n : String) (hp : p ∈ keys g) (k : Nat) :
    (∀ a, (g.ensureGroup p n).1.getAttr k a = g.getAttr k a) ∧
    (g.ensureGroup p n).1.links k =
      if k = p ∧ g.child? p n = none then g.links k ++ [(n, g.nextKey)] else g.links k :=
  ⟨fun a => getAttr_ensureGroup g p n k a, links_ensureGroup g n ((node?_isSome_iff g p).mpr hp) k⟩

end Nix.Store.C20
