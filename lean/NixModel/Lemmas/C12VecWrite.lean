import NixModel.Generated.WriteOrder

/-!
# Refused vector assignments leave the stored vector alone   (C12, data level)

Theorems about the step lists `Generated/WriteOrder.lean` renders from `H5Group.write_data`, the
`Tag.position` / `Tag.extent` / `DataArray.polynom_coefficients` setters and the `Property.values` setter, run
by the machine of `Pure/VecWrite.lean`.  They are stated over the generated constants: when the source changes
the order (resize before conversion), narrows the condition of the conversion (not for ndarrays), or moves the
time stamp before the write, the constants change and these proofs no longer check.
-/
namespace Nix.VecWrite
open Nix.Generated.WriteOrder

/-- `H5Group.write_data` with a float dtype: whatever the spelling of the data, whatever the dataset holds or
whether it exists — a refusal comes before the dataset is resized or created -/
theorem writeData_refused_unchanged (m : M) (hdt : m.dt = some .double) (e : Nix.Err)
    (h : (runWith.runFlat writeDataSteps m).2 = some e) : (runWith.runFlat writeDataSteps m).1.file = m.file := by
  revert h
  simp only [writeDataSteps, runWith.runFlat, step, List.all_cons, List.all_nil, guardHolds, hdt, Option.isSome_some,
    beq_self_eq_true, Bool.and_self, Bool.and_true, if_true]
  by_cases hc : (m.x.elems.all fun x => x.convOk) = true
  · simp only [hc, if_true]
    have hdd : (some DT.double == some DT.string) = false := by decide
    simp only [hdd, Bool.false_and, Bool.false_eq_true, if_false]
    cases hds : m.file.ds with
    | none => simp
    | some d =>
      simp only
      by_cases hr : (d.rank != m.x.rank) = true
      · simp [hr]
      · simp [hr]
  · simp [hc]

/-- … and an accepted call stores exactly the converted values -/
theorem writeData_accepted (m : M) (hdt : m.dt = some .double)
    (h : (runWith.runFlat writeDataSteps m).2 = none) :
    (runWith.runFlat writeDataSteps m).1.file.ds = some { rank := m.x.rank, vals := m.x.elems.map (·.val) } ∧
    (runWith.runFlat writeDataSteps m).1.file.stamp = m.file.stamp := by
  revert h
  simp only [writeDataSteps, runWith.runFlat, step, List.all_cons, List.all_nil, guardHolds, hdt, Option.isSome_some,
    beq_self_eq_true, Bool.and_self, Bool.and_true, if_true]
  by_cases hc : (m.x.elems.all fun x => x.convOk) = true
  · simp only [hc, if_true]
    have hdd : (some DT.double == some DT.string) = false := by decide
    simp only [hdd, Bool.false_and, Bool.false_eq_true, if_false]
    cases hds : m.file.ds with
    | none => simp
    | some d =>
      simp only
      by_cases hr : (d.rank != m.x.rank) = true
      · simp [hr]
      · have : d.rank = m.x.rank := by simpa using hr
        simp [hr, this]
  · simp [hc]

/-- `H5Group.write_data` with a text dtype (`Tag.units`, `SetDimension.labels`): text h5py cannot store is refused
before the dataset is resized or created (`hh5`: text that passes the test is text h5py writes) -/
theorem writeData_text_refused_unchanged (m : M) (hdt : m.dt = some .string) (hconv : m.converted = false)
    (hh5 : ∀ y ∈ m.x.elems, y.typeOk = true → y.h5Ok = true) (e : Nix.Err)
    (h : (runWith.runFlat writeDataSteps m).2 = some e) : (runWith.runFlat writeDataSteps m).1.file = m.file := by
  revert h
  simp only [writeDataSteps, runWith.runFlat, step, guardHolds, List.all_cons, List.all_nil]
  by_cases ht : (m.x.elems.all fun x => x.typeOk) = true
  · have hall : (m.x.elems.all fun x => x.h5Ok) = true := by
      rw [List.all_eq_true] at ht ⊢
      intro y hy
      exact hh5 y hy (ht y hy)
    cases hds : m.file.ds with
    | none => simp [hdt, hconv, ht, hall, hds]
    | some d => by_cases hr : d.rank = m.x.rank <;> simp [hdt, hconv, ht, hall, hds, hr]
  · simp [hdt, hconv, ht]

private theorem runWith_callWriteData (wd : List Step) (dt : Option DT) (rest : List Step) (m : M) :
    runWith wd (.callWriteData dt :: rest) m =
      match runWith.runFlat wd { m with dt := dt, converted := false, shape := none } with
      | (m', some e) => (m', some e)
      | (m', none) => runWith wd rest m' := by
  rw [runWith]
  rcases runWith.runFlat wd { m with dt := dt, converted := false, shape := none } with ⟨m', _ | e⟩ <;> rfl

/-- a pure validation: it may raise, it never changes the machine -/
def IsCheck (s : Step) : Prop := s = .checkTypes ∨ s = .checkFlat ∨ s = .checkFlatNonEmpty

private theorem step_check (m : M) (s : Step) (hs : IsCheck s) : (step m s).1 = m := by
  rcases hs with rfl | rfl | rfl <;> simp only [step] <;> split <;> (try split) <;> rfl

/-- validations in front of a step list: refused by one of them, or the list runs on the same machine -/
private theorem runWith_checks (wd : List Step) (checks rest : List Step) (hc : ∀ s ∈ checks, IsCheck s) (m : M) :
    (∃ e, runWith wd (checks ++ rest) m = (m, some e)) ∨ runWith wd (checks ++ rest) m = runWith wd rest m := by
  induction checks with
  | nil => exact .inr rfl
  | cons c cs ih =>
    have hcc := hc c (List.mem_cons_self ..)
    have hm := step_check m c hcc
    have ih' := ih (fun s hs => hc s (List.mem_cons_of_mem _ hs))
    rw [List.cons_append]
    rcases hstep : step m c with ⟨m', oe⟩
    have hm' : m' = m := by
      have := hm
      rw [hstep] at this
      exact this
    subst hm'
    rcases hcc with rfl | rfl | rfl <;> cases oe <;> simp only [runWith, hstep]
    · exact ih'
    · exact .inl ⟨_, rfl⟩
    · exact ih'
    · exact .inl ⟨_, rfl⟩
    · exact ih'
    · exact .inl ⟨_, rfl⟩

/-- the statements in front of the empty test — validations and the wrapping of a bare number — change nothing
but the variable holding the value -/
private theorem runWith_pre (wd : List Step) (pre : List Step) (hp : ∀ s ∈ pre, IsCheck s ∨ s = .wrapScalar) :
    ∀ m : M, ∃ x', (runWith wd pre m).1 = { m with x := x' } := by
  induction pre with
  | nil => intro m; exact ⟨m.x, rfl⟩
  | cons c cs ih =>
    intro m
    have ih' := ih (fun s hs => hp s (List.mem_cons_of_mem _ hs))
    rcases hp c (List.mem_cons_self ..) with hc | rfl
    · have hm := step_check m c hc
      rcases hstep : step m c with ⟨m', oe⟩
      have hm' : m' = m := by
        have := hm
        rw [hstep] at this
        exact this
      subst hm'
      rcases hc with rfl | rfl | rfl <;> cases oe <;> simp only [runWith, hstep]
      · exact ih' m'
      · exact ⟨m'.x, rfl⟩
      · exact ih' m'
      · exact ⟨m'.x, rfl⟩
      · exact ih' m'
      · exact ⟨m'.x, rfl⟩
    · cases hx : m.x with
      | scalar e0 =>
        obtain ⟨x', h'⟩ := ih' { m with x := .seq false [e0] }
        exact ⟨x', by simp only [runWith, step, hx]; exact h'⟩
      | none => obtain ⟨x', h'⟩ := ih' m; exact ⟨x', by simp only [runWith, step, hx]; exact h'⟩
      | seq a es => obtain ⟨x', h'⟩ := ih' m; exact ⟨x', by simp only [runWith, step, hx]; exact h'⟩
      | unsized e0 => obtain ⟨x', h'⟩ := ih' m; exact ⟨x', by simp only [runWith, step, hx]; exact h'⟩
      | nested a r es => obtain ⟨x', h'⟩ := ih' m; exact ⟨x', by simp only [runWith, step, hx]; exact h'⟩

/-- a setter of the shape `<validations / wrapScalar> ; if empty: delete-if-present else: <validations>;
write_data(.., Double) ; touch` -/
private theorem floatSetter_unchanged (pre : List Step) (hp : ∀ s ∈ pre, IsCheck s ∨ s = .wrapScalar)
    (checks : List Step) (hc : ∀ s ∈ checks, IsCheck s)
    (f : File) (now : Nat) (x : Arg) (e : Nix.Err)
    (h : (runSetter writeDataSteps
      { emptyTest := .lenZero, pre := pre, whenEmpty := [.deleteIfPresent],
        otherwise := checks ++ [.callWriteData (some .double)], post := [.touch] } f now x).2 = some e) :
    (runSetter writeDataSteps
      { emptyTest := .lenZero, pre := pre, whenEmpty := [.deleteIfPresent],
        otherwise := checks ++ [.callWriteData (some .double)], post := [.touch] } f now x).1 = f := by
  revert h
  unfold runSetter
  obtain ⟨x', hx'⟩ := runWith_pre writeDataSteps pre hp { x := x, now := now, file := f }
  rcases hrun0 : runWith writeDataSteps pre { x := x, now := now, file := f } with ⟨m1, r1⟩
  rw [hrun0] at hx'
  simp only at hx'
  subst hx'
  cases r1 with
  | some e1 => simp
  | none =>
  simp only
  cases hemp : isEmpty? .lenZero x' with
  | none => simp
  | some b =>
    cases b with
    | true => simp [runWith, step]
    | false =>
      simp only [Bool.false_eq_true, if_false]
      rcases runWith_checks writeDataSteps checks [.callWriteData (some .double)] hc
          { x := x', now := now, file := f } with ⟨e', he'⟩ | hgo
      · rw [he']; simp
      · rw [hgo]
        simp only [runWith_callWriteData]
        have key := writeData_refused_unchanged
          { x := x', converted := false, shape := none, dt := some .double, now := now, file := f } rfl
        cases hrun : runWith.runFlat writeDataSteps
            { x := x', converted := false, shape := none, dt := some .double, now := now, file := f } with
        | mk m' oe =>
          cases oe with
          | some e' =>
            intro _
            have := key e' (by rw [hrun])
            rw [hrun] at this
            simpa using this
          | none => simp [runWith, step]

/-- **`Tag.position`, `Tag.extent`, `DataArray.polynom_coefficients`**: for every spelling of the value (None,
a number, a list or tuple, an ndarray of any element type, a 0-d or n-d array), every stored vector (or none),
a refused assignment leaves the dataset *and the time stamp* exactly as they were -/
theorem float_setters_refused_unchanged (nm : String) (s : Setter) (hs : (nm, s) ∈ floatSetters)
    (f : File) (now : Nat) (x : Arg) (e : Nix.Err) (h : (runSetter writeDataSteps s f now x).2 = some e) :
    (runSetter writeDataSteps s f now x).1 = f := by
  simp only [floatSetters, List.mem_cons, Prod.mk.injEq, List.mem_nil_iff, or_false] at hs
  rcases hs with ⟨_, rfl⟩ | ⟨_, rfl⟩ | ⟨_, rfl⟩
  · exact floatSetter_unchanged [.wrapScalar] (by simp) [] (by simp) f now x e h
  · exact floatSetter_unchanged [.wrapScalar] (by simp) [] (by simp) f now x e h
  · exact floatSetter_unchanged [.checkFlatNonEmpty] (by simp [IsCheck]) [] (by simp) f now x e h

private theorem valuesTail_unchanged (wd : List Step) (m : M) (e : Nix.Err)
    (h : (runWith wd [.convertIf [], .takeShape, .resizeOrCreate, .write, .touch] m).2 = some e) :
    (runWith wd [.convertIf [], .takeShape, .resizeOrCreate, .write, .touch] m).1.file = m.file := by
  revert h
  simp only [runWith, step, List.all_nil, if_true]
  by_cases h2 : (m.x.elems.all fun x => x.convOk) = true
  · simp only [h2, if_true]
    cases hds : m.file.ds with
    | none => simp
    | some d =>
      simp only
      by_cases hr : (d.rank != m.x.rank) = true
      · simp [hr]
      · simp [hr]
  · simp [h2]

private theorem valuesChecked_unchanged (wd : List Step) (checks : List Step) (hc : ∀ s ∈ checks, IsCheck s) (m : M)
    (e : Nix.Err)
    (h : (runWith wd (checks ++ [.convertIf [], .takeShape, .resizeOrCreate, .write, .touch]) m).2 = some e) :
    (runWith wd (checks ++ [.convertIf [], .takeShape, .resizeOrCreate, .write, .touch]) m).1.file = m.file := by
  rcases runWith_checks wd checks [.convertIf [], .takeShape, .resizeOrCreate, .write, .touch] hc m with ⟨e', he'⟩ | hgo
  · rw [he']
  · rw [hgo] at h ⊢
    exact valuesTail_unchanged wd m e h

private theorem runWith_wrapScalar (wd : List Step) (rest : List Step) (m : M) :
    runWith wd (.wrapScalar :: rest) m =
      runWith wd rest (match m.x with | .scalar e => { m with x := .seq false [e] } | _ => m) := by
  cases hx : m.x <;> simp [runWith, step, hx]

/-- **`Property.values`**: type check and conversion precede the resize; the write of a converted array cannot
be refused; the time stamp comes last -/
theorem property_values_refused_unchanged (f : File) (now : Nat) (x : Arg) (e : Nix.Err)
    (h : (runSetter writeDataSteps propertyValues f now x).2 = some e) :
    (runSetter writeDataSteps propertyValues f now x).1 = f := by
  revert h
  unfold runSetter
  simp only [propertyValues, runWith]
  cases hemp : isEmpty? .iterableAndNotLen x with
  | none => simp
  | some b =>
    cases b with
    | true =>
      simp only [if_true, runWith, step]
      cases hds : f.ds <;> simp
    | false =>
      simp only [Bool.false_eq_true, if_false, runWith_wrapScalar]
      generalize hm : (match ({ x := x, now := now, file := f } : M).x with
        | .scalar e => { ({ x := x, now := now, file := f } : M) with x := .seq false [e] }
        | _ => ({ x := x, now := now, file := f } : M)) = m0
      have hf : m0.file = f := by
        rw [← hm]; cases x <;> rfl
      have key := valuesChecked_unchanged writeDataSteps [.checkTypes, .checkTypes] (by simp [IsCheck]) m0
      simp only [List.cons_append, List.nil_append] at key
      cases hrun : runWith writeDataSteps
          [.checkTypes, .checkTypes, .convertIf [], .takeShape, .resizeOrCreate, .write, .touch] m0 with
      | mk m' oe =>
        cases oe with
        | some e' =>
          intro _
          have := key e' (by rw [hrun])
          rw [hrun] at this
          simp only at this ⊢
          rw [this, hf]
        | none => simp

/-- **`RangeDimension.ticks`**: conversion and order test come first; the link is removed only when the write that
follows cannot be refused (a linked dimension has no ticks dataset: `link_data_array` drops it once the link
exists — hypothesis `hinv`) -/
theorem ticks_refused_unchanged (f : File) (hinv : f.link = true → f.ds = none) (now : Nat) (x : Arg) (e : Nix.Err)
    (h : (runWith writeDataSteps rangeTicks { x := x, now := now, file := f }).2 = some e) :
    (runWith writeDataSteps rangeTicks { x := x, now := now, file := f }).1.file = f := by
  revert h
  simp only [rangeTicks, runWith, step, List.all_nil, if_true]
  by_cases hc : (x.elems.all fun y => y.convOk) = true
  · simp only [hc, if_true]
    by_cases hr : (x.rank == 0) = true
    · simp [hr]
    · simp only [hr, Bool.false_eq_true, if_false]
      by_cases hd : descends (x.elems.map (·.val)) = true
      · simp [hd]
      · simp only [hd, Bool.false_eq_true, if_false, runWith_callWriteData]
        cases hl : f.link with
        | false =>
          have hf : ({ f with link := false } : File) = f := by cases f; simp_all
          rw [hf]
          have key := writeData_refused_unchanged
            { x := x, converted := false, shape := none, dt := some .double, now := now, file := f } rfl
          cases hrun : runWith.runFlat writeDataSteps
              { x := x, converted := false, shape := none, dt := some .double, now := now, file := f } with
          | mk m' oe =>
            cases oe with
            | some e' =>
              intro _
              have := key e' (by rw [hrun])
              rw [hrun] at this
              simpa using this
            | none => simp [runWith]
        | true =>
          have hds : f.ds = none := hinv hl
          -- nothing to resize, the conversion has succeeded: `write_data` cannot refuse
          have hok : (runWith.runFlat writeDataSteps
              { x := x, converted := true, shape := none, dt := some .double, now := now,
                file := { f with link := false } }).2 = none := by
            simp [writeDataSteps, runWith.runFlat, step, guardHolds, hc, hds]
          have hok' : (runWith.runFlat writeDataSteps
              { x := x, converted := false, shape := none, dt := some .double, now := now,
                file := { f with link := false } }).2 = none := by
            simp [writeDataSteps, runWith.runFlat, step, guardHolds, hc, hds]
          cases hrun : runWith.runFlat writeDataSteps
              { x := x, converted := false, shape := none, dt := some .double, now := now,
                file := { f with link := false } } with
          | mk m' oe =>
            rw [hrun] at hok'
            simp only at hok'
            subst hok'
            simp [runWith]
  · simp [hc]

/-- the hypothesis is needed, and the link matters: non-vacuity — `ticks = [1, 2]` on a linked dimension is accepted,
removes the link and stores the ticks -/
theorem ticks_demo :
    runWith writeDataSteps rangeTicks
      { x := .seq false [{ val := 1, typeOk := true, convOk := true, h5Ok := true },
                         { val := 2, typeOk := true, convOk := true, h5Ok := true }],
        now := 3, file := { ds := none, stamp := 0, link := true } } =
    ({ x := .seq false [{ val := 1, typeOk := true, convOk := true, h5Ok := true },
                        { val := 2, typeOk := true, convOk := true, h5Ok := true }],
       converted := true, shape := some (1, 2), dt := some .double, now := 3,
       file := { ds := some { rank := 1, vals := [1, 2] }, stamp := 0, link := false } }, none) := by
  decide +kernel

/-! ## the order and the condition matter: two shapes `write_data` must not take -/

/-- an element no conversion accepts (a str, an `object()`) -/
def badElem : Elem := { val := 0, typeOk := false, convOk := false, h5Ok := false }

/-- a tag position `[3/2]` in the file, the offered value `np.array(['a', 'b', 'c'])` -/
def demoM : M :=
  { x := .seq true [badElem, badElem, badElem], dt := some .double, file := { ds := some { rank := 1, vals := [3/2] }, stamp := 7 } }

/-- the conversion skipped for ndarrays ("h5py converts it on writing") -/
def skipForArrays : List Step := [.convertIf [.dtypeGiven, .dtypeFloat, .notNdarray], .takeShape, .resizeOrCreate, .write]

/-- the resize placed before the conversion -/
def resizeFirst : List Step := [.takeShape, .resizeOrCreate, .convertIf [.dtypeGiven, .dtypeFloat], .write]

theorem skipForArrays_changes_file :
    (runWith.runFlat skipForArrays demoM).2 = some .typeError ∧
    (runWith.runFlat skipForArrays demoM).1.file.ds = some { rank := 1, vals := [3/2, 0, 0] } := by
  decide +kernel

theorem resizeFirst_changes_file :
    (runWith.runFlat resizeFirst demoM).2 = some .valueError ∧
    (runWith.runFlat resizeFirst demoM).1.file.ds = some { rank := 1, vals := [3/2, 0, 0] } := by
  decide +kernel

/-- the source's shape refuses the same call with the stored position untouched -/
theorem writeData_demo :
    runWith.runFlat writeDataSteps demoM = (demoM, some .valueError) := by
  decide +kernel

end Nix.VecWrite
