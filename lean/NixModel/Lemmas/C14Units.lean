import NixModel.Lemmas.C14Tags
import NixModel.Lemmas.UnitsLemmas

/-!
# C14 — the unit test of the validator on real unit strings

`tag_units_match_refs_units` calls `units.scalable`; the model uses the C09 model of `units.py`, instantiated with
the tables regenerated from the source.  For unit strings written from those tables (optional prefix, unit symbol,
optional power `^-3 … ^3`) the pair test is decided by the symbol and the power alone — `mol` against `mm`, `Wb`
against `kW`, `mSv` against `uS` are *not* convertible although one symbol starts with the other.
-/
namespace Nix.Validator.Lemmas
open Nix.Validator Nix.Validator.Gen Nix.Units Nix.Units.Gen Nix.Units.Lemmas

/-- the pair test of the validator on two table atoms: same unit symbol, same power -/
theorem unitPairOk_atoms (p₁ p₂ u₁ u₂ w₁ w₂ : Str) (h₁ : p₁ ∈ optPrefixes) (h₂ : p₂ ∈ optPrefixes)
    (hu₁ : u₁ ∈ units) (hu₂ : u₂ ∈ units) (hw₁ : w₁ ∈ powerTexts) (hw₂ : w₂ ∈ powerTexts) :
    unitPairOk (p₁ ++ u₁ ++ w₁, p₂ ++ u₂ ++ w₂) = true ↔ (u₁ = u₂ ∧ w₁.drop 1 = w₂.drop 1) := by
  by_cases hq : u₁ = u₂ ∧ w₁.drop 1 = w₂.drop 1
  · obtain ⟨rfl, hw⟩ := hq
    have hs : scalable (p₁ ++ u₁ ++ w₁) (p₂ ++ u₁ ++ w₂) = true := by
      obtain ⟨_, si1, sp1⟩ := atom_table p₁ u₁ w₁ h₁ hu₁ hw₁
      obtain ⟨_, si2, sp2⟩ := atom_table p₂ u₁ w₂ h₂ hu₂ hw₂
      unfold scalable
      simp only [si1, si2, sp1, sp2, hw]
      simp
    simp only [unitPairOk, hs, Bool.or_true, hw, and_self]
  · have hne : u₁ ≠ u₂ ∨ w₁.drop 1 ≠ w₂.drop 1 := by
      by_cases h : u₁ = u₂
      · exact Or.inr fun hw => hq ⟨h, hw⟩
      · exact Or.inl h
    have hs := (not_scalable_atoms p₁ p₂ u₁ u₂ w₁ w₂ h₁ h₂ hu₁ hu₂ hw₁ hw₂ hne).1
    have hne1 : (p₁ ++ u₁ ++ w₁).isEmpty = false ∨ (p₂ ++ u₂ ++ w₂).isEmpty = false := by
      by_contra hc
      simp only [not_or, Bool.not_eq_false, List.isEmpty_iff, List.append_eq_nil_iff] at hc
      obtain ⟨⟨⟨-, e1⟩, e2⟩, ⟨-, e3⟩, e4⟩ := hc
      exact hq ⟨by rw [e1, e3], by rw [e2, e4]⟩
    simp only [unitPairOk, hs, Bool.or_false, Bool.and_eq_true, hq, iff_false, not_and, Bool.not_eq_true]
    intro h
    rcases hne1 with h' | h'
    · rw [h] at h'; cases h'
    · exact h'

/-- a reference whose descriptor at position `i` is in a table unit of another symbol or power than the tag's unit at
that position makes the tag's units unconvertible -/
theorem unitsUnconvertible_of_atoms (units' : List Str) (refs : List DataArray) (da : DataArray) (hda : da ∈ refs)
    (i : Nat) (p₁ p₂ u₁ u₂ w₁ w₂ : Str) (h₁ : p₁ ∈ optPrefixes) (h₂ : p₂ ∈ optPrefixes)
    (hu₁ : u₁ ∈ units) (hu₂ : u₂ ∈ units) (hw₁ : w₁ ∈ powerTexts) (hw₂ : w₂ ∈ powerTexts)
    (ht : units'[i]? = some (p₁ ++ u₁ ++ w₁)) (hd : (getDimUnits da)[i]? = some (p₂ ++ u₂ ++ w₂))
    (hne : u₁ ≠ u₂ ∨ w₁.drop 1 ≠ w₂.drop 1) : UnitsUnconvertible units' refs := by
  refine ⟨da, hda, (p₁ ++ u₁ ++ w₁, p₂ ++ u₂ ++ w₂), ?_, ?_⟩
  · apply List.mem_of_getElem? (i := i)
    rw [List.getElem?_zip_eq_some]
    exact ⟨ht, hd⟩
  · rw [← unitPairOk_iff, unitPairOk_atoms p₁ p₂ u₁ u₂ w₁ w₂ h₁ h₂ hu₁ hu₂ hw₁ hw₂]
    rintro ⟨h1, h2⟩
    rcases hne with h | h
    · exact h h1
    · exact h h2

end Nix.Validator.Lemmas
