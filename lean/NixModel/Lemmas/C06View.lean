import NixModel.Pure.DataView
import NixModel.Lemmas.C06Slice

/-!
Lemmas for C06: ellipsis expansion, the per-axis transformation of a view index, and the lift
over index tuples of any length.
-/
namespace Nix.DataView
open Nix.Py Nix.NdIndex

/-- an integer, the ellipsis, or a slice whose step is `None` or ≥ 1 -/
def IxPos : Ix → Prop
  | .slice s => s.PosStep
  | _ => True

/-- the index tuples the property speaks about (as far as steps are concerned) -/
def PosSteps (ix : List Ix) : Prop := ∀ i ∈ ix, IxPos i

def NoEllipsis (ix : List Ix) : Prop := ∀ i ∈ ix, i.isEllipsis = false

/-- one window inside one dimension -/
def WinIn (w : Win) (n : Nat) : Prop := 0 ≤ w.1 ∧ w.1 ≤ w.2 ∧ w.2 ≤ (n : Int)

/-- every window inside its dimension (also: as many windows as dimensions) -/
def WindowsIn : List Win → List Nat → Prop
  | [], [] => True
  | w :: ws, n :: shape => WinIn w n ∧ WindowsIn ws shape
  | _, _ => False

/-- a valid view whose stored (normalised) windows lie inside the parent -/
def ViewOK (v : View) : Prop := v.valid = true ∧ WindowsIn v.window v.parent

/-! ### counting -/

theorem count_split (ix : List Ix) : ix.length = countEllipsis ix + countAxes ix := by
  induction ix with
  | nil => rfl
  | cons i ix ih =>
    cases i <;> simp [countEllipsis, countAxes, Ix.isEllipsis, List.filter] at ih ⊢ <;> omega

theorem countEllipsis_cons (i : Ix) (ix : List Ix) :
    countEllipsis (i :: ix) = (if i.isEllipsis then 1 else 0) + countEllipsis ix := by
  cases i <;> simp [countEllipsis, Ix.isEllipsis, List.filter] <;> omega

theorem countAxes_cons (i : Ix) (ix : List Ix) :
    countAxes (i :: ix) = (if i.isEllipsis then 0 else 1) + countAxes ix := by
  cases i <;> simp [countAxes, Ix.isEllipsis, List.filter] <;> omega

theorem noEllipsis_count (ix : List Ix) (h : NoEllipsis ix) :
    countEllipsis ix = 0 ∧ countAxes ix = ix.length := by
  induction ix with
  | nil => exact ⟨rfl, rfl⟩
  | cons i ix ih =>
    have hi : i.isEllipsis = false := h i (by simp)
    have := ih (fun j hj => h j (by simp [hj]))
    rw [countEllipsis_cons, countAxes_cons, hi]
    simp
    omega

theorem count_zero_noEllipsis (ix : List Ix) (h : countEllipsis ix = 0) : NoEllipsis ix := by
  induction ix with
  | nil => intro i hi; cases hi
  | cons i ix ih =>
    rw [countEllipsis_cons] at h
    intro j hj
    cases hj with
    | head => cases hi : i.isEllipsis <;> simp [hi] at h ⊢
    | tail _ hj' => exact ih (by omega) j hj'

theorem fullSlices_noEllipsis (n : Nat) : NoEllipsis (fullSlices n) := by
  intro i hi
  simp [fullSlices, List.mem_replicate] at hi
  rw [hi.2]; rfl

theorem fullSlices_pos (n : Nat) : PosSteps (fullSlices n) := by
  intro i hi
  simp [fullSlices, List.mem_replicate] at hi
  rw [hi.2]
  simp [IxPos, PySlice.PosStep, PySlice.full]

theorem fullSlices_length (n : Nat) : (fullSlices n).length = n := by simp [fullSlices]

/-! ### `_expand_user_slices` is NumPy's expansion -/

theorem fill_eq_take_drop (n : Nat) (ix : List Ix) (h : countEllipsis ix ≥ 1) :
    fillEllipsis n ix =
      ix.take (ix.takeWhile fun i => !i.isEllipsis).length ++ fullSlices n ++
        ix.drop ((ix.takeWhile fun i => !i.isEllipsis).length + 1) := by
  induction ix with
  | nil => simp [countEllipsis] at h
  | cons i ix ih =>
    cases i with
    | ellipsis => simp [fillEllipsis, Ix.isEllipsis, List.takeWhile]
    | int k =>
      rw [countEllipsis_cons] at h
      simp [Ix.isEllipsis] at h
      simp [fillEllipsis, Ix.isEllipsis, List.takeWhile, ih h]
    | slice s =>
      rw [countEllipsis_cons] at h
      simp [Ix.isEllipsis] at h
      simp [fillEllipsis, Ix.isEllipsis, List.takeWhile, ih h]

theorem expandUser_eq (rank : Nat) (ix : List Ix) : expandUser rank ix = expandIx rank ix := by
  unfold expandUser expandIx
  have hc := count_split ix
  have h1 : ix.length - countEllipsis ix = countAxes ix := by omega
  rw [h1]
  split
  · rfl
  · split
    · rfl
    · split
      · rename_i h2 h3 h4
        rw [fill_eq_take_drop _ _ (by omega)]
        have : rank + 1 - ix.length = rank - countAxes ix := by omega
        rw [this]
      · rename_i h2 h3 h4
        have : ix.length = countAxes ix := by omega
        rw [this]

/-! ### shape of the expanded tuple -/

theorem fill_props (n : Nat) (ix : List Ix) (h : countEllipsis ix = 1) :
    (fillEllipsis n ix).length = countAxes ix + n ∧ NoEllipsis (fillEllipsis n ix) ∧
      (PosSteps ix → PosSteps (fillEllipsis n ix)) := by
  induction ix with
  | nil => simp [countEllipsis] at h
  | cons i ix ih =>
    rw [countEllipsis_cons] at h
    rw [countAxes_cons]
    cases i with
    | ellipsis =>
      simp [Ix.isEllipsis] at h
      have hne := count_zero_noEllipsis ix h
      have hc := noEllipsis_count ix hne
      simp only [fillEllipsis, Ix.isEllipsis]
      refine ⟨?_, ?_, ?_⟩
      · simp [fullSlices_length]; omega
      · intro j hj
        rcases List.mem_append.mp hj with hj | hj
        · exact fullSlices_noEllipsis n j hj
        · exact hne j hj
      · intro hp j hj
        rcases List.mem_append.mp hj with hj | hj
        · exact fullSlices_pos n j hj
        · exact hp j (by simp [hj])
    | int k =>
      simp [Ix.isEllipsis] at h
      obtain ⟨h1, h2, h3⟩ := ih h
      simp only [fillEllipsis, Ix.isEllipsis]
      refine ⟨by simp [h1]; omega, ?_, ?_⟩
      · intro j hj
        cases hj with
        | head => rfl
        | tail _ hj' => exact h2 j hj'
      · intro hp j hj
        cases hj with
        | head => trivial
        | tail _ hj' => exact h3 (fun x hx => hp x (by simp [hx])) j hj'
    | slice s =>
      simp [Ix.isEllipsis] at h
      obtain ⟨h1, h2, h3⟩ := ih h
      simp only [fillEllipsis, Ix.isEllipsis]
      refine ⟨by simp [h1]; omega, ?_, ?_⟩
      · intro j hj
        cases hj with
        | head => rfl
        | tail _ hj' => exact h2 j hj'
      · intro hp j hj
        cases hj with
        | head => exact hp _ (by simp)
        | tail _ hj' => exact h3 (fun x hx => hp x (by simp [hx])) j hj'

/-- a successful expansion has exactly `rank` components, no ellipsis, and keeps positive steps -/
theorem expandIx_ok (rank : Nat) (ix full : List Ix) (h : expandIx rank ix = .ok full) :
    full.length = rank ∧ NoEllipsis full ∧ (PosSteps ix → PosSteps full) := by
  unfold expandIx at h
  split at h
  · cases h
  · split at h
    · cases h
    · rename_i h1 h2
      split at h
      · rename_i h3
        injection h with h
        subst h
        obtain ⟨a, b, c⟩ := fill_props (rank - countAxes ix) ix h3
        exact ⟨by omega, b, c⟩
      · rename_i h3
        injection h with h
        subst h
        have h0 : countEllipsis ix = 0 := by omega
        have hne := count_zero_noEllipsis ix h0
        have hc := noEllipsis_count ix hne
        refine ⟨by simp [fullSlices_length]; omega, ?_, ?_⟩
        · intro j hj
          rcases List.mem_append.mp hj with hj | hj
          · exact hne j hj
          · exact fullSlices_noEllipsis _ j hj
        · intro hp j hj
          rcases List.mem_append.mp hj with hj | hj
          · exact hp j hj
          · exact fullSlices_pos _ j hj

/-- with positive steps the only expansion error is `IndexError` -/
theorem expandIx_err (rank : Nat) (ix : List Ix) (e : Err) (h : expandIx rank ix = .error e) :
    e = .indexError := by
  unfold expandIx at h
  split at h
  · injection h with h; exact h.symm
  · split at h
    · injection h with h; exact h.symm
    · split at h <;> cases h

/-- a tuple without ellipsis and of full length expands to itself -/
theorem expandIx_noEllipsis (ix : List Ix) (h : NoEllipsis ix) :
    expandIx ix.length ix = .ok ix := by
  have hc := noEllipsis_count ix h
  unfold expandIx
  simp [hc.1, hc.2, fullSlices]

/-! ### one axis -/

/-- the heart of C06: on one axis whose window `[a, b)` lies inside a dimension of length `n`,
the transformed component selects in the parent what the component selects in the window,
shifted by `a`; and it is refused (`OutOfBounds`) exactly when NumPy refuses it on the window -/
theorem axis_transform (w : Win) (n : Nat) (hw : WinIn w n) (i : Ix) (hi : i.isEllipsis = false)
    (hp : IxPos i) :
    (∀ sel, axisSel (w.2 - w.1).toNat i = .ok sel →
      ∃ t, transformAxis w i = .ok t ∧ t.isEllipsis = false ∧ IxPos t ∧
        axisSel n t = .ok (sel.shift w.1) ∧ h5Axis n t = .ok (sel.shift w.1)) ∧
    (∀ e, axisSel (w.2 - w.1).toNat i = .error e →
      e = .indexError ∧ transformAxis w i = .error .outOfBounds) := by
  obtain ⟨a, b⟩ := w
  obtain ⟨ha0, hab, hbn⟩ := hw
  simp only at ha0 hab hbn
  have hlen : (((b - a).toNat : Nat) : Int) = b - a := by omega
  cases i with
  | ellipsis => simp [Ix.isEllipsis] at hi
  | int k =>
    have hax : axisSel (b - a).toNat (.int k) =
        (if (if k < 0 then k + (b - a) else k) < 0 ∨ (if k < 0 then k + (b - a) else k) ≥ b - a
          then .error .indexError else .ok (.pick (if k < 0 then k + (b - a) else k))) := by
      simp only [axisSel, hlen]
    dsimp only
    rw [hax]
    by_cases hk : k < 0
    · simp only [hk, if_true]
      by_cases hr : (k + (b - a) < 0 ∨ k + (b - a) ≥ b - a)
      · simp only [hr, if_true]
        constructor
        · intro sel h; cases h
        · intro e h
          injection h with h
          have h1 : (b + k < a ∨ b + k ≥ b) := by omega
          exact ⟨h.symm, by simp [transformAxis, hk, h1]⟩
      · simp only [hr, if_false]
        constructor
        · intro sel h
          injection h with h
          subst h
          have h1 : ¬ (b + k < a ∨ b + k ≥ b) := by omega
          have h2 : ¬ (b + k < 0) := by omega
          have h3 : ¬ (b + k < 0 ∨ b + k ≥ (n : Int)) := by omega
          refine ⟨.int (b + k), ?_, rfl, trivial, ?_, ?_⟩
          · simp [transformAxis, hk, h1]
          · simp only [axisSel, AxisSel.shift]
            rw [if_neg h2, if_neg h3]
            congr 2; omega
          · simp only [h5Axis, AxisSel.shift]
            rw [if_neg h2, if_neg h3]
            congr 2; omega
        · intro e h; cases h
    · rw [if_neg hk]
      by_cases hr : (k < 0 ∨ k ≥ b - a)
      · rw [if_pos hr]
        constructor
        · intro sel h; cases h
        · intro e h
          injection h with h
          have h1 : (k + a < a ∨ k + a ≥ b) := by omega
          exact ⟨h.symm, by simp [transformAxis, hk, h1]⟩
      · rw [if_neg hr]
        constructor
        · intro sel h
          injection h with h
          subst h
          have h1 : ¬ (k + a < a ∨ k + a ≥ b) := by omega
          have h2 : ¬ (k + a < 0) := by omega
          have h3 : ¬ (k + a < 0 ∨ k + a ≥ (n : Int)) := by omega
          refine ⟨.int (k + a), ?_, rfl, trivial, ?_, ?_⟩
          · simp [transformAxis, hk, h1]
          · simp only [axisSel, AxisSel.shift]
            rw [if_neg h2, if_neg h3]
            congr 2; omega
          · simp only [h5Axis, AxisSel.shift]
            rw [if_neg h2, if_neg h3]
            congr 2; omega
        · intro e h; cases h
  | slice s =>
    have hs : s.PosStep := hp
    have hidx := indices_pos_eq s (b - a).toNat hs
    have hk := stepOf_pos s hs
    obtain ⟨hs0, hs1⟩ := posStart_bounds s (b - a).toNat
    obtain ⟨he0, he1⟩ := posStop_bounds s (b - a).toNat
    rw [hlen] at hs1 he1
    constructor
    · intro sel hsel
      simp only [axisSel, hidx] at hsel
      injection hsel with hsel
      subst hsel
      have hd : ¬ (b - a < 0) := by omega
      have h1 : ¬ (s.posStop (b - a).toNat < 0) := by omega
      have h2 : ¬ (a + s.posStop (b - a).toNat > b) := by omega
      have h3 : ¬ (s.stepOf < 0) := by omega
      have h4 : ¬ (a + s.posStart (b - a).toNat < a) := by omega
      refine ⟨.slice ⟨some (a + s.posStart (b - a).toNat), some (a + s.posStop (b - a).toNat),
        some s.stepOf⟩, ?_, rfl, ?_, ?_, ?_⟩
      · simp [transformAxis, hd, hidx, h1, h2, h3, h4]
      · simp [IxPos, PySlice.PosStep]; omega
      · have hn := indices_normal (a + s.posStart (b - a).toNat) (a + s.posStop (b - a).toNat)
          s.stepOf n hk (by omega) (by omega) (by omega) (by omega)
        simp only [axisSel, hn, AxisSel.shift, rangeLen_shift]
      · have hn := indices_normal (a + s.posStart (b - a).toNat) (a + s.posStop (b - a).toNat)
          s.stepOf n hk (by omega) (by omega) (by omega) (by omega)
        have h5 : ¬ (s.stepOf < 1) := by omega
        simp only [h5Axis, hn, h5, if_false, AxisSel.shift, rangeLen_shift]
    · intro e he
      simp [axisSel, hidx] at he

/-! ### the tuple -/

def offsetsOf (ws : List Win) : List Int := ws.map fun w => w.1
def extentsOf (ws : List Win) : List Nat := ws.map fun w => (w.2 - w.1).toNat

/-- h5py's scan of a tuple without ellipsis that names every remaining dimension is the
axis-by-axis selection -/
theorem tuple_transform (rank : Nat) (seen : Bool) (nargs : Nat) (ws : List Win) (shape : List Nat)
    (hw : WindowsIn ws shape) (full : List Ix) (hlen : full.length = ws.length)
    (hne : NoEllipsis full) (hp : PosSteps full) :
    (∀ sel, selectAxes (extentsOf ws) full = .ok sel →
      ∃ tix, transformAxes ws full = .ok tix ∧ tix.length = shape.length ∧ NoEllipsis tix ∧
        PosSteps tix ∧ selectAxes shape tix = .ok (shiftSel (offsetsOf ws) sel) ∧
        h5Scan rank shape seen nargs tix = .ok (shiftSel (offsetsOf ws) sel)) ∧
    (∀ e, selectAxes (extentsOf ws) full = .error e →
      e = .indexError ∧ transformAxes ws full = .error .outOfBounds) := by
  induction ws generalizing shape full with
  | nil =>
    cases shape with
    | cons n shape => simp [WindowsIn] at hw
    | nil =>
      cases full with
      | cons i full => simp at hlen
      | nil =>
        constructor
        · intro sel hsel
          simp [selectAxes, extentsOf] at hsel
          subst hsel
          exact ⟨[], rfl, rfl, (fun i hi => nomatch hi), (fun i hi => nomatch hi), rfl, rfl⟩
        · intro e he
          simp [selectAxes, extentsOf] at he
  | cons w ws ih =>
    cases shape with
    | nil => simp [WindowsIn] at hw
    | cons n shape =>
      cases full with
      | nil => simp at hlen
      | cons i full =>
        obtain ⟨hw1, hw2⟩ := hw
        have hi : i.isEllipsis = false := hne i (by simp)
        have hpi : IxPos i := hp i (by simp)
        have hne' : NoEllipsis full := fun j hj => hne j (by simp [hj])
        have hp' : PosSteps full := fun j hj => hp j (by simp [hj])
        have hlen' : full.length = ws.length := by simpa using hlen
        obtain ⟨ax1, ax2⟩ := axis_transform w n hw1 i hi hpi
        obtain ⟨ih1, ih2⟩ := ih shape hw2 full hlen' hne' hp'
        constructor
        · intro sel hsel
          simp only [extentsOf, List.map_cons, selectAxes] at hsel
          split at hsel
          · cases hsel
          · rename_i a ha
            split at hsel
            · cases hsel
            · rename_i rest hrest
              injection hsel with hsel
              subst hsel
              obtain ⟨t, ht, hte, htp, hta, hth⟩ := ax1 a ha
              obtain ⟨tix, htix, hl, hn, hpp, hsa, hsc⟩ := ih1 rest hrest
              refine ⟨t :: tix, ?_, by simp [hl], ?_, ?_, ?_, ?_⟩
              · simp [transformAxes, ht, htix]
              · intro j hj
                cases hj with
                | head => exact hte
                | tail _ hj' => exact hn j hj'
              · intro j hj
                cases hj with
                | head => exact htp
                | tail _ hj' => exact hpp j hj'
              · simp [selectAxes, hta, hsa, shiftSel, offsetsOf]
              · cases t with
                | ellipsis => simp [Ix.isEllipsis] at hte
                | int k => simp [h5Scan, hth, hsc, shiftSel, offsetsOf]
                | slice s => simp [h5Scan, hth, hsc, shiftSel, offsetsOf]
        · intro e he
          simp only [extentsOf, List.map_cons, selectAxes] at he
          split at he
          · rename_i e1 he1
            injection he with he
            subst he
            obtain ⟨h1, h2⟩ := ax2 e1 he1
            exact ⟨h1, by simp [transformAxes, h2]⟩
          · rename_i a ha
            obtain ⟨t, ht, -⟩ := ax1 a ha
            split at he
            · rename_i e2 he2
              injection he with he
              subst he
              obtain ⟨h1, h2⟩ := ih2 e2 he2
              exact ⟨h1, by simp [transformAxes, ht, h2]⟩
            · cases he

theorem windowsIn_length (ws : List Win) (shape : List Nat) (h : WindowsIn ws shape) :
    ws.length = shape.length := by
  induction ws generalizing shape with
  | nil => cases shape <;> simp [WindowsIn] at h ⊢
  | cons w ws ih =>
    cases shape with
    | nil => simp [WindowsIn] at h
    | cons n shape => simp [ih shape h.2]

/-! ### window validity (`DataView.__init__`) -/

theorem allSome_map_some (ws : List Win) : allSome (ws.map some) = some ws := by
  induction ws with
  | nil => rfl
  | cons w ws ih => simp [allSome, ih]

theorem allSome_none_mem (sl : List (Option Win)) (h : none ∈ sl) : allSome sl = none := by
  induction sl with
  | nil => cases h
  | cons x sl ih =>
    cases x with
    | none => rfl
    | some w =>
      have : none ∈ sl := by simpa using h
      simp [allSome, ih this]

/-- the three tests of `__init__` together say: every window lies inside its dimension -/
theorem checks_iff (ws : List Win) (shape : List Nat) (hl : ws.length = shape.length) :
    (anyStopBeyond ws shape = false ∧ anyNegative ws = false) ↔ WindowsIn ws shape := by
  induction ws generalizing shape with
  | nil =>
    cases shape with
    | nil => simp [anyStopBeyond, anyNegative, WindowsIn]
    | cons n shape => simp at hl
  | cons w ws ih =>
    cases shape with
    | nil => simp at hl
    | cons n shape =>
      have hl' : ws.length = shape.length := by simpa using hl
      have := ih shape hl'
      simp only [anyStopBeyond, anyNegative, WindowsIn, WinIn, Bool.or_eq_false_iff,
        decide_eq_false_iff_not]
      rw [← this]
      constructor
      · rintro ⟨⟨h1, h2⟩, ⟨h3, h4⟩, h5⟩
        exact ⟨⟨by omega, by omega, by omega⟩, h2, h5⟩
      · rintro ⟨⟨h1, h2, h3⟩, h4, h5⟩
        exact ⟨⟨by omega, h4⟩, ⟨by omega, by omega⟩, h5⟩

/-- normalisation by `slice.indices` leaves an in-range window alone -/
theorem zipNorm_id (ws : List Win) (shape : List Nat) (h : WindowsIn ws shape) :
    zipNorm ws shape = ws := by
  induction ws generalizing shape with
  | nil => cases shape <;> simp [zipNorm]
  | cons w ws ih =>
    cases shape with
    | nil => simp [WindowsIn] at h
    | cons n shape =>
      obtain ⟨⟨h1, h2, h3⟩, h4⟩ := h
      simp only [zipNorm, normWin, ih shape h4]
      rw [clampBound_id _ _ h1 (by omega), clampBound_id _ _ (by omega) h3]

theorem mkView_some (shape : List Nat) (ws : List Win) :
    mkView shape (some (ws.map some)) =
      if ws.length ≠ shape.length then ⟨shape, false, ws⟩
      else if anyStopBeyond ws shape then ⟨shape, false, ws⟩
      else if anyNegative ws then ⟨shape, false, ws⟩
      else ⟨shape, true, zipNorm ws shape⟩ := by
  simp only [mkView, allSome_map_some]

theorem mkView_valid_iff (shape : List Nat) (ws : List Win) :
    (mkView shape (some (ws.map some))).valid = true ↔ WindowsIn ws shape := by
  rw [mkView_some]
  by_cases hl : ws.length = shape.length
  · have hc := checks_iff ws shape hl
    simp only [hl, ne_eq, not_true_eq_false, if_false]
    cases h1 : anyStopBeyond ws shape <;> cases h2 : anyNegative ws <;> simp [h1, h2] at hc ⊢ <;>
      first | exact hc | (intro h; exact hc h)
  · simp only [ne_eq, hl, not_false_eq_true, if_true]
    constructor
    · intro h; cases h
    · intro h; exact absurd (windowsIn_length ws shape h) hl

theorem mkView_ok (shape : List Nat) (ws : List Win) (h : WindowsIn ws shape) :
    mkView shape (some (ws.map some)) = ⟨shape, true, ws⟩ := by
  have hl := windowsIn_length ws shape h
  have hc := (checks_iff ws shape hl).mpr h
  rw [mkView_some]
  simp [hl, hc.1, hc.2, zipNorm_id ws shape h]

/-! ### reading the whole window -/

def windowSel (ws : List Win) : List AxisSel := ws.map fun w => .range w.1 1 (w.2 - w.1).toNat

theorem window_scan (rank : Nat) (seen : Bool) (nargs : Nat) (ws : List Win) (shape : List Nat)
    (h : WindowsIn ws shape) :
    h5Scan rank shape seen nargs (windowIx ws) = .ok (windowSel ws) ∧
      selectAxes shape (windowIx ws) = .ok (windowSel ws) := by
  induction ws generalizing shape with
  | nil => cases shape <;> simp [WindowsIn] at h <;> simp [windowIx, windowSel, h5Scan, selectAxes]
  | cons w ws ih =>
    cases shape with
    | nil => simp [WindowsIn] at h
    | cons n shape =>
      obtain ⟨⟨h1, h2, h3⟩, h4⟩ := h
      obtain ⟨i1, i2⟩ := ih shape h4
      have hn := indices_normal w.1 w.2 1 n (by omega) h1 (by omega) (by omega) h3
      have hr := rangeLen_unit' w.1 w.2 h2
      simp only [windowIx, List.map_cons, windowSel] at i1 i2 ⊢
      constructor
      · simp [h5Scan, h5Axis, hn, hr, i1]
      · simp [selectAxes, axisSel, hn, hr, i2]

theorem windowIx_noEllipsis (ws : List Win) : NoEllipsis (windowIx ws) := by
  intro i hi
  simp [windowIx] at hi
  obtain ⟨a, b, _, rfl⟩ := hi
  rfl

/-! ### what the selections address -/

def addOffs : List Int → List Int → List Int
  | a :: offs, i :: m => (a + i) :: addOffs offs m
  | _, _ => []

/-- a multi-index inside a box of the given extents -/
def InBox : List Int → List Nat → Prop
  | [], [] => True
  | i :: m, n :: shape => (0 ≤ i ∧ i < (n : Int)) ∧ InBox m shape
  | _, _ => False

theorem selIndices_shift (offs : List Int) (sel : List AxisSel) (h : sel.length = offs.length) :
    selIndices (shiftSel offs sel) = (selIndices sel).map (addOffs offs) := by
  induction offs generalizing sel with
  | nil =>
    cases sel with
    | nil => simp [shiftSel, selIndices, addOffs]
    | cons s sel => simp at h
  | cons a offs ih =>
    cases sel with
    | nil => simp at h
    | cons s sel =>
      have h' : sel.length = offs.length := by simpa using h
      simp only [shiftSel, selIndices, ih sel h']
      cases s with
      | pick i => simp [AxisSel.shift, AxisSel.indices, addOffs, List.flatMap]
      | range st k n =>
        simp only [AxisSel.shift, AxisSel.indices, progression_shift]
        simp [List.flatMap_map, List.map_flatMap, addOffs, Function.comp_def]

theorem axisSel_in_range (len : Nat) (i : Ix) (hp : IxPos i) (sel : AxisSel)
    (h : axisSel len i = .ok sel) : ∀ x ∈ sel.indices, 0 ≤ x ∧ x < (len : Int) := by
  cases i with
  | ellipsis => simp [axisSel] at h
  | int k =>
    simp only [axisSel] at h
    generalize (if k < 0 then k + (len : Int) else k) = j at h
    by_cases hr : (j < 0 ∨ j ≥ (len : Int))
    · rw [if_pos hr] at h; cases h
    · rw [if_neg hr] at h
      injection h with h
      subst h
      intro x hx
      simp [AxisSel.indices] at hx
      subst hx
      omega
  | slice s =>
    have hs : s.PosStep := hp
    have hidx := indices_pos_eq s len hs
    simp only [axisSel, hidx] at h
    injection h with h
    subst h
    intro x hx
    have hk := stepOf_pos s hs
    have := mem_pyRange_pos _ _ _ hk x hx
    have := posStart_bounds s len
    have := posStop_bounds s len
    omega

theorem selectAxes_in_box (shape : List Nat) (full : List Ix) (hp : PosSteps full)
    (sel : List AxisSel) (h : selectAxes shape full = .ok sel) :
    sel.length = shape.length ∧ ∀ m ∈ selIndices sel, InBox m shape := by
  induction shape generalizing full sel with
  | nil =>
    cases full with
    | nil =>
      simp [selectAxes] at h
      subst h
      simp [selIndices, InBox]
    | cons i full => simp [selectAxes] at h
  | cons n shape ih =>
    cases full with
    | nil => simp [selectAxes] at h
    | cons i full =>
      simp only [selectAxes] at h
      split at h
      · cases h
      · rename_i a ha
        split at h
        · cases h
        · rename_i rest hrest
          injection h with h
          subst h
          have hpi : IxPos i := hp i (by simp)
          have hp' : PosSteps full := fun j hj => hp j (by simp [hj])
          obtain ⟨hl, hb⟩ := ih full hp' rest hrest
          refine ⟨by simp [hl], ?_⟩
          intro m hm
          simp only [selIndices, List.mem_flatMap, List.mem_map] at hm
          obtain ⟨x, hx, m', hm', rfl⟩ := hm
          exact ⟨axisSel_in_range n i hpi a ha x hx, hb m' hm'⟩

theorem selShape_shift (offs : List Int) (sel : List AxisSel) (h : sel.length = offs.length) :
    selShape (shiftSel offs sel) = selShape sel := by
  induction offs generalizing sel with
  | nil =>
    cases sel with
    | nil => rfl
    | cons s sel => simp at h
  | cons a offs ih =>
    cases sel with
    | nil => simp at h
    | cons s sel =>
      have h' : sel.length = offs.length := by simpa using h
      cases s <;> simp [shiftSel, AxisSel.shift, selShape, ih sel h']

/-- facts about the shifted selection used by the read and write theorems -/
theorem shift_facts (v : View) (hv : ViewOK v) (ix : List Ix) (hp : PosSteps ix)
    (sel : List AxisSel) (h : npSelect v.extents ix = .ok sel) :
    selIndices (shiftSel v.offsets sel) = (selIndices sel).map (addOffs v.offsets) ∧
    resultShape (shiftSel v.offsets sel) = resultShape sel ∧
    (∀ m ∈ selIndices sel, InBox m v.extents) := by
  unfold npSelect at h
  split at h
  · cases h
  · rename_i full hfull
    obtain ⟨_, _, hps⟩ := expandIx_ok _ _ _ hfull
    obtain ⟨hl, hb⟩ := selectAxes_in_box v.extents full (hps hp) sel h
    have hlen : sel.length = v.offsets.length := by
      rw [hl]; simp [View.extents, View.offsets]
    refine ⟨selIndices_shift _ _ hlen, ?_, hb⟩
    simp [resultShape, selShape_shift _ _ hlen]

/-- assigning `data` element by element to the addressed multi-indices of some content -/
def assign {α : Type} (content : List Int → α) : List (List Int) → List α → (List Int → α)
  | t :: ts, x :: xs => assign (fun m => if m = t then x else content m) ts xs
  | _, _ => content

/-- frame property: an element that is not addressed keeps its value -/
theorem assign_frame {α : Type} (content : List Int → α) (ts : List (List Int)) (xs : List α)
    (m : List Int) (h : m ∉ ts) : assign content ts xs m = content m := by
  induction ts generalizing content xs with
  | nil => cases xs <;> rfl
  | cons t ts ih =>
    cases xs with
    | nil => rfl
    | cons x xs =>
      have h1 : m ≠ t := fun hm => h (by simp [hm])
      have h2 : m ∉ ts := fun hm => h (by simp [hm])
      simp only [assign]
      rw [ih _ xs h2]
      simp [h1]

end Nix.DataView
